(** Value and shape specification of [a_matmul] (Model/Linalg.v), the model of
    [Array::matmul((a, ta), (b, tb), c)].

    Part 1: operands of rank >= 2 (batched, broadcast leading dimensions, transposition
            flags, optional additive term);
    Part 2: the rank-1 forms.

    No assumption on the scalar operations: the value is the literal expression
    [fadd c_ij (vsum [a_i0 * b_0j; ...; a_i(n-1) * b_(n-1)j])] computed by the triple loop,
    where [vsum l = fold_left fadd l f0]. *)

From Coq Require Import List Arith Bool Lia PeanoNat.
From Corgi Require Import Lib.OptionMonad Lib.IdxDefs Lib.Idx Model.Scalar Model.Arr
     Model.SlicedOp Model.Elementwise Model.Linalg Proofs.ArrFacts Proofs.BroadcastDims
     Proofs.SpecDefs Proofs.SlicedOpSpec Proofs.EwSpec.
Import ListNotations.

(** * Lists *)

Section MMLists.
  Context {A : Type}.

  Lemma nth_as_nth_error : forall (l : list A) i d,
      nth i l d = match nth_error l i with Some x => x | None => d end.
  Proof.
    induction l as [|x l IH]; intros [|i] d; simpl; try reflexivity. apply IH.
  Qed.

  Lemma nth_error_some_nth : forall (l : list A) i d,
      i < length l -> nth_error l i = Some (nth i l d).
  Proof. intros l i d H. apply nth_error_nth'. exact H. Qed.

  Lemma nth_block : forall g j (l : list A) x d,
      x < g -> nth x (block g j l) d = nth (g * j + x) l d.
  Proof.
    intros g j l x d Hx. rewrite !nth_as_nth_error, nth_error_block by exact Hx. reflexivity.
  Qed.

  Lemma block_zero_all : forall (l : list A), block (length l) 0 l = l.
  Proof.
    intros l. unfold block. rewrite Nat.mul_0_r. cbn [skipn]. apply firstn_all.
  Qed.

  Lemma mapM_some_map : forall {B} (f : A -> option B) (g : A -> B) l,
      (forall x, In x l -> f x = Some (g x)) -> mapM f l = Some (map g l).
  Proof.
    intros B f g l. induction l as [|x l IH]; intros H; [reflexivity|].
    cbn [mapM map]. rewrite (H x (or_introl eq_refl)). cbn [obind].
    rewrite IH by (intros y Hy; apply H; right; exact Hy). reflexivity.
  Qed.

  Lemma mapM_head_none : forall {B} (f : A -> option B) x l, f x = None -> mapM f (x :: l) = None.
  Proof. intros B f x l H. cbn [mapM]. rewrite H. reflexivity. Qed.
End MMLists.

Lemma nth_error_map_seq : forall {B} (g : nat -> B) m p,
    p < m -> nth_error (map g (seq 0 m)) p = Some (g p).
Proof.
  intros B g m p Hp. rewrite nth_error_map.
  rewrite (nth_error_some_nth (seq 0 m) p 0) by (rewrite seq_length; exact Hp).
  rewrite seq_nth by exact Hp. reflexivity.
Qed.

Lemma nth_map_seq : forall {B} (g : nat -> B) m p d,
    p < m -> nth p (map g (seq 0 m)) d = g p.
Proof.
  intros B g m p d Hp. rewrite nth_as_nth_error, nth_error_map_seq by exact Hp. reflexivity.
Qed.

Lemma divmod_pos : forall i j cols, j < cols -> (i * cols + j) / cols = i /\ (i * cols + j) mod cols = j.
Proof.
  intros i j cols Hj. split.
  - rewrite Nat.div_add_l by lia. rewrite Nat.div_small by exact Hj. lia.
  - rewrite Nat.add_comm, Nat.mod_add by lia. apply Nat.mod_small. exact Hj.
Qed.

(** * The triple loop *)

Section Slice.
  Context {F : Type} (O : ScalarOps F).

  (** flat offsets read by the triple loop *)
  Definition a_off (rows n : nat) (ta : bool) (i k : nat) : nat :=
    if ta then k * rows + i else i * n + k.
  Definition b_off (cols n : nat) (tb : bool) (k j : nat) : nat :=
    if tb then j * n + k else k * cols + j.

  Lemma a_off_lt : forall rows n ta i k, i < rows -> k < n -> a_off rows n ta i k < rows * n.
  Proof. intros rows n ta i k Hi Hk. unfold a_off. destruct ta; nia. Qed.

  Lemma b_off_lt : forall cols n tb k j, j < cols -> k < n -> b_off cols n tb k j < n * cols.
  Proof. intros cols n tb k j Hj Hk. unfold b_off. destruct tb; nia. Qed.

  (** the value of output position [(i, j)] *)
  Definition mm_entry (rows cols n : nat) (ta tb : bool) (cur sa sb : list F) (i j : nat) : F :=
    fadd O (nth (i * cols + j) cur (f0 O))
         (vsum O (map (fun k => fmul O (nth (a_off rows n ta i k) sa (f0 O))
                                      (nth (b_off cols n tb k j) sb (f0 O)))
                      (seq 0 n))).

  Lemma matmul_slice_spec : forall rows cols n ta tb (cur sa sb : list F),
      length cur = rows * cols -> length sa = rows * n -> length sb = n * cols ->
      exists new,
        matmul_slice O rows cols n ta tb cur sa sb = Some new /\ length new = rows * cols /\
        forall i j, i < rows -> j < cols ->
          nth_error new (i * cols + j) = Some (mm_entry rows cols n ta tb cur sa sb i j).
  Proof.
    intros rows cols n ta tb cur sa sb Hcur Hsa Hsb.
    set (g := fun p => mm_entry rows cols n ta tb cur sa sb (p / cols) (p mod cols)).
    exists (map g (seq 0 (rows * cols))).
    split; [|split].
    - unfold matmul_slice. apply mapM_some_map. intros p Hp. apply in_seq in Hp.
      assert (Hc : 1 <= cols) by nia.
      assert (Hi : p / cols < rows) by (apply Nat.div_lt_upper_bound; lia).
      assert (Hj : p mod cols < cols) by (apply Nat.mod_upper_bound; lia).
      rewrite (mapM_some_map _
                 (fun k => fmul O (nth (a_off rows n ta (p / cols) k) sa (f0 O))
                                  (nth (b_off cols n tb k (p mod cols)) sb (f0 O)))).
      + cbn [obind]. rewrite (nth_error_some_nth cur p (f0 O)) by lia. cbn [obind].
        unfold g, mm_entry.
        pose proof (Nat.div_mod p cols ltac:(lia)) as Hdm.
        replace (p / cols * cols + p mod cols) with p by lia. reflexivity.
      + intros k Hk. apply in_seq in Hk.
        fold (a_off rows n ta (p / cols) k). fold (b_off cols n tb k (p mod cols)).
        rewrite (nth_error_some_nth sa _ (f0 O))
          by (rewrite Hsa; apply a_off_lt; [exact Hi|lia]).
        rewrite (nth_error_some_nth sb _ (f0 O))
          by (rewrite Hsb; apply b_off_lt; [exact Hj|lia]).
        reflexivity.
    - rewrite map_length, seq_length. reflexivity.
    - intros i j Hi Hj. rewrite nth_error_map_seq by nia. unfold g.
      destruct (divmod_pos i j cols Hj) as [-> ->]. reflexivity.
  Qed.

  (** pre-filling the output block with the (cycled) additive term *)
  Lemma cyc_fill_length : forall cur s : list F, s <> [] -> length (cyc_fill O cur s) = length cur.
  Proof.
    intros cur [|x s] H; [congruence|]. unfold cyc_fill. rewrite map_length, seq_length. reflexivity.
  Qed.

  Lemma cyc_fill_nth : forall (cur s : list F) p,
      s <> [] -> p < length cur ->
      nth p (cyc_fill O cur s) (f0 O) = nth (p mod length s) s (f0 O).
  Proof.
    intros cur [|x s] p H Hp; [congruence|]. unfold cyc_fill.
    rewrite nth_map_seq by exact Hp. reflexivity.
  Qed.

  (** the additive term read at output position [(i, j)] of every block *)
  Definition bias_entry (set_output : bool) (cols : nat) (sc : list F) (i j : nat) : F :=
    if set_output then nth ((i * cols + j) mod length sc) sc (f0 O) else f0 O.

  Definition mm_value (set_output : bool) (rows cols n : nat) (ta tb : bool)
             (sa sb sc : list F) (i j : nat) : F :=
    fadd O (bias_entry set_output cols sc i j)
         (vsum O (map (fun k => fmul O (nth (a_off rows n ta i k) sa (f0 O))
                                      (nth (b_off cols n tb k j) sb (f0 O)))
                      (seq 0 n))).

  Lemma matmul_sop_spec : forall set_output rows cols n ta tb (sa sb sc : list F),
      length sa = rows * n -> length sb = n * cols -> sc <> [] ->
      exists new,
        matmul_sop O set_output rows cols n ta tb (repeat (f0 O) (rows * cols)) [sa; sb; sc]
        = Some new /\ length new = rows * cols /\
        forall i j, i < rows -> j < cols ->
          nth_error new (i * cols + j)
          = Some (mm_value set_output rows cols n ta tb sa sb sc i j).
  Proof.
    intros set_output rows cols n ta tb sa sb sc Hsa Hsb Hsc. unfold matmul_sop.
    set (cur := repeat (f0 O) (rows * cols)).
    set (cur' := if set_output then cyc_fill O cur sc else cur).
    assert (Hcur : length cur = rows * cols) by apply repeat_length.
    assert (Hcur' : length cur' = rows * cols).
    { unfold cur'. destruct set_output; [rewrite cyc_fill_length by exact Hsc|]; exact Hcur. }
    destruct (matmul_slice_spec rows cols n ta tb cur' sa sb Hcur' Hsa Hsb)
      as (new & Hnew & Hlen & Hval).
    exists new. split; [exact Hnew|]. split; [exact Hlen|].
    intros i j Hi Hj. rewrite (Hval i j Hi Hj). unfold mm_entry, mm_value. f_equal. f_equal.
    unfold cur', bias_entry. destruct set_output.
    - apply cyc_fill_nth; [exact Hsc|]. rewrite Hcur. nia.
    - unfold cur. apply nth_repeat.
  Qed.
End Slice.

(** * Shapes with the last two dimensions split off *)

Lemma length_snoc2 : forall {A} (l : list A) x y, length (l ++ [x; y]) = length l + 2.
Proof. intros. rewrite app_length. reflexivity. Qed.

Lemma firstn_snoc2 : forall {A} (l : list A) x y, firstn (length (l ++ [x; y]) - 2) (l ++ [x; y]) = l.
Proof.
  intros A l x y. rewrite length_snoc2. replace (length l + 2 - 2) with (length l) by lia.
  rewrite firstn_app, Nat.sub_diag, firstn_all. cbn [firstn]. apply app_nil_r.
Qed.

Lemma firstn_len_snoc2 : forall {A} (l : list A) x y, firstn (length l) (l ++ [x; y]) = l.
Proof.
  intros A l x y. rewrite firstn_app, Nat.sub_diag, firstn_all. cbn [firstn]. apply app_nil_r.
Qed.

Lemma skipn_len_snoc2 : forall {A} (l : list A) x y, skipn (length l) (l ++ [x; y]) = [x; y].
Proof. intros A l x y. rewrite skipn_app, Nat.sub_diag, skipn_all. reflexivity. Qed.

Lemma lastn2_snoc2 : forall {A} (l : list A) x y, lastn 2 (l ++ [x; y]) = [x; y].
Proof.
  intros A l x y. unfold lastn. rewrite length_snoc2.
  replace (length l + 2 - 2) with (length l) by lia. apply skipn_len_snoc2.
Qed.

Lemma dim_back_snoc2_1 : forall l x y, dim_back (l ++ [x; y]) 1 = Some y.
Proof.
  intros l x y. unfold dim_back. rewrite length_snoc2.
  assert (E : (1 <=? length l + 2) = true) by (apply Nat.leb_le; lia). rewrite E. cbn [guard obind].
  replace (length l + 2 - 1) with (length l + 1) by lia.
  rewrite nth_error_app_ge by lia. replace (length l + 1 - length l) with 1 by lia. reflexivity.
Qed.

Lemma dim_back_snoc2_2 : forall l x y, dim_back (l ++ [x; y]) 2 = Some x.
Proof.
  intros l x y. unfold dim_back. rewrite length_snoc2.
  assert (E : (2 <=? length l + 2) = true) by (apply Nat.leb_le; lia). rewrite E. cbn [guard obind].
  replace (length l + 2 - 2) with (length l) by lia.
  rewrite nth_error_app_ge by lia. rewrite Nat.sub_diag. reflexivity.
Qed.

Lemma rowmajor_snoc2 : forall d I x y i j,
    length d = length I ->
    rowmajor (d ++ [x; y]) (I ++ [i; j]) = rowmajor d I * (x * y) + (i * y + j).
Proof.
  intros d I x y i j H. rewrite rowmajor_app by exact H. cbn [rowmajor prod fold_right]. lia.
Qed.

Lemma in_range_snoc2 : forall I d i j x y,
    in_range I d -> i < x -> j < y -> in_range (I ++ [i; j]) (d ++ [x; y]).
Proof.
  intros I d i j x y HI Hi Hj. unfold in_range in *. apply Forall2_app; [exact HI|].
  constructor; [exact Hi|]. constructor; [exact Hj|constructor].
Qed.

Section Snoc2.
  Context {F : Type}.

  Lemma lead_dims_snoc2 : forall (a : arr F) d x y, dims a = d ++ [x; y] -> lead_dims 2 a = d.
  Proof. intros a d x y E. unfold lead_dims. rewrite E. apply firstn_snoc2. Qed.

  Lemma group_length_snoc2 : forall (a : arr F) d x y,
      dims a = d ++ [x; y] -> group_length 2 a = x * y.
  Proof.
    intros a d x y E. unfold group_length. rewrite E, lastn2_snoc2. cbn [prod fold_right]. lia.
  Qed.

  Lemma wf_snoc2 : forall (a : arr F) d x y,
      wf a -> dims a = d ++ [x; y] ->
      Forall (fun v => 1 <= v) d /\ 1 <= x /\ 1 <= y /\ length (vals a) = prod d * (x * y).
  Proof.
    intros a d x y [Hp Hl] E. rewrite E in Hp, Hl. apply Forall_app in Hp. destruct Hp as [Hd Hxy].
    inversion Hxy as [|? ? Hx Hy']; subst. inversion Hy' as [|? ? Hy _]; subst.
    rewrite prod_app in Hl. cbn [prod fold_right] in Hl.
    split; [exact Hd|]. split; [exact Hx|]. split; [exact Hy|]. lia.
  Qed.

  Lemma sliced_valid_snoc2 : forall (a : arr F) d x y lead p q,
      dims a = d ++ [x; y] -> sub_lead d lead -> sliced_valid 2 (lead ++ [p; q]) a = true.
  Proof.
    intros a d x y lead p q E Hsub. apply sliced_valid_spec.
    - rewrite E, !length_snoc2. destruct Hsub as [Hl _]. lia.
    - rewrite (lead_dims_snoc2 a d x y E), firstn_snoc2. exact Hsub.
  Qed.

  (** operands of rank at most 2 have no leading part *)
  Lemma lead_dims_low : forall (c : arr F), length (dims c) <= 2 -> lead_dims 2 c = [].
  Proof.
    intros c H. unfold lead_dims. replace (length (dims c) - 2) with 0 by lia. reflexivity.
  Qed.

  Lemma group_length_low : forall (c : arr F), length (dims c) <= 2 -> group_length 2 c = prod (dims c).
  Proof.
    intros c H. unfold group_length, lastn. replace (length (dims c) - 2) with 0 by lia. reflexivity.
  Qed.

  Lemma sub_lead_nil : forall lead, sub_lead [] lead.
  Proof.
    intros lead. split; [cbn [length]; lia|]. cbn [length]. unfold lastn.
    rewrite Nat.sub_0_r, skipn_all. constructor.
  Qed.

  Lemma sliced_valid_low : forall (c : arr F) in_dims,
      length (dims c) <= 2 -> sliced_valid 2 in_dims c = true.
  Proof.
    intros c in_dims H. unfold sliced_valid.
    replace (skipn 2 (rev (dims c))) with (@nil nat); [reflexivity|].
    symmetry. apply skipn_all2. rewrite rev_length. exact H.
  Qed.

  Lemma operand_slice_low : forall lead i (c : arr F),
      wf c -> length (dims c) <= 2 -> Forall (fun v => 1 <= v) lead ->
      operand_slice 2 (length lead) (unrank lead i) c = Some (vals c).
  Proof.
    intros lead i c Hw Hr Hlead.
    rewrite (operand_slice_spec 2 (length lead) lead i c Hw Hlead eq_refl)
      by (rewrite lead_dims_low by exact Hr; apply sub_lead_nil).
    rewrite lead_dims_low, group_length_low by exact Hr. rewrite bclamp_nil.
    destruct Hw as [_ Hl]. rewrite Hl. cbn [rowmajor]. rewrite block_zero_all. reflexivity.
  Qed.
End Snoc2.

(** * The shape derivation for operands of rank >= 2 *)

Definition mm_rows (ta : bool) (ar ac : nat) : nat := if ta then ac else ar.
Definition mm_inner_a (ta : bool) (ar ac : nat) : nat := if ta then ar else ac.
Definition mm_inner_b (tb : bool) (br bc : nat) : nat := if tb then bc else br.
Definition mm_cols (tb : bool) (br bc : nat) : nat := if tb then br else bc.

Lemma ltb_snoc2 : forall {A} (l : list A) x y, (length (l ++ [x; y]) <? 2) = false.
Proof. intros. rewrite length_snoc2. apply Nat.ltb_ge. lia. Qed.

Lemma leb_snoc2 : forall {A} (l : list A) x y n, n <= 2 -> (n <=? length (l ++ [x; y])) = true.
Proof. intros. rewrite length_snoc2. apply Nat.leb_le. lia. Qed.

Lemma matmul_dims_rank2 : forall la ar ac ta lb br bc tb,
    exists p q,
      matmul_dims (la ++ [ar; ac]) ta (lb ++ [br; bc]) tb =
      (lead <- element_wise_dimensions la lb ;;
       check (mm_inner_a ta ar ac =? mm_inner_b tb br bc) ;;
       Some {| ms_in := lead ++ [p; q];
               ms_out := lead ++ [mm_rows ta ar ac; mm_cols tb br bc];
               ms_rows := mm_rows ta ar ac; ms_cols := mm_cols tb br bc;
               ms_sum := mm_inner_a ta ar ac |}).
Proof.
  intros la ar ac ta lb br bc tb.
  assert (Hl : exists p q,
             lastn 2 (if length (lb ++ [br; bc]) <=? length (la ++ [ar; ac])
                      then la ++ [ar; ac] else lb ++ [br; bc]) = [p; q]).
  { destruct (length (lb ++ [br; bc]) <=? length (la ++ [ar; ac]));
      rewrite lastn2_snoc2; eexists; eexists; reflexivity. }
  destruct Hl as (p & q & Hl). exists p, q.
  unfold matmul_dims. cbv zeta. rewrite !firstn_snoc2, Hl.
  destruct (element_wise_dimensions la lb) as [lead|]; cbn [obind]; [|reflexivity].
  rewrite !ltb_snoc2. cbn [andb].
  rewrite firstn_snoc2.
  assert (Ea : (length (la ++ [ar; ac]) <? (if ta then 2 else 1)) = false).
  { rewrite length_snoc2. apply Nat.ltb_ge. destruct ta; lia. }
  assert (Eb : ((if tb then 1 else 2) <=? length (lb ++ [br; bc])) = true).
  { apply leb_snoc2. destruct tb; lia. }
  rewrite Ea, Eb.
  assert (Hr : dim_back (la ++ [ar; ac]) (if ta then 1 else 2) = Some (mm_rows ta ar ac)).
  { destruct ta; [apply dim_back_snoc2_1|apply dim_back_snoc2_2]. }
  assert (Hc : dim_back (lb ++ [br; bc]) (if tb then 2 else 1) = Some (mm_cols tb br bc)).
  { destruct tb; [apply dim_back_snoc2_2|apply dim_back_snoc2_1]. }
  assert (Hs : dim_back (la ++ [ar; ac]) (if ta then 2 else 1) = Some (mm_inner_a ta ar ac)).
  { destruct ta; [apply dim_back_snoc2_2|apply dim_back_snoc2_1]. }
  assert (Hd : dim_back (lb ++ [br; bc]) (if tb then 1 else 2) = Some (mm_inner_b tb br bc)).
  { destruct tb; [apply dim_back_snoc2_1|apply dim_back_snoc2_2]. }
  rewrite Hr, Hc, Hs, Hd. cbn [obind].
  destruct (guard (mm_inner_a ta ar ac =? mm_inner_b tb br bc)) as [[]|]; reflexivity.
Qed.

(** * Part 1: operands of rank >= 2 *)

Section MatmulSpec.
  Context {F : Type} (O : ScalarOps F).

  (** total element access; [get_getd] relates it to the checked access [get] *)
  Definition getd (a : arr F) (I : list nat) : F := nth (rowmajor (dims a) I) (vals a) (f0 O).

  Lemma get_getd : forall (a : arr F) I, wf a -> in_range I (dims a) -> get a I = Some (getd a I).
  Proof.
    intros a I [_ Hl] HI. unfold get, getd. apply nth_error_some_nth.
    rewrite <- Hl. apply rowmajor_lt_prod. exact HI.
  Qed.

  (** the multi-indices of [a] and [b] read for the entry [(i, j)] of batch [J] *)
  Definition a_idx (ta : bool) (la J : list nat) (i k : nat) : list nat :=
    bclamp la J ++ (if ta then [k; i] else [i; k]).
  Definition b_idx (tb : bool) (lb J : list nat) (k j : nat) : list nat :=
    bclamp lb J ++ (if tb then [j; k] else [k; j]).

  (** the additive term, as the cycled flat buffer *)
  Definition bias_flat (c : option (arr F)) (cols i j : nat) : F :=
    match c with
    | None => f0 O
    | Some c' => nth ((i * cols + j) mod length (vals c')) (vals c') (f0 O)
    end.

  Definition bias_admissible (c : option (arr F)) (rows cols : nat) : Prop :=
    match c with
    | None => True
    | Some c' => wf c' /\ length (dims c') <= 2 /\ bias_ok c' rows cols = true
    end.

  Lemma block_entry : forall (a : arr F) d x y I i j,
      dims a = d ++ [x; y] -> length d = length I -> i < x -> j < y ->
      nth (i * y + j) (block (x * y) (rowmajor d I) (vals a)) (f0 O) = getd a (I ++ [i; j]).
  Proof.
    intros a d x y I i j E Hlen Hi Hj. rewrite nth_block by nia. unfold getd.
    rewrite E, rowmajor_snoc2 by exact Hlen. f_equal. lia.
  Qed.

  Lemma wf_zeros1 : wf (zeros1 O).
  Proof. split; cbn; [constructor; [lia|constructor]|reflexivity]. Qed.

  Lemma wf_vals_nonempty : forall (c : arr F), wf c -> vals c <> [].
  Proof.
    intros c [Hp Hl] E. rewrite E in Hl. cbn [length] in Hl.
    pose proof (prod_pos _ Hp). lia.
  Qed.

  (** the post-condition shared by all the value theorems: [ct i j] is the additive term *)
  Definition matmul_post (a : arr F) (ta : bool) (b : arr F) (tb : bool) (c : option (arr F))
             (la lb : list nat) (rows cols inner : nat) (ct : nat -> nat -> F) : Prop :=
    exists r,
      a_matmul O a ta b tb c = Some r /\ wf r /\ dims r = bmax la lb ++ [rows; cols] /\
      forall J i j, in_range J (bmax la lb) -> i < rows -> j < cols ->
        (forall k, k < inner ->
                   in_range (a_idx ta la J i k) (dims a) /\ in_range (b_idx tb lb J k j) (dims b)) /\
        get r (J ++ [i; j])
        = Some (fadd O (ct i j)
                     (vsum O (map (fun k => fmul O (getd a (a_idx ta la J i k))
                                                  (getd b (b_idx tb lb J k j)))
                                  (seq 0 inner)))).

  Theorem matmul_core : forall (a : arr F) ta (b : arr F) tb c la ar ac lb br bc,
      wf a -> wf b -> dims a = la ++ [ar; ac] -> dims b = lb ++ [br; bc] ->
      mm_inner_a ta ar ac = mm_inner_b tb br bc -> bcompat la lb ->
      bias_admissible c (mm_rows ta ar ac) (mm_cols tb br bc) ->
      matmul_post a ta b tb c la lb (mm_rows ta ar ac) (mm_cols tb br bc) (mm_inner_a ta ar ac)
                  (bias_flat c (mm_cols tb br bc)).
  Proof.
    intros a ta b tb c la ar ac lb br bc Hwa Hwb Ea Eb Hinner Hcomp Hbias.
    destruct (wf_snoc2 a la ar ac Hwa Ea) as (Hpla & Har & Hac & Hva).
    destruct (wf_snoc2 b lb br bc Hwb Eb) as (Hplb & Hbr & Hbc & Hvb).
    set (rows := mm_rows ta ar ac) in *. set (cols := mm_cols tb br bc) in *.
    set (n := mm_inner_a ta ar ac) in *. set (lead := bmax la lb).
    assert (Hrows : 1 <= rows) by (unfold rows, mm_rows; destruct ta; assumption).
    assert (Hcols : 1 <= cols) by (unfold cols, mm_cols; destruct tb; assumption).
    assert (Hga : ar * ac = rows * n) by (unfold rows, n, mm_rows, mm_inner_a; destruct ta; lia).
    assert (Hgb : br * bc = n * cols).
    { rewrite Hinner. unfold cols, mm_cols, mm_inner_b. destruct tb; lia. }
    assert (Hewd : element_wise_dimensions la lb = Some lead).
    { apply element_wise_dimensions_spec. split; [exact Hcomp|reflexivity]. }
    assert (Hsa : sub_lead la lead) by (apply bmax_sub_lead_l; assumption).
    assert (Hsb : sub_lead lb lead) by (apply bmax_sub_lead_r; assumption).
    assert (Hlead : Forall (fun x => 1 <= x) lead) by (apply bmax_pos; assumption).
    (* the additive operand *)
    set (set_output := match c with Some _ => true | None => false end).
    set (c' := match c with Some c' => c' | None => zeros1 O end).
    assert (Hwc : wf c') by (unfold c'; destruct c as [c0|]; [apply Hbias|apply wf_zeros1]).
    assert (Hrc : length (dims c') <= 2).
    { unfold c'. destruct c as [c0|]; [apply Hbias|cbn; lia]. }
    assert (Hnc : vals c' <> []) by (apply wf_vals_nonempty; exact Hwc).
    (* unfolding [a_matmul] down to [sliced_op] *)
    destruct (matmul_dims_rank2 la ar ac ta lb br bc tb) as (p & q & Hmd).
    assert (Hunf : a_matmul O a ta b tb c
                   = sliced_op O [a; b; c'] (matmul_sop O set_output rows cols n ta tb)
                               (lead ++ [p; q]) (lead ++ [rows; cols]) 2 0).
    { unfold a_matmul. rewrite Ea, Eb, Hmd, Hewd. cbn [obind].
      assert (Hg : (mm_inner_a ta ar ac =? mm_inner_b tb br bc) = true)
        by (apply Nat.eqb_eq; exact Hinner).
      rewrite Hg. cbn [guard obind ms_rows ms_cols ms_sum ms_in ms_out].
      assert (Hok : match c with Some c0 => bias_ok c0 (mm_rows ta ar ac) (mm_cols tb br bc)
                            | None => true end = true)
        by (destruct c as [c0|]; [apply Hbias|reflexivity]).
      rewrite Hok. reflexivity. }
    assert (E1 : length (lead ++ [p; q]) - 2 = length lead) by (rewrite length_snoc2; lia).
    assert (E2 : firstn (length lead) (lead ++ [p; q]) = lead) by apply firstn_len_snoc2.
    assert (E2' : firstn (length lead) (lead ++ [rows; cols]) = lead) by apply firstn_len_snoc2.
    assert (E3 : prod (skipn (length lead) (lead ++ [rows; cols])) = rows * cols).
    { rewrite skipn_len_snoc2. cbn [prod fold_right]. lia. }
    assert (Hpd : Forall (fun x => 1 <= x) (lead ++ [rows; cols])).
    { apply Forall_app. split; [exact Hlead|]. repeat constructor; assumption. }
    (* the operand slices of iteration [t] *)
    set (ja := fun idx => rowmajor la (bclamp la idx)).
    set (jb := fun idx => rowmajor lb (bclamp lb idx)).
    assert (Hja : forall idx, in_range idx lead -> ja idx < prod la).
    { intros idx Hidx. apply rowmajor_lt_prod. apply (bclamp_in_range la lead); assumption. }
    assert (Hjb : forall idx, in_range idx lead -> jb idx < prod lb).
    { intros idx Hidx. apply rowmajor_lt_prod. apply (bclamp_in_range lb lead); assumption. }
    assert (Hsl : forall t,
               mapM (operand_slice 2 (length lead) (unrank lead t)) [a; b; c']
               = Some [block (ar * ac) (ja (unrank lead t)) (vals a);
                       block (br * bc) (jb (unrank lead t)) (vals b);
                       vals c']).
    { intros t. cbn [mapM].
      rewrite (operand_slice_spec 2 (length lead) lead t a Hwa Hlead eq_refl)
        by (rewrite (lead_dims_snoc2 a la ar ac Ea); exact Hsa).
      rewrite (operand_slice_spec 2 (length lead) lead t b Hwb Hlead eq_refl)
        by (rewrite (lead_dims_snoc2 b lb br bc Eb); exact Hsb).
      rewrite (operand_slice_low lead t c' Hwc Hrc Hlead).
      rewrite (lead_dims_snoc2 a la ar ac Ea), (lead_dims_snoc2 b lb br bc Eb).
      rewrite (group_length_snoc2 a la ar ac Ea), (group_length_snoc2 b lb br bc Eb).
      reflexivity. }
    assert (Hop : forall idx, in_range idx lead ->
               exists new,
                 matmul_sop O set_output rows cols n ta tb (repeat (f0 O) (rows * cols))
                            [block (ar * ac) (ja idx) (vals a);
                             block (br * bc) (jb idx) (vals b); vals c'] = Some new /\
                 length new = rows * cols /\
                 forall i j, i < rows -> j < cols ->
                   nth_error new (i * cols + j)
                   = Some (mm_value O set_output rows cols n ta tb
                                    (block (ar * ac) (ja idx) (vals a))
                                    (block (br * bc) (jb idx) (vals b)) (vals c') i j)).
    { intros idx Hidx. apply matmul_sop_spec.
      - rewrite <- Hga. apply (block_length _ _ (prod la)); [exact Hva|apply Hja; exact Hidx].
      - rewrite <- Hgb. apply (block_length _ _ (prod lb)); [exact Hvb|apply Hjb; exact Hidx].
      - exact Hnc. }
    (* existence *)
    pose proof (sliced_op_nonacc_total O [a; b; c'] (matmul_sop O set_output rows cols n ta tb)
                                       (lead ++ [p; q]) (lead ++ [rows; cols]) 2 0
                                       (lead ++ [rows; cols])) as T.
    cbv zeta in T. rewrite E1, E2, E2', E3 in T.
    destruct T as (out & Hout); try reflexivity; try assumption.
    { cbn [forallb].
      rewrite (sliced_valid_snoc2 a la ar ac lead p q Ea Hsa).
      rewrite (sliced_valid_snoc2 b lb br bc lead p q Eb Hsb).
      rewrite (sliced_valid_low c' (lead ++ [p; q]) Hrc). reflexivity. }
    { intros t Ht.
      destruct (Hop (unrank lead t) (unrank_lt lead t Hlead)) as (new & Hn & Hlen & _).
      eexists. exists new. split; [apply Hsl|]. split; assumption. }
    set (r := {| dims := lead ++ [rows; cols]; vals := out |}) in *.
    exists r. split; [rewrite Hunf; exact Hout|].
    (* analysis of the result *)
    pose proof (sliced_op_nonacc O [a; b; c'] (matmul_sop O set_output rows cols n ta tb)
                                 (lead ++ [p; q]) (lead ++ [rows; cols]) 2 0 r) as S.
    cbv zeta in S. rewrite E1, E2, E2', E3 in S.
    apply (proj1 (S eq_refl Hlead)) in Hout. clear S.
    destruct Hout as (_ & out' & Hlen & Hb & Hmk).
    unfold flatten_dims in Hmk. cbn [Nat.eqb obind] in Hmk.
    apply mk_some in Hmk. destruct Hmk as (_ & Hpl & Hceq).
    assert (out' = out) by (unfold r in Hceq; congruence). subst out'.
    split; [split; [exact Hpd|exact Hpl]|].
    split; [reflexivity|].
    intros J i j HJ Hi Hj.
    assert (HlenJ : length J = length lead) by (eapply Forall2_len; exact HJ).
    assert (Hra : in_range (bclamp la J) la) by (apply (bclamp_in_range la lead); assumption).
    assert (Hrb : in_range (bclamp lb J) lb) by (apply (bclamp_in_range lb lead); assumption).
    assert (Hlca : length la = length (bclamp la J)) by (symmetry; eapply Forall2_len; exact Hra).
    assert (Hlcb : length lb = length (bclamp lb J)) by (symmetry; eapply Forall2_len; exact Hrb).
    split.
    - intros k Hk. unfold a_idx, b_idx. rewrite Ea, Eb. split.
      + unfold rows, n, mm_rows, mm_inner_a in Hi, Hk.
        destruct ta; apply in_range_snoc2; assumption.
      + assert (Hk' : k < mm_inner_b tb br bc) by (rewrite <- Hinner; exact Hk).
        unfold cols, mm_cols, mm_inner_b in Hj, Hk'.
        destruct tb; apply in_range_snoc2; assumption.
    - set (t := rowmajor lead J).
      assert (Ht : t < prod lead) by (apply rowmajor_lt_prod; exact HJ).
      assert (Hu : unrank lead t = J) by (apply unrank_rowmajor; exact HJ).
      destruct (Hb t Ht) as (slices & Hs & Hnew).
      rewrite Hsl in Hs. inversion Hs; subst slices. clear Hs. rewrite Hu in Hnew.
      destruct (Hop J HJ) as (new & Hn & _ & Hval).
      rewrite Hnew in Hn. inversion Hn; subst new. clear Hn.
      unfold get. cbn [dims vals r].
      rewrite rowmajor_snoc2 by (symmetry; exact HlenJ). fold t.
      specialize (Hval i j Hi Hj). rewrite nth_error_block in Hval by nia.
      rewrite Nat.mul_comm. rewrite Hval. unfold mm_value. f_equal. f_equal; [|f_equal].
      + unfold bias_entry, bias_flat, set_output, c'. destruct c; reflexivity.
      + apply map_ext_in. intros k Hk. apply in_seq in Hk.
        assert (Hk1 : k < n) by lia.
        assert (Hk2 : k < mm_inner_b tb br bc) by (rewrite <- Hinner; exact Hk1).
        f_equal.
        * unfold a_idx, a_off, ja. unfold rows, n, mm_rows, mm_inner_a in *.
          destruct ta; apply (block_entry a la ar ac); assumption.
        * unfold b_idx, b_off, jb. rewrite Hinner.
          unfold cols, mm_cols, mm_inner_b in *.
          destruct tb; apply (block_entry b lb br bc); assumption.
  Qed.
  Lemma matmul_post_ext : forall a ta b tb c la lb rows cols inner (ct1 ct2 : nat -> nat -> F),
      (forall i j, i < rows -> j < cols -> ct1 i j = ct2 i j) ->
      matmul_post a ta b tb c la lb rows cols inner ct1 ->
      matmul_post a ta b tb c la lb rows cols inner ct2.
  Proof.
    intros a ta b tb c la lb rows cols inner ct1 ct2 Hext (r & Hr & Hw & Hd & Hv).
    exists r. split; [exact Hr|]. split; [exact Hw|]. split; [exact Hd|].
    intros J i j HJ Hi Hj. destruct (Hv J i j HJ Hi Hj) as [H1 H2].
    split; [exact H1|]. rewrite <- (Hext i j Hi Hj). exact H2.
  Qed.

  (** ** (ii) value, without additive term *)
  Theorem matmul_spec_nobias : forall (a : arr F) ta (b : arr F) tb la ar ac lb br bc,
      wf a -> wf b -> dims a = la ++ [ar; ac] -> dims b = lb ++ [br; bc] ->
      mm_inner_a ta ar ac = mm_inner_b tb br bc -> bcompat la lb ->
      matmul_post a ta b tb None la lb (mm_rows ta ar ac) (mm_cols tb br bc) (mm_inner_a ta ar ac)
                  (fun _ _ => f0 O).
  Proof.
    intros a ta b tb la ar ac lb br bc Hwa Hwb Ea Eb Hinner Hcomp.
    exact (matmul_core a ta b tb None la ar ac lb br bc Hwa Hwb Ea Eb Hinner Hcomp I).
  Qed.

  (** ** (ii) value, with the additive term of one of the four shapes *)

  Lemma bias_ok_row : forall (c : arr F) rows cols, dims c = [cols] -> bias_ok c rows cols = true.
  Proof.
    intros c rows cols E. unfold bias_ok. rewrite E.
    destruct (length (vals c) =? 1); [reflexivity|].
    cbn. rewrite Nat.eqb_refl. reflexivity.
  Qed.

  Lemma bias_ok_full : forall (c : arr F) rows cols,
      dims c = [rows; cols] -> bias_ok c rows cols = true.
  Proof.
    intros c rows cols E. unfold bias_ok. rewrite E.
    destruct (length (vals c) =? 1); [reflexivity|].
    cbn. rewrite !Nat.eqb_refl, orb_true_r. reflexivity.
  Qed.

  Lemma bias_ok_row2 : forall (c : arr F) rows cols,
      dims c = [1; cols] -> bias_ok c rows cols = true.
  Proof.
    intros c rows cols E. unfold bias_ok. rewrite E.
    destruct (length (vals c) =? 1); [reflexivity|].
    cbn. rewrite Nat.eqb_refl. reflexivity.
  Qed.

  Lemma bias_ok_one : forall (c : arr F) rows cols,
      wf c -> dims c = [1] -> bias_ok c rows cols = true.
  Proof.
    intros c rows cols [_ Hl] E. unfold bias_ok. rewrite <- Hl, E. reflexivity.
  Qed.

  Section Bias.
    Variables (a : arr F) (ta : bool) (b : arr F) (tb : bool) (c : arr F).
    Variables (la lb : list nat) (ar ac br bc : nat).
    Hypothesis (Hwa : wf a) (Hwb : wf b) (Hwc : wf c).
    Hypothesis (Ea : dims a = la ++ [ar; ac]) (Eb : dims b = lb ++ [br; bc]).
    Hypothesis (Hinner : mm_inner_a ta ar ac = mm_inner_b tb br bc) (Hcomp : bcompat la lb).

    Let rows := mm_rows ta ar ac.
    Let cols := mm_cols tb br bc.
    Let inner := mm_inner_a ta ar ac.

    (** additive term of dimensions [[cols]]: a row added to every row *)
    Theorem matmul_spec_bias_row :
      dims c = [cols] ->
      matmul_post a ta b tb (Some c) la lb rows cols inner (fun _ j => getd c [j]) /\
      forall j, j < cols -> get c [j] = Some (getd c [j]).
    Proof.
      intros Ec. destruct Hwc as [Hpc Hlc]. rewrite Ec in Hlc. cbn [prod fold_right] in Hlc. split.
      - apply (matmul_post_ext _ _ _ _ _ _ _ _ _ _ (bias_flat (Some c) cols)).
        + intros i j Hi Hj. unfold bias_flat, getd. rewrite Ec, <- Hlc. f_equal.
          replace (cols * 1) with cols by lia.
          destruct (divmod_pos i j cols Hj) as [_ ->]. cbn [rowmajor prod fold_right]. lia.
        + apply matmul_core; try assumption.
          split; [exact Hwc|]. split; [rewrite Ec; cbn; lia|]. apply bias_ok_row. exact Ec.
      - intros j Hj. apply get_getd; [exact Hwc|]. rewrite Ec.
        constructor; [exact Hj|constructor].
    Qed.

    (** additive term of dimensions [[rows; cols]]: a full matrix added to every batch *)
    Theorem matmul_spec_bias_full :
      dims c = [rows; cols] ->
      matmul_post a ta b tb (Some c) la lb rows cols inner (fun i j => getd c [i; j]) /\
      forall i j, i < rows -> j < cols -> get c [i; j] = Some (getd c [i; j]).
    Proof.
      intros Ec. destruct Hwc as [Hpc Hlc]. rewrite Ec in Hlc. cbn [prod fold_right] in Hlc. split.
      - apply (matmul_post_ext _ _ _ _ _ _ _ _ _ _ (bias_flat (Some c) cols)).
        + intros i j Hi Hj. unfold bias_flat, getd. rewrite Ec, <- Hlc. f_equal.
          cbn [rowmajor prod fold_right].
          rewrite Nat.mod_small by nia. lia.
        + apply matmul_core; try assumption.
          split; [exact Hwc|]. split; [rewrite Ec; cbn; lia|]. apply bias_ok_full. exact Ec.
      - intros i j Hi Hj. apply get_getd; [exact Hwc|]. rewrite Ec.
        constructor; [exact Hi|]. constructor; [exact Hj|constructor].
    Qed.

    (** additive term of dimensions [[1; cols]]: a one-row matrix added to every row *)
    Theorem matmul_spec_bias_row2 :
      dims c = [1; cols] ->
      matmul_post a ta b tb (Some c) la lb rows cols inner (fun _ j => getd c [0; j]) /\
      forall j, j < cols -> get c [0; j] = Some (getd c [0; j]).
    Proof.
      intros Ec. destruct Hwc as [Hpc Hlc]. rewrite Ec in Hlc. cbn [prod fold_right] in Hlc. split.
      - apply (matmul_post_ext _ _ _ _ _ _ _ _ _ _ (bias_flat (Some c) cols)).
        + intros i j Hi Hj. unfold bias_flat, getd. rewrite Ec, <- Hlc. f_equal.
          replace (1 * (cols * 1)) with cols by lia.
          destruct (divmod_pos i j cols Hj) as [_ ->]. cbn [rowmajor prod fold_right]. lia.
        + apply matmul_core; try assumption.
          split; [exact Hwc|]. split; [rewrite Ec; cbn; lia|]. apply bias_ok_row2. exact Ec.
      - intros j Hj. apply get_getd; [exact Hwc|]. rewrite Ec.
        constructor; [lia|]. constructor; [exact Hj|constructor].
    Qed.

    (** a single-element additive term: a scalar added everywhere *)
    Theorem matmul_spec_bias_one :
      dims c = [1] ->
      matmul_post a ta b tb (Some c) la lb rows cols inner (fun _ _ => getd c [0]) /\
      get c [0] = Some (getd c [0]).
    Proof.
      intros Ec. assert (Hlc := proj2 Hwc). rewrite Ec in Hlc. cbn [prod fold_right] in Hlc. split.
      - apply (matmul_post_ext _ _ _ _ _ _ _ _ _ _ (bias_flat (Some c) cols)).
        + intros i j Hi Hj. unfold bias_flat, getd. rewrite Ec, <- Hlc. f_equal.
        + apply matmul_core; try assumption.
          split; [exact Hwc|]. split; [rewrite Ec; cbn; lia|]. apply bias_ok_one; assumption.
      - apply get_getd; [exact Hwc|]. rewrite Ec. constructor; [lia|constructor].
    Qed.
  End Bias.
  (** ** (i) refusal: inner dimensions differ, or leading dimensions do not broadcast *)
  Theorem matmul_refuses : forall (a : arr F) ta (b : arr F) tb c la ar ac lb br bc,
      dims a = la ++ [ar; ac] -> dims b = lb ++ [br; bc] ->
      mm_inner_a ta ar ac <> mm_inner_b tb br bc \/ ~ bcompat la lb ->
      a_matmul O a ta b tb c = None.
  Proof.
    intros a ta b tb c la ar ac lb br bc Ea Eb H. unfold a_matmul. rewrite Ea, Eb.
    destruct (matmul_dims_rank2 la ar ac ta lb br bc tb) as (p & q & ->).
    destruct (element_wise_dimensions la lb) as [lead|] eqn:E; cbn [obind]; [|reflexivity].
    destruct H as [H|H].
    - apply Nat.eqb_neq in H. rewrite H. reflexivity.
    - apply element_wise_dimensions_refuses in H. congruence.
  Qed.

  (** * Part 2 (c): two untransposed rank-1 operands: the dot product *)

  Lemma matmul_dims_dot : forall n m,
      matmul_dims [n] false [m] false =
      (check (n =? m) ;;
       Some {| ms_in := [n]; ms_out := [1]; ms_rows := 1; ms_cols := 1; ms_sum := n |}).
  Proof.
    intros n m. unfold matmul_dims. cbv zeta. cbn.
    destruct (guard (n =? m)) as [[]|]; reflexivity.
  Qed.

  Lemma slice_all : forall {A} (l : list A) g, g = length l -> slice 0 g l = Some l.
  Proof.
    intros A l g ->. unfold slice. cbn [Nat.add skipn]. rewrite Nat.leb_refl, firstn_all. reflexivity.
  Qed.

  Lemma group_length_vec : forall (a : arr F) n, wf a -> dims a = [n] -> group_length 2 a = length (vals a).
  Proof.
    intros a n [_ Hl] E. rewrite group_length_low by (rewrite E; cbn; lia). exact Hl.
  Qed.

  Theorem matmul_dot : forall (a b : arr F) n,
      wf a -> wf b -> dims a = [n] -> dims b = [n] ->
      a_matmul O a false b false None
      = Some {| dims := [1];
                vals := [fadd O (f0 O)
                              (vsum O (map (fun k => fmul O (getd a [k]) (getd b [k]))
                                           (seq 0 n)))] |} /\
      forall k, k < n -> get a [k] = Some (getd a [k]) /\ get b [k] = Some (getd b [k]).
  Proof.
    intros a b n Hwa Hwb Ea Eb. split.
    - assert (Hla : length (vals a) = 1 * n)
        by (destruct Hwa as [_ H]; rewrite Ea in H; cbn [prod fold_right] in H; lia).
      assert (Hlb : length (vals b) = n * 1)
        by (destruct Hwb as [_ H]; rewrite Eb in H; cbn [prod fold_right] in H; lia).
      unfold a_matmul. rewrite Ea, Eb, matmul_dims_dot, Nat.eqb_refl.
      cbn [guard obind ms_in ms_out ms_rows ms_cols ms_sum].
      unfold sliced_op.
      assert (Hv : forallb (sliced_valid 2 [n]) [a; b; zeros1 O] = true).
      { cbn [forallb]. rewrite !sliced_valid_low; [reflexivity|cbn; lia|rewrite Eb; cbn; lia|rewrite Ea; cbn; lia]. }
      rewrite Hv. cbn [guard obind length Nat.sub Nat.eqb mapM].
      rewrite (slice_all (vals a)) by (apply (group_length_vec a n Hwa Ea)).
      rewrite (slice_all (vals b)) by (apply (group_length_vec b n Hwb Eb)).
      cbn [obind zeros1 vals dims group_length lastn length Nat.sub skipn prod fold_right Nat.mul Nat.add
                 firstn repeat slice Nat.leb].
      destruct (matmul_sop_spec O false 1 1 n false false (vals a) (vals b) [f0 O] Hla Hlb
                                ltac:(discriminate)) as (new & Hnew & Hlen & Hval).
      cbn [Nat.mul Nat.add repeat] in Hnew. rewrite Hnew. cbn [obind].
      specialize (Hval 0 0 ltac:(lia) ltac:(lia)). cbn [Nat.mul Nat.add] in Hval, Hlen.
      destruct new as [|x [|y new]]; cbn [length] in Hlen; try lia.
      cbn [nth_error] in Hval. inversion Hval as [Hx]. clear Hval.
      cbn [length Nat.eqb guard obind splice firstn skipn Nat.add app].
      unfold mk. cbn [dims_valid forallb Nat.leb andb guard obind prod fold_right Nat.mul Nat.add length
                                 Nat.eqb].
      f_equal. f_equal. f_equal. unfold mm_value, bias_entry. f_equal. f_equal.
      apply map_ext. intros k. unfold a_off, b_off, getd. rewrite Ea, Eb.
      cbn [rowmajor prod fold_right Nat.mul Nat.add].
      replace (k * 1 + 0) with k by lia. reflexivity.
    - intros k Hk. split; apply get_getd; try assumption.
      + rewrite Ea. constructor; [exact Hk|constructor].
      + rewrite Eb. constructor; [exact Hk|constructor].
  Qed.

  Theorem matmul_dot_refuses : forall (a b : arr F) c n m,
      dims a = [n] -> dims b = [m] -> n <> m -> a_matmul O a false b false c = None.
  Proof.
    intros a b c n m Ea Eb H. unfold a_matmul. rewrite Ea, Eb, matmul_dims_dot.
    apply Nat.eqb_neq in H. rewrite H. reflexivity.
  Qed.
  (** * Part 2 (a), (b): one rank-1 operand *)

  (** ** [sliced_op] only looks at the leading part of [in_dims] and at the operand slices *)

  Lemma skipn2_rev_snoc2 : forall (l : list nat) x y, skipn 2 (rev (l ++ [x; y])) = rev l.
  Proof. intros l x y. rewrite rev_app_distr. reflexivity. Qed.

  Lemma sliced_valid_in_dims : forall lead p q p' q' (a : arr F),
      sliced_valid 2 (lead ++ [p; q]) a = sliced_valid 2 (lead ++ [p'; q']) a.
  Proof. intros. unfold sliced_valid. rewrite !skipn2_rev_snoc2. reflexivity. Qed.

  Lemma sliced_op_congr : forall (arrays arrays' : list (arr F)) (op : @sop F) lead p q p' q' x y,
      Forall (fun v => 1 <= v) lead ->
      forallb (sliced_valid 2 (lead ++ [p; q])) arrays
      = forallb (sliced_valid 2 (lead ++ [p'; q'])) arrays' ->
      (forall t, t < prod lead ->
                 mapM (operand_slice 2 (length lead) (unrank lead t)) arrays
                 = mapM (operand_slice 2 (length lead) (unrank lead t)) arrays') ->
      sliced_op O arrays op (lead ++ [p; q]) (lead ++ [x; y]) 2 0
      = sliced_op O arrays' op (lead ++ [p'; q']) (lead ++ [x; y]) 2 0.
  Proof.
    intros arrays arrays' op lead p q p' q' x y Hlead Hv Hs.
    rewrite !sliced_op_unfold. cbv zeta. rewrite Hv.
    destruct (guard (forallb (sliced_valid 2 (lead ++ [p'; q'])) arrays')) as [[]|];
      cbn [obind]; [|reflexivity].
    replace (length (lead ++ [p; q]) - 2) with (length lead) by (rewrite length_snoc2; lia).
    replace (length (lead ++ [p'; q']) - 2) with (length lead) by (rewrite length_snoc2; lia).
    rewrite !firstn_len_snoc2.
    rewrite !(sliced_loop_bstep op _ 2 (length lead) lead (lead ++ [x; y]) _ Hlead eq_refl
                                (firstn_len_snoc2 lead x y)).
    match goal with
    | |- obind ?X _ = obind ?Y _ => assert (E : X = Y)
    end.
    { apply iterM_ext. intros t s Ht. apply in_seq in Ht.
      unfold bstep, sliced_block. rewrite Hs by lia. reflexivity. }
    rewrite E. reflexivity.
  Qed.

  Lemma sliced_op_first_fails : forall (arrays : list (arr F)) (op : @sop F) lead p q x y,
      Forall (fun v => 1 <= v) lead ->
      (forall slices cur,
          mapM (operand_slice 2 (length lead) (unrank lead 0)) arrays = Some slices ->
          op cur slices = None) ->
      sliced_op O arrays op (lead ++ [p; q]) (lead ++ [x; y]) 2 0 = None.
  Proof.
    intros arrays op lead p q x y Hlead H.
    destruct (sliced_op O arrays op (lead ++ [p; q]) (lead ++ [x; y]) 2 0) as [r|] eqn:E;
      [exfalso|reflexivity].
    pose proof (sliced_op_nonacc O arrays op (lead ++ [p; q]) (lead ++ [x; y]) 2 0 r) as S.
    cbv zeta in S.
    replace (length (lead ++ [p; q]) - 2) with (length lead) in S by (rewrite length_snoc2; lia).
    rewrite !firstn_len_snoc2 in S.
    apply (proj1 (S eq_refl Hlead)) in E. destruct E as (_ & out & _ & Hb & _).
    pose proof (prod_pos lead Hlead) as Hp.
    destruct (Hb 0 ltac:(lia)) as (slices & Hs & Hop).
    rewrite (H slices _ Hs) in Hop. discriminate.
  Qed.

  Lemma sliced_op_dims : forall (arrays : list (arr F)) (op : @sop F) in_dims out_dims k r,
      sliced_op O arrays op in_dims out_dims k 0 = Some r -> dims r = out_dims.
  Proof.
    intros arrays op in_dims out_dims k r H. rewrite sliced_op_unfold in H. cbv zeta in H.
    apply obind_some in H. destruct H as (_ & _ & H).
    apply obind_some in H. destruct H as (out & _ & H).
    cbn [Nat.eqb obind] in H. apply mk_some in H. destruct H as (_ & _ & ->). reflexivity.
  Qed.

  (** the result's dimensions are always the [ms_out] of the shape derivation *)
  Lemma a_matmul_dims : forall (a : arr F) ta (b : arr F) tb c r,
      a_matmul O a ta b tb c = Some r ->
      exists sh, matmul_dims (dims a) ta (dims b) tb = Some sh /\ dims r = ms_out sh.
  Proof.
    intros a ta b tb c r H. unfold a_matmul in H.
    apply obind_some in H. destruct H as (sh & Hsh & H).
    apply obind_some in H. destruct H as (_ & _ & H).
    exists sh. split; [exact Hsh|]. eapply sliced_op_dims. exact H.
  Qed.

  (** ** failure of the triple loop on an out-of-bounds read *)

  Lemma mapM_none_in : forall {A B} (f : A -> option B) l x,
      In x l -> f x = None -> mapM f l = None.
  Proof.
    intros A B f l x. induction l as [|y l IH]; intros Hin Hx; [destruct Hin|].
    cbn [mapM]. destruct Hin as [->|Hin].
    - rewrite Hx. reflexivity.
    - destruct (f y); cbn [obind]; [|reflexivity]. rewrite (IH Hin Hx). reflexivity.
  Qed.

  Lemma matmul_slice_fails : forall rows cols n ta tb (cur sa sb : list F) k,
      1 <= rows -> 1 <= cols -> k < n ->
      length sa <= a_off rows n ta 0 k \/ length sb <= b_off cols n tb k 0 ->
      matmul_slice O rows cols n ta tb cur sa sb = None.
  Proof.
    intros rows cols n ta tb cur sa sb k Hr Hc Hk Hoob. unfold matmul_slice.
    destruct (rows * cols) as [|m] eqn:Em; [nia|]. cbn [seq]. apply mapM_head_none.
    rewrite Nat.div_0_l, Nat.mod_0_l by lia.
    rewrite (mapM_none_in _ (seq 0 n) k); [reflexivity|apply in_seq; lia|].
    fold (a_off rows n ta 0 k). fold (b_off cols n tb k 0).
    destruct Hoob as [H|H].
    - apply nth_error_None in H. rewrite H. reflexivity.
    - apply nth_error_None in H. rewrite H.
      destruct (nth_error sa (a_off rows n ta 0 k)); reflexivity.
  Qed.

  Lemma operand_slice_low_any : forall lc idx (c : arr F),
      length (dims c) <= 2 -> length idx = lc ->
      operand_slice 2 lc idx c = slice 0 (prod (dims c)) (vals c).
  Proof.
    intros lc idx c Hr Hl. unfold operand_slice. cbv zeta.
    replace (length (dims c) - 2) with 0 by lia. rewrite Nat.sub_0_r.
    rewrite skipn_all2 by lia. rewrite group_length_low by exact Hr.
    unfold clamp_fold, clamp_horner. cbn [combine fold_left]. rewrite Nat.mul_0_r. reflexivity.
  Qed.

  Lemma bmax_nil_l : forall y, bmax [] y = y.
  Proof. intros y. unfold bmax. cbn [rev bmax_rev]. apply rev_involutive. Qed.

  Lemma bmax_nil_r : forall x, bmax x [] = x.
  Proof. intros x. rewrite bmax_sym. apply bmax_nil_l. Qed.

  Lemma ewd_nil_l : forall y, element_wise_dimensions [] y = Some y.
  Proof.
    intros y. apply element_wise_dimensions_spec. split; [exact I|]. symmetry. apply bmax_nil_l.
  Qed.

  Lemma ewd_nil_r : forall x, element_wise_dimensions x [] = Some x.
  Proof.
    intros x. apply element_wise_dimensions_spec. split.
    - apply bcompat_sym. exact I.
    - symmetry. apply bmax_nil_r.
  Qed.
End MatmulSpec.

Lemma leb1_snoc2 : forall {A} (l : list A) x y, (length (l ++ [x; y]) <=? 1) = false.
Proof. intros. rewrite length_snoc2. apply Nat.leb_gt. lia. Qed.

Lemma matmul_dims_vec_l : forall n ta lb br bc tb,
    matmul_dims [n] ta (lb ++ [br; bc]) tb =
    (check (if ta then true else n =? mm_inner_b tb br bc) ;;
     Some {| ms_in := lb ++ [br; bc];
             ms_out := lb ++ [if ta then n else 1; mm_cols tb br bc];
             ms_rows := if ta then n else 1; ms_cols := mm_cols tb br bc;
             ms_sum := if ta then mm_inner_b tb br bc else n |}).
Proof.
  intros n ta lb br bc tb. unfold matmul_dims. cbv zeta.
  change (length [n]) with 1. change (firstn (1 - 2) [n]) with (@nil nat).
  rewrite firstn_snoc2, ewd_nil_l. cbn [obind].
  rewrite leb1_snoc2, lastn2_snoc2, firstn_snoc2, !ltb_snoc2.
  change (1 <? 2) with true. cbn [andb orb].
  rewrite orb_false_r.
  assert (Hc : dim_back (lb ++ [br; bc]) (if tb then 2 else 1) = Some (mm_cols tb br bc)).
  { destruct tb; [apply dim_back_snoc2_2|apply dim_back_snoc2_1]. }
  assert (Hd : dim_back (lb ++ [br; bc]) (if tb then 1 else 2) = Some (mm_inner_b tb br bc)).
  { destruct tb; [apply dim_back_snoc2_1|apply dim_back_snoc2_2]. }
  assert (Eb : ((if tb then 1 else 2) <=? length (lb ++ [br; bc])) = true).
  { apply leb_snoc2. destruct tb; lia. }
  rewrite Hc, Hd, Eb.
  destruct ta; cbn [negb obind].
  - change (dim_back [n] 1) with (Some n). change (1 <? 2) with true. cbn [obind guard]. reflexivity.
  - change (1 <? 1) with false. change (dim_back [n] 1) with (Some n). cbn [obind].
    destruct (guard (n =? mm_inner_b tb br bc)) as [[]|]; reflexivity.
Qed.

Lemma matmul_dims_vec_r : forall la ar ac ta n tb,
    matmul_dims (la ++ [ar; ac]) ta [n] tb =
    (check (if tb then mm_inner_a ta ar ac =? n else true) ;;
     Some {| ms_in := la ++ [ar; ac];
             ms_out := la ++ [mm_rows ta ar ac; if tb then 1 else n];
             ms_rows := mm_rows ta ar ac; ms_cols := if tb then 1 else n;
             ms_sum := mm_inner_a ta ar ac |}).
Proof.
  intros la ar ac ta n tb. unfold matmul_dims. cbv zeta.
  change (length [n]) with 1. change (firstn (1 - 2) [n]) with (@nil nat).
  rewrite firstn_snoc2, ewd_nil_r. cbn [obind].
  rewrite (leb_snoc2 la ar ac 1) by lia. rewrite lastn2_snoc2, firstn_snoc2, !ltb_snoc2.
  change (1 <? 2) with true. cbn [andb orb]. rewrite orb_false_r.
  assert (Hr : dim_back (la ++ [ar; ac]) (if ta then 1 else 2) = Some (mm_rows ta ar ac)).
  { destruct ta; [apply dim_back_snoc2_1|apply dim_back_snoc2_2]. }
  assert (Hs : dim_back (la ++ [ar; ac]) (if ta then 2 else 1) = Some (mm_inner_a ta ar ac)).
  { destruct ta; [apply dim_back_snoc2_2|apply dim_back_snoc2_1]. }
  assert (Ea : (length (la ++ [ar; ac]) <? (if ta then 2 else 1)) = false).
  { rewrite length_snoc2. apply Nat.ltb_ge. destruct ta; lia. }
  rewrite Hr, Hs, Ea, (leb_snoc2 la ar ac 2) by lia.
  destruct tb; cbn [obind].
  - change (1 <=? 1) with true. change (dim_back [n] 1) with (Some n). cbn [obind].
    destruct (guard (mm_inner_a ta ar ac =? n)) as [[]|]; reflexivity.
  - change (2 <=? 1) with false. change (dim_back [n] 1) with (Some n). cbn [obind guard]. reflexivity.
Qed.

(** ** The shape derivation with one rank-1 operand *)

Section Vec.
  Context {F : Type} (O : ScalarOps F).

  Lemma operand_slice_reshape : forall lc idx (a a' : arr F),
      length (dims a) <= 2 -> length (dims a') <= 2 -> prod (dims a) = prod (dims a') ->
      vals a = vals a' -> length idx = lc ->
      operand_slice 2 lc idx a = operand_slice 2 lc idx a'.
  Proof.
    intros lc idx a a' Hr Hr' Hp Hv Hl.
    rewrite !operand_slice_low_any by assumption. rewrite Hp, Hv. reflexivity.
  Qed.

  Lemma sliced_congr_l : forall (a a' b c' : arr F) (op : @sop F) lead p q p' q' x y,
      length (dims a) <= 2 -> length (dims a') <= 2 -> prod (dims a) = prod (dims a') ->
      vals a = vals a' -> Forall (fun v => 1 <= v) lead ->
      sliced_op O [a; b; c'] op (lead ++ [p; q]) (lead ++ [x; y]) 2 0
      = sliced_op O [a'; b; c'] op (lead ++ [p'; q']) (lead ++ [x; y]) 2 0.
  Proof.
    intros a a' b c' op lead p q p' q' x y Hr Hr' Hp Hv Hlead.
    apply sliced_op_congr; [exact Hlead| |].
    - cbn [forallb]. rewrite (sliced_valid_low a _ Hr), (sliced_valid_low a' _ Hr').
      rewrite (sliced_valid_in_dims lead p q p' q' b), (sliced_valid_in_dims lead p q p' q' c').
      reflexivity.
    - intros t Ht. cbn [mapM].
      rewrite (operand_slice_reshape (length lead) (unrank lead t) a a' Hr Hr' Hp Hv)
        by apply unrank_length.
      reflexivity.
  Qed.

  Lemma sliced_congr_r : forall (a b b' c' : arr F) (op : @sop F) lead p q p' q' x y,
      length (dims b) <= 2 -> length (dims b') <= 2 -> prod (dims b) = prod (dims b') ->
      vals b = vals b' -> Forall (fun v => 1 <= v) lead ->
      sliced_op O [a; b; c'] op (lead ++ [p; q]) (lead ++ [x; y]) 2 0
      = sliced_op O [a; b'; c'] op (lead ++ [p'; q']) (lead ++ [x; y]) 2 0.
  Proof.
    intros a b b' c' op lead p q p' q' x y Hr Hr' Hp Hv Hlead.
    apply sliced_op_congr; [exact Hlead| |].
    - cbn [forallb]. rewrite (sliced_valid_low b _ Hr), (sliced_valid_low b' _ Hr').
      rewrite (sliced_valid_in_dims lead p q p' q' a), (sliced_valid_in_dims lead p q p' q' c').
      reflexivity.
    - intros t Ht. cbn [mapM].
      rewrite (operand_slice_reshape (length lead) (unrank lead t) b b' Hr Hr' Hp Hv)
        by apply unrank_length.
      reflexivity.
  Qed.

  Lemma mapM3_inv : forall {A B} (f : A -> option B) x y z l,
      mapM f [x; y; z] = Some l ->
      exists u v w, f x = Some u /\ f y = Some v /\ f z = Some w /\ l = [u; v; w].
  Proof.
    intros A B f x y z l H. cbn [mapM] in H.
    destruct (f x) as [u|]; cbn [obind] in H; [|discriminate].
    destruct (f y) as [v|]; cbn [obind] in H; [|discriminate].
    destruct (f z) as [w|]; cbn [obind] in H; [|discriminate].
    inversion H. exists u, v, w. auto.
  Qed.

  (** (a): a rank-1 [a] is the one-row matrix [[1; n]] *)
  Theorem matmul_vec_l : forall (a : arr F) ta (b : arr F) tb c n lb br bc,
      wf a -> wf b -> dims a = [n] -> dims b = lb ++ [br; bc] ->
      a_matmul O a ta b tb c = a_matmul O {| dims := [1; n]; vals := vals a |} ta b tb c.
  Proof.
    intros a ta b tb c n lb br bc Hwa Hwb Ea Eb.
    set (a' := {| dims := [1; n]; vals := vals a |}).
    destruct (wf_snoc2 b lb br bc Hwb Eb) as (Hplb & Hbr & Hbc & Hvb).
    assert (Hn : 1 <= n).
    { destruct Hwa as [Hp _]. rewrite Ea in Hp. inversion Hp; assumption. }
    assert (Hra : length (dims a) <= 2) by (rewrite Ea; cbn; lia).
    assert (Hra' : length (dims a') <= 2) by (cbn; lia).
    assert (Hpa : prod (dims a) = prod (dims a')) by (rewrite Ea; cbn; lia).
    destruct (matmul_dims_rank2 [] 1 n ta lb br bc tb) as (p & q & Hmd).
    rewrite ewd_nil_l in Hmd. cbn [app obind] in Hmd.
    unfold a_matmul. change (dims a') with [1; n]. rewrite Ea, Eb, Hmd, matmul_dims_vec_l. clear Hmd.
    destruct ta; unfold mm_rows, mm_inner_a; cbn [guard obind ms_rows ms_cols ms_sum ms_in ms_out].
    - destruct (Nat.eq_dec (mm_inner_b tb br bc) 1) as [E1|E1].
      + rewrite E1. cbn [Nat.eqb guard obind ms_rows ms_cols ms_sum ms_in ms_out].
        match goal with |- context [guard ?g] => destruct (guard g) as [[]|] end;
          cbn [obind]; [|reflexivity].
        apply sliced_congr_l; auto.
      + assert (Hne : (1 =? mm_inner_b tb br bc) = false) by (apply Nat.eqb_neq; lia).
        rewrite Hne. cbn [guard obind].
        match goal with |- context [guard ?g] => destruct (guard g) as [[]|] end;
          cbn [obind]; [|reflexivity].
        apply sliced_op_first_fails; [exact Hplb|].
        intros slices cur Hs.
        apply mapM3_inv in Hs. destruct Hs as (sa & sb & sc & Hsa & _ & _ & ->).
        apply operand_slice_length in Hsa. rewrite group_length_low, Ea in Hsa by exact Hra.
        cbn [prod fold_right] in Hsa.
        unfold matmul_sop. apply (matmul_slice_fails O _ _ _ _ _ _ _ _ 1).
        * exact Hn.
        * unfold mm_cols. destruct tb; assumption.
        * assert (1 <= mm_inner_b tb br bc) by (unfold mm_inner_b; destruct tb; assumption). lia.
        * left. unfold a_off. lia.
    - destruct (guard (n =? mm_inner_b tb br bc)) as [[]|];
        cbn [obind ms_rows ms_cols ms_sum ms_in ms_out]; [|reflexivity].
      match goal with |- context [guard ?g] => destruct (guard g) as [[]|] end;
          cbn [obind]; [|reflexivity].
      apply sliced_congr_l; auto.
  Qed.

  (** (b): a rank-1 [b] is the one-row matrix [[1; n]] *)
  Theorem matmul_vec_r : forall (a : arr F) ta (b : arr F) tb c n la ar ac,
      wf a -> wf b -> dims a = la ++ [ar; ac] -> dims b = [n] ->
      a_matmul O a ta b tb c = a_matmul O a ta {| dims := [1; n]; vals := vals b |} tb c.
  Proof.
    intros a ta b tb c n la ar ac Hwa Hwb Ea Eb.
    set (b' := {| dims := [1; n]; vals := vals b |}).
    destruct (wf_snoc2 a la ar ac Hwa Ea) as (Hpla & Har & Hac & Hva).
    assert (Hn : 1 <= n).
    { destruct Hwb as [Hp _]. rewrite Eb in Hp. inversion Hp; assumption. }
    assert (Hrb : length (dims b) <= 2) by (rewrite Eb; cbn; lia).
    assert (Hrb' : length (dims b') <= 2) by (cbn; lia).
    assert (Hpb : prod (dims b) = prod (dims b')) by (rewrite Eb; cbn; lia).
    destruct (matmul_dims_rank2 la ar ac ta [] 1 n tb) as (p & q & Hmd).
    rewrite ewd_nil_r in Hmd. cbn [app obind] in Hmd.
    unfold a_matmul. change (dims b') with [1; n]. rewrite Ea, Eb, Hmd, matmul_dims_vec_r. clear Hmd.
    destruct tb; unfold mm_cols, mm_inner_b; cbn [guard obind ms_rows ms_cols ms_sum ms_in ms_out].
    - destruct (guard (mm_inner_a ta ar ac =? n)) as [[]|];
        cbn [obind ms_rows ms_cols ms_sum ms_in ms_out]; [|reflexivity].
      match goal with |- context [guard ?g] => destruct (guard g) as [[]|] end;
          cbn [obind]; [|reflexivity].
      apply sliced_congr_r; auto.
    - destruct (Nat.eq_dec (mm_inner_a ta ar ac) 1) as [E1|E1].
      + rewrite E1. cbn [Nat.eqb guard obind ms_rows ms_cols ms_sum ms_in ms_out].
        match goal with |- context [guard ?g] => destruct (guard g) as [[]|] end;
          cbn [obind]; [|reflexivity].
        apply sliced_congr_r; auto.
      + assert (Hne : (mm_inner_a ta ar ac =? 1) = false) by (apply Nat.eqb_neq; lia).
        rewrite Hne. cbn [guard obind].
        match goal with |- context [guard ?g] => destruct (guard g) as [[]|] end;
          cbn [obind]; [|reflexivity].
        apply sliced_op_first_fails; [exact Hpla|].
        intros slices cur Hs.
        apply mapM3_inv in Hs. destruct Hs as (sa & sb & sc & _ & Hsb & _ & ->).
        apply operand_slice_length in Hsb. rewrite group_length_low, Eb in Hsb by exact Hrb.
        cbn [prod fold_right] in Hsb.
        unfold matmul_sop. apply (matmul_slice_fails O _ _ _ _ _ _ _ _ 1).
        * unfold mm_rows. destruct ta; assumption.
        * exact Hn.
        * assert (1 <= mm_inner_a ta ar ac) by (unfold mm_inner_a; destruct ta; assumption). lia.
        * right. unfold b_off. lia.
  Qed.
End Vec.

(** ** Dimensions and values with one rank-1 operand *)

Section VecValues.
  Context {F : Type} (O : ScalarOps F).

  (** dimensions of the result with a rank-1 [a]: the higher-rank operand provides the
      leading dimensions; the row count is 1 ([n] under [ta]) *)
  Corollary matmul_vec_l_dims : forall (a : arr F) ta (b : arr F) tb c n lb br bc r,
      dims a = [n] -> dims b = lb ++ [br; bc] ->
      a_matmul O a ta b tb c = Some r ->
      dims r = lb ++ [if ta then n else 1; mm_cols tb br bc].
  Proof.
    intros a ta b tb c n lb br bc r Ea Eb H.
    apply a_matmul_dims in H. destruct H as (sh & Hsh & ->).
    rewrite Ea, Eb, matmul_dims_vec_l in Hsh.
    apply obind_some in Hsh. destruct Hsh as (_ & _ & Hsh). inversion Hsh. reflexivity.
  Qed.

  Corollary matmul_vec_r_dims : forall (a : arr F) ta (b : arr F) tb c n la ar ac r,
      dims a = la ++ [ar; ac] -> dims b = [n] ->
      a_matmul O a ta b tb c = Some r ->
      dims r = la ++ [mm_rows ta ar ac; if tb then 1 else n].
  Proof.
    intros a ta b tb c n la ar ac r Ea Eb H.
    apply a_matmul_dims in H. destruct H as (sh & Hsh & ->).
    rewrite Ea, Eb, matmul_dims_vec_r in Hsh.
    apply obind_some in Hsh. destruct Hsh as (_ & _ & Hsh). inversion Hsh. reflexivity.
  Qed.

  Lemma wf_reshape_row : forall (a : arr F) n,
      wf a -> dims a = [n] -> wf {| dims := [1; n]; vals := vals a |}.
  Proof.
    intros a n [Hp Hl] E. rewrite E in Hp, Hl. inversion Hp as [|? ? Hn _]; subst.
    split; cbn [dims vals].
    - repeat constructor; lia.
    - rewrite <- Hl. cbn [prod fold_right]. lia.
  Qed.

  Lemma getd_reshape_row : forall (a : arr F) n k,
      dims a = [n] -> getd O {| dims := [1; n]; vals := vals a |} [0; k] = getd O a [k].
  Proof.
    intros a n k E. unfold getd. rewrite E. cbn [dims vals rowmajor prod fold_right]. f_equal.
  Qed.

  (** row vector times (batched) matrix, no additive term *)
  Corollary matmul_vec_l_value : forall (a : arr F) (b : arr F) tb n lb br bc,
      wf a -> wf b -> dims a = [n] -> dims b = lb ++ [br; bc] -> n = mm_inner_b tb br bc ->
      exists r,
        a_matmul O a false b tb None = Some r /\ wf r /\
        dims r = lb ++ [1; mm_cols tb br bc] /\
        forall J j, in_range J lb -> j < mm_cols tb br bc ->
          (forall k, k < n -> in_range [k] (dims a) /\ in_range (b_idx tb lb J k j) (dims b)) /\
          get r (J ++ [0; j])
          = Some (fadd O (f0 O)
                       (vsum O (map (fun k => fmul O (getd O a [k]) (getd O b (b_idx tb lb J k j)))
                                    (seq 0 n)))).
  Proof.
    intros a b tb n lb br bc Hwa Hwb Ea Eb Hn.
    rewrite (matmul_vec_l O a false b tb None n lb br bc Hwa Hwb Ea Eb).
    set (a' := {| dims := [1; n]; vals := vals a |}).
    destruct (matmul_spec_nobias O a' false b tb [] 1 n lb br bc) as (r & Hr & Hw & Hd & Hv);
      try assumption.
    - apply wf_reshape_row; assumption.
    - reflexivity.
    - exact I.
    - exists r. rewrite bmax_nil_l in Hd, Hv. cbn [mm_rows mm_inner_a] in Hd, Hv.
      split; [exact Hr|]. split; [exact Hw|]. split; [exact Hd|].
      intros J j HJ Hj. destruct (Hv J 0 j HJ ltac:(lia) Hj) as [H1 H2]. split.
      + intros k Hk. destruct (H1 k Hk) as [_ Hb]. split; [|exact Hb].
        rewrite Ea. constructor; [exact Hk|constructor].
      + rewrite H2. f_equal. f_equal. f_equal. apply map_ext. intros k.
        unfold a_idx. rewrite bclamp_nil. cbn [app].
        unfold a'. rewrite (getd_reshape_row a n k Ea). reflexivity.
  Qed.

  (** (batched) matrix times column vector, no additive term *)
  Corollary matmul_vec_r_value : forall (a : arr F) ta (b : arr F) n la ar ac,
      wf a -> wf b -> dims a = la ++ [ar; ac] -> dims b = [n] -> mm_inner_a ta ar ac = n ->
      exists r,
        a_matmul O a ta b true None = Some r /\ wf r /\
        dims r = la ++ [mm_rows ta ar ac; 1] /\
        forall J i, in_range J la -> i < mm_rows ta ar ac ->
          (forall k, k < n -> in_range (a_idx ta la J i k) (dims a) /\ in_range [k] (dims b)) /\
          get r (J ++ [i; 0])
          = Some (fadd O (f0 O)
                       (vsum O (map (fun k => fmul O (getd O a (a_idx ta la J i k)) (getd O b [k]))
                                    (seq 0 n)))).
  Proof.
    intros a ta b n la ar ac Hwa Hwb Ea Eb Hn.
    rewrite (matmul_vec_r O a ta b true None n la ar ac Hwa Hwb Ea Eb).
    set (b' := {| dims := [1; n]; vals := vals b |}).
    destruct (matmul_spec_nobias O a ta b' true la ar ac [] 1 n) as (r & Hr & Hw & Hd & Hv);
      try assumption.
    - apply wf_reshape_row; assumption.
    - reflexivity.
    - apply bcompat_sym. exact I.
    - exists r. rewrite bmax_nil_r in Hd, Hv. cbn [mm_cols] in Hd, Hv. rewrite Hn in Hv.
      split; [exact Hr|]. split; [exact Hw|]. split; [exact Hd|].
      intros J i HJ Hi. destruct (Hv J i 0 HJ Hi ltac:(lia)) as [H1 H2]. split.
      + intros k Hk. destruct (H1 k Hk) as [Ha _]. split; [exact Ha|].
        rewrite Eb. constructor; [exact Hk|constructor].
      + rewrite H2. f_equal. f_equal. f_equal. apply map_ext. intros k.
        unfold b_idx. rewrite bclamp_nil. cbn [app].
        unfold b'. rewrite (getd_reshape_row b n k Eb). reflexivity.
  Qed.
End VecValues.

(** * Part 1 (ii), unified statement *)

Section Unified.
  Context {F : Type} (O : ScalarOps F).

  (** the admissible additive terms *)
  Inductive bias_shape (rows cols : nat) : option (arr F) -> Prop :=
  | bias_none : bias_shape rows cols None
  | bias_row : forall c, wf c -> dims c = [cols] -> bias_shape rows cols (Some c)
  | bias_full : forall c, wf c -> dims c = [rows; cols] -> bias_shape rows cols (Some c)
  | bias_row2 : forall c, wf c -> dims c = [1; cols] -> bias_shape rows cols (Some c)
  | bias_one : forall c, wf c -> dims c = [1] -> bias_shape rows cols (Some c).

  (** the additive term at [(i, j)]: absent = [f0]; otherwise [c] broadcast against
      [[rows; cols]], i.e. [c[j]], [c[i; j]], [c[0; j]], [c[0]] for the four shapes *)
  Definition cterm (c : option (arr F)) (i j : nat) : F :=
    match c with
    | None => f0 O
    | Some c' => getd O c' (bclamp (dims c') [i; j])
    end.

  Lemma cterm_row : forall c cols i j, dims c = [cols] -> j < cols -> cterm (Some c) i j = getd O c [j].
  Proof.
    intros c cols i j E Hj. unfold cterm. rewrite E. unfold bclamp, lastn. cbn.
    destruct (cols =? 1) eqn:E1; [|reflexivity]. apply Nat.eqb_eq in E1. f_equal. f_equal. lia.
  Qed.

  Lemma cterm_full : forall c rows cols i j,
      dims c = [rows; cols] -> i < rows -> j < cols -> cterm (Some c) i j = getd O c [i; j].
  Proof.
    intros c rows cols i j E Hi Hj. unfold cterm. rewrite E. f_equal. apply bclamp_id.
    constructor; [exact Hi|]. constructor; [exact Hj|constructor].
  Qed.

  Lemma cterm_row2 : forall c cols i j,
      dims c = [1; cols] -> j < cols -> cterm (Some c) i j = getd O c [0; j].
  Proof.
    intros c cols i j E Hj. unfold cterm. rewrite E. unfold bclamp, lastn. cbn.
    destruct (cols =? 1) eqn:E1; [|reflexivity]. apply Nat.eqb_eq in E1. f_equal. f_equal. f_equal. lia.
  Qed.

  Lemma cterm_one : forall c i j, dims c = [1] -> cterm (Some c) i j = getd O c [0].
  Proof. intros c i j E. unfold cterm. rewrite E. reflexivity. Qed.

  (** Part 1 (ii), all admissible additive terms at once *)
  Theorem matmul_spec : forall (a : arr F) ta (b : arr F) tb c la ar ac lb br bc,
      wf a -> wf b -> dims a = la ++ [ar; ac] -> dims b = lb ++ [br; bc] ->
      mm_inner_a ta ar ac = mm_inner_b tb br bc -> bcompat la lb ->
      bias_shape (mm_rows ta ar ac) (mm_cols tb br bc) c ->
      matmul_post O a ta b tb c la lb (mm_rows ta ar ac) (mm_cols tb br bc) (mm_inner_a ta ar ac)
                  (cterm c).
  Proof.
    intros a ta b tb c la ar ac lb br bc Hwa Hwb Ea Eb Hinner Hcomp Hc.
    destruct Hc as [|c Hwc Ec|c Hwc Ec|c Hwc Ec|c Hwc Ec].
    - apply matmul_spec_nobias; assumption.
    - eapply matmul_post_ext;
        [|exact (proj1 (matmul_spec_bias_row O a ta b tb c la lb ar ac br bc
                                             Hwa Hwb Hwc Ea Eb Hinner Hcomp Ec))].
      intros i j Hi Hj. symmetry. eapply cterm_row; eassumption.
    - eapply matmul_post_ext;
        [|exact (proj1 (matmul_spec_bias_full O a ta b tb c la lb ar ac br bc
                                              Hwa Hwb Hwc Ea Eb Hinner Hcomp Ec))].
      intros i j Hi Hj. symmetry. eapply cterm_full; eassumption.
    - eapply matmul_post_ext;
        [|exact (proj1 (matmul_spec_bias_row2 O a ta b tb c la lb ar ac br bc
                                              Hwa Hwb Hwc Ea Eb Hinner Hcomp Ec))].
      intros i j Hi Hj. symmetry. eapply cterm_row2; eassumption.
    - eapply matmul_post_ext;
        [|exact (proj1 (matmul_spec_bias_one O a ta b tb c la lb ar ac br bc
                                             Hwa Hwb Hwc Ea Eb Hinner Hcomp Ec))].
      intros i j Hi Hj. symmetry. apply cterm_one. exact Ec.
  Qed.
End Unified.

Print Assumptions matmul_core.
Print Assumptions matmul_spec.
Print Assumptions matmul_spec_nobias.
Print Assumptions matmul_spec_bias_row.
Print Assumptions matmul_spec_bias_full.
Print Assumptions matmul_spec_bias_row2.
Print Assumptions matmul_spec_bias_one.
Print Assumptions matmul_refuses.
Print Assumptions matmul_dot.
Print Assumptions matmul_dot_refuses.
Print Assumptions matmul_vec_l.
Print Assumptions matmul_vec_r.
Print Assumptions matmul_vec_l_dims.
Print Assumptions matmul_vec_r_dims.
Print Assumptions matmul_vec_l_value.
Print Assumptions matmul_vec_r_value.
