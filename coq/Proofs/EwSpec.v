(** Value specification of [element_wise_op] (second half of C04) and of the
    arithmetic built on it: the result has the broadcast dimensions and its element at
    every multi-index is [f] applied to the operands' elements at the broadcast-clamped
    indices.  No assumption on the scalar operations. *)

From Coq Require Import List Arith Bool Lia PeanoNat.
From Corgi Require Import Lib.OptionMonad Lib.IdxDefs Lib.Idx Model.Scalar Model.Arr
     Model.SlicedOp Model.Elementwise Proofs.ArrFacts Proofs.BroadcastDims Proofs.SpecDefs
     Proofs.SlicedOpSpec.
Import ListNotations.

(** * Broadcast dimensions, last dimension split off *)

Lemma bmax_snoc : forall x a y b, bmax (x ++ [a]) (y ++ [b]) = bmax x y ++ [Nat.max a b].
Proof. intros. unfold bmax. rewrite !rev_app_distr. reflexivity. Qed.

Lemma bcompat_snoc : forall x a y b,
    bcompat (x ++ [a]) (y ++ [b]) <-> (a = b \/ a = 1 \/ b = 1) /\ bcompat x y.
Proof. intros. unfold bcompat. rewrite !rev_app_distr. reflexivity. Qed.

Lemma bmax_sym : forall x y, bmax x y = bmax y x.
Proof. intros. unfold bmax. rewrite bmax_rev_sym. reflexivity. Qed.

Lemma bcompat_sym : forall x y, bcompat x y <-> bcompat y x.
Proof. intros. unfold bcompat. apply bcompat_rev_sym. Qed.

Lemma bmax_rev_pos : forall x y,
    Forall (fun v => 1 <= v) x -> Forall (fun v => 1 <= v) y ->
    Forall (fun v => 1 <= v) (bmax_rev x y).
Proof.
  induction x as [|a x IH]; intros [|b y] Hx Hy; simpl; try assumption.
  inversion Hx; subst. inversion Hy; subst. constructor; [lia|]. apply IH; assumption.
Qed.

Lemma bmax_pos : forall x y,
    Forall (fun v => 1 <= v) x -> Forall (fun v => 1 <= v) y ->
    Forall (fun v => 1 <= v) (bmax x y).
Proof.
  intros x y Hx Hy. unfold bmax. apply Forall_rev. apply bmax_rev_pos; apply Forall_rev; assumption.
Qed.

Lemma bmax_rev_sub : forall x y,
    bcompat_rev x y -> Forall (fun v => 1 <= v) x ->
    length x <= length (bmax_rev x y) /\
    Forall2 (fun u v => u = 1 \/ u = v) x (firstn (length x) (bmax_rev x y)).
Proof.
  induction x as [|a x IH]; intros [|b y] Hc Hx; simpl.
  - split; [lia|constructor].
  - split; [lia|constructor].
  - split; [lia|]. constructor; [auto|]. rewrite firstn_all.
    clear. induction x; constructor; auto.
  - simpl in Hc. destruct Hc as [Hab Hc]. inversion Hx as [|? ? Ha Hx']; subst.
    destruct (IH y Hc Hx') as [Hl Hf]. split; [lia|]. constructor; [lia|exact Hf].
Qed.

Lemma bmax_sub_lead_l : forall x y,
    bcompat x y -> Forall (fun v => 1 <= v) x -> sub_lead x (bmax x y).
Proof.
  intros x y Hc Hx. unfold bcompat in Hc.
  destruct (bmax_rev_sub (rev x) (rev y) Hc (Forall_rev _ _ Hx)) as [Hl Hf].
  rewrite rev_length in Hl, Hf.
  unfold sub_lead, bmax. rewrite rev_length. split; [exact Hl|].
  rewrite lastn_rev. apply Forall2_rev_iff. rewrite rev_involutive. exact Hf.
Qed.

Lemma bmax_sub_lead_r : forall x y,
    bcompat x y -> Forall (fun v => 1 <= v) y -> sub_lead y (bmax x y).
Proof.
  intros x y Hc Hy. rewrite bmax_sym. apply bmax_sub_lead_l; [|exact Hy].
  apply bcompat_sym. exact Hc.
Qed.

(** * Shapes with the last dimension split off *)

Section Snoc.
  Context {F : Type}.

  Lemma lead_dims_snoc : forall (a : arr F) d l, dims a = d ++ [l] -> lead_dims 1 a = d.
  Proof.
    intros a d l E. unfold lead_dims. rewrite E, app_length. cbn [length].
    replace (length d + 1 - 1) with (length d) by lia.
    rewrite firstn_app, Nat.sub_diag, firstn_all. cbn [firstn]. apply app_nil_r.
  Qed.

  Lemma group_length_snoc : forall (a : arr F) d l, dims a = d ++ [l] -> group_length 1 a = l.
  Proof.
    intros a d l E. unfold group_length, lastn. rewrite E, app_length. cbn [length].
    replace (length d + 1 - 1) with (length d) by lia.
    rewrite skipn_app, Nat.sub_diag, skipn_all. cbn [skipn app prod fold_right]. lia.
  Qed.

  Lemma sliced_valid_snoc : forall (a : arr F) d l lead m,
      dims a = d ++ [l] -> sub_lead d lead -> sliced_valid 1 (lead ++ [m]) a = true.
  Proof.
    intros a d l lead m E Hsub. apply sliced_valid_spec.
    - rewrite E, !app_length. cbn [length]. destruct Hsub as [Hl _]. lia.
    - rewrite (lead_dims_snoc a d l E). rewrite app_length. cbn [length].
      replace (length lead + 1 - 1) with (length lead) by lia.
      rewrite firstn_app, Nat.sub_diag, firstn_all. cbn [firstn]. rewrite app_nil_r. exact Hsub.
  Qed.
End Snoc.

(** * The closure of [element_wise_op] *)

Section EwSop.
  Context {F : Type}.

  Lemma mod_cl : forall j l m, 1 <= l -> (l = 1 \/ l = m) -> j < m -> j mod l = cl (j, l).
  Proof.
    intros j l m Hl Hlm Hj. unfold cl. cbn [fst snd]. destruct (l =? 1) eqn:E.
    - apply Nat.eqb_eq in E. subst l. apply Nat.mod_1_r.
    - apply Nat.eqb_neq in E. apply Nat.mod_small. lia.
  Qed.

  Lemma cl_lt : forall j l m, 1 <= l -> (l = 1 \/ l = m) -> j < m -> cl (j, l) < l.
  Proof.
    intros j l m Hl Hlm Hj. unfold cl. cbn [fst snd]. destruct (l =? 1) eqn:E.
    - lia.
    - apply Nat.eqb_neq in E. lia.
  Qed.

  Lemma ew_sop_spec : forall (f : F -> F -> F) la lb m (cur sa sb : list F),
      1 <= la -> 1 <= lb -> (la = 1 \/ la = m) -> (lb = 1 \/ lb = m) ->
      length sa = la -> length sb = lb -> length cur = m ->
      exists new,
        ew_sop f la lb cur [sa; sb] = Some new /\ length new = m /\
        forall j, j < m ->
          exists x y, nth_error sa (cl (j, la)) = Some x /\ nth_error sb (cl (j, lb)) = Some y /\
                      nth_error new j = Some (f x y).
  Proof.
    intros f la lb m cur sa sb Hla Hlb Hma Hmb Hsa Hsb Hcur. unfold ew_sop. rewrite Hcur.
    set (g := fun i => x <- nth_error sa (i mod la) ;; y <- nth_error sb (i mod lb) ;; Some (f x y)).
    assert (Hg : forall j, j < m ->
               exists x y, nth_error sa (cl (j, la)) = Some x /\ nth_error sb (cl (j, lb)) = Some y /\
                           g j = Some (f x y)).
    { intros j Hj. unfold g.
      rewrite (mod_cl j la m Hla Hma Hj), (mod_cl j lb m Hlb Hmb Hj).
      pose proof (cl_lt j la m Hla Hma Hj) as Ha. pose proof (cl_lt j lb m Hlb Hmb Hj) as Hb.
      destruct (nth_error sa (cl (j, la))) as [x|] eqn:Ex;
        [|apply nth_error_None in Ex; lia].
      destruct (nth_error sb (cl (j, lb))) as [y|] eqn:Ey;
        [|apply nth_error_None in Ey; lia].
      exists x, y. auto. }
    destruct (mapM_total g (seq 0 m)) as (new & Hnew).
    { intros j Hj. apply in_seq in Hj. destruct (Hg j ltac:(lia)) as (x & y & _ & _ & E).
      eexists. exact E. }
    exists new. split; [exact Hnew|]. split.
    - rewrite (mapM_length _ _ _ Hnew). apply seq_length.
    - intros j Hj. destruct (Hg j Hj) as (x & y & Ex & Ey & E). exists x, y.
      split; [exact Ex|]. split; [exact Ey|].
      destruct (mapM_nth_error g (seq 0 m) new j j Hnew) as (z & Hz & Hn).
      { rewrite nth_error_nth' with (d := 0) by (rewrite seq_length; exact Hj).
        rewrite seq_nth by exact Hj. reflexivity. }
      rewrite Hn, <- Hz. exact E.
  Qed.
End EwSop.

(** * [element_wise_op] *)

Section EwSpec.
  Context {F : Type} (O : ScalarOps F).

  Lemma nth_error_rev_0_snoc : forall (d : list nat) l, nth_error (rev (d ++ [l])) 0 = Some l.
  Proof. intros. rewrite rev_app_distr. reflexivity. Qed.

  Lemma wf_snoc : forall (a : arr F) d l,
      wf a -> dims a = d ++ [l] ->
      Forall (fun x => 1 <= x) d /\ 1 <= l /\ length (vals a) = prod d * l.
  Proof.
    intros a d l [Hp Hl] E. rewrite E in Hp, Hl. apply Forall_app in Hp. destruct Hp as [Hd Hl1].
    inversion Hl1; subst. rewrite prod_app in Hl. cbn [prod fold_right] in Hl.
    split; [exact Hd|]. split; [assumption|lia].
  Qed.

  (** the theorem with the last dimensions named *)
  Lemma element_wise_op_snoc : forall (f : F -> F -> F) (a b : arr F) da la db lb,
      wf a -> wf b -> dims a = da ++ [la] -> dims b = db ++ [lb] ->
      bcompat (dims a) (dims b) ->
      exists c, element_wise_op O f a b = Some c /\ wf c /\ dims c = bmax (dims a) (dims b) /\
        forall I, in_range I (dims c) ->
          exists x y, get a (bclamp (dims a) I) = Some x /\ get b (bclamp (dims b) I) = Some y /\
                      get c I = Some (f x y).
  Proof.
    intros f a b da la db lb Hwa Hwb Ea Eb Hc.
    destruct (wf_snoc a da la Hwa Ea) as (Hpda & Hla & Hva).
    destruct (wf_snoc b db lb Hwb Eb) as (Hpdb & Hlb & Hvb).
    assert (Hc' := Hc). rewrite Ea, Eb in Hc'. apply bcompat_snoc in Hc'.
    destruct Hc' as [Hl Hcd].
    set (lead := bmax da db). set (m := Nat.max la lb).
    assert (Hbm : bmax (dims a) (dims b) = lead ++ [m]) by (rewrite Ea, Eb; apply bmax_snoc).
    assert (Hd : element_wise_dimensions (dims a) (dims b) = Some (lead ++ [m])).
    { apply element_wise_dimensions_spec. split; [exact Hc|symmetry; exact Hbm]. }
    assert (Hsa : sub_lead da lead) by (apply bmax_sub_lead_l; assumption).
    assert (Hsb : sub_lead db lead) by (apply bmax_sub_lead_r; assumption).
    assert (Hlead : Forall (fun x => 1 <= x) lead) by (apply bmax_pos; assumption).
    assert (Hm : 1 <= m) by (unfold m; lia).
    assert (Hma : la = 1 \/ la = m) by (unfold m; lia).
    assert (Hmb : lb = 1 \/ lb = m) by (unfold m; lia).
    assert (Hpd : Forall (fun x => 1 <= x) (lead ++ [m])).
    { apply Forall_app. split; [exact Hlead|]. constructor; [exact Hm|constructor]. }
    assert (E1 : length (lead ++ [m]) - 1 = length lead)
      by (rewrite app_length; cbn [length]; lia).
    assert (E2 : firstn (length lead) (lead ++ [m]) = lead).
    { rewrite firstn_app, Nat.sub_diag, firstn_all. cbn [firstn]. apply app_nil_r. }
    assert (E3 : prod (skipn (length lead) (lead ++ [m])) = m).
    { rewrite skipn_app, Nat.sub_diag, skipn_all. cbn [skipn app prod fold_right]. lia. }
    (* the operand slices of iteration [i] *)
    set (ja := fun idx => rowmajor da (bclamp da idx)).
    set (jb := fun idx => rowmajor db (bclamp db idx)).
    assert (Hja : forall idx, in_range idx lead -> ja idx < prod da).
    { intros idx Hidx. apply rowmajor_lt_prod. apply (bclamp_in_range da lead); assumption. }
    assert (Hjb : forall idx, in_range idx lead -> jb idx < prod db).
    { intros idx Hidx. apply rowmajor_lt_prod. apply (bclamp_in_range db lead); assumption. }
    assert (Hsl : forall i,
               mapM (operand_slice 1 (length lead) (unrank lead i)) [a; b]
               = Some [block la (ja (unrank lead i)) (vals a);
                       block lb (jb (unrank lead i)) (vals b)]).
    { intros i. cbn [mapM].
      rewrite (operand_slice_spec 1 (length lead) lead i a Hwa Hlead eq_refl)
        by (rewrite (lead_dims_snoc a da la Ea); exact Hsa).
      rewrite (operand_slice_spec 1 (length lead) lead i b Hwb Hlead eq_refl)
        by (rewrite (lead_dims_snoc b db lb Eb); exact Hsb).
      rewrite (lead_dims_snoc a da la Ea), (lead_dims_snoc b db lb Eb).
      rewrite (group_length_snoc a da la Ea), (group_length_snoc b db lb Eb).
      reflexivity. }
    assert (Hop : forall i cur, i < prod lead -> length cur = m ->
               exists new,
                 ew_sop f la lb cur [block la (ja (unrank lead i)) (vals a);
                                     block lb (jb (unrank lead i)) (vals b)] = Some new /\
                 length new = m /\
                 forall j, j < m ->
                   exists x y,
                     nth_error (block la (ja (unrank lead i)) (vals a)) (cl (j, la)) = Some x /\
                     nth_error (block lb (jb (unrank lead i)) (vals b)) (cl (j, lb)) = Some y /\
                     nth_error new j = Some (f x y)).
    { intros i cur Hi Hcur.
      assert (Hr : in_range (unrank lead i) lead) by (apply unrank_lt; exact Hlead).
      apply ew_sop_spec; try assumption.
      - apply (block_length la _ (prod da)); [exact Hva|apply Hja; exact Hr].
      - apply (block_length lb _ (prod db)); [exact Hvb|apply Hjb; exact Hr]. }
    (* existence *)
    pose proof (sliced_op_nonacc_total O [a; b] (ew_sop f la lb) (lead ++ [m]) (lead ++ [m])
                                       1 0 (lead ++ [m])) as T.
    cbv zeta in T. rewrite E1, E2, E3 in T.
    destruct T as (out & Hout); try reflexivity; try assumption.
    { cbn [forallb].
      rewrite (sliced_valid_snoc a da la lead m Ea Hsa), (sliced_valid_snoc b db lb lead m Eb Hsb).
      reflexivity. }
    { intros i Hi. destruct (Hop i (repeat (f0 O) m) Hi (repeat_length _ _)) as (new & Hn & Hlen & _).
      eexists. exists new. split; [apply Hsl|]. split; assumption. }
    set (c := {| dims := lead ++ [m]; vals := out |}) in *.
    exists c.
    assert (Hew : element_wise_op O f a b = Some c).
    { unfold element_wise_op. rewrite Hd. cbn [obind].
      rewrite Ea, Eb, !nth_error_rev_0_snoc. cbn [obind]. exact Hout. }
    split; [exact Hew|].
    (* analysis of the result *)
    pose proof (sliced_op_nonacc O [a; b] (ew_sop f la lb) (lead ++ [m]) (lead ++ [m]) 1 0 c) as S.
    cbv zeta in S. rewrite E1, E2, E3 in S.
    apply (proj1 (S eq_refl Hlead)) in Hout. clear S.
    destruct Hout as (_ & out' & Hlen & Hb & Hmk).
    unfold flatten_dims in Hmk. cbn [Nat.eqb obind] in Hmk.
    apply mk_some in Hmk. destruct Hmk as (_ & Hpl & Hceq).
    assert (out' = out) by (unfold c in Hceq; congruence). subst out'.
    split; [split; [exact Hpd|exact Hpl]|].
    split; [symmetry; exact Hbm|].
    intros I HI. cbn [dims c] in HI.
    destruct (in_range_snoc_inv I lead m HI) as (I' & j & -> & HI' & Hj).
    assert (HlenI : length I' = length lead) by (eapply Forall2_len; exact HI').
    set (i := rowmajor lead I').
    assert (Hi : i < prod lead) by (apply rowmajor_lt_prod; exact HI').
    assert (Hu : unrank lead i = I') by (apply unrank_rowmajor; exact HI').
    destruct (Hb i Hi) as (slices & Hs & Hnew).
    rewrite Hsl in Hs. inversion Hs; subst slices. clear Hs. rewrite Hu in Hnew.
    destruct (Hop i (repeat (f0 O) m) Hi (repeat_length _ _)) as (new & Hn & _ & Hval).
    rewrite Hu in Hn, Hval. rewrite Hnew in Hn. inversion Hn; subst new. clear Hn.
    destruct (Hval j Hj) as (x & y & Hx & Hy & Hz). exists x, y.
    pose proof (cl_lt j la m Hla Hma Hj) as Hcla. pose proof (cl_lt j lb m Hlb Hmb Hj) as Hclb.
    split; [|split].
    - unfold get. rewrite Ea. rewrite bclamp_snoc by (destruct Hsa; lia).
      rewrite rowmajor_snoc by (rewrite bclamp_length; [reflexivity|destruct Hsa; lia]).
      rewrite <- Hx. rewrite nth_error_block by exact Hcla.
      f_equal. unfold ja, cl. cbn [fst snd]. lia.
    - unfold get. rewrite Eb. rewrite bclamp_snoc by (destruct Hsb; lia).
      rewrite rowmajor_snoc by (rewrite bclamp_length; [reflexivity|destruct Hsb; lia]).
      rewrite <- Hy. rewrite nth_error_block by exact Hclb.
      f_equal. unfold jb, cl. cbn [fst snd]. lia.
    - unfold get. cbn [dims vals c].
      rewrite rowmajor_snoc by (symmetry; exact HlenI).
      rewrite <- Hz. rewrite nth_error_block by exact Hj. f_equal. fold i. lia.
  Qed.

  (** C04, values: broadcasting element-wise operation *)
  Theorem element_wise_op_spec : forall (f : F -> F -> F) (a b : arr F),
      wf a -> wf b -> dims a <> [] -> dims b <> [] -> bcompat (dims a) (dims b) ->
      exists c, element_wise_op O f a b = Some c /\ wf c /\ dims c = bmax (dims a) (dims b) /\
        forall I, in_range I (dims c) ->
          exists x y, get a (bclamp (dims a) I) = Some x /\ get b (bclamp (dims b) I) = Some y /\
                      get c I = Some (f x y).
  Proof.
    intros f a b Hwa Hwb Hna Hnb Hc.
    destruct (exists_last Hna) as (da & la & Ea). destruct (exists_last Hnb) as (db & lb & Eb).
    exact (element_wise_op_snoc f a b da la db lb Hwa Hwb Ea Eb Hc).
  Qed.

  Theorem element_wise_op_refuses : forall (f : F -> F -> F) (a b : arr F),
      ~ bcompat (dims a) (dims b) -> element_wise_op O f a b = None.
  Proof.
    intros f a b H. unfold element_wise_op.
    apply element_wise_dimensions_refuses in H. rewrite H. reflexivity.
  Qed.

  (** ** [map_arr] *)

  Lemma map_arr_spec : forall (g : F -> F) (a : arr F),
      wf a ->
      exists c, map_arr g a = Some c /\ wf c /\ dims c = dims a /\
                forall I, get c I = option_map g (get a I).
  Proof.
    intros g a [Hp Hl]. exists {| dims := dims a; vals := map g (vals a) |}.
    split; [|split; [|split]].
    - unfold map_arr. apply mk_some. rewrite map_length. auto.
    - split; cbn [dims vals]; [exact Hp|]. rewrite map_length. exact Hl.
    - reflexivity.
    - intros I. unfold get. cbn [dims vals].
      generalize (rowmajor (dims a) I) as n. generalize (vals a) as l.
      induction l as [|x l IH]; intros [|n]; simpl; try reflexivity. apply IH.
  Qed.

  Lemma map_arr_dims : forall (g : F -> F) (a c : arr F), map_arr g a = Some c -> dims c = dims a.
  Proof.
    intros g a c H. unfold map_arr in H. apply mk_some in H. destruct H as (_ & _ & ->). reflexivity.
  Qed.

  (** ** The arithmetic operations *)

  Corollary a_add_spec : forall a b : arr F,
      wf a -> wf b -> dims a <> [] -> dims b <> [] -> bcompat (dims a) (dims b) ->
      exists c, a_add O a b = Some c /\ wf c /\ dims c = bmax (dims a) (dims b) /\
        forall I, in_range I (dims c) ->
          exists x y, get a (bclamp (dims a) I) = Some x /\ get b (bclamp (dims b) I) = Some y /\
                      get c I = Some (fadd O x y).
  Proof. intros a b. exact (element_wise_op_spec (fadd O) a b). Qed.

  Corollary a_mul_spec : forall a b : arr F,
      wf a -> wf b -> dims a <> [] -> dims b <> [] -> bcompat (dims a) (dims b) ->
      exists c, a_mul O a b = Some c /\ wf c /\ dims c = bmax (dims a) (dims b) /\
        forall I, in_range I (dims c) ->
          exists x y, get a (bclamp (dims a) I) = Some x /\ get b (bclamp (dims b) I) = Some y /\
                      get c I = Some (fmul O x y).
  Proof. intros a b. exact (element_wise_op_spec (fmul O) a b). Qed.

  Corollary a_div_spec : forall a b : arr F,
      wf a -> wf b -> dims a <> [] -> dims b <> [] -> bcompat (dims a) (dims b) ->
      exists c, a_div O a b = Some c /\ wf c /\ dims c = bmax (dims a) (dims b) /\
        forall I, in_range I (dims c) ->
          exists x y, get a (bclamp (dims a) I) = Some x /\ get b (bclamp (dims b) I) = Some y /\
                      get c I = Some (fdiv O x y).
  Proof. intros a b. exact (element_wise_op_spec (fdiv O) a b). Qed.

  Corollary a_add_refuses : forall a b : arr F,
      ~ bcompat (dims a) (dims b) -> a_add O a b = None.
  Proof. intros a b. exact (element_wise_op_refuses (fadd O) a b). Qed.

  Corollary a_mul_refuses : forall a b : arr F,
      ~ bcompat (dims a) (dims b) -> a_mul O a b = None.
  Proof. intros a b. exact (element_wise_op_refuses (fmul O) a b). Qed.

  Corollary a_div_refuses : forall a b : arr F,
      ~ bcompat (dims a) (dims b) -> a_div O a b = None.
  Proof. intros a b. exact (element_wise_op_refuses (fdiv O) a b). Qed.

  (** [a - b] is computed as [a + b * (-1)] *)
  Corollary a_sub_spec : forall a b : arr F,
      wf a -> wf b -> dims a <> [] -> dims b <> [] -> bcompat (dims a) (dims b) ->
      exists c, a_sub O a b = Some c /\ wf c /\ dims c = bmax (dims a) (dims b) /\
        forall I, in_range I (dims c) ->
          exists x y, get a (bclamp (dims a) I) = Some x /\ get b (bclamp (dims b) I) = Some y /\
                      get c I = Some (fadd O x (fmul O y (fneg O (f1 O)))).
  Proof.
    intros a b Hwa Hwb Hna Hnb Hc.
    destruct (map_arr_spec (fun x => fmul O x (m1 O)) b Hwb) as (nb & Hnb' & Hwnb & Hdnb & Hget).
    assert (Hc' : bcompat (dims a) (dims nb)) by (rewrite Hdnb; exact Hc).
    assert (Hnnb : dims nb <> []) by (rewrite Hdnb; exact Hnb).
    destruct (a_add_spec a nb Hwa Hwnb Hna Hnnb Hc') as (c & Hadd & Hwc & Hdc & Hval).
    exists c. split; [|split; [exact Hwc|split; [rewrite Hdc, Hdnb; reflexivity|]]].
    - unfold a_sub, a_neg, a_scale. rewrite Hnb'. exact Hadd.
    - intros I HI. destruct (Hval I HI) as (x & y' & Hx & Hy' & Hz).
      rewrite Hget, Hdnb in Hy'.
      destruct (get b (bclamp (dims b) I)) as [y|] eqn:Ey; [|discriminate].
      cbn [option_map] in Hy'. inversion Hy'; subst y'.
      exists x, y. split; [exact Hx|]. split; [reflexivity|exact Hz].
  Qed.

  Corollary a_sub_refuses : forall a b : arr F,
      ~ bcompat (dims a) (dims b) -> a_sub O a b = None.
  Proof.
    intros a b H. unfold a_sub, a_neg, a_scale.
    destruct (map_arr (fun x => fmul O x (m1 O)) b) as [nb|] eqn:E; [|reflexivity].
    cbn [obind]. apply a_add_refuses. rewrite (map_arr_dims _ _ _ E). exact H.
  Qed.

  (** [axpy alpha x y] is computed as [(x * alpha) + y] *)
  Corollary a_axpy_spec : forall (alpha : F) (x y : arr F),
      wf x -> wf y -> dims x <> [] -> dims y <> [] -> bcompat (dims x) (dims y) ->
      exists c, a_axpy O alpha x y = Some c /\ wf c /\ dims c = bmax (dims x) (dims y) /\
        forall I, in_range I (dims c) ->
          exists u v, get x (bclamp (dims x) I) = Some u /\ get y (bclamp (dims y) I) = Some v /\
                      get c I = Some (fadd O (fmul O u alpha) v).
  Proof.
    intros alpha x y Hwx Hwy Hnx Hny Hc.
    destruct (map_arr_spec (fun u => fmul O u alpha) x Hwx) as (ax & Hax & Hwax & Hdax & Hget).
    assert (Hc' : bcompat (dims ax) (dims y)) by (rewrite Hdax; exact Hc).
    assert (Hnax : dims ax <> []) by (rewrite Hdax; exact Hnx).
    destruct (a_add_spec ax y Hwax Hwy Hnax Hny Hc') as (c & Hadd & Hwc & Hdc & Hval).
    exists c. split; [|split; [exact Hwc|split; [rewrite Hdc, Hdax; reflexivity|]]].
    - unfold a_axpy, a_scale. rewrite Hax. exact Hadd.
    - intros I HI. destruct (Hval I HI) as (u' & v & Hu' & Hv & Hz).
      rewrite Hget, Hdax in Hu'.
      destruct (get x (bclamp (dims x) I)) as [u|] eqn:Eu; [|discriminate].
      cbn [option_map] in Hu'. inversion Hu'; subst u'.
      exists u, v. split; [reflexivity|]. split; [exact Hv|exact Hz].
  Qed.

  Corollary a_axpy_refuses : forall (alpha : F) (x y : arr F),
      ~ bcompat (dims x) (dims y) -> a_axpy O alpha x y = None.
  Proof.
    intros alpha x y H. unfold a_axpy, a_scale.
    destruct (map_arr (fun u => fmul O u alpha) x) as [ax|] eqn:E; [|reflexivity].
    cbn [obind]. apply a_add_refuses. rewrite (map_arr_dims _ _ _ E). exact H.
  Qed.
End EwSpec.

Print Assumptions element_wise_op_spec.
Print Assumptions a_sub_spec.
Print Assumptions a_axpy_spec.
