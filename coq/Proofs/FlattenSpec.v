(** C03: [flatten_to] is the transpose (adjoint) of broadcasting.

    Shape facts need no assumption on the scalars; the value theorems are stated for a
    commutative ring of scalars ([is_cring], Lib/Sums.v), because the model accumulates
    the contributions in loop order. *)

From Coq Require Import List Arith Bool Lia PeanoNat.
From Corgi Require Import Lib.OptionMonad Lib.IdxDefs Lib.Idx Model.Scalar Model.Arr
     Model.SlicedOp Model.Elementwise Lib.Sums Proofs.ArrFacts Proofs.BroadcastDims
     Proofs.SpecDefs Proofs.SlicedOpSpec Proofs.EwSpec Proofs.ReduceSpec.
Import ListNotations.

(** * Vocabulary *)

Fixpoint list_eqb (x y : list nat) : bool :=
  match x, y with
  | [], [] => true
  | a :: x', b :: y' => (a =? b) && list_eqb x' y'
  | _, _ => false
  end.

Lemma list_eqb_spec : forall x y, list_eqb x y = true <-> x = y.
Proof.
  induction x as [|a x IH]; intros [|b y]; simpl; split; intros H;
    try reflexivity; try discriminate.
  - apply andb_true_iff in H. destruct H as [H1 H2]. apply Nat.eqb_eq in H1.
    apply IH in H2. congruence.
  - inversion H; subst. rewrite Nat.eqb_refl. apply IH. reflexivity.
Qed.

(** [t] is right-aligned below-or-unit w.r.t. [d] *)
Definition sub_target (t d : list nat) : Prop :=
  length t <= length d /\
  Forall2 (fun x y => x = 1 \/ x = y) t (lastn (length t) d).

Lemma sub_target_sub_lead : forall t d, sub_target t d <-> sub_lead t d.
Proof. intros. reflexivity. Qed.

(** the flat position of the target [t] that flat position [j] of the source [d] is
    broadcast from *)
Definition bpos (d t : list nat) (j : nat) : nat := rowmajor t (bclamp t (unrank d j)).

(** * Lists as tabulations *)

Lemma combine_map_map : forall {A B C} (f : C -> A) (g : C -> B) l,
    combine (map f l) (map g l) = map (fun k => (f k, g k)) l.
Proof. intros A B C f g l. induction l as [|x l IH]; simpl; [reflexivity|]. rewrite IH. reflexivity. Qed.

Section Tab.
  Context {A : Type}.

  Lemma nth_nth_error : forall (l : list A) n d,
      nth n l d = match nth_error l n with Some v => v | None => d end.
  Proof.
    induction l as [|x l IH]; intros [|n] d; simpl; try reflexivity. apply IH.
  Qed.

  Lemma nth_block : forall g b (l : list A) x d,
      x < g -> nth x (block g b l) d = nth (g * b + x) l d.
  Proof. intros. rewrite !nth_nth_error, nth_error_block by assumption. reflexivity. Qed.

  Lemma nth_map_seq : forall (f : nat -> A) s n x d,
      x < n -> nth x (map f (seq s n)) d = f (s + x).
  Proof.
    intros f s n x d Hx. rewrite nth_nth_error, nth_error_map.
    rewrite nth_error_nth' with (d := 0) by (rewrite seq_length; exact Hx).
    rewrite seq_nth by exact Hx. reflexivity.
  Qed.

  Lemma list_as_map_seq : forall (l : list A) d,
      l = map (fun k => nth k l d) (seq 0 (length l)).
  Proof.
    intros l d. apply nth_error_ext. intros x. rewrite nth_error_map.
    destruct (Nat.lt_ge_cases x (length l)) as [Hx|Hx].
    - rewrite (nth_error_nth' (seq 0 (length l)) 0) by (rewrite seq_length; exact Hx).
      rewrite seq_nth by exact Hx. cbn [option_map Nat.add].
      apply nth_error_nth'. exact Hx.
    - replace (nth_error l x) with (@None A) by (symmetry; apply nth_error_None; exact Hx).
      replace (nth_error (seq 0 (length l)) x) with (@None nat)
        by (symmetry; apply nth_error_None; rewrite seq_length; exact Hx).
      reflexivity.
  Qed.

  Lemma combine_seq_nth : forall (l : list A) d,
      combine (seq 0 (length l)) l = map (fun k => (k, nth k l d)) (seq 0 (length l)).
  Proof.
    intros l d. rewrite (list_as_map_seq l d) at 2.
    rewrite <- (map_id (seq 0 (length l))) at 1.
    apply combine_map_map.
  Qed.

  Lemma slice_length : forall off len (l s : list A), slice off len l = Some s -> length s = len.
  Proof.
    intros off len l s H. unfold slice in H.
    destruct (off + len <=? length l) eqn:E; [|discriminate].
    apply Nat.leb_le in E. inversion H; subst. rewrite firstn_length, skipn_length. lia.
  Qed.

  Lemma block_0_all : forall g (l : list A), length l = g -> block g 0 l = l.
  Proof.
    intros g l H. unfold block. rewrite Nat.mul_0_r. cbn [skipn]. apply firstn_all2. lia.
  Qed.

  Lemma filter_map_swap : forall {B} (p : A -> bool) (f : B -> A) l,
      filter p (map f l) = map f (filter (fun x => p (f x)) l).
  Proof.
    intros B p f l. induction l as [|x l IH]; simpl; [reflexivity|].
    destruct (p (f x)); simpl; rewrite IH; reflexivity.
  Qed.
End Tab.

Lemma nth_repeat_same : forall {A} (z : A) n x, nth x (repeat z n) z = z.
Proof.
  intros A z n. induction n as [|n IH]; intros [|x]; simpl; try reflexivity. apply IH.
Qed.


(** * Shape facts (no assumption on the scalars) *)

Section Shape.
  Context {F : Type} (O : ScalarOps F).

  Lemma sliced_op_shape : forall (arrays : list (arr F)) op in_dims out_dims k c,
      sliced_op O arrays op in_dims out_dims k 0 = Some c -> wf c /\ dims c = out_dims.
  Proof.
    intros arrays op in_dims out_dims k c H. rewrite sliced_op_unfold in H. cbv zeta in H.
    apply obind_some in H. destruct H as (_ & _ & H).
    apply obind_some in H. destruct H as (out & _ & H).
    cbn [Nat.eqb obind] in H. apply mk_some in H. destruct H as (Hp & Hl & ->).
    split; [split; assumption|reflexivity].
  Qed.

  (** the two phases of [flatten_to] *)
  Definition flatten_head (a : arr F) (t : list nat) : option (arr F) :=
    let fdc := length (dims a) - length t in
    if fdc =? 0 then Some a
    else sliced_op O [a] (flatten_sop O) (dims a) (skipn fdc (dims a)) (length (dims a)) 0.

  Definition flatten_tail (fl : arr F) (t : list nat) : option (arr F) :=
    if dims_eqb (dims fl) t then Some fl
    else sliced_op O [fl] (flatten_sop O) (dims fl) t 1 0.

  Lemma flatten_to_unfold : forall (a : arr F) t,
      flatten_to O a t = (fl <- flatten_head a t ;; flatten_tail fl t).
  Proof.
    intros a t. unfold flatten_to, flatten_head, flatten_tail. cbv zeta.
    destruct (dims_eqb (dims a) t) eqn:E; [|reflexivity].
    pose proof E as E'. apply dims_eqb_spec in E'. rewrite <- E', Nat.sub_diag.
    cbn [Nat.eqb obind]. rewrite E' at 2. rewrite E. reflexivity.
  Qed.

  Theorem flatten_to_same : forall a : arr F, flatten_to O a (dims a) = Some a.
  Proof.
    intros a. unfold flatten_to.
    replace (dims_eqb (dims a) (dims a)) with true
      by (symmetry; apply dims_eqb_spec; reflexivity).
    reflexivity.
  Qed.

  Lemma flatten_head_shape : forall (a fl : arr F) t,
      wf a -> flatten_head a t = Some fl ->
      wf fl /\ dims fl = skipn (length (dims a) - length t) (dims a).
  Proof.
    intros a fl t Hwa H. unfold flatten_head in H. cbv zeta in H.
    destruct (length (dims a) - length t =? 0) eqn:E.
    - inversion H; subst fl. apply Nat.eqb_eq in E. rewrite E. split; [exact Hwa|reflexivity].
    - apply sliced_op_shape in H. exact H.
  Qed.

  Lemma flatten_tail_shape : forall (fl r : arr F) t,
      wf fl -> flatten_tail fl t = Some r -> wf r /\ dims r = t.
  Proof.
    intros fl r t Hw H. unfold flatten_tail in H.
    destruct (dims_eqb (dims fl) t) eqn:E.
    - inversion H; subst r. apply dims_eqb_spec in E. split; assumption.
    - apply sliced_op_shape in H. exact H.
  Qed.

  (** (B3) whenever [flatten_to] returns, the result is well formed with the target
      dimensions *)
  Theorem flatten_to_shape : forall (a r : arr F) t,
      wf a -> flatten_to O a t = Some r -> wf r /\ dims r = t.
  Proof.
    intros a r t Hwa H. rewrite flatten_to_unfold in H.
    apply obind_some in H. destruct H as (fl & Hh & Ht).
    destruct (flatten_head_shape a fl t Hwa Hh) as [Hwfl _].
    exact (flatten_tail_shape fl r t Hwfl Ht).
  Qed.
End Shape.

(** * Loops that accumulate into a block chosen by the iteration *)

Section AccLoop.
  Context {A : Type}.
  Variables (g M : nat) (phi : nat -> nat) (upd : nat -> list A -> list A).
  Hypothesis upd_len : forall i cur, length cur = g -> length (upd i cur) = g.

  (** iteration [i] rewrites block [phi i] with [upd i] of its current contents *)
  Definition astep (i : nat) (out : list A) : option (list A) :=
    bstep g (fun _ cur => Some (upd i cur)) (phi i) out.

  Lemma acc_loop : forall l out0,
      length out0 = M * g -> (forall i, In i l -> phi i < M) ->
      exists out,
        iterM astep l out0 = Some out /\ length out = M * g /\
        forall b, b < M ->
          block g b out
          = fold_left (fun blk i => if phi i =? b then upd i blk else blk) l (block g b out0).
  Proof.
    induction l as [|i l IH]; intros out0 Hl Hphi.
    - exists out0. split; [reflexivity|]. split; [exact Hl|]. reflexivity.
    - assert (Hi : phi i < M) by (apply Hphi; left; reflexivity).
      set (new := upd i (block g (phi i) out0)).
      assert (Hnew : length new = g).
      { apply upd_len. apply (block_length g (phi i) M out0 Hl Hi). }
      pose proof (bstep_complete g M (fun _ cur => Some (upd i cur)) (phi i) out0 new Hl Hi
                                 eq_refl Hnew) as Hstep.
      destruct (bstep_some g M _ (phi i) out0 _ Hl Hi Hstep) as (_ & Hl1 & Hother).
      destruct (IH (splice (g * phi i) new out0) Hl1) as (out & Hit & Hlen & Hb).
      { intros j Hj. apply Hphi. right. exact Hj. }
      exists out. split; [|split; [exact Hlen|]].
      + cbn [iterM]. unfold astep at 1. rewrite Hstep. cbn [obind]. exact Hit.
      + intros b Hb'. rewrite (Hb b Hb'). cbn [fold_left]. f_equal.
        destruct (phi i =? b) eqn:E.
        * apply Nat.eqb_eq in E. subst b.
          apply (block_splice_same g (phi i) M new out0 Hl Hi Hnew).
        * apply Nat.eqb_neq in E. apply Hother. congruence.
  Qed.
End AccLoop.

(** * The closure of [flatten_to] *)

Section FlattenSop.
  Context {F : Type} (O : ScalarOps F).

  (** canonical form of one application *)
  Definition fl_upd (g : nat) (s cur : list F) : list F :=
    map (fun k => fadd O (nth k cur (f0 O)) (vsum O (strided O k g s))) (seq 0 g).

  Lemma flatten_sop_upd : forall g (s cur : list F),
      length cur = g -> flatten_sop O cur [s] = Some (fl_upd g s cur).
  Proof.
    intros g s cur Hg. unfold flatten_sop, fl_upd. cbv zeta. f_equal.
    rewrite (combine_seq_nth cur (f0 O)), map_map, Hg. reflexivity.
  Qed.

  Lemma fl_upd_length : forall g s cur, length (fl_upd g s cur) = g.
  Proof. intros. unfold fl_upd. rewrite map_length, seq_length. reflexivity. Qed.

  Lemma fl_upd_nth : forall g s cur x,
      x < g -> nth x (fl_upd g s cur) (f0 O)
               = fadd O (nth x cur (f0 O)) (vsum O (strided O x g s)).
  Proof. intros g s cur x Hx. unfold fl_upd. rewrite nth_map_seq by exact Hx. reflexivity. Qed.

  (** ** phase 1: the leading dimensions are summed away in a single application *)
  Lemma flatten_phase1 : forall (a : arr F) fdc,
      wf a ->
      let d1 := skipn fdc (dims a) in
      sliced_op O [a] (flatten_sop O) (dims a) d1 (length (dims a)) 0
      = Some {| dims := d1;
                vals := map (fun x => fadd O (f0 O) (vsum O (strided O x (prod d1) (vals a))))
                            (seq 0 (prod d1)) |}.
  Proof.
    intros a fdc [Hpa Hla] d1.
    set (out1 := map (fun x => fadd O (f0 O) (vsum O (strided O x (prod d1) (vals a))))
                     (seq 0 (prod d1))).
    assert (Hlen1 : length out1 = prod d1) by (unfold out1; rewrite map_length, seq_length; reflexivity).
    pose proof (sliced_op_nonacc O [a] (flatten_sop O) (dims a) d1 (length (dims a)) 0
                                 {| dims := d1; vals := out1 |}) as S.
    cbv zeta in S. rewrite Nat.sub_diag in S. cbn [firstn skipn prod fold_right] in S.
    apply (proj2 (S eq_refl (Forall_nil _))). clear S. split.
    - cbn [forallb]. rewrite andb_true_r. apply sliced_valid_spec; [lia|]. apply sub_lead_refl.
    - exists out1. split; [exact Hlen1|]. split.
      + intros i Hi. assert (i = 0) by lia. subst i. exists [vals a]. split.
        * cbn [mapM]. unfold operand_slice, group_length, lastn. cbv zeta.
          rewrite Nat.sub_diag. cbn [skipn Nat.sub].
          unfold clamp_fold, clamp_horner.
          replace (combine (unrank [] 0) (dims a)) with (@nil (nat * nat)) by reflexivity.
          cbn [fold_left]. rewrite Nat.mul_0_r. unfold slice. cbn [Nat.add skipn].
          rewrite Hla, Nat.leb_refl, firstn_all. reflexivity.
        * rewrite (flatten_sop_upd (prod d1)) by apply repeat_length.
          rewrite block_0_all by exact Hlen1. f_equal. unfold fl_upd, out1.
          apply map_ext. intros k. rewrite nth_repeat_same. reflexivity.
      + unfold flatten_dims. cbn [Nat.eqb obind]. apply mk_some.
        split; [apply Forall_skipn; exact Hpa|]. split; [symmetry; exact Hlen1|reflexivity].
  Qed.
End FlattenSop.

Section FlattenPhase2.
  Context {F : Type} (O : ScalarOps F).

  Lemma fold_upd_nth : forall g (phi : nat -> nat) (row : nat -> list F) b x l blk,
      length blk = g -> x < g ->
      nth x (fold_left (fun blk i => if phi i =? b then fl_upd O g (row i) blk else blk) l blk)
          (f0 O)
      = fold_left (fun acc i => if phi i =? b
                                then fadd O acc (vsum O (strided O x g (row i))) else acc)
                  l (nth x blk (f0 O)).
  Proof.
    intros g phi row b x l. induction l as [|i l IH]; intros blk Hg Hx; [reflexivity|].
    cbn [fold_left]. destruct (phi i =? b).
    - rewrite IH; [|apply fl_upd_length|exact Hx].
      rewrite fl_upd_nth by exact Hx. reflexivity.
    - apply IH; assumption.
  Qed.

  (** ** phase 2: unit dimensions of the target are collapsed, row by row; the rows whose
      clamped leading index is [b] accumulate into block [b] of the output *)
  Lemma flatten_phase2 : forall (fl : arr F) l1 n1 lt nt,
      wf fl -> dims fl = l1 ++ [n1] -> length lt = length l1 -> sub_lead lt l1 ->
      Forall (fun x => 1 <= x) lt -> 1 <= nt ->
      let phi := fun i => rowmajor lt (bclamp lt (unrank l1 i)) in
      exists out,
        sliced_op O [fl] (flatten_sop O) (dims fl) (lt ++ [nt]) 1 0
        = Some {| dims := lt ++ [nt]; vals := out |} /\
        length out = prod lt * nt /\
        forall b x, b < prod lt -> x < nt ->
          nth (nt * b + x) out (f0 O)
          = fold_left (fun acc i =>
                         if phi i =? b
                         then fadd O acc (vsum O (strided O x nt (block n1 i (vals fl))))
                         else acc)
                      (seq 0 (prod l1)) (f0 O).
  Proof.
    intros fl l1 n1 lt nt Hw Ed Hlen Hsub Hplt Hnt phi.
    destruct (wf_snoc fl l1 n1 Hw Ed) as (Hpl1 & Hn1 & Hvl).
    set (row := fun i => block n1 i (vals fl)).
    set (upd := fun i => fl_upd O nt (row i)).
    assert (Hphi : forall i, phi i < prod lt).
    { intros i. apply rowmajor_lt_prod. apply (bclamp_in_range lt l1); try assumption.
      apply unrank_lt. exact Hpl1. }
    assert (E1 : length (l1 ++ [n1]) - 1 = length l1) by (rewrite app_length; cbn [length]; lia).
    assert (E3 : prod (skipn (length l1) (lt ++ [nt])) = nt).
    { rewrite <- Hlen, skipn_app_len. cbn [prod fold_right]. lia. }
    assert (Hstep : forall i s', In i (seq 0 (prod l1)) ->
               sliced_step (flatten_sop O) [fl] 1 (length l1) l1 (lt ++ [nt]) nt i s'
               = astep nt phi upd i s').
    { intros i s' Hi. apply in_seq in Hi. unfold sliced_step. cbv zeta. cbn [mapM].
      rewrite (operand_slice_spec 1 (length l1) l1 i fl Hw Hpl1 eq_refl)
        by (rewrite (lead_dims_snoc fl l1 n1 Ed); apply sub_lead_refl).
      rewrite (lead_dims_snoc fl l1 n1 Ed), (group_length_snoc fl l1 n1 Ed).
      rewrite bclamp_id by (apply unrank_lt; exact Hpl1).
      rewrite rowmajor_unrank by (try assumption; lia). cbn [obind].
      assert (Ephi : clamp_fold (unrank l1 i) (lt ++ [nt]) = phi i).
      { unfold clamp_fold, clamp_horner. rewrite combine_firstn_r, unrank_length, <- Hlen.
        rewrite firstn_app_len.
        change (clamp_fold (unrank l1 i) lt = phi i).
        rewrite clamp_fold_rowmajor by (rewrite unrank_length; symmetry; exact Hlen).
        unfold phi. rewrite bclamp_eq. rewrite Hlen, <- (unrank_length l1 i), lastn_all.
        reflexivity. }
      rewrite Ephi. unfold astep, bstep.
      destruct (slice (nt * phi i) nt s') as [cur|] eqn:Es; cbn [obind]; [|reflexivity].
      rewrite (flatten_sop_upd O nt) by (eapply slice_length; exact Es). reflexivity. }
    destruct (acc_loop nt (prod lt) phi upd (fun i cur _ => fl_upd_length O nt (row i) cur)
                       (seq 0 (prod l1)) (repeat (f0 O) (prod lt * nt)))
      as (out & Hit & Hlo & Hblk).
    { apply repeat_length. }
    { intros i _. apply Hphi. }
    exists out. split; [|split; [exact Hlo|]].
    - rewrite sliced_op_unfold. cbv zeta. rewrite Ed, E1, firstn_app_len, E3.
      cbn [forallb]. rewrite (sliced_valid_snoc fl l1 n1 l1 n1 Ed (sub_lead_refl l1)).
      cbn [andb guard obind].
      rewrite (sliced_loop_from_zero _ _ _ _ _ _ _ Hpl1 _ _ eq_refl).
      rewrite (iterM_ext _ _ _ _ Hstep).
      rewrite prod_app. cbn [prod fold_right]. rewrite Nat.mul_1_r, Hit. cbn [Nat.eqb obind].
      apply mk_some. split; [|split; [|reflexivity]].
      + apply Forall_app. split; [exact Hplt|]. constructor; [exact Hnt|constructor].
      + rewrite prod_app. cbn [prod fold_right]. lia.
    - intros b x Hb Hx. rewrite <- nth_block by exact Hx. rewrite (Hblk b Hb).
      unfold upd. rewrite (fold_upd_nth nt phi row b x);
        [|apply (block_length nt b (prod lt)); [apply repeat_length|exact Hb]|exact Hx].
      rewrite (block_repeat nt b (prod lt) (f0 O) Hb), nth_repeat_same. reflexivity.
  Qed.
End FlattenPhase2.

(** * Index arithmetic for the broadcast position *)

Lemma mod_mul_mod : forall n d P, 1 <= d -> 1 <= P -> (n mod (d * P)) mod d = n mod d.
Proof.
  intros n d P Hd HP. rewrite Nat.mod_mul_r by lia.
  rewrite (Nat.mul_comm d), Nat.mod_add by lia. apply Nat.mod_mod. lia.
Qed.

Lemma mod_mul_div : forall n d P, 1 <= d -> 1 <= P -> (n mod (d * P)) / d = (n / d) mod P.
Proof.
  intros n d P Hd HP. rewrite Nat.mod_mul_r by lia.
  rewrite (Nat.mul_comm d), Nat.div_add by lia.
  rewrite Nat.div_small by (apply Nat.mod_upper_bound; lia). reflexivity.
Qed.

Lemma unrank_le_mod : forall ds n,
    Forall (fun x => 1 <= x) ds -> unrank_le ds (n mod prod ds) = unrank_le ds n.
Proof.
  induction ds as [|d ds IH]; intros n H; [reflexivity|].
  inversion H as [|? ? Hd Hds]; subst. pose proof (prod_pos ds Hds) as HP.
  cbn [unrank_le]. change (prod (d :: ds)) with (d * prod ds).
  rewrite mod_mul_mod, mod_mul_div by assumption. rewrite IH by exact Hds. reflexivity.
Qed.

Lemma unrank_le_app : forall ds1 ds2 n,
    Forall (fun x => 1 <= x) ds1 ->
    unrank_le (ds1 ++ ds2) n = unrank_le ds1 n ++ unrank_le ds2 (n / prod ds1).
Proof.
  induction ds1 as [|d ds1 IH]; intros ds2 n H.
  - cbn [app unrank_le prod fold_right]. rewrite Nat.div_1_r. reflexivity.
  - inversion H as [|? ? Hd Hds]; subst. pose proof (prod_pos ds1 Hds) as HP.
    cbn [app unrank_le]. rewrite IH by exact Hds.
    change (prod (d :: ds1)) with (d * prod ds1). rewrite Nat.div_div by lia. reflexivity.
Qed.

Lemma unrank_mod : forall d n,
    Forall (fun x => 1 <= x) d -> unrank d (n mod prod d) = unrank d n.
Proof.
  intros d n H. unfold unrank. rewrite <- (prod_rev d).
  rewrite unrank_le_mod by (apply Forall_rev; exact H). reflexivity.
Qed.

Lemma unrank_app : forall d1 d2 n,
    Forall (fun x => 1 <= x) d2 ->
    unrank (d1 ++ d2) n = unrank d1 (n / prod d2) ++ unrank d2 (n mod prod d2).
Proof.
  intros d1 d2 n H. rewrite (unrank_mod d2 n H). unfold unrank.
  rewrite rev_app_distr, unrank_le_app by (apply Forall_rev; exact H).
  rewrite rev_app_distr, prod_rev. reflexivity.
Qed.

Lemma lastn_app_drop : forall {A} n (l1 l2 : list A),
    n <= length l2 -> lastn n (l1 ++ l2) = lastn n l2.
Proof.
  intros A n l1 l2 H. unfold lastn. rewrite app_length, skipn_app.
  rewrite skipn_all2 by lia. cbn [app]. f_equal. lia.
Qed.

Lemma bclamp_app_drop : forall t Q I1,
    length t <= length I1 -> bclamp t (Q ++ I1) = bclamp t I1.
Proof. intros t Q I1 H. rewrite !bclamp_eq, lastn_app_drop by exact H. reflexivity. Qed.

Lemma bpos_app : forall dq d1 t j,
    Forall (fun x => 1 <= x) d1 -> length t <= length d1 ->
    bpos (dq ++ d1) t j = bpos d1 t (j mod prod d1).
Proof.
  intros dq d1 t j H Hl. unfold bpos. rewrite unrank_app by exact H.
  rewrite bclamp_app_drop by (rewrite unrank_length; exact Hl). reflexivity.
Qed.

Lemma bpos_id : forall d j, Forall (fun x => 1 <= x) d -> j < prod d -> bpos d d j = j.
Proof.
  intros d j H Hj. unfold bpos. rewrite bclamp_id by (apply unrank_lt; exact H).
  apply rowmajor_unrank; assumption.
Qed.

Lemma bpos_lt : forall d t j,
    Forall (fun x => 1 <= x) d -> Forall (fun x => 1 <= x) t -> sub_lead t d ->
    bpos d t j < prod t.
Proof.
  intros d t j Hd Ht Hs. unfold bpos. apply rowmajor_lt_prod.
  apply (bclamp_in_range t d); try assumption. apply unrank_lt. exact Hd.
Qed.

Lemma bpos_snoc : forall l1 n1 lt nt i y,
    length lt <= length l1 -> 1 <= n1 -> y < n1 ->
    bpos (l1 ++ [n1]) (lt ++ [nt]) (n1 * i + y)
    = rowmajor lt (bclamp lt (unrank l1 i)) * nt + cl (y, nt).
Proof.
  intros l1 n1 lt nt i y Hl Hn Hy. unfold bpos.
  rewrite unrank_snoc by exact Hn.
  replace ((n1 * i + y) / n1) with i
    by (rewrite Nat.mul_comm, Nat.div_add_l, Nat.div_small by lia; lia).
  replace ((n1 * i + y) mod n1) with y
    by (rewrite Nat.add_comm, Nat.mul_comm, Nat.mod_add, Nat.mod_small by lia; reflexivity).
  rewrite bclamp_snoc by (rewrite unrank_length; exact Hl).
  rewrite rowmajor_snoc by (rewrite bclamp_length; [reflexivity|rewrite unrank_length; exact Hl]).
  reflexivity.
Qed.

(** rows of the source that the strided walk reads *)
Lemma strided_cond : forall x j g,
    1 <= g -> x < g -> ((x <=? j) && ((j - x) mod g =? 0)) = (j mod g =? x).
Proof.
  intros x j g Hg Hx. apply eq_true_iff_eq.
  rewrite andb_true_iff, Nat.leb_le, !Nat.eqb_eq. split.
  - intros [Hle Hm]. apply Nat.mod_divides in Hm; [|lia]. destruct Hm as (c & Hc).
    replace j with (x + c * g) by lia. rewrite Nat.mod_add by lia. apply Nat.mod_small. exact Hx.
  - intros Hm. pose proof (Nat.div_mod j g ltac:(lia)) as Hdm. rewrite Hm in Hdm.
    set (q := j / g) in *. clearbody q.
    split; [nia|]. replace (j - x) with (q * g) by nia. apply Nat.mod_mul. lia.
Qed.

Lemma eqb_mul_add : forall p b nt c x,
    c < nt -> x < nt -> (p * nt + c =? nt * b + x) = ((p =? b) && (c =? x)).
Proof.
  intros p b nt c x Hc Hx. apply eq_true_iff_eq.
  rewrite andb_true_iff, !Nat.eqb_eq. split; [intros H|intros [-> ->]; lia].
  assert (p = b) by nia. subst p. split; [reflexivity|nia].
Qed.

(** * Values (commutative ring of scalars) *)

Section FlattenValues.
  Context {F : Type} (O : ScalarOps F) (R : is_cring O).

  (** flat form of the specification: position [o] of the result is the sum of the source
      positions that broadcasting reads from [o] *)
  Definition flat_sum (d t : list nat) (v : list F) (o : nat) : F :=
    vsum O (map (fun j => if bpos d t j =? o then nth j v (f0 O) else f0 O) (seq 0 (prod d))).

  Lemma strided_sum : forall x g (s : list F),
      1 <= g -> x < g ->
      vsum O (strided O x g s)
      = vsum O (map (fun j => if j mod g =? x then nth j s (f0 O) else f0 O) (seq 0 (length s))).
  Proof.
    intros x g s Hg Hx. unfold strided. rewrite (vsum_filter_ind O R).
    f_equal. apply map_ext. intros j. rewrite strided_cond by assumption. reflexivity.
  Qed.

  Lemma flat_sum_id : forall d (v : list F) o,
      Forall (fun x => 1 <= x) d -> o < prod d -> flat_sum d d v o = nth o v (f0 O).
  Proof.
    intros d v o Hd Ho. unfold flat_sum.
    rewrite <- (vsum_delta_seq O R (fun j => nth j v (f0 O)) o (prod d) Ho).
    f_equal. apply map_ext_in. intros j Hj. apply in_seq in Hj.
    rewrite bpos_id by (try assumption; lia). rewrite Nat.eqb_sym. reflexivity.
  Qed.

  (** ** the second phase, in flat form *)
  Lemma flatten_tail_flat : forall (fl : arr F) t,
      wf fl -> length t = length (dims fl) -> t <> [] ->
      Forall (fun x => 1 <= x) t -> sub_lead t (dims fl) ->
      exists r, flatten_tail O fl t = Some r /\ wf r /\ dims r = t /\
        forall o, o < prod t -> nth o (vals r) (f0 O) = flat_sum (dims fl) t (vals fl) o.
  Proof.
    intros fl t Hw Hlen Hne Hpt Hsub. unfold flatten_tail.
    destruct (dims_eqb (dims fl) t) eqn:E.
    - apply dims_eqb_spec in E. exists fl. split; [reflexivity|]. split; [exact Hw|].
      split; [exact E|]. intros o Ho. rewrite E. symmetry. apply flat_sum_id; assumption.
    - clear E.
      destruct (exists_last Hne) as (lt & nt & Et).
      assert (Hned : dims fl <> []) by (intros E0; rewrite E0 in Hlen; destruct t; [congruence|discriminate]).
      destruct (exists_last Hned) as (l1 & n1 & Ed).
      assert (Hl : length lt = length l1).
      { rewrite Et, Ed, !app_length in Hlen. cbn [length] in Hlen. lia. }
      destruct Hsub as [_ Hf]. rewrite Hlen, lastn_all, Et, Ed in Hf.
      apply Forall2_snoc_inv in Hf. destruct Hf as [Hf Hnt].
      assert (Hsl : sub_lead lt l1).
      { split; [lia|]. rewrite Hl, lastn_all. exact Hf. }
      rewrite Et in Hpt. apply Forall_app in Hpt. destruct Hpt as [Hplt Hpnt].
      inversion Hpnt as [|? ? Hnt1 _]; subst.
      destruct (wf_snoc fl l1 n1 Hw Ed) as (Hpl1 & Hn1 & Hvl).
      destruct (flatten_phase2 O fl l1 n1 lt nt Hw Ed Hl Hsl Hplt Hnt1) as (out & Hop & Hlo & Hval).
      cbv zeta in Hval.
      exists {| dims := lt ++ [nt]; vals := out |}. split; [exact Hop|].
      assert (Hprod : prod (lt ++ [nt]) = prod lt * nt)
        by (rewrite prod_app; cbn [prod fold_right]; lia).
      split; [|split; [reflexivity|]].
      { split; cbn [dims vals].
        - apply Forall_app. split; [exact Hplt|]. constructor; [exact Hnt1|constructor].
        - rewrite Hprod. symmetry. exact Hlo. }
      intros o Ho. rewrite Hprod in Ho. cbn [vals].
      set (b := o / nt). set (x := o mod nt).
      assert (Hb : b < prod lt) by (apply Nat.div_lt_upper_bound; lia).
      assert (Hx : x < nt) by (apply Nat.mod_upper_bound; lia).
      assert (Eo : o = nt * b + x) by (apply Nat.div_mod; lia).
      rewrite Eo at 1. rewrite (Hval b x Hb Hx).
      rewrite (fold_acc_ind O R), (cr_add_0_l O R).
      unfold flat_sum. rewrite Ed.
      replace (prod (l1 ++ [n1])) with (prod l1 * n1)
        by (rewrite prod_app; cbn [prod fold_right]; lia).
      rewrite (vsum_seq_mul O R). f_equal. apply map_ext_in. intros i Hi.
      rewrite (strided_sum _ _ _ Hnt1 Hx).
      assert (Hrow : length (block n1 i (vals fl)) = n1).
      { apply in_seq in Hi. apply (block_length n1 i (prod l1)); [exact Hvl|lia]. }
      rewrite Hrow. rewrite (vsum_ind_in O R). f_equal. apply map_ext_in. intros y Hy.
      apply in_seq in Hy.
      rewrite bpos_snoc by lia.
      rewrite <- (mod_cl y nt n1 Hnt1 Hnt ltac:(lia)).
      rewrite Eo, eqb_mul_add by (try exact Hx; apply Nat.mod_upper_bound; lia).
      rewrite nth_block by lia.
      destruct (rowmajor lt (bclamp lt (unrank l1 i)) =? b), (y mod nt =? x); reflexivity.
  Qed.

  (** ** both phases, in flat form *)
  Theorem flatten_to_flat : forall (a : arr F) t,
      wf a -> t <> [] -> Forall (fun x => 1 <= x) t -> sub_target t (dims a) ->
      exists r, flatten_to O a t = Some r /\ wf r /\ dims r = t /\
        forall o, o < prod t -> nth o (vals r) (f0 O) = flat_sum (dims a) t (vals a) o.
  Proof.
    intros a t Hwa Hne Hpt Hsub. pose proof Hwa as [Hpa Hla].
    rewrite flatten_to_unfold. unfold flatten_head. cbv zeta.
    destruct Hsub as [Hlen Hf].
    destruct (length (dims a) - length t =? 0) eqn:E.
    - apply Nat.eqb_eq in E. cbn [obind].
      apply flatten_tail_flat; try assumption; [lia|]. split; assumption.
    - apply Nat.eqb_neq in E.
      set (fdc := length (dims a) - length t) in *.
      rewrite (flatten_phase1 O a fdc Hwa). cbn [obind].
      set (d1 := skipn fdc (dims a)). set (P := prod d1).
      set (out1 := map (fun x => fadd O (f0 O) (vsum O (strided O x P (vals a)))) (seq 0 P)).
      set (fl := {| dims := d1; vals := out1 |}).
      assert (Hpd1 : Forall (fun x => 1 <= x) d1) by (apply Forall_skipn; exact Hpa).
      assert (HP : 1 <= P) by (apply prod_pos; exact Hpd1).
      assert (Hwfl : wf fl).
      { split; [exact Hpd1|]. unfold fl, out1. cbn [dims vals].
        rewrite map_length, seq_length. reflexivity. }
      assert (Hl1 : length d1 = length t) by (unfold d1; rewrite skipn_length; lia).
      assert (Hsub1 : sub_lead t (dims fl)).
      { cbn [dims fl]. split; [lia|]. rewrite <- Hl1, lastn_all. exact Hf. }
      destruct (flatten_tail_flat fl t Hwfl (eq_sym Hl1) Hne Hpt Hsub1)
        as (r & Hr & Hwr & Hdr & Hval).
      exists r. split; [exact Hr|]. split; [exact Hwr|]. split; [exact Hdr|].
      intros o Ho. rewrite (Hval o Ho). cbn [dims vals fl].
      unfold flat_sum. fold P.
      assert (Ed : dims a = firstn fdc (dims a) ++ d1) by (symmetry; apply firstn_skipn).
      transitivity (vsum O (map (fun j => if bpos d1 t (j mod P) =? o
                                         then nth j (vals a) (f0 O) else f0 O)
                                (seq 0 (prod (dims a))))).
      2:{ f_equal. apply map_ext. intros j. rewrite Ed, bpos_app by (try exact Hpd1; lia).
          reflexivity. }
      rewrite (vsum_fiber O R (fun j => j mod P) (fun o' => bpos d1 t o' =? o) _ P)
        by (intros j _; apply Nat.mod_upper_bound; lia).
      f_equal. apply map_ext_in. intros o' Ho'. apply in_seq in Ho'.
      destruct (bpos d1 t o' =? o); [|reflexivity].
      unfold out1. rewrite nth_map_seq by lia. cbn [Nat.add].
      rewrite (cr_add_0_l O R), strided_sum by lia. rewrite Hla. reflexivity.
  Qed.

  (** ** the main theorem (C03): [flatten_to] is the transpose of broadcasting *)
  Theorem flatten_to_spec : forall (a : arr F) t,
      wf a -> dims a <> [] -> t <> [] -> Forall (fun x => 1 <= x) t ->
      sub_target t (dims a) ->
      exists r, flatten_to O a t = Some r /\ wf r /\ dims r = t /\
        forall J, in_range J t ->
          get r J
          = Some (vsum O (map (fun I => nth (rowmajor (dims a) I) (vals a) (f0 O))
                              (filter (fun I => list_eqb (bclamp t I) J)
                                      (all_indices (dims a))))).
  Proof.
    intros a t Hwa _ Hne Hpt Hsub. pose proof Hwa as [Hpa Hla].
    destruct (flatten_to_flat a t Hwa Hne Hpt Hsub) as (r & Hr & Hwr & Hdr & Hval).
    exists r. split; [exact Hr|]. split; [exact Hwr|]. split; [exact Hdr|].
    intros J HJ. pose proof Hwr as [_ Hlr]. rewrite Hdr in Hlr.
    pose proof (rowmajor_lt_prod t J HJ) as Ho.
    unfold get. rewrite Hdr.
    rewrite (nth_error_nth' (vals r) (f0 O)) by lia. f_equal.
    rewrite (Hval _ Ho). unfold flat_sum, all_indices.
    rewrite filter_map_swap, map_map, (vsum_filter_ind O R).
    f_equal. apply map_ext_in. intros j Hj. apply in_seq in Hj.
    rewrite rowmajor_unrank by (try exact Hpa; lia).
    replace (list_eqb (bclamp t (unrank (dims a) j)) J) with (bpos (dims a) t j =? rowmajor t J);
      [reflexivity|].
    apply eq_true_iff_eq. rewrite Nat.eqb_eq, list_eqb_spec. unfold bpos.
    assert (Hin : in_range (bclamp t (unrank (dims a) j)) t).
    { apply (bclamp_in_range t (dims a)); [exact Hpt|exact Hsub|].
      apply unrank_lt. exact Hpa. }
    split; [|intros ->; reflexivity].
    intros Heq. rewrite <- (unrank_rowmajor t _ Hin), <- (unrank_rowmajor t J HJ), Heq.
    reflexivity.
  Qed.

  (** ** (B2) the pairing form: [flatten_to] is the adjoint of broadcasting *)

  Definition dot (x y : list F) : F :=
    vsum O (map (fun p => fmul O (fst p) (snd p)) (combine x y)).

  (** [u] broadcast to dimensions [d]: the element at [I] is [u[bclamp (dims u) I]] *)
  Definition bcast_to (u : arr F) (d : list nat) : arr F :=
    {| dims := d;
       vals := map (fun I => nth (rowmajor (dims u) (bclamp (dims u) I)) (vals u) (f0 O))
                   (all_indices d) |}.

  Lemma dot_seq : forall (x y : list F) n,
      length x = n -> length y = n ->
      dot x y = vsum O (map (fun k => fmul O (nth k x (f0 O)) (nth k y (f0 O))) (seq 0 n)).
  Proof.
    intros x y n Hx Hy. subst n. unfold dot.
    replace (combine x y)
      with (map (fun k => (nth k x (f0 O), nth k y (f0 O))) (seq 0 (length x))).
    - rewrite map_map. reflexivity.
    - rewrite <- combine_map_map. f_equal.
      + symmetry. apply list_as_map_seq.
      + rewrite <- Hy. symmetry. apply list_as_map_seq.
  Qed.

  Lemma bcast_to_wf : forall (u : arr F) d, Forall (fun x => 1 <= x) d -> wf (bcast_to u d).
  Proof.
    intros u d Hd. split; [exact Hd|]. cbn [bcast_to dims vals].
    rewrite map_length, all_indices_length. reflexivity.
  Qed.

  Lemma bcast_to_nth : forall (u : arr F) d j,
      j < prod d -> nth j (vals (bcast_to u d)) (f0 O) = nth (bpos d (dims u) j) (vals u) (f0 O).
  Proof.
    intros u d j Hj. cbn [bcast_to vals]. unfold all_indices. rewrite map_map.
    rewrite nth_map_seq by exact Hj. reflexivity.
  Qed.

  Lemma bcast_to_get : forall (u : arr F) d I,
      Forall (fun x => 1 <= x) d -> in_range I d ->
      get (bcast_to u d) I = Some (nth (rowmajor (dims u) (bclamp (dims u) I)) (vals u) (f0 O)).
  Proof.
    intros u d I Hd HI. unfold get. cbn [bcast_to dims vals].
    pose proof (rowmajor_lt_prod d I HI) as Hlt.
    rewrite nth_error_map, nth_error_all_indices by exact Hlt. cbn [option_map].
    rewrite unrank_rowmajor by exact HI. reflexivity.
  Qed.

  Theorem flatten_to_adjoint : forall (a r u : arr F) t,
      wf a -> dims a <> [] -> t <> [] -> Forall (fun x => 1 <= x) t ->
      sub_target t (dims a) -> flatten_to O a t = Some r ->
      wf u -> dims u = t ->
      dot (vals r) (vals u) = dot (vals a) (vals (bcast_to u (dims a))).
  Proof.
    intros a r u t Hwa _ Hne Hpt Hsub Hr Hwu Hdu. pose proof Hwa as [Hpa Hla].
    destruct (flatten_to_flat a t Hwa Hne Hpt Hsub) as (r' & Hr' & Hwr & Hdr & Hval).
    rewrite Hr in Hr'. inversion Hr'; subst r'. clear Hr'.
    destruct Hwr as [_ Hlr]. destruct Hwu as [_ Hlu]. rewrite Hdr in Hlr. rewrite Hdu in Hlu.
    rewrite (dot_seq (vals r) (vals u) (prod t)) by (symmetry; assumption).
    rewrite (dot_seq (vals a) (vals (bcast_to u (dims a))) (prod (dims a)));
      [|symmetry; exact Hla|cbn [bcast_to vals]; rewrite map_length; apply all_indices_length].
    transitivity (vsum O (map (fun j => if (fun _ : nat => true) (bpos (dims a) t j)
                                       then fmul O (nth j (vals a) (f0 O))
                                                 (nth (bpos (dims a) t j) (vals u) (f0 O))
                                       else f0 O) (seq 0 (prod (dims a))))).
    2:{ f_equal. apply map_ext_in. intros j Hj. apply in_seq in Hj.
        rewrite bcast_to_nth by lia. rewrite Hdu. reflexivity. }
    rewrite (vsum_fiber O R (bpos (dims a) t) (fun _ => true)
                        (fun j => fmul O (nth j (vals a) (f0 O))
                                       (nth (bpos (dims a) t j) (vals u) (f0 O)))
                        (prod t) (seq 0 (prod (dims a))))
      by (intros j _; apply bpos_lt; assumption).
    cbv beta. f_equal. apply map_ext_in. intros o Ho. apply in_seq in Ho.
    rewrite (Hval o) by lia. unfold flat_sum.
    rewrite <- (vsum_map_scale_r O R). f_equal. apply map_ext. intros j.
    destruct (bpos (dims a) t j =? o) eqn:E.
    - apply Nat.eqb_eq in E. rewrite E. reflexivity.
    - apply (cr_mul_0_l O R).
  Qed.

  (** ** additivity *)

  Lemma arr_ext : forall (x y : arr F),
      dims x = dims y -> length (vals x) = length (vals y) ->
      (forall k, k < length (vals x) -> nth k (vals x) (f0 O) = nth k (vals y) (f0 O)) ->
      x = y.
  Proof.
    intros [dx vx] [dy vy] Hd Hl Hn. cbn [dims vals] in *. subst dy. f_equal.
    rewrite (list_as_map_seq vx (f0 O)), (list_as_map_seq vy (f0 O)), <- Hl.
    apply map_ext_in. intros k Hk. apply in_seq in Hk. apply Hn. lia.
  Qed.

  (** element-wise addition of equal-shaped arrays, position by position *)
  Lemma a_add_same_dims : forall (a b : arr F),
      wf a -> wf b -> dims a = dims b -> dims a <> [] ->
      exists c, a_add O a b = Some c /\ wf c /\ dims c = dims a /\
        forall j, j < prod (dims a) ->
          nth j (vals c) (f0 O) = fadd O (nth j (vals a) (f0 O)) (nth j (vals b) (f0 O)).
  Proof.
    intros a b Hwa Hwb Hd Hne. pose proof Hwa as [Hpa Hla]. pose proof Hwb as [_ Hlb].
    destruct (a_add_spec O a b Hwa Hwb Hne) as (c & Hc & Hwc & Hdc & Hval).
    { rewrite <- Hd. exact Hne. }
    { rewrite <- Hd. apply bcompat_refl. }
    rewrite <- Hd, bmax_idem in Hdc.
    exists c. split; [exact Hc|]. split; [exact Hwc|]. split; [exact Hdc|].
    intros j Hj. pose proof Hwc as [_ Hlc]. rewrite Hdc in Hlc.
    assert (HI : in_range (unrank (dims a) j) (dims a)) by (apply unrank_lt; exact Hpa).
    destruct (Hval (unrank (dims a) j)) as (x & y & Hx & Hy & Hz); [rewrite Hdc; exact HI|].
    rewrite <- Hd in Hy. rewrite (bclamp_id _ _ HI) in Hx, Hy.
    unfold get in Hx, Hy, Hz. rewrite <- Hd in Hy. rewrite Hdc in Hz.
    rewrite rowmajor_unrank in Hx, Hy, Hz by assumption.
    rewrite !nth_nth_error, Hx, Hy, Hz. reflexivity.
  Qed.

  Theorem flatten_to_add : forall (a b : arr F) t,
      wf a -> wf b -> dims a = dims b -> dims a <> [] -> t <> [] ->
      Forall (fun x => 1 <= x) t -> sub_target t (dims a) ->
      exists c ra rb rc,
        a_add O a b = Some c /\ flatten_to O a t = Some ra /\ flatten_to O b t = Some rb /\
        flatten_to O c t = Some rc /\ a_add O ra rb = Some rc.
  Proof.
    intros a b t Hwa Hwb Hd Hne Hnt Hpt Hsub.
    destruct (a_add_same_dims a b Hwa Hwb Hd Hne) as (c & Hc & Hwc & Hdc & Hcv).
    destruct (flatten_to_flat a t Hwa Hnt Hpt Hsub) as (ra & Hra & Hwra & Hdra & Hva).
    destruct (flatten_to_flat b t Hwb Hnt Hpt) as (rb & Hrb & Hwrb & Hdrb & Hvb);
      [rewrite <- Hd; exact Hsub|].
    destruct (flatten_to_flat c t Hwc Hnt Hpt) as (rc & Hrc & Hwrc & Hdrc & Hvc);
      [rewrite Hdc; exact Hsub|].
    destruct (a_add_same_dims ra rb Hwra Hwrb) as (rs & Hrs & Hwrs & Hdrs & Hvs);
      [congruence|rewrite Hdra; exact Hnt|].
    exists c, ra, rb, rc. repeat (split; [assumption|]).
    rewrite Hrs. f_equal. rewrite Hdra in Hdrs, Hvs.
    destruct Hwrs as [_ Hlrs]. destruct Hwrc as [_ Hlrc]. rewrite Hdrs in Hlrs. rewrite Hdrc in Hlrc.
    apply arr_ext; [congruence|congruence|].
    intros o Ho. rewrite <- Hlrs in Ho.
    rewrite (Hvs o Ho), (Hvc o Ho), (Hva o Ho), (Hvb o Ho).
    unfold flat_sum. rewrite Hdc, <- Hd. rewrite <- (vsum_map_add O R).
    f_equal. apply map_ext_in. intros j Hj. apply in_seq in Hj.
    destruct (bpos (dims a) t j =? o).
    - symmetry. apply Hcv. lia.
    - rewrite (cr_add_0_l O R). reflexivity.
  Qed.
End FlattenValues.

Print Assumptions flatten_to_spec.
Print Assumptions flatten_to_adjoint.
Print Assumptions flatten_to_shape.
Print Assumptions flatten_to_same.
Print Assumptions flatten_to_add.
