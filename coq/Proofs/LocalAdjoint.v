(** C02, local part: for every backward closure, the deltas it delivers (after the
    engine's [flatten_to] to the child's dimensions) are the transpose of the Jacobian of
    the forward operation applied to the received adjoint, the Jacobian being the one of
    the dual-number run of the same forward operation:

      <delta, tangent (fwd_dual (children lifted with tangents t_i))>
        = sum over the children i of <flatten_to d_i (dims child_i), t_i>

    (children whose flag is off carry the zero tangent: stop-gradient). *)

From Coq Require Import List Arith Bool Lia PeanoNat ZArith Ring_theory Ring.
From Corgi Require Import Lib.OptionMonad Lib.IdxDefs Lib.Idx Model.Scalar Model.Arr
     Model.SlicedOp Model.Elementwise Model.Linalg Model.Image Model.Ops Lib.Sums
     Proofs.ArrFacts Proofs.BroadcastDims Proofs.SpecDefs Proofs.SlicedOpSpec Proofs.EwSpec
     Proofs.ReduceSpec Proofs.FlattenSpec Proofs.DualLift.
Import ListNotations.

(** * The uniform formulation *)

Section Formulation.
  Context {F : Type} (O : ScalarOps F).

  (** the children, lifted with their (masked) tangents; [i] is the position of the head *)
  Fixpoint lift_children (i : nat) (flags : list bool) (cs ts : list (arr F))
    : list (arr (@dual F)) :=
    match cs, ts with
    | c :: cs', t :: ts' => lift c (mask O (flag flags i) t) :: lift_children (S i) flags cs' ts'
    | _, _ => []
    end.

  (** the contribution [x] of one child: the delivered delta is flattened to the child's
      dimensions and paired with the child's (masked) tangent; an absent delta is only
      allowed for an unflagged child and contributes nothing *)
  Definition child_term (c t : arr F) (b : bool) (od : option (arr F)) (x : F) : Prop :=
    match od with
    | Some d => exists fd, flatten_to O d (dims c) = Some fd /\
                           x = dot O (vals fd) (vals (mask O b t))
    | None => b = false /\ x = f0 O
    end.

  Fixpoint child_terms (i : nat) (flags : list bool) (cs ts : list (arr F))
           (ds : list (option (arr F))) (xs : list F) : Prop :=
    match cs, ts, ds, xs with
    | [], [], [], [] => True
    | c :: cs', t :: ts', od :: ds', x :: xs' =>
      child_term c t (flag flags i) od x /\ child_terms (S i) flags cs' ts' ds' xs'
    | _, _, _, _ => False
    end.

  (** [fwdD]: the forward operation at the dual instance; [code cs r]: the closure attached
      to the result [r] of the forward operation on [cs]; [pre]: side condition on the
      children under which the operation is used ([no_pre] for most) *)
  Definition no_pre (cs : list (arr F)) : Prop := True.

  Definition local_identity (arity : nat) (pre : list (arr F) -> Prop)
             (fwdD : list (arr (@dual F)) -> option (arr (@dual F)))
             (code : list (arr F) -> arr F -> bop_code F) : Prop :=
    forall (cs ts : list (arr F)) (flags : list bool) (delta : arr F)
           (RD : arr (@dual F)) (ds : list (option (arr F))),
      length cs = arity -> pre cs -> Forall wf cs -> Forall2 tangent_for cs ts ->
      fwdD (lift_children 0 flags cs ts) = Some RD ->
      wf delta -> dims delta = dims RD ->
      run_bop O (code cs (primal RD)) cs flags delta = Some ds ->
      exists xs, child_terms 0 flags cs ts ds xs /\
                 dot O (vals delta) (vals (tangent RD)) = vsum O xs.

  (** executable version, for sanity checks *)
  Fixpoint eval_terms (i : nat) (flags : list bool) (cs ts : list (arr F))
           (ds : list (option (arr F))) : option (list F) :=
    match cs, ts, ds with
    | [], [], [] => Some []
    | c :: cs', t :: ts', od :: ds' =>
      x <- match od with
           | Some d => fd <- flatten_to O d (dims c) ;;
                       Some (dot O (vals fd) (vals (mask O (flag flags i) t)))
           | None => if flag flags i then None else Some (f0 O)
           end ;;
      xs <- eval_terms (S i) flags cs' ts' ds' ;;
      Some (x :: xs)
    | _, _, _ => None
    end.

  Definition eval_identity (fwdD : list (arr (@dual F)) -> option (arr (@dual F)))
             (code : list (arr F) -> arr F -> bop_code F)
             (cs ts : list (arr F)) (flags : list bool) (delta : arr F) : option (F * F) :=
    RD <- fwdD (lift_children 0 flags cs ts) ;;
    ds <- run_bop O (code cs (primal RD)) cs flags delta ;;
    xs <- eval_terms 0 flags cs ts ds ;;
    Some (dot O (vals delta) (vals (tangent RD)), vsum O xs).

  (** forward operations as functions of the list of (lifted) children *)
  Definition fwd1 {G} (f : arr G -> option (arr G)) (l : list (arr G)) : option (arr G) :=
    match l with [a] => f a | _ => None end.
  Definition fwd2 {G} (f : arr G -> arr G -> option (arr G)) (l : list (arr G)) : option (arr G) :=
    match l with [a; b] => f a b | _ => None end.
End Formulation.

(** * Sanity checks over the integers (before proving) *)

Module Sanity.
  Definition Zd := dual_ops Z_ops.
  Definition mkZ (d : list nat) (v : list Z) : arr Z := {| dims := d; vals := v |}.
  Definition ok (r : option (Z * Z)) : bool :=
    match r with Some (x, y) => Z.eqb x y | None => false end.

  Definition a1 := mkZ [2;1;3] [2;-3;5;7;-11;13]%Z.
  Definition t1 := mkZ [2;1;3] [1;4;-2;3;-5;6]%Z.
  Definition b1 := mkZ [2;1] [3;-4]%Z.
  Definition u1 := mkZ [2;1] [-7;2]%Z.
  Definition dl := mkZ [2;2;3] [1;-2;3;4;5;-6;7;8;-9;10;-11;12]%Z.
  (* units only, so that integer division is exact *)
  Definition b2 := mkZ [2;1] [1;-1]%Z.
  Definition a2 := mkZ [2;1;3] [1;-1;-1;1;1;-1]%Z.
  Definition dl1 := mkZ [2;1;3] [1;-2;3;4;5;-6]%Z.
  Definition allflags := [[true;true];[true;false];[false;true];[false;false]].

  Definition chk2 fwdD code a ta b tb d :=
    forallb (fun fl => ok (eval_identity Z_ops (fwd2 fwdD) (fun _ _ => code) [a;b] [ta;tb] fl d))
            allflags.
  Definition chk1 fwdD code a ta d :=
    forallb (fun fl => ok (eval_identity Z_ops (fwd1 fwdD) code [a] [ta] fl d)) [[true];[false]].

  Example add_ok : chk2 (a_add Zd) BAdd a1 t1 b1 u1 dl = true. Proof. vm_compute. reflexivity. Qed.
  Example add_ok' : chk2 (a_add Zd) BAdd b1 u1 a1 t1 dl = true. Proof. vm_compute. reflexivity. Qed.
  Example mul_ok : chk2 (a_mul Zd) BMul a1 t1 b1 u1 dl = true. Proof. vm_compute. reflexivity. Qed.
  Example mul_ok' : chk2 (a_mul Zd) BMul b1 u1 a1 t1 dl = true. Proof. vm_compute. reflexivity. Qed.
  Example div_ok : chk2 (a_div Zd) BDiv a1 t1 b2 u1 dl = true. Proof. vm_compute. reflexivity. Qed.
  Example div_ok' : chk2 (a_div Zd) BDiv b1 u1 a2 t1 dl = true. Proof. vm_compute. reflexivity. Qed.
  Example neg_ok : chk1 (a_neg Zd) (fun _ _ => BNeg) a1 t1 dl1 = true. Proof. vm_compute. reflexivity. Qed.
  Example scale_ok : chk1 (a_scale Zd (5, 0)%Z) (fun _ _ => BScale 5%Z) a1 t1 dl1 = true.
  Proof. vm_compute. reflexivity. Qed.
  Example reshape_ok : chk1 (a_reshape [3;2]) (fun _ _ => BReshape) a1 t1 (mkZ [3;2] (vals dl1)) = true.
  Proof. vm_compute. reflexivity. Qed.
  Example sum1_ok : chk1 (a_sum Zd 1) (fun cs _ => BSum 1 (sum_target [2;1;3] 1)) a1 t1 (mkZ [2;1;1] [3;-4]%Z) = true.
  Proof. vm_compute. reflexivity. Qed.
  Example sum2_ok : chk1 (a_sum Zd 2) (fun cs _ => BSum 2 (sum_target [2;1;3] 2)) a1 t1 (mkZ [2;1] [3;-4]%Z) = true.
  Proof. vm_compute. reflexivity. Qed.
  Example sum3_ok : chk1 (a_sum Zd 3) (fun cs _ => BSum 3 (sum_target [2;1;3] 3)) a1 t1 (mkZ [1] [-4]%Z) = true.
  Proof. vm_compute. reflexivity. Qed.
  Example powf_ok : chk1 (a_powf Zd (3, 0)%Z) (fun _ _ => BPowf 3%Z) a1 t1 dl1 = true.
  Proof. vm_compute. reflexivity. Qed.
  Example exp_ok : chk1 (a_exp Zd) (fun _ r => BExp (vals r)) a1 t1 dl1 = true.
  Proof. vm_compute. reflexivity. Qed.
  Example relu_ok : chk1 (a_relu Zd) (fun _ _ => BRelu) a1 t1 dl1 = true.
  Proof. vm_compute. reflexivity. Qed.
  Example ln_ok : chk1 (a_ln Zd) (fun _ _ => BLn) a2 t1 dl1 = true.
  Proof. vm_compute. reflexivity. Qed.
  Example recip_ok : chk1 (a_reciprocal Zd) (fun _ _ => BRecip) a2 t1 dl1 = true.
  Proof. vm_compute. reflexivity. Qed.
End Sanity.

(** * Tools *)

Section Tools.
  Context {F : Type} (O : ScalarOps F) (R : is_cring O).
  Local Notation D2 := (dual_ops O).

  Let Rth : ring_theory (f0 O) (f1 O) (fadd O) (fmul O) (fsub O) (fneg O) (@eq F) := R.
  Add Ring local_adjoint_ring : Rth.

  Local Notation "l '@' j" := (nth j l (f0 O)) (at level 9, j at level 9).

  (** the left-hand side, position by position *)
  Lemma dot_tangent : forall (x : list F) (RD : arr (@dual F)) n,
      length x = n -> length (vals RD) = n ->
      dot O x (vals (tangent RD))
      = vsum O (map (fun j => fmul O (x @ j) (snd (nth j (vals RD) (f0 D2)))) (seq 0 n)).
  Proof.
    intros x RD n Hx HR. rewrite (dot_seq O x _ n Hx) by (cbn [tangent vals]; rewrite map_length; exact HR).
    f_equal. apply map_ext. intros j. rewrite tangent_nth. reflexivity.
  Qed.

  Lemma mask_false_nth : forall (t : arr F) j, (vals (mask O false t)) @ j = f0 O.
  Proof. intros. apply zeros_like_nth. Qed.

  Lemma vsum_mul_zero_tangent : forall (G : nat -> F) (p : nat -> nat) (t : arr F) l,
      vsum O (map (fun j => fmul O (G j) ((vals (mask O false t)) @ (p j))) l) = f0 O.
  Proof.
    intros G p t l. apply (vsum_zeros O R). intros y Hy. apply in_map_iff in Hy.
    destruct Hy as (j & <- & _). rewrite mask_false_nth. ring.
  Qed.

  (** a delivered delta of the child's own dimensions *)
  Lemma child_term_same : forall (c t d : arr F) b,
      wf c -> tangent_for c t -> wf d -> dims d = dims c ->
      child_term O c t b (Some d)
        (vsum O (map (fun j => fmul O ((vals d) @ j) ((vals (mask O b t)) @ j))
                     (seq 0 (length (vals c))))).
  Proof.
    intros c t d b Hwc Ht Hwd Hd. exists d. split.
    - rewrite <- Hd. apply flatten_to_same.
    - pose proof (mask_tangent_for O b c t Ht) as Ht'.
      symmetry. apply dot_seq.
      + destruct Hwd as [_ Hl]. destruct Hwc as [_ Hlc]. rewrite <- Hl, <- Hlc, Hd. reflexivity.
      + apply tangent_for_length; assumption.
  Qed.

  (** a delivered delta of broadcast dimensions [dims d], flattened to the child *)
  Lemma child_term_bcast : forall (c t d : arr F) b,
      wf c -> dims c <> [] -> tangent_for c t -> wf d -> sub_target (dims c) (dims d) ->
      child_term O c t b (Some d)
        (vsum O (map (fun j => fmul O ((vals d) @ j)
                                      ((vals (mask O b t)) @ (bpos (dims d) (dims c) j)))
                     (seq 0 (prod (dims d))))).
  Proof.
    intros c t d b Hwc Hnc Ht Hwd Hsub.
    destruct (mask_tangent_for O b c t Ht) as [Hwt' Hdt']. set (t' := mask O b t) in *.
    pose proof Hwc as [Hpc _]. pose proof Hwd as [Hpd Hld].
    assert (Hnd : dims d <> []).
    { destruct Hsub as [Hl _]. intros E. rewrite E in Hl. destruct (dims c); [congruence|simpl in Hl; lia]. }
    destruct (flatten_to_spec O R d (dims c) Hwd Hnd Hnc Hpc Hsub) as (fd & Hfd & _).
    exists fd. split; [exact Hfd|]. fold t'.
    rewrite (flatten_to_adjoint O R d fd t' (dims c) Hwd Hnd Hnc Hpc Hsub Hfd Hwt' Hdt').
    rewrite (dot_seq O _ _ (prod (dims d)));
      [|symmetry; exact Hld|cbn [bcast_to vals]; rewrite map_length; apply all_indices_length].
    f_equal. apply map_ext_in. intros j Hj. apply in_seq in Hj.
    rewrite bcast_to_nth by lia. rewrite Hdt'. reflexivity.
  Qed.

  (** what a two-argument element-wise closure delivers to one child: an array of the
      result's dimensions [D] with values [G], or nothing when the flag is off *)
  Definition deliv (D : list nat) (b : bool) (od : option (arr F)) (G : nat -> F) : Prop :=
    match od with
    | Some d => wf d /\ dims d = D /\ forall j, j < prod D -> (vals d) @ j = G j
    | None => b = false
    end.

  Lemma deliv_term : forall (c t : arr F) D b od G,
      wf c -> dims c <> [] -> tangent_for c t -> sub_target (dims c) D -> deliv D b od G ->
      exists x, child_term O c t b od x /\
                x = vsum O (map (fun j => fmul O (G j) ((vals (mask O b t)) @ (bpos D (dims c) j)))
                                (seq 0 (prod D))).
  Proof.
    intros c t D b [d|] G Hwc Hnc Ht Hsub Hd; cbn [deliv] in Hd.
    - destruct Hd as (Hwd & Hdd & Hv). eexists. split.
      + apply child_term_bcast; try assumption. rewrite Hdd. exact Hsub.
      + rewrite Hdd. f_equal. apply map_ext_in. intros j Hj. apply in_seq in Hj.
        rewrite Hv by lia. reflexivity.
    - subst b. exists (f0 O). split; [split; reflexivity|].
      symmetry. apply vsum_mul_zero_tangent.
  Qed.
End Tools.

(** * Two-argument element-wise closures *)

Section Binary.
  Context {F : Type} (O : ScalarOps F) (R : is_cring O).
  Local Notation D2 := (dual_ops O).

  Let Rth : ring_theory (f0 O) (f1 O) (fadd O) (fmul O) (fsub O) (fneg O) (@eq F) := R.
  Add Ring local_adjoint_ring2 : Rth.

  Local Notation "l '@' j" := (nth j l (f0 O)) (at level 9, j at level 9).

  (** what has to be shown about a closure: it delivers, per flagged child, an array of
      the result's dimensions whose values [G0], [G1] are the partial derivatives of the
      dual rule [fD], multiplied by the adjoint *)
  Definition binary_closure_spec (fD : @dual F -> @dual F -> @dual F) (code : bop_code F) : Prop :=
    forall (a b delta : arr F) flags ds,
      wf a -> wf b -> dims a <> [] -> dims b <> [] -> bcompat (dims a) (dims b) ->
      wf delta -> dims delta = bmax (dims a) (dims b) ->
      run_bop O code [a; b] flags delta = Some ds ->
      let D := bmax (dims a) (dims b) in
      exists od0 od1 G0 G1,
        ds = [od0; od1] /\ deliv O D (flag flags 0) od0 G0 /\ deliv O D (flag flags 1) od1 G1 /\
        forall j, j < prod D -> forall x' y',
          fmul O ((vals delta) @ j)
               (snd (fD ((vals a) @ (bpos D (dims a) j), x') ((vals b) @ (bpos D (dims b) j), y')))
          = fadd O (fmul O (G0 j) x') (fmul O (G1 j) y').

  Theorem binary_local : forall fD code,
      binary_closure_spec fD code ->
      local_identity O 2 no_pre (fwd2 (element_wise_op D2 fD)) (fun _ _ => code).
  Proof.
    intros fD code Hspec cs ts flags delta RD ds Hlen _ Hwf Hts Hfwd Hwd Hdd Hrun.
    destruct cs as [|a [|b [|? ?]]]; try discriminate Hlen.
    inversion Hts as [|? ta ? ts1 Hta Hts1]; subst.
    inversion Hts1 as [|? tb ? ts2 Htb Hts2]; subst. inversion Hts2; subst.
    inversion Hwf as [|? ? Hwa Hwf1]; subst. inversion Hwf1 as [|? ? Hwb _]; subst.
    cbn [lift_children fwd2] in Hfwd.
    set (ta' := mask O (flag flags 0) ta) in *. set (tb' := mask O (flag flags 1) tb) in *.
    assert (Hta' : tangent_for a ta') by (apply mask_tangent_for; exact Hta).
    assert (Htb' : tangent_for b tb') by (apply mask_tangent_for; exact Htb).
    destruct (ew_lifted O fD a ta' b tb' RD Hwa Hwb Hta' Htb' Hfwd)
      as (Hna & Hnb & Hc & HwR & HdR & Hval).
    cbv zeta in Hval. set (D := bmax (dims a) (dims b)) in *.
    rewrite HdR in Hdd.
    destruct (Hspec a b delta flags ds Hwa Hwb Hna Hnb Hc Hwd Hdd Hrun)
      as (od0 & od1 & G0 & G1 & -> & Hd0 & Hd1 & Hid).
    cbv zeta in Hid. fold D in Hd0, Hd1, Hid.
    pose proof Hwa as [Hpa _]. pose proof Hwb as [Hpb _].
    destruct (deliv_term O R a ta D _ od0 G0 Hwa Hna Hta (bmax_sub_lead_l _ _ Hc Hpa) Hd0)
      as (x0 & Hx0 & Ex0).
    destruct (deliv_term O R b tb D _ od1 G1 Hwb Hnb Htb (bmax_sub_lead_r _ _ Hc Hpb) Hd1)
      as (x1 & Hx1 & Ex1).
    exists [x0; x1]. split; [cbn [child_terms]; auto|].
    destruct Hwd as [_ Hld]. destruct HwR as [_ HlR]. rewrite Hdd in Hld. rewrite HdR in HlR.
    rewrite (dot_tangent O _ RD (prod D)) by (symmetry; assumption).
    rewrite !(vsum_cons O R), (vsum_nil O), Ex0, Ex1.
    fold ta' tb'. rewrite (cr_add_0_r O R), <- (vsum_map_add O R).
    f_equal. apply map_ext_in. intros j Hj. apply in_seq in Hj.
    rewrite (Hval j) by lia. apply Hid. lia.
  Qed.

  (** ** the closures *)

  Lemma when_some : forall b (x : option (arr F)) od,
      when b x = Some od ->
      (b = true /\ exists r, x = Some r /\ od = Some r) \/ (b = false /\ od = None).
  Proof.
    intros [|] x od H; unfold when in H.
    - left. split; [reflexivity|]. destruct x as [r|]; [|discriminate].
      inversion H. exists r. auto.
    - right. inversion H. auto.
  Qed.

  Lemma nth_map_in : forall (g : F -> F) (l : list F) k,
      k < length l -> (map g l) @ k = g (l @ k).
  Proof.
    intros g l k Hk. rewrite (nth_indep _ (f0 O) (g (f0 O))) by (rewrite map_length; exact Hk).
    apply map_nth.
  Qed.

  (** element-wise operation between an operand below [D] and a [D]-shaped one *)
  Lemma ew_left_below : forall f (c x r : arr F),
      wf c -> wf x -> sub_lead (dims c) (dims x) ->
      element_wise_op O f c x = Some r ->
      wf r /\ dims r = dims x /\
      forall j, j < prod (dims x) ->
        (vals r) @ j = f ((vals c) @ (bpos (dims x) (dims c) j)) ((vals x) @ j).
  Proof.
    intros f c x r Hwc Hwx Hsub H. pose proof Hwx as [Hpx _].
    apply (element_wise_op_some O f c x r Hwc Hwx) in H. subst r.
    destruct (sub_lead_bmax (dims c) (dims x) Hpx Hsub) as [_ Hb].
    split; [apply ew_arr_wf; assumption|]. split; [exact Hb|].
    intros j Hj. cbn [ew_arr vals]. rewrite ew_vals_nth by (rewrite Hb; exact Hj).
    rewrite Hb, (bpos_id (dims x) j Hpx Hj). reflexivity.
  Qed.

  Lemma ew_right_below : forall f (c x r : arr F),
      wf c -> wf x -> sub_lead (dims c) (dims x) ->
      element_wise_op O f x c = Some r ->
      wf r /\ dims r = dims x /\
      forall j, j < prod (dims x) ->
        (vals r) @ j = f ((vals x) @ j) ((vals c) @ (bpos (dims x) (dims c) j)).
  Proof.
    intros f c x r Hwc Hwx Hsub H. pose proof Hwx as [Hpx _].
    apply (element_wise_op_some O f x c r Hwx Hwc) in H. subst r.
    destruct (sub_lead_bmax (dims c) (dims x) Hpx Hsub) as [_ Hb]. rewrite bmax_sym in Hb.
    split; [apply ew_arr_wf; assumption|]. split; [exact Hb|].
    intros j Hj. cbn [ew_arr vals]. rewrite ew_vals_nth by (rewrite Hb; exact Hj).
    rewrite Hb, (bpos_id (dims x) j Hpx Hj). reflexivity.
  Qed.

  Lemma add_closure : binary_closure_spec (fadd D2) BAdd.
  Proof.
    intros a b delta flags ds Hwa Hwb Hna Hnb Hc Hwd Hdd Hrun D.
    cbn [run_bop] in Hrun. inversion Hrun; subst ds. clear Hrun.
    exists (if flag flags 0 then Some delta else None), (if flag flags 1 then Some delta else None),
           (fun j => (vals delta) @ j), (fun j => (vals delta) @ j).
    split; [reflexivity|].
    split; [destruct (flag flags 0); cbn [deliv]; auto|].
    split; [destruct (flag flags 1); cbn [deliv]; auto|].
    intros j Hj x' y'. cbn [dual_ops fadd fst snd]. ring.
  Qed.

  Theorem add_local : local_identity O 2 no_pre (fwd2 (a_add D2)) (fun _ _ => BAdd).
  Proof. exact (binary_local _ _ add_closure). Qed.

  Lemma mul_closure : binary_closure_spec (fmul D2) BMul.
  Proof.
    intros a b delta flags ds Hwa Hwb Hna Hnb Hc Hwd Hdd Hrun D.
    pose proof Hwa as [Hpa _]. pose proof Hwb as [Hpb _].
    assert (Hsa : sub_lead (dims a) (dims delta)) by (rewrite Hdd; apply bmax_sub_lead_l; assumption).
    assert (Hsb : sub_lead (dims b) (dims delta)) by (rewrite Hdd; apply bmax_sub_lead_r; assumption).
    cbn [run_bop] in Hrun.
    apply obind_some in Hrun. destruct Hrun as (od0 & H0 & Hrun).
    apply obind_some in Hrun. destruct Hrun as (od1 & H1 & Hrun). inversion Hrun; subst ds.
    exists od0, od1,
      (fun j => fmul O ((vals b) @ (bpos D (dims b) j)) ((vals delta) @ j)),
      (fun j => fmul O ((vals a) @ (bpos D (dims a) j)) ((vals delta) @ j)).
    split; [reflexivity|]. split; [|split].
    - apply when_some in H0. destruct H0 as [(_ & r & Hr & ->)|(Hf & ->)]; [|exact Hf].
      destruct (ew_left_below _ b delta r Hwb Hwd Hsb Hr) as (Hwr & Hdr & Hv).
      rewrite Hdd in Hdr, Hv. cbn [deliv]. auto.
    - apply when_some in H1. destruct H1 as [(_ & r & Hr & ->)|(Hf & ->)]; [|exact Hf].
      destruct (ew_left_below _ a delta r Hwa Hwd Hsa Hr) as (Hwr & Hdr & Hv).
      rewrite Hdd in Hdr, Hv. cbn [deliv]. auto.
    - intros j Hj x' y'. cbn [dual_ops fmul fst snd]. ring.
  Qed.

  Theorem mul_local : local_identity O 2 no_pre (fwd2 (a_mul D2)) (fun _ _ => BMul).
  Proof. exact (binary_local _ _ mul_closure). Qed.
End Binary.

(** * One-argument point-wise closures *)

Section Unary.
  Context {F : Type} (O : ScalarOps F) (R : is_cring O).
  Local Notation D2 := (dual_ops O).

  Let Rth : ring_theory (f0 O) (f1 O) (fadd O) (fmul O) (fsub O) (fneg O) (@eq F) := R.
  Add Ring local_adjoint_ring3 : Rth.

  Local Notation "l '@' j" := (nth j l (f0 O)) (at level 9, j at level 9).

  (** the closure attached to the result [map_result g c] delivers (unconditionally) an
      array of the child's dimensions whose values [G] are the derivative of the dual
      rule [gD], multiplied by the adjoint *)
  Definition unary_closure_spec (g : F -> F) (gD : @dual F -> @dual F)
             (code : list (arr F) -> arr F -> bop_code F) : Prop :=
    forall (c delta : arr F) flags ds,
      wf c -> wf delta -> dims delta = dims c ->
      run_bop O (code [c] (map_result g c)) [c] flags delta = Some ds ->
      exists d G,
        ds = [Some d] /\ wf d /\ dims d = dims c /\
        (forall j, j < length (vals c) -> (vals d) @ j = G j) /\
        forall j, j < length (vals c) -> forall x',
          fmul O ((vals delta) @ j) (snd (gD ((vals c) @ j, x'))) = fmul O (G j) x'.

  Theorem unary_local : forall g gD code,
      (forall X, fst (gD X) = g (fst X)) ->
      unary_closure_spec g gD code ->
      local_identity O 1 no_pre (fwd1 (map_arr gD)) code.
  Proof.
    intros g gD code Hg Hspec cs ts flags delta RD ds Hlen _ Hwf Hts Hfwd Hwd Hdd Hrun.
    destruct cs as [|c [|? ?]]; try discriminate Hlen.
    inversion Hts as [|? t ? ts1 Ht Hts1]; subst. inversion Hts1; subst.
    inversion Hwf as [|? ? Hwc _]; subst.
    cbn [lift_children fwd1] in Hfwd.
    set (t' := mask O (flag flags 0) t) in *.
    assert (Ht' : tangent_for c t') by (apply mask_tangent_for; exact Ht).
    destruct (map_lifted O gD c t' RD Hwc Ht' Hfwd) as (HwR & HdR & HlR & Hval).
    pose proof (map_lifted_primal O g gD c t' RD Hg Hwc Ht' Hfwd) as Hp.
    rewrite (map_arr_closed g c Hwc) in Hp.
    assert (Hp' : map_result g c = primal RD) by congruence. rewrite <- Hp' in Hrun.
    rewrite HdR in Hdd.
    destruct (Hspec c delta flags ds Hwc Hwd Hdd Hrun) as (d & G & -> & Hwd' & Hdd' & HG & Hid).
    eexists [_]. split.
    - cbn [child_terms]. split; [|exact I]. apply (child_term_same O c t d _ Hwc Ht Hwd' Hdd').
    - fold t'. rewrite (vsum_single O R).
      assert (Hld : length (vals delta) = length (vals c)).
      { destruct Hwd as [_ H1]. destruct Hwc as [_ H2]. rewrite <- H1, <- H2, Hdd. reflexivity. }
      rewrite (dot_tangent O _ RD (length (vals c)) Hld HlR).
      f_equal. apply map_ext_in. intros j Hj. apply in_seq in Hj.
      rewrite (Hval j) by lia. rewrite (HG j) by lia. apply Hid. lia.
  Qed.

  (** element-wise operation between arrays of the same dimensions *)
  Lemma ew_same : forall f (s x r : arr F),
      wf s -> wf x -> dims s = dims x ->
      element_wise_op O f s x = Some r ->
      wf r /\ dims r = dims x /\
      forall j, j < length (vals x) -> (vals r) @ j = f ((vals s) @ j) ((vals x) @ j).
  Proof.
    intros f s x r Hws Hwx Hd H. pose proof Hwx as [Hpx Hlx].
    assert (Hsub : sub_lead (dims s) (dims x)) by (rewrite Hd; apply sub_lead_refl).
    destruct (ew_left_below O f s x r Hws Hwx Hsub H) as (Hwr & Hdr & Hv).
    split; [exact Hwr|]. split; [exact Hdr|]. intros j Hj. rewrite <- Hlx in Hj.
    rewrite (Hv j Hj), Hd, (bpos_id (dims x) j Hpx Hj). reflexivity.
  Qed.

  Lemma wf_same_length : forall x y : arr F, wf x -> wf y -> dims x = dims y ->
                                             length (vals x) = length (vals y).
  Proof. intros x y [_ Hx] [_ Hy] Hd. rewrite <- Hx, <- Hy, Hd. reflexivity. Qed.

  Lemma map_result_wf : forall (g : F -> F) (a : arr F), wf a -> wf (map_result g a).
  Proof. intros. apply map_arr_result_wf. assumption. Qed.

  (** ** negation, scaling *)

  Lemma scale_closure : forall s,
      unary_closure_spec (fun x => fmul O x s) (fun X => fmul D2 X (s, f0 O)) (fun _ _ => BScale s).
  Proof.
    intros s c delta flags ds Hwc Hwd Hdd Hrun. cbn [run_bop] in Hrun.
    apply obind_some in Hrun. destruct Hrun as (r & Hr & Hrun). inversion Hrun; subst ds.
    apply map_arr_some in Hr. destruct Hr as [_ ->].
    pose proof (wf_same_length delta c Hwd Hwc Hdd) as Hl.
    exists (map_result (fun x => fmul O x s) delta), (fun j => fmul O ((vals delta) @ j) s).
    split; [reflexivity|]. split; [apply map_result_wf; exact Hwd|]. split; [exact Hdd|]. split.
    - intros j Hj. cbn [map_result vals]. rewrite (nth_map_in O) by lia. reflexivity.
    - intros j Hj x'. cbn [dual_ops fmul fst snd]. ring.
  Qed.

  Theorem scale_local : forall s,
      local_identity O 1 no_pre (fwd1 (a_scale D2 (s, f0 O))) (fun _ _ => BScale s).
  Proof.
    intros s. apply (unary_local (fun x => fmul O x s) (fun X => fmul D2 X (s, f0 O)));
      [reflexivity|apply scale_closure].
  Qed.

  Lemma neg_closure :
    unary_closure_spec (fun x => fmul O x (m1 O)) (fun X => fmul D2 X (m1 D2)) (fun _ _ => BNeg).
  Proof.
    intros c delta flags ds Hwc Hwd Hdd Hrun. cbn [run_bop] in Hrun.
    apply obind_some in Hrun. destruct Hrun as (r & Hr & Hrun). inversion Hrun; subst ds.
    apply map_arr_some in Hr. destruct Hr as [_ ->].
    pose proof (wf_same_length delta c Hwd Hwc Hdd) as Hl.
    exists (map_result (fun x => fmul O x (m1 O)) delta), (fun j => fmul O ((vals delta) @ j) (m1 O)).
    split; [reflexivity|]. split; [apply map_result_wf; exact Hwd|]. split; [exact Hdd|]. split.
    - intros j Hj. cbn [map_result vals]. rewrite (nth_map_in O) by lia. reflexivity.
    - intros j Hj x'. unfold m1. cbn [dual_ops fmul fneg f1 fst snd]. ring.
  Qed.

  Theorem neg_local : local_identity O 1 no_pre (fwd1 (a_neg D2)) (fun _ _ => BNeg).
  Proof.
    apply (unary_local (fun x => fmul O x (m1 O)) (fun X => fmul D2 X (m1 D2)));
      [reflexivity|apply neg_closure].
  Qed.

  (** ** powf, exp, relu *)

  Lemma powf_closure : forall e,
      unary_closure_spec (fun x => fpow O x e) (fun X => fpow D2 X (e, f0 O)) (fun _ _ => BPowf e).
  Proof.
    intros e c delta flags ds Hwc Hwd Hdd Hrun. cbn [run_bop] in Hrun.
    apply obind_some in Hrun. destruct Hrun as (p & Hp & Hrun).
    apply obind_some in Hrun. destruct Hrun as (s & Hs & Hrun).
    apply obind_some in Hrun. destruct Hrun as (d & Hd & Hrun). inversion Hrun; subst ds.
    apply map_arr_some in Hp. destruct Hp as [_ ->].
    apply map_arr_some in Hs. destruct Hs as [Hwp ->].
    pose proof (wf_same_length delta c Hwd Hwc Hdd) as Hl.
    destruct (ew_same _ _ delta d (map_result_wf _ _ Hwp) Hwd (eq_sym Hdd) Hd) as (Hwd' & Hdd' & Hv).
    exists d, (fun j => fmul O (fmul O (fpow O ((vals c) @ j) (fsub O e (f1 O))) e) ((vals delta) @ j)).
    split; [reflexivity|]. split; [exact Hwd'|]. split; [congruence|]. split.
    - intros j Hj. rewrite (Hv j) by lia. cbn [map_result vals].
      rewrite nth_map_in by (rewrite map_length; exact Hj). rewrite nth_map_in by exact Hj. reflexivity.
    - intros j Hj x'. cbn [dual_ops fpow fst snd]. ring.
  Qed.

  Theorem powf_local : forall e,
      local_identity O 1 no_pre (fwd1 (a_powf D2 (e, f0 O))) (fun _ _ => BPowf e).
  Proof.
    intros e. apply (unary_local (fun x => fpow O x e) (fun X => fpow D2 X (e, f0 O)));
      [reflexivity|apply powf_closure].
  Qed.

  Lemma nth_mul_values : forall (x y : list F) j,
      j < length x -> j < length y -> (mul_values O x y) @ j = fmul O (x @ j) (y @ j).
  Proof.
    unfold mul_values. induction x as [|a x IH]; intros [|b y] [|j] Hx Hy; simpl in *; try lia.
    - reflexivity.
    - apply IH; lia.
  Qed.

  Lemma exp_closure :
    unary_closure_spec (fexp O) (fexp D2) (fun _ r => BExp (vals r)).
  Proof.
    intros c delta flags ds Hwc Hwd Hdd Hrun. cbn [run_bop map_result vals] in Hrun.
    apply obind_some in Hrun. destruct Hrun as (d & Hd & Hrun). inversion Hrun; subst ds.
    apply mk_some in Hd. destruct Hd as (Hp & Hl & ->).
    pose proof (wf_same_length delta c Hwd Hwc Hdd) as Hld.
    eexists. exists (fun j => fmul O ((vals delta) @ j) (fexp O ((vals c) @ j))).
    split; [reflexivity|]. split; [split; assumption|]. split; [reflexivity|]. split.
    - intros j Hj. cbn [vals].
      rewrite nth_mul_values by (try rewrite map_length; lia).
      rewrite nth_map_in by exact Hj. reflexivity.
    - intros j Hj x'. cbn [dual_ops fexp fst snd]. ring.
  Qed.

  Theorem exp_local : local_identity O 1 no_pre (fwd1 (a_exp D2)) (fun _ r => BExp (vals r)).
  Proof. apply (unary_local (fexp O) (fexp D2)); [reflexivity|apply exp_closure]. Qed.

  Lemma relu_closure :
    unary_closure_spec (fun x => if fgt0 O x then x else f0 O)
                       (fun X => if fgt0 D2 X then X else f0 D2) (fun _ _ => BRelu).
  Proof.
    intros c delta flags ds Hwc Hwd Hdd Hrun. cbn [run_bop] in Hrun.
    apply obind_some in Hrun. destruct Hrun as (der & Hder & Hrun).
    apply obind_some in Hrun. destruct Hrun as (d & Hd & Hrun). inversion Hrun; subst ds.
    apply map_arr_some in Hder. destruct Hder as [_ ->].
    pose proof (wf_same_length delta c Hwd Hwc Hdd) as Hl.
    destruct (ew_same _ _ delta d (map_result_wf _ _ Hwc) Hwd (eq_sym Hdd) Hd) as (Hwd' & Hdd' & Hv).
    exists d, (fun j => fmul O (if fgt0 O ((vals c) @ j) then f1 O else f0 O) ((vals delta) @ j)).
    split; [reflexivity|]. split; [exact Hwd'|]. split; [congruence|]. split.
    - intros j Hj. rewrite (Hv j) by lia. cbn [map_result vals].
      rewrite nth_map_in by exact Hj. reflexivity.
    - intros j Hj x'. cbn [dual_ops fgt0 f0 fst snd].
      destruct (fgt0 O ((vals c) @ j)); cbn [snd]; ring.
  Qed.

  Theorem relu_local : local_identity O 1 no_pre (fwd1 (a_relu D2)) (fun _ _ => BRelu).
  Proof.
    apply (unary_local (fun x => if fgt0 O x then x else f0 O)
                       (fun X => if fgt0 D2 X then X else f0 D2)); [|exact relu_closure].
    intros X. cbn [dual_ops fgt0 f0]. destruct (fgt0 O (fst X)); reflexivity.
  Qed.
End Unary.

(** * Reshape and sum *)

Section Structural.
  Context {F : Type} (O : ScalarOps F) (R : is_cring O).
  Local Notation D2 := (dual_ops O).

  Let Rth : ring_theory (f0 O) (f1 O) (fadd O) (fmul O) (fsub O) (fneg O) (@eq F) := R.
  Add Ring local_adjoint_ring4 : Rth.

  Local Notation "l '@' j" := (nth j l (f0 O)) (at level 9, j at level 9).

  Lemma dot_zeros_like : forall (x : list F) (t : arr F), dot O x (vals (zeros_like O t)) = f0 O.
  Proof.
    intros x t. unfold dot. apply (vsum_zeros O R). intros y Hy. apply in_map_iff in Hy.
    destruct Hy as ([u v] & <- & Hin). apply in_combine_r in Hin. cbn [zeros_like vals] in Hin.
    apply in_map_iff in Hin. destruct Hin as (_ & <- & _). cbn [fst snd]. ring.
  Qed.

  Theorem reshape_local : forall d',
      local_identity O 1 no_pre (fwd1 (a_reshape d')) (fun _ _ => BReshape).
  Proof.
    intros d' cs ts flags delta RD ds Hlen _ Hwf Hts Hfwd Hwd Hdd Hrun.
    destruct cs as [|c [|? ?]]; try discriminate Hlen.
    inversion Hts as [|? t ? ts1 Ht Hts1]; subst. inversion Hts1; subst.
    inversion Hwf as [|? ? Hwc _]; subst.
    cbn [lift_children fwd1] in Hfwd.
    assert (Ht' : tangent_for c (mask O (flag flags 0) t)) by (apply mask_tangent_for; exact Ht).
    destruct (reshape_lifted d' c _ RD Hwc Ht' Hfwd) as (_ & Hp & Htan).
    assert (HdR : dims RD = d') by (change (dims RD) with (dims (primal RD)); rewrite Hp; reflexivity).
    rewrite Htan. cbn [vals]. cbn [run_bop] in Hrun.
    apply obind_some in Hrun. destruct Hrun as (od & Hod & Hrun). inversion Hrun; subst ds.
    apply when_some in Hod. destruct Hod as [(Hf & r & Hr & ->)|(Hf & ->)].
    - apply a_reshape_spec in Hr. destruct Hr as (Hpc & Hl & ->).
      eexists [_]. split.
      + cbn [child_terms]. split; [|exact I].
        apply (child_term_same O c t _ _ Hwc Ht); [split; assumption|reflexivity].
      + rewrite (vsum_single O R). cbn [vals]. apply dot_seq; [symmetry|].
        * destruct Hwc as [_ H2]. rewrite <- H2. exact Hl.
        * apply tangent_for_length; assumption.
    - exists [f0 O]. split; [cbn [child_terms child_term]; auto|].
      rewrite Hf. cbn [mask]. rewrite dot_zeros_like, (vsum_single O R). reflexivity.
  Qed.

  (** ** sum over the last [k] dimensions *)

  Definition dummy_arr : arr F := {| dims := []; vals := [] |}.

  Definition sum_code (k : nat) (cs : list (arr F)) (_ : arr F) : bop_code F :=
    BSum k (sum_target (dims (nth 0 cs dummy_arr)) k).

  Definition sum_pre (k : nat) (cs : list (arr F)) : Prop :=
    1 <= k <= length (dims (nth 0 cs dummy_arr)).

  Lemma block_as_map : forall g i N (l : list F),
      length l = N * g -> i < N ->
      block g i l = map (fun y => l @ (g * i + y)) (seq 0 g).
  Proof.
    intros g i N l Hl Hi. rewrite (list_as_map_seq (block g i l) (f0 O)).
    rewrite (block_length g i N l Hl Hi). apply map_ext_in. intros y Hy. apply in_seq in Hy.
    apply nth_block. lia.
  Qed.

  Lemma nth_map_const : forall {A} (v : F) (l : list A) y d,
      y < length l -> nth y (map (fun _ => v) l) d = v.
  Proof.
    intros A v l. induction l as [|a l IH]; intros [|y] d Hy; simpl in *; try lia; [reflexivity|].
    apply IH. lia.
  Qed.

  (** the closure of [sum]: every element of block [i] receives [delta[i]] *)
  Lemma sum_closure : forall k (c delta d : arr F),
      wf c -> 1 <= k <= length (dims c) -> wf delta ->
      dims delta = firstn (length (dims c) - k) (dims c) ++ [1] ->
      (x' <- a_reshape (sum_target (dims c) k) delta ;;
       sliced_op O [x'] (fill_sop (F:=F)) (sum_target (dims c) k) (dims c) k 0) = Some d ->
      let lead := firstn (length (dims c) - k) (dims c) in
      let g := prod (lastn k (dims c)) in
      wf d /\ dims d = dims c /\
      forall i y, i < prod lead -> y < g -> (vals d) @ (g * i + y) = (vals delta) @ i.
  Proof.
    intros k c delta d Hwc Hk Hwd Hdd H lead g. pose proof Hwc as [Hpc Hlc].
    apply obind_some in H. destruct H as (x' & Hx' & H).
    apply a_reshape_spec in Hx'. destruct Hx' as (Hpt & Hlt & ->).
    set (x' := {| dims := sum_target (dims c) k; vals := vals delta |}) in *.
    assert (Hwx : wf x') by (split; assumption).
    assert (Hlead : Forall (fun x => 1 <= x) lead) by (apply Forall_firstn; exact Hpc).
    assert (Hlc' : length lead = length (dims c) - k) by (unfold lead; rewrite firstn_length; lia).
    assert (Hlt' : length (sum_target (dims c) k) - k = length lead).
    { unfold sum_target. fold lead. rewrite app_length, repeat_length. lia. }
    assert (Et1 : firstn (length lead) (sum_target (dims c) k) = lead).
    { unfold sum_target. fold lead. apply firstn_app_len. }
    assert (Ec1 : firstn (length lead) (dims c) = lead) by (rewrite Hlc'; reflexivity).
    assert (Eg : prod (skipn (length lead) (dims c)) = g) by (rewrite Hlc'; reflexivity).
    pose proof (sliced_op_nonacc O [x'] (fill_sop (F:=F)) (sum_target (dims c) k) (dims c) k 0 d) as S.
    cbv zeta in S. rewrite Hlt', Et1, Eg in S.
    apply (proj1 (S Ec1 Hlead)) in H. clear S.
    destruct H as (_ & out & Hlo & Hb & Hmk).
    unfold flatten_dims in Hmk. cbn [Nat.eqb obind] in Hmk.
    apply mk_some in Hmk. destruct Hmk as (_ & _ & ->).
    split; [split; [exact Hpc|cbn [dims vals]; symmetry; exact Hlo]|]. split; [reflexivity|].
    intros i y Hi Hy. cbn [vals].
    destruct (Hb i Hi) as (slices & Hs & Hfill).
    cbn [mapM] in Hs.
    assert (Eld : lead_dims k x' = lead).
    { unfold lead_dims. cbn [dims x']. rewrite Hlt'. exact Et1. }
    assert (Egl : group_length k x' = 1).
    { unfold group_length, lastn. cbn [dims x']. rewrite Hlt'. unfold sum_target. fold lead.
      rewrite skipn_app_len. apply prod_repeat_1. }
    rewrite (operand_slice_spec k (length lead) lead i x' Hwx Hlead eq_refl) in Hs
      by (rewrite Eld; apply sub_lead_refl).
    rewrite Eld, Egl in Hs. rewrite bclamp_id in Hs by (apply unrank_lt; exact Hlead).
    rewrite rowmajor_unrank in Hs by assumption. cbn [obind vals x'] in Hs.
    inversion Hs; subst slices. clear Hs.
    assert (Hld : length (vals delta) = prod lead).
    { destruct Hwd as [_ H1]. rewrite <- H1, Hdd, prod_app. fold lead. change (prod [1]) with 1. lia. }
    unfold fill_sop in Hfill. rewrite nth_error_block in Hfill by lia.
    rewrite (nth_error_nth' (vals delta) (f0 O)) in Hfill by lia. cbn [obind] in Hfill.
    inversion Hfill as [Hblk].
    rewrite <- (nth_block g i out y (f0 O) Hy), <- Hblk.
    rewrite nth_map_const by (rewrite repeat_length; exact Hy). f_equal. lia.
  Qed.

  Theorem sum_local : forall k,
      local_identity O 1 (sum_pre k) (fwd1 (a_sum D2 k)) (sum_code k).
  Proof.
    intros k cs ts flags delta RD ds Hlen Hpre Hwf Hts Hfwd Hwd Hdd Hrun.
    destruct cs as [|c [|? ?]]; try discriminate Hlen.
    inversion Hts as [|? t ? ts1 Ht Hts1]; subst. inversion Hts1; subst.
    inversion Hwf as [|? ? Hwc _]; subst.
    unfold sum_pre in Hpre. unfold sum_code in Hrun. cbn [nth] in Hpre, Hrun.
    cbn [lift_children fwd1] in Hfwd.
    set (t' := mask O (flag flags 0) t) in *.
    assert (Ht' : tangent_for c t') by (apply mask_tangent_for; exact Ht).
    destruct (sum_lifted O k c t' RD Hwc Ht' Hpre Hfwd) as (Hp & Htan & _).
    assert (HdR : dims RD = firstn (length (dims c) - k) (dims c) ++ [1]).
    { change (dims RD) with (dims (primal RD)). rewrite Hp. reflexivity. }
    rewrite HdR in Hdd.
    cbn [run_bop] in Hrun.
    apply obind_some in Hrun. destruct Hrun as (x' & Hx' & Hrun).
    apply obind_some in Hrun. destruct Hrun as (d & Hd & Hrun). inversion Hrun; subst ds.
    assert (Hcl : (x'0 <- a_reshape (sum_target (dims c) k) delta ;;
                   sliced_op O [x'0] (fill_sop (F:=F)) (sum_target (dims c) k) (dims c) k 0) = Some d)
      by (rewrite Hx'; exact Hd).
    destruct (sum_closure k c delta d Hwc Hpre Hwd Hdd Hcl) as (Hwd' & Hdd' & Hv).
    cbv zeta in Hv.
    set (lead := firstn (length (dims c) - k) (dims c)) in *.
    set (g := prod (lastn k (dims c))) in *.
    destruct Ht' as [Hwt' Hdt'].
    pose proof Hwc as [_ Hlc].
    assert (Hlcg : length (vals c) = prod lead * g).
    { rewrite <- Hlc. rewrite <- (firstn_lastn k (dims c)) at 1. rewrite prod_app. reflexivity. }
    assert (Hlt : length (vals t') = prod lead * g).
    { rewrite <- Hlcg. apply tangent_for_length; [exact Hwc|split; assumption]. }
    assert (Hld : length (vals delta) = prod lead).
    { destruct Hwd as [_ H1]. rewrite <- H1, Hdd, prod_app. change (prod [1]) with 1. lia. }
    eexists [_]. split.
    - cbn [child_terms]. split; [|exact I]. apply (child_term_same O c t d _ Hwc Ht Hwd' Hdd').
    - fold t'. rewrite (vsum_single O R), Htan. unfold sum_result. cbn [vals]. rewrite Hdt'.
      fold lead g.
      rewrite (dot_seq O _ _ (prod lead) Hld) by (rewrite map_length, seq_length; reflexivity).
      rewrite Hlcg, (vsum_seq_mul O R).
      f_equal. apply map_ext_in. intros i Hi. apply in_seq in Hi.
      rewrite nth_map_seq by lia. cbn [Nat.add].
      rewrite (block_as_map g i (prod lead) (vals t') Hlt) by lia.
      rewrite <- (vsum_map_scale_l O R).
      f_equal. apply map_ext_in. intros y Hy. apply in_seq in Hy.
      rewrite (Hv i y) by lia. reflexivity.
  Qed.
End Structural.

(** * Closures involving division (explicit scalar laws) *)

Section Division.
  Context {F : Type} (O : ScalarOps F) (R : is_cring O).
  Local Notation D2 := (dual_ops O).

  (** division is multiplication by the reciprocal; the reciprocal of a product; the
      second power.  All three hold for the real numbers with Coq's total [Rdiv]/[Rinv]
      and [pow]/[Rpower] at exponent 2. *)
  Hypothesis Hdiv : forall a b, fdiv O a b = fmul O a (fdiv O (f1 O) b).
  Hypothesis Hinv_mul : forall a b,
      fdiv O (f1 O) (fmul O a b) = fmul O (fdiv O (f1 O) a) (fdiv O (f1 O) b).
  Hypothesis Hpow2 : forall x, fpow O x (two O) = fmul O x x.

  Let Rth : ring_theory (f0 O) (f1 O) (fadd O) (fmul O) (fsub O) (fneg O) (@eq F) := R.
  Add Ring local_adjoint_ring5 : Rth.

  Local Notation "l '@' j" := (nth j l (f0 O)) (at level 9, j at level 9).

  Lemma div_closure : binary_closure_spec O (fdiv D2) BDiv.
  Proof.
    intros a b delta flags ds Hwa Hwb Hna Hnb Hc Hwd Hdd Hrun D.
    pose proof Hwa as [Hpa Hla]. pose proof Hwb as [Hpb Hlb].
    assert (Hsa : sub_lead (dims a) (dims delta)) by (rewrite Hdd; apply bmax_sub_lead_l; assumption).
    assert (Hsb : sub_lead (dims b) (dims delta)) by (rewrite Hdd; apply bmax_sub_lead_r; assumption).
    cbn [run_bop] in Hrun.
    apply obind_some in Hrun. destruct Hrun as (od0 & H0 & Hrun).
    apply obind_some in Hrun. destruct Hrun as (od1 & H1 & Hrun). inversion Hrun; subst ds.
    exists od0, od1,
      (fun j => fdiv O ((vals delta) @ j) ((vals b) @ (bpos D (dims b) j))),
      (fun j => fmul O (fdiv O (fmul O ((vals a) @ (bpos D (dims a) j)) (m1 O))
                              (fpow O ((vals b) @ (bpos D (dims b) j)) (two O)))
                       ((vals delta) @ j)).
    split; [reflexivity|]. split; [|split].
    - apply when_some in H0. destruct H0 as [(_ & r & Hr & ->)|(Hf & ->)]; [|exact Hf].
      destruct (ew_right_below O _ b delta r Hwb Hwd Hsb Hr) as (Hwr & Hdr & Hv).
      rewrite Hdd in Hdr, Hv. cbn [deliv]. auto.
    - apply when_some in H1. destruct H1 as [(_ & r & Hr & ->)|(Hf & ->)]; [|exact Hf].
      apply obind_some in Hr. destruct Hr as (n & Hn & Hr).
      apply obind_some in Hr. destruct Hr as (p & Hp & Hr).
      apply obind_some in Hr. destruct Hr as (q & Hq & Hr).
      apply map_arr_some in Hn. destruct Hn as [_ ->].
      apply map_arr_some in Hp. destruct Hp as [_ ->].
      apply (element_wise_op_some O _ _ _ _ (map_result_wf _ a Hwa) (map_result_wf _ b Hwb)) in Hq.
      subst q.
      assert (Hwq : wf (ew_arr O (fdiv O) (map_result (fun x => fmul O x (m1 O)) a)
                               (map_result (fun x => fpow O x (two O)) b)))
        by (apply ew_arr_wf; apply map_result_wf; assumption).
      destruct (ew_same O _ _ delta r Hwq Hwd (eq_sym Hdd) Hr) as (Hwr & Hdr & Hv).
      cbn [deliv]. split; [exact Hwr|]. split; [rewrite Hdr; exact Hdd|].
      intros j Hj. destruct Hwd as [_ Hld]. rewrite Hdd in Hld.
      rewrite (Hv j) by (rewrite <- Hld; exact Hj).
      cbn [ew_arr vals]. rewrite ew_vals_nth by exact Hj. cbn [map_result dims vals]. fold D.
      rewrite (nth_map_in O), (nth_map_in O); [reflexivity| |].
      + rewrite <- Hlb. apply bpos_lt; try assumption. apply bmax_pos; assumption.
        apply bmax_sub_lead_r; assumption.
      + rewrite <- Hla. apply bpos_lt; try assumption. apply bmax_pos; assumption.
        apply bmax_sub_lead_l; assumption.
    - intros j Hj x' y'. cbn [dual_ops fdiv fst snd].
      set (av := (vals a) @ (bpos D (dims a) j)). set (bv := (vals b) @ (bpos D (dims b) j)).
      set (dv := (vals delta) @ j).
      rewrite (Hdiv x' bv), (Hdiv (fmul O av y') (fmul O bv bv)), (Hdiv dv bv),
        (Hdiv (fmul O av (m1 O)) (fpow O bv (two O))), (Hpow2 bv).
      unfold m1. ring.
  Qed.

  Theorem div_local : local_identity O 2 no_pre (fwd2 (a_div D2)) (fun _ _ => BDiv).
  Proof. exact (binary_local O R _ _ div_closure). Qed.

  Lemma ln_closure : unary_closure_spec O (fln O) (fln D2) (fun _ _ => BLn).
  Proof.
    intros c delta flags ds Hwc Hwd Hdd Hrun. cbn [run_bop] in Hrun.
    apply obind_some in Hrun. destruct Hrun as (r & Hr & Hrun).
    apply obind_some in Hrun. destruct Hrun as (d & Hd & Hrun). inversion Hrun; subst ds.
    apply map_arr_some in Hr. destruct Hr as [_ ->].
    pose proof (wf_same_length delta c Hwd Hwc Hdd) as Hl.
    assert (Hwr : wf (map_result (fun x => fdiv O (f1 O) x) c)) by (apply map_result_wf; exact Hwc).
    destruct (ew_same O _ delta _ d Hwd Hwr Hdd Hd) as (Hwd' & Hdd' & Hv).
    exists d, (fun j => fmul O ((vals delta) @ j) (fdiv O (f1 O) ((vals c) @ j))).
    split; [reflexivity|]. split; [exact Hwd'|]. split; [exact Hdd'|]. split.
    - intros j Hj. rewrite (Hv j) by (cbn [map_result vals]; rewrite map_length; exact Hj).
      cbn [map_result vals]. rewrite (nth_map_in O) by exact Hj. reflexivity.
    - intros j Hj x'. cbn [dual_ops fln fst snd]. rewrite (Hdiv x'). ring.
  Qed.

  Theorem ln_local : local_identity O 1 no_pre (fwd1 (a_ln D2)) (fun _ _ => BLn).
  Proof. apply (unary_local O R (fln O) (fln D2)); [reflexivity|apply ln_closure]. Qed.

  Lemma recip_closure :
    unary_closure_spec O (fun x => fdiv O (f1 O) x) (fun X => fdiv D2 (f1 D2) X) (fun _ _ => BRecip).
  Proof.
    intros c delta flags ds Hwc Hwd Hdd Hrun. cbn [run_bop] in Hrun.
    apply obind_some in Hrun. destruct Hrun as (r & Hr & Hrun).
    apply obind_some in Hrun. destruct Hrun as (p & Hp & Hrun).
    apply obind_some in Hrun. destruct Hrun as (n & Hn & Hrun).
    apply obind_some in Hrun. destruct Hrun as (d & Hd & Hrun). inversion Hrun; subst ds.
    apply map_arr_some in Hr. destruct Hr as [_ ->].
    apply map_arr_some in Hp. destruct Hp as [Hwr ->].
    apply map_arr_some in Hn. destruct Hn as [Hwp ->].
    pose proof (wf_same_length delta c Hwd Hwc Hdd) as Hl.
    destruct (ew_same O _ _ delta d (map_result_wf _ _ Hwp) Hwd (eq_sym Hdd) Hd) as (Hwd' & Hdd' & Hv).
    exists d, (fun j => fmul O (fmul O (fpow O (fdiv O (f1 O) ((vals c) @ j)) (two O)) (m1 O))
                             ((vals delta) @ j)).
    split; [reflexivity|]. split; [exact Hwd'|]. split; [congruence|]. split.
    - intros j Hj. rewrite (Hv j) by lia. cbn [map_result vals].
      rewrite (nth_map_in O) by (rewrite !map_length; exact Hj).
      rewrite (nth_map_in O) by (rewrite map_length; exact Hj).
      rewrite (nth_map_in O) by exact Hj. reflexivity.
    - intros j Hj x'. cbn [dual_ops fdiv f1 fst snd].
      set (cv := (vals c) @ j). set (dv := (vals delta) @ j).
      rewrite (Hdiv (f0 O) cv), (Hdiv (fmul O (f1 O) x') (fmul O cv cv)), (Hinv_mul cv cv),
        (Hpow2 (fdiv O (f1 O) cv)).
      unfold m1. ring.
  Qed.

  Theorem recip_local :
    local_identity O 1 no_pre (fwd1 (a_reciprocal D2)) (fun _ _ => BRecip).
  Proof.
    apply (unary_local O R (fun x => fdiv O (f1 O) x) (fun X => fdiv D2 (f1 D2) X));
      [reflexivity|apply recip_closure].
  Qed.
End Division.

Print Assumptions add_local.
Print Assumptions mul_local.
Print Assumptions neg_local.
Print Assumptions scale_local.
Print Assumptions reshape_local.
Print Assumptions sum_local.
Print Assumptions powf_local.
Print Assumptions exp_local.
Print Assumptions relu_local.
Print Assumptions div_local.
Print Assumptions ln_local.
Print Assumptions recip_local.
