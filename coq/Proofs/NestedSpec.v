(** C16, all nesting depths of [arr!]: a rose tree of scalar lists builds (by
    [from_flat] at the leaves and [from_arrays] at the nodes) exactly when it is a
    well-formed nesting of some shape [d]; the result then has dimensions [d] and the
    row-major flattening of the tree as values; a full in-range multi-index reads the
    leaf element reached by following the index through the tree. *)

From Coq Require Import List Arith Bool Lia.
From Corgi Require Import Lib.OptionMonad Model.Scalar Model.Arr Proofs.ArrFacts.
Import ListNotations.

Section Nested.
  Context {F : Type}.

  (** [arr![..]] nested to any depth: scalar rows at the leaves *)
  Inductive nest : Type :=
  | NLeaf (v : list F)
  | NNode (l : list nest).

  (** the nested induction principle *)
  Lemma nest_ind' : forall P : nest -> Prop,
      (forall v, P (NLeaf v)) ->
      (forall l, Forall P l -> P (NNode l)) ->
      forall t, P t.
  Proof.
    intros P Hleaf Hnode. fix IH 1. intros [v|l].
    - apply Hleaf.
    - apply Hnode. induction l as [|c l IHl]; constructor; [apply IH|exact IHl].
  Qed.

  (** [Array::from] applied bottom-up, as the macro expands *)
  Fixpoint build (t : nest) : option (arr F) :=
    match t with
    | NLeaf v => from_flat v
    | NNode l =>
      cs <- (fix go (l : list nest) : option (list (arr F)) :=
               match l with
               | [] => Some []
               | c :: l' => a <- build c ;; r <- go l' ;; Some (a :: r)
               end) l ;;
      from_arrays cs
    end.

  Lemma build_node : forall l, build (NNode l) = cs <- mapM build l ;; from_arrays cs.
  Proof.
    intros l. simpl. f_equal. induction l as [|c l IH]; simpl; [reflexivity|].
    rewrite IH. reflexivity.
  Qed.

  (** [t] is a well-formed nesting of shape [d]: no empty level, no empty row, all
      siblings of the same shape *)
  Inductive regular : list nat -> nest -> Prop :=
  | RLeaf : forall v, v <> [] -> regular [length v] (NLeaf v)
  | RNode : forall l d, l <> [] -> Forall (regular d) l -> regular (length l :: d) (NNode l).

  (** row-major flattening *)
  Fixpoint flat (t : nest) : list F :=
    match t with
    | NLeaf v => v
    | NNode l => concat (map flat l)
    end.

  (** follow a multi-index from the root to a leaf element *)
  Fixpoint path (t : nest) (idx : list nat) {struct idx} : option F :=
    match idx with
    | [] => None
    | i :: rest =>
      match t with
      | NLeaf v => match rest with [] => nth_error v i | _ :: _ => None end
      | NNode l => match nth_error l i with Some c => path c rest | None => None end
      end
    end.

  (** ** Every built array is well formed *)

  Lemma build_wf : forall t a, build t = Some a -> wf a.
  Proof.
    intros [v|l] a H.
    - simpl in H. unfold from_flat in H. apply mk_some in H. destruct H as (H1 & H2 & ->).
      split; assumption.
    - rewrite build_node in H. destruct (mapM build l) as [cs|]; simpl in H; [|discriminate].
      destruct cs as [|first rest]; simpl in H; [discriminate|].
      destruct (forallb (fun a0 => dims_eqb (dims a0) (dims first)) rest); simpl in H; [|discriminate].
      apply mk_some in H. destruct H as (H1 & H2 & ->). split; assumption.
  Qed.

  (** ** [mapM] against [Forall2] *)

  Lemma mapM_some_F2 : forall {A B} (f : A -> option B) l r,
      mapM f l = Some r <-> Forall2 (fun x y => f x = Some y) l r.
  Proof.
    intros A B f. induction l as [|x l IH]; intros r; simpl.
    - split; intros H; [inversion H; constructor|inversion H; reflexivity].
    - split; intros H.
      + destruct (f x) as [y|] eqn:E; simpl in H; [|discriminate].
        destruct (mapM f l) as [ys|] eqn:E2; simpl in H; [|discriminate].
        inversion H; subst. constructor; [exact E|]. apply IH. reflexivity.
      + inversion H as [|? y ? ys Hy Hys]; subst. rewrite Hy. simpl.
        apply IH in Hys. rewrite Hys. reflexivity.
  Qed.

  (** ** The characterisation *)

  Definition built (d : list nat) (t : nest) : arr F := {| dims := d; vals := flat t |}.

  Lemma F2_same_dims : forall (l : list nest) (cs : list (arr F)) d,
      Forall2 (fun t c => exists d', regular d' t /\ c = built d' t) l cs ->
      Forall (fun c => dims c = d) cs ->
      Forall (regular d) l /\ map vals cs = map flat l.
  Proof.
    intros l cs d H. induction H as [|t c l cs (d' & Hr & ->) H IH]; intros Hd.
    - split; [constructor|reflexivity].
    - pose proof (Forall_inv Hd) as Hc. pose proof (Forall_inv_tail Hd) as Hcs. simpl in Hc. subst d'.
      destruct (IH Hcs) as [IH1 IH2]. split; [constructor; assumption|].
      simpl. rewrite IH2. reflexivity.
  Qed.

  Theorem build_spec : forall t a,
      build t = Some a <-> exists d, regular d t /\ a = built d t.
  Proof.
    intros t. induction t as [v|l IH] using nest_ind'; intros a.
    - simpl. rewrite from_flat_spec. split.
      + intros [Hne ->]. exists [length v]. split; [constructor; exact Hne|reflexivity].
      + intros (d & Hr & ->). inversion Hr; subst. split; [assumption|reflexivity].
    - rewrite build_node. split.
      + intros H. destruct (mapM build l) as [cs|] eqn:Hm; simpl in H; [|discriminate].
        apply mapM_some_F2 in Hm.
        assert (Hwf : Forall wf cs).
        { clear -Hm. induction Hm as [|t c l cs Hb Hm IHm]; constructor; [|exact IHm].
          eapply build_wf; exact Hb. }
        assert (Hrel : Forall2 (fun t c => exists d', regular d' t /\ c = built d' t) l cs).
        { clear -Hm IH. induction Hm as [|t c l cs Hb Hm IHm]; [constructor|].
          inversion IH as [|? ? Ht Hl]; subst.
          constructor; [apply Ht; exact Hb|apply IHm; exact Hl]. }
        apply (from_arrays_spec cs a Hwf) in H.
        destruct H as (first & rest & Hcs & Hsame & ->).
        assert (Hall : Forall (fun c => dims c = dims first) cs).
        { rewrite Hcs. constructor; [reflexivity|exact Hsame]. }
        destruct (F2_same_dims l cs (dims first) Hrel Hall) as [Hreg Hvals].
        assert (Hlen : length cs = length l) by (symmetry; eapply Forall2_len; exact Hrel).
        exists (length l :: dims first). split.
        * constructor; [|exact Hreg]. intros ->. rewrite Hcs in Hlen. discriminate Hlen.
        * unfold built. simpl. rewrite Hlen, Hvals. reflexivity.
      + intros (d & Hr & ->). inversion Hr as [|l' d' Hne Hreg]; subst.
        assert (Hm : mapM build l = Some (map (built d') l)).
        { apply mapM_some_F2. clear Hne Hr.
          induction l as [|t l IHl]; simpl; [constructor|].
          inversion IH as [|? ? Ht Hl]; subst. inversion Hreg as [|? ? Hrt Hrl]; subst.
          constructor; [|apply IHl; assumption].
          apply Ht. exists d'. split; [exact Hrt|reflexivity]. }
        rewrite Hm. simpl.
        assert (Hwf : Forall wf (map (built d') l)).
        { apply Forall_forall. intros c Hc. apply in_map_iff in Hc. destruct Hc as (t & <- & Ht).
          apply mapM_some_F2 in Hm.
          assert (Hb : build t = Some (built d' t)).
          { clear -Hm Ht. induction l as [|t0 l IHl]; [contradiction|].
            simpl in Hm. inversion Hm; subst. destruct Ht as [->|Ht]; [assumption|].
            apply IHl; assumption. }
          eapply build_wf; exact Hb. }
        apply (from_arrays_spec _ _ Hwf).
        destruct l as [|t0 l0]; [congruence|].
        exists (built d' t0), (map (built d') l0). split; [reflexivity|]. split.
        * apply Forall_forall. intros c Hc. apply in_map_iff in Hc.
          destruct Hc as (t & <- & _). reflexivity.
        * unfold built at 1. f_equal.
          -- rewrite map_length. reflexivity.
          -- rewrite map_map. reflexivity.
  Qed.

  (** ragged nesting, empty levels and empty rows are refused, at every depth *)
  Corollary build_none : forall t, build t = None <-> ~ exists d, regular d t.
  Proof.
    intros t. destruct (build t) as [a|] eqn:E.
    - apply build_spec in E. destruct E as (d & Hr & _).
      split; [discriminate|]. intros H. exfalso. apply H. exists d. exact Hr.
    - split; [|reflexivity]. intros _ (d & Hr).
      assert (build t = Some (built d t)) by (apply build_spec; exists d; auto). congruence.
  Qed.

  Corollary build_regular : forall d t, regular d t -> build t = Some (built d t).
  Proof. intros d t H. apply build_spec. exists d. auto. Qed.

  Corollary regular_unique : forall d1 d2 t, regular d1 t -> regular d2 t -> d1 = d2.
  Proof.
    intros d1 d2 t H1 H2. apply build_regular in H1. apply build_regular in H2.
    rewrite H1 in H2. inversion H2. reflexivity.
  Qed.

  Corollary regular_wf : forall d t,
      regular d t -> Forall (fun x => 1 <= x) d /\ prod d = length (flat t).
  Proof. intros d t H. apply build_regular in H. apply build_wf in H. exact H. Qed.

  Lemma regular_nonempty : forall d t, regular d t -> d <> [].
  Proof. intros d t H. inversion H; discriminate. Qed.

  (** ** Indexing *)

  Lemma nth_error_concat_uniform : forall {A} (ls : list (list A)) n i j c,
      Forall (fun x => length x = n) ls ->
      nth_error ls i = Some c -> j < n ->
      nth_error (concat ls) (i * n + j) = nth_error c j.
  Proof.
    intros A ls n. induction ls as [|x ls IH]; intros i j c Hall Hi Hj.
    - destruct i; discriminate.
    - inversion Hall as [|? ? Hx Hls]; subst. destruct i as [|i]; simpl in *.
      + inversion Hi; subst. apply nth_error_app1. lia.
      + rewrite nth_error_app2 by lia.
        replace (length x + i * length x + j - length x) with (i * length x + j) by lia.
        apply IH; assumption.
  Qed.

  Lemma path_rowmajor : forall t d idx,
      regular d t -> in_range idx d ->
      path t idx = nth_error (flat t) (rowmajor d idx).
  Proof.
    intros t. induction t as [v|l IH] using nest_ind'; intros d idx Hr Hin.
    - inversion Hr; subst. unfold in_range in Hin.
      inversion Hin as [|i n rest ds Hlt Hrest]; subst. inversion Hrest; subst.
      simpl. f_equal. lia.
    - inversion Hr as [|l' d' Hne Hreg]; subst. unfold in_range in Hin.
      inversion Hin as [|i n rest ds Hlt Hrest]; subst.
      destruct (nth_error l i) as [c|] eqn:Hc; [|apply nth_error_None in Hc; lia].
      simpl. rewrite Hc.
      assert (Hcin : In c l) by (eapply nth_error_In; exact Hc).
      rewrite Forall_forall in IH, Hreg.
      rewrite (IH c Hcin d' rest (Hreg c Hcin) Hrest).
      symmetry. apply nth_error_concat_uniform.
      + apply Forall_forall. intros x Hx. apply in_map_iff in Hx. destruct Hx as (t & <- & Ht).
        destruct (regular_wf d' t (Hreg t Ht)) as [_ Hp]. symmetry. exact Hp.
      + rewrite nth_error_map, Hc. reflexivity.
      + apply rowmajor_lt; [exact Hrest|]. eapply regular_nonempty. apply (Hreg c Hcin).
  Qed.

  (** [arr![...][vec![i1; ...; ik]]] is the leaf element reached by following
      [i1], ..., [ik] through the nesting *)
  Theorem build_index : forall t a idx,
      build t = Some a -> in_range idx (dims a) ->
      exists x, index_multi a idx = Some x /\ path t idx = Some x.
  Proof.
    intros t a idx Hb Hin.
    pose proof (build_wf t a Hb) as Hwf.
    apply build_spec in Hb. destruct Hb as (d & Hr & ->). simpl in Hin.
    destruct (index_multi_spec (built d t) idx Hwf) as (x & Hx1 & Hx2).
    - simpl. eapply regular_nonempty. exact Hr.
    - exact Hin.
    - exists x. split; [exact Hx1|]. simpl in Hx2.
      rewrite (path_rowmajor t d idx Hr Hin). exact Hx2.
  Qed.

  (** outside the shape the path does not exist either (too short, too long, or out of range) *)
  Lemma path_in_range : forall t d idx x,
      regular d t -> path t idx = Some x -> in_range idx d.
  Proof.
    intros t. induction t as [v|l IH] using nest_ind'; intros d idx x Hr Hp.
    - inversion Hr; subst. destruct idx as [|i [|j rest]]; simpl in Hp; try discriminate.
      constructor; [|constructor]. apply nth_error_Some. congruence.
    - inversion Hr as [|l' d' Hne Hreg]; subst. destruct idx as [|i rest]; simpl in Hp; [discriminate|].
      destruct (nth_error l i) as [c|] eqn:Hc; [|discriminate].
      assert (Hcin : In c l) by (eapply nth_error_In; exact Hc).
      rewrite Forall_forall in IH, Hreg.
      constructor; [apply nth_error_Some; congruence|].
      apply (IH c Hcin d' rest x (Hreg c Hcin) Hp).
  Qed.
End Nested.

Arguments nest : clear implicits.

(** ** Non-vacuity *)

From Coq Require Import ZArith.

Example nested_depth3 :
  let t := NNode [NNode [NLeaf [1; 2; 3]; NLeaf [4; 5; 6]];
                  NNode [NLeaf [7; 8; 9]; NLeaf [10; 11; 12]]]%Z in
  build t = Some {| dims := [2; 2; 3]; vals := [1; 2; 3; 4; 5; 6; 7; 8; 9; 10; 11; 12]%Z |}
  /\ regular [2; 2; 3] t
  /\ path t [1; 0; 2] = Some 9%Z
  /\ index_multi {| dims := [2; 2; 3]; vals := [1; 2; 3; 4; 5; 6; 7; 8; 9; 10; 11; 12]%Z |} [1; 0; 2]
     = Some 9%Z.
Proof.
  intros t. repeat split.
  assert (Hb : build t = Some {| dims := [2; 2; 3];
                                 vals := [1; 2; 3; 4; 5; 6; 7; 8; 9; 10; 11; 12]%Z |}) by reflexivity.
  apply build_spec in Hb. destruct Hb as (d & Hr & E). inversion E; subst d. exact Hr.
Qed.

(** ragged at depth 2, an empty level, an empty row, mixed depths: all refused *)
Example nested_refused :
  build (NNode [NNode [NLeaf [1; 2]; NLeaf [3; 4]]; NNode [NLeaf [5; 6]; NLeaf [7]]])%Z = None
  /\ build (NNode [NNode [NLeaf [1%Z]]; NNode []]) = None
  /\ build (NNode [NLeaf [1%Z]; NLeaf []]) = None
  /\ build (NNode [NLeaf [1; 2]; NNode [NLeaf [1]; NLeaf [2]]])%Z = None
  /\ build (@NNode Z []) = None.
Proof. repeat split. Qed.

Print Assumptions build_spec.
Print Assumptions build_none.
Print Assumptions build_index.
Print Assumptions regular_wf.
Print Assumptions path_in_range.
