(** (C17, concrete) the closures, [flatten_to] and the accumulation of the concrete array
    engine commute with the linear combination [acomb alpha beta]; hence a pass of the real
    engine is linear in its seed.

    The workhorse is [sliced_op_lin]: [sliced_op] runs the same control flow whatever the
    VALUES of its operands are (offsets and bounds depend on dimensions and lengths only),
    so three runs on [x], [y] and [acomb x y] proceed in lockstep. *)

From Coq Require Import List Arith Bool Lia PeanoNat Ring_theory Ring.
From Corgi Require Import Lib.OptionMonad Lib.Sums Model.Scalar Model.Arr Model.SlicedOp
     Model.Elementwise Model.Linalg Model.Image Model.Ops Model.Engine Model.Program
     Proofs.ArrFacts Proofs.EngineDefs Proofs.EngineBase Proofs.AdjointSpec Proofs.SweepFacts
     Proofs.OptimSpec.
Import ListNotations.

(** * Lists *)

Section Map2.
  Context {A : Type}.
  Variable f : A -> A -> A.

  Lemma map2_len : forall a b : list A, length (map2 f a b) = Nat.min (length a) (length b).
  Proof.
    induction a as [|x a IH]; intros [|y b]; simpl; try reflexivity. rewrite IH. reflexivity.
  Qed.

  Lemma map2_firstn : forall n (a b : list A),
      firstn n (map2 f a b) = map2 f (firstn n a) (firstn n b).
  Proof.
    induction n as [|n IH]; intros a b; [reflexivity |].
    destruct a as [|x a], b as [|y b]; simpl; try reflexivity.
    rewrite IH. reflexivity.
  Qed.

  Lemma map2_skipn : forall n (a b : list A),
      length a = length b -> skipn n (map2 f a b) = map2 f (skipn n a) (skipn n b).
  Proof.
    induction n as [|n IH]; intros [|x a] [|y b] H; simpl in *; try reflexivity; try discriminate H.
    apply IH. lia.
  Qed.

  Lemma map2_app : forall a1 a2 b1 b2 : list A,
      length a1 = length b1 -> map2 f (a1 ++ a2) (b1 ++ b2) = map2 f a1 b1 ++ map2 f a2 b2.
  Proof.
    induction a1 as [|x a1 IH]; intros a2 [|y b1] b2 H; simpl in *; try reflexivity;
      try discriminate H.
    rewrite IH by lia. reflexivity.
  Qed.

  Lemma map2_repeat : forall z n, map2 f (repeat z n) (repeat z n) = repeat (f z z) n.
  Proof. intros z n. induction n as [|n IH]; simpl; [reflexivity | rewrite IH; reflexivity]. Qed.

  Lemma map2_nth_error : forall (a b : list A) i,
      nth_error (map2 f a b) i =
      match nth_error a i, nth_error b i with
      | Some u, Some v => Some (f u v)
      | _, _ => None
      end.
  Proof.
    induction a as [|x a IH]; intros [|y b] [|i]; simpl; try reflexivity.
    - destruct (nth_error a i); reflexivity.
    - apply IH.
  Qed.

  Lemma map2_const : forall (u v : A) (a b : list A),
      map2 f (map (fun _ => u) a) (map (fun _ => v) b) = map (fun _ => f u v) (map2 f a b).
  Proof.
    intros u v. induction a as [|x a IH]; intros [|y b]; simpl; try reflexivity.
    rewrite IH. reflexivity.
  Qed.

  Lemma slice_map2 : forall off len (a b sa sb : list A),
      length a = length b ->
      slice off len a = Some sa -> slice off len b = Some sb ->
      slice off len (map2 f a b) = Some (map2 f sa sb) /\ length sa = length sb.
  Proof.
    intros off len a b sa sb Hl Ha Hb. unfold slice in *.
    rewrite map2_len, <- Hl, Nat.min_id.
    destruct (off + len <=? length a) eqn:Hle; [| discriminate Ha].
    rewrite <- Hl, Hle in Hb. injection Ha as Ha. injection Hb as Hb. subst sa sb.
    apply Nat.leb_le in Hle. split.
    - rewrite (map2_skipn off a b Hl), map2_firstn. reflexivity.
    - rewrite !firstn_length, !skipn_length. lia.
  Qed.

  Lemma splice_map2 : forall off (na nb a b : list A),
      length a = length b -> length na = length nb ->
      splice off (map2 f na nb) (map2 f a b) = map2 f (splice off na a) (splice off nb b).
  Proof.
    intros off na nb a b Hl Hn. unfold splice.
    rewrite map2_len, <- Hn, Nat.min_id.
    rewrite map2_firstn, (map2_skipn _ a b Hl).
    rewrite map2_app by (rewrite !firstn_length; lia).
    rewrite map2_app by exact Hn. reflexivity.
  Qed.

  Lemma splice_length : forall off (new l : list A), length (splice off new l)
      = Nat.min off (length l) + length new + (length l - (off + length new)).
  Proof.
    intros off new l. unfold splice. rewrite !app_length, firstn_length, skipn_length. lia.
  Qed.
End Map2.

(** three lists related position-wise *)
Inductive F3 {A} (R : A -> A -> A -> Prop) : list A -> list A -> list A -> Prop :=
| F3_nil : F3 R [] [] []
| F3_cons : forall a b c la lb lc, R a b c -> F3 R la lb lc -> F3 R (a :: la) (b :: lb) (c :: lc).

Section Linear.
  Context {F : Type} (O : ScalarOps F) (R : is_cring O).
  Variable alpha beta : F.

  Let Rth : ring_theory (f0 O) (f1 O) (fadd O) (fmul O) (fsub O) (fneg O) (@eq F) := R.
  Add Ring cring_lin : Rth.

  Local Notation "0" := (f0 O).
  Local Notation "x + y" := (fadd O x y).
  Local Notation "x * y" := (fmul O x y).

  (** the scalar combination *)
  Definition lc (u v : F) : F := alpha * u + beta * v.
  Definition lcomb (a b : list F) : list F := map2 lc a b.

  (** [alpha * x + beta * y], element by element *)
  Definition acomb (x y : arr F) : arr F := {| dims := dims x; vals := lcomb (vals x) (vals y) |}.

  (** equal dimensions and equally many values *)
  Definition ok (x y : arr F) : Prop := dims x = dims y /\ length (vals x) = length (vals y).

  Lemma lc_0 : lc 0 0 = 0.
  Proof. unfold lc. ring. Qed.

  Lemma lcomb_length : forall a b, length a = length b -> length (lcomb a b) = length a.
  Proof. intros a b H. unfold lcomb. rewrite map2_len, <- H. apply Nat.min_id. Qed.

  Lemma ok_acomb : forall x y, ok x y -> ok x (acomb x y).
  Proof. intros x y (Hd & Hl). split; [reflexivity |]. simpl. symmetry. apply lcomb_length. exact Hl. Qed.

  Lemma acomb_wf : forall x y, wf x -> ok x y -> wf (acomb x y).
  Proof.
    intros x y (H1 & H2) (Hd & Hl). split; simpl; [exact H1 |]. rewrite lcomb_length by exact Hl. exact H2.
  Qed.

  Lemma lcomb_map : forall (g : F -> F) a b,
      (forall u v, g (lc u v) = lc (g u) (g v)) -> map g (lcomb a b) = lcomb (map g a) (map g b).
  Proof.
    intros g a. unfold lcomb. induction a as [|x a IH]; intros [|y b] Hg; simpl; try reflexivity.
    rewrite Hg. f_equal. apply IH. exact Hg.
  Qed.

  Lemma vsum_lc : forall {A} (a b : A -> F) (l : list A),
      vsum O (map (fun j => lc (a j) (b j)) l) = lc (vsum O (map a l)) (vsum O (map b l)).
  Proof.
    intros A a b l. induction l as [|j l IH]; simpl map.
    - rewrite !(vsum_nil O). symmetry. apply lc_0.
    - rewrite !(vsum_cons O R), IH. unfold lc. ring.
  Qed.

  Lemma nth_lcomb : forall a b j, length a = length b -> j < length a ->
      nth j (lcomb a b) 0 = lc (nth j a 0) (nth j b 0).
  Proof.
    induction a as [|x a IH]; intros [|y b] j Hl Hj; simpl in *; try lia.
    destruct j as [|j]; [reflexivity |]. apply IH; lia.
  Qed.

  (** * [sliced_op] is linear in the operands that vary *)

  (** an operand is either the same in the three runs, or varies linearly *)
  Definition relA (m : bool) (a b c : arr F) : Prop :=
    if m then dims b = dims a /\ dims c = dims a /\ length (vals a) = length (vals b) /\
              vals c = lcomb (vals a) (vals b)
    else b = a /\ c = a.

  Definition relS (m : bool) (a b c : list F) : Prop :=
    if m then length a = length b /\ c = lcomb a b else b = a /\ c = a.

  Inductive F3m {A} (Rm : bool -> A -> A -> A -> Prop)
    : list bool -> list A -> list A -> list A -> Prop :=
  | F3m_nil : F3m Rm [] [] [] []
  | F3m_cons : forall m ms a b c la lb lc0,
      Rm m a b c -> F3m Rm ms la lb lc0 -> F3m Rm (m :: ms) (a :: la) (b :: lb) (c :: lc0).

  (** a slice operation that is linear in the current output slice and the varying inputs *)
  Definition sop_lin (ms : list bool) (op : @sop F) : Prop :=
    forall cx cy sx sy sz nx ny,
      length cx = length cy -> F3m relS ms sx sy sz ->
      op cx sx = Some nx -> op cy sy = Some ny ->
      op (lcomb cx cy) sz = Some (lcomb nx ny) /\ length nx = length ny.

  Lemma mapM_rel : forall (fs : arr F -> option (list F)) ms Ax Ay Az sx sy,
      (forall m a b c ra rb, relA m a b c -> fs a = Some ra -> fs b = Some rb ->
                             exists rc, fs c = Some rc /\ relS m ra rb rc) ->
      F3m relA ms Ax Ay Az ->
      mapM fs Ax = Some sx -> mapM fs Ay = Some sy ->
      exists sz, mapM fs Az = Some sz /\ F3m relS ms sx sy sz.
  Proof.
    intros fs ms Ax Ay Az sx sy Hfs HA. revert sx sy.
    induction HA as [|m ms a b c la lb lc0 Hr HA IH]; intros sx sy Hx Hy; simpl in *.
    - injection Hx as Hx. injection Hy as Hy. subst sx sy. exists []. split; [reflexivity | constructor].
    - apply obind_some in Hx. destruct Hx as (ra & Hra & Hx).
      apply obind_some in Hx. destruct Hx as (rx & Hrx & Hx). injection Hx as Hx. subst sx.
      apply obind_some in Hy. destruct Hy as (rb & Hrb & Hy).
      apply obind_some in Hy. destruct Hy as (ry & Hry & Hy). injection Hy as Hy. subst sy.
      destruct (Hfs m a b c ra rb Hr Hra Hrb) as (rc & Hrc & Hrel).
      destruct (IH rx ry Hrx Hry) as (rz & Hrz & Hrelz).
      exists (rc :: rz). rewrite Hrc. simpl. rewrite Hrz. simpl.
      split; [reflexivity | constructor; assumption].
  Qed.

  Lemma slice_rel : forall off g m a b c ra rb,
      relA m a b c ->
      slice off g (vals a) = Some ra -> slice off g (vals b) = Some rb ->
      exists rc, slice off g (vals c) = Some rc /\ relS m ra rb rc.
  Proof.
    intros off g m a b c ra rb Hr Ha Hb. destruct m; simpl in Hr |- *.
    - destruct Hr as (_ & _ & Hl & Hv). rewrite Hv.
      destruct (slice_map2 lc off g _ _ ra rb Hl Ha Hb) as (Hs & Hlen).
      exists (lcomb ra rb). split; [exact Hs |]. split; [exact Hlen | reflexivity].
    - destruct Hr as (Hb' & Hc'). subst b c. exists ra. split; [exact Ha |].
      split; [congruence | reflexivity].
  Qed.

  Lemma relA_dims : forall m a b c, relA m a b c -> dims b = dims a /\ dims c = dims a.
  Proof.
    intros m a b c H. destruct m; simpl in H.
    - tauto.
    - destruct H as (H1 & H2). subst b c. split; reflexivity.
  Qed.

  Lemma operand_slice_rel : forall k lcn idx m a b c ra rb,
      relA m a b c ->
      operand_slice k lcn idx a = Some ra -> operand_slice k lcn idx b = Some rb ->
      exists rc, operand_slice k lcn idx c = Some rc /\ relS m ra rb rc.
  Proof.
    intros k lcn idx m a b c ra rb Hr Ha Hb. unfold operand_slice, group_length in *.
    destruct (relA_dims m a b c Hr) as (Hdb & Hdc). rewrite Hdb in Hb. rewrite Hdc.
    eapply slice_rel; eassumption.
  Qed.

  Lemma sliced_loop_lin : forall op ms Ax Ay Az k lcn lead out_dims ogl,
      sop_lin ms op -> F3m relA ms Ax Ay Az ->
      forall n idx ox oy rx ry,
        length ox = length oy ->
        sliced_loop op Ax k lcn lead out_dims ogl n idx ox = Some rx ->
        sliced_loop op Ay k lcn lead out_dims ogl n idx oy = Some ry ->
        sliced_loop op Az k lcn lead out_dims ogl n idx (lcomb ox oy) = Some (lcomb rx ry) /\
        length rx = length ry.
  Proof.
    intros op ms Ax Ay Az k lcn lead out_dims ogl Hop HA.
    induction n as [|n IH]; intros idx ox oy rx ry Hl Hx Hy; simpl in *.
    - injection Hx as Hx. injection Hy as Hy. subst rx ry. split; [reflexivity | exact Hl].
    - apply obind_some in Hx. destruct Hx as (sx & Hsx & Hx).
      apply obind_some in Hx. destruct Hx as (cx & Hcx & Hx).
      apply obind_some in Hx. destruct Hx as (nx & Hnx & Hx).
      apply obind_some in Hx. destruct Hx as (ux & Hux & Hx).
      apply obind_some in Hy. destruct Hy as (sy & Hsy & Hy).
      apply obind_some in Hy. destruct Hy as (cy & Hcy & Hy).
      apply obind_some in Hy. destruct Hy as (ny & Hny & Hy).
      apply obind_some in Hy. destruct Hy as (uy & Huy & Hy).
      destruct (mapM_rel (operand_slice k lcn idx) ms Ax Ay Az sx sy) as (sz & Hsz & Hrel);
        try assumption.
      { intros m a b c ra rb. apply operand_slice_rel. }
      destruct (slice_map2 lc _ _ ox oy cx cy Hl Hcx Hcy) as (Hcz & Hlc).
      destruct (Hop cx cy sx sy sz nx ny Hlc Hrel Hnx Hny) as (Hnz & Hln).
      apply guard_some in Hux. apply Nat.eqb_eq in Hux.
      apply guard_some in Huy. apply Nat.eqb_eq in Huy.
      unfold lcomb in *.
      rewrite Hsz. cbn [obind]. rewrite Hcz. cbn [obind]. rewrite Hnz. cbn [obind].
      rewrite map2_len, <- Hln, Nat.min_id, Hux, Nat.eqb_refl. cbn [guard obind].
      rewrite (splice_map2 lc _ nx ny ox oy Hl Hln).
      apply (IH _ _ _ rx ry); [| exact Hx | exact Hy].
      rewrite !splice_length. lia.
  Qed.

  Lemma forallb_valid_rel : forall ms Ax Ay Az k in_dims,
      F3m relA ms Ax Ay Az ->
      forallb (sliced_valid k in_dims) Az = forallb (sliced_valid k in_dims) Ax.
  Proof.
    intros ms Ax Ay Az k in_dims HA. induction HA as [|m ms a b c la lb lc0 Hr HA IH]; simpl.
    - reflexivity.
    - rewrite IH. f_equal. unfold sliced_valid.
      destruct (relA_dims m a b c Hr) as (_ & Hdc). rewrite Hdc. reflexivity.
  Qed.

  (** the main lemma: the run on the combined operands is the combination of the runs *)
  Theorem sliced_op_lin : forall op ms Ax Ay Az in_dims out_dims k fl rx ry,
      sop_lin ms op -> F3m relA ms Ax Ay Az ->
      sliced_op O Ax op in_dims out_dims k fl = Some rx ->
      sliced_op O Ay op in_dims out_dims k fl = Some ry ->
      sliced_op O Az op in_dims out_dims k fl = Some (acomb rx ry) /\ ok rx ry.
  Proof.
    intros op ms Ax Ay Az in_dims out_dims k fl rx ry Hop HA Hx Hy.
    unfold sliced_op in *. cbv zeta in *.
    rewrite (forallb_valid_rel ms Ax Ay Az k in_dims HA).
    apply obind_some in Hx. destruct Hx as (ux & Hux & Hx).
    apply obind_some in Hx. destruct Hx as (ox & Hox & Hx).
    apply obind_some in Hx. destruct Hx as (dx & Hdx & Hx).
    apply obind_some in Hy. destruct Hy as (uy & Huy & Hy).
    apply obind_some in Hy. destruct Hy as (oy & Hoy & Hy).
    apply obind_some in Hy. destruct Hy as (dy & Hdy & Hy).
    assert (Hdd : dy = dx) by congruence. subst dy.
    rewrite Hux. cbn [obind].
    set (out0 := repeat 0 (prod out_dims)) in *.
    assert (H00 : lcomb out0 out0 = out0).
    { unfold out0, lcomb. rewrite map2_repeat, lc_0. reflexivity. }
    assert (Hout : exists oz, (if length in_dims - k =? 0%nat
                    then slices <- mapM (fun a => slice 0%nat (group_length k a) (vals a)) Az ;;
                         cur <- slice 0%nat (prod (skipn (length in_dims - k) out_dims)) out0 ;;
                         new <- op cur slices ;;
                         check (length new =? prod (skipn (length in_dims - k) out_dims)) ;;
                         Some (splice 0%nat new out0)
                    else sliced_loop op Az k (length in_dims - k)
                                     (firstn (length in_dims - k) in_dims) out_dims
                                     (prod (skipn (length in_dims - k) out_dims))
                                     (prod (firstn (length in_dims - k) in_dims))
                                     (repeat 0%nat (length in_dims - k)) out0) = Some oz /\
                   oz = lcomb ox oy /\ length ox = length oy).
    { destruct (length in_dims - k =? 0%nat).
      - apply obind_some in Hox. destruct Hox as (sx & Hsx & Hox).
        apply obind_some in Hox. destruct Hox as (cx & Hcx & Hox).
        apply obind_some in Hox. destruct Hox as (nx & Hnx & Hox).
        apply obind_some in Hox. destruct Hox as (vx & Hvx & Hox). injection Hox as Hox. subst ox.
        apply obind_some in Hoy. destruct Hoy as (sy & Hsy & Hoy).
        apply obind_some in Hoy. destruct Hoy as (cy & Hcy & Hoy).
        apply obind_some in Hoy. destruct Hoy as (ny & Hny & Hoy).
        apply obind_some in Hoy. destruct Hoy as (vy & Hvy & Hoy). injection Hoy as Hoy. subst oy.
        destruct (mapM_rel (fun a => slice 0%nat (group_length k a) (vals a)) ms Ax Ay Az sx sy)
          as (sz & Hsz & Hrel); try assumption.
        { intros m a b c ra rb Hr Ha Hb. unfold group_length in *.
          destruct (relA_dims m a b c Hr) as (Hdb & Hdc). rewrite Hdb in Hb. rewrite Hdc.
          eapply slice_rel; eassumption. }
        assert (Hcc : cy = cx) by congruence. subst cy.
        destruct (Hop cx cx sx sy sz nx ny eq_refl Hrel Hnx Hny) as (Hnz & Hln).
        apply guard_some in Hvx. apply Nat.eqb_eq in Hvx.
        rewrite Hsz. cbn [obind]. rewrite Hcx. cbn [obind].
        assert (Hcxx : lcomb cx cx = cx).
        { destruct (slice_map2 lc _ _ out0 out0 cx cx eq_refl Hcx Hcx) as (Hcz & _).
          fold (lcomb out0 out0) in Hcz. fold (lcomb cx cx) in Hcz. rewrite H00, Hcx in Hcz.
          injection Hcz as Hcz. symmetry. exact Hcz. }
        rewrite Hcxx in Hnz. rewrite Hnz. cbn [obind].
        rewrite (lcomb_length nx ny Hln), Hvx, Nat.eqb_refl. cbn [guard obind].
        eexists. split; [reflexivity |].
        split.
        + rewrite <- H00 at 1. unfold lcomb. apply (splice_map2 lc 0%nat nx ny out0 out0 eq_refl Hln).
        + rewrite !splice_length. lia.
      - destruct (sliced_loop_lin op ms Ax Ay Az k _ _ out_dims _ Hop HA _ _ out0 out0 ox oy
                                  eq_refl Hox Hoy) as (Hz & Hl).
        rewrite H00 in Hz. eexists. split; [exact Hz |]. split; [reflexivity | exact Hl]. }
    destruct Hout as (oz & Hoz & Hozv & Hlo). rewrite Hoz. cbn [obind]. rewrite Hdx. cbn [obind].
    unfold mk in *.
    apply obind_some in Hx. destruct Hx as (v1 & Hv1 & Hx).
    apply obind_some in Hx. destruct Hx as (v2 & Hv2 & Hx). injection Hx as Hx. subst rx.
    apply obind_some in Hy. destruct Hy as (w1 & Hw1 & Hy).
    apply obind_some in Hy. destruct Hy as (w2 & Hw2 & Hy). injection Hy as Hy. subst ry.
    rewrite Hv1. cbn [obind]. subst oz. rewrite (lcomb_length ox oy Hlo), Hv2. cbn [obind].
    split; [reflexivity |]. split; [reflexivity | exact Hlo].
  Qed.

  (** * The slice operations of the engine are linear *)

  Lemma lc_add : forall u v a b, lc u v + lc a b = lc (u + a) (v + b).
  Proof. intros. unfold lc. ring. Qed.

  Lemma F3m_1 : forall m (sx sy sz : list (list F)),
      F3m relS [m] sx sy sz -> exists a b c, sx = [a] /\ sy = [b] /\ sz = [c] /\ relS m a b c.
  Proof.
    intros m sx sy sz H. inversion H as [|m' ms a b c la lb lc0 Hr Ht]. subst.
    inversion Ht. subst. exists a, b, c. repeat split. exact Hr.
  Qed.

  Lemma F3m_2 : forall m1 m2 (sx sy sz : list (list F)),
      F3m relS [m1; m2] sx sy sz ->
      exists a1 b1 c1 a2 b2 c2, sx = [a1; a2] /\ sy = [b1; b2] /\ sz = [c1; c2] /\
                                relS m1 a1 b1 c1 /\ relS m2 a2 b2 c2.
  Proof.
    intros m1 m2 sx sy sz H. inversion H as [|m' ms a b c la lb lc0 Hr Ht]. subst.
    apply F3m_1 in Ht. destruct Ht as (a2 & b2 & c2 & -> & -> & -> & Hr2).
    exists a, b, c, a2, b2, c2. repeat split; assumption.
  Qed.

  Lemma map_combine_lcomb : forall (hx hy hz : nat -> F),
      (forall i, hz i = lc (hx i) (hy i)) ->
      forall cx cy st, length cx = length cy ->
        map (fun p : nat * F => snd p + hz (fst p)) (combine (seq st (length cx)) (lcomb cx cy))
        = lcomb (map (fun p : nat * F => snd p + hx (fst p)) (combine (seq st (length cx)) cx))
                (map (fun p : nat * F => snd p + hy (fst p)) (combine (seq st (length cy)) cy)).
  Proof.
    intros hx hy hz Hh. unfold lcomb.
    induction cx as [|u cx IH]; intros [|v cy] st Hl; simpl in *; try reflexivity; try discriminate Hl.
    rewrite Hh, lc_add. f_equal. apply IH. lia.
  Qed.

  Lemma strided_lcomb : forall i stride sx sy,
      length sx = length sy ->
      vsum O (strided O i stride (lcomb sx sy))
      = lc (vsum O (strided O i stride sx)) (vsum O (strided O i stride sy)).
  Proof.
    intros i stride sx sy Hl. unfold strided.
    rewrite (lcomb_length sx sy Hl), <- Hl.
    set (L := filter (fun j => (i <=? j) && ((j - i) mod stride =? 0)) (seq 0 (length sx))).
    rewrite <- (vsum_lc (fun j => nth j sx 0) (fun j => nth j sy 0) L).
    f_equal. apply map_ext_in. intros j Hj. unfold L in Hj. apply filter_In in Hj.
    destruct Hj as (Hj & _). apply in_seq in Hj. apply nth_lcomb; [exact Hl | lia].
  Qed.

  Lemma flatten_sop_lin : sop_lin [true] (flatten_sop O).
  Proof.
    intros cx cy sx sy sz nx ny Hl Hrel Hx Hy.
    apply F3m_1 in Hrel. destruct Hrel as (a & b & c & -> & -> & -> & (Hab & ->)).
    unfold flatten_sop in *. injection Hx as Hx. injection Hy as Hy. subst nx ny.
    split.
    - f_equal. rewrite (lcomb_length cx cy Hl).
      rewrite (map_combine_lcomb (fun i => vsum O (strided O i (length cx) a))
                                 (fun i => vsum O (strided O i (length cx) b))
                                 (fun i => vsum O (strided O i (length cx) (lcomb a b))));
        [| intro i; apply strided_lcomb; exact Hab | exact Hl].
      rewrite <- Hl. reflexivity.
    - rewrite !map_length, !combine_length, !seq_length. lia.
  Qed.

  Lemma mapM_lin : forall (fx fy fz : nat -> option F) l nx ny,
      (forall i u v, fx i = Some u -> fy i = Some v -> fz i = Some (lc u v)) ->
      mapM fx l = Some nx -> mapM fy l = Some ny ->
      mapM fz l = Some (lcomb nx ny) /\ length nx = length ny.
  Proof.
    intros fx fy fz l. induction l as [|i l IH]; intros nx ny Hf Hx Hy; simpl in *.
    - injection Hx as Hx. injection Hy as Hy. subst nx ny. split; reflexivity.
    - apply obind_some in Hx. destruct Hx as (u & Hu & Hx).
      apply obind_some in Hx. destruct Hx as (rx & Hrx & Hx). injection Hx as Hx. subst nx.
      apply obind_some in Hy. destruct Hy as (v & Hv & Hy).
      apply obind_some in Hy. destruct Hy as (ry & Hry & Hy). injection Hy as Hy. subst ny.
      destruct (IH rx ry Hf Hrx Hry) as (Hz & Hlen).
      rewrite (Hf i u v Hu Hv). simpl. rewrite Hz. simpl. split; [reflexivity | lia].
  Qed.

  (** an element-wise operation is linear in the operand it is linear in *)
  Lemma ew_sop_lin_r : forall (f : F -> F -> F) la lb,
      (forall u v w, f u (lc v w) = lc (f u v) (f u w)) -> sop_lin [false; true] (ew_sop f la lb).
  Proof.
    intros f la lb Hf cx cy sx sy sz nx ny Hl Hrel Hx Hy.
    apply F3m_2 in Hrel.
    destruct Hrel as (a1 & b1 & c1 & a2 & b2 & c2 & -> & -> & -> & (-> & ->) & (Hab & ->)).
    unfold ew_sop in *. rewrite (lcomb_length cx cy Hl). rewrite <- Hl in Hy.
    apply (mapM_lin _ _ _ _ nx ny) with (2 := Hx) (3 := Hy).
    intros i u v Hu Hv.
    apply obind_some in Hu. destruct Hu as (x0 & Hx0 & Hu).
    apply obind_some in Hu. destruct Hu as (y0 & Hy0 & Hu). injection Hu as Hu. subst u.
    apply obind_some in Hv. destruct Hv as (x1 & Hx1 & Hv).
    apply obind_some in Hv. destruct Hv as (y1 & Hy1 & Hv). injection Hv as Hv. subst v.
    assert (x1 = x0) by congruence. subst x1.
    rewrite Hx0. simpl. unfold lcomb. rewrite map2_nth_error, Hy0, Hy1. simpl.
    rewrite Hf. reflexivity.
  Qed.

  Lemma ew_sop_lin_l : forall (f : F -> F -> F) la lb,
      (forall u v w, f (lc v w) u = lc (f v u) (f w u)) -> sop_lin [true; false] (ew_sop f la lb).
  Proof.
    intros f la lb Hf cx cy sx sy sz nx ny Hl Hrel Hx Hy.
    apply F3m_2 in Hrel.
    destruct Hrel as (a1 & b1 & c1 & a2 & b2 & c2 & -> & -> & -> & (Hab & ->) & (-> & ->)).
    unfold ew_sop in *. rewrite (lcomb_length cx cy Hl). rewrite <- Hl in Hy.
    apply (mapM_lin _ _ _ _ nx ny) with (2 := Hx) (3 := Hy).
    intros i u v Hu Hv.
    apply obind_some in Hu. destruct Hu as (x0 & Hx0 & Hu).
    apply obind_some in Hu. destruct Hu as (y0 & Hy0 & Hu). injection Hu as Hu. subst u.
    apply obind_some in Hv. destruct Hv as (x1 & Hx1 & Hv).
    apply obind_some in Hv. destruct Hv as (y1 & Hy1 & Hv). injection Hv as Hv. subst v.
    assert (y1 = y0) by congruence. subst y1.
    unfold lcomb. rewrite map2_nth_error, Hx0, Hx1. simpl. rewrite Hy0. simpl.
    rewrite Hf. reflexivity.
  Qed.

  Lemma fill_sop_lin : sop_lin [true] (fill_sop (F:=F)).
  Proof.
    intros cx cy sx sy sz nx ny Hl Hrel Hx Hy.
    apply F3m_1 in Hrel. destruct Hrel as (a & b & c & -> & -> & -> & (Hab & ->)).
    unfold fill_sop in *.
    apply obind_some in Hx. destruct Hx as (u & Hu & Hx). injection Hx as Hx. subst nx.
    apply obind_some in Hy. destruct Hy as (v & Hv & Hy). injection Hy as Hy. subst ny.
    unfold lcomb. rewrite map2_nth_error, Hu, Hv. simpl. rewrite map2_const.
    split; [reflexivity |]. rewrite !map_length. exact Hl.
  Qed.

  (** * Array operations *)

  Lemma ok_sym : forall x y, ok x y -> ok y x.
  Proof. intros x y (H1 & H2). split; symmetry; assumption. Qed.

  Lemma relA_var : forall x y, ok x y -> relA true x y (acomb x y).
  Proof. intros x y (Hd & Hl). simpl. repeat split; [symmetry; exact Hd | exact Hl]. Qed.

  Lemma relA_fix : forall c, relA false c c c.
  Proof. intro c. split; reflexivity. Qed.

  Lemma mk_lin : forall d vx vy dx dy,
      length vx = length vy -> mk d vx = Some dx -> mk d vy = Some dy ->
      mk d (lcomb vx vy) = Some (acomb dx dy) /\ ok dx dy.
  Proof.
    intros d vx vy dx dy Hl Hx Hy. unfold mk in *.
    apply obind_some in Hx. destruct Hx as (u1 & Hu1 & Hx).
    apply obind_some in Hx. destruct Hx as (u2 & Hu2 & Hx). injection Hx as Hx. subst dx.
    apply obind_some in Hy. destruct Hy as (w1 & Hw1 & Hy).
    apply obind_some in Hy. destruct Hy as (w2 & Hw2 & Hy). injection Hy as Hy. subst dy.
    rewrite Hu1. cbn [obind]. rewrite (lcomb_length vx vy Hl), Hu2. cbn [obind].
    split; [reflexivity |]. split; [reflexivity | exact Hl].
  Qed.

  Lemma map_arr_lin : forall (g : F -> F) x y dx dy,
      (forall u v, g (lc u v) = lc (g u) (g v)) -> ok x y ->
      map_arr g x = Some dx -> map_arr g y = Some dy ->
      map_arr g (acomb x y) = Some (acomb dx dy) /\ ok dx dy.
  Proof.
    intros g x y dx dy Hg (Hd & Hl) Hx Hy. unfold map_arr in *. cbn [dims vals acomb].
    rewrite (lcomb_map g _ _ Hg). rewrite <- Hd in Hy.
    apply (mk_lin _ _ _ dx dy); [rewrite !map_length; exact Hl | exact Hx | exact Hy].
  Qed.

  Lemma ew_lin_r : forall (f : F -> F -> F) c x y dx dy,
      (forall u v w, f u (lc v w) = lc (f u v) (f u w)) -> ok x y ->
      element_wise_op O f c x = Some dx -> element_wise_op O f c y = Some dy ->
      element_wise_op O f c (acomb x y) = Some (acomb dx dy) /\ ok dx dy.
  Proof.
    intros f c x y dx dy Hf Hok Hx Hy. pose proof Hok as (Hd & Hl).
    unfold element_wise_op in *. cbn [dims acomb]. rewrite <- Hd in Hy.
    apply obind_some in Hx. destruct Hx as (d & Hdd & Hx).
    apply obind_some in Hx. destruct Hx as (la & Hla & Hx).
    apply obind_some in Hx. destruct Hx as (lb & Hlb & Hx).
    rewrite Hdd, Hla, Hlb in Hy |- *. cbn [obind] in Hy |- *.
    apply (sliced_op_lin (ew_sop f la lb) [false; true] [c; x] [c; y] [c; acomb x y]);
      [apply ew_sop_lin_r; exact Hf | | exact Hx | exact Hy].
    constructor; [apply relA_fix |]. constructor; [apply relA_var; exact Hok | constructor].
  Qed.

  Lemma ew_lin_l : forall (f : F -> F -> F) c x y dx dy,
      (forall u v w, f (lc v w) u = lc (f v u) (f w u)) -> ok x y ->
      element_wise_op O f x c = Some dx -> element_wise_op O f y c = Some dy ->
      element_wise_op O f (acomb x y) c = Some (acomb dx dy) /\ ok dx dy.
  Proof.
    intros f c x y dx dy Hf Hok Hx Hy. pose proof Hok as (Hd & Hl).
    unfold element_wise_op in *. cbn [dims acomb]. rewrite <- Hd in Hy.
    apply obind_some in Hx. destruct Hx as (d & Hdd & Hx).
    apply obind_some in Hx. destruct Hx as (la & Hla & Hx).
    apply obind_some in Hx. destruct Hx as (lb & Hlb & Hx).
    rewrite Hdd, Hla, Hlb in Hy |- *. cbn [obind] in Hy |- *.
    apply (sliced_op_lin (ew_sop f la lb) [true; false] [x; c] [y; c] [acomb x y; c]);
      [apply ew_sop_lin_l; exact Hf | | exact Hx | exact Hy].
    constructor; [apply relA_var; exact Hok |]. constructor; [apply relA_fix | constructor].
  Qed.

  Lemma mul_lin_r : forall u v w, u * lc v w = lc (u * v) (u * w).
  Proof. intros. unfold lc. ring. Qed.
  Lemma mul_lin_l : forall u v w, lc v w * u = lc (v * u) (w * u).
  Proof. intros. unfold lc. ring. Qed.

  Lemma a_mul_lin_r : forall c x y dx dy, ok x y ->
      a_mul O c x = Some dx -> a_mul O c y = Some dy ->
      a_mul O c (acomb x y) = Some (acomb dx dy) /\ ok dx dy.
  Proof. intros c x y dx dy. apply ew_lin_r. exact mul_lin_r. Qed.

  Lemma a_mul_lin_l : forall c x y dx dy, ok x y ->
      a_mul O x c = Some dx -> a_mul O y c = Some dy ->
      a_mul O (acomb x y) c = Some (acomb dx dy) /\ ok dx dy.
  Proof. intros c x y dx dy. apply ew_lin_l. exact mul_lin_l. Qed.

  Lemma a_scale_lin : forall s x y dx dy, ok x y ->
      a_scale O s x = Some dx -> a_scale O s y = Some dy ->
      a_scale O s (acomb x y) = Some (acomb dx dy) /\ ok dx dy.
  Proof. intros s x y dx dy. apply map_arr_lin. intros u v. apply mul_lin_l. Qed.

  Lemma a_neg_lin : forall x y dx dy, ok x y ->
      a_neg O x = Some dx -> a_neg O y = Some dy ->
      a_neg O (acomb x y) = Some (acomb dx dy) /\ ok dx dy.
  Proof. intros x y dx dy. apply a_scale_lin. Qed.

  Lemma a_reshape_lin : forall d x y dx dy, ok x y ->
      a_reshape d x = Some dx -> a_reshape d y = Some dy ->
      a_reshape d (acomb x y) = Some (acomb dx dy) /\ ok dx dy.
  Proof. intros d x y dx dy (_ & Hl). unfold a_reshape. cbn [vals acomb]. apply mk_lin. exact Hl. Qed.

  (** [flatten_to] commutes with the combination *)
  Theorem flatten_to_lin : forall x y t x' y', ok x y ->
      flatten_to O x t = Some x' -> flatten_to O y t = Some y' ->
      flatten_to O (acomb x y) t = Some (acomb x' y') /\ ok x' y'.
  Proof.
    intros x y t x' y' Hok Hx Hy. pose proof Hok as (Hd & Hl).
    unfold flatten_to in *. cbn [dims acomb]. rewrite <- Hd in Hy.
    destruct (dims_eqb (dims x) t).
    - injection Hx as Hx. injection Hy as Hy. subst x' y'. split; [reflexivity | exact Hok].
    - apply obind_some in Hx. destruct Hx as (fx & Hfx & Hx).
      apply obind_some in Hy. destruct Hy as (fy & Hfy & Hy).
      assert (Hfl : (if length (dims x) - length t =? 0%nat then Some (acomb x y)
                     else sliced_op O [acomb x y] (flatten_sop O) (dims x)
                                    (skipn (length (dims x) - length t) (dims x))
                                    (length (dims x)) 0) = Some (acomb fx fy) /\ ok fx fy).
      { destruct (length (dims x) - length t =? 0%nat).
        - injection Hfx as Hfx. injection Hfy as Hfy. subst fx fy. split; [reflexivity | exact Hok].
        - apply (sliced_op_lin (flatten_sop O) [true] [x] [y] [acomb x y]);
            [exact flatten_sop_lin | | exact Hfx | exact Hfy].
          constructor; [apply relA_var; exact Hok | constructor]. }
      destruct Hfl as (Hfz & Hokf). rewrite Hfz. cbn [obind dims acomb].
      pose proof Hokf as (Hdf & _). rewrite <- Hdf in Hy.
      destruct (dims_eqb (dims fx) t).
      + injection Hx as Hx. injection Hy as Hy. subst x' y'. split; [reflexivity | exact Hokf].
      + apply (sliced_op_lin (flatten_sop O) [true] [fx] [fy] [acomb fx fy]);
          [exact flatten_sop_lin | | exact Hx | exact Hy].
        constructor; [apply relA_var; exact Hokf | constructor].
  Qed.

  (** * The closures are linear in the output adjoint *)

  Ltac inv_ob H x Hx := apply obind_some in H; destruct H as (x & Hx & H).

  Local Notation comb_opt := (comb_opt acomb).
  Local Notation map2o := (map2o acomb).

  (** slot lists that are position-wise [ok] *)
  Definition OKL (lx ly : list (option (arr F))) : Prop :=
    forall i a b, nth_error lx i = Some (Some a) -> nth_error ly i = Some (Some b) -> ok a b.

  Definition bop_linear (code : bop_code F) : Prop :=
    forall cs t x y dx dy,
      ok x y -> run_bop O code cs t x = Some dx -> run_bop O code cs t y = Some dy ->
      run_bop O code cs t (acomb x y) = Some (map2o dx dy) /\ OKL dx dy.

  Definition OKO (ox oy : option (arr F)) : Prop :=
    forall a b, ox = Some a -> oy = Some b -> ok a b.

  Lemma OKL_1 : forall a b, OKO a b -> OKL [a] [b].
  Proof.
    intros a b H i u v Hu Hv. destruct i as [|[|i]]; simpl in *; try discriminate Hu.
    injection Hu as Hu. injection Hv as Hv. apply (H u v Hu Hv).
  Qed.

  Lemma OKL_2 : forall a1 a2 b1 b2, OKO a1 b1 -> OKO a2 b2 -> OKL [a1; a2] [b1; b2].
  Proof.
    intros a1 a2 b1 b2 H1 H2 i u v Hu Hv. destruct i as [|[|[|i]]]; simpl in *; try discriminate Hu.
    - injection Hu as Hu. injection Hv as Hv. apply (H1 u v Hu Hv).
    - injection Hu as Hu. injection Hv as Hv. apply (H2 u v Hu Hv).
  Qed.

  Lemma OKL_3 : forall a1 a2 a3 b1 b2 b3,
      OKO a1 b1 -> OKO a2 b2 -> OKO a3 b3 -> OKL [a1; a2; a3] [b1; b2; b3].
  Proof.
    intros a1 a2 a3 b1 b2 b3 H1 H2 H3 i u v Hu Hv.
    destruct i as [|[|[|[|i]]]]; simpl in *; try discriminate Hu.
    - injection Hu as Hu. injection Hv as Hv. apply (H1 u v Hu Hv).
    - injection Hu as Hu. injection Hv as Hv. apply (H2 u v Hu Hv).
    - injection Hu as Hu. injection Hv as Hv. apply (H3 u v Hu Hv).
  Qed.

  Lemma OKO_some : forall a b, ok a b -> OKO (Some a) (Some b).
  Proof. intros a b H u v Hu Hv. injection Hu as Hu. injection Hv as Hv. subst. exact H. Qed.

  Lemma when_lin : forall b (fx fy fz : option (arr F)) dx dy,
      (forall u v, fx = Some u -> fy = Some v -> fz = Some (acomb u v) /\ ok u v) ->
      when b fx = Some dx -> when b fy = Some dy ->
      when b fz = Some (comb_opt dx dy) /\ OKO dx dy.
  Proof.
    intros b fx fy fz dx dy H Hx Hy. unfold when in *. destruct b.
    - apply obind_some in Hx. destruct Hx as (u & Hu & Hx). injection Hx as Hx. subst dx.
      apply obind_some in Hy. destruct Hy as (v & Hv & Hy). injection Hy as Hy. subst dy.
      destruct (H u v Hu Hv) as (Hz & Hok). rewrite Hz. simpl.
      split; [reflexivity | apply OKO_some; exact Hok].
    - injection Hx as Hx. injection Hy as Hy. subst dx dy. split; [reflexivity |].
      intros u v Hu. discriminate Hu.
  Qed.

  Lemma if_lin : forall (b : bool) x y, ok x y ->
      (if b then Some (acomb x y) else None)
      = comb_opt (if b then Some x else None) (if b then Some y else None) /\
      OKO (if b then Some x else None) (if b then Some y else None).
  Proof.
    intros b x y Hok. destruct b; simpl.
    - split; [reflexivity | apply OKO_some; exact Hok].
    - split; [reflexivity |]. intros u v Hu. discriminate Hu.
  Qed.

  Lemma mul_values_lin_l : forall vx vy c, length vx = length vy ->
      mul_values O (lcomb vx vy) c = lcomb (mul_values O vx c) (mul_values O vy c).
  Proof.
    unfold mul_values, lcomb.
    induction vx as [|u vx IH]; intros [|v vy] [|w c] Hl; simpl in *; try reflexivity;
      try discriminate Hl.
    rewrite mul_lin_l. f_equal. apply IH. lia.
  Qed.

  Lemma mul_values_lin_r : forall c vx vy, length vx = length vy ->
      mul_values O c (lcomb vx vy) = lcomb (mul_values O c vx) (mul_values O c vy).
  Proof.
    unfold mul_values, lcomb.
    induction c as [|w c IH]; intros [|u vx] [|v vy] Hl; simpl in *; try reflexivity;
      try discriminate Hl.
    rewrite mul_lin_r. f_equal. apply IH. lia.
  Qed.

  Lemma mul_values_len : forall a b : list F, length (mul_values O a b) = Nat.min (length a) (length b).
  Proof. intros a b. unfold mul_values. rewrite map_length, combine_length. reflexivity. Qed.

  Lemma zip_mul_lin_r : forall c x y dx dy, ok x y ->
      zip_vals (fmul O) c x = Some dx -> zip_vals (fmul O) c y = Some dy ->
      zip_vals (fmul O) c (acomb x y) = Some (acomb dx dy) /\ ok dx dy.
  Proof.
    intros c x y dx dy (Hd & Hl) Hx Hy. unfold zip_vals in *. cbn [vals acomb].
    change (map (fun p : F * F => fst p * snd p) (combine (vals c) (lcomb (vals x) (vals y))))
      with (mul_values O (vals c) (lcomb (vals x) (vals y))).
    rewrite (mul_values_lin_r _ _ _ Hl).
    apply (mk_lin _ _ _ dx dy); [| exact Hx | exact Hy].
    rewrite !mul_values_len, Hl. reflexivity.
  Qed.


  Lemma lin_BAdd : bop_linear BAdd.
  Proof.
    intros cs t x y dx dy Hok Hx Hy.
    destruct cs as [|c0 [|c1 [|c2 cs]]]; cbn [run_bop] in *; try discriminate Hx.
    injection Hx as Hx. injection Hy as Hy. subst dx dy.
    destruct (if_lin (flag t 0) x y Hok) as (E0 & K0).
    destruct (if_lin (flag t 1) x y Hok) as (E1 & K1).
    rewrite E0, E1. split; [reflexivity | apply OKL_2; assumption].
  Qed.

  Lemma lin_BMul : bop_linear BMul.
  Proof.
    intros cs t x y dx dy Hok Hx Hy.
    destruct cs as [|c0 [|c1 [|c2 cs]]]; cbn [run_bop] in *; try discriminate Hx.
    inv_ob Hx d0x H0x. inv_ob Hx d1x H1x. injection Hx as Hx. subst dx.
    inv_ob Hy d0y H0y. inv_ob Hy d1y H1y. injection Hy as Hy. subst dy.
    destruct (when_lin _ _ _ (a_mul O c1 (acomb x y)) _ _
                       (fun u v Hu Hv => a_mul_lin_r c1 x y u v Hok Hu Hv) H0x H0y) as (E0 & K0).
    destruct (when_lin _ _ _ (a_mul O c0 (acomb x y)) _ _
                       (fun u v Hu Hv => a_mul_lin_r c0 x y u v Hok Hu Hv) H1x H1y) as (E1 & K1).
    rewrite E0. cbn [obind]. rewrite E1. cbn [obind].
    split; [reflexivity | apply OKL_2; assumption].
  Qed.

  Lemma lin_BNeg : bop_linear BNeg.
  Proof.
    intros cs t x y dx dy Hok Hx Hy.
    destruct cs as [|c0 [|c1 cs]]; cbn [run_bop] in *; try discriminate Hx.
    inv_ob Hx rx Hrx. injection Hx as Hx. subst dx.
    inv_ob Hy ry Hry. injection Hy as Hy. subst dy.
    destruct (a_neg_lin x y rx ry Hok Hrx Hry) as (Hz & Hk). rewrite Hz. cbn [obind].
    split; [reflexivity | apply OKL_1; apply OKO_some; exact Hk].
  Qed.

  Lemma lin_BScale : forall s, bop_linear (BScale s).
  Proof.
    intros s cs t x y dx dy Hok Hx Hy.
    destruct cs as [|c0 [|c1 cs]]; cbn [run_bop] in *; try discriminate Hx.
    inv_ob Hx rx Hrx. injection Hx as Hx. subst dx.
    inv_ob Hy ry Hry. injection Hy as Hy. subst dy.
    destruct (a_scale_lin s x y rx ry Hok Hrx Hry) as (Hz & Hk). rewrite Hz. cbn [obind].
    split; [reflexivity | apply OKL_1; apply OKO_some; exact Hk].
  Qed.

  Lemma lin_BRecip : bop_linear BRecip.
  Proof.
    intros cs t x y dx dy Hok Hx Hy.
    destruct cs as [|c0 [|c1 cs]]; cbn [run_bop] in *; try discriminate Hx.
    inv_ob Hx r Hr. inv_ob Hx p Hp. inv_ob Hx n Hn. inv_ob Hx rx Hrx. injection Hx as Hx. subst dx.
    rewrite Hr in Hy |- *. cbn [obind] in Hy |- *. rewrite Hp in Hy |- *. cbn [obind] in Hy |- *.
    rewrite Hn in Hy |- *. cbn [obind] in Hy |- *.
    inv_ob Hy ry Hry. injection Hy as Hy. subst dy.
    destruct (a_mul_lin_r n x y rx ry Hok Hrx Hry) as (Hz & Hk). rewrite Hz. cbn [obind].
    split; [reflexivity | apply OKL_1; apply OKO_some; exact Hk].
  Qed.

  Lemma lin_BPowf : forall e, bop_linear (BPowf e).
  Proof.
    intros e cs t x y dx dy Hok Hx Hy.
    destruct cs as [|c0 [|c1 cs]]; cbn [run_bop] in *; try discriminate Hx.
    inv_ob Hx p Hp. inv_ob Hx s Hs. inv_ob Hx rx Hrx. injection Hx as Hx. subst dx.
    rewrite Hp in Hy |- *. cbn [obind] in Hy |- *. rewrite Hs in Hy |- *. cbn [obind] in Hy |- *.
    inv_ob Hy ry Hry. injection Hy as Hy. subst dy.
    destruct (a_mul_lin_r s x y rx ry Hok Hrx Hry) as (Hz & Hk). rewrite Hz. cbn [obind].
    split; [reflexivity | apply OKL_1; apply OKO_some; exact Hk].
  Qed.

  Lemma lin_BLn : bop_linear BLn.
  Proof.
    intros cs t x y dx dy Hok Hx Hy.
    destruct cs as [|c0 [|c1 cs]]; cbn [run_bop] in *; try discriminate Hx.
    inv_ob Hx r Hr. inv_ob Hx rx Hrx. injection Hx as Hx. subst dx.
    rewrite Hr in Hy |- *. cbn [obind] in Hy |- *.
    inv_ob Hy ry Hry. injection Hy as Hy. subst dy.
    destruct (a_mul_lin_l r x y rx ry Hok Hrx Hry) as (Hz & Hk). rewrite Hz. cbn [obind].
    split; [reflexivity | apply OKL_1; apply OKO_some; exact Hk].
  Qed.

  Lemma lin_BExp : forall cached, bop_linear (BExp cached).
  Proof.
    intros cached cs t x y dx dy Hok Hx Hy. pose proof Hok as (Hd & Hl).
    destruct cs as [|c0 [|c1 cs]]; cbn [run_bop] in *; try discriminate Hx.
    inv_ob Hx rx Hrx. injection Hx as Hx. subst dx.
    inv_ob Hy ry Hry. injection Hy as Hy. subst dy.
    cbn [vals acomb]. rewrite (mul_values_lin_l _ _ cached Hl).
    destruct (mk_lin (dims c0) (mul_values O (vals x) cached) (mul_values O (vals y) cached) rx ry)
      with (2 := Hrx) (3 := Hry) as (Hz & Hk).
    { rewrite !mul_values_len, Hl. reflexivity. }
    rewrite Hz. cbn [obind]. split; [reflexivity | apply OKL_1; apply OKO_some; exact Hk].
  Qed.

  Lemma lin_BSigmoid : forall cached, bop_linear (BSigmoid cached).
  Proof.
    intros cached cs t x y dx dy Hok Hx Hy. pose proof Hok as (Hd & Hl).
    destruct cs as [|c0 [|c1 cs]]; cbn [run_bop] in *; try discriminate Hx.
    inv_ob Hx rx Hrx. injection Hx as Hx. subst dx.
    inv_ob Hy ry Hry. injection Hy as Hy. subst dy.
    cbn [vals acomb]. rewrite (mul_values_lin_r _ _ _ Hl).
    match type of Hrx with mk _ ?vx = _ => match type of Hry with mk _ ?vy = _ =>
      destruct (mk_lin (dims c0) vx vy rx ry) with (2 := Hrx) (3 := Hry) as (Hz & Hk) end end.
    { rewrite !mul_values_len, Hl. reflexivity. }
    rewrite Hz. cbn [obind]. split; [reflexivity | apply OKL_1; apply OKO_some; exact Hk].
  Qed.

  Lemma lin_BSum : forall k target, bop_linear (BSum k target).
  Proof.
    intros k target cs t x y dx dy Hok Hx Hy.
    destruct cs as [|c0 [|c1 cs]]; cbn [run_bop] in *; try discriminate Hx.
    inv_ob Hx x' Hx'. inv_ob Hx rx Hrx. injection Hx as Hx. subst dx.
    inv_ob Hy y' Hy'. inv_ob Hy ry Hry. injection Hy as Hy. subst dy.
    destruct (a_reshape_lin target x y x' y' Hok Hx' Hy') as (Hz' & Hk'). rewrite Hz'. cbn [obind].
    destruct (sliced_op_lin (fill_sop (F:=F)) [true] [x'] [y'] [acomb x' y'] target (dims c0) k 0 rx ry
                            fill_sop_lin) as (Hz & Hk); [| exact Hrx | exact Hry |].
    { constructor; [apply relA_var; exact Hk' | constructor]. }
    rewrite Hz. cbn [obind]. split; [reflexivity | apply OKL_1; apply OKO_some; exact Hk].
  Qed.

  Lemma lin_BReshape : bop_linear BReshape.
  Proof.
    intros cs t x y dx dy Hok Hx Hy.
    destruct cs as [|c0 [|c1 cs]]; cbn [run_bop] in *; try discriminate Hx.
    inv_ob Hx d0x H0x. injection Hx as Hx. subst dx.
    inv_ob Hy d0y H0y. injection Hy as Hy. subst dy.
    destruct (when_lin _ _ _ (a_reshape (dims c0) (acomb x y)) _ _
                       (fun u v Hu Hv => a_reshape_lin (dims c0) x y u v Hok Hu Hv) H0x H0y)
      as (E0 & K0).
    rewrite E0. cbn [obind]. split; [reflexivity | apply OKL_1; exact K0].
  Qed.

  Lemma lin_BRelu : bop_linear BRelu.
  Proof.
    intros cs t x y dx dy Hok Hx Hy.
    destruct cs as [|c0 [|c1 cs]]; cbn [run_bop] in *; try discriminate Hx.
    inv_ob Hx der Hder. inv_ob Hx rx Hrx. injection Hx as Hx. subst dx.
    rewrite Hder in Hy |- *. cbn [obind] in Hy |- *.
    inv_ob Hy ry Hry. injection Hy as Hy. subst dy.
    destruct (a_mul_lin_r der x y rx ry Hok Hrx Hry) as (Hz & Hk). rewrite Hz. cbn [obind].
    split; [reflexivity | apply OKL_1; apply OKO_some; exact Hk].
  Qed.

  Lemma lin_BCustom : forall c, bop_linear (BCustom c).
  Proof.
    intros c cs t x y dx dy Hok Hx Hy. destruct c.
    - (* CMul *)
      destruct cs as [|c0 [|c1 [|c2 cs]]]; cbn [run_bop] in *; try discriminate Hx.
      inv_ob Hx d0x H0x. inv_ob Hx d1x H1x. injection Hx as Hx. subst dx.
      inv_ob Hy d0y H0y. inv_ob Hy d1y H1y. injection Hy as Hy. subst dy.
      destruct (when_lin _ _ _ (zip_vals (fmul O) c1 (acomb x y)) _ _
                         (fun u v Hu Hv => zip_mul_lin_r c1 x y u v Hok Hu Hv) H0x H0y) as (E0 & K0).
      destruct (when_lin _ _ _ (zip_vals (fmul O) c0 (acomb x y)) _ _
                         (fun u v Hu Hv => zip_mul_lin_r c0 x y u v Hok Hu Hv) H1x H1y) as (E1 & K1).
      rewrite E0. cbn [obind]. rewrite E1. cbn [obind].
      split; [reflexivity | apply OKL_2; assumption].
    - (* CAff *)
      destruct cs as [|c0 [|c1 [|c2 cs]]]; cbn [run_bop] in *; try discriminate Hx.
      inv_ob Hx d1x H1x. injection Hx as Hx. subst dx.
      inv_ob Hy d1y H1y. injection Hy as Hy. subst dy.
      destruct (when_lin _ _ _ (a_scale O (two O) (acomb x y)) _ _
                         (fun u v Hu Hv => a_scale_lin (two O) x y u v Hok Hu Hv) H1x H1y) as (E1 & K1).
      destruct (if_lin (flag t 0) x y Hok) as (E0 & K0).
      rewrite E1. cbn [obind]. rewrite E0.
      split; [reflexivity | apply OKL_2; assumption].
    - (* CSq *)
      destruct cs as [|c0 [|c1 cs]]; cbn [run_bop] in *; try discriminate Hx.
      inv_ob Hx d0x H0x. injection Hx as Hx. subst dx.
      inv_ob Hy d0y H0y. injection Hy as Hy. subst dy.
      assert (Hw : forall u v,
                 (s <- a_scale O (two O) c0 ;; zip_vals (fmul O) s x) = Some u ->
                 (s <- a_scale O (two O) c0 ;; zip_vals (fmul O) s y) = Some v ->
                 (s <- a_scale O (two O) c0 ;; zip_vals (fmul O) s (acomb x y)) = Some (acomb u v)
                 /\ ok u v).
      { intros u v Hu Hv. inv_ob Hu s Hs. rewrite Hs in Hv |- *. cbn [obind] in Hv |- *.
        apply (zip_mul_lin_r s x y u v Hok Hu Hv). }
      destruct (when_lin _ _ _ _ _ _ Hw H0x H0y) as (E0 & K0).
      rewrite E0. cbn [obind]. split; [reflexivity | apply OKL_1; exact K0].
  Qed.

  (** division: needs the scalar division to be linear in the numerator *)
  Lemma lin_BDiv :
    (forall u v w, fdiv O (lc v w) u = lc (fdiv O v u) (fdiv O w u)) -> bop_linear BDiv.
  Proof.
    intros Hdiv cs t x y dx dy Hok Hx Hy.
    destruct cs as [|c0 [|c1 [|c2 cs]]]; cbn [run_bop] in *; try discriminate Hx.
    inv_ob Hx d0x H0x. inv_ob Hx d1x H1x. injection Hx as Hx. subst dx.
    inv_ob Hy d0y H0y. inv_ob Hy d1y H1y. injection Hy as Hy. subst dy.
    destruct (when_lin _ _ _ (a_div O (acomb x y) c1) _ _
                       (fun u v Hu Hv => ew_lin_l (fdiv O) c1 x y u v Hdiv Hok Hu Hv) H0x H0y)
      as (E0 & K0).
    assert (Hw : forall u v,
               (n <- a_neg O c0 ;; p <- a_powf O (two O) c1 ;; q <- a_div O n p ;; a_mul O q x)
               = Some u ->
               (n <- a_neg O c0 ;; p <- a_powf O (two O) c1 ;; q <- a_div O n p ;; a_mul O q y)
               = Some v ->
               (n <- a_neg O c0 ;; p <- a_powf O (two O) c1 ;; q <- a_div O n p ;;
                a_mul O q (acomb x y)) = Some (acomb u v) /\ ok u v).
    { intros u v Hu Hv. inv_ob Hu n Hn. inv_ob Hu p Hp. inv_ob Hu q Hq.
      rewrite Hn in Hv |- *. cbn [obind] in Hv |- *. rewrite Hp in Hv |- *. cbn [obind] in Hv |- *.
      rewrite Hq in Hv |- *. cbn [obind] in Hv |- *.
      apply (a_mul_lin_r q x y u v Hok Hu Hv). }
    destruct (when_lin _ _ _ _ _ _ Hw H1x H1y) as (E1 & K1).
    rewrite E0. cbn [obind]. rewrite E1. cbn [obind].
    split; [reflexivity | apply OKL_2; assumption].
  Qed.

  (** ** matrix product, rolling and expanding *)

  Lemma vsum_lcomb : forall a b, length a = length b ->
      vsum O (lcomb a b) = lc (vsum O a) (vsum O b).
  Proof.
    unfold lcomb. induction a as [|u a IH]; intros [|v b] Hl; simpl in *; try discriminate Hl.
    - rewrite (vsum_nil O). symmetry. apply lc_0.
    - rewrite !(vsum_cons O R), IH by lia. apply lc_add.
  Qed.

  Lemma set_nth_lcomb : forall i vx vy (ox oy ox' oy' : list F),
      length ox = length oy ->
      set_nth i vx ox = Some ox' -> set_nth i vy oy = Some oy' ->
      set_nth i (lc vx vy) (lcomb ox oy) = Some (lcomb ox' oy') /\ length ox' = length oy'.
  Proof.
    intros i vx vy ox oy ox' oy' Hl Hx Hy. unfold set_nth in *.
    rewrite (lcomb_length ox oy Hl). rewrite <- Hl in Hy.
    destruct (i <? length ox) eqn:Hi; [| discriminate Hx].
    injection Hx as Hx. injection Hy as Hy. subst ox' oy'. apply Nat.ltb_lt in Hi. split.
    - f_equal. unfold lcomb. rewrite map2_firstn, (map2_skipn lc _ ox oy Hl).
      rewrite map2_app by (rewrite !firstn_length; lia). reflexivity.
    - assert (Hi' : i < length oy) by lia.
      etransitivity; [exact (set_nth_length ox i vx Hi) |].
      symmetry. etransitivity; [exact (set_nth_length oy i vy Hi') | symmetry; exact Hl].
  Qed.

  Lemma matmul_slice_lin_l : forall rows cols sl ta tb cx cy sax say sb nx ny,
      length cx = length cy -> length sax = length say ->
      matmul_slice O rows cols sl ta tb cx sax sb = Some nx ->
      matmul_slice O rows cols sl ta tb cy say sb = Some ny ->
      matmul_slice O rows cols sl ta tb (lcomb cx cy) (lcomb sax say) sb = Some (lcomb nx ny) /\
      length nx = length ny.
  Proof.
    intros rows cols sl ta tb cx cy sax say sb nx ny Hlc Hls Hx Hy. unfold matmul_slice in *.
    apply (mapM_lin _ _ _ _ nx ny) with (2 := Hx) (3 := Hy).
    intros p u v Hu Hv. cbv zeta in *.
    inv_ob Hu tx Htx. inv_ob Hu o1 Ho1. injection Hu as Hu. subst u.
    inv_ob Hv ty Hty. inv_ob Hv o2 Ho2. injection Hv as Hv. subst v.
    assert (Hin : mapM (fun k =>
                x <- nth_error (lcomb sax say) (if ta then (k * rows + p / cols)%nat else (p / cols * sl + k)%nat) ;;
                y <- nth_error sb (if tb then (p mod cols * sl + k)%nat else (k * cols + p mod cols)%nat) ;;
                Some (x * y)) (seq 0 sl) = Some (lcomb tx ty) /\ length tx = length ty).
    { refine (mapM_lin _ _ _ _ tx ty _ Htx Hty). intros k a b Ha Hb.
      inv_ob Ha x1 Hx1. inv_ob Ha y1 Hy1. injection Ha as Ha. subst a.
      inv_ob Hb x2 Hx2. inv_ob Hb y2 Hy2. injection Hb as Hb. subst b.
      assert (y2 = y1) by congruence. subst y2.
      unfold lcomb. rewrite map2_nth_error, Hx1, Hx2. simpl. rewrite Hy1. simpl.
      rewrite mul_lin_l. reflexivity. }
    destruct Hin as (Htz & Hlt).
    rewrite Htz. cbn [obind]. unfold lcomb at 1. rewrite map2_nth_error, Ho1, Ho2. cbn [obind].
    rewrite (vsum_lcomb tx ty Hlt), lc_add. reflexivity.
  Qed.

  Lemma matmul_slice_lin_r : forall rows cols sl ta tb cx cy sa sbx sby nx ny,
      length cx = length cy -> length sbx = length sby ->
      matmul_slice O rows cols sl ta tb cx sa sbx = Some nx ->
      matmul_slice O rows cols sl ta tb cy sa sby = Some ny ->
      matmul_slice O rows cols sl ta tb (lcomb cx cy) sa (lcomb sbx sby) = Some (lcomb nx ny) /\
      length nx = length ny.
  Proof.
    intros rows cols sl ta tb cx cy sa sbx sby nx ny Hlc Hls Hx Hy. unfold matmul_slice in *.
    apply (mapM_lin _ _ _ _ nx ny) with (2 := Hx) (3 := Hy).
    intros p u v Hu Hv. cbv zeta in *.
    inv_ob Hu tx Htx. inv_ob Hu o1 Ho1. injection Hu as Hu. subst u.
    inv_ob Hv ty Hty. inv_ob Hv o2 Ho2. injection Hv as Hv. subst v.
    assert (Hin : mapM (fun k =>
                x <- nth_error sa (if ta then (k * rows + p / cols)%nat else (p / cols * sl + k)%nat) ;;
                y <- nth_error (lcomb sbx sby) (if tb then (p mod cols * sl + k)%nat else (k * cols + p mod cols)%nat) ;;
                Some (x * y)) (seq 0 sl) = Some (lcomb tx ty) /\ length tx = length ty).
    { refine (mapM_lin _ _ _ _ tx ty _ Htx Hty). intros k a b Ha Hb.
      inv_ob Ha x1 Hx1. inv_ob Ha y1 Hy1. injection Ha as Ha. subst a.
      inv_ob Hb x2 Hx2. inv_ob Hb y2 Hy2. injection Hb as Hb. subst b.
      assert (x2 = x1) by congruence. subst x2.
      rewrite Hx1. simpl. unfold lcomb. rewrite map2_nth_error, Hy1, Hy2. simpl.
      rewrite mul_lin_r. reflexivity. }
    destruct Hin as (Htz & Hlt).
    rewrite Htz. cbn [obind]. unfold lcomb at 1. rewrite map2_nth_error, Ho1, Ho2. cbn [obind].
    rewrite (vsum_lcomb tx ty Hlt), lc_add. reflexivity.
  Qed.

  Lemma F3m_3 : forall m1 m2 m3 (sx sy sz : list (list F)),
      F3m relS [m1; m2; m3] sx sy sz ->
      exists a1 b1 c1 a2 b2 c2 a3 b3 c3,
        sx = [a1; a2; a3] /\ sy = [b1; b2; b3] /\ sz = [c1; c2; c3] /\
        relS m1 a1 b1 c1 /\ relS m2 a2 b2 c2 /\ relS m3 a3 b3 c3.
  Proof.
    intros m1 m2 m3 sx sy sz H. inversion H as [|m' ms a b c la lb lc0 Hr Ht]. subst.
    apply F3m_2 in Ht. destruct Ht as (a2 & b2 & c2 & a3 & b3 & c3 & -> & -> & -> & Hr2 & Hr3).
    exists a, b, c, a2, b2, c2, a3, b3, c3. repeat split; assumption.
  Qed.

  Lemma matmul_sop_lin_l : forall rows cols sl ta tb,
      sop_lin [true; false; false] (matmul_sop O false rows cols sl ta tb).
  Proof.
    intros rows cols sl ta tb cx cy sx sy sz nx ny Hl Hrel Hx Hy.
    apply F3m_3 in Hrel.
    destruct Hrel as (a1 & b1 & c1 & a2 & b2 & c2 & a3 & b3 & c3 & -> & -> & -> &
                      (Hab & ->) & (-> & ->) & (-> & ->)).
    unfold matmul_sop in *. apply matmul_slice_lin_l; assumption.
  Qed.

  Lemma matmul_sop_lin_r : forall rows cols sl ta tb,
      sop_lin [false; true; false] (matmul_sop O false rows cols sl ta tb).
  Proof.
    intros rows cols sl ta tb cx cy sx sy sz nx ny Hl Hrel Hx Hy.
    apply F3m_3 in Hrel.
    destruct Hrel as (a1 & b1 & c1 & a2 & b2 & c2 & a3 & b3 & c3 & -> & -> & -> &
                      (-> & ->) & (Hab & ->) & (-> & ->)).
    unfold matmul_sop in *. apply matmul_slice_lin_r; assumption.
  Qed.

  Lemma a_matmul_lin_l : forall c ta tb x y dx dy, ok x y ->
      a_matmul O x ta c tb None = Some dx -> a_matmul O y ta c tb None = Some dy ->
      a_matmul O (acomb x y) ta c tb None = Some (acomb dx dy) /\ ok dx dy.
  Proof.
    intros c ta tb x y dx dy Hok Hx Hy. pose proof Hok as (Hd & _).
    unfold a_matmul in *. cbn [dims acomb]. rewrite <- Hd in Hy.
    inv_ob Hx shp Hshp. inv_ob Hx u Hu.
    rewrite Hshp in Hy |- *. cbn [obind] in Hy |- *.
    apply (sliced_op_lin _ [true; false; false] [x; c; zeros1 O] [y; c; zeros1 O]
                         [acomb x y; c; zeros1 O]);
      [apply matmul_sop_lin_l | | exact Hx | exact Hy].
    constructor; [apply relA_var; exact Hok |]. constructor; [apply relA_fix |].
    constructor; [apply relA_fix | constructor].
  Qed.

  Lemma a_matmul_lin_r : forall c ta tb x y dx dy, ok x y ->
      a_matmul O c ta x tb None = Some dx -> a_matmul O c ta y tb None = Some dy ->
      a_matmul O c ta (acomb x y) tb None = Some (acomb dx dy) /\ ok dx dy.
  Proof.
    intros c ta tb x y dx dy Hok Hx Hy. pose proof Hok as (Hd & _).
    unfold a_matmul in *. cbn [dims acomb]. rewrite <- Hd in Hy.
    inv_ob Hx shp Hshp. inv_ob Hx u Hu.
    rewrite Hshp in Hy |- *. cbn [obind] in Hy |- *.
    apply (sliced_op_lin _ [false; true; false] [c; x; zeros1 O] [c; y; zeros1 O]
                         [c; acomb x y; zeros1 O]);
      [apply matmul_sop_lin_r | | exact Hx | exact Hy].
    constructor; [apply relA_fix |]. constructor; [apply relA_var; exact Hok |].
    constructor; [apply relA_fix | constructor].
  Qed.

  Lemma lin_BMatmul : forall ta tb, bop_linear (BMatmul ta tb).
  Proof.
    intros ta tb cs t x y dx dy Hok Hx Hy.
    destruct cs as [|c0 [|c1 [|c2 [|c3 cs]]]]; cbn [run_bop] in *; try discriminate Hx.
    cbv zeta in *.
    set (is_dot := (length (dims c0) <? 2) && (length (dims c1) <? 2) && negb ta && negb tb) in *.
    inv_ob Hx d0x H0x. inv_ob Hx d1x H1x. injection Hx as Hx. subst dx.
    inv_ob Hy d0y H0y. inv_ob Hy d1y H1y. injection Hy as Hy. subst dy.
    assert (Hw0 : forall u v,
               (if is_dot then a_mul O c1 x
                else if ta then a_matmul O c1 tb x true None
                     else a_matmul O x false c1 (negb tb) None) = Some u ->
               (if is_dot then a_mul O c1 y
                else if ta then a_matmul O c1 tb y true None
                     else a_matmul O y false c1 (negb tb) None) = Some v ->
               (if is_dot then a_mul O c1 (acomb x y)
                else if ta then a_matmul O c1 tb (acomb x y) true None
                     else a_matmul O (acomb x y) false c1 (negb tb) None) = Some (acomb u v)
               /\ ok u v).
    { intros u v Hu Hv. destruct is_dot; [apply (a_mul_lin_r c1 x y u v Hok Hu Hv) |].
      destruct ta; [apply (a_matmul_lin_r c1 tb true x y u v Hok Hu Hv) |
                    apply (a_matmul_lin_l c1 false (negb tb) x y u v Hok Hu Hv)]. }
    assert (Hw1 : forall u v,
               (if is_dot then a_mul O c0 x
                else if tb then a_matmul O x true c0 ta None
                     else a_matmul O c0 (negb ta) x false None) = Some u ->
               (if is_dot then a_mul O c0 y
                else if tb then a_matmul O y true c0 ta None
                     else a_matmul O c0 (negb ta) y false None) = Some v ->
               (if is_dot then a_mul O c0 (acomb x y)
                else if tb then a_matmul O (acomb x y) true c0 ta None
                     else a_matmul O c0 (negb ta) (acomb x y) false None) = Some (acomb u v)
               /\ ok u v).
    { intros u v Hu Hv. destruct is_dot; [apply (a_mul_lin_r c0 x y u v Hok Hu Hv) |].
      destruct tb; [apply (a_matmul_lin_l c0 true ta x y u v Hok Hu Hv) |
                    apply (a_matmul_lin_r c0 (negb ta) false x y u v Hok Hu Hv)]. }
    destruct (when_lin _ _ _ _ _ _ Hw0 H0x H0y) as (E0 & K0).
    destruct (when_lin _ _ _ _ _ _ Hw1 H1x H1y) as (E1 & K1).
    destruct (if_lin (flag t 2) x y Hok) as (E2 & K2).
    rewrite E0. cbn [obind]. rewrite E1. cbn [obind]. rewrite E2.
    split; [reflexivity | apply OKL_3; assumption].
  Qed.

  (** the summing roll (derivative of unrolling) *)
  Lemma roll_sop_lin : forall count depth rows cols sr sc0 fr fc ccount,
      sop_lin [true] (roll_sop O true count depth rows cols sr sc0 fr fc ccount).
  Proof.
    intros count depth rows cols sr sc0 fr fc ccount cx cy sx sy sz nx ny Hl Hrel Hx Hy.
    apply F3m_1 in Hrel. destruct Hrel as (a & b & c & -> & -> & -> & (Hab & ->)).
    unfold roll_sop in *. cbv zeta in *.
    revert cx cy nx ny Hl Hx Hy.
    induction (seq 0 (count * (fr * fc * depth))) as [|ii l IH]; intros cx cy nx ny Hl Hx Hy.
    - simpl in *. injection Hx as Hx. injection Hy as Hy. subst nx ny. split; [reflexivity | exact Hl].
    - simpl in Hx, Hy |- *.
      match type of Hx with fold_left ?f l ?accx = _ =>
        destruct accx as [ox|] eqn:Hox;
          [| rewrite fold_left_none in Hx by (intro b0; reflexivity); discriminate Hx] end.
      match type of Hy with fold_left ?f l ?accy = _ =>
        destruct accy as [oy|] eqn:Hoy;
          [| rewrite fold_left_none in Hy by (intro b0; reflexivity); discriminate Hy] end.
      inv_ob Hox x1 Hx1. inv_ob Hox o1 Ho1.
      inv_ob Hoy x2 Hx2. inv_ob Hoy o2 Ho2.
      destruct (set_nth_lcomb _ _ _ cx cy ox oy Hl Hox Hoy) as (Hsz & Hlo).
      unfold lcomb at 2 3. rewrite !map2_nth_error, Hx1, Hx2, Ho1, Ho2. cbn [obind].
      rewrite <- lc_add in Hsz. fold (lcomb cx cy). rewrite lc_add. rewrite lc_add in Hsz.
      rewrite Hsz. apply (IH ox oy nx ny Hlo Hx Hy).
  Qed.

  Lemma roll_blocks_lin : forall depth rows cols sr sc0 fr fc x y dx dy, ok x y ->
      roll_blocks O true x depth rows cols sr sc0 fr fc = Some dx ->
      roll_blocks O true y depth rows cols sr sc0 fr fc = Some dy ->
      roll_blocks O true (acomb x y) depth rows cols sr sc0 fr fc = Some (acomb dx dy) /\ ok dx dy.
  Proof.
    intros depth rows cols sr sc0 fr fc x y dx dy Hok Hx Hy. pose proof Hok as (Hd & _).
    unfold roll_blocks in *. cbn [dims acomb]. rewrite <- Hd in Hy.
    inv_ob Hx count Hcount. inv_ob Hx ccount Hcc.
    rewrite Hcount, Hcc in Hy |- *. cbn [obind] in Hy |- *.
    apply (sliced_op_lin _ [true] [x] [y] [acomb x y]);
      [apply roll_sop_lin | | exact Hx | exact Hy].
    constructor; [apply relA_var; exact Hok | constructor].
  Qed.

  Lemma lin_BUnroll : forall depth rows cols sr sc0 fr fc,
      bop_linear (BUnroll depth rows cols sr sc0 fr fc).
  Proof.
    intros depth rows cols sr sc0 fr fc cs t x y dx dy Hok Hx Hy.
    destruct cs as [|c0 [|c1 cs]]; cbn [run_bop] in *; try discriminate Hx.
    inv_ob Hx d0x H0x. injection Hx as Hx. subst dx.
    inv_ob Hy d0y H0y. injection Hy as Hy. subst dy.
    destruct (when_lin _ _ _ (roll_blocks O true (acomb x y) depth rows cols sr sc0 fr fc) _ _
                       (fun u v Hu Hv => roll_blocks_lin depth rows cols sr sc0 fr fc x y u v Hok Hu Hv)
                       H0x H0y) as (E0 & K0).
    rewrite E0. cbn [obind]. split; [reflexivity | apply OKL_1; exact K0].
  Qed.

  (** the inverse permutation of [expand_conv] *)
  Lemma expand_fold_lin : forall fcount stride (vx vy : list F) l ox oy rx ry,
      length vx = length vy -> length ox = length oy ->
      fold_left (fun acc di => out <- acc ;; v <- nth_error vx di ;;
                               set_nth (expand_index fcount stride di) v out) l (Some ox) = Some rx ->
      fold_left (fun acc di => out <- acc ;; v <- nth_error vy di ;;
                               set_nth (expand_index fcount stride di) v out) l (Some oy) = Some ry ->
      fold_left (fun acc di => out <- acc ;; v <- nth_error (lcomb vx vy) di ;;
                               set_nth (expand_index fcount stride di) v out) l
                (Some (lcomb ox oy)) = Some (lcomb rx ry) /\ length rx = length ry.
  Proof.
    intros fcount stride vx vy l. induction l as [|di l IH]; intros ox oy rx ry Hlv Hlo Hx Hy.
    - simpl in *. injection Hx as Hx. injection Hy as Hy. subst rx ry. split; [reflexivity | exact Hlo].
    - simpl in Hx, Hy |- *.
      match type of Hx with fold_left ?f l ?accx = _ =>
        destruct accx as [ox'|] eqn:Hox;
          [| rewrite fold_left_none in Hx by (intro b0; reflexivity); discriminate Hx] end.
      match type of Hy with fold_left ?f l ?accy = _ =>
        destruct accy as [oy'|] eqn:Hoy;
          [| rewrite fold_left_none in Hy by (intro b0; reflexivity); discriminate Hy] end.
      inv_ob Hox v1 Hv1. inv_ob Hoy v2 Hv2.
      destruct (set_nth_lcomb _ _ _ ox oy ox' oy' Hlo Hox Hoy) as (Hsz & Hlo').
      unfold lcomb at 2. rewrite map2_nth_error, Hv1, Hv2. cbn [obind].
      fold (lcomb ox oy). rewrite Hsz. apply (IH ox' oy' rx ry Hlv Hlo' Hx Hy).
  Qed.

  Lemma lin_BExpand : forall fcount stride, bop_linear (BExpand fcount stride).
  Proof.
    intros fcount stride cs t x y dx dy Hok Hx Hy. pose proof Hok as (_ & Hlv).
    destruct cs as [|c0 [|c1 cs]]; cbn [run_bop] in *; try discriminate Hx.
    cbv zeta in *.
    inv_ob Hx u1 Hu1. inv_ob Hx vx' Hvx. inv_ob Hx rx Hrx. injection Hx as Hx. subst dx.
    inv_ob Hy u2 Hu2. inv_ob Hy vy' Hvy. inv_ob Hy ry Hry. injection Hy as Hy. subst dy.
    rewrite Hu1. cbn [obind]. cbn [vals acomb].
    destruct (expand_fold_lin fcount stride (vals x) (vals y) _ _ _ vx' vy' Hlv eq_refl Hvx Hvy)
      as (Hz & Hlr).
    assert (H00 : lcomb (repeat 0 (prod (dims c0))) (repeat 0 (prod (dims c0)))
                  = repeat 0 (prod (dims c0))).
    { unfold lcomb. rewrite map2_repeat, lc_0. reflexivity. }
    rewrite H00 in Hz. rewrite Hz. cbn [obind].
    destruct (mk_lin (dims c0) vx' vy' rx ry Hlr Hrx Hry) as (Hm & Hk).
    rewrite Hm. cbn [obind]. split; [reflexivity | apply OKL_1; apply OKO_some; exact Hk].
  Qed.

  (** the codes whose closure is proved linear without further hypotheses *)
  Definition linear_proved (code : bop_code F) : bool :=
    match code with
    | BDiv => false
    | _ => true
    end.

  Theorem linear_proved_linear : forall code, linear_proved code = true -> bop_linear code.
  Proof.
    intros code H. destruct code; try discriminate H.
    - exact lin_BAdd.
    - exact lin_BMul.
    - exact lin_BNeg.
    - apply lin_BScale.
    - exact lin_BRecip.
    - apply lin_BPowf.
    - exact lin_BLn.
    - apply lin_BExp.
    - apply lin_BSum.
    - exact lin_BReshape.
    - apply lin_BMatmul.
    - apply lin_BUnroll.
    - apply lin_BExpand.
    - exact lin_BRelu.
    - apply lin_BSigmoid.
    - apply lin_BCustom.
  Qed.

  (** with a scalar division that is linear in the numerator, every closure is linear *)
  Theorem all_linear :
    (forall u v w, fdiv O (lc v w) u = lc (fdiv O v u) (fdiv O w u)) ->
    forall code, bop_linear code.
  Proof.
    intros Hdiv code. destruct (linear_proved code) eqn:H.
    - apply linear_proved_linear. exact H.
    - destruct code; try discriminate H. apply lin_BDiv. exact Hdiv.
  Qed.
End Linear.

Print Assumptions sliced_op_lin.
Print Assumptions flatten_to_lin.
Print Assumptions linear_proved_linear.
Print Assumptions all_linear.
