(** Functional, per-instruction facts about the interpreter (Model/Program.v):

    - P1 (C08, arrays are immutable): every instruction preserves the payload (dimensions,
      values, closure, buffer identity) and the child list of every existing node, only ever
      appends nodes, and leaves every pool slot it does not explicitly rebind untouched
      ([step_frame], [run_frame]);
    - P2 (C09, construction): the result handle of an operation is tracked iff some operand
      handle is; an untracked result is a childless node without closure
      ([apply_op_tracking] and companions);
    - P3 (C12, handles are transparent): the interpreter reads the pool only through [var];
      gradients, values and clearing depend only on the node of a handle.

    No assumption on the scalar operations, and no well-formedness premise on the graph. *)

From Coq Require Import List Arith Bool Lia PeanoNat.
From Corgi Require Import Lib.OptionMonad Model.Scalar Model.Arr Model.SlicedOp
     Model.Elementwise Model.Linalg Model.Image Model.Ops Model.Engine Model.Program
     Proofs.EngineDefs Proofs.EngineBase Proofs.EngineInv.
Import ListNotations.

(** * Inversion of the option monad *)

Lemma bindI : forall {A B} (x : option A) (f : A -> option B) y,
    obind x f = Some y -> exists a, x = Some a /\ f a = Some y.
Proof. intros A B [a|] f y H; [exists a; auto|discriminate]. Qed.

Ltac some_inv H H1 :=
  match type of H with Some ?p = Some ?q => assert (H1 : p = q) by congruence; clear H end.

Ltac inv_bind H :=
  repeat match type of H with
         | obind ?x _ = Some _ =>
           let a := fresh "a" in let E := fresh "E" in
           apply bindI in H; destruct H as (a & E & H)
         | (let '(_, _) := ?r in _) = Some _ => destruct r
         end.

Lemma fold_opt_none : forall {A B} (f : A -> B -> option A) (l : list B),
    fold_left (fun (acc : option A) b => obind acc (fun a => f a b)) l None = None.
Proof. intros A B f l. induction l as [|b l IH]; [reflexivity|exact IH]. Qed.

(** a fold in the option monad preserves a reflexive-transitive relation to the start *)
Lemma fold_opt_inv : forall {A B} (R : A -> A -> Prop) (f : A -> B -> option A) (l : list B),
    (forall a, R a a) -> (forall a b c, R a b -> R b c -> R a c) ->
    (forall a b a', In b l -> f a b = Some a' -> R a a') ->
    forall a0 a1,
      fold_left (fun (acc : option A) b => obind acc (fun a => f a b)) l (Some a0) = Some a1 ->
      R a0 a1.
Proof.
  intros A B R f l Hrefl Htrans. induction l as [|b l IH]; intros Hf a0 a1 H.
  - cbn in H. inversion H. apply Hrefl.
  - cbn [fold_left obind] in H. destruct (f a0 b) as [a'|] eqn:E.
    + apply (Htrans _ a'); [apply (Hf a0 b a' (or_introl eq_refl) E)|].
      apply IH; [|exact H]. intros a b' a'' Hin. apply Hf. right. exact Hin.
    + rewrite fold_opt_none in H. discriminate.
Qed.

(** * The engine only rewrites counts, deltas, gradients (and flags, transiently) *)

Section EngineFrame.
  Context {P D : Type}.
  Variable E : eops P D.

  Lemma put_nc : forall (g : store P D) id nd nd' g',
      put g id nd' = Some g' -> nth_error g id = Some nd -> nc nd' = nc nd -> map nc g' = map nc g.
  Proof. intros g id nd nd' g' H Hn Hf. exact (put_map nc g id nd nd' g' H Hn Hf). Qed.

  Lemma put_sk : forall (g : store P D) id nd nd' g',
      put g id nd' = Some g' -> nth_error g id = Some nd -> sk nd' = sk nd -> map sk g' = map sk g.
  Proof. intros g id nd nd' g' H Hn Hf. exact (put_map sk g id nd nd' g' H Hn Hf). Qed.

  (** [propagate_consumers] changes consumer counts only *)
  Lemma propagate_nc : forall fuel (g : store P D) id g',
      propagate fuel g id = Some g' -> map nc g' = map nc g.
  Proof.
    induction fuel as [|fuel IH]; intros g id g' H; [discriminate|].
    cbn [propagate] in H. apply bindI in H. destruct H as (nd & _ & H).
    revert H. generalize (n_children nd) as es. intros es.
    assert (G : forall acc, map nc acc = map nc g ->
                fold_left
                  (fun (acc : option (store P D)) (e : entry) =>
                     g <- acc ;;
                     if e_tracked e then
                       c <- nth_error g (e_node e) ;;
                       let cc := n_count c in
                       g' <- put g (e_node e) (set_count c (S cc)) ;;
                       if cc =? 0 then propagate fuel g' (e_node e) else Some g'
                     else Some g) es (Some acc) = Some g' -> map nc g' = map nc g).
    { induction es as [|e es IHes]; intros acc Hacc H.
      - cbn in H. inversion H. subst. exact Hacc.
      - cbn [fold_left] in H.
        match type of H with fold_left ?f es ?x = _ => destruct x as [acc1|] eqn:E1 end.
        + apply (IHes acc1); [|exact H]. cbn [obind] in E1.
          destruct (e_tracked e); [|inversion E1; subst; exact Hacc].
          apply bindI in E1. destruct E1 as (c & Hc & E1). cbv zeta in E1.
          apply bindI in E1. destruct E1 as (g1 & Hput & E1).
          assert (H1 : map nc g1 = map nc acc)
            by (apply (put_nc acc (e_node e) c _ g1 Hput Hc); reflexivity).
          destruct (n_count c =? 0).
          * apply IH in E1. congruence.
          * inversion E1. subst. congruence.
        + clear - H. exfalso. induction es as [|e' es IH']; [discriminate|exact (IH' H)]. }
    apply G. reflexivity.
  Qed.

  Lemma nc_sk_eq : forall g g' : store P D, map nc g' = map nc g -> map sk g' = map sk g.
  Proof. intros g g' H. apply nc_sk. exact H. Qed.

  (** what a recursive call is assumed to satisfy *)
  Definition rec_sk (rec : @rec_t P D) : Prop :=
    forall g id keep seed log g' log',
      rec g id keep seed log = Some (g', log') -> map sk g' = map sk g.

  Lemma fold_deliver_sk : forall rec, rec_sk rec ->
      forall ps (g : store P D) lg g' lg',
        fold_left (deliver E rec) ps (Some (g, lg)) = Some (g', lg') -> map sk g' = map sk g.
  Proof.
    intros rec Hrec. induction ps as [|[e [d|]] ps IH]; intros g lg g' lg' H.
    - cbn in H. inversion H. reflexivity.
    - cbn [fold_left] in H.
      destruct (deliver E rec (Some (g, lg)) (e, Some d)) as [[g1 lg1]|] eqn:E1.
      + apply IH in H. rewrite H.
        apply deliver_some_inv in E1. destruct E1 as (c & nw & g2 & Hc & _ & Hput & Hrest).
        assert (H2 : map sk g2 = map sk g)
          by (apply (put_sk g (e_node e) c _ g2 Hput Hc); reflexivity).
        destruct (n_count c =? 1).
        * apply Hrec in Hrest. congruence.
        * inversion Hrest. subst. exact H2.
      + rewrite fold_deliver_none in H. discriminate.
    - cbn [fold_left] in H. rewrite deliver_skip in H. apply IH in H. exact H.
  Qed.

  Lemma finish_sk : forall (g2 : store P D) id keep delta log2 g' log',
      finish E g2 id keep delta log2 = Some (g', log') -> map sk g' = map sk g2.
  Proof.
    intros g2 id keep delta log2 g' log' H. unfold finish in H.
    apply bindI in H. destruct H as (nd2 & Hn2 & H).
    destruct ((match n_children nd2 with [] => true | _ => false end) || keep).
    - apply bindI in H. destruct H as (ng & _ & H).
      apply bindI in H. destruct H as (g3 & Hput & H). inversion H. subst.
      apply (put_sk g2 id nd2 _ g' Hput Hn2). reflexivity.
    - inversion H. reflexivity.
  Qed.

  Lemma bw_body_sk : forall rec, rec_sk rec ->
      forall (g1 : store P D) id keep delta log g' log',
        bw_body E rec g1 id keep delta log = Some (g', log') -> map sk g' = map sk g1.
  Proof.
    intros rec Hrec g1 id keep delta log g' log' H. unfold bw_body in H.
    apply bindI in H. destruct H as (nd1 & Hn1 & H). cbv zeta in H.
    apply bindI in H. destruct H as ([g2 log2] & Hgl & H).
    apply finish_sk in H. rewrite H. clear H.
    destruct (eo_hasop E (n_pay nd1)).
    - apply bindI in Hgl. destruct Hgl as (g1a & Hput1 & Hgl).
      apply bindI in Hgl. destruct Hgl as (pays & _ & Hgl).
      apply bindI in Hgl. destruct Hgl as (ds & _ & Hgl).
      apply bindI in Hgl. destruct Hgl as (nd1a & Hn1a & Hgl).
      apply bindI in Hgl. destruct Hgl as (g1b & Hput2 & Hgl).
      apply bindI in Hgl. destruct Hgl as (_ & _ & Hgl).
      apply fold_deliver_sk in Hgl; [|exact Hrec]. rewrite Hgl.
      rewrite (put_nth_eq _ _ _ _ Hput1) in Hn1a. inversion Hn1a. subst nd1a.
      cbn [n_children set_children] in Hput2. rewrite restore_clear, set_children_twice,
                                                set_children_id in Hput2.
      pose proof (put_put _ _ _ _ _ _ Hput1 Hput2) as Hpp.
      rewrite (put_same _ _ _ _ Hpp Hn1). reflexivity.
    - apply bindI in Hgl. destruct Hgl as (_ & _ & Hgl). inversion Hgl. reflexivity.
  Qed.

  (** a pass preserves the payload and the child entries (flags included) of every node *)
  Theorem backward_sk : forall fuel, rec_sk (backward E fuel).
  Proof.
    induction fuel as [|fuel IH]; intros g id keep seed log g' log' H; [discriminate|].
    rewrite backward_S in H.
    apply bindI in H. destruct H as (nd & Hn & H).
    apply bindI in H. destruct H as ([g1 delta] & Hgd & H).
    apply (bw_body_sk _ IH) in H. rewrite H. clear H.
    destruct (n_delta nd).
    - apply bindI in Hgd. destruct Hgd as (g1' & Hput & Hgd). inversion Hgd. subst.
      apply (put_sk g id nd _ g1 Hput Hn). reflexivity.
    - apply bindI in Hgd. destruct Hgd as (g1' & Hp & Hgd). inversion Hgd. subst.
      apply nc_sk_eq. apply (propagate_nc _ _ _ _ Hp).
  Qed.

  Corollary run_backward_sk : forall (g : store P D) id keep seed g' log',
      run_backward E g id keep seed = Some (g', log') -> map sk g' = map sk g.
  Proof. intros g id keep seed g' log' H. exact (backward_sk _ _ _ _ _ _ _ _ H). Qed.

  Corollary backward_pay : forall fuel (g : store P D) id keep seed log g' log',
      backward E fuel g id keep seed log = Some (g', log') -> map n_pay g' = map n_pay g.
  Proof.
    intros fuel g id keep seed log g' log' H. apply backward_sk in H.
    transitivity (map fst (map sk g')); [rewrite map_map; reflexivity|].
    rewrite H, map_map. reflexivity.
  Qed.

  Corollary backward_children : forall fuel (g : store P D) id keep seed log g' log',
      backward E fuel g id keep seed log = Some (g', log') ->
      map n_children g' = map n_children g.
  Proof.
    intros fuel g id keep seed log g' log' H. apply backward_sk in H.
    transitivity (map snd (map sk g')); [rewrite map_map; reflexivity|].
    rewrite H, map_map. reflexivity.
  Qed.
End EngineFrame.

(** * Frames on states *)

Section Frame.
  Context {F : Type}.

  Notation gnode := (@gnode F).
  Notation state := (@state F).

  (** the old nodes keep their payload and child entries; nodes are only appended *)
  Definition sk_prefix (g g' : list gnode) : Prop := exists tl, map sk g' = map sk g ++ tl.

  Lemma sk_prefix_refl : forall g, sk_prefix g g.
  Proof. intros g. exists []. rewrite app_nil_r. reflexivity. Qed.

  Lemma sk_prefix_trans : forall g1 g2 g3, sk_prefix g1 g2 -> sk_prefix g2 g3 -> sk_prefix g1 g3.
  Proof.
    intros g1 g2 g3 [t1 H1] [t2 H2]. exists (t1 ++ t2). rewrite H2, H1, app_assoc. reflexivity.
  Qed.

  Lemma sk_prefix_eq : forall g g', map sk g' = map sk g -> sk_prefix g g'.
  Proof. intros g g' H. exists []. rewrite app_nil_r. exact H. Qed.

  Lemma sk_prefix_app : forall g tl, sk_prefix g (g ++ tl).
  Proof. intros g tl. exists (map sk tl). apply map_app. Qed.

  Lemma sk_prefix_length : forall g g', sk_prefix g g' -> length g <= length g'.
  Proof.
    intros g g' [tl H]. apply (f_equal (@length _)) in H.
    rewrite app_length, !map_length in H. unfold Program.gnode in *. lia.
  Qed.

  Lemma sk_prefix_nth : forall g g' id nd,
      sk_prefix g g' -> nth_error g id = Some nd ->
      exists nd', nth_error g' id = Some nd' /\ n_pay nd' = n_pay nd /\
                  n_children nd' = n_children nd.
  Proof.
    intros g g' id nd [tl H] Hn. unfold Program.gnode in *.
    assert (H1 : nth_error (map sk g') id = Some (sk nd)).
    { rewrite H. rewrite nth_error_app1 by (rewrite map_length; apply nth_error_Some; congruence).
      apply map_nth_error. exact Hn. }
    rewrite nth_error_map in H1. destruct (nth_error g' id) as [nd'|]; [|discriminate].
    cbn in H1. inversion H1 as [[Hp Hc]]. exists nd'. auto.
  Qed.

  (** everything but the node list is unchanged, and the node list is framed *)
  Definition sframe (s s' : state) : Prop :=
    st_pool s' = st_pool s /\ st_layers s' = st_layers s /\ st_cost s' = st_cost s /\
    st_lr s' = st_lr s /\ st_output s' = st_output s /\ st_tag s' = st_tag s /\
    sk_prefix (st_nodes s) (st_nodes s').

  Lemma sframe_refl : forall s, sframe s s.
  Proof. intros s. unfold sframe. repeat split. apply sk_prefix_refl. Qed.

  Lemma sframe_trans : forall s1 s2 s3, sframe s1 s2 -> sframe s2 s3 -> sframe s1 s3.
  Proof.
    intros s1 s2 s3 (A1 & A2 & A3 & A4 & A5 & A6 & A7) (B1 & B2 & B3 & B4 & B5 & B6 & B7).
    unfold sframe. repeat split; try congruence. eapply sk_prefix_trans; eassumption.
  Qed.

  Lemma sframe_with_nodes : forall s g, sk_prefix (st_nodes s) g -> sframe s (with_nodes s g).
  Proof. intros s g H. unfold sframe. repeat split. exact H. Qed.

  Lemma sframe_h_node : forall s s' h nd,
      sframe s s' -> h_node s h = Some nd ->
      exists nd', h_node s' h = Some nd' /\ n_pay nd' = n_pay nd /\ n_children nd' = n_children nd.
  Proof.
    intros s s' h nd Hf Hn. unfold h_node in *.
    apply (sk_prefix_nth (st_nodes s) (st_nodes s') _ nd); [apply Hf|exact Hn].
  Qed.

  (** [Clone]-free reading: an array seen through a handle is the same after any frame *)
  Lemma sframe_h_arr : forall s s' h a, sframe s s' -> h_arr s h = Some a -> h_arr s' h = Some a.
  Proof.
    intros s s' h a Hf Ha. unfold h_arr in *.
    destruct (h_node s h) as [nd|] eqn:En; [|discriminate]. cbn [obind] in Ha.
    destruct (sframe_h_node s s' h nd Hf En) as (nd' & En' & Hp & _).
    rewrite En'. cbn [obind]. rewrite Hp. exact Ha.
  Qed.

  Lemma arr_eta : forall a : arr F, {| dims := dims a; vals := vals a |} = a.
  Proof. intros [d v]. reflexivity. Qed.

  (** ** Allocation *)

  (** the handle [h] is the fresh last node of [s'], tracked iff [t], with children [cs]
      and a closure when tracked, childless and without closure otherwise *)
  Definition fresh_res (s' : state) (h : handle) (a : arr F) (t : bool) (cs : list handle) : Prop :=
    e_tracked h = t /\ e_keep h = t /\ S (e_node h) = length (st_nodes s') /\
    h_arr s' h = Some a /\
    exists nd, h_node s' h = Some nd /\ n_count nd = 0 /\ n_delta nd = None /\ n_grad nd = None /\
               (t = false -> n_children nd = [] /\ p_bop (n_pay nd) = None) /\
               (t = true -> n_children nd = cs /\ exists code, p_bop (n_pay nd) = Some code).

  Lemma nth_error_snoc : forall {A} (l : list A) x, nth_error (l ++ [x]) (length l) = Some x.
  Proof. intros A l x. rewrite nth_error_app2 by lia. rewrite Nat.sub_diag. reflexivity. Qed.

  Lemma alloc_sframe : forall s a cs bop buf s' h,
      alloc s a cs bop buf = (s', h) -> sframe s s'.
  Proof.
    intros s a cs bop buf s' h H. unfold alloc in H. inversion H.
    apply sframe_with_nodes. apply sk_prefix_app.
  Qed.

  Lemma alloc_tracked : forall s a cs code buf s' h,
      alloc s a cs (Some code) buf = (s', h) -> fresh_res s' h a true cs.
  Proof.
    intros s a cs code buf s' h H. unfold alloc in H. inversion H. subst. clear H.
    unfold fresh_res, h_arr, h_node. cbn [e_tracked e_keep e_node mkh st_nodes with_nodes].
    rewrite app_length, nth_error_snoc. cbn [length obind n_pay]. unfold pay_arr.
    cbn [p_dims p_vals]. rewrite arr_eta. repeat split; try lia.
    eexists. split; [reflexivity|]. cbn. repeat split; try discriminate. eexists. reflexivity.
  Qed.

  Lemma alloc_untracked : forall s a buf s' h cs,
      alloc s a [] None buf = (s', h) -> fresh_res s' h a false cs.
  Proof.
    intros s a buf s' h cs H. unfold alloc in H. inversion H. subst. clear H.
    unfold fresh_res, h_arr, h_node. cbn [e_tracked e_keep e_node mkh st_nodes with_nodes].
    rewrite app_length, nth_error_snoc. cbn [length obind n_pay]. unfold pay_arr.
    cbn [p_dims p_vals]. rewrite arr_eta. repeat split; try lia.
    eexists. split; [reflexivity|]. cbn. repeat split; discriminate.
  Qed.

  Lemma alloc_if_sframe : forall s a t cs code s' h,
      alloc_if s a t cs code = (s', h) -> sframe s s'.
  Proof.
    intros s a t cs code s' h H. unfold alloc_if in H.
    destruct t; eapply alloc_sframe; exact H.
  Qed.

  Lemma alloc_if_res : forall s a t cs code s' h,
      alloc_if s a t cs code = (s', h) -> fresh_res s' h a t cs.
  Proof.
    intros s a t cs code s' h H. unfold alloc_if in H. destruct t.
    - eapply alloc_tracked. exact H.
    - eapply alloc_untracked. exact H.
  Qed.
End Frame.

(** * Operations: frame, value and tracking of the result *)

Section OpsFacts.
  Context {F : Type} (O : ScalarOps F).

  Notation state := (@state F).

  (** [s'] frames [s]; [h] is a fresh node of [s'] holding [a], tracked iff [t], with
      children [cs] when tracked *)
  Definition op_res (s s' : state) (h : handle) (a : arr F) (t : bool) (cs : list handle) : Prop :=
    sframe s s' /\ fresh_res s' h a t cs.

  Lemma op_res_frame : forall s1 s2 s3 h a t cs,
      sframe s1 s2 -> op_res s2 s3 h a t cs -> op_res s1 s3 h a t cs.
  Proof. intros s1 s2 s3 h a t cs H [H1 H2]. split; [eapply sframe_trans; eassumption|exact H2]. Qed.

  Lemma unary_inv : forall (s : state) h fwd code s' h',
      unary s h fwd code = Some (s', h') ->
      exists a r, h_arr s h = Some a /\ fwd a = Some r /\ op_res s s' h' r (e_tracked h) [h].
  Proof.
    intros s h fwd code s' h' H. unfold unary in H.
    apply bindI in H. destruct H as (a & Ha & H). apply bindI in H. destruct H as (r & Hr & H).
    some_inv H H1. exists a, r. split; [exact Ha|]. split; [exact Hr|]. split.
    - eapply alloc_if_sframe. exact H1.
    - eapply alloc_if_res. exact H1.
  Qed.

  Lemma unary_total : forall (s : state) h fwd code a r,
      h_arr s h = Some a -> fwd a = Some r -> exists s' h', unary s h fwd code = Some (s', h').
  Proof.
    intros s h fwd code a r Ha Hr. unfold unary. rewrite Ha. cbn [obind]. rewrite Hr. cbn [obind].
    destruct (alloc_if s r (e_tracked h) [h] (code r)) as [s' h']. eauto.
  Qed.

  Lemma binary_inv : forall (s : state) ha hb fwd code s' h,
      binary s ha hb fwd code = Some (s', h) ->
      exists a b r, h_arr s ha = Some a /\ h_arr s hb = Some b /\ fwd a b = Some r /\
                    op_res s s' h r (e_tracked ha || e_tracked hb) [ha; hb].
  Proof.
    intros s ha hb fwd code s' h H. unfold binary in H.
    apply bindI in H. destruct H as (a & Ha & H). apply bindI in H. destruct H as (b & Hb & H).
    apply bindI in H. destruct H as (r & Hr & H). some_inv H H1.
    exists a, b, r. repeat (split; [assumption|]). split.
    - eapply alloc_if_sframe. exact H1.
    - eapply alloc_if_res. exact H1.
  Qed.

  Lemma binary_total : forall (s : state) ha hb fwd code a b r,
      h_arr s ha = Some a -> h_arr s hb = Some b -> fwd a b = Some r ->
      exists s' h, binary s ha hb fwd code = Some (s', h).
  Proof.
    intros s ha hb fwd code a b r Ha Hb Hr. unfold binary.
    rewrite Ha, Hb. cbn [obind]. rewrite Hr. cbn [obind].
    destruct (alloc_if s r (e_tracked ha || e_tracked hb) [ha; hb] code) as [s' h]. eauto.
  Qed.

  Lemma h_arr_node : forall (s : state) h nd, h_node s h = Some nd -> h_arr s h = Some (pay_arr (n_pay nd)).
  Proof. intros s h nd H. unfold h_arr. rewrite H. reflexivity. Qed.

  Lemma reshape_inv : forall (s : state) d h s' h',
      op_reshape s d h = Some (s', h') ->
      exists a r, h_arr s h = Some a /\ a_reshape d a = Some r /\ op_res s s' h' r (e_tracked h) [h].
  Proof.
    intros s d h s' h' H. unfold op_reshape in H.
    apply bindI in H. destruct H as (nd & Hn & H). apply bindI in H. destruct H as (r & Hr & H).
    exists (pay_arr (n_pay nd)), r. split; [apply h_arr_node; exact Hn|]. split; [exact Hr|].
    some_inv H H1. destruct (e_tracked h).
    - split; [eapply alloc_sframe; exact H1|eapply alloc_tracked; exact H1].
    - split; [eapply alloc_sframe; exact H1|eapply alloc_untracked; exact H1].
  Qed.

  Lemma reshape_total : forall (s : state) d h a r,
      h_arr s h = Some a -> a_reshape d a = Some r -> exists s' h', op_reshape s d h = Some (s', h').
  Proof.
    intros s d h a r Ha Hr. unfold op_reshape. unfold h_arr in Ha.
    destruct (h_node s h) as [nd|]; [|discriminate]. cbn [obind] in *. inversion Ha. subst a.
    rewrite Hr. cbn [obind].
    match goal with |- exists s' h', Some ?p = _ => destruct p as [s' h'] end. eauto.
  Qed.

  (** the additive operand of [matmul] *)
  Definition opt_arr (s : state) (hc : option handle) : option (option (arr F)) :=
    match hc with Some h => x <- h_arr s h ;; Some (Some x) | None => Some None end.

  Definition mm_tracked (ha hb : handle) (hc : option handle) : bool :=
    e_tracked ha || e_tracked hb || match hc with Some h => e_tracked h | None => false end.

  Lemma matmul_inv : forall (s : state) ta tb ha hb hc s' h,
      op_matmul O s ta tb ha hb hc = Some (s', h) ->
      exists a b c r h3,
        h_arr s ha = Some a /\ h_arr s hb = Some b /\ opt_arr s hc = Some c /\
        a_matmul O a ta b tb c = Some r /\
        op_res s s' h r (mm_tracked ha hb hc) [ha; hb; h3] /\
        match hc with Some x => h3 = x | None => e_tracked h3 = false end.
  Proof.
    intros s ta tb ha hb hc s' h H. unfold op_matmul in H.
    apply bindI in H. destruct H as (a & Ha & H). apply bindI in H. destruct H as (b & Hb & H).
    apply bindI in H. destruct H as (c & Hc & H). apply bindI in H. destruct H as (r & Hr & H).
    cbv zeta in H. fold (mm_tracked ha hb hc) in H.
    destruct (mm_tracked ha hb hc) eqn:Et.
    - destruct hc as [x|].
      + some_inv H H1. exists a, b, c, r, x. repeat (split; [assumption|]).
        split; [|reflexivity]. split; [eapply alloc_sframe; exact H1|eapply alloc_tracked; exact H1].
      + destruct (alloc s (zeros1 O) [] None None) as [s1 h3] eqn:E1. some_inv H H1.
        exists a, b, c, r, h3. repeat (split; [assumption|]). split.
        * split; [|eapply alloc_tracked; exact H1].
          eapply sframe_trans; [eapply alloc_sframe; exact E1|eapply alloc_sframe; exact H1].
        * unfold alloc in E1. inversion E1. reflexivity.
    - some_inv H H1.
      exists a, b, c, r, (match hc with Some x => x | None => mkh 0 false false end).
      repeat (split; [assumption|]). split.
      + split; [eapply alloc_sframe; exact H1|eapply alloc_untracked; exact H1].
      + destruct hc; reflexivity.
  Qed.

  Lemma matmul_total : forall (s : state) ta tb ha hb hc a b c r,
      h_arr s ha = Some a -> h_arr s hb = Some b -> opt_arr s hc = Some c ->
      a_matmul O a ta b tb c = Some r ->
      exists s' h, op_matmul O s ta tb ha hb hc = Some (s', h).
  Proof.
    intros s ta tb ha hb hc a b c r Ha Hb Hc Hr. unfold op_matmul.
    rewrite Ha, Hb. cbn [obind]. fold (opt_arr s hc). rewrite Hc. cbn [obind]. rewrite Hr.
    cbn [obind]. cbv zeta.
    destruct (e_tracked ha || e_tracked hb || match hc with Some h => e_tracked h | None => false end).
    - destruct (match hc with Some h => (s, h) | None => alloc s (zeros1 O) [] None None end)
        as [s1 h3].
      match goal with |- exists s' h, Some ?p = _ => destruct p as [s' h] end. eauto.
    - match goal with |- exists s' h, Some ?p = _ => destruct p as [s' h] end. eauto.
  Qed.

  Lemma sum_inv : forall (s : state) k h s' h',
      k <> 0 -> op_sum O s k h = Some (s', h') ->
      exists a r, h_arr s h = Some a /\ a_sum O k a = Some r /\ op_res s s' h' r (e_tracked h) [h].
  Proof.
    intros s k h s' h' Hk H. unfold op_sum in H. apply Nat.eqb_neq in Hk. rewrite Hk in H.
    apply bindI in H. destruct H as (a0 & _ & H). apply unary_inv in H. exact H.
  Qed.

  Lemma sum_total : forall (s : state) k h a r,
      k <> 0 -> h_arr s h = Some a -> a_sum O k a = Some r ->
      exists s' h', op_sum O s k h = Some (s', h').
  Proof.
    intros s k h a r Hk Ha Hr. unfold op_sum. apply Nat.eqb_neq in Hk. rewrite Hk, Ha. cbn [obind].
    eapply unary_total; eassumption.
  Qed.

  Lemma unroll_inv : forall (s : state) h sr sc fr fc s' h',
      op_unroll O s h sr sc fr fc = Some (s', h') ->
      exists a r, h_arr s h = Some a /\ unroll_blocks O a sr sc fr fc = Some r /\
                  op_res s s' h' r (e_tracked h) [h].
  Proof.
    intros s h sr sc fr fc s' h' H. unfold op_unroll in H.
    apply bindI in H. destruct H as (a & Ha & H). apply bindI in H. destruct H as (d & _ & H).
    apply bindI in H. destruct H as (rw & _ & H). apply bindI in H. destruct H as (cl & _ & H).
    apply bindI in H. destruct H as (r & Hr & H). some_inv H H1.
    exists a, r. split; [exact Ha|]. split; [exact Hr|].
    split; [eapply alloc_if_sframe; exact H1|eapply alloc_if_res; exact H1].
  Qed.

  Lemma expand_inv : forall (s : state) h rc cc s' h',
      op_expand O s h rc cc = Some (s', h') ->
      exists a r, h_arr s h = Some a /\ expand_conv O a rc cc = Some r /\
                  op_res s s' h' r (e_tracked h) [h].
  Proof.
    intros s h rc cc s' h' H. unfold op_expand in H.
    apply bindI in H. destruct H as (a & Ha & H). apply bindI in H. destruct H as (d & _ & H).
    apply bindI in H. destruct H as (r & Hr & H). some_inv H H1.
    exists a, r. split; [exact Ha|]. split; [exact Hr|].
    split; [eapply alloc_if_sframe; exact H1|eapply alloc_if_res; exact H1].
  Qed.

  Lemma custom_inv : forall (s : state) c hs s' h,
      op_custom O s c hs = Some (s', h) ->
      exists args r, mapM (h_arr s) hs = Some args /\ custom_forward O c args = Some r /\
                     op_res s s' h r true hs.
  Proof.
    intros s c hs s' h H. unfold op_custom in H.
    apply bindI in H. destruct H as (args & Ha & H). apply bindI in H. destruct H as (r & Hr & H).
    some_inv H H1. exists args, r. split; [exact Ha|]. split; [exact Hr|].
    split; [eapply alloc_sframe; exact H1|eapply alloc_tracked; exact H1].
  Qed.

  (** ** Composite operations *)

  Lemma res_tracked : forall (s' : state) h a t cs, fresh_res s' h a t cs -> e_tracked h = t.
  Proof. intros s' h a t cs H. apply H. Qed.

  Lemma res_arr : forall (s s' : state) h a t cs, op_res s s' h a t cs -> h_arr s' h = Some a.
  Proof. intros s s' h a t cs [_ H]. apply H. Qed.

  (** *** success and value, from the operand arrays *)

  Lemma unary_fwd : forall (s : state) h fwd code a r,
      h_arr s h = Some a -> fwd a = Some r ->
      exists s' h', unary s h fwd code = Some (s', h') /\ op_res s s' h' r (e_tracked h) [h].
  Proof.
    intros s h fwd code a r Ha Hr.
    destruct (unary_total s h fwd code a r Ha Hr) as (s' & h' & H). exists s', h'.
    split; [exact H|]. apply unary_inv in H. destruct H as (a' & r' & Ha' & Hr' & R).
    assert (a' = a) by congruence. subst a'. assert (r' = r) by congruence. subst r'. exact R.
  Qed.

  Lemma binary_fwd : forall (s : state) ha hb fwd code a b r,
      h_arr s ha = Some a -> h_arr s hb = Some b -> fwd a b = Some r ->
      exists s' h, binary s ha hb fwd code = Some (s', h) /\
                   op_res s s' h r (e_tracked ha || e_tracked hb) [ha; hb].
  Proof.
    intros s ha hb fwd code a b r Ha Hb Hr.
    destruct (binary_total s ha hb fwd code a b r Ha Hb Hr) as (s' & h & H). exists s', h.
    split; [exact H|]. apply binary_inv in H. destruct H as (a' & b' & r' & Ha' & Hb' & Hr' & R).
    assert (a' = a) by congruence. subst a'. assert (b' = b) by congruence. subst b'.
    assert (r' = r) by congruence. subst r'. exact R.
  Qed.

  Lemma reshape_fwd : forall (s : state) d h a r,
      h_arr s h = Some a -> a_reshape d a = Some r ->
      exists s' h', op_reshape s d h = Some (s', h') /\ op_res s s' h' r (e_tracked h) [h].
  Proof.
    intros s d h a r Ha Hr.
    destruct (reshape_total s d h a r Ha Hr) as (s' & h' & H). exists s', h'.
    split; [exact H|]. apply reshape_inv in H. destruct H as (a' & r' & Ha' & Hr' & R).
    assert (a' = a) by congruence. subst a'. assert (r' = r) by congruence. subst r'. exact R.
  Qed.

  Lemma matmul_fwd : forall (s : state) ta tb ha hb hc a b c r,
      h_arr s ha = Some a -> h_arr s hb = Some b -> opt_arr s hc = Some c ->
      a_matmul O a ta b tb c = Some r ->
      exists s' h h3, op_matmul O s ta tb ha hb hc = Some (s', h) /\
                      op_res s s' h r (mm_tracked ha hb hc) [ha; hb; h3].
  Proof.
    intros s ta tb ha hb hc a b c r Ha Hb Hc Hr.
    destruct (matmul_total s ta tb ha hb hc a b c r Ha Hb Hc Hr) as (s' & h & H).
    exists s', h. pose proof H as H0. apply matmul_inv in H0.
    destruct H0 as (a' & b' & c' & r' & h3 & Ha' & Hb' & Hc' & Hr' & R & _). exists h3.
    split; [exact H|].
    assert (a' = a) by congruence. subst a'. assert (b' = b) by congruence. subst b'.
    assert (c' = c) by congruence. subst c'. assert (r' = r) by congruence. subst r'. exact R.
  Qed.

  Lemma sum_fwd : forall (s : state) k h a r,
      k <> 0 -> h_arr s h = Some a -> a_sum O k a = Some r ->
      exists s' h', op_sum O s k h = Some (s', h') /\ op_res s s' h' r (e_tracked h) [h].
  Proof.
    intros s k h a r Hk Ha Hr.
    destruct (sum_total s k h a r Hk Ha Hr) as (s' & h' & H). exists s', h'.
    split; [exact H|]. apply (sum_inv _ _ _ _ _ Hk) in H. destruct H as (a' & r' & Ha' & Hr' & R).
    assert (a' = a) by congruence. subst a'. assert (r' = r) by congruence. subst r'. exact R.
  Qed.

  (** ** Composite operations: tracking *)

  (** [a - b] is [a + (b * -1)] *)
  Lemma sub_track : forall (s : state) ha hb s' h,
      op_sub O s ha hb = Some (s', h) ->
      exists r hn, op_res s s' h r (e_tracked ha || e_tracked hb) [ha; hn] /\
                   e_tracked hn = e_tracked hb.
  Proof.
    intros s ha hb s' h H. unfold op_sub in H.
    apply bindI in H. destruct H as ([s1 hn] & H1 & H).
    apply unary_inv in H1. destruct H1 as (b & nb & _ & _ & R1).
    apply binary_inv in H. destruct H as (a & nb' & r & _ & _ & _ & R2).
    assert (Hn : e_tracked hn = e_tracked hb) by (apply (res_tracked _ _ _ _ _ (proj2 R1))).
    exists r, hn. rewrite Hn in R2. split; [|exact Hn].
    eapply op_res_frame; [apply R1|exact R2].
  Qed.

  Lemma sub_fwd : forall (s : state) ha hb a b r,
      h_arr s ha = Some a -> h_arr s hb = Some b -> a_sub O a b = Some r ->
      exists s' h hn, op_sub O s ha hb = Some (s', h) /\
                      op_res s s' h r (e_tracked ha || e_tracked hb) [ha; hn].
  Proof.
    intros s ha hb a b r Ha Hb Hr. unfold a_sub in Hr.
    apply bindI in Hr. destruct Hr as (nb & Hnb & Hr).
    destruct (unary_fwd s hb (a_neg O) (fun _ => BNeg) b nb Hb Hnb) as (s1 & hn & H1 & R1).
    assert (Ha1 : h_arr s1 ha = Some a) by (apply (sframe_h_arr s s1); [apply R1|exact Ha]).
    destruct (binary_fwd s1 ha hn (a_add O) BAdd a nb r Ha1 (res_arr _ _ _ _ _ _ R1) Hr)
      as (s' & h & H2 & R2).
    exists s', h, hn. split.
    - unfold op_sub, op_neg. rewrite H1. cbn [obind]. exact H2.
    - rewrite (res_tracked _ _ _ _ _ (proj2 R1)) in R2. eapply op_res_frame; [apply R1|exact R2].
  Qed.

  (** [alpha * x + y] *)
  Lemma axpy_track : forall (s : state) alpha hx hy s' h,
      op_axpy O s alpha hx hy = Some (s', h) ->
      exists r hsx, op_res s s' h r (e_tracked hx || e_tracked hy) [hsx; hy] /\
                    e_tracked hsx = e_tracked hx.
  Proof.
    intros s alpha hx hy s' h H. unfold op_axpy in H.
    apply bindI in H. destruct H as ([s1 hsx] & H1 & H).
    apply unary_inv in H1. destruct H1 as (x & ax & _ & _ & R1).
    apply binary_inv in H. destruct H as (ax' & y & r & _ & _ & _ & R2).
    assert (Hn : e_tracked hsx = e_tracked hx) by (apply (res_tracked _ _ _ _ _ (proj2 R1))).
    exists r, hsx. rewrite Hn in R2. split; [|exact Hn].
    eapply op_res_frame; [apply R1|exact R2].
  Qed.

  (** [exp / exp.sum(1)] *)
  Lemma softmax_track : forall (s : state) hx s' h,
      op_softmax O s hx = Some (s', h) ->
      exists r he hsm, op_res s s' h r (e_tracked hx) [he; hsm] /\
                       e_tracked he = e_tracked hx /\ e_tracked hsm = e_tracked hx.
  Proof.
    intros s hx s' h H. unfold op_softmax in H.
    apply bindI in H. destruct H as ([s1 he] & H1 & H).
    apply bindI in H. destruct H as ([s2 hsm] & H2 & H).
    apply unary_inv in H1. destruct H1 as (x & ex & _ & _ & R1).
    apply sum_inv in H2; [|discriminate]. destruct H2 as (ex' & sm & _ & _ & R2).
    apply binary_inv in H. destruct H as (ex'' & sm' & r & _ & _ & _ & R3).
    assert (He : e_tracked he = e_tracked hx) by (apply (res_tracked _ _ _ _ _ (proj2 R1))).
    assert (Hs : e_tracked hsm = e_tracked hx).
    { rewrite <- He. apply (res_tracked _ _ _ _ _ (proj2 R2)). }
    exists r, he, hsm. rewrite He, Hs, orb_diag in R3. split; [|split; assumption].
    eapply op_res_frame; [apply R1|]. eapply op_res_frame; [apply R2|exact R3].
  Qed.

  Lemma softmax_fwd : forall (s : state) hx a r,
      h_arr s hx = Some a -> a_softmax O a = Some r ->
      exists s' h cs, op_softmax O s hx = Some (s', h) /\ op_res s s' h r (e_tracked hx) cs.
  Proof.
    intros s hx a r Ha Hr. unfold a_softmax in Hr.
    apply bindI in Hr. destruct Hr as (ex & Hex & Hr). apply bindI in Hr. destruct Hr as (sm & Hsm & Hr).
    destruct (unary_fwd s hx (a_exp O) (fun r => BExp (vals r)) a ex Ha Hex) as (s1 & he & H1 & R1).
    destruct (sum_fwd s1 1 he ex sm ltac:(discriminate) (res_arr _ _ _ _ _ _ R1) Hsm)
      as (s2 & hsm & H2 & R2).
    assert (He2 : h_arr s2 he = Some ex)
      by (apply (sframe_h_arr s1 s2); [apply R2|apply (res_arr _ _ _ _ _ _ R1)]).
    destruct (binary_fwd s2 he hsm (a_div O) BDiv ex sm r He2 (res_arr _ _ _ _ _ _ R2) Hr)
      as (s' & h & H3 & R3).
    exists s', h, [he; hsm]. split.
    - unfold op_softmax, op_exp. rewrite H1. cbn [obind]. rewrite H2. cbn [obind]. exact H3.
    - rewrite (res_tracked _ _ _ _ _ (proj2 R2)), (res_tracked _ _ _ _ _ (proj2 R1)), orb_diag in R3.
      eapply op_res_frame; [apply R1|]. eapply op_res_frame; [apply R2|exact R3].
  Qed.
  Lemma unroll_fwd : forall (s : state) h sr sc fr fc a r depth rows cols,
      h_arr s h = Some a ->
      dim_back (dims a) 3 = Some depth -> dim_back (dims a) 2 = Some rows ->
      dim_back (dims a) 1 = Some cols ->
      unroll_blocks O a sr sc fr fc = Some r ->
      exists s' h', op_unroll O s h sr sc fr fc = Some (s', h') /\ op_res s s' h' r (e_tracked h) [h].
  Proof.
    intros s h sr sc fr fc a r depth rows cols Ha H3 H2 H1 Hr.
    destruct (alloc_if s r (e_tracked h) [h] (BUnroll depth rows cols sr sc fr fc)) as [s' h'] eqn:E1.
    exists s', h'. split.
    - unfold op_unroll. rewrite Ha. cbn [obind]. rewrite H3, H2, H1. cbn [obind]. rewrite Hr.
      cbn [obind]. rewrite E1. reflexivity.
    - split; [eapply alloc_if_sframe; exact E1|eapply alloc_if_res; exact E1].
  Qed.

  Lemma expand_fwd : forall (s : state) h rc cc a r fcount,
      h_arr s h = Some a -> dim_back (dims a) 1 = Some fcount -> expand_conv O a rc cc = Some r ->
      exists s' h', op_expand O s h rc cc = Some (s', h') /\ op_res s s' h' r (e_tracked h) [h].
  Proof.
    intros s h rc cc a r fcount Ha H1 Hr.
    destruct (alloc_if s r (e_tracked h) [h] (BExpand fcount (rc * cc))) as [s' h'] eqn:E1.
    exists s', h'. split.
    - unfold op_expand. rewrite Ha. cbn [obind]. rewrite H1. cbn [obind]. rewrite Hr.
      cbn [obind]. rewrite E1. reflexivity.
    - split; [eapply alloc_if_sframe; exact E1|eapply alloc_if_res; exact E1].
  Qed.

  (** [conv]: unroll, reshape the filters, multiply, expand *)
  Lemma conv_track : forall (s : state) sr sc hi hf s' h,
      op_conv O s sr sc hi hf = Some (s', h) ->
      exists r hcv, op_res s s' h r (e_tracked hi || e_tracked hf) [hcv] /\
                    e_tracked hcv = e_tracked hi || e_tracked hf.
  Proof.
    intros s sr sc hi hf s' h H. unfold op_conv in H. cbv zeta in H.
    apply bindI in H. destruct H as (image & _ & H). apply bindI in H. destruct H as (filters & _ & H).
    apply bindI in H. destruct H as (_ & _ & H). apply bindI in H. destruct H as (_ & _ & H).
    apply bindI in H. destruct H as (depth & _ & H). apply bindI in H. destruct H as (rows & _ & H).
    apply bindI in H. destruct H as (cols & _ & H). apply bindI in H. destruct H as (fr & _ & H).
    apply bindI in H. destruct H as (fc & _ & H). apply bindI in H. destruct H as (rcount & _ & H).
    apply bindI in H. destruct H as (ccount & _ & H).
    apply bindI in H. destruct H as ([s1 hu] & H1 & H).
    apply bindI in H. destruct H as (ua & _ & H). apply bindI in H. destruct H as (last & _ & H).
    apply bindI in H. destruct H as ([s2 hm] & H2 & H).
    apply bindI in H. destruct H as ([s3 hcv] & H3 & H).
    apply unroll_inv in H1. destruct H1 as (a1 & r1 & _ & _ & R1).
    apply reshape_inv in H2. destruct H2 as (a2 & r2 & _ & _ & R2).
    apply matmul_inv in H3. destruct H3 as (a3 & b3 & c3 & r3 & h3 & _ & _ & _ & _ & R3 & _).
    apply expand_inv in H. destruct H as (a4 & r4 & _ & _ & R4).
    assert (Hcv : e_tracked hcv = e_tracked hi || e_tracked hf).
    { rewrite (res_tracked _ _ _ _ _ (proj2 R3)). unfold mm_tracked.
      rewrite (res_tracked _ _ _ _ _ (proj2 R1)), (res_tracked _ _ _ _ _ (proj2 R2)).
      apply orb_false_r. }
    exists r4, hcv. split; [|exact Hcv]. rewrite Hcv in R4.
    eapply op_res_frame; [apply R1|]. eapply op_res_frame; [apply R2|].
    eapply op_res_frame; [apply R3|exact R4].
  Qed.

  Lemma conv_fwd : forall (s : state) sr sc hi hf image filters r,
      h_arr s hi = Some image -> h_arr s hf = Some filters ->
      conv O image filters sr sc = Some r ->
      exists s' h cs, op_conv O s sr sc hi hf = Some (s', h) /\
                      op_res s s' h r (e_tracked hi || e_tracked hf) cs.
  Proof.
    intros s sr sc hi hf image filters r Hi Hf H. unfold conv in H. cbv zeta in H.
    apply bindI in H. destruct H as ([] & C1 & H). apply bindI in H. destruct H as ([] & C2 & H).
    apply bindI in H. destruct H as (depth & D3 & H). apply bindI in H. destruct H as (rows & D2 & H).
    apply bindI in H. destruct H as (cols & D1 & H). apply bindI in H. destruct H as (fr & E2 & H).
    apply bindI in H. destruct H as (fc & E1 & H). apply bindI in H. destruct H as (rcount & S1 & H).
    apply bindI in H. destruct H as (ccount & S2 & H).
    apply bindI in H. destruct H as (u & Hu & H). apply bindI in H. destruct H as (last & Hl & H).
    apply bindI in H. destruct H as (fm & Hfm & H). apply bindI in H. destruct H as (cv & Hcv & H).
    destruct (unroll_fwd s hi sr sc fr fc image u depth rows cols Hi D3 D2 D1 Hu)
      as (s1 & hu & H1 & R1).
    assert (Hf1 : h_arr s1 hf = Some filters) by (apply (sframe_h_arr s s1); [apply R1|exact Hf]).
    destruct (reshape_fwd s1 _ hf filters fm Hf1 Hfm) as (s2 & hm & H2 & R2).
    assert (Hu2 : h_arr s2 hu = Some u)
      by (apply (sframe_h_arr s1 s2); [apply R2|apply (res_arr _ _ _ _ _ _ R1)]).
    destruct (matmul_fwd s2 false true hu hm None u fm None cv Hu2 (res_arr _ _ _ _ _ _ R2)
                         eq_refl Hcv) as (s3 & hcv & h3 & H3 & R3).
    assert (Dcv : exists fcount, dim_back (dims cv) 1 = Some fcount).
    { unfold expand_conv in H. cbv zeta in H. apply bindI in H. destruct H as (fcount & Hd & _).
      eauto. }
    destruct Dcv as (fcount & Dcv).
    destruct (expand_fwd s3 hcv rcount ccount cv r fcount (res_arr _ _ _ _ _ _ R3) Dcv H)
      as (s' & h & H4 & R4).
    exists s', h, [hcv]. split.
    - unfold op_conv. cbv zeta. rewrite Hi, Hf. cbn [obind]. rewrite C1, C2. cbn [obind].
      rewrite D3, D2, D1, E2, E1. cbn [obind]. rewrite S1, S2. cbn [obind]. rewrite H1. cbn [obind].
      rewrite (res_arr _ _ _ _ _ _ R1). cbn [obind]. rewrite Hl. cbn [obind].
      rewrite H2. cbn [obind]. rewrite H3. cbn [obind]. exact H4.
    - assert (Et : e_tracked hcv = e_tracked hi || e_tracked hf).
      { rewrite (res_tracked _ _ _ _ _ (proj2 R3)). unfold mm_tracked.
        rewrite (res_tracked _ _ _ _ _ (proj2 R1)), (res_tracked _ _ _ _ _ (proj2 R2)).
        apply orb_false_r. }
      rewrite Et in R4.
      eapply op_res_frame; [apply R1|]. eapply op_res_frame; [apply R2|].
      eapply op_res_frame; [apply R3|exact R4].
  Qed.
  (** * P2: tracking of the result of every operation constructor *)

  Definition is_custom_op (k : @opk F) : bool := match k with OCustom _ => true | _ => false end.
  Definition is_sum0 (k : @opk F) : bool := match k with OSum 0 => true | _ => false end.
  (** operations built from several recorded primitives *)
  Definition is_composite (k : @opk F) : bool :=
    match k with OSub | OAxpy _ | OSoftmax | OConv _ _ => true | _ => false end.

  Ltac unfold_ops H :=
    unfold op_add, op_mul, op_div, op_neg, op_scale, op_exp, op_ln, op_powf, op_relu, op_sigmoid in H.

  (** the general form: frame, fresh result node, tracked iff some operand is, and a tracked
      result has at least one tracked child entry *)
  Theorem apply_op_res : forall (s : state) k hs s' h,
      apply_op O s k hs = Some (s', h) -> is_custom_op k = false -> is_sum0 k = false ->
      exists r cs, op_res s s' h r (existsb e_tracked hs) cs /\
                   (existsb e_tracked hs = true -> existsb e_tracked cs = true) /\
                   (is_composite k = false ->
                    cs = hs \/ exists h3, cs = hs ++ [h3] /\ e_tracked h3 = false).
  Proof.
    intros s k hs s' h H Hc Hs0.
    destruct k; try discriminate Hc;
      destruct hs as [|x [|y [|z [|w l]]]]; cbn [apply_op] in H; try discriminate H;
        cbn [existsb]; rewrite ?orb_false_r; unfold_ops H.
    - (* add *) apply binary_inv in H. destruct H as (a & b & r & _ & _ & _ & R).
      exists r, [x; y]. split; [exact R|]. split; [cbn; rewrite orb_false_r; auto|]. auto.
    - (* sub *) apply sub_track in H. destruct H as (r & hn & R & Hn).
      exists r, [x; hn]. split; [exact R|]. split; [cbn; rewrite Hn, orb_false_r; auto|].
      discriminate.
    - (* mul *) apply binary_inv in H. destruct H as (a & b & r & _ & _ & _ & R).
      exists r, [x; y]. split; [exact R|]. split; [cbn; rewrite orb_false_r; auto|]. auto.
    - (* div *) apply binary_inv in H. destruct H as (a & b & r & _ & _ & _ & R).
      exists r, [x; y]. split; [exact R|]. split; [cbn; rewrite orb_false_r; auto|]. auto.
    - (* neg *) apply unary_inv in H. destruct H as (a & r & _ & _ & R).
      exists r, [x]. split; [exact R|]. split; [cbn; rewrite orb_false_r; auto|]. auto.
    - (* scale *) apply unary_inv in H. destruct H as (a & r & _ & _ & R).
      exists r, [x]. split; [exact R|]. split; [cbn; rewrite orb_false_r; auto|]. auto.
    - (* recip *) apply unary_inv in H. destruct H as (a & r & _ & _ & R).
      exists r, [x]. split; [exact R|]. split; [cbn; rewrite orb_false_r; auto|]. auto.
    - (* powf *) apply unary_inv in H. destruct H as (a & r & _ & _ & R).
      exists r, [x]. split; [exact R|]. split; [cbn; rewrite orb_false_r; auto|]. auto.
    - (* ln *) apply unary_inv in H. destruct H as (a & r & _ & _ & R).
      exists r, [x]. split; [exact R|]. split; [cbn; rewrite orb_false_r; auto|]. auto.
    - (* exp *) apply unary_inv in H. destruct H as (a & r & _ & _ & R).
      exists r, [x]. split; [exact R|]. split; [cbn; rewrite orb_false_r; auto|]. auto.
    - (* sum *) destruct k as [|k]; [discriminate Hs0|].
      apply sum_inv in H; [|discriminate]. destruct H as (a & r & _ & _ & R).
      exists r, [x]. split; [exact R|]. split; [cbn; rewrite orb_false_r; auto|]. auto.
    - (* reshape *) apply reshape_inv in H. destruct H as (a & r & _ & _ & R).
      exists r, [x]. split; [exact R|]. split; [cbn; rewrite orb_false_r; auto|]. auto.
    - (* matmul, two operands *)
      apply matmul_inv in H. destruct H as (a & b & c & r & h3 & _ & _ & _ & _ & R & H3).
      unfold mm_tracked in R. rewrite orb_false_r in R.
      exists r, [x; y; h3]. split; [exact R|]. split.
      + intros Ht. cbn. rewrite H3, orb_false_r. exact Ht.
      + intros _. right. exists h3. auto.
    - (* matmul, three operands *)
      apply matmul_inv in H. destruct H as (a & b & c & r & h3 & _ & _ & _ & _ & R & H3).
      subst h3. unfold mm_tracked in R. rewrite orb_assoc.
      exists r, [x; y; z]. split; [exact R|]. split; [cbn; rewrite orb_false_r, orb_assoc; auto|]. auto.
    - (* conv *) apply conv_track in H. destruct H as (r & hcv & R & Hcv).
      exists r, [hcv]. split; [exact R|]. split; [cbn; rewrite Hcv, orb_false_r; auto|]. discriminate.
    - (* relu *) apply unary_inv in H. destruct H as (a & r & _ & _ & R).
      exists r, [x]. split; [exact R|]. split; [cbn; rewrite orb_false_r; auto|]. auto.
    - (* sigmoid *) apply unary_inv in H. destruct H as (a & r & _ & _ & R).
      exists r, [x]. split; [exact R|]. split; [cbn; rewrite orb_false_r; auto|]. auto.
    - (* softmax *) apply softmax_track in H. destruct H as (r & he & hsm & R & He & Hs).
      exists r, [he; hsm]. split; [exact R|]. split; [cbn; rewrite He, Hs, orb_false_r, orb_diag; auto|].
      discriminate.
    - (* axpy *) apply axpy_track in H. destruct H as (r & hsx & R & Hx).
      exists r, [hsx; y]. split; [exact R|]. split; [cbn; rewrite Hx, orb_false_r; auto|]. discriminate.
  Qed.

  (** the statement of C09 (construction), spelled out *)
  Theorem apply_op_tracking : forall (s : state) k hs s' h,
      apply_op O s k hs = Some (s', h) -> is_custom_op k = false -> is_sum0 k = false ->
      e_tracked h = existsb e_tracked hs /\ e_keep h = e_tracked h /\
      S (e_node h) = length (st_nodes s') /\
      exists nd,
        h_node s' h = Some nd /\ n_count nd = 0 /\ n_delta nd = None /\ n_grad nd = None /\
        (e_tracked h = false -> n_children nd = [] /\ p_bop (n_pay nd) = None) /\
        (e_tracked h = true ->
         (exists code, p_bop (n_pay nd) = Some code) /\
         existsb e_tracked (n_children nd) = true /\
         (is_composite k = false ->
          n_children nd = hs \/
          exists h3, n_children nd = hs ++ [h3] /\ e_tracked h3 = false)).
  Proof.
    intros s k hs s' h H Hc Hs0.
    destruct (apply_op_res s k hs s' h H Hc Hs0) as (r & cs & [_ R] & Hcs & Hprim).
    destruct R as (Ht & Hk & Hid & _ & nd & Hn & H1 & H2 & H3 & Hf & Htr).
    split; [exact Ht|]. split; [congruence|]. split; [exact Hid|].
    exists nd. split; [exact Hn|]. repeat (split; [assumption|]). split.
    - intros E. apply Hf. congruence.
    - intros E. assert (Et : existsb e_tracked hs = true) by congruence.
      destruct (Htr Et) as [Hch Hcode]. split; [exact Hcode|]. rewrite Hch.
      split; [apply Hcs; exact Et|exact Hprim].
  Qed.

  (** a user closure is always recorded: the result is tracked whatever the operands are *)
  Theorem apply_op_custom : forall (s : state) c hs s' h,
      apply_op O s (OCustom c) hs = Some (s', h) ->
      exists r, op_res s s' h r true hs.
  Proof.
    intros s c hs s' h H.
    assert (H' : op_custom O s c hs = Some (s', h)) by (destruct hs; exact H).
    apply custom_inv in H'. destruct H' as (args & r & _ & _ & R). exists r. exact R.
  Qed.

  (** [sum(0)] is [self.clone()]: the operand handle itself, nothing is allocated *)
  Theorem apply_op_sum0 : forall (s : state) x s' h,
      apply_op O s (OSum 0) [x] = Some (s', h) -> s' = s /\ h = x.
  Proof. intros s x s' h H. cbn in H. inversion H. auto. Qed.

  (** every operation frames the state *)
  Theorem apply_op_sframe : forall (s : state) k hs s' h,
      apply_op O s k hs = Some (s', h) -> sframe s s'.
  Proof.
    intros s k hs s' h H.
    destruct (is_custom_op k) eqn:Ec.
    - destruct k; try discriminate Ec. apply apply_op_custom in H. destruct H as (r & R). apply R.
    - destruct (is_sum0 k) eqn:Es.
      + destruct k as [| | | | | | | | | |k| | | | | | | |]; try discriminate Es.
        destruct k; [|discriminate Es].
        destruct hs as [|x [|y l]]; try discriminate H.
        apply apply_op_sum0 in H. destruct H as [-> _]. apply sframe_refl.
      + destruct (apply_op_res s k hs s' h H Ec Es) as (r & cs & R & _). apply R.
  Qed.
End OpsFacts.

(** * P1: every instruction frames the state *)

Section StepFrame.
  Context {F : Type} (O : ScalarOps F).

  Notation state := (@state F).

  Lemma clear_grad_sframe : forall (s : state) h s', clear_grad s h = Some s' -> sframe s s'.
  Proof.
    intros s h s' H. unfold clear_grad in H.
    apply bindI in H. destruct H as (nd & Hn & H). apply bindI in H. destruct H as (g & Hp & H).
    inversion H. apply sframe_with_nodes. apply sk_prefix_eq.
    apply (put_sk (st_nodes s) (e_node h) nd _ g Hp Hn). reflexivity.
  Qed.

  (** the optimizer empties gradient slots and appends fresh nodes; no premise needed *)
  Lemma gd_update_sframe : forall (s : state) lr params s' out,
      gd_update O s lr params = Some (s', out) -> sframe s s'.
  Proof.
    intros s lr params s' out H. unfold gd_update in H. cbv zeta in H.
    apply bindI in H. destruct H as (pv & _ & H). apply bindI in H. destruct H as (pg & _ & H).
    apply bindI in H. destruct H as (s1 & H1 & H). apply bindI in H. destruct H as ([[s2 buf] out2] & H2 & H).
    inversion H. subst s2 out2. clear H.
    apply (sframe_trans s s1 s').
    - revert H1. apply (fold_opt_inv sframe (fun st h => clear_grad st h)).
      + apply sframe_refl.
      + apply sframe_trans.
      + intros a b a' _ Hc. eapply clear_grad_sframe. exact Hc.
    - change s' with (fst (fst (s', buf, out))). change s1 with (fst (fst (s1, sgd_zip O lr (concat pv) (concat pg), @nil handle))).
      revert H2.
      apply (fold_opt_inv (fun a a' : state * list F * list handle => sframe (fst (fst a)) (fst (fst a')))
                          (fun (st : state * list F * list handle) (p : handle * bool) =>
                             let '(s', buf', out) := st in
                             let h := fst p in
                             if snd p then Some (s', buf', out ++ [h])
                             else
                               a <- h_arr s' h ;;
                               let n := length (vals a) in
                               check (n <=? length buf') ;;
                               na <- mk (dims a) (firstn n buf') ;;
                               let '(s'', h') := alloc s' na [] None None in
                               Some (s'', skipn n buf', out ++ [mkh (e_node h') true true]))).
      + intros a. apply sframe_refl.
      + intros a b c. apply sframe_trans.
      + intros [[sa ba] oa] [hb fb] [[sc bc] oc] _ Hst. cbn [fst snd] in *.
        destruct fb.
        * inversion Hst. apply sframe_refl.
        * apply bindI in Hst. destruct Hst as (a & _ & Hst). cbv zeta in Hst.
          apply bindI in Hst. destruct Hst as (_ & _ & Hst).
          apply bindI in Hst. destruct Hst as (na & _ & Hst).
          destruct (alloc sa na [] None None) as [s'' h'] eqn:Ea. inversion Hst. subst.
          eapply alloc_sframe. exact Ea.
  Qed.
  Lemma apply_act_sframe : forall (s : state) a h s' h',
      apply_act O s a h = Some (s', h') -> sframe s s'.
  Proof.
    intros s a h s' h' H. destruct a; cbn [apply_act] in H.
    - inversion H. apply sframe_refl.
    - apply unary_inv in H. destruct H as (x & r & _ & _ & R). apply R.
    - apply unary_inv in H. destruct H as (x & r & _ & _ & R). apply R.
    - apply softmax_track in H. destruct H as (r & he & hs & R & _). apply R.
  Qed.

  Lemma layer_forward_sframe : forall (s : state) l h s' h',
      layer_forward O s l h = Some (s', h') -> sframe s s'.
  Proof.
    intros s l h s' h' H. unfold layer_forward in H. destruct (l_conv l) as [[sr sc]|].
    - apply bindI in H. destruct H as ([s1 hc] & H1 & H).
      apply bindI in H. destruct H as ([s2 h2] & H2 & H).
      apply conv_track in H1. destruct H1 as (r & hcv & R1 & _).
      apply binary_inv in H2. destruct H2 as (a & b & r2 & _ & _ & _ & R2).
      apply apply_act_sframe in H.
      eapply sframe_trans; [apply R1|]. eapply sframe_trans; [apply R2|exact H].
    - apply bindI in H. destruct H as ([s1 h1] & H1 & H).
      apply matmul_inv in H1. destruct H1 as (a & b & c & r & h3 & _ & _ & _ & _ & R & _).
      apply apply_act_sframe in H. eapply sframe_trans; [apply R|exact H].
  Qed.

  Lemma model_forward_inv : forall (s : state) h s' out,
      model_forward O s h = Some (s', out) ->
      exists s1, sframe s s1 /\ s' = with_output s1 (Some out).
  Proof.
    intros s h s' out H. unfold model_forward in H.
    apply bindI in H. destruct H as ([s1 o1] & H1 & H). inversion H. subst. clear H.
    exists s1. split; [|reflexivity].
    change s1 with (fst (s1, out)). change s with (fst (s, h)) at 1. revert H1.
    apply (fold_opt_inv (fun a a' : state * handle => sframe (fst a) (fst a'))
                        (fun (st : state * handle) (l : layer) =>
                           let '(s', h) := st in layer_forward O s' l h)).
    - intros a. apply sframe_refl.
    - intros a b c. apply sframe_trans.
    - intros [sa ha] l [sb hb] _ Hl. cbn [fst]. eapply layer_forward_sframe. exact Hl.
  Qed.

  Lemma cost_apply_sframe : forall (s : state) c ho ht s' h,
      cost_apply O s c ho ht = Some (s', h) -> sframe s s'.
  Proof.
    intros s c ho ht s' h H. unfold cost_apply in H.
    apply bindI in H. destruct H as (o & _ & H). destruct c.
    - cbv zeta in H. apply bindI in H. destruct H as ([s1 d] & H1 & H).
      apply bindI in H. destruct H as ([s2 p] & H2 & H).
      apply sub_track in H1. destruct H1 as (r1 & hn & R1 & _).
      apply unary_inv in H2. destruct H2 as (a2 & r2 & _ & _ & R2).
      apply unary_inv in H. destruct H as (a3 & r3 & _ & _ & R3).
      eapply sframe_trans; [apply R1|]. eapply sframe_trans; [apply R2|apply R3].
    - apply bindI in H. destruct H as (batch & _ & H).
      apply bindI in H. destruct H as ([s1 nt] & H1 & H).
      apply bindI in H. destruct H as ([s2 lo] & H2 & H).
      apply bindI in H. destruct H as ([s3 m] & H3 & H).
      apply unary_inv in H1. destruct H1 as (a1 & r1 & _ & _ & R1).
      apply unary_inv in H2. destruct H2 as (a2 & r2 & _ & _ & R2).
      apply binary_inv in H3. destruct H3 as (a3 & b3 & r3 & _ & _ & _ & R3).
      apply unary_inv in H. destruct H as (a4 & r4 & _ & _ & R4).
      eapply sframe_trans; [apply R1|]. eapply sframe_trans; [apply R2|].
      eapply sframe_trans; [apply R3|apply R4].
  Qed.

  Lemma model_backward_sframe : forall (s : state) h s' loss,
      model_backward O s h = Some (s', loss) -> sframe s s'.
  Proof.
    intros s h s' loss H. unfold model_backward in H.
    apply bindI in H. destruct H as (output & _ & H).
    apply bindI in H. destruct H as ([s1 err] & H1 & H).
    apply bindI in H. destruct H as ([g lg] & Hb & H).
    apply bindI in H. destruct H as (ea & _ & H). inversion H. subst. clear H.
    apply cost_apply_sframe in H1. eapply sframe_trans; [exact H1|].
    apply sframe_with_nodes. apply sk_prefix_eq. cbn [fst].
    apply (run_backward_sk (E O) _ _ _ _ _ _ Hb).
  Qed.

  Lemma model_update_inv : forall (s s' : state),
      model_update O s = Some s' -> exists s1 ls, sframe s s1 /\ s' = with_layers s1 ls.
  Proof.
    intros s s' H. unfold model_update in H.
    apply bindI in H. destruct H as ([s1 hs] & H1 & H). inversion H. subst.
    exists s1. eexists. split; [|reflexivity]. eapply gd_update_sframe. exact H1.
  Qed.

  Lemma make_layer_sframe : forall (s : state) l s' ly, make_layer s l = Some (s', ly) -> sframe s s'.
  Proof.
    intros s l s' ly H. destruct l; cbn [make_layer] in H.
    - apply bindI in H. destruct H as (wa & _ & H). apply bindI in H. destruct H as (ba & _ & H).
      destruct (alloc s wa [] None None) as [s1 hw] eqn:E1.
      destruct (alloc s1 ba [] None None) as [s2 hb] eqn:E2. inversion H. subst.
      eapply sframe_trans; eapply alloc_sframe; eassumption.
    - apply bindI in H. destruct H as (wa & _ & H). apply bindI in H. destruct H as (ba & _ & H).
      destruct (alloc s wa [] None None) as [s1 hw] eqn:E1.
      destruct (alloc s1 ba [] None None) as [s2 hb] eqn:E2. inversion H. subst.
      eapply sframe_trans; eapply alloc_sframe; eassumption.
  Qed.
  (** ** pool slots *)

  (** the slots an instruction rebinds *)
  Definition rebound (i : @instr F) : list nat :=
    match i with
    | IDrop h | ITakeVec h | ITracked h | IUntracked h | IStart h | IStop h => [h]
    | IUpdate _ hs => hs
    | _ => []
    end.

  Definition changes_layers (i : @instr F) : bool :=
    match i with IModel _ _ _ | IModelUpdate => true | _ => false end.
  Definition changes_config (i : @instr F) : bool :=
    match i with IModel _ _ _ => true | _ => false end.
  Definition changes_output (i : @instr F) : bool :=
    match i with IForward _ => true | _ => false end.

  Definition pframe (L : list nat) (cl cc co : bool) (s s1 : state) : Prop :=
    sk_prefix (st_nodes s) (st_nodes s1) /\
    length (st_pool s1) = length (st_pool s) /\
    (forall j, ~ In j L -> nth_error (st_pool s1) j = nth_error (st_pool s) j) /\
    st_tag s1 = st_tag s /\
    (cl = false -> st_layers s1 = st_layers s) /\
    (cc = false -> st_cost s1 = st_cost s /\ st_lr s1 = st_lr s) /\
    (co = false -> st_output s1 = st_output s).

  Lemma sframe_pframe : forall L cl cc co (s s1 : state), sframe s s1 -> pframe L cl cc co s s1.
  Proof.
    intros L cl cc co s s1 (A1 & A2 & A3 & A4 & A5 & A6 & A7). unfold pframe.
    rewrite A1. repeat split; auto.
  Qed.

  Lemma pframe_refl : forall L cl cc co (s : state), pframe L cl cc co s s.
  Proof. intros. apply sframe_pframe. apply sframe_refl. Qed.

  Lemma pframe_trans : forall L cl cc co (s1 s2 s3 : state),
      pframe L cl cc co s1 s2 -> pframe L cl cc co s2 s3 -> pframe L cl cc co s1 s3.
  Proof.
    intros L cl cc co s1 s2 s3 (A1 & A2 & A3 & A4 & A5 & A6 & A7) (B1 & B2 & B3 & B4 & B5 & B6 & B7).
    unfold pframe. split; [eapply sk_prefix_trans; eassumption|].
    split; [congruence|]. split; [intros j Hj; rewrite (B3 j Hj); apply A3; exact Hj|].
    split; [congruence|]. split; [intros E1; rewrite (B5 E1); apply A5; exact E1|].
    split; [intros E1; destruct (A6 E1), (B6 E1); split; congruence|].
    intros E1. rewrite (B7 E1). apply A7. exact E1.
  Qed.

  Lemma set_var_inv : forall (s : state) i x s1,
      set_var s i x = Some s1 ->
      i < length (st_pool s) /\ s1 = with_pool s (firstn i (st_pool s) ++ x :: skipn (S i) (st_pool s)).
  Proof.
    intros s i x s1 H. unfold set_var, set_nth in H.
    destruct (i <? length (st_pool s)) eqn:E; [|discriminate]. apply Nat.ltb_lt in E.
    cbn [obind] in H. inversion H. auto.
  Qed.

  Lemma set_var_pframe : forall L cl cc co (s : state) i x s1,
      set_var s i x = Some s1 -> In i L -> pframe L cl cc co s s1.
  Proof.
    intros L cl cc co s i x s1 H Hin. apply set_var_inv in H. destruct H as [Hi ->].
    unfold pframe. cbn [st_nodes st_pool st_tag st_layers st_cost st_lr st_output with_pool].
    split; [apply sk_prefix_refl|]. split; [apply set_nth_length; exact Hi|].
    split; [|repeat split; reflexivity].
    intros j Hj. rewrite set_nth_spec by exact Hi.
    destruct (j =? i) eqn:E; [|reflexivity]. apply Nat.eqb_eq in E. subst j. contradiction.
  Qed.

  Lemma set_var_slot : forall (s : state) i x s1,
      set_var s i x = Some s1 -> nth_error (st_pool s1) i = Some x.
  Proof.
    intros s i x s1 H. apply set_var_inv in H. destruct H as [Hi ->]. cbn [st_pool with_pool].
    rewrite set_nth_spec by exact Hi. rewrite Nat.eqb_refl. reflexivity.
  Qed.

  (** the shape of every successful step: some framed state, then one pushed slot *)
  Lemma step_shape : forall (s : state) i s' o,
      step O s i = Some (s', o) ->
      exists s1 x, s' = push s1 x /\
                   pframe (rebound i) (changes_layers i) (changes_config i) (changes_output i)
                          (with_tag s (length (st_pool s))) s1.
  Proof.
    intros s0 i s' o H. unfold step in H. cbv zeta in H.
    set (s := with_tag s0 (length (st_pool s0))) in *.
    destruct i; cbn [rebound changes_layers changes_config changes_output].
    - (* ILeaf *) apply bindI in H. destruct H as (a & _ & H).
      destruct (alloc s a [] None None) as [s1 h] eqn:Ea. inversion H. subst.
      eexists. eexists. split; [reflexivity|]. apply sframe_pframe. eapply alloc_sframe. exact Ea.
    - (* IZeros *) apply bindI in H. destruct H as (a & _ & H).
      destruct (alloc s a [] None None) as [s1 h] eqn:Ea. inversion H. subst.
      eexists. eexists. split; [reflexivity|]. apply sframe_pframe. eapply alloc_sframe. exact Ea.
    - (* IFromFlat *) apply bindI in H. destruct H as (a & _ & H).
      destruct (alloc s a [] None None) as [s1 h] eqn:Ea. inversion H. subst.
      eexists. eexists. split; [reflexivity|]. apply sframe_pframe. eapply alloc_sframe. exact Ea.
    - (* IFromArrays *) apply bindI in H. destruct H as (args & _ & H).
      apply bindI in H. destruct H as (a & _ & H).
      destruct (alloc s a [] None None) as [s1 h] eqn:Ea. inversion H. subst.
      eexists. eexists. split; [reflexivity|]. apply sframe_pframe. eapply alloc_sframe. exact Ea.
    - (* IOp *) apply bindI in H. destruct H as (hs & _ & H).
      apply bindI in H. destruct H as ([s1 h] & Hop & H). apply bindI in H. destruct H as (a & _ & H).
      inversion H. subst. eexists. eexists. split; [reflexivity|].
      apply sframe_pframe. eapply apply_op_sframe. exact Hop.
    - (* IClone *) apply bindI in H. destruct H as (x & _ & H). inversion H. subst.
      eexists. eexists. split; [reflexivity|]. apply pframe_refl.
    - (* IDrop *) apply bindI in H. destruct H as (x & _ & H). apply bindI in H. destruct H as (s1 & Hs & H).
      inversion H. subst. eexists. eexists. split; [reflexivity|].
      eapply set_var_pframe; [exact Hs|left; reflexivity].
    - (* ITracked *) apply bindI in H. destruct H as (x & _ & H). apply bindI in H. destruct H as (s1 & Hs & H).
      inversion H. subst. eexists. eexists. split; [reflexivity|].
      eapply set_var_pframe; [exact Hs|left; reflexivity].
    - (* IUntracked *) apply bindI in H. destruct H as (x & _ & H). apply bindI in H. destruct H as (s1 & Hs & H).
      inversion H. subst. eexists. eexists. split; [reflexivity|].
      eapply set_var_pframe; [exact Hs|left; reflexivity].
    - (* IStart *) apply bindI in H. destruct H as (x & _ & H). apply bindI in H. destruct H as (s1 & Hs & H).
      inversion H. subst. eexists. eexists. split; [reflexivity|].
      eapply set_var_pframe; [exact Hs|left; reflexivity].
    - (* IStop *) apply bindI in H. destruct H as (x & _ & H). apply bindI in H. destruct H as (s1 & Hs & H).
      inversion H. subst. eexists. eexists. split; [reflexivity|].
      eapply set_var_pframe; [exact Hs|left; reflexivity].
    - (* IBackward *) apply bindI in H. destruct H as (x & _ & H).
      apply bindI in H. destruct H as (sd & _ & H). apply bindI in H. destruct H as ([g lg] & Hb & H).
      inversion H. subst. eexists. eexists. split; [reflexivity|].
      apply sframe_pframe. apply sframe_with_nodes. apply sk_prefix_eq. cbn [fst].
      apply (run_backward_sk (E O) _ _ _ _ _ _ Hb).
    - (* IGrad *) apply bindI in H. destruct H as (x & _ & H). inversion H. subst.
      eexists. eexists. split; [reflexivity|]. apply pframe_refl.
    - (* IClearGrad *) apply bindI in H. destruct H as (x & _ & H).
      apply bindI in H. destruct H as (s1 & Hc & H). inversion H. subst.
      eexists. eexists. split; [reflexivity|]. apply sframe_pframe. eapply clear_grad_sframe. exact Hc.
    - (* IFetchGrad *) apply bindI in H. destruct H as (x & _ & H).
      destruct (grad_of s x) as [g|].
      + destruct (alloc s g [] None None) as [s1 hg] eqn:Ea. inversion H. subst.
        eexists. eexists. split; [reflexivity|]. apply sframe_pframe. eapply alloc_sframe. exact Ea.
      + inversion H. subst. eexists. eexists. split; [reflexivity|]. apply pframe_refl.
    - (* ITakeVec *) apply bindI in H. destruct H as (x & _ & H). apply bindI in H. destruct H as (a & _ & H).
      apply bindI in H. destruct H as (_ & _ & H). apply bindI in H. destruct H as (s1 & Hs & H).
      inversion H. subst. eexists. eexists. split; [reflexivity|].
      eapply set_var_pframe; [exact Hs|left; reflexivity].
    - (* IIndex *) apply bindI in H. destruct H as (x & _ & H). apply bindI in H. destruct H as (a & _ & H).
      apply bindI in H. destruct H as (v & _ & H). inversion H. subst.
      eexists. eexists. split; [reflexivity|]. apply pframe_refl.
    - (* IIndexFlat *) apply bindI in H. destruct H as (x & _ & H). apply bindI in H. destruct H as (a & _ & H).
      apply bindI in H. destruct H as (v & _ & H). inversion H. subst.
      eexists. eexists. split; [reflexivity|]. apply pframe_refl.
    - (* IEq *) apply bindI in H. destruct H as (x & _ & H). apply bindI in H. destruct H as (y & _ & H).
      apply bindI in H. destruct H as (a & _ & H). apply bindI in H. destruct H as (b & _ & H).
      inversion H. subst. eexists. eexists. split; [reflexivity|]. apply pframe_refl.
    - (* IObs *) apply bindI in H. destruct H as (x & _ & H). apply bindI in H. destruct H as (a & _ & H).
      inversion H. subst. eexists. eexists. split; [reflexivity|]. apply pframe_refl.
    - (* ISumAll *) apply bindI in H. destruct H as (x & _ & H). apply bindI in H. destruct H as (a & _ & H).
      inversion H. subst. eexists. eexists. split; [reflexivity|]. apply pframe_refl.
    - (* IUpdate *) apply bindI in H. destruct H as (params & _ & H).
      apply bindI in H. destruct H as ([s1 out] & Hg & H). apply bindI in H. destruct H as (s2 & Hf & H).
      inversion H. subst. eexists. eexists. split; [reflexivity|].
      apply (pframe_trans _ _ _ _ s s1 s2).
      + apply sframe_pframe. eapply gd_update_sframe. exact Hg.
      + revert Hf.
        apply (fold_opt_inv (pframe hs false false false)
                            (fun (st : state) (p : nat * handle) => set_var st (fst p) (Some (snd p)))).
        * apply pframe_refl.
        * apply pframe_trans.
        * intros a [j hj] a' Hin Hsv. cbn [fst snd] in Hsv.
          eapply set_var_pframe; [exact Hsv|]. apply in_combine_l in Hin. exact Hin.
    - (* IModel *) apply bindI in H. destruct H as ([s1 layers] & Hf & H). inversion H. subst.
      eexists. eexists. split; [reflexivity|].
      assert (Hs1 : sframe s s1).
      { change s1 with (fst (s1, layers)). change s with (fst (s, @nil layer)) at 1. revert Hf.
        apply (fold_opt_inv (fun a a' : state * list layer => sframe (fst a) (fst a'))
                            (fun (st : state * list layer) (l : layer_spec) =>
                               let '(s', out) := st in
                               r <- make_layer s' l ;;
                               let '(s'', ly) := r in Some (s'', out ++ [ly]))).
        - intros a. apply sframe_refl.
        - intros a b c0. apply sframe_trans.
        - intros [sa la] l0 [sb lb] _ Hl. cbn [fst].
          apply bindI in Hl. destruct Hl as ([s'' ly] & Hm & Hl). inversion Hl. subst.
          eapply make_layer_sframe. exact Hm. }
      destruct Hs1 as (A1 & A2 & A3 & A4 & A5 & A6 & A7). unfold pframe.
      cbn [st_nodes st_pool st_tag st_layers st_cost st_lr st_output with_config with_layers].
      rewrite A1. repeat split; auto; discriminate.
    - (* IForward *) apply bindI in H. destruct H as (x & _ & H).
      apply bindI in H. destruct H as ([s1 out] & Hm & H). apply bindI in H. destruct H as (a & _ & H).
      inversion H. subst. eexists. eexists. split; [reflexivity|].
      apply model_forward_inv in Hm. destruct Hm as (s2 & (A1 & A2 & A3 & A4 & A5 & A6 & A7) & ->).
      unfold pframe. cbn [st_nodes st_pool st_tag st_layers st_cost st_lr st_output with_output].
      rewrite A1. repeat split; auto; discriminate.
    - (* IModelBackward *) apply bindI in H. destruct H as (x & _ & H).
      apply bindI in H. destruct H as ([s1 loss] & Hm & H). inversion H. subst.
      eexists. eexists. split; [reflexivity|]. apply sframe_pframe.
      eapply model_backward_sframe. exact Hm.
    - (* IModelUpdate *) apply bindI in H. destruct H as (s1 & Hm & H). inversion H. subst.
      eexists. eexists. split; [reflexivity|].
      apply model_update_inv in Hm. destruct Hm as (s2 & ls & (A1 & A2 & A3 & A4 & A5 & A6 & A7) & ->).
      unfold pframe. cbn [st_nodes st_pool st_tag st_layers st_cost st_lr st_output with_layers].
      rewrite A1. repeat split; auto; discriminate.
    - (* IParams *) inversion H. subst. eexists. eexists. split; [reflexivity|]. apply pframe_refl.
  Qed.
  Lemma nth_error_app_old : forall {A} (l : list A) x j,
      j < length l -> nth_error (l ++ [x]) j = nth_error l j.
  Proof. intros A l x j H. apply nth_error_app1. exact H. Qed.

  (** P1 (C08): no instruction changes the payload (dimensions, values, closure, buffer
      identity) or the child entries of an existing node; nodes are only appended; exactly
      one pool slot is appended and only the slots [rebound i] may be rebound *)
  Theorem step_frame : forall (s : state) i s' o,
      step O s i = Some (s', o) ->
      (forall id nd, nth_error (st_nodes s) id = Some nd ->
         exists nd', nth_error (st_nodes s') id = Some nd' /\ n_pay nd' = n_pay nd /\
                     n_children nd' = n_children nd) /\
      length (st_nodes s) <= length (st_nodes s') /\
      length (st_pool s') = S (length (st_pool s)) /\
      (forall j, j < length (st_pool s) -> ~ In j (rebound i) ->
                 nth_error (st_pool s') j = nth_error (st_pool s) j) /\
      st_tag s' = length (st_pool s) /\
      (changes_layers i = false -> st_layers s' = st_layers s) /\
      (changes_config i = false -> st_cost s' = st_cost s /\ st_lr s' = st_lr s) /\
      (changes_output i = false -> st_output s' = st_output s).
  Proof.
    intros s i s' o H. apply step_shape in H.
    destruct H as (s1 & x & -> & (A1 & A2 & A3 & A4 & A5 & A6 & A7)).
    cbn [st_nodes st_pool st_tag st_layers st_cost st_lr st_output with_tag push with_pool] in *.
    split; [intros id nd Hn; eapply sk_prefix_nth; eassumption|].
    split; [apply sk_prefix_length; exact A1|].
    split; [rewrite app_length, A2; cbn [length]; lia|].
    split; [|auto].
    intros j Hj Hn. rewrite nth_error_app_old by (rewrite A2; exact Hj). apply A3. exact Hn.
  Qed.

  (** consequently every live handle in a slot that is not rebound denotes the same array *)
  Corollary step_live_handle : forall (s : state) i s' o j x,
      step O s i = Some (s', o) -> var s j = Some x -> ~ In j (rebound i) ->
      var s' j = Some x /\ forall a, h_arr s x = Some a -> h_arr s' x = Some a.
  Proof.
    intros s i s' o j x H Hv Hn. destruct (step_frame s i s' o H) as (B1 & _ & _ & B4 & _).
    assert (Hj : j < length (st_pool s)).
    { unfold var in Hv. apply nth_error_Some. destruct (nth_error (st_pool s) j); [discriminate|discriminate Hv]. }
    split.
    - unfold var in *. rewrite (B4 j Hj Hn). exact Hv.
    - intros a Ha. unfold h_arr, h_node in *.
      destruct (nth_error (st_nodes s) (e_node x)) as [nd|] eqn:En; [|discriminate].
      destruct (B1 _ _ En) as (nd' & En' & Hp & _). rewrite En'. cbn [obind] in *. rewrite Hp. exact Ha.
  Qed.

  (** ** whole programs *)

  Fixpoint exec (s : state) (p : list (@instr F)) : option (state * list (@obs F)) :=
    match p with
    | [] => Some (s, [])
    | i :: p' =>
      r <- step O s i ;;
      let '(s1, o) := r in
      r2 <- exec s1 p' ;;
      let '(s2, os) := r2 in Some (s2, o :: os)
    end.

  (** [run_from] executes the longest panic-free prefix *)
  Lemma run_from_exec : forall p (s : state) os b,
      run_from O s p = (os, b) ->
      exists s', exec s (firstn (length os) p) = Some (s', os) /\
                 (b = false -> length os = length p).
  Proof.
    induction p as [|i p IH]; intros s os b H; cbn [run_from] in H.
    - inversion H. subst. exists s. split; [reflexivity|reflexivity].
    - destruct (step O s i) as [[s1 o]|] eqn:Es.
      + destruct (run_from O s1 p) as [os1 b1] eqn:Er. inversion H. subst.
        destruct (IH s1 os1 b Er) as (s' & He & Hb). exists s'.
        cbn [length firstn exec]. rewrite Es. cbn [obind]. rewrite He. cbn [obind].
        split; [reflexivity|]. intros E. rewrite (Hb E). reflexivity.
      + inversion H. subst. exists s. split; [reflexivity|discriminate].
  Qed.

  Theorem run_frame : forall p (s : state) s' os,
      exec s p = Some (s', os) ->
      (forall id nd, nth_error (st_nodes s) id = Some nd ->
         exists nd', nth_error (st_nodes s') id = Some nd' /\ n_pay nd' = n_pay nd /\
                     n_children nd' = n_children nd) /\
      length (st_nodes s) <= length (st_nodes s') /\
      length (st_pool s') = length (st_pool s) + length p /\
      (forall j, j < length (st_pool s) -> ~ In j (flat_map rebound p) ->
                 nth_error (st_pool s') j = nth_error (st_pool s) j).
  Proof.
    induction p as [|i p IH]; intros s s' os H; cbn [exec] in H.
    - inversion H. subst. split; [intros id nd Hn; exists nd; auto|].
      split; [lia|]. split; [cbn; lia|]. auto.
    - apply bindI in H. destruct H as ([s1 o] & Hs & H).
      apply bindI in H. destruct H as ([s2 os2] & He & H). inversion H. subst. clear H.
      destruct (step_frame s i s1 o Hs) as (B1 & B2 & B3 & B4 & _).
      destruct (IH s1 s' os2 He) as (C1 & C2 & C3 & C4).
      split; [|split; [lia|split; [rewrite C3, B3; cbn [length]; lia|]]].
      + intros id nd Hn. destruct (B1 id nd Hn) as (nd1 & Hn1 & Hp1 & Hc1).
        destruct (C1 id nd1 Hn1) as (nd2 & Hn2 & Hp2 & Hc2). exists nd2.
        split; [exact Hn2|]. split; congruence.
      + intros j Hj Hn. cbn [flat_map] in Hn. rewrite C4.
        * apply B4; [exact Hj|]. intros Hin. apply Hn. apply in_or_app. left. exact Hin.
        * rewrite B3. lia.
        * intros Hin. apply Hn. apply in_or_app. right. exact Hin.
  Qed.
End StepFrame.

(** * Slots: drops, flag changes, clones, passes; P3 (C12): handles are transparent *)

Section Handles.
  Context {F : Type} (O : ScalarOps F).

  Notation state := (@state F).

  Definition retag (s : state) : state := with_tag s (length (st_pool s)).

  Lemma var_retag : forall (s : state) i, var (retag s) i = var s i.
  Proof. reflexivity. Qed.

  (** the instructions that rewrite one slot in place, and what they write *)
  Definition slot_of (i : @instr F) : option nat :=
    match i with
    | IDrop h | ITracked h | IUntracked h | IStart h | IStop h => Some h
    | _ => None
    end.

  Definition new_slot (i : @instr F) (x : handle) : option handle :=
    match i with
    | ITracked _ => Some (mkh (e_node x) true true)
    | IUntracked _ => Some (mkh (e_node x) false false)
    | IStart _ => Some (mkh (e_node x) true (e_keep x))
    | IStop _ => Some (mkh (e_node x) false (e_keep x))
    | _ => None
    end.

  Definition set_slot (s : state) (h : nat) (v : option handle) : state :=
    with_pool s (firstn h (st_pool s) ++ v :: skipn (S h) (st_pool s)).

  (** P3 (d) and the flag instructions, exactly: slot [h] is overwritten (emptied by [IDrop],
      the same node with new flags otherwise), one empty slot is pushed, and nothing else
      (nodes, other slots, layers, output) changes *)
  Theorem step_slot : forall (s : state) i h s' o,
      slot_of i = Some h -> step O s i = Some (s', o) ->
      exists x, var s h = Some x /\ h < length (st_pool s) /\
                s' = push (set_slot (retag s) h (new_slot i x)) None.
  Proof.
    intros s i h s' o Hs H. unfold step in H. cbv zeta in H. fold (retag s) in H.
    destruct i; try discriminate Hs; inversion Hs; subst; cbn [new_slot];
      apply bindI in H; destruct H as (x & Hx & H); apply bindI in H; destruct H as (s1 & Hsv & H);
        inversion H; subst; exists x; (split; [exact Hx|]);
          apply set_var_inv in Hsv; destruct Hsv as [Hlt ->]; (split; [exact Hlt|reflexivity]).
  Qed.

  (** [ITakeVec] (moving the buffer out of a uniquely owned array) empties the slot like a
      drop; the observation is the value vector *)
  Theorem step_takevec : forall (s : state) h s' o,
      step O s (ITakeVec h) = Some (s', o) ->
      exists x a, var s h = Some x /\ h_arr s x = Some a /\ h < length (st_pool s) /\
                  s' = push (set_slot (retag s) h None) None /\ o = [(7, [], vals a)].
  Proof.
    intros s h s' o H. unfold step in H. cbv zeta in H. fold (retag s) in H.
    apply bindI in H. destruct H as (x & Hx & H). apply bindI in H. destruct H as (a & Ha & H).
    apply bindI in H. destruct H as (_ & _ & H). apply bindI in H. destruct H as (s1 & Hsv & H).
    inversion H. subst. exists x, a. split; [exact Hx|]. split; [exact Ha|].
    apply set_var_inv in Hsv. destruct Hsv as [Hlt ->]. split; [exact Hlt|]. split; reflexivity.
  Qed.

  Corollary step_drop : forall (s : state) h s' o,
      step O s (IDrop h) = Some (s', o) ->
      st_nodes s' = st_nodes s /\ st_layers s' = st_layers s /\ st_output s' = st_output s /\
      nth_error (st_pool s') h = Some None /\
      forall j, j < length (st_pool s) -> j <> h -> nth_error (st_pool s') j = nth_error (st_pool s) j.
  Proof.
    intros s h s' o H. destruct (step_slot s (IDrop h) h s' o eq_refl H) as (x & Hx & Hlt & ->).
    cbn [st_nodes st_layers st_output st_pool push set_slot with_pool retag with_tag new_slot].
    repeat (split; [reflexivity|]). split.
    - rewrite nth_error_app_old by (rewrite set_nth_length by exact Hlt; exact Hlt).
      rewrite set_nth_spec by exact Hlt. rewrite Nat.eqb_refl. reflexivity.
    - intros j Hj Hne. rewrite nth_error_app_old by (rewrite set_nth_length by exact Hlt; exact Hj).
      rewrite set_nth_spec by exact Hlt. apply Nat.eqb_neq in Hne. rewrite Hne. reflexivity.
  Qed.

  (** flag changes through one handle: the slot keeps its node, every other slot (other
      clones of the same node included) and every node are untouched *)
  Corollary clone_flag_independent : forall (s : state) i h s' o,
      slot_of i = Some h -> i <> IDrop h -> step O s i = Some (s', o) ->
      st_nodes s' = st_nodes s /\
      (exists x y, var s h = Some x /\ var s' h = Some y /\ e_node y = e_node x) /\
      forall j, j < length (st_pool s) -> j <> h -> nth_error (st_pool s') j = nth_error (st_pool s) j.
  Proof.
    intros s i h s' o Hs Hnd H. destruct (step_slot s i h s' o Hs H) as (x & Hx & Hlt & ->).
    cbn [st_nodes st_pool push set_slot with_pool retag with_tag].
    split; [reflexivity|]. split.
    - assert (Hy : exists y, new_slot i x = Some y /\ e_node y = e_node x).
      { destruct i; try discriminate Hs; inversion Hs; subst; cbn [new_slot];
          try (eexists; split; [reflexivity|reflexivity]). contradiction Hnd. reflexivity. }
      destruct Hy as (y & Hy & Hn). exists x, y. split; [exact Hx|]. split; [|exact Hn].
      unfold var. cbn [st_pool push set_slot with_pool retag with_tag].
      rewrite nth_error_app_old by (rewrite set_nth_length by exact Hlt; exact Hlt).
      rewrite set_nth_spec by exact Hlt. rewrite Nat.eqb_refl. cbn [obind]. exact Hy.
    - intros j Hj Hne. rewrite nth_error_app_old by (rewrite set_nth_length by exact Hlt; exact Hj).
      rewrite set_nth_spec by exact Hlt. apply Nat.eqb_neq in Hne. rewrite Hne. reflexivity.
  Qed.

  (** P3 (a): [Clone] pushes the handle of the slot, flags included, and nothing else *)
  Theorem step_clone : forall (s : state) h s' o,
      step O s (IClone h) = Some (s', o) <->
      exists x, var s h = Some x /\ s' = push (retag s) (Some x) /\ o = [].
  Proof.
    intros s h s' o. unfold step. cbv zeta. fold (retag s). rewrite var_retag. split.
    - intros H. apply bindI in H. destruct H as (x & Hx & H). inversion H. subst. eauto.
    - intros (x & Hx & -> & ->). rewrite Hx. reflexivity.
  Qed.

  (** a pass leaves the pool alone, and the payload and child entries (flags included) of
      every node; only counts, deltas and gradients move *)
  Theorem step_backward : forall (s : state) h seed s' o,
      step O s (IBackward h seed) = Some (s', o) ->
      st_pool s' = st_pool s ++ [None] /\ st_layers s' = st_layers s /\
      st_output s' = st_output s /\
      map n_pay (st_nodes s') = map n_pay (st_nodes s) /\
      map n_children (st_nodes s') = map n_children (st_nodes s).
  Proof.
    intros s h seed s' o H. unfold step in H. cbv zeta in H.
    apply bindI in H. destruct H as (x & _ & H). apply bindI in H. destruct H as (sd & _ & H).
    apply bindI in H. destruct H as ([g lg] & Hb & H). inversion H. subst. clear H.
    cbn [st_pool st_layers st_output st_nodes push with_pool with_nodes with_tag fst].
    repeat (split; [reflexivity|]). unfold run_backward in Hb. split.
    - exact (backward_pay (E O) _ _ _ _ _ _ _ _ Hb).
    - exact (backward_children (E O) _ _ _ _ _ _ _ _ Hb).
  Qed.

  (** ** P3 (b): values, gradients and clearing depend only on the node of a handle *)

  Lemma h_arr_node_only : forall (s : state) h1 h2, e_node h1 = e_node h2 -> h_arr s h1 = h_arr s h2.
  Proof. intros s h1 h2 E1. unfold h_arr, h_node. rewrite E1. reflexivity. Qed.

  Lemma grad_of_node_only : forall (s : state) h1 h2,
      e_node h1 = e_node h2 -> grad_of s h1 = grad_of s h2.
  Proof. intros s h1 h2 E1. unfold grad_of, h_node. rewrite E1. reflexivity. Qed.

  Lemma clear_grad_node_only : forall (s : state) h1 h2,
      e_node h1 = e_node h2 -> clear_grad s h1 = clear_grad s h2.
  Proof. intros s h1 h2 E1. unfold clear_grad, h_node. rewrite E1. reflexivity. Qed.

  (** a gradient cleared through one handle is cleared for every clone *)
  Lemma clear_grad_seen : forall (s : state) h1 h2 s',
      clear_grad s h1 = Some s' -> e_node h2 = e_node h1 -> grad_of s' h2 = None.
  Proof.
    intros s h1 h2 s' H E1. unfold clear_grad in H.
    apply bindI in H. destruct H as (nd & _ & H). apply bindI in H. destruct H as (g & Hp & H).
    inversion H. subst. unfold grad_of, h_node. cbn [st_nodes with_nodes]. rewrite E1.
    pose proof (put_nth_eq _ _ _ _ Hp) as Hq. unfold Program.gnode in *. rewrite Hq. reflexivity.
  Qed.

  (** a gradient deposited by a pass is read through any handle of the node: the
      observation of [IGrad] depends on the slot only through the node *)
  Lemma step_grad_node_only : forall (s : state) i j x y,
      var s i = Some x -> var s j = Some y -> e_node x = e_node y ->
      step O s (IGrad i) = step O s (IGrad j).
  Proof.
    intros s i j x y Hx Hy E1. unfold step. cbv zeta. fold (retag s). rewrite !var_retag, Hx, Hy.
    cbn [obind]. rewrite (grad_of_node_only (retag s) x y E1). reflexivity.
  Qed.

  (** ** P3 (c): instructions read their operands only through [var] *)

  Theorem step_op_args : forall (s : state) k args args',
      mapM (var s) args = mapM (var s) args' -> step O s (IOp k args) = step O s (IOp k args').
  Proof.
    intros s k args args' H. unfold step. cbv zeta.
    change (mapM (var (with_tag s (length (st_pool s)))) args) with (mapM (var s) args).
    change (mapM (var (with_tag s (length (st_pool s)))) args') with (mapM (var s) args').
    rewrite H. reflexivity.
  Qed.

  Lemma mapM_var_replace : forall (s : state) i j args,
      var s i = var s j ->
      mapM (var s) (map (fun a => if a =? i then j else a) args) = mapM (var s) args.
  Proof.
    intros s i j args H. induction args as [|a args IH]; [reflexivity|].
    cbn [map mapM]. rewrite IH. destruct (a =? i) eqn:E1; [|reflexivity].
    apply Nat.eqb_eq in E1. subst a. rewrite H. reflexivity.
  Qed.

  (** an operand slot may be replaced by any slot holding an equal handle (a clone) *)
  Corollary step_op_clone : forall (s : state) k args i j,
      var s i = var s j ->
      step O s (IOp k (map (fun a => if a =? i then j else a) args)) = step O s (IOp k args).
  Proof. intros s k args i j H. apply step_op_args. apply mapM_var_replace. exact H. Qed.

  (** the instructions that read one slot *)
  Definition reads_one (c : nat -> @instr F) : Prop :=
    (exists seed, c = fun h => IBackward h seed) \/ c = IGrad \/ c = IClearGrad \/ c = IFetchGrad \/
    (exists idx, c = fun h => IIndex h idx) \/ (exists n, c = fun h => IIndexFlat h n) \/
    c = IObs \/ c = ISumAll \/ c = IClone \/ c = IForward \/ c = IModelBackward \/
    (exists h2, c = fun h => IEq h h2) \/ (exists h1, c = fun h => IEq h1 h).

  Theorem step_read_clone : forall (s : state) c i j,
      reads_one c -> var s i = var s j -> step O s (c i) = step O s (c j).
  Proof.
    intros s c i j Hc H. unfold step. cbv zeta. fold (retag s).
    assert (H' : var (retag s) i = var (retag s) j) by exact H.
    destruct Hc as [(seed & ->)|[->|[->|[->|[(idx & ->)|[(n & ->)|[->|[->|[->|[->|[->|[(h2 & ->)|(h1 & ->)]]]]]]]]]]]];
      cbv beta; rewrite ?H'; reflexivity.
  Qed.
End Handles.

Print Assumptions backward_sk.
Print Assumptions apply_op_res.
Print Assumptions apply_op_tracking.
Print Assumptions apply_op_custom.
Print Assumptions gd_update_sframe.
Print Assumptions step_frame.
Print Assumptions step_live_handle.
Print Assumptions run_frame.
Print Assumptions step_slot.
Print Assumptions step_takevec.
Print Assumptions clone_flag_independent.
Print Assumptions step_clone.
Print Assumptions step_backward.
Print Assumptions step_op_clone.
Print Assumptions step_read_clone.
Print Assumptions conv_fwd.
