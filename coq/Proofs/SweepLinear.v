(** (S1) Linearity of the declarative backward pass in the seed (property C17), and,
    as special cases, additivity in the seed (S3).

    [comb x y] stands for [alpha * x + beta * y] with fixed scalars.  The general
    version carries a compatibility relation [ok] on pairs of adjoint values (think
    "equal dimensions"), under which the three operations of the engine commute with
    [comb]; the version asked for is the instance [ok := fun _ _ => True]. *)

From Coq Require Import List Arith Bool Lia PeanoNat.
From Corgi Require Import Lib.OptionMonad Model.Engine Proofs.EngineDefs Proofs.EngineBase
     Proofs.AdjointSpec Proofs.SweepBase.
Import ListNotations.

Section Map2o.
  Context {D : Type}.
  Variable comb : D -> D -> D.

  Definition comb_opt (a b : option D) : option D :=
    match a, b with
    | Some x, Some y => Some (comb x y)
    | _, _ => None
    end.

  (** pointwise combination of two lists of optional values (truncating to the shorter) *)
  Fixpoint map2o (l1 l2 : list (option D)) : list (option D) :=
    match l1, l2 with
    | a :: l1', b :: l2' => comb_opt a b :: map2o l1' l2'
    | _, _ => []
    end.

  Lemma comb_opt_none_r : forall a, comb_opt a None = None.
  Proof. intro a. destruct a; reflexivity. Qed.

  Lemma map2o_nil_r : forall l, map2o l [] = [].
  Proof. intro l. destruct l; reflexivity. Qed.

  Lemma map2o_nth : forall l1 l2 j,
      nth j (map2o l1 l2) None = comb_opt (nth j l1 None) (nth j l2 None).
  Proof.
    intro l1. induction l1 as [|a l1 IH]; intros l2 j.
    - simpl. destruct j; reflexivity.
    - destruct l2 as [|b l2].
      + simpl. destruct j; rewrite comb_opt_none_r; reflexivity.
      + destruct j as [|j]; [reflexivity | simpl; apply IH].
  Qed.

  Lemma map2o_length : forall l1 l2, length l1 = length l2 -> length (map2o l1 l2) = length l1.
  Proof.
    intro l1. induction l1 as [|a l1 IH]; intros l2 H.
    - reflexivity.
    - destruct l2 as [|b l2]; [discriminate H |]. simpl. f_equal. apply IH.
      simpl in H. lia.
  Qed.
End Map2o.

Section LinearOk.
  Context {P D : Type}.
  Variable E : eops P D.
  Variable comb : D -> D -> D.
  Variable ok : D -> D -> Prop.

  Local Notation map2o := (map2o comb).

  Hypothesis H_bop : forall p pays saved x y dx dy,
      ok x y ->
      eo_bop E p pays saved x = Some dx -> eo_bop E p pays saved y = Some dy ->
      eo_bop E p pays saved (comb x y) = Some (map2o dx dy) /\
      (forall i a b, nth_error dx i = Some (Some a) -> nth_error dy i = Some (Some b) -> ok a b).

  Hypothesis H_flat : forall x y p x' y',
      ok x y ->
      eo_flat E x p = Some x' -> eo_flat E y p = Some y' ->
      eo_flat E (comb x y) p = Some (comb x' y') /\ ok x' y'.

  Hypothesis H_add : forall x1 x2 y1 y2 x y,
      ok x1 y1 -> ok x2 y2 ->
      eo_add E x1 x2 = Some x -> eo_add E y1 y2 = Some y ->
      eo_add E (comb x1 y1) (comb x2 y2) = Some (comb x y) /\ ok x y.

  (** slot-wise relation between the tables of the two passes and of the combined pass *)
  Definition lin3o (a b c : option D) : Prop :=
    match a, b with
    | Some x, Some y => ok x y /\ c = Some (comb x y)
    | None, None => c = None
    | _, _ => False
    end.

  Definition lin3 (ta tb tc : table) : Prop :=
    length ta = length tb /\ length tc = length ta /\
    forall j, lin3o (nth j ta None) (nth j tb None) (nth j tc None).

  Lemma lin3_map2o : forall ta tb tc, lin3 ta tb tc -> tc = map2o ta tb.
  Proof.
    intros ta tb tc (Hl1 & Hl2 & H).
    apply (nth_ext tc (map2o ta tb) None None).
    - rewrite map2o_length by exact Hl1. exact Hl2.
    - intros j _. rewrite map2o_nth. specialize (H j). unfold lin3o in H.
      destruct (nth j ta None) as [x|]; destruct (nth j tb None) as [y|]; simpl;
        try contradiction; [destruct H as [_ H]; exact H | exact H].
  Qed.

  (** the same for contribution lists *)
  Inductive lin_cs : list (nat * D) -> list (nat * D) -> list (nat * D) -> Prop :=
  | lin_cs_nil : lin_cs [] [] []
  | lin_cs_cons : forall i a b ca cb cc,
      ok a b -> lin_cs ca cb cc -> lin_cs ((i, a) :: ca) ((i, b) :: cb) ((i, comb a b) :: cc).

  Lemma lin_cs_nil_l : forall cb cc, lin_cs [] cb cc -> cb = [] /\ cc = [].
  Proof. intros cb cc H. inversion H. tauto. Qed.

  Lemma lin_cs_nil_r : forall ca cc, lin_cs ca [] cc -> ca = [] /\ cc = [].
  Proof. intros ca cc H. inversion H. tauto. Qed.

  Lemma cfold_lin : forall g es dsa dsb csa csb,
      (forall i, i < length es ->
                 ((exists d, nth_error dsa i = Some (Some d)) <->
                  (exists d, nth_error dsb i = Some (Some d)))) ->
      (forall i a b, nth_error dsa i = Some (Some a) -> nth_error dsb i = Some (Some b) -> ok a b) ->
      cfold E g es dsa = Some csa -> cfold E g es dsb = Some csb ->
      exists csc, cfold E g es (map2o dsa dsb) = Some csc /\ lin_cs csa csb csc.
  Proof.
    intros g es. induction es as [|e es IH]; intros dsa dsb csa csb Hshape Hok Ha Hb.
    - rewrite cfold_nil_l in Ha, Hb. injection Ha as Ha. injection Hb as Hb. subst csa csb.
      exists []. split; [apply cfold_nil_l | constructor].
    - assert (Hshape' : forall dsa' dsb' oa ob,
                 dsa = oa ++ dsa' -> dsb = ob ++ dsb' -> length oa = 1 -> length ob = 1 ->
                 forall i, i < length es ->
                           ((exists d, nth_error dsa' i = Some (Some d)) <->
                            (exists d, nth_error dsb' i = Some (Some d)))).
      { intros dsa' dsb' oa ob Hea Heb Hla Hlb i Hi.
        specialize (Hshape (S i)). simpl in Hshape. subst dsa dsb.
        destruct oa as [|oa1 [|? ?]]; try discriminate Hla.
        destruct ob as [|ob1 [|? ?]]; try discriminate Hlb.
        simpl in Hshape. apply Hshape. lia. }
      destruct dsa as [|oa dsa]; destruct dsb as [|ob dsb].
      + rewrite cfold_nil_r in Ha, Hb. injection Ha as Ha. injection Hb as Hb. subst csa csb.
        exists []. split; [apply cfold_nil_r | constructor].
      + (* the first closure returned fewer deltas: the surplus of the second is all [None] *)
        rewrite cfold_nil_r in Ha. injection Ha as Ha. subst csa.
        rewrite cfold_cons in Hb. apply obind_some in Hb. destruct Hb as (restb & Hrb & Hb).
        destruct ob as [d|].
        * exfalso. destruct (proj2 (Hshape 0 (Nat.lt_0_succ _))) as [d0 Hd0];
            [exists d; reflexivity | discriminate Hd0].
        * injection Hb as Hb. subst csb.
          destruct (IH [] dsb [] restb) as (csc & Hc & Hl).
          -- intros i Hi. split; intros [d Hd]; [destruct i; discriminate Hd |].
             exfalso. destruct (proj2 (Hshape (S i) (proj1 (Nat.succ_lt_mono _ _) Hi))) as [d0 Hd0];
               [exists d; exact Hd | discriminate Hd0].
          -- intros i a b Hia _. destruct i; discriminate Hia.
          -- apply cfold_nil_r.
          -- exact Hrb.
          -- apply lin_cs_nil_l in Hl. destruct Hl as [Hl1 Hl2]. subst restb csc.
             exists []. split; [apply cfold_nil_r | constructor].
      + rewrite cfold_nil_r in Hb. injection Hb as Hb. subst csb.
        rewrite cfold_cons in Ha. apply obind_some in Ha. destruct Ha as (resta & Hra & Ha).
        destruct oa as [d|].
        * exfalso. destruct (proj1 (Hshape 0 (Nat.lt_0_succ _))) as [d0 Hd0];
            [exists d; reflexivity | discriminate Hd0].
        * injection Ha as Ha. subst csa.
          destruct (IH dsa [] resta []) as (csc & Hc & Hl).
          -- intros i Hi. split; intros [d Hd]; [|destruct i; discriminate Hd].
             exfalso. destruct (proj1 (Hshape (S i) (proj1 (Nat.succ_lt_mono _ _) Hi))) as [d0 Hd0];
               [exists d; exact Hd | discriminate Hd0].
          -- intros i a b _ Hib. destruct i; discriminate Hib.
          -- exact Hra.
          -- apply cfold_nil_r.
          -- apply lin_cs_nil_r in Hl. destruct Hl as [Hl1 Hl2]. subst resta csc.
             exists []. split; [rewrite map2o_nil_r; apply cfold_nil_r | constructor].
      + rewrite cfold_cons in Ha, Hb.
        apply obind_some in Ha. destruct Ha as (resta & Hra & Ha).
        apply obind_some in Hb. destruct Hb as (restb & Hrb & Hb).
        destruct (IH dsa dsb resta restb) as (restc & Hrc & Hl).
        * apply (Hshape' dsa dsb [oa] [ob]); reflexivity.
        * intros i a b Hia Hib. apply (Hok (S i) a b); assumption.
        * exact Hra.
        * exact Hrb.
        * change (map2o (oa :: dsa) (ob :: dsb)) with (comb_opt comb oa ob :: map2o dsa dsb).
          rewrite cfold_cons. rewrite Hrc. simpl.
          pose proof (Hshape 0 (Nat.lt_0_succ _)) as H0. simpl in H0.
          destruct oa as [a|]; destruct ob as [b|].
          -- apply obind_some in Ha. destruct Ha as (ch & Hch & Ha).
             apply obind_some in Ha. destruct Ha as (a' & Hfa & Ha). injection Ha as Ha. subst csa.
             apply obind_some in Hb. destruct Hb as (ch' & Hch' & Hb).
             rewrite Hch in Hch'. injection Hch' as Hch'. subst ch'.
             apply obind_some in Hb. destruct Hb as (b' & Hfb & Hb). injection Hb as Hb. subst csb.
             assert (Hab : ok a b) by (apply (Hok 0 a b); reflexivity).
             destruct (H_flat a b (n_pay ch) a' b' Hab Hfa Hfb) as [Hfc Hab'].
             simpl. rewrite Hch. simpl. rewrite Hfc. simpl.
             eexists. split; [reflexivity | constructor; assumption].
          -- exfalso. destruct (proj1 H0) as [d0 Hd0]; [exists a; reflexivity | discriminate Hd0].
          -- exfalso. destruct (proj2 H0) as [d0 Hd0]; [exists b; reflexivity | discriminate Hd0].
          -- injection Ha as Ha. injection Hb as Hb. subst csa csb. simpl.
             exists restc. split; [reflexivity | exact Hl].
  Qed.

  Lemma contribs_lin : forall g n da db csa csb,
      bop_contract E g -> ok da db ->
      contribs E g n da = Some csa -> contribs E g n db = Some csb ->
      exists csc, contribs E g n (comb da db) = Some csc /\ lin_cs csa csb csc.
  Proof.
    intros g n da db csa csb Hbc Hab Ha Hb.
    apply contribs_inv in Ha. destruct Ha as (nd & Hnd & Ha).
    apply contribs_inv in Hb. destruct Hb as (nd' & Hnd' & Hb).
    rewrite Hnd in Hnd'. injection Hnd' as Hnd'. subst nd'.
    rewrite contribs_unfold, Hnd. simpl.
    destruct Ha as [[Hop Hca] | [Hop (pays & dsa & Hpays & Hdsa & Hcfa)]].
    - destruct Hb as [[_ Hcb] | [Hop' _]]; [|rewrite Hop in Hop'; discriminate Hop'].
      subst csa csb. rewrite Hop. exists []. split; [reflexivity | constructor].
    - destruct Hb as [[Hop' _] | [_ (pays' & dsb & Hpays' & Hdsb & Hcfb)]];
        [rewrite Hop in Hop'; discriminate Hop' |].
      rewrite Hpays in Hpays'. injection Hpays' as Hpays'. subst pays'.
      rewrite Hop, Hpays. simpl.
      destruct (H_bop _ _ _ da db dsa dsb Hab Hdsa Hdsb) as [Hdsc Hokds].
      rewrite Hdsc. simpl.
      apply cfold_lin; try assumption.
      intros i Hi.
      destruct (nth_error (n_children nd) i) as [e|] eqn:He;
        [|apply nth_error_None in He; lia].
      destruct (Hbc n nd pays da dsa Hnd Hdsa) as [_ Hia].
      destruct (Hbc n nd pays db dsb Hnd Hdsb) as [_ Hib].
      rewrite <- (Hia i e He). apply (Hib i e He).
  Qed.

  Lemma tab_add_lin : forall ta tb tc i a b ta' tb',
      lin3 ta tb tc -> ok a b ->
      tab_add E ta (i, a) = Some ta' -> tab_add E tb (i, b) = Some tb' ->
      exists tc', tab_add E tc (i, comb a b) = Some tc' /\ lin3 ta' tb' tc'.
  Proof.
    intros ta tb tc i a b ta' tb' (Hl1 & Hl2 & H3) Hab Ha Hb.
    apply tab_add_inv in Ha. simpl in Ha. destruct Ha as (Hia & Hla & nwa & Hnwa & Hja).
    apply tab_add_inv in Hb. simpl in Hb. destruct Hb as (Hib & Hlb & nwb & Hnwb & Hjb).
    assert (Hnwc : add_into E (nth i tc None) (comb a b) = Some (comb nwa nwb) /\ ok nwa nwb).
    { pose proof (H3 i) as Hi. unfold lin3o in Hi.
      destruct (nth i ta None) as [x|]; destruct (nth i tb None) as [y|]; try contradiction.
      - destruct Hi as [Hxy Hc]. rewrite Hc. simpl in *.
        apply (H_add x a y b nwa nwb Hxy Hab Hnwa Hnwb).
      - rewrite Hi. simpl in *. injection Hnwa as Hnwa. injection Hnwb as Hnwb. subst nwa nwb.
        split; [reflexivity | exact Hab]. }
    destruct Hnwc as [Hnwc Hoknw].
    destruct (tab_add_intro E tc (i, comb a b) (comb nwa nwb)) as [tc' Hc]; simpl; [lia | exact Hnwc |].
    exists tc'. split; [exact Hc |].
    apply tab_add_inv in Hc. simpl in Hc. destruct Hc as (_ & Hlc & nwc & Hnwc' & Hjc).
    rewrite Hnwc in Hnwc'. injection Hnwc' as Hnwc'. subst nwc.
    split; [lia |]. split; [lia |].
    intro j. rewrite Hja, Hjb, Hjc. destruct (j =? i).
    - simpl. split; [exact Hoknw | reflexivity].
    - apply H3.
  Qed.

  Lemma tab_add_all_lin : forall csa csb csc,
      lin_cs csa csb csc ->
      forall ta tb tc ta' tb',
        lin3 ta tb tc ->
        tab_add_all E ta csa = Some ta' -> tab_add_all E tb csb = Some tb' ->
        exists tc', tab_add_all E tc csc = Some tc' /\ lin3 ta' tb' tc'.
  Proof.
    intros csa csb csc Hl. induction Hl as [|i a b ca cb cc Hab Hl IH]; intros ta tb tc ta' tb' H3 Ha Hb.
    - rewrite tab_add_all_nil in Ha, Hb. injection Ha as Ha. injection Hb as Hb. subst ta' tb'.
      exists tc. split; [reflexivity | exact H3].
    - rewrite tab_add_all_cons in Ha, Hb.
      apply obind_some in Ha. destruct Ha as (ta1 & Ha1 & Ha).
      apply obind_some in Hb. destruct Hb as (tb1 & Hb1 & Hb).
      destruct (tab_add_lin ta tb tc i a b ta1 tb1 H3 Hab Ha1 Hb1) as (tc1 & Hc1 & H31).
      destruct (IH ta1 tb1 tc1 ta' tb' H31 Ha Hb) as (tc' & Hc & H3').
      exists tc'. split; [|exact H3'].
      rewrite tab_add_all_cons, Hc1. exact Hc.
  Qed.

  Lemma sweep_lin : forall g ids ta tb tc ta' tb',
      bop_contract E g -> lin3 ta tb tc ->
      sweep E g ids ta = Some ta' -> sweep E g ids tb = Some tb' ->
      exists tc', sweep E g ids tc = Some tc' /\ lin3 ta' tb' tc'.
  Proof.
    intros g ids. induction ids as [|n rest IH]; intros ta tb tc ta' tb' Hbc H3 Ha Hb.
    - injection Ha as Ha. injection Hb as Hb. subst ta' tb'.
      exists tc. split; [reflexivity | exact H3].
    - pose proof H3 as (_ & _ & Hn). specialize (Hn n). unfold lin3o in Hn.
      rewrite sweep_cons.
      apply sweep_cons_inv in Ha. apply sweep_cons_inv in Hb.
      destruct Ha as [[Hda Ha] | (da & csa & ta1 & Hda & Hcsa & Hta1 & Ha)];
        destruct Hb as [[Hdb Hb] | (db & csb & tb1 & Hdb & Hcsb & Htb1 & Hb)];
        rewrite Hda, Hdb in Hn; try contradiction.
      + rewrite Hn. eapply IH; eassumption.
      + destruct Hn as [Hab Hc]. rewrite Hc.
        destruct (contribs_lin g n da db csa csb Hbc Hab Hcsa Hcsb) as (csc & Hcsc & Hl).
        rewrite Hcsc. simpl.
        destruct (tab_add_all_lin csa csb csc Hl ta tb tc ta1 tb1 H3 Hta1 Htb1) as (tc1 & Htc1 & H31).
        rewrite Htc1. simpl.
        eapply IH; eassumption.
  Qed.

  Lemma init_table_lin : forall n r s1 s2,
      ok s1 s2 ->
      lin3 (init_table n r s1) (init_table n r s2) (init_table n r (comb s1 s2)).
  Proof.
    intros n r s1 s2 Hs. split; [|split].
    - unfold init_table. rewrite !app_length, !repeat_length. reflexivity.
    - unfold init_table. rewrite !app_length, !repeat_length. reflexivity.
    - intro j. rewrite !init_table_nth. destruct (j =? r); simpl; [split; [exact Hs | reflexivity] | reflexivity].
  Qed.

  (** linearity in the seed, for compatible seeds *)
  Theorem sweep_linear_ok : forall g r s1 s2 t1 t2,
      bop_contract E g -> ok s1 s2 ->
      adjoints E g r s1 = Some t1 -> adjoints E g r s2 = Some t2 ->
      adjoints E g r (comb s1 s2) = Some (map2o t1 t2) /\
      length t1 = length t2 /\
      (forall j, nth j t1 None = None <-> nth j t2 None = None) /\
      (forall j a b, nth j t1 None = Some a -> nth j t2 None = Some b -> ok a b).
  Proof.
    intros g r s1 s2 t1 t2 Hbc Hs H1 H2. unfold adjoints in *.
    destruct (sweep_lin g _ _ _ _ t1 t2 Hbc (init_table_lin (length g) r s1 s2 Hs) H1 H2)
      as (tc & Hc & H3).
    rewrite Hc. rewrite (lin3_map2o t1 t2 tc H3).
    destruct H3 as (Hl & _ & H3).
    split; [reflexivity |]. split; [exact Hl |]. split.
    - intro j. specialize (H3 j). unfold lin3o in H3.
      destruct (nth j t1 None); destruct (nth j t2 None); try contradiction;
        split; intro; try discriminate; reflexivity.
    - intros j a b Ha Hb. specialize (H3 j). unfold lin3o in H3.
      rewrite Ha, Hb in H3. tauto.
  Qed.
End LinearOk.

(** The statement as asked for: no compatibility side condition. *)
Section Linear.
  Context {P D : Type}.
  Variable E : eops P D.
  Variable comb : D -> D -> D.

  Local Notation map2o := (map2o comb).

  Hypothesis H_bop : forall p pays saved x y dx dy,
      eo_bop E p pays saved x = Some dx -> eo_bop E p pays saved y = Some dy ->
      eo_bop E p pays saved (comb x y) = Some (map2o dx dy).

  Hypothesis H_flat : forall x y p x' y',
      eo_flat E x p = Some x' -> eo_flat E y p = Some y' ->
      eo_flat E (comb x y) p = Some (comb x' y').

  Hypothesis H_add : forall x1 x2 y1 y2 x y,
      eo_add E x1 x2 = Some x -> eo_add E y1 y2 = Some y ->
      eo_add E (comb x1 y1) (comb x2 y2) = Some (comb x y).

  Theorem sweep_linear_gen : forall g r s1 s2 t1 t2,
      bop_contract E g ->
      adjoints E g r s1 = Some t1 -> adjoints E g r s2 = Some t2 ->
      adjoints E g r (comb s1 s2) = Some (map2o t1 t2) /\
      length t1 = length t2 /\
      (forall j, nth j t1 None = None <-> nth j t2 None = None).
  Proof.
    intros g r s1 s2 t1 t2 Hbc H1 H2.
    destruct (sweep_linear_ok E comb (fun _ _ => True)) with (g := g) (r := r) (s1 := s1) (s2 := s2)
                                                           (t1 := t1) (t2 := t2)
      as (Ha & Hb & Hc & _); try assumption.
    - intros p pays saved x y dx dy _ Hx Hy. split; [eapply H_bop; eassumption | intros; exact I].
    - intros x y p x' y' _ Hx Hy. split; [eapply H_flat; eassumption | exact I].
    - intros x1 x2 y1 y2 x y _ _ Hx Hy. split; [eapply H_add; eassumption | exact I].
    - exact I.
    - tauto.
  Qed.

  (** the requested signature ([wfg] and [r < length g] are not needed) *)
  Theorem sweep_linear : forall g r s1 s2 t1 t2,
      wfg E g -> bop_contract E g -> r < length g ->
      adjoints E g r s1 = Some t1 -> adjoints E g r s2 = Some t2 ->
      adjoints E g r (comb s1 s2) = Some (map2o t1 t2) /\
      length t1 = length t2 /\
      (forall j, nth j t1 None = None <-> nth j t2 None = None).
  Proof. intros g r s1 s2 t1 t2 _ Hbc _ H1 H2. apply sweep_linear_gen; assumption. Qed.
End Linear.
