(** A value invariant of the reverse-mode engine: if every pending delta and every
    stored gradient satisfies a predicate [okd] relative to the payload of its node
    (think: "well-formed array of the node's dimensions"), and the three operations of
    the engine preserve it, then so does every (successful) pass.  Unlike
    [Proofs/EngineValue.v] this needs no algebra and no totality: the hypotheses only
    speak about SUCCESSFUL calls of [eo_flat], [eo_add], [eo_bop] on acceptable values. *)

From Coq Require Import List Arith Bool Lia PeanoNat.
From Corgi Require Import Lib.OptionMonad Model.Engine Proofs.EngineDefs Proofs.EngineBase
     Proofs.Propagate Proofs.EngineInv.
Import ListNotations.

Section Pred.
  Context {P D : Type}.
  Variable E : eops P D.

  Variable pok : P -> Prop.          (* acceptable payload *)
  Variable wfd : D -> Prop.          (* acceptable adjoint value, of whatever shape *)
  Variable okd : P -> D -> Prop.     (* acceptable adjoint value for a node of this payload *)

  Hypothesis okd_wfd : forall p x, okd p x -> wfd x.
  Hypothesis H_ones : forall p, pok p -> okd p (eo_ones E p).
  Hypothesis H_bop : forall p pays saved x ds i d,
      wfd x -> eo_bop E p pays saved x = Some ds -> nth_error ds i = Some (Some d) -> wfd d.
  Hypothesis H_flat : forall d p d', wfd d -> eo_flat E d p = Some d' -> okd p d'.
  Hypothesis H_add : forall p x y z, okd p x -> okd p y -> eo_add E x y = Some z -> okd p z.

  Definition nok (nd : node P D) : Prop :=
    pok (n_pay nd) /\
    (forall x, n_delta nd = Some x -> okd (n_pay nd) x) /\
    (forall x, n_grad nd = Some x -> okd (n_pay nd) x).

  Definition VInv (g : store P D) : Prop := forall id nd, nth_error g id = Some nd -> nok nd.

  Lemma VInv_put : forall g id nd' g', VInv g -> put g id nd' = Some g' -> nok nd' -> VInv g'.
  Proof.
    intros g id nd' g' HV Hput Hnok j nd Hj.
    apply put_inv in Hput. destruct Hput as (_ & _ & Hn). rewrite Hn in Hj.
    destruct (j =? id).
    - injection Hj as Hj. subst nd. exact Hnok.
    - apply (HV j nd Hj).
  Qed.

  Lemma VInv_nc : forall g g', map nc g' = map nc g -> VInv g -> VInv g'.
  Proof.
    intros g g' Hnc HV id nd' Hnd'.
    destruct (map_eq_nth nc g' g id nd' Hnc Hnd') as (nd & Hnd & Heq).
    unfold nc in Heq. injection Heq as Hp Hc Hd Hg.
    destruct (HV id nd Hnd) as (H1 & H2 & H3).
    unfold nok. rewrite <- Hp, <- Hd, <- Hg. tauto.
  Qed.

  Lemma put_pay : forall (g : store P D) id nd nd' g',
      put g id nd' = Some g' -> nth_error g id = Some nd -> n_pay nd' = n_pay nd ->
      map n_pay g' = map n_pay g.
  Proof. intros g id nd nd' g' Hput Hn Hp. eapply put_map; eassumption. Qed.

  (** [propagate] only changes consumer counts *)
  Lemma propagate_nc : forall f (g : store P D) id g',
      propagate f g id = Some g' -> map nc g' = map nc g.
  Proof.
    induction f as [|f IHf]; intros g id g' H.
    - discriminate H.
    - rewrite propagate_S in H. apply obind_some in H. destruct H as (nd & _ & H).
      revert g g' H. generalize (n_children nd) as es.
      induction es as [|e es IHes]; intros g g' H.
      + injection H as H. subst g'. reflexivity.
      + change (fold_left (pstep f) es (pstep f (Some g) e) = Some g') in H.
        destruct (pstep f (Some g) e) as [g1|] eqn:Hstep;
          [| rewrite fold_left_none in H by (intro b; reflexivity); discriminate H].
        rewrite (IHes g1 g' H).
        unfold pstep in Hstep. cbn [obind] in Hstep.
        destruct (e_tracked e).
        * apply obind_some in Hstep. destruct Hstep as (c & Hc & Hstep).
          apply obind_some in Hstep. destruct Hstep as (g2 & Hput & Hstep).
          assert (Hnc2 : map nc g2 = map nc g)
            by (eapply put_map; [exact Hput | exact Hc | reflexivity]).
          destruct (n_count c =? 0).
          -- rewrite (IHf g2 (e_node e) g1 Hstep). exact Hnc2.
          -- injection Hstep as Hstep. subst g1. exact Hnc2.
        * injection Hstep as Hstep. subst g1. reflexivity.
  Qed.

  Definition rec_ok (rec : @rec_t P D) : Prop :=
    forall g id keep seed log g' log',
      VInv g ->
      (forall s nd, seed = Some s -> nth_error g id = Some nd -> okd (n_pay nd) s) ->
      rec g id keep seed log = Some (g', log') ->
      VInv g' /\ map n_pay g' = map n_pay g.

  Lemma deliver_ok : forall rec g lg e od g' lg',
      rec_ok rec -> VInv g -> (forall d, od = Some d -> wfd d) ->
      deliver E rec (Some (g, lg)) (e, od) = Some (g', lg') ->
      VInv g' /\ map n_pay g' = map n_pay g.
  Proof.
    intros rec g lg e od g' lg' Hrec HV Hod H.
    destruct od as [d|].
    - unfold deliver in H. cbn [obind fst snd] in H.
      apply obind_some in H. destruct H as (c & Hc & H).
      apply obind_some in H. destruct H as (d' & Hd' & H).
      apply obind_some in H. destruct H as (nw & Hnw & H).
      apply obind_some in H. destruct H as (u & _ & H).
      apply obind_some in H. destruct H as (g1 & Hput & H).
      destruct (HV _ c Hc) as (Hp & Hdl & Hgr).
      assert (Hokd' : okd (n_pay c) d') by (eapply H_flat; [apply Hod; reflexivity | exact Hd']).
      assert (Hoknw : okd (n_pay c) nw).
      { destruct (n_delta c) as [x|] eqn:Hx.
        - eapply H_add; [apply Hdl; reflexivity | exact Hokd' | exact Hnw].
        - injection Hnw as Hnw. subst nw. exact Hokd'. }
      assert (HV1 : VInv g1).
      { eapply VInv_put; [exact HV | exact Hput |]. unfold nok. simpl.
        split; [exact Hp |]. split; [| exact Hgr].
        intros x Hx. injection Hx as Hx. subst x. exact Hoknw. }
      assert (Hp1 : map n_pay g1 = map n_pay g)
        by (eapply put_pay; [exact Hput | exact Hc | reflexivity]).
      destruct (n_count c =? 1).
      + destruct (Hrec g1 (e_node e) (e_keep e) None lg g' lg' HV1) as (HV' & Hp').
        * intros s nd Hs. discriminate Hs.
        * exact H.
        * split; [exact HV' | congruence].
      + injection H as H1 H2. subst g' lg'. split; assumption.
    - rewrite deliver_skip in H. injection H as H1 H2. subst g' lg'. split; [exact HV | reflexivity].
  Qed.

  Lemma fold_deliver_ok : forall rec ps g lg g' lg',
      rec_ok rec -> VInv g -> (forall e d, In (e, Some d) ps -> wfd d) ->
      fold_left (deliver E rec) ps (Some (g, lg)) = Some (g', lg') ->
      VInv g' /\ map n_pay g' = map n_pay g.
  Proof.
    intros rec ps. induction ps as [|[e od] ps IH]; intros g lg g' lg' Hrec HV Hps H.
    - injection H as H1 H2. subst g' lg'. split; [exact HV | reflexivity].
    - change (fold_left (deliver E rec) ps (deliver E rec (Some (g, lg)) (e, od)) = Some (g', lg')) in H.
      destruct (deliver E rec (Some (g, lg)) (e, od)) as [[g1 lg1]|] eqn:Hd;
        [| rewrite fold_deliver_none in H; discriminate H].
      destruct (deliver_ok rec g lg e od g1 lg1 Hrec HV) as (HV1 & Hp1).
      + intros d Hd'. subst od. apply (Hps e d). left. reflexivity.
      + exact Hd.
      + destruct (IH g1 lg1 g' lg' Hrec HV1) as (HV' & Hp').
        * intros e0 d0 Hin. apply (Hps e0 d0). right. exact Hin.
        * exact H.
        * split; [exact HV' | congruence].
  Qed.

  Lemma finish_ok : forall g2 id keep delta log2 g' log',
      VInv g2 -> (forall nd2, nth_error g2 id = Some nd2 -> okd (n_pay nd2) delta) ->
      finish E g2 id keep delta log2 = Some (g', log') ->
      VInv g' /\ map n_pay g' = map n_pay g2.
  Proof.
    intros g2 id keep delta log2 g' log' HV Hdelta H. unfold finish in H.
    apply obind_some in H. destruct H as (nd2 & Hnd2 & H).
    destruct ((match n_children nd2 with [] => true | _ => false end) || keep).
    - apply obind_some in H. destruct H as (ng & Hng & H).
      apply obind_some in H. destruct H as (g3 & Hput & H).
      injection H as H1 H2. subst g' log'.
      destruct (HV _ nd2 Hnd2) as (Hp & Hdl & Hgr).
      assert (Hokng : okd (n_pay nd2) ng).
      { destruct (n_grad nd2) as [x|] eqn:Hx.
        - eapply H_add; [apply Hgr; reflexivity | apply Hdelta; exact Hnd2 | exact Hng].
        - injection Hng as Hng. subst ng. apply Hdelta. exact Hnd2. }
      split.
      + eapply VInv_put; [exact HV | exact Hput |]. unfold nok. simpl.
        split; [exact Hp |]. split; [exact Hdl |].
        intros x Hx. injection Hx as Hx. subst x. exact Hokng.
      + eapply put_pay; [exact Hput | exact Hnd2 | reflexivity].
    - injection H as H1 H2. subst g' log'. split; [exact HV | reflexivity].
  Qed.

  Lemma pay_nth : forall (g g' : store P D) id nd nd',
      map n_pay g' = map n_pay g -> nth_error g id = Some nd -> nth_error g' id = Some nd' ->
      n_pay nd' = n_pay nd.
  Proof.
    intros g g' id nd nd' Hm Hn Hn'.
    destruct (map_eq_nth n_pay g' g id nd' Hm Hn') as (nd0 & Hn0 & Heq).
    rewrite Hn in Hn0. injection Hn0 as Hn0. subst nd0. symmetry. exact Heq.
  Qed.

  Lemma bw_body_ok : forall rec g1 id keep delta log g' log',
      rec_ok rec -> VInv g1 ->
      (forall nd1, nth_error g1 id = Some nd1 -> okd (n_pay nd1) delta) ->
      bw_body E rec g1 id keep delta log = Some (g', log') ->
      VInv g' /\ map n_pay g' = map n_pay g1.
  Proof.
    intros rec g1 id keep delta log g' log' Hrec HV Hdelta H. unfold bw_body in H.
    apply obind_some in H. destruct H as (nd1 & Hnd1 & H).
    apply obind_some in H. destruct H as ([g2 log2] & Hgl & H).
    assert (H2 : VInv g2 /\ map n_pay g2 = map n_pay g1).
    { destruct (eo_hasop E (n_pay nd1)).
      - apply obind_some in Hgl. destruct Hgl as (g1a & Hput1 & Hgl).
        apply obind_some in Hgl. destruct Hgl as (pays & _ & Hgl).
        apply obind_some in Hgl. destruct Hgl as (ds & Hds & Hgl).
        apply obind_some in Hgl. destruct Hgl as (nd1a & Hnd1a & Hgl).
        apply obind_some in Hgl. destruct Hgl as (g1b & Hput2 & Hgl).
        apply obind_some in Hgl. destruct Hgl as (u & _ & Hgl).
        destruct (HV _ nd1 Hnd1) as (Hp & Hdl & Hgr).
        assert (HVa : VInv g1a).
        { eapply VInv_put; [exact HV | exact Hput1 |]. unfold nok. simpl. tauto. }
        assert (Hpa : map n_pay g1a = map n_pay g1)
          by (eapply put_pay; [exact Hput1 | exact Hnd1 | reflexivity]).
        destruct (HVa _ nd1a Hnd1a) as (Hp' & Hdl' & Hgr').
        assert (HVb : VInv g1b).
        { eapply VInv_put; [exact HVa | exact Hput2 |]. unfold nok. simpl. tauto. }
        assert (Hpb : map n_pay g1b = map n_pay g1a)
          by (eapply put_pay; [exact Hput2 | exact Hnd1a | reflexivity]).
        assert (Hwf : forall e d, In (e, Some d) (combine (n_children nd1) ds) -> wfd d).
        { intros e d Hin. apply in_combine_r in Hin.
          destruct (In_nth_error _ _ Hin) as [i Hi].
          eapply H_bop; [eapply okd_wfd; apply Hdelta; exact Hnd1 | exact Hds | exact Hi]. }
        destruct (fold_deliver_ok rec _ g1b _ g2 log2 Hrec HVb Hwf Hgl) as (HV2 & Hp2).
        split; [exact HV2 | congruence].
      - apply obind_some in Hgl. destruct Hgl as (u & _ & Hgl).
        injection Hgl as Ha Hb. subst g2 log2. split; [exact HV | reflexivity]. }
    destruct H2 as (HV2 & Hp2).
    destruct (finish_ok g2 id keep delta log2 g' log' HV2) as (HV' & Hp').
    - intros nd2 Hnd2. rewrite (pay_nth g1 g2 id nd1 nd2 Hp2 Hnd1 Hnd2). apply Hdelta. exact Hnd1.
    - exact H.
    - split; [exact HV' | congruence].
  Qed.

  Lemma backward_rec_ok : forall f, rec_ok (backward E f).
  Proof.
    induction f as [|f IHf]; intros g id keep seed log g' log' HV Hseed H.
    - discriminate H.
    - rewrite backward_S in H.
      apply obind_some in H. destruct H as (nd & Hnd & H).
      apply obind_some in H. destruct H as ([g1 delta] & Hgd & H).
      destruct (HV _ nd Hnd) as (Hp & Hdl & Hgr).
      assert (H1 : VInv g1 /\ map n_pay g1 = map n_pay g /\ okd (n_pay nd) delta).
      { destruct (n_delta nd) as [x|] eqn:Hx.
        - apply obind_some in Hgd. destruct Hgd as (g1' & Hput & Hgd).
          injection Hgd as Ha Hb. subst g1' delta.
          split; [| split].
          + eapply VInv_put; [exact HV | exact Hput |]. unfold nok. simpl.
            split; [exact Hp |]. split; [intros y Hy; discriminate Hy | exact Hgr].
          + eapply put_pay; [exact Hput | exact Hnd | reflexivity].
          + apply Hdl. reflexivity.
        - apply obind_some in Hgd. destruct Hgd as (g1' & Hprop & Hgd).
          injection Hgd as Ha Hb. subst g1'.
          pose proof (propagate_nc _ _ _ _ Hprop) as Hnc.
          split; [| split].
          + eapply VInv_nc; [exact Hnc | exact HV].
          + change (map (fun x => fst (fst (fst (nc x)))) g1 = map (fun x => fst (fst (fst (nc x)))) g).
            rewrite <- (map_map nc (fun x => fst (fst (fst x))) g1).
            rewrite <- (map_map nc (fun x => fst (fst (fst x))) g).
            rewrite Hnc. reflexivity.
          + subst delta. destruct seed as [s|].
            * apply (Hseed s nd eq_refl Hnd).
            * apply H_ones. exact Hp. }
      destruct H1 as (HV1 & Hp1 & Hdelta).
      destruct (bw_body_ok (backward E f) g1 id keep delta log g' log' IHf HV1) as (HV' & Hp').
      + intros nd1 Hnd1. rewrite (pay_nth g g1 id nd nd1 Hp1 Hnd Hnd1). exact Hdelta.
      + exact H.
      + split; [exact HV' | congruence].
  Qed.

  (** every successful pass preserves the value invariant *)
  Theorem run_backward_vinv : forall (g : store P D) r keep seed g' log,
      VInv g ->
      (forall s nd, seed = Some s -> nth_error g r = Some nd -> okd (n_pay nd) s) ->
      run_backward E g r keep seed = Some (g', log) ->
      VInv g' /\ map n_pay g' = map n_pay g.
  Proof.
    intros g r keep seed g' log HV Hseed H. unfold run_backward in H.
    eapply backward_rec_ok; eassumption.
  Qed.
End Pred.

Print Assumptions run_backward_vinv.
