(** C01 for the CONCRETE engine [Program.E O]: reverse mode equals forward mode.

    After a successful backward pass on a sound, value-consistent store whose closures are
    supported (their local transpose identity is available), the gradients stored on the
    leaves are the transpose of the forward (dual-number) derivative of the result, applied
    to the seed:

      <s0, tan r> = sum over the leaves l <= r of <gradient stored on l, tangent of l>

    for every assignment of tangents to the leaves.  Untracked child entries are constants
    (stop-gradient) on both sides. *)

From Coq Require Import List Arith Bool Lia PeanoNat.
From Corgi Require Import Lib.OptionMonad Lib.Sums Model.Scalar Model.Arr Model.SlicedOp
     Model.Elementwise Model.Linalg Model.Ops Model.Engine Model.Program
     Proofs.ArrFacts Proofs.EngineDefs Proofs.EngineBase Proofs.Propagate Proofs.AdjointSpec
     Proofs.SweepBase Proofs.SweepAdjoint Proofs.SweepAdjointG Proofs.EngineValue
     Proofs.FlattenSpec Proofs.DualLift Proofs.LocalAdjoint Proofs.OpsWf Proofs.HistoryInv
     Proofs.ValueConcrete Proofs.FwdCode Proofs.CodeSupport Proofs.HistoryVC.
Import ListNotations.

Section C01.
  Context {F : Type} (O : ScalarOps F) (R : is_cring O).

  Local Notation pay := (@pay F).
  Local Notation gnode := (@gnode F).
  Local Notation E := (Program.E O).
  Local Notation E' := (ValueConcrete.E' O).
  Local Notation D2 := (dual_ops O).

  (** * Lists and sums *)

  Lemma ksum_vsum : forall l : list F, ksum (fadd O) (f0 O) l = vsum O l.
  Proof.
    intro l. induction l as [|x l IH]; [reflexivity |].
    cbn [ksum fold_right]. fold (ksum (fadd O) (f0 O) l). rewrite IH, (vsum_cons O R). reflexivity.
  Qed.

  Lemma dot_nil_l : forall y : list F, dot O [] y = f0 O.
  Proof. intro y. reflexivity. Qed.

  Lemma dot_cons : forall a x b y, dot O (a :: x) (b :: y) = fadd O (fmul O a b) (dot O x y).
  Proof. intros a x b y. unfold dot. cbn [combine map fst snd]. apply (vsum_cons O R). Qed.

  (** the pairing is additive in its first argument *)
  Lemma dot_zipw_add : forall x y t : list F,
      length x = length y ->
      dot O (zipw (fadd O) x y) t = fadd O (dot O x t) (dot O y t).
  Proof.
    intro x. induction x as [|a x IH]; intros [|b y] t H; simpl in H; try lia.
    - cbn [zipw combine map]. rewrite dot_nil_l. symmetry. apply (cr_add_0_l O R).
    - destruct t as [|c t].
      + unfold dot. cbn [zipw]. rewrite !combine_nil. cbn [map]. rewrite (vsum_nil O).
        symmetry. apply (cr_add_0_l O R).
      + change (zipw (fadd O) (a :: x) (b :: y)) with (fadd O a b :: zipw (fadd O) x y).
        rewrite !dot_cons, IH by lia.
        rewrite (cr_distr_l O R).
        rewrite <- !(cr_add_assoc O R). f_equal.
        rewrite !(cr_add_assoc O R). rewrite (cr_add_comm O R (dot O x t) (fmul O b c)). reflexivity.
  Qed.

  Lemma skipn_nth_cons : forall {A} i (l : list A) d,
      i < length l -> skipn i l = nth i l d :: skipn (S i) l.
  Proof.
    intros A i. induction i as [|i IH]; intros [|x l] d H; simpl in H; try lia.
    - reflexivity.
    - cbn [skipn nth]. apply IH. lia.
  Qed.

  (** * Forward tangents *)

  Section Tan.
    Variable g : list gnode.
    Variable lt : nat -> arr F.

    Lemma tans_length : forall n, length (tans O g lt n) = n.
    Proof.
      intro n. induction n as [|k IH]; [reflexivity |].
      cbn [tans]. rewrite app_length, IH. simpl. lia.
    Qed.

    Lemma tan_node : forall n, tan O g lt n = node_tan O g lt (tans O g lt n) n.
    Proof.
      intro n. unfold tan. cbn [tans]. rewrite app_nth2 by (rewrite tans_length; lia).
      rewrite tans_length, Nat.sub_diag. reflexivity.
    Qed.

    Lemma tans_nth : forall n m, m < n -> nth m (tans O g lt n) dummy_arr = tan O g lt m.
    Proof.
      intro n. induction n as [|k IH]; intros m Hm; [lia |].
      destruct (Nat.eq_dec m k) as [Heq | Hne].
      - subst m. reflexivity.
      - cbn [tans]. rewrite app_nth1 by (rewrite tans_length; lia). apply IH. lia.
    Qed.

    Lemma tan_leaf : forall n nd,
        nth_error g n = Some nd -> p_bop (n_pay nd) = None -> tan O g lt n = lt n.
    Proof. intros n nd Hnd Hb. rewrite tan_node. unfold node_tan. rewrite Hnd, Hb. reflexivity. Qed.

    Lemma tan_op : forall n nd code,
        nth_error g n = Some nd -> p_bop (n_pay nd) = Some code ->
        (forall e, In e (n_children nd) -> e_node e < n) ->
        tan O g lt n =
        match fwd_of_code D2 (inj2 O) code (p_dims (n_pay nd))
                          (lift_children O 0 (map e_tracked (n_children nd))
                                         (cvals g (n_children nd))
                                         (map (fun e => tan O g lt (e_node e)) (n_children nd))) with
        | Some RD => tangent RD
        | None => zeros_like O (pay_arr (n_pay nd))
        end.
    Proof.
      intros n nd code Hnd Hb Hlt. rewrite tan_node. unfold node_tan. rewrite Hnd, Hb. cbv zeta.
      rewrite (map_ext_in (fun e => nth (e_node e) (tans O g lt n) dummy_arr)
                          (fun e => tan O g lt (e_node e))); [reflexivity |].
      intros e He. apply tans_nth. apply Hlt. exact He.
    Qed.
  End Tan.

  (** * The hypotheses on the store *)

  (** every closure of the graph has its local identity, lifts to dual numbers, and is used
      on operands within its side condition *)
  Definition supported (g : list gnode) : Prop :=
    forall id nd code,
      nth_error g id = Some nd -> p_bop (n_pay nd) = Some code ->
      code_ok O code (p_dims (n_pay nd)) /\
      code_pre code (cvals g (n_children nd)) /\
      ~ matmul_nobias O code (cvals g (n_children nd)) (pay_arr (n_pay nd)).

  Definition leaf_tangents_ok (g : list gnode) (lt : nat -> arr F) : Prop :=
    forall l nd, nth_error g l = Some nd -> p_bop (n_pay nd) = None ->
                 tangent_for (pay_arr (n_pay nd)) (lt l).

  Definition grads_empty (g : list gnode) : Prop :=
    forall id nd, nth_error g id = Some nd -> n_grad nd = None.

  Section Graph.
    Variable g : list gnode.
    Variable lt : nat -> arr F.
    Hypothesis Hg : store_good g.
    Hypothesis Hvc : value_consistent O g.
    Hypothesis Hsup : supported g.
    Hypothesis Hlt : leaf_tangents_ok g lt.

    Local Notation tan := (tan O g lt).

    Lemma nval_nth : forall id nd, nth_error g id = Some nd -> nval g id = pay_arr (n_pay nd).
    Proof. intros id nd H. unfold nval. rewrite H. reflexivity. Qed.

    (** the operands of a node and their tangents, given the tangents below the node *)
    Lemma children_facts : forall n es,
        n <= length g -> (forall e, In e es -> e_node e < n) ->
        (forall m ndm, m < n -> nth_error g m = Some ndm ->
                       tangent_for (pay_arr (n_pay ndm)) (tan m)) ->
        Forall wf (cvals g es) /\
        Forall2 tangent_for (cvals g es) (map (fun e => tan (e_node e)) es).
    Proof.
      intros n es Hn Hes IH. induction es as [|e es IHes].
      - split; constructor.
      - destruct IHes as [H1 H2]; [intros e0 He0; apply Hes; right; exact He0 |].
        assert (He : e_node e < n) by (apply Hes; left; reflexivity).
        destruct (nth_error g (e_node e)) as [c|] eqn:Hc;
          [| apply nth_error_None in Hc; nlia].
        cbn [cvals map]. rewrite (nval_nth _ c Hc). split; constructor; try assumption.
        + destruct (Hg _ c Hc) as (_ & _ & _ & _ & Hw & _). exact Hw.
        + apply (IH _ c He Hc).
    Qed.

    (** an operation node: its dual-number forward run succeeds, has the node's value as
        primal part, and defines the node's tangent *)
    Lemma op_node : forall n nd code,
        nth_error g n = Some nd -> p_bop (n_pay nd) = Some code ->
        (forall m ndm, m < n -> nth_error g m = Some ndm ->
                       tangent_for (pay_arr (n_pay ndm)) (tan m)) ->
        let es := n_children nd in
        let cs := cvals g es in
        let ts := map (fun e => tan (e_node e)) es in
        exists RD,
          fwd_of_code D2 (inj2 O) code (p_dims (n_pay nd))
                      (lift_children O 0 (map e_tracked es) cs ts) = Some RD /\
          primal RD = pay_arr (n_pay nd) /\ wf RD /\ tan n = tangent RD /\
          Forall wf cs /\ Forall2 tangent_for cs ts /\ length cs = arity code /\
          code_fits code cs (pay_arr (n_pay nd)).
    Proof.
      intros n nd code Hnd Hb IH es cs ts.
      destruct (Hg n nd Hnd) as (Hlt' & Hok & _ & _ & Hwv & _).
      assert (Hn : n <= length g) by (apply Nat.lt_le_incl; eapply nth_lt; exact Hnd).
      destruct (children_facts n es Hn Hlt' IH) as [Hwcs Hts].
      fold cs ts in Hwcs, Hts.
      unfold node_ok, node_ok' in Hok. rewrite Hb in Hok. destruct Hok as [Hlen _].
      assert (Hlcs : length cs = arity code) by (unfold cs, cvals; rewrite map_length; exact Hlen).
      destruct (Hsup n nd code Hnd Hb) as ((_ & Hlift) & Hpre & Hnb).
      pose proof (Hvc n nd Hnd) as Hv. unfold node_vc in Hv. rewrite Hb in Hv. cbv zeta in Hv.
      fold es cs in Hv, Hpre, Hnb. destruct Hv as [Hfit [Hfwd | Hbad]]; [| contradiction].
      change (dims (pay_arr (n_pay nd))) with (p_dims (n_pay nd)) in Hfwd.
      destruct (Hlift cs ts (map e_tracked es) _ Hlcs Hwcs Hts Hpre Hfwd) as (RD & HRD & Hprim).
      exists RD. split; [exact HRD |]. split; [exact Hprim |].
      split; [eapply fwd_of_code_wf; [| exact HRD]; apply lift_children_wf; assumption |].
      split; [| tauto].
      rewrite (tan_op g lt n nd code Hnd Hb Hlt'). fold es cs ts. rewrite HRD. reflexivity.
    Qed.

    (** every tangent is well-formed, of the dimensions of its node *)
    Lemma tan_ok_below : forall n m ndm,
        m < n -> nth_error g m = Some ndm -> tangent_for (pay_arr (n_pay ndm)) (tan m).
    Proof.
      intro n. induction n as [|k IH]; intros m ndm Hm Hnd; [lia |].
      destruct (Nat.eq_dec m k) as [Heq | Hne]; [| apply (IH m ndm); [lia | exact Hnd]].
      subst m. destruct (p_bop (n_pay ndm)) as [code|] eqn:Hb.
      - destruct (op_node k ndm code Hnd Hb IH) as (RD & _ & Hprim & HwR & Htan & _).
        rewrite Htan. split; [apply tangent_wf; exact HwR |].
        rewrite <- Hprim. reflexivity.
      - rewrite (tan_leaf g lt k ndm Hnd Hb). apply (Hlt k ndm Hnd Hb).
    Qed.

    Lemma tan_ok : forall m ndm, nth_error g m = Some ndm -> tangent_for (pay_arr (n_pay ndm)) (tan m).
    Proof. intros m ndm H. apply (tan_ok_below (S m) m ndm); [lia | exact H]. Qed.

    (** * The hypotheses of the guarded adjoint identity, for [E'] *)

    Definition pairF (d t : arr F) : F := dot O (vals d) (vals t).

    Lemma G_add' : forall (p : pay) x y z,
        grad_ok p x -> grad_ok p y -> eo_add E' x y = Some z -> grad_ok p z.
    Proof.
      intros p x y z [Hwx Hdx] [Hwy Hdy] Hz. cbn [eo_add ValueConcrete.E'] in Hz.
      assert (Hd : dims x = dims y) by congruence.
      rewrite (add'_wf O x y Hwx Hwy Hd) in Hz. injection Hz as Hz. subst z.
      destruct (padd_wf O x y Hwx Hwy Hd) as [Hw Hdp]. split; [exact Hw | congruence].
    Qed.

    Lemma H_pair_add' : forall (p : pay) x y z t,
        grad_ok p x -> grad_ok p y -> eo_add E' x y = Some z ->
        pairF z t = fadd O (pairF x t) (pairF y t).
    Proof.
      intros p x y z t [Hwx Hdx] [Hwy Hdy] Hz. cbn [eo_add ValueConcrete.E'] in Hz.
      assert (Hd : dims x = dims y) by congruence.
      rewrite (add'_wf O x y Hwx Hwy Hd) in Hz. injection Hz as Hz. subst z.
      unfold pairF. cbn [padd vals]. apply dot_zipw_add.
      destruct Hwx as [_ Hlx]. destruct Hwy as [_ Hly]. rewrite <- Hlx, <- Hly, Hd. reflexivity.
    Qed.

    (** every contribution is the [flatten_to] of a closure output to an existing child *)
    Lemma cfold_in_full : forall es ds cs c,
        cfold E' g es ds = Some cs -> In c cs ->
        exists e d ch, In e es /\ nth_error g (e_node e) = Some ch /\
                       eo_flat E' d (n_pay ch) = Some (snd c) /\ fst c = e_node e.
    Proof.
      intro es. induction es as [|e es IH]; intros ds cs c H Hin.
      - rewrite cfold_nil_l in H. injection H as H. subst cs. destruct Hin.
      - destruct ds as [|o ds].
        + rewrite cfold_nil_r in H. injection H as H. subst cs. destruct Hin.
        + rewrite cfold_cons in H. apply obind_some in H. destruct H as (rest & Hrest & H).
          assert (Hrec : In c rest ->
                         exists e0 d ch, In e0 (e :: es) /\ nth_error g (e_node e0) = Some ch /\
                                         eo_flat E' d (n_pay ch) = Some (snd c) /\ fst c = e_node e0).
          { intro Hr. destruct (IH ds rest c Hrest Hr) as (e0 & d & ch & H1 & H2 & H3 & H4).
            exists e0, d, ch. split; [right; exact H1 | tauto]. }
          destruct o as [d|].
          * apply obind_some in H. destruct H as (ch & Hch & H).
            apply obind_some in H. destruct H as (d' & Hd' & H).
            injection H as H. subst cs. destruct Hin as [Heq | Hin]; [| exact (Hrec Hin)].
            subst c. exists e, d, ch. cbn [fst snd]. split; [left; reflexivity | tauto].
          * injection H as H. subst cs. exact (Hrec Hin).
    Qed.

    Lemma flat'_ok : forall d (p : pay) d', eo_flat E' d p = Some d' -> grad_ok p d'.
    Proof.
      intros d p d' H. cbn [eo_flat ValueConcrete.E'] in H. unfold flat' in H.
      destruct (wfb d) eqn:Hd; [| discriminate H]. apply wfb_spec in Hd.
      exact (flatten_to_shape O d d' _ Hd H).
    Qed.

    Lemma G_contribs' : forall n nd delta cs c,
        nth_error g n = Some nd -> grad_ok (n_pay nd) delta ->
        contribs E' g n delta = Some cs -> In c cs ->
        exists ndc, nth_error g (fst c) = Some ndc /\ grad_ok (n_pay ndc) (snd c).
    Proof.
      intros n nd delta cs c Hnd _ Hcs Hin.
      apply contribs_inv in Hcs. destruct Hcs as (nd' & Hnd' & Hcase).
      destruct Hcase as [[_ Hnil] | [_ (pays & ds & _ & _ & Hcf)]]; [subst cs; destruct Hin |].
      destruct (cfold_in_full _ ds cs c Hcf Hin) as (e & d & ch & _ & Hch & Hfl & Hfst).
      exists ch. rewrite Hfst. split; [exact Hch | eapply flat'_ok; exact Hfl].
    Qed.

    (** ** the bridge: from the local identity of the closure to [H_local] *)

    (** [child_terms] with the flags consumed position by position *)
    Fixpoint cterms (bs : list bool) (cs ts : list (arr F)) (ds : list (option (arr F)))
             (xs : list F) : Prop :=
      match bs, cs, ts, ds, xs with
      | [], [], [], [], [] => True
      | b :: bs', c :: cs', t :: ts', od :: ds', x :: xs' =>
        child_term O c t b od x /\ cterms bs' cs' ts' ds' xs'
      | _, _, _, _, _ => False
      end.

    Lemma child_terms_cterms : forall cs i flags ts ds xs,
        child_terms O i flags cs ts ds xs -> i + length cs = length flags ->
        cterms (skipn i flags) cs ts ds xs.
    Proof.
      intro cs. induction cs as [|c cs IH]; intros i flags ts ds xs H Hl.
      - destruct ts, ds, xs; cbn [child_terms] in H; try contradiction.
        simpl in Hl. rewrite Nat.add_0_r in Hl. subst i. rewrite skipn_all. exact I.
      - destruct ts as [|t ts], ds as [|od ds], xs as [|x xs]; cbn [child_terms] in H;
          try contradiction.
        destruct H as [H1 H2]. simpl in Hl.
        rewrite (skipn_nth_cons i flags false) by lia. cbn [cterms]. split.
        + exact H1.
        + apply IH; [exact H2 | lia].
    Qed.

    Lemma cfold_terms : forall es ds xs contrib,
        cterms (map e_tracked es) (cvals g es) (map (fun e => tan (e_node e)) es) ds xs ->
        (forall j e d, nth_error es j = Some e -> nth_error ds j = Some (Some d) ->
                       e_tracked e = true) ->
        cfold E' g es ds = Some contrib ->
        vsum O xs = ksum (fadd O) (f0 O) (map (pairc (arr F) F pairF tan) contrib).
    Proof.
      intro es. induction es as [|e es IH]; intros ds xs contrib Ht Htr Hcf.
      - destruct ds, xs; cbn [map cvals cterms] in Ht; try contradiction.
        rewrite cfold_nil_l in Hcf. injection Hcf as Hcf. subst contrib. reflexivity.
      - destruct ds as [|od ds], xs as [|x xs]; cbn [map cvals cterms] in Ht; try contradiction.
        destruct Ht as [Hterm Ht].
        rewrite cfold_cons in Hcf. apply obind_some in Hcf. destruct Hcf as (rest & Hrest & Hcf).
        assert (Htr' : forall j e0 d, nth_error es j = Some e0 -> nth_error ds j = Some (Some d) ->
                                      e_tracked e0 = true)
          by (intros j e0 d H1 H2; apply (Htr (S j) e0 d); assumption).
        pose proof (IH ds xs rest Ht Htr' Hrest) as Hsum.
        rewrite (vsum_cons O R), Hsum.
        destruct od as [d|].
        + apply obind_some in Hcf. destruct Hcf as (ch & Hch & Hcf).
          apply obind_some in Hcf. destruct Hcf as (d' & Hd' & Hcf).
          injection Hcf as Hcf. subst contrib.
          cbn [map ksum fold_right]. f_equal.
          unfold pairc. cbn [fst snd].
          cbn [child_term] in Hterm. destruct Hterm as (fd & Hfd & Hx).
          rewrite (nval_nth _ ch Hch) in Hfd. change (dims (pay_arr (n_pay ch))) with (p_dims (n_pay ch)) in Hfd.
          cbn [eo_flat ValueConcrete.E'] in Hd'. unfold flat' in Hd'.
          destruct (wfb d); [| discriminate Hd'].
          assert (Hfd' : fd = d') by congruence. subst fd.
          assert (Hte : e_tracked e = true) by (apply (Htr 0 e d); reflexivity).
          rewrite Hte in Hx. exact Hx.
        + injection Hcf as Hcf. subst contrib.
          cbn [child_term] in Hterm. destruct Hterm as [_ Hx]. subst x. apply (cr_add_0_l O R).
    Qed.

    Lemma mapM_child_pay : forall es pays,
        mapM (child_pay g) es = Some pays -> map pay_arr pays = cvals g es.
    Proof.
      intro es. induction es as [|e es IH]; intros pays H.
      - injection H as H. subst pays. reflexivity.
      - simpl in H. apply obind_some in H. destruct H as (p & Hp & H).
        apply obind_some in H. destruct H as (ps & Hps & H). injection H as H. subst pays.
        unfold child_pay in Hp. apply obind_some in Hp. destruct Hp as (c & Hc & Hp).
        injection Hp as Hp. subst p. cbn [map cvals]. rewrite (nval_nth _ c Hc).
        f_equal. apply IH. exact Hps.
    Qed.

    Lemma H_local' : forall n nd delta contrib,
        nth_error g n = Some nd -> hasop E' nd = true -> grad_ok (n_pay nd) delta ->
        contribs E' g n delta = Some contrib ->
        pairF delta (tan n) = ksum (fadd O) (f0 O) (map (pairc (arr F) F pairF tan) contrib).
    Proof.
      intros n nd delta contrib Hnd Hop [Hwd Hdd] Hcs.
      apply contribs_inv in Hcs. destruct Hcs as (nd' & Hnd' & Hcase).
      assert (Heq : nd' = nd) by (unfold Program.gnode in *; congruence). subst nd'.
      destruct Hcase as [[Hop' _] | [_ (pays & ds & Hpays & Hds & Hcf)]]; [congruence |].
      unfold hasop in Hop. cbn [eo_hasop ValueConcrete.E' Program.E] in Hop.
      destruct (p_bop (n_pay nd)) as [code|] eqn:Hb; [| discriminate Hop].
      cbn [eo_bop ValueConcrete.E' Program.E] in Hds. rewrite Hb in Hds. cbn [obind] in Hds.
      rewrite (mapM_child_pay _ pays Hpays) in Hds.
      destruct (op_node n nd code Hnd Hb (fun m ndm _ H => tan_ok m ndm H))
        as (RD & HRD & Hprim & HwR & Htan & Hwcs & Hts & Hlen & Hfit).
      cbv zeta in *.
      destruct (Hsup n nd code Hnd Hb) as ((Hsupp & _) & Hpre & _).
      assert (HdR : dims delta = dims RD).
      { rewrite Hdd. change (dims RD) with (dims (primal RD)). rewrite Hprim. reflexivity. }
      rewrite <- Hprim in Hfit.
      destruct (Hsupp _ _ _ delta RD ds Hlen Hwcs Hts Hpre HRD Hfit Hwd HdR Hds) as (xs & Hterms & Hdot).
      unfold pairF at 1. rewrite Htan, Hdot.
      apply (cfold_terms (n_children nd) ds xs contrib).
      - apply (child_terms_cterms _ 0) in Hterms; [exact Hterms |].
        rewrite map_length. unfold cvals. rewrite map_length. reflexivity.
      - intros j e d He Hd.
        assert (Hds' : eo_bop E (n_pay nd) pays (map e_tracked (n_children nd)) delta = Some ds).
        { cbn [eo_bop Program.E]. rewrite Hb. cbn [obind].
          rewrite (mapM_child_pay _ pays Hpays). exact Hds. }
        destruct (store_good_contract O g Hg n nd pays delta ds Hnd Hds') as [_ Hiff].
        apply (Hiff j e He). exists d. exact Hd.
      - exact Hcf.
    Qed.

    (** * The end-to-end theorem *)

    Lemma is_leaf_isop : forall m, is_leaf g m = negb (isop E' g m).
    Proof.
      intro m. unfold is_leaf, isop, hasop. cbn [eo_hasop ValueConcrete.E' Program.E].
      unfold Program.gnode.
      destruct (@nth_error (node pay (arr F)) g m) as [nd|]; [| reflexivity].
      destruct (p_bop (n_pay nd)); reflexivity.
    Qed.

    Theorem backward_exact : forall r keep seed s0 ndr g' log,
        grads_empty g -> r < length g -> nth_error g r = Some ndr ->
        seed_of E g r seed = Some s0 ->
        (forall sd, seed = Some sd -> wf sd /\ dims sd = p_dims (n_pay ndr)) ->
        run_backward E g r keep seed = Some (g', log) ->
        dot O (vals s0) (vals (tan r)) = leaf_pairing O g g' lt r.
    Proof.
      intros r keep seed s0 ndr g' log Hempty Hr Hndr Hseed Hsd Hrun.
      destruct (pass_value_concrete O R g r keep seed s0 ndr g' log Hg Hr Hndr Hseed Hsd Hrun)
        as (_ & Hs0 & tab & Htab & Hlen & _ & _ & _ & _ & H4 & H5a & _ & _ & _ & Hg').
      destruct (adjoint_identity_g E' g (arr F) F (f0 O) (fadd O)
                                   (cr_add_assoc O R) (cr_add_comm O R) (cr_add_0_l O R)
                                   pairF tan grad_ok G_add' G_contribs' H_pair_add' H_local'
                                   r s0 tab ndr (store_good_wfg O g Hg) Hndr Hs0 Htab)
        as (_ & Hid).
      change (pairF s0 (tan r) = leaf_pairing O g g' lt r). rewrite Hid.
      rewrite ksum_vsum. unfold leaf_pairing.
      rewrite (filter_ext (fun m => negb (isop E' g m)) (is_leaf g))
        by (intro m; symmetry; apply is_leaf_isop).
      f_equal. apply map_ext_in. intros m Hm. apply filter_In in Hm. destruct Hm as [Hm Hleaf].
      apply in_seq in Hm.
      assert (Hmg : m < length g) by lia.
      destruct (nth_error g m) as [nd|] eqn:Hnd; [| apply nth_error_None in Hnd; nlia].
      assert (Hlen' : length g' = length g).
      { destruct (pass_good O g r keep seed g' log Hg Hr) as [_ Hl]; [| exact Hrun | exact Hl].
        intros sd nd0 Hs Hn0. rewrite Hndr in Hn0. injection Hn0 as Hn0. subst nd0.
        apply Hsd. exact Hs. }
      destruct (nth_error g' m) as [nd'|] eqn:Hnd'; [| apply nth_error_None in Hnd'; nlia].
      unfold grad_at. unfold is_leaf in Hleaf.
      unfold Program.gnode in Hleaf, Hnd, Hnd' |- *. rewrite Hnd'. rewrite Hnd in Hleaf.
      destruct (p_bop (n_pay nd)) as [code|] eqn:Hb; [discriminate Hleaf |].
      assert (Hch : n_children nd = []).
      { destruct (Hg m nd Hnd) as (_ & Hok & _). unfold node_ok, node_ok' in Hok.
        rewrite Hb in Hok. exact Hok. }
      rewrite (tan_leaf g lt m nd Hnd Hb).
      rewrite nth_nth_error.
      destruct (nth_error tab m) as [[delta|]|] eqn:Ht.
      - pose proof (H5a m nd nd' delta Hnd Hnd' Ht Hch) as Hst.
        unfold stored in Hst. rewrite (Hempty m nd Hnd) in Hst. rewrite Hst. reflexivity.
      - destruct (H4 m nd nd' Hnd Hnd') as [Hsame | (delta & Hd & _)]; [| congruence].
        rewrite Hsame, (Hempty m nd Hnd). reflexivity.
      - destruct (H4 m nd nd' Hnd Hnd') as [Hsame | (delta & Hd & _)]; [| congruence].
        rewrite Hsame, (Hempty m nd Hnd). reflexivity.
    Qed.
  End Graph.

  (** * Graphs over the closures with a proved local identity *)

  Definition proven_graph (g : list gnode) : Prop :=
    forall id nd code,
      nth_error g id = Some nd -> p_bop (n_pay nd) = Some code ->
      proven_code code = true /\ code_pre code (cvals g (n_children nd)).

  Lemma not_nobias : forall code cs v,
      (proven_code code = true \/ proven_code_div code = true) -> ~ matmul_nobias O code cs v.
  Proof. intros code cs v [H | H]; destruct code; try discriminate H; intro Hm; exact Hm. Qed.

  Theorem proven_graph_supported : forall g, proven_graph g -> supported g.
  Proof.
    intros g H id nd code Hnd Hb. destruct (H id nd code Hnd Hb) as [Hp Hpre].
    split; [apply (proven_ok O R); exact Hp |]. split; [exact Hpre |].
    apply not_nobias. left. exact Hp.
  Qed.

  Section Division.
    Hypothesis Hdiv : forall a b, fdiv O a b = fmul O a (fdiv O (f1 O) b).
    Hypothesis Hinv_mul : forall a b,
        fdiv O (f1 O) (fmul O a b) = fmul O (fdiv O (f1 O) a) (fdiv O (f1 O) b).
    Hypothesis Hpow2 : forall x, fpow O x (two O) = fmul O x x.

    (** ... including division, logarithm and reciprocal *)
    Definition proven_graph_div (g : list gnode) : Prop :=
      forall id nd code,
        nth_error g id = Some nd -> p_bop (n_pay nd) = Some code ->
        (proven_code code = true \/ proven_code_div code = true) /\
        code_pre code (cvals g (n_children nd)).

    Theorem proven_graph_div_supported : forall g, proven_graph_div g -> supported g.
    Proof.
      intros g H id nd code Hnd Hb. destruct (H id nd code Hnd Hb) as [Hp Hpre].
      split; [| split; [exact Hpre | apply not_nobias; exact Hp]].
      destruct Hp as [Hp | Hp];
        [apply (proven_ok O R); exact Hp | apply (proven_div_ok O R Hdiv Hinv_mul Hpow2); exact Hp].
    Qed.
  End Division.

  (** * Unit tangents: the stored gradient components are the seed-weighted partials *)

  Definition unit_arr (d : list nat) (j : nat) : arr F :=
    {| dims := d; vals := map (fun i => if i =? j then f1 O else f0 O) (seq 0 (prod d)) |}.

  (** the tangent assignment "element [j] of leaf [l0]" *)
  Definition lt_unit (g : list gnode) (l0 j : nat) (l : nat) : arr F :=
    if l =? l0 then unit_arr (dims (nval g l)) j else zeros_like O (nval g l).

  Lemma dot_unit : forall (x : list F) n j,
      length x = n -> j < n ->
      dot O x (map (fun i => if i =? j then f1 O else f0 O) (seq 0 n)) = nth j x (f0 O).
  Proof.
    intros x n j Hx Hj. rewrite (dot_seq O x _ n Hx) by (rewrite map_length, seq_length; reflexivity).
    rewrite (vsum_map_ext O _ (fun k => if j =? k then nth j x (f0 O) else f0 O)).
    - apply (vsum_delta_seq O R (fun _ => nth j x (f0 O)) j n Hj).
    - intros k Hk. apply in_seq in Hk.
      rewrite nth_map_seq by lia. cbn [Nat.add]. rewrite (Nat.eqb_sym j k).
      destruct (k =? j) eqn:Hkj.
      + apply Nat.eqb_eq in Hkj. subst k. apply (cr_mul_1_r O R).
      + apply (cr_mul_0_r O R).
  Qed.

  Lemma vsum_only : forall {A} (eqb : A -> A -> bool) (f : A -> F) (a : A) (l : list A),
      (forall x y, eqb x y = true <-> x = y) ->
      NoDup l -> In a l -> (forall x, x <> a -> f x = f0 O) -> vsum O (map f l) = f a.
  Proof.
    intros A eqb f a l Heq. induction l as [|b l IH]; intros Hnd Hin Hz; [destruct Hin |].
    inversion Hnd as [|? ? Hnb Hnd']; subst. cbn [map]. rewrite (vsum_cons O R).
    destruct (eqb b a) eqn:Hba.
    - apply Heq in Hba. subst b.
      rewrite (vsum_zeros O R); [apply (cr_add_0_r O R) |].
      intros y Hy. apply in_map_iff in Hy. destruct Hy as (x & <- & Hx).
      apply Hz. intro Hxa. subst x. contradiction.
    - assert (Hne : b <> a) by (intro Hb; apply Heq in Hb; congruence).
      destruct Hin as [Hin | Hin]; [contradiction |].
      rewrite (Hz b Hne), (cr_add_0_l O R). apply IH; assumption.
  Qed.

  Theorem backward_partial : forall (g : list gnode) r keep seed s0 ndr g' log l0 nd0 j,
      store_good g -> value_consistent O g -> supported g -> grads_empty g ->
      r < length g -> nth_error g r = Some ndr ->
      seed_of E g r seed = Some s0 ->
      (forall sd, seed = Some sd -> wf sd /\ dims sd = p_dims (n_pay ndr)) ->
      run_backward E g r keep seed = Some (g', log) ->
      l0 <= r -> nth_error g l0 = Some nd0 -> p_bop (n_pay nd0) = None ->
      j < prod (p_dims (n_pay nd0)) ->
      nth j (match grad_at g' l0 with Some gl => vals gl | None => [] end) (f0 O)
      = dot O (vals s0) (vals (tan O g (lt_unit g l0 j) r)).
  Proof.
    intros g r keep seed s0 ndr g' log l0 nd0 j Hg Hvc Hsup Hempty Hr Hndr Hseed Hsd Hrun
           Hl0 Hnd0 Hb0 Hj.
    assert (Hlt : leaf_tangents_ok g (lt_unit g l0 j)).
    { intros l nd Hnd Hb. unfold lt_unit. rewrite (nval_nth g l nd Hnd).
      destruct (Hg l nd Hnd) as (_ & _ & _ & _ & Hw & _).
      destruct (l =? l0).
      - split; [| reflexivity]. destruct Hw as [Hp _]. split; cbn [unit_arr dims vals pay_arr].
        + exact Hp.
        + rewrite map_length, seq_length. reflexivity.
      - split; [apply zeros_like_wf; exact Hw | reflexivity]. }
    rewrite (backward_exact g (lt_unit g l0 j) Hg Hvc Hsup Hlt r keep seed s0 ndr g' log
                            Hempty Hr Hndr Hseed Hsd Hrun).
    unfold leaf_pairing.
    assert (Hseed' : forall sd nd, seed = Some sd -> nth_error g r = Some nd -> grad_ok (n_pay nd) sd).
    { intros sd nd Hs Hn. rewrite Hndr in Hn. injection Hn as Hn. subst nd. apply Hsd. exact Hs. }
    destruct (pass_good O g r keep seed g' log Hg Hr Hseed' Hrun) as [Hg' Hlen'].
    rewrite (vsum_only Nat.eqb _ l0).
    - unfold grad_at. unfold Program.gnode.
      destruct (@nth_error (node pay (arr F)) g' l0) as [nd0'|] eqn:Hnd0';
        [| destruct j; reflexivity].
      destruct (n_grad nd0') as [gl|] eqn:Hgl; [| destruct j; reflexivity].
      destruct (Hg' l0 nd0' Hnd0') as (_ & _ & _ & _ & _ & Hgok).
      destruct (Hgok gl Hgl) as [[_ Hlgl] Hdgl].
      unfold lt_unit. rewrite Nat.eqb_refl, (nval_nth g l0 nd0 Hnd0). cbn [unit_arr vals pay_arr dims].
      assert (Hpd : p_dims (n_pay nd0') = p_dims (n_pay nd0)).
      { destruct (EngineInv.pass_spec E g r keep seed g' log (store_good_wfg O g Hg)
                                      (store_good_clean g Hg) (store_good_contract O g Hg) Hr Hrun)
          as (_ & _ & Hskel & _).
        destruct (Hskel l0 nd0 nd0' Hnd0 Hnd0') as [Hp _]. rewrite Hp. reflexivity. }
      symmetry. apply dot_unit; [rewrite <- Hlgl, Hdgl, Hpd; reflexivity | exact Hj].
    - intros x y. apply Nat.eqb_eq.
    - apply NoDup_filter. apply seq_NoDup.
    - apply filter_In. split; [apply in_seq; lia |].
      unfold is_leaf. unfold Program.gnode in *. rewrite Hnd0, Hb0. reflexivity.
    - intros l Hne. destruct (grad_at g' l) as [gl|]; [| reflexivity].
      unfold lt_unit. apply Nat.eqb_neq in Hne. rewrite Hne. apply (dot_zeros_like O R).
  Qed.

  (** * At every backward pass of every history *)

  (** [good] and [value_consistent] hold in every reachable state ([HistoryVC.run_good2]);
      what remains to be checked for a given pass is that the closures of the graph are
      supported and that the gradient slots are empty *)
  Theorem history_backward_exact :
    forall (p : list (@instr F)) (s : @state F) lt r keep seed s0 ndr g' log,
      reachable_state O p s ->
      supported (st_nodes s) -> grads_empty (st_nodes s) -> leaf_tangents_ok (st_nodes s) lt ->
      nth_error (st_nodes s) r = Some ndr ->
      seed_of E (st_nodes s) r seed = Some s0 ->
      (forall sd, seed = Some sd -> wf sd /\ dims sd = p_dims (n_pay ndr)) ->
      run_backward E (st_nodes s) r keep seed = Some (g', log) ->
      dot O (vals s0) (vals (tan O (st_nodes s) lt r)) = leaf_pairing O (st_nodes s) g' lt r.
  Proof.
    intros p s lt r keep seed s0 ndr g' log Hre Hsup Hempty Hlt Hndr Hseed Hsd Hrun.
    destruct (run_good2 O p s Hre) as [[Hg _] Hvc].
    eapply backward_exact; try eassumption.
    eapply nth_lt. exact Hndr.
  Qed.
End C01.

Print Assumptions backward_exact.
Print Assumptions history_backward_exact.
Print Assumptions proven_graph_supported.
Print Assumptions proven_graph_div_supported.
Print Assumptions backward_partial.
