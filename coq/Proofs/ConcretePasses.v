(** The pass theorems ([Proofs/PassTheorems.v]) for the concrete array engine [E O] of
    Model/Program.v, on sound stores ([HistoryInv.store_good]).

    The algebraic hypotheses of PassTheorems hold for the repaired instance [E']
    ([Proofs/ValueConcrete.v]); on a sound store every successful pass of [E O] is the
    same pass of [E'] ([run_backward_E']).  The statements below therefore speak about
    runs of the REAL engine; only the declarative tables and the accumulation [stored]
    are those of [E'].  On well-formed arrays of equal, non-empty dimensions -- all a pass
    ever adds -- [eo_add E'] is [a_add] ([add'_is_a_add]). *)

From Coq Require Import List Arith Bool Lia PeanoNat Permutation.
From Corgi Require Import Lib.OptionMonad Lib.Sums Model.Scalar Model.Arr Model.SlicedOp
     Model.Elementwise Model.Ops Model.Engine Model.Program
     Proofs.ArrFacts Proofs.EngineDefs Proofs.EngineBase Proofs.Propagate Proofs.EngineInv
     Proofs.AdjointSpec Proofs.SweepFacts Proofs.ValueAlg Proofs.EngineValue
     Proofs.PassTheorems Proofs.OptimSpec Proofs.FlattenSpec Proofs.OpsWf Proofs.HistoryInv
     Proofs.ValueConcrete.
Import ListNotations.

Section ConcretePasses.
  Context {F : Type} (O : ScalarOps F) (R : is_cring O).

  Local Notation pay := (@pay F).
  Local Notation gnode := (@gnode F).
  Local Notation state := (@state F).
  Local Notation E := (Program.E O).
  Local Notation E' := (ValueConcrete.E' O).
  Local Notation pgood := (PassTheorems.good E' (@shape F) (@sh F) (@psh F)).
  Local Notation pseed_ok := (PassTheorems.seed_ok E' (@shape F) (@sh F) (@psh F)).
  Local Notation pstep := (@PassTheorems.step (arr F)).

  (** * Bridges *)

  Lemma grad_ok_sh : forall (p : pay) x, grad_ok p x -> sh x = psh p.
  Proof. intros p x [Hw Hd]. rewrite (sh_wf _ Hw). unfold psh. rewrite Hd. reflexivity. Qed.

  Lemma store_good_pgood : forall g : list gnode, store_good g -> pgood g.
  Proof.
    intros g Hg. split; [exact (store_good_wfg O g Hg) |].
    split; [exact (store_good_clean g Hg) |].
    split; [exact (store_good_contract O g Hg) |].
    intros id nd x Hnd Hx. apply grad_ok_sh.
    destruct (Hg id nd Hnd) as (_ & _ & _ & _ & _ & Hgr). apply Hgr. exact Hx.
  Qed.

  (** an admissible pass: the root exists and an explicit seed has the root's shape *)
  Definition cseed_ok (g : list gnode) (r : nat) (seed : option (arr F)) : Prop :=
    r < length g /\
    forall sd nd, seed = Some sd -> nth_error g r = Some nd -> grad_ok (n_pay nd) sd.

  Lemma cseed_ok_skel : forall (g g' : list gnode) r seed,
      skel_eq g g' -> cseed_ok g r seed -> cseed_ok g' r seed.
  Proof.
    intros g g' r seed Hs (Hr & Hsd). split; [destruct Hs as (Hl & _); nlia |].
    intros sd nd' Hseed Hnd'. unfold Program.gnode in *.
    destruct (skel_eq_nth g g' r Hs) as [[_ Hb] | (nd & nd2 & Ha & Hb & Hp & _)]; [congruence |].
    rewrite Hnd' in Hb. injection Hb as Hb. subst nd2. rewrite <- Hp. apply (Hsd sd nd Hseed Ha).
  Qed.

  Lemma seed_of_E' : forall (g : list gnode) r seed, seed_of E' g r seed = seed_of E g r seed.
  Proof. reflexivity. Qed.

  Lemma cseed_pseed : forall (g : list gnode) r seed,
      store_good g -> cseed_ok g r seed -> exists s0, pseed_ok g r seed s0.
  Proof.
    intros g r seed Hg (Hr & Hsd).
    destruct (nth_error g r) as [ndr|] eqn:Hndr; [| apply nth_error_None in Hndr; nlia].
    unfold Program.gnode in *.
    destruct seed as [sd|].
    - exists sd. split; [exact Hr |]. split; [reflexivity |]. exists ndr.
      split; [exact Hndr | apply grad_ok_sh; apply (Hsd sd ndr eq_refl eq_refl)].
    - exists (eo_ones E (n_pay ndr)). split; [exact Hr |].
      split; [unfold seed_of; rewrite Hndr; reflexivity |]. exists ndr.
      split; [exact Hndr |]. apply grad_ok_sh. apply (wf_ones O).
      destruct (Hg r ndr Hndr) as (_ & _ & _ & _ & Hw & _). exact Hw.
  Qed.

  Lemma run_E_E' : forall (g : list gnode) r keep seed res,
      store_good g -> cseed_ok g r seed ->
      run_backward E g r keep seed = Some res -> run_backward E' g r keep seed = Some res.
  Proof.
    intros g r keep seed res Hg (_ & Hsd) Hrun. apply (run_backward_E' O g r keep seed res Hg Hsd Hrun).
  Qed.

  (** on the arrays a pass adds, the repaired addition is the real one *)
  Lemma add'_is_a_add : forall x y : arr F,
      wf x -> wf y -> dims x = dims y -> dims x <> [] -> eo_add E' x y = a_add O x y.
  Proof.
    intros x y Hx Hy Hd Hne.
    destruct (a_add_same_dims O x y Hx Hy Hd Hne) as (c & Hc & _).
    rewrite Hc. cbn [eo_add ValueConcrete.E']. rewrite (add'_wf O x y Hx Hy Hd). f_equal.
    symmetry. apply (a_add_padd O x y c Hx Hy Hd Hc).
  Qed.

  (** * (K1, C10) the pass theorems for the real engine *)

  Theorem pass_preserves_concrete : forall (g : list gnode) r keep seed g' log,
      store_good g -> cseed_ok g r seed ->
      run_backward E g r keep seed = Some (g', log) ->
      store_good g' /\ skel_eq g g'.
  Proof.
    intros g r keep seed g' log Hg (Hr & Hsd) Hrun.
    destruct (pass_good O g r keep seed g' log Hg Hr Hsd Hrun) as (Hg' & _).
    split; [exact Hg' |].
    destruct (pass_structure E g r keep seed g' log (store_good_wfg O g Hg)
                             (store_good_clean g Hg) (store_good_contract O g Hg) Hr Hrun)
      as (Hs & _). exact Hs.
  Qed.

  (** earlier passes cannot influence a later one *)
  Theorem pass_independent_concrete : forall (g1 g2 : list gnode) r keep seed g1' log1 g2' log2,
      skel_eq g1 g2 -> store_good g1 -> store_good g2 -> cseed_ok g1 r seed ->
      run_backward E g1 r keep seed = Some (g1', log1) ->
      run_backward E g2 r keep seed = Some (g2', log2) ->
      exists s0, seed_of E g1 r seed = Some s0 /\ seed_of E g2 r seed = Some s0 /\
        adjoints E' g1 r s0 = adjoints E' g2 r s0 /\
        (forall id delta, In (id, delta) log1 <-> In (id, delta) log2) /\
        Permutation log1 log2.
  Proof.
    intros g1 g2 r keep seed g1' log1 g2' log2 Hs Hg1 Hg2 Hc1 Hrun1 Hrun2.
    destruct (cseed_pseed g1 r seed Hg1 Hc1) as (s0 & Hso).
    pose proof (cseed_ok_skel g1 g2 r seed Hs Hc1) as Hc2.
    destruct (pass_independent E' shape (@sh F) (@psh F) (add_ok' O) (add_comm' O R)
                               (add_assoc' O R) (flat_sh' O)
                               g1 g2 r keep seed s0 g1' log1 g2' log2 Hs
                               (store_good_pgood g1 Hg1) (store_good_pgood g2 Hg2) Hso
                               (run_E_E' g1 r keep seed _ Hg1 Hc1 Hrun1)
                               (run_E_E' g2 r keep seed _ Hg2 Hc2 Hrun2))
      as (H1 & H2 & H3 & H4).
    exists s0. destruct Hso as (_ & Hseed & _).
    split; [exact Hseed |]. split; [exact H1 |]. split; [exact H2 |]. split; assumption.
  Qed.

  (** two passes in a row accumulate the two stand-alone tables *)
  Theorem two_passes_add_concrete :
    forall (g : list gnode) r1 keep1 seed1 r2 keep2 seed2 g1 log1 g2 log2,
      store_good g -> cseed_ok g r1 seed1 -> cseed_ok g r2 seed2 ->
      run_backward E g r1 keep1 seed1 = Some (g1, log1) ->
      run_backward E g1 r2 keep2 seed2 = Some (g2, log2) ->
      exists s1 s2 tab1 tab2,
        seed_of E g r1 seed1 = Some s1 /\ seed_of E g r2 seed2 = Some s2 /\
        adjoints E' g r1 s1 = Some tab1 /\ adjoints E' g r2 s2 = Some tab2 /\
        store_good g2 /\ skel_eq g g2 /\
        forall id nd nd2, nth_error g id = Some nd -> nth_error g2 id = Some nd2 ->
          n_children nd = [] ->
          exists o1, stored_opt E' (n_grad nd) (nth id tab1 None) o1 /\
                     stored_opt E' o1 (nth id tab2 None) (n_grad nd2).
  Proof.
    intros g r1 keep1 seed1 r2 keep2 seed2 g1 log1 g2 log2 Hg Hc1 Hc2 Hrun1 Hrun2.
    destruct (cseed_pseed g r1 seed1 Hg Hc1) as (s1 & Hso1).
    destruct (cseed_pseed g r2 seed2 Hg Hc2) as (s2 & Hso2).
    destruct (pass_preserves_concrete g r1 keep1 seed1 g1 log1 Hg Hc1 Hrun1) as (Hg1 & Hs1).
    pose proof (cseed_ok_skel g g1 r2 seed2 Hs1 Hc2) as Hc2'.
    destruct (pass_preserves_concrete g1 r2 keep2 seed2 g2 log2 Hg1 Hc2' Hrun2) as (Hg2 & _).
    destruct (two_passes_add E' shape (@sh F) (@psh F) (add_ok' O) (add_comm' O R)
                             (add_assoc' O R) (flat_sh' O)
                             g r1 keep1 seed1 s1 r2 keep2 seed2 s2 g1 log1 g2 log2
                             (store_good_pgood g Hg) Hso1 Hso2
                             (run_E_E' g r1 keep1 seed1 _ Hg Hc1 Hrun1)
                             (run_E_E' g1 r2 keep2 seed2 _ Hg1 Hc2' Hrun2))
      as (tab1 & tab2 & Ht1 & Ht2 & _ & Hs & Hleaf).
    exists s1, s2, tab1, tab2.
    destruct Hso1 as (_ & Hseed1 & _). destruct Hso2 as (_ & Hseed2 & _).
    split; [exact Hseed1 |]. split; [exact Hseed2 |]. split; [exact Ht1 |]. split; [exact Ht2 |].
    split; [exact Hg2 |]. split; [exact Hs | exact Hleaf].
  Qed.

  (** ** sequences of passes and gradient clears *)

  Definition cstep_ok (g0 : list gnode) (s : pstep) : Prop :=
    match s with
    | Pass r _ seed => cseed_ok g0 r seed
    | Clear _ => True
    end.

  Lemma cstep_ok_pstep : forall (g0 : list gnode) st,
      store_good g0 -> Forall (cstep_ok g0) st ->
      Forall (step_ok E' shape (@sh F) (@psh F) g0) st.
  Proof.
    intros g0 st Hg H. induction H as [|s st Hs Hst IH]; constructor; [| exact IH].
    destruct s as [r keep seed | i]; simpl in *; [| exact I].
    apply (cseed_pseed g0 r seed Hg Hs).
  Qed.

  Lemma clear_grad_store_good : forall (g : list gnode) i g',
      store_good g -> PassTheorems.clear_grad g i = Some g' -> store_good g' /\ skel_eq g g'.
  Proof.
    intros g i g' Hg H. unfold PassTheorems.clear_grad in H.
    apply obind_some in H. destruct H as (nd & Hnd & Hput). split.
    - eapply store_good_put; [exact Hg | exact Hput |].
      destruct (Hg i nd Hnd) as (H1 & H2 & H3 & H4 & H5 & _).
      unfold node_good, node_ok. cbn [set_grad n_children n_pay n_count n_delta n_grad].
      repeat (split; [assumption |]). intros x Hx. discriminate Hx.
    - eapply skel_eq_put_grad; eassumption.
  Qed.

  (** the sequential run of the real engine is the run of [E'] *)
  Lemma run_steps_E' : forall (g0 : list gnode) st (g gN : list gnode),
      skel_eq g0 g -> store_good g -> Forall (cstep_ok g0) st ->
      run_steps E g st = Some gN -> run_steps E' g st = Some gN /\ store_good gN.
  Proof.
    intros g0 st. induction st as [|s st IH]; intros g gN Hs Hg Hok Hrun.
    - simpl in *. injection Hrun as Hrun. subst gN. split; [reflexivity | exact Hg].
    - inversion Hok as [|s' st' Hs1 Hok']. subst s' st'.
      destruct s as [r keep seed | i]; simpl in Hrun |- *.
      + apply obind_some in Hrun. destruct Hrun as ([g' log] & Hpass & Hrun). simpl in Hrun.
        pose proof (cseed_ok_skel g0 g r seed Hs Hs1) as Hc.
        rewrite (run_E_E' g r keep seed _ Hg Hc Hpass). simpl.
        destruct (pass_preserves_concrete g r keep seed g' log Hg Hc Hpass) as (Hg' & Hs').
        apply (IH g' gN (skel_eq_trans g0 g g' Hs Hs') Hg' Hok' Hrun).
      + apply obind_some in Hrun. destruct Hrun as (g' & Hclr & Hrun).
        rewrite Hclr. simpl.
        destruct (clear_grad_store_good g i g' Hg Hclr) as (Hg' & Hs').
        apply (IH g' gN (skel_eq_trans g0 g g' Hs Hs') Hg' Hok' Hrun).
  Qed.

  (** (C10) gradients accumulate additively over any sequence of passes of the real engine,
      counted from the last clear; every table is the stand-alone table of [E'] on the
      ORIGINAL store *)
  Theorem steps_accumulate_concrete : forall (g0 : list gnode) st gN,
      store_good g0 -> Forall (cstep_ok g0) st -> run_steps E g0 st = Some gN ->
      store_good gN /\ skel_eq g0 gN /\
      forall id nd ndN, nth_error g0 id = Some nd -> nth_error gN id = Some ndN ->
                        n_children nd = [] -> acc_steps E' g0 st id (n_grad nd) (n_grad ndN).
  Proof.
    intros g0 st gN Hg Hok Hrun.
    destruct (run_steps_E' g0 st g0 gN (skel_eq_refl g0) Hg Hok Hrun) as (Hrun' & HgN).
    destruct (steps_accumulate E' shape (@sh F) (@psh F) (add_ok' O) (add_comm' O R)
                               (add_assoc' O R) (flat_sh' O) g0 st gN
                               (store_good_pgood g0 Hg) (cstep_ok_pstep g0 st Hg Hok) Hrun')
      as (_ & Hs & Hacc).
    split; [exact HgN |]. split; [exact Hs | exact Hacc].
  Qed.

  (** (C11) every closure runs once, consumers first, with its adjoint, which is the
      accumulation in any order of the contributions of the differentiated nodes *)
  Theorem closure_once_complete_concrete : forall (g : list gnode) r keep seed g' log,
      store_good g -> cseed_ok g r seed ->
      run_backward E g r keep seed = Some (g', log) ->
      exists s0 tab, seed_of E g r seed = Some s0 /\ adjoints E' g r s0 = Some tab /\
        NoDup (map fst log) /\
        (forall id, In id (map fst log) <->
                    (EngineDefs.reach g r id /\
                     exists nd, nth_error g id = Some nd /\ hasop E nd = true)) /\
        (forall n m, EngineDefs.reach g r n -> tedge g n m ->
             (exists nd, nth_error g m = Some nd /\ hasop E nd = true) ->
             before (map fst log) n m) /\
        (forall id delta, In (id, delta) log -> nth id tab None = Some delta) /\
        (forall id l, id < length g -> Permutation l (vals id (inc_all E' g tab r)) ->
             accum E' (if id =? r then Some s0 else None) l = Some (nth id tab None)).
  Proof.
    intros g r keep seed g' log Hg Hc Hrun.
    destruct (cseed_pseed g r seed Hg Hc) as (s0 & Hso).
    destruct (closure_once_complete E' shape (@sh F) (@psh F) (add_ok' O) (add_comm' O R)
                                    (add_assoc' O R) (flat_sh' O)
                                    g r keep seed s0 g' log (store_good_pgood g Hg) Hso
                                    (run_E_E' g r keep seed _ Hg Hc Hrun))
      as (tab & H1 & H2 & H3 & H4 & H5 & H6).
    exists s0, tab. destruct Hso as (_ & Hseed & _).
    split; [exact Hseed |]. split; [exact H1 |]. split; [exact H2 |]. split; [exact H3 |].
    split; [exact H4 |]. split; [exact H5 | exact H6].
  Qed.

  (** * Program level: what [step] does to the node store *)

  Local Notation instr := (@instr F).

  Lemma nodes_push : forall (s : state) o, st_nodes (push s o) = st_nodes s.
  Proof. reflexivity. Qed.

  Lemma set_var_nodes : forall (s s1 : state) i o,
      set_var s i o = Some s1 -> st_nodes s1 = st_nodes s.
  Proof.
    intros s s1 i o H. unfold set_var in H. apply obind_some in H. destruct H as (p & _ & H).
    injection H as H. subst s1. reflexivity.
  Qed.

  (** [IBackward] is one [run_backward] of the real engine on the node store *)
  Theorem step_backward_is_run_backward : forall (s0 s' : state) h seed o,
      Program.step O s0 (IBackward h seed) = Some (s', o) ->
      exists x sd g' log,
        var s0 h = Some x /\
        match seed with
        | Some (d, v) => exists a, mk d v = Some a /\ sd = Some a
        | None => sd = None
        end /\
        run_backward E (st_nodes s0) (e_node x) (e_keep x) sd = Some (g', log) /\
        st_nodes s' = g' /\ st_pool s' = st_pool s0 ++ [None] /\
        st_layers s' = st_layers s0 /\ st_output s' = st_output s0.
  Proof.
    intros s0 s' h seed o H. unfold Program.step in H. cbv zeta in H.
    apply obind_some in H. destruct H as (x & Hx & H).
    apply obind_some in H. destruct H as (sd & Hsd & H).
    apply obind_some in H. destruct H as ([g' log] & Hrun & H).
    injection H as H _. subst s'. exists x, sd, g', log.
    split; [exact Hx |]. split.
    { destruct seed as [[d v]|].
      - apply obind_some in Hsd. destruct Hsd as (a & Ha & Hsd). injection Hsd as Hsd.
        exists a. split; [exact Ha | symmetry; exact Hsd].
      - injection Hsd as Hsd. symmetry. exact Hsd. }
    split; [exact Hrun |]. repeat split.
  Qed.

  (** with a well-shaped explicit seed ([HistoryInv.seed_ok]) the pass is admissible *)
  Lemma backward_cseed_ok : forall (s0 : state) h seed x sd,
      HistoryInv.good s0 -> HistoryInv.seed_ok s0 (IBackward h seed) ->
      var s0 h = Some x ->
      match seed with
      | Some (d, v) => exists a, mk d v = Some a /\ sd = Some a
      | None => sd = None
      end ->
      cseed_ok (st_nodes s0) (e_node x) sd.
  Proof.
    intros s0 h seed x sd (Hg & Hr) Hseed Hx Hsd. split; [apply (var_valid s0 h x Hr Hx) |].
    intros a nd Ha Hnd. destruct seed as [[d v]|].
    - destruct Hsd as (a' & Hmk & Hsd). rewrite Hsd in Ha. injection Ha as Ha. subst a'.
      apply mk_wf in Hmk. destruct Hmk as (Hw & Hd). split; [exact Hw |].
      rewrite Hd. apply (Hseed x nd Hx). exact Hnd.
    - rewrite Hsd in Ha. discriminate Ha.
  Qed.

  (** [IClearGrad] is one [clear_grad] on the node store *)
  Theorem step_cleargrad_is_clear_grad : forall (s0 s' : state) h o,
      Program.step O s0 (IClearGrad h) = Some (s', o) ->
      exists x, var s0 h = Some x /\
        PassTheorems.clear_grad (st_nodes s0) (e_node x) = Some (st_nodes s') /\
        st_pool s' = st_pool s0 ++ [None] /\
        st_layers s' = st_layers s0 /\ st_output s' = st_output s0.
  Proof.
    intros s0 s' h o H. unfold Program.step in H. cbv zeta in H.
    apply obind_some in H. destruct H as (x & Hx & H).
    apply obind_some in H. destruct H as (s1 & Hclr & H). injection H as H _. subst s'.
    exists x. split; [exact Hx |].
    unfold Program.clear_grad in Hclr.
    apply obind_some in Hclr. destruct Hclr as (nd & Hnd & Hclr).
    apply obind_some in Hclr. destruct Hclr as (g' & Hput & Hclr). injection Hclr as Hclr. subst s1.
    split; [| repeat split].
    unfold PassTheorems.clear_grad. unfold h_node in Hnd. cbn [st_nodes with_tag] in Hnd, Hput.
    unfold Program.gnode in *. rewrite Hnd. cbn [obind]. exact Hput.
  Qed.

  (** the instructions that touch the cells of existing nodes *)
  Definition cell_instr (i : instr) : bool :=
    match i with
    | IBackward _ _ | IClearGrad _ | IUpdate _ _ | IModelBackward _ | IModelUpdate => true
    | _ => false
    end.

  Lemma alloc_app : forall (s : state) a ch bop buf,
      exists nd, st_nodes (fst (alloc s a ch bop buf)) = st_nodes s ++ [nd].
  Proof. intros s a ch bop buf. unfold alloc. simpl. eexists. reflexivity. Qed.

  Lemma ext_nodes : forall s s1 : state,
      ext s s1 -> exists extra, st_nodes s1 = st_nodes s ++ extra.
  Proof. intros s s1 (extra & H). subst s1. exists extra. reflexivity. Qed.

  (** every other instruction only appends nodes: payloads, children, counts, pending
      deltas and gradient slots of the existing nodes are untouched *)
  Theorem step_other_appends : forall (s0 s' : state) i o,
      HistoryInv.good s0 -> cell_instr i = false -> Program.step O s0 i = Some (s', o) ->
      exists extra, st_nodes s' = st_nodes s0 ++ extra.
  Proof.
    intros s0 s' i o Hgd0 Hci H. unfold Program.step in H. cbv zeta in H.
    set (s := with_tag s0 (length (st_pool s0))) in *.
    assert (Hgd : HistoryInv.good s) by (apply good_with_tag; exact Hgd0).
    pose proof Hgd as [Hg Hr].
    assert (Hsame : forall s1 : state, st_nodes s1 = st_nodes s ->
                                  exists extra, st_nodes s1 = st_nodes s0 ++ extra).
    { intros s1 H1. exists []. rewrite app_nil_r. exact H1. }
    assert (Halloc : forall a s1 hh ox, alloc s a [] None None = (s1, hh) ->
                       exists extra, st_nodes (push s1 ox) = st_nodes s0 ++ extra).
    { intros a s1 hh ox Ha. destruct (alloc_app s a [] None None) as (nd & Hn).
      rewrite Ha in Hn. exists [nd]. exact Hn. }
    destruct i; try discriminate Hci.
    - apply obind_some in H. destruct H as (a & _ & H).
      destruct (alloc s a [] None None) as [s1 hh] eqn:Ha. injection H as H _. subst s'.
      apply (Halloc a s1 hh _ Ha).
    - apply obind_some in H. destruct H as (a & _ & H).
      destruct (alloc s a [] None None) as [s1 hh] eqn:Ha. injection H as H _. subst s'.
      apply (Halloc a s1 hh _ Ha).
    - apply obind_some in H. destruct H as (a & _ & H).
      destruct (alloc s a [] None None) as [s1 hh] eqn:Ha. injection H as H _. subst s'.
      apply (Halloc a s1 hh _ Ha).
    - apply obind_some in H. destruct H as (args & _ & H).
      apply obind_some in H. destruct H as (a & _ & H).
      destruct (alloc s a [] None None) as [s1 hh] eqn:Ha. injection H as H _. subst s'.
      apply (Halloc a s1 hh _ Ha).
    - apply obind_some in H. destruct H as (hs & Hhs & H).
      apply obind_some in H. destruct H as ([s1 hh] & Hop & H).
      apply obind_some in H. destruct H as (a & _ & H). injection H as H _. subst s'.
      destruct (apply_op_post O s k hs _ Hg (mapM_var_valid s args hs Hr Hhs) Hop) as (Hx & _).
      apply (ext_nodes s s1 Hx).
    - apply obind_some in H. destruct H as (x & _ & H). injection H as H _. subst s'.
      apply Hsame. reflexivity.
    - apply obind_some in H. destruct H as (x & _ & H).
      apply obind_some in H. destruct H as (s1 & Hs1 & H). injection H as H _. subst s'.
      apply Hsame. rewrite nodes_push. apply (set_var_nodes _ _ _ _ Hs1).
    - apply obind_some in H. destruct H as (x & _ & H).
      apply obind_some in H. destruct H as (s1 & Hs1 & H). injection H as H _. subst s'.
      apply Hsame. rewrite nodes_push. apply (set_var_nodes _ _ _ _ Hs1).
    - apply obind_some in H. destruct H as (x & _ & H).
      apply obind_some in H. destruct H as (s1 & Hs1 & H). injection H as H _. subst s'.
      apply Hsame. rewrite nodes_push. apply (set_var_nodes _ _ _ _ Hs1).
    - apply obind_some in H. destruct H as (x & _ & H).
      apply obind_some in H. destruct H as (s1 & Hs1 & H). injection H as H _. subst s'.
      apply Hsame. rewrite nodes_push. apply (set_var_nodes _ _ _ _ Hs1).
    - apply obind_some in H. destruct H as (x & _ & H).
      apply obind_some in H. destruct H as (s1 & Hs1 & H). injection H as H _. subst s'.
      apply Hsame. rewrite nodes_push. apply (set_var_nodes _ _ _ _ Hs1).
    - apply obind_some in H. destruct H as (x & _ & H). injection H as H _. subst s'.
      apply Hsame. reflexivity.
    - apply obind_some in H. destruct H as (x & _ & H).
      destruct (grad_of s x) as [gr|].
      + destruct (alloc s gr [] None None) as [s1 hh] eqn:Ha. injection H as H _. subst s'.
        apply (Halloc gr s1 hh _ Ha).
      + injection H as H _. subst s'. apply Hsame. reflexivity.
    - apply obind_some in H. destruct H as (x & _ & H).
      apply obind_some in H. destruct H as (a & _ & H).
      apply obind_some in H. destruct H as (u & _ & H).
      apply obind_some in H. destruct H as (s1 & Hs1 & H). injection H as H _. subst s'.
      apply Hsame. rewrite nodes_push. apply (set_var_nodes _ _ _ _ Hs1).
    - apply obind_some in H. destruct H as (x & _ & H).
      apply obind_some in H. destruct H as (a & _ & H).
      apply obind_some in H. destruct H as (v & _ & H). injection H as H _. subst s'.
      apply Hsame. reflexivity.
    - apply obind_some in H. destruct H as (x & _ & H).
      apply obind_some in H. destruct H as (a & _ & H).
      apply obind_some in H. destruct H as (v & _ & H). injection H as H _. subst s'.
      apply Hsame. reflexivity.
    - apply obind_some in H. destruct H as (x & _ & H).
      apply obind_some in H. destruct H as (y & _ & H).
      apply obind_some in H. destruct H as (a & _ & H).
      apply obind_some in H. destruct H as (b & _ & H). injection H as H _. subst s'.
      apply Hsame. reflexivity.
    - apply obind_some in H. destruct H as (x & _ & H).
      apply obind_some in H. destruct H as (a & _ & H). injection H as H _. subst s'.
      apply Hsame. reflexivity.
    - apply obind_some in H. destruct H as (x & _ & H).
      apply obind_some in H. destruct H as (a & _ & H). injection H as H _. subst s'.
      apply Hsame. reflexivity.
    - apply obind_some in H. destruct H as ([s1 layers] & Hfold & H). injection H as H _. subst s'.
      destruct (fold_make_layers ls s [] s1 layers Hg) with (2 := Hfold) as (Hx & _).
      { intros l0 []. }
      apply (ext_nodes s s1 Hx).
    - apply obind_some in H. destruct H as (x & Hx & H).
      apply obind_some in H. destruct H as ([s1 out] & Hmf & H).
      apply obind_some in H. destruct H as (a & _ & H). injection H as H _. subst s'.
      unfold model_forward in Hmf.
      apply obind_some in Hmf. destruct Hmf as ([s2 out2] & Hfold & Hmf).
      injection Hmf as H1 H2. subst s1 out2.
      destruct (fold_layers_post O (st_layers s) s x s2 out Hg (var_valid s h x Hr Hx)
                                 (fun l Hl => rvalid_layers s l Hr Hl) Hfold) as (Hxx & _).
      apply (ext_nodes s s2 Hxx).
    - injection H as H _. subst s'. apply Hsame. reflexivity.
  Qed.

  (** in particular the gradient slot, payload and children of an existing node are kept *)
  Corollary step_other_keeps_node : forall (s0 s' : state) i o id nd,
      HistoryInv.good s0 -> cell_instr i = false -> Program.step O s0 i = Some (s', o) ->
      nth_error (st_nodes s0) id = Some nd -> nth_error (st_nodes s') id = Some nd.
  Proof.
    intros s0 s' i o id nd Hgd Hci H Hnd.
    destruct (step_other_appends s0 s' i o Hgd Hci H) as (extra & He).
    rewrite He, nth_error_app1; [exact Hnd |]. eapply nth_lt. exact Hnd.
  Qed.
End ConcretePasses.

Print Assumptions pass_preserves_concrete.
Print Assumptions pass_independent_concrete.
Print Assumptions two_passes_add_concrete.
Print Assumptions steps_accumulate_concrete.
Print Assumptions closure_once_complete_concrete.
Print Assumptions step_backward_is_run_backward.
Print Assumptions step_cleargrad_is_clear_grad.
Print Assumptions step_other_appends.
