(** C06: convolution equals the direct sliding-window definition.

    [conv] (Model/Image.v) = [unroll_blocks] (im2col) ; [reshape] of the filters ;
    [a_matmul unrolled false fm true None] ; [expand_conv].

    - [unroll_blocks_spec]: the unrolled matrix, element by element;
    - [expand_conv_spec]:   the per-image transposition;
    - [conv_spec]:          the value of every output element, in the literal summation order
                            of the model (no assumption on the scalar operations);
    - [conv_spec_triple]:   the same as the textbook triple sum (commutative ring);
    - refusal facts. *)

From Coq Require Import List Arith Bool Lia PeanoNat.
From Corgi Require Import Lib.OptionMonad Lib.IdxDefs Lib.Idx Model.Scalar Model.Arr
     Model.SlicedOp Model.Elementwise Lib.Sums Model.Linalg Model.Image
     Proofs.ArrFacts Proofs.BroadcastDims Proofs.SpecDefs Proofs.SlicedOpSpec Proofs.EwSpec
     Proofs.ReduceSpec Proofs.MatmulSpec.
Import ListNotations.

(** * Arithmetic *)

(** the last window starts inside the image *)
Lemma stride_bound : forall X f s c, 1 <= s -> f <= X -> c < (X - f) / s + 1 -> s * c + f <= X.
Proof.
  intros X f s c Hs Hf Hc.
  assert (H1 : c <= (X - f) / s) by lia.
  pose proof (Nat.mul_div_le (X - f) s ltac:(lia)) as H2. nia.
Qed.

Lemma mul_add_lt : forall a b A B, a < A -> b < B -> a * B + b < A * B.
Proof. intros a b A B Ha Hb. nia. Qed.

Lemma div_mod_pos : forall a c b, c < b -> (a * b + c) / b = a /\ (a * b + c) mod b = c.
Proof. intros a c b H. apply divmod_pos. exact H. Qed.

(** decoding a flat position of five nested loops (bounds [_, B, C, D, E]) *)
Lemma decode5 : forall r c k m n B C D E,
    c < B -> k < C -> m < D -> n < E ->
    let oi := (((r * B + c) * C + k) * D + m) * E + n in
    oi mod E = n /\ (oi / E) mod D = m /\ (oi / (E * D)) mod C = k /\
    (oi / (E * D * C)) mod B = c /\ oi / (E * D * C * B) = r.
Proof.
  intros r c k m n B C D E Hc Hk Hm Hn oi.
  destruct (div_mod_pos (((r * B + c) * C + k) * D + m) n E Hn) as [H1 H1'].
  destruct (div_mod_pos ((r * B + c) * C + k) m D Hm) as [H2 H2'].
  destruct (div_mod_pos (r * B + c) k C Hk) as [H3 H3'].
  destruct (div_mod_pos r c B Hc) as [H4 H4'].
  fold oi in H1, H1'.
  assert (NE : E <> 0) by (clear - Hn; lia). assert (ND : D <> 0) by (clear - Hm; lia).
  assert (NC : C <> 0) by (clear - Hk; lia). assert (NB : B <> 0) by (clear - Hc; lia).
  assert (NED : E * D <> 0) by (clear - NE ND; nia).
  assert (NEDC : E * D * C <> 0) by (clear - NED NC; nia).
  assert (G2 : oi / (E * D) = (r * B + c) * C + k).
  { rewrite <- Nat.div_div by assumption. rewrite H1. exact H2. }
  assert (G3 : oi / (E * D * C) = r * B + c).
  { rewrite <- Nat.div_div by assumption. rewrite G2. exact H3. }
  assert (G4 : oi / (E * D * C * B) = r).
  { rewrite <- Nat.div_div by assumption. rewrite G3. exact H4. }
  rewrite H1, G2, G3. auto.
Qed.

(** decoding a flat filter position [q = (k*D + m)*E + n] *)
Lemma decode3 : forall q C D E,
    1 <= D -> 1 <= E -> q < C * (D * E) ->
    q / (D * E) < C /\ (q / E) mod D < D /\ q mod E < E /\
    q = (q / (D * E) * D + (q / E) mod D) * E + q mod E.
Proof.
  intros q C D E HD HE Hq.
  split; [apply Nat.div_lt_upper_bound; lia|].
  split; [apply Nat.mod_upper_bound; lia|].
  split; [apply Nat.mod_upper_bound; lia|].
  rewrite (Nat.mul_comm D E), <- Nat.div_div by lia.
  pose proof (Nat.div_mod q E ltac:(lia)) as H1.
  pose proof (Nat.div_mod (q / E) D ltac:(lia)) as H2. nia.
Qed.

Lemma encode3 : forall k m n D E,
    m < D -> n < E ->
    let q := (k * D + m) * E + n in
    q / (D * E) = k /\ (q / E) mod D = m /\ q mod E = n.
Proof.
  intros k m n D E Hm Hn q.
  destruct (div_mod_pos (k * D + m) n E Hn) as [H1 H1'].
  destruct (div_mod_pos k m D Hm) as [H2 H2'].
  fold q in H1, H1'.
  assert (NE : E <> 0) by (clear - Hn; lia). assert (ND : D <> 0) by (clear - Hm; lia).
  rewrite (Nat.mul_comm D E), <- Nat.div_div by assumption. rewrite H1. auto.
Qed.

(** * Shapes with the last three dimensions split off *)

Lemma snoc3_snoc2 : forall {A} (l : list A) x y z, l ++ [x; y; z] = (l ++ [x]) ++ [y; z].
Proof. intros. rewrite <- app_assoc. reflexivity. Qed.

Lemma length_snoc3 : forall {A} (l : list A) x y z, length (l ++ [x; y; z]) = length l + 3.
Proof. intros. rewrite app_length. reflexivity. Qed.

Lemma dim_back_snoc3_1 : forall l x y z, dim_back (l ++ [x; y; z]) 1 = Some z.
Proof. intros. rewrite snoc3_snoc2. apply dim_back_snoc2_1. Qed.

Lemma dim_back_snoc3_2 : forall l x y z, dim_back (l ++ [x; y; z]) 2 = Some y.
Proof. intros. rewrite snoc3_snoc2. apply dim_back_snoc2_2. Qed.

Lemma dim_back_snoc3_3 : forall l x y z, dim_back (l ++ [x; y; z]) 3 = Some x.
Proof.
  intros l x y z. unfold dim_back. rewrite length_snoc3.
  assert (E : (3 <=? length l + 3) = true) by (apply Nat.leb_le; lia). rewrite E. cbn [guard obind].
  replace (length l + 3 - 3) with (length l) by lia.
  rewrite nth_error_app_ge by lia. rewrite Nat.sub_diag. reflexivity.
Qed.

Lemma firstn_snoc3 : forall {A} (l : list A) x y z,
    firstn (length (l ++ [x; y; z]) - 3) (l ++ [x; y; z]) = l.
Proof.
  intros A l x y z. rewrite length_snoc3. replace (length l + 3 - 3) with (length l) by lia.
  apply firstn_app_len.
Qed.

Lemma rowmajor_snoc3 : forall d I x y z i j k,
    length d = length I ->
    rowmajor (d ++ [x; y; z]) (I ++ [i; j; k])
    = rowmajor d I * (x * (y * z)) + ((i * y + j) * z + k).
Proof.
  intros d I x y z i j k H. rewrite rowmajor_app by exact H. cbn [rowmajor prod fold_right]. nia.
Qed.

Lemma in_range_snoc3 : forall I d i j k x y z,
    in_range I d -> i < x -> j < y -> k < z -> in_range (I ++ [i; j; k]) (d ++ [x; y; z]).
Proof.
  intros I d i j k x y z HI Hi Hj Hk. unfold in_range in *. apply Forall2_app; [exact HI|].
  repeat (constructor; [assumption|]). constructor.
Qed.

(** * [sliced_op] with one operand whose blocks are mapped independently *)

Section Single.
  Context {F : Type} (O : ScalarOps F).

  Lemma lead_dims_app : forall (a : arr F) lead trail,
      dims a = lead ++ trail -> lead_dims (length trail) a = lead.
  Proof.
    intros a lead trail E. unfold lead_dims. rewrite E, app_length.
    replace (length lead + length trail - length trail) with (length lead) by lia.
    apply firstn_app_len.
  Qed.

  Lemma group_length_app : forall (a : arr F) lead trail,
      dims a = lead ++ trail -> group_length (length trail) a = prod trail.
  Proof.
    intros a lead trail E. unfold group_length, lastn. rewrite E, app_length.
    replace (length lead + length trail - length trail) with (length lead) by lia.
    rewrite skipn_app_len. reflexivity.
  Qed.

  (** if [op] maps the block [s] of the operand to [g s] (whatever the zero-filled output
      block), the result consists of the blocks [g (block t)] *)
  Lemma sliced_op_single : forall (a : arr F) (op : @sop F) (g : list F -> list F) lead trail otrail,
      wf a -> dims a = lead ++ trail -> Forall (fun v => 1 <= v) otrail ->
      (forall s, length s = prod trail ->
                 op (repeat (f0 O) (prod otrail)) [s] = Some (g s) /\ length (g s) = prod otrail) ->
      exists u,
        sliced_op O [a] op (lead ++ trail) (lead ++ otrail) (length trail) 0 = Some u /\
        wf u /\ dims u = lead ++ otrail /\
        forall t, t < prod lead ->
                  block (prod otrail) t (vals u) = g (block (prod trail) t (vals a)).
  Proof.
    intros a op g lead trail otrail Hwa Ea Hpo Hop.
    assert (Hpd : Forall (fun v => 1 <= v) (dims a)) by apply Hwa.
    rewrite Ea in Hpd. apply Forall_app in Hpd. destruct Hpd as [Hlead Htrail].
    assert (Hva : length (vals a) = prod lead * prod trail).
    { destruct Hwa as [_ Hl]. rewrite <- Hl, Ea, prod_app. reflexivity. }
    assert (E1 : length (lead ++ trail) - length trail = length lead)
      by (rewrite app_length; lia).
    assert (E2 : firstn (length lead) (lead ++ trail) = lead) by apply firstn_app_len.
    assert (E2' : firstn (length lead) (lead ++ otrail) = lead) by apply firstn_app_len.
    assert (E3 : prod (skipn (length lead) (lead ++ otrail)) = prod otrail)
      by (rewrite skipn_app_len; reflexivity).
    assert (Hsl : forall t, t < prod lead ->
               mapM (operand_slice (length trail) (length lead) (unrank lead t)) [a]
               = Some [block (prod trail) t (vals a)]).
    { intros t Ht. cbn [mapM].
      rewrite (operand_slice_spec (length trail) (length lead) lead t a Hwa Hlead eq_refl)
        by (rewrite (lead_dims_app a lead trail Ea); apply sub_lead_refl).
      rewrite (lead_dims_app a lead trail Ea), (group_length_app a lead trail Ea).
      rewrite bclamp_id by (apply unrank_lt; exact Hlead).
      rewrite rowmajor_unrank by assumption. reflexivity. }
    assert (Hbl : forall t, t < prod lead -> length (block (prod trail) t (vals a)) = prod trail).
    { intros t Ht. apply (block_length _ _ (prod lead)); assumption. }
    assert (Hvalid : forallb (sliced_valid (length trail) (lead ++ trail)) [a] = true).
    { cbn [forallb]. rewrite andb_true_r. apply sliced_valid_spec.
      - rewrite Ea. lia.
      - rewrite (lead_dims_app a lead trail Ea), E1, E2. apply sub_lead_refl. }
    pose proof (sliced_op_nonacc_total O [a] op (lead ++ trail) (lead ++ otrail) (length trail) 0
                                       (lead ++ otrail)) as T.
    cbv zeta in T. rewrite E1, E2, E2', E3 in T.
    destruct T as (out & Hout); try reflexivity; try assumption.
    { intros t Ht. eexists. exists (g (block (prod trail) t (vals a))).
      split; [apply Hsl; exact Ht|]. apply Hop. apply Hbl. exact Ht. }
    { apply Forall_app. split; assumption. }
    set (u := {| dims := lead ++ otrail; vals := out |}) in *.
    exists u. split; [exact Hout|].
    pose proof (sliced_op_nonacc O [a] op (lead ++ trail) (lead ++ otrail) (length trail) 0 u) as S.
    cbv zeta in S. rewrite E1, E2, E2', E3 in S.
    apply (proj1 (S eq_refl Hlead)) in Hout. clear S.
    destruct Hout as (_ & out' & Hlen & Hb & Hmk).
    unfold flatten_dims in Hmk. cbn [Nat.eqb obind] in Hmk.
    apply mk_some in Hmk. destruct Hmk as (Hpu & Hpl & Hceq).
    assert (out' = out) by (unfold u in Hceq; congruence). subst out'.
    split; [split; [exact Hpu|exact Hpl]|]. split; [reflexivity|].
    intros t Ht. destruct (Hb t Ht) as (slices & Hs & Hnew).
    rewrite (Hsl t Ht) in Hs. inversion Hs; subst slices. clear Hs.
    destruct (Hop (block (prod trail) t (vals a)) (Hbl t Ht)) as [Hg _].
    rewrite Hg in Hnew. inversion Hnew as [Hq]. symmetry. exact Hq.
  Qed.
End Single.

(** * [unroll_blocks] (im2col) *)

Section Unroll.
  Context {F : Type} (O : ScalarOps F).

  Definition out_count (image filter stride : nat) : nat := (image - filter) / stride + 1.

  Lemma out_count_pos : forall image filter stride, 1 <= out_count image filter stride.
  Proof. intros. unfold out_count. rewrite Nat.add_1_r. apply le_n_S, Nat.le_0_l. Qed.

  Lemma stride_count_some : forall image filter stride,
      filter <= image -> 1 <= stride ->
      stride_count image filter stride = Some (out_count image filter stride).
  Proof.
    intros image filter stride H1 H2. unfold stride_count.
    apply Nat.leb_le in H1. apply Nat.leb_le in H2. rewrite H1, H2. reflexivity.
  Qed.

  Lemma stride_count_none : forall image filter stride,
      image < filter \/ stride = 0 -> stride_count image filter stride = None.
  Proof.
    intros image filter stride [H|H]; unfold stride_count.
    - apply Nat.leb_gt in H. rewrite H. reflexivity.
    - subst stride. destruct (guard (filter <=? image)) as [[]|]; reflexivity.
  Qed.

  (** the source offset (inside one image) read for the flat output position [oi] *)
  Definition unroll_phi (depth rows cols sr sc fr fc ccount oi : nat) : nat :=
    let n := oi mod fc in
    let m := (oi / fc) mod fr in
    let k := (oi / (fc * fr)) mod depth in
    let c := (oi / (fc * fr * depth)) mod ccount in
    let r := oi / (fc * fr * depth * ccount) in
    (n + sc * c) + cols * ((m + sr * r) + rows * k).

  Definition unroll_g (depth rows cols sr sc fr fc rcount ccount : nat) (s : list F) : list F :=
    map (fun oi => nth (unroll_phi depth rows cols sr sc fr fc ccount oi) s (f0 O))
        (seq 0 (rcount * ccount * depth * fr * fc)).

  Section Geometry.
    Variables (depth rows cols sr sc fr fc : nat).
    Hypothesis (Hdepth : 1 <= depth) (Hsr : 1 <= sr) (Hsc : 1 <= sc).
    Hypothesis (Hfr : 1 <= fr) (Hfc : 1 <= fc) (Hfr' : fr <= rows) (Hfc' : fc <= cols).

    Let rc := out_count rows fr sr.
    Let cc := out_count cols fc sc.

    Lemma window_in_range : forall y x m n,
        y < rc -> x < cc -> m < fr -> n < fc ->
        y * sr + m < rows /\ x * sc + n < cols.
    Proof.
      intros y x m n Hy Hx Hm Hn.
      pose proof (stride_bound rows fr sr y Hsr Hfr' Hy).
      pose proof (stride_bound cols fc sc x Hsc Hfc' Hx). lia.
    Qed.

    Lemma unroll_phi_lt : forall oi,
        oi < rc * cc * depth * fr * fc ->
        unroll_phi depth rows cols sr sc fr fc cc oi < depth * (rows * (cols * 1)).
    Proof.
      intros oi Hoi. unfold unroll_phi. cbv zeta.
      assert (Hcc : 1 <= cc) by apply out_count_pos.
      assert (Nfc : fc <> 0) by (clear - Hfc; lia). assert (Nfr : fr <> 0) by (clear - Hfr; lia).
      assert (Nd : depth <> 0) by (clear - Hdepth; lia). assert (Ncc : cc <> 0) by (clear - Hcc; lia).
      assert (Hn : oi mod fc < fc) by (apply Nat.mod_upper_bound; exact Nfc).
      assert (Hm : (oi / fc) mod fr < fr) by (apply Nat.mod_upper_bound; exact Nfr).
      assert (Hk : (oi / (fc * fr)) mod depth < depth) by (apply Nat.mod_upper_bound; exact Nd).
      assert (Hc : (oi / (fc * fr * depth)) mod cc < cc) by (apply Nat.mod_upper_bound; exact Ncc).
      assert (Hr : oi / (fc * fr * depth * cc) < rc).
      { apply Nat.div_lt_upper_bound.
        - clear - Nfc Nfr Nd Ncc. nia.
        - replace (fc * fr * depth * cc * rc) with (rc * cc * depth * fr * fc) by ring. exact Hoi. }
      clear Hoi.
      generalize dependent (oi mod fc). generalize dependent ((oi / fc) mod fr).
      generalize dependent ((oi / (fc * fr)) mod depth).
      generalize dependent ((oi / (fc * fr * depth)) mod cc).
      generalize dependent (oi / (fc * fr * depth * cc)).
      intros r Hr c Hc k Hk m Hm n Hn.
      pose proof (stride_bound rows fr sr r Hsr Hfr' Hr) as H1.
      pose proof (stride_bound cols fc sc c Hsc Hfc' Hc) as H2.
      assert (X : n + sc * c < cols) by lia.
      assert (Y : m + sr * r < rows) by lia.
      assert (Z : m + sr * r + rows * k < rows * depth) by nia.
      nia.
    Qed.

    Lemma unroll_g_spec : forall (cur s : list F),
        length s = depth * (rows * (cols * 1)) ->
        unroll_sop depth rows cols sr sc fr fc rc cc cur [s]
        = Some (unroll_g depth rows cols sr sc fr fc rc cc s) /\
        length (unroll_g depth rows cols sr sc fr fc rc cc s) = rc * cc * (depth * (fr * fc) * 1).
    Proof.
      intros cur s Hs. split.
      - unfold unroll_sop, unroll_g. apply mapM_some_map. intros oi Hoi. apply in_seq in Hoi.
        cbv zeta. apply nth_error_some_nth. rewrite Hs.
        apply unroll_phi_lt. lia.
      - unfold unroll_g. rewrite map_length, seq_length. lia.
    Qed.

    Lemma unroll_g_nth : forall (s : list F) y x k m n,
        y < rc -> x < cc -> k < depth -> m < fr -> n < fc ->
        nth_error (unroll_g depth rows cols sr sc fr fc rc cc s)
                  ((y * cc + x) * (depth * (fr * fc)) + ((k * fr + m) * fc + n))
        = Some (nth ((k * rows + (y * sr + m)) * cols + (x * sc + n)) s (f0 O)).
    Proof.
      intros s y x k m n Hy Hx Hk Hm Hn. unfold unroll_g.
      replace ((y * cc + x) * (depth * (fr * fc)) + ((k * fr + m) * fc + n))
        with ((((y * cc + x) * depth + k) * fr + m) * fc + n) by ring.
      rewrite nth_error_map_seq.
      - f_equal. f_equal. unfold unroll_phi. cbv zeta.
        destruct (decode5 y x k m n cc depth fr fc Hx Hk Hm Hn) as (E1 & E2 & E3 & E4 & E5).
        cbv zeta in E1, E2, E3, E4, E5. rewrite E1, E2, E3, E4, E5. ring.
      - repeat apply mul_add_lt; assumption.
    Qed.
  End Geometry.

  Theorem unroll_blocks_spec : forall (image : arr F) batch depth rows cols sr sc fr fc,
      wf image -> dims image = batch ++ [depth; rows; cols] ->
      1 <= sr -> 1 <= sc -> 1 <= fr -> 1 <= fc -> fr <= rows -> fc <= cols ->
      let rc := out_count rows fr sr in
      let cc := out_count cols fc sc in
      exists u,
        unroll_blocks O image sr sc fr fc = Some u /\ wf u /\
        dims u = batch ++ [rc * cc; depth * (fr * fc)] /\
        forall B y x k m n,
          in_range B batch -> y < rc -> x < cc -> k < depth -> m < fr -> n < fc ->
          in_range (B ++ [y * cc + x; (k * fr + m) * fc + n]) (dims u) /\
          in_range (B ++ [k; y * sr + m; x * sc + n]) (dims image) /\
          get u (B ++ [y * cc + x; (k * fr + m) * fc + n])
          = get image (B ++ [k; y * sr + m; x * sc + n]).
  Proof.
    intros image batch depth rows cols sr sc fr fc Hw Ed Hsr Hsc Hfr Hfc Hfr' Hfc' rc cc.
    assert (Hpd : Forall (fun v => 1 <= v) (dims image)) by apply Hw.
    rewrite Ed in Hpd. apply Forall_app in Hpd. destruct Hpd as [Hbatch Htr].
    inversion Htr as [|? ? Hdepth Htr1]; subst. inversion Htr1 as [|? ? Hrows Htr2]; subst.
    inversion Htr2 as [|? ? Hcols _]; subst.
    assert (Hrc : 1 <= rc) by apply out_count_pos.
    assert (Hcc : 1 <= cc) by apply out_count_pos.
    assert (Hpo : Forall (fun v => 1 <= v) [rc * cc; depth * (fr * fc)]).
    { constructor; [nia|]. constructor; [nia|constructor]. }
    destruct (sliced_op_single O image (unroll_sop depth rows cols sr sc fr fc rc cc)
                               (unroll_g depth rows cols sr sc fr fc rc cc)
                               batch [depth; rows; cols] [rc * cc; depth * (fr * fc)]
                               Hw Ed Hpo) as (u & Hu & Hwu & Hdu & Hblk).
    { intros s Hs. cbn [prod fold_right] in *.
      apply unroll_g_spec; assumption. }
    exists u. split; [|split; [exact Hwu|split; [exact Hdu|]]].
    - unfold unroll_blocks. cbv zeta. rewrite Ed.
      rewrite dim_back_snoc3_3, dim_back_snoc3_2, dim_back_snoc3_1. cbn [obind].
      rewrite (stride_count_some rows fr sr Hfr' Hsr), (stride_count_some cols fc sc Hfc' Hsc).
      cbn [obind]. rewrite firstn_snoc3. exact Hu.
    - intros B y x k m n HB Hy Hx Hk Hm Hn.
      assert (Hwin : y * sr + m < rows /\ x * sc + n < cols)
        by (apply (window_in_range depth rows cols sr sc fr fc); assumption).
      destruct Hwin as [Hyr Hxc].
      assert (HlenB : length batch = length B) by (symmetry; eapply Forall2_len; exact HB).
      assert (Hp : y * cc + x < rc * cc) by (apply mul_add_lt; assumption).
      assert (Hq : (k * fr + m) * fc + n < depth * (fr * fc)).
      { replace (depth * (fr * fc)) with (depth * fr * fc) by ring.
        repeat apply mul_add_lt; assumption. }
      assert (Hpq : (y * cc + x) * (depth * (fr * fc)) + ((k * fr + m) * fc + n)
                    < rc * cc * (depth * (fr * fc) * 1)).
      { rewrite Nat.mul_1_r. apply mul_add_lt; assumption. }
      assert (Hoff : (k * rows + (y * sr + m)) * cols + (x * sc + n) < depth * (rows * (cols * 1))).
      { replace (depth * (rows * (cols * 1))) with (depth * rows * cols) by ring.
        repeat apply mul_add_lt; assumption. }
      assert (Hru : in_range (B ++ [y * cc + x; (k * fr + m) * fc + n]) (dims u)).
      { rewrite Hdu. apply in_range_snoc2; assumption. }
      assert (Hri : in_range (B ++ [k; y * sr + m; x * sc + n]) (dims image)).
      { rewrite Ed. apply in_range_snoc3; assumption. }
      split; [exact Hru|]. split; [exact Hri|].
      set (t := rowmajor batch B).
      assert (Ht : t < prod batch) by (apply rowmajor_lt_prod; exact HB).
      specialize (Hblk t Ht). cbn [prod fold_right] in Hblk.
      rewrite (get_getd O image _ Hw Hri).
      unfold get. rewrite Hdu, rowmajor_snoc2 by exact HlenB. fold t.
      replace (t * (rc * cc * (depth * (fr * fc)))
               + ((y * cc + x) * (depth * (fr * fc)) + ((k * fr + m) * fc + n)))
        with (rc * cc * (depth * (fr * fc) * 1) * t
              + ((y * cc + x) * (depth * (fr * fc)) + ((k * fr + m) * fc + n))) by ring.
      rewrite <- nth_error_block by exact Hpq.
      rewrite Hblk.
      rewrite unroll_g_nth; try assumption.
      f_equal. rewrite nth_block by exact Hoff. unfold getd.
      rewrite Ed, rowmajor_snoc3 by exact HlenB.
      fold t. f_equal. ring.
  Qed.
End Unroll.

(** * [expand_conv]: per image, [windows x count] -> [count x out_rows x out_cols] *)

Lemma ceil_div_exact : forall P il, 1 <= il -> (P * il + il - 1) / il = P.
Proof.
  intros P il H. symmetry. apply (Nat.div_unique _ _ _ (il - 1)); [lia|].
  rewrite (Nat.mul_comm il P). lia.
Qed.

Lemma expand_index_at : forall count S t f p,
    f < count -> p < S ->
    expand_index count S (t * (S * count) + (f * S + p)) = t * (S * count) + (p * count + f).
Proof.
  intros count S t f p Hf Hp. unfold expand_index. cbv zeta.
  assert (Hw : f * S + p < S * count).
  { rewrite (Nat.mul_comm S count). apply mul_add_lt; assumption. }
  destruct (div_mod_pos t (f * S + p) (S * count) Hw) as [-> ->].
  destruct (div_mod_pos f p S Hp) as [-> ->]. ring.
Qed.

Lemma expand_index_lt : forall count S P ri,
    1 <= count -> 1 <= S -> ri < P * (S * count) -> expand_index count S ri < P * (S * count).
Proof.
  intros count S P ri Hc HS Hri. unfold expand_index. cbv zeta.
  assert (Nil : S * count <> 0) by (clear - Hc HS; nia).
  assert (NS : S <> 0) by (clear - HS; lia).
  assert (Hq : ri / (S * count) < P).
  { apply Nat.div_lt_upper_bound; [exact Nil|]. rewrite (Nat.mul_comm (S * count) P). exact Hri. }
  assert (Hw : ri mod (S * count) < S * count) by (apply Nat.mod_upper_bound; exact Nil).
  assert (Ha : ri mod (S * count) / S < count).
  { apply Nat.div_lt_upper_bound; [exact NS|exact Hw]. }
  assert (Hb : (ri mod (S * count)) mod S < S) by (apply Nat.mod_upper_bound; exact NS).
  clear Hri Hw.
  generalize dependent (ri / (S * count)). generalize dependent (ri mod (S * count) / S).
  generalize dependent ((ri mod (S * count)) mod S).
  intros b Hb a Ha q Hq.
  rewrite <- Nat.add_assoc.
  replace (a + count * b) with (b * count + a) by ring.
  apply mul_add_lt; [exact Hq|]. apply mul_add_lt; assumption.
Qed.

Section Expand.
  Context {F : Type} (O : ScalarOps F).

  Theorem expand_conv_spec : forall (a : arr F) batch rc cc count,
      wf a -> dims a = batch ++ [rc * cc; count] -> 1 <= rc -> 1 <= cc ->
      exists e,
        expand_conv O a rc cc = Some e /\ wf e /\ dims e = batch ++ [count; rc; cc] /\
        forall B f y x,
          in_range B batch -> f < count -> y < rc -> x < cc ->
          in_range (B ++ [f; y; x]) (dims e) /\
          in_range (B ++ [y * cc + x; f]) (dims a) /\
          get e (B ++ [f; y; x]) = get a (B ++ [y * cc + x; f]).
  Proof.
    intros a batch rc cc count Hw Ed Hrc Hcc.
    destruct (wf_snoc2 a batch (rc * cc) count Hw Ed) as (Hbatch & HS & Hcount & Hva).
    set (S := rc * cc) in *. set (P := prod batch) in *.
    set (g := fun ri => nth (expand_index count S ri) (vals a) (f0 O)).
    set (e := {| dims := batch ++ [count; rc; cc]; vals := map g (seq 0 (P * (S * count))) |}).
    assert (Hil : 1 <= S * count) by (clear - HS Hcount; nia).
    assert (He : expand_conv O a rc cc = Some e).
    { unfold expand_conv. cbv zeta. rewrite Ed, dim_back_snoc2_1. cbn [obind]. fold S.
      apply Nat.leb_le in Hil. rewrite Hil. cbn [guard obind].
      rewrite Hva. fold P. rewrite ceil_div_exact by (apply Nat.leb_le; exact Hil).
      rewrite (mapM_some_map _ g).
      - cbn [obind]. rewrite map_length, seq_length, Nat.leb_refl. cbn [guard obind].
        rewrite Nat.sub_diag. cbn [repeat]. rewrite app_nil_r, firstn_snoc2.
        apply mk_some. split; [|split; [|reflexivity]].
        + apply Forall_app. split; [exact Hbatch|]. repeat (constructor; [assumption|]). constructor.
        + rewrite map_length, seq_length, prod_app. fold P. cbn [prod fold_right]. unfold S. ring.
      - intros ri Hri. apply in_seq in Hri. unfold g. apply nth_error_some_nth.
        rewrite Hva. apply expand_index_lt; [assumption|assumption|]. fold P. lia. }
    exists e. split; [exact He|].
    assert (Hwe : wf e).
    { split; cbn [dims vals e].
      - apply Forall_app. split; [exact Hbatch|]. repeat (constructor; [assumption|]). constructor.
      - rewrite map_length, seq_length, prod_app. fold P. cbn [prod fold_right]. unfold S. ring. }
    split; [exact Hwe|]. split; [reflexivity|].
    intros B f y x HB Hf Hy Hx.
    assert (HlenB : length batch = length B) by (symmetry; eapply Forall2_len; exact HB).
    assert (Hp : y * cc + x < S) by (apply mul_add_lt; assumption).
    assert (Hre : in_range (B ++ [f; y; x]) (dims e)) by (apply in_range_snoc3; assumption).
    assert (Hra : in_range (B ++ [y * cc + x; f]) (dims a)).
    { rewrite Ed. apply in_range_snoc2; assumption. }
    split; [exact Hre|]. split; [exact Hra|].
    rewrite (get_getd O a _ Hw Hra).
    unfold get. cbn [dims vals e]. rewrite rowmajor_snoc3 by exact HlenB.
    set (t := rowmajor batch B).
    assert (Ht : t < P) by (apply rowmajor_lt_prod; exact HB).
    replace (t * (count * (rc * cc)) + ((f * rc + y) * cc + x))
      with (t * (S * count) + (f * S + (y * cc + x))) by (unfold S; ring).
    rewrite nth_error_map_seq.
    - f_equal. unfold g. rewrite expand_index_at by assumption.
      unfold getd. rewrite Ed, rowmajor_snoc2 by exact HlenB. reflexivity.
    - apply mul_add_lt; [exact Ht|]. rewrite (Nat.mul_comm S count). apply mul_add_lt; assumption.
  Qed.
End Expand.

(** * [conv] *)

Section Conv.
  Context {F : Type} (O : ScalarOps F).

  (** the reshaped filter matrix: row [f], column [(k*fr + m)*fc + n] *)
  Lemma fm_entry : forall (filters : arr F) count depth fr fc f k m n,
      dims filters = [count; depth; fr; fc] ->
      getd O {| dims := [count; fr * fc * depth]; vals := vals filters |} [f; (k * fr + m) * fc + n]
      = getd O filters [f; k; m; n].
  Proof.
    intros filters count depth fr fc f k m n Ef. unfold getd. cbn [dims vals]. rewrite Ef.
    cbn [rowmajor prod fold_right]. f_equal. ring.
  Qed.

  Lemma getd_of_get_eq : forall (a b : arr F) I J,
      wf a -> wf b -> in_range I (dims a) -> in_range J (dims b) ->
      get a I = get b J -> getd O a I = getd O b J.
  Proof.
    intros a b I J Hwa Hwb HI HJ H.
    rewrite (get_getd O a I Hwa HI), (get_getd O b J Hwb HJ) in H. inversion H. reflexivity.
  Qed.

  Theorem conv_spec : forall (image filters : arr F) batch depth rows cols count fr fc sr sc,
      wf image -> wf filters ->
      dims image = batch ++ [depth; rows; cols] -> dims filters = [count; depth; fr; fc] ->
      1 <= sr -> 1 <= sc -> fr <= rows -> fc <= cols ->
      let rc := out_count rows fr sr in
      let cc := out_count cols fc sc in
      exists r,
        conv O image filters sr sc = Some r /\ wf r /\ dims r = batch ++ [count; rc; cc] /\
        forall B f y x,
          in_range B batch -> f < count -> y < rc -> x < cc ->
          (forall q, q < depth * fr * fc ->
                     in_range (B ++ [q / (fr * fc); y * sr + (q / fc) mod fr; x * sc + q mod fc])
                              (dims image) /\
                     in_range [f; q / (fr * fc); (q / fc) mod fr; q mod fc] (dims filters)) /\
          get r (B ++ [f; y; x])
          = Some (fadd O (f0 O)
                       (vsum O (map (fun q =>
                                       let k := q / (fr * fc) in
                                       let m := (q / fc) mod fr in
                                       let n := q mod fc in
                                       fmul O (getd O image (B ++ [k; y * sr + m; x * sc + n]))
                                              (getd O filters [f; k; m; n]))
                                    (seq 0 (depth * fr * fc))))).
  Proof.
    intros image filters batch depth rows cols count fr fc sr sc Hwi Hwf Ed Ef Hsr Hsc Hfr' Hfc' rc cc.
    assert (Hpf : Forall (fun v => 1 <= v) (dims filters)) by apply Hwf.
    rewrite Ef in Hpf.
    inversion Hpf as [|? ? Hcount Hpf1]; subst. inversion Hpf1 as [|? ? Hdepth Hpf2]; subst.
    inversion Hpf2 as [|? ? Hfr Hpf3]; subst. inversion Hpf3 as [|? ? Hfc _]; subst.
    assert (Hvf : length (vals filters) = count * (fr * fc * depth)).
    { destruct Hwf as [_ Hl]. rewrite <- Hl, Ef. cbn [prod fold_right]. ring. }
    assert (Hrc : 1 <= rc) by apply out_count_pos.
    assert (Hcc : 1 <= cc) by apply out_count_pos.
    (* 1. unrolling *)
    destruct (unroll_blocks_spec O image batch depth rows cols sr sc fr fc Hwi Ed Hsr Hsc Hfr Hfc
                                 Hfr' Hfc') as (u & Hu & Hwu & Hdu & Huv).
    fold rc in Hu, Hdu, Huv. fold cc in Hu, Hdu, Huv.
    (* 2. the filter matrix *)
    set (fm := {| dims := [count; fr * fc * depth]; vals := vals filters |}).
    assert (Hwfm : wf fm).
    { split; cbn [dims vals fm].
      - constructor; [exact Hcount|]. constructor; [|constructor].
        clear - Hfr Hfc Hdepth. nia.
      - rewrite Hvf. cbn [prod fold_right]. ring. }
    (* 3. the matrix product *)
    destruct (matmul_spec_nobias O u false fm true batch (rc * cc) (depth * (fr * fc))
                                 [] count (fr * fc * depth) Hwu Hwfm Hdu eq_refl)
      as (r1 & Hr1 & Hwr1 & Hdr1 & Hv1).
    { cbn [mm_inner_a mm_inner_b]. ring. }
    { apply bcompat_sym. exact I. }
    rewrite bmax_nil_r in Hdr1, Hv1. cbn [mm_rows mm_cols mm_inner_a] in Hdr1, Hv1.
    (* 4. the per-image transposition *)
    destruct (expand_conv_spec O r1 batch rc cc count Hwr1 Hdr1 Hrc Hcc)
      as (e & He & Hwe & Hde & Hve).
    exists e. split; [|split; [exact Hwe|split; [exact Hde|]]].
    - unfold conv. cbv zeta. rewrite Ed, Ef.
      assert (L1 : (1 <=? length (batch ++ [depth; rows; cols])) = true)
        by (rewrite length_snoc3; apply Nat.leb_le; lia).
      assert (L3 : (3 <=? length (batch ++ [depth; rows; cols])) = true)
        by (rewrite length_snoc3; apply Nat.leb_le; lia).
      rewrite L1, L3. cbn [length Nat.leb andb guard obind].
      rewrite dim_back_snoc3_3, dim_back_snoc3_2, dim_back_snoc3_1. cbn [obind].
      change (dim_back [count; depth; fr; fc] 2) with (Some fr).
      change (dim_back [count; depth; fr; fc] 1) with (Some fc). cbn [obind].
      rewrite (stride_count_some rows fr sr Hfr' Hsr), (stride_count_some cols fc sc Hfc' Hsc).
      cbn [obind]. fold rc. fold cc. rewrite Hu. cbn [obind].
      rewrite Hdu, dim_back_snoc2_1. cbn [obind Nat.sub firstn app].
      assert (Hus : depth * (fr * fc) / depth = fr * fc).
      { rewrite Nat.mul_comm. apply Nat.div_mul. clear - Hdepth. lia. }
      rewrite Hus.
      assert (Hresh : a_reshape [count; fr * fc * depth] filters = Some fm).
      { apply a_reshape_spec. split; [apply Hwfm|]. split; [|reflexivity].
        rewrite Hvf. cbn [prod fold_right]. ring. }
      rewrite Hresh. cbn [obind]. rewrite Hr1. cbn [obind]. exact He.
    - intros B f y x HB Hf Hy Hx.
      assert (Hp : y * cc + x < rc * cc) by (apply mul_add_lt; assumption).
      destruct (Hve B f y x HB Hf Hy Hx) as (_ & _ & Hget). rewrite Hget. clear Hget.
      destruct (Hv1 B (y * cc + x) f HB Hp Hf) as [_ Hval]. rewrite Hval. clear Hval.
      assert (Hdec : forall q, q < depth * (fr * fc) ->
                 let k := q / (fr * fc) in
                 let m := (q / fc) mod fr in
                 let n := q mod fc in
                 k < depth /\ m < fr /\ n < fc /\ q = (k * fr + m) * fc + n).
      { intros q Hq. cbv zeta. apply decode3; assumption. }
      split.
      + intros q Hq. replace (depth * fr * fc) with (depth * (fr * fc)) in Hq by ring.
        destruct (Hdec q Hq) as (Hk & Hm & Hn & _).
        destruct (Huv B y x _ _ _ HB Hy Hx Hk Hm Hn) as (_ & Hri & _).
        split; [exact Hri|]. rewrite Ef.
        repeat (constructor; [assumption|]). constructor.
      + replace (depth * fr * fc) with (depth * (fr * fc)) by ring.
        f_equal. f_equal. f_equal. apply map_ext_in. intros q Hq. apply in_seq in Hq.
        assert (Hq' : q < depth * (fr * fc)) by lia. cbv zeta.
        destruct (Hdec q Hq') as (Hk & Hm & Hn & Eq).
        set (k := q / (fr * fc)) in *. set (m := (q / fc) mod fr) in *. set (n := q mod fc) in *.
        destruct (Huv B y x k m n HB Hy Hx Hk Hm Hn) as (Hru & Hri & Hgu).
        unfold a_idx, b_idx. rewrite bclamp_nil, (bclamp_id batch B HB). cbn [app].
        replace (B ++ [y * cc + x; q]) with (B ++ [y * cc + x; (k * fr + m) * fc + n])
          by (rewrite <- Eq; reflexivity).
        replace [f; q] with [f; (k * fr + m) * fc + n] by (rewrite <- Eq; reflexivity).
        rewrite (getd_of_get_eq u image _ _ Hwu Hwi Hru Hri Hgu).
        unfold fm. rewrite (fm_entry filters count depth fr fc f k m n Ef). reflexivity.
  Qed.
End Conv.

(** * The textbook triple sum (commutative ring) *)

Section Triple.
  Context {F : Type} (O : ScalarOps F) (R : is_cring O).

  (** a sum over the flat index [q = (k*D + m)*E + n] is the triple sum over [k, m, n] *)
  Lemma vsum_triple : forall (h : nat -> nat -> nat -> F) C D E,
      vsum O (map (fun q => h (q / (D * E)) ((q / E) mod D) (q mod E)) (seq 0 (C * (D * E))))
      = vsum O (map (fun k =>
                       vsum O (map (fun m => vsum O (map (fun n => h k m n) (seq 0 E))) (seq 0 D)))
                    (seq 0 C)).
  Proof.
    intros h C D E.
    rewrite (vsum_seq_mul O R (fun q => h (q / (D * E)) ((q / E) mod D) (q mod E)) C (D * E)).
    apply (vsum_map_ext O). intros k _.
    rewrite (vsum_seq_mul O R (fun y => h ((D * E * k + y) / (D * E)) (((D * E * k + y) / E) mod D)
                                         ((D * E * k + y) mod E)) D E).
    apply (vsum_map_ext O). intros m Hm. apply in_seq in Hm.
    apply (vsum_map_ext O). intros n Hn. apply in_seq in Hn.
    replace (D * E * k + (E * m + n)) with ((k * D + m) * E + n) by ring.
    destruct (encode3 k m n D E ltac:(lia) ltac:(lia)) as (E1 & E2 & E3).
    cbv zeta in E1, E2, E3. rewrite E1, E2, E3. reflexivity.
  Qed.

  Theorem conv_spec_triple : forall (image filters : arr F) batch depth rows cols count fr fc sr sc,
      wf image -> wf filters ->
      dims image = batch ++ [depth; rows; cols] -> dims filters = [count; depth; fr; fc] ->
      1 <= sr -> 1 <= sc -> fr <= rows -> fc <= cols ->
      let rc := out_count rows fr sr in
      let cc := out_count cols fc sc in
      exists r,
        conv O image filters sr sc = Some r /\ wf r /\ dims r = batch ++ [count; rc; cc] /\
        forall B f y x,
          in_range B batch -> f < count -> y < rc -> x < cc ->
          (forall k m n, k < depth -> m < fr -> n < fc ->
                         in_range (B ++ [k; y * sr + m; x * sc + n]) (dims image) /\
                         in_range [f; k; m; n] (dims filters)) /\
          get r (B ++ [f; y; x])
          = Some (vsum O (map (fun k =>
                    vsum O (map (fun m =>
                      vsum O (map (fun n =>
                                     fmul O (getd O image (B ++ [k; y * sr + m; x * sc + n]))
                                            (getd O filters [f; k; m; n]))
                                  (seq 0 fc)))
                      (seq 0 fr)))
                    (seq 0 depth))).
  Proof.
    intros image filters batch depth rows cols count fr fc sr sc Hwi Hwf Ed Ef Hsr Hsc Hfr' Hfc' rc cc.
    destruct (conv_spec O image filters batch depth rows cols count fr fc sr sc
                        Hwi Hwf Ed Ef Hsr Hsc Hfr' Hfc') as (r & Hr & Hwr & Hdr & Hv).
    exists r. split; [exact Hr|]. split; [exact Hwr|]. split; [exact Hdr|].
    intros B f y x HB Hf Hy Hx. destruct (Hv B f y x HB Hf Hy Hx) as [Hrange Hval]. split.
    - intros k m n Hk Hm Hn.
      assert (Hq : (k * fr + m) * fc + n < depth * fr * fc) by (repeat apply mul_add_lt; assumption).
      destruct (Hrange _ Hq) as [H1 H2].
      destruct (encode3 k m n fr fc Hm Hn) as (E1 & E2 & E3). cbv zeta in E1, E2, E3.
      rewrite E1, E2, E3 in H1, H2. split; assumption.
    - rewrite Hval. f_equal. rewrite (cr_add_0_l O R).
      replace (depth * fr * fc) with (depth * (fr * fc)) by ring.
      apply (vsum_triple (fun k m n => fmul O (getd O image (B ++ [k; y * sr + m; x * sc + n]))
                                            (getd O filters [f; k; m; n]))).
  Qed.
End Triple.

(** * Refusals *)

Section Refusals.
  Context {F : Type} (O : ScalarOps F).

  (** both operands need at least three dimensions *)
  Theorem conv_refuses_rank : forall (image filters : arr F) sr sc,
      length (dims image) < 3 \/ length (dims filters) < 3 -> conv O image filters sr sc = None.
  Proof.
    intros image filters sr sc H. unfold conv. cbv zeta.
    destruct (guard (1 <=? length (dims image))) as [[]|]; cbn [obind]; [|reflexivity].
    assert (E : (3 <=? length (dims image)) && (3 <=? length (dims filters)) = false).
    { apply andb_false_iff. destruct H as [H|H]; [left|right]; apply Nat.leb_gt; exact H. }
    rewrite E. reflexivity.
  Qed.

  (** a filter larger than the image (Rust: subtraction underflow) or a zero stride
      (Rust: division by zero) *)
  Theorem conv_refuses_geometry : forall (image filters : arr F) sr sc batch depth rows cols fl fd fr fc,
      dims image = batch ++ [depth; rows; cols] -> dims filters = fl ++ [fd; fr; fc] ->
      rows < fr \/ cols < fc \/ sr = 0 \/ sc = 0 ->
      conv O image filters sr sc = None.
  Proof.
    intros image filters sr sc batch depth rows cols fl fd fr fc Ed Ef H. unfold conv. cbv zeta.
    destruct (guard (1 <=? length (dims image))) as [[]|]; cbn [obind]; [|reflexivity].
    destruct (guard ((3 <=? length (dims image)) && (3 <=? length (dims filters)))) as [[]|];
      cbn [obind]; [|reflexivity].
    rewrite Ed, Ef.
    rewrite !dim_back_snoc3_3, !dim_back_snoc3_2, !dim_back_snoc3_1. cbn [obind].
    destruct (stride_count rows fr sr) as [rcount|] eqn:E1; cbn [obind]; [|reflexivity].
    destruct (stride_count cols fc sc) as [ccount|] eqn:E2; cbn [obind]; [|reflexivity].
    exfalso. destruct H as [H|[H|[H|H]]].
    - rewrite stride_count_none in E1 by (left; exact H). discriminate.
    - rewrite stride_count_none in E2 by (left; exact H). discriminate.
    - rewrite stride_count_none in E1 by (right; exact H). discriminate.
    - rewrite stride_count_none in E2 by (right; exact H). discriminate.
  Qed.

  Theorem unroll_blocks_refuses : forall (image : arr F) sr sc fr fc batch depth rows cols,
      dims image = batch ++ [depth; rows; cols] ->
      rows < fr \/ cols < fc \/ sr = 0 \/ sc = 0 ->
      unroll_blocks O image sr sc fr fc = None.
  Proof.
    intros image sr sc fr fc batch depth rows cols Ed H. unfold unroll_blocks. cbv zeta.
    rewrite Ed, dim_back_snoc3_3, dim_back_snoc3_2, dim_back_snoc3_1. cbn [obind].
    destruct (stride_count rows fr sr) as [rcount|] eqn:E1; cbn [obind]; [|reflexivity].
    destruct (stride_count cols fc sc) as [ccount|] eqn:E2; cbn [obind]; [|reflexivity].
    exfalso. destruct H as [H|[H|[H|H]]].
    - rewrite stride_count_none in E1 by (left; exact H). discriminate.
    - rewrite stride_count_none in E2 by (left; exact H). discriminate.
    - rewrite stride_count_none in E1 by (right; exact H). discriminate.
    - rewrite stride_count_none in E2 by (right; exact H). discriminate.
  Qed.
End Refusals.

Print Assumptions unroll_blocks_spec.
Print Assumptions expand_conv_spec.
Print Assumptions conv_spec.
Print Assumptions conv_spec_triple.
Print Assumptions conv_refuses_rank.
Print Assumptions conv_refuses_geometry.
Print Assumptions unroll_blocks_refuses.
