(** C01 at every backward pass of every history, covering also the rank-1 forms of matmul
    (vector x matrix, matrix x vector, dot product of two untransposed vectors). *)

From Coq Require Import List Arith Bool Reals.
From Corgi Require Import Lib.OptionMonad Lib.Sums Model.Scalar Model.RealScalar Model.Arr
     Model.Elementwise Model.Ops Model.Engine Model.Program
     Proofs.ArrFacts Proofs.Propagate Proofs.AdjointSpec Proofs.FlattenSpec Proofs.DualLift
     Proofs.RealDerivs Proofs.HistoryInv Proofs.FwdCode Proofs.CodeSupport2 Proofs.HistoryVC
     Proofs.C01Concrete Proofs.C01Gen Proofs.CodeSupport3 Proofs.HistoryPre3 Proofs.C01Real.
Import ListNotations.

Section C01History3.
  Context {F : Type} (O : ScalarOps F) (R : is_cring O).
  Local Notation D2 := (dual_ops O).
  Local Notation E := (Program.E O).

  Hypothesis Hdiv : forall a b, fdiv O a b = fmul O a (fdiv O (f1 O) b).
  Hypothesis Hinv_mul : forall a b,
      fdiv O (f1 O) (fmul O a b) = fmul O (fdiv O (f1 O) a) (fdiv O (f1 O) b).
  Hypothesis Hpow2 : forall x, fpow O x (two O) = fmul O x x.
  Hypothesis Hsig_fst : forall x x', fst (sigmoid_fn D2 (x, x')) = sigmoid_fn O x.
  Hypothesis Hsig : forall x x',
      snd (sigmoid_fn D2 (x, x'))
      = fmul O (fmul O (sigmoid_fn O x) (fsub O (f1 O) (sigmoid_fn O x))) x'.

  (** store level *)
  Theorem backward_exact_all : forall (g : list (@gnode F)) lt r keep seed s0 ndr g' log,
      store_good g -> value_consistent O g -> pre_ok_all g -> leaf_tangents_ok g lt ->
      grads_empty g -> r < length g -> nth_error g r = Some ndr ->
      seed_of E g r seed = Some s0 ->
      (forall sd, seed = Some sd -> wf sd /\ dims sd = p_dims (n_pay ndr)) ->
      run_backward E g r keep seed = Some (g', log) ->
      dot O (vals s0) (vals (tan O g lt r)) = leaf_pairing O g g' lt r.
  Proof.
    intros g lt r keep seed s0 ndr g' log Hg Hvc Hpre Hlt.
    apply (backward_exact_gen O R code_pre3 g lt Hg Hvc Hpre
                              (all_supported3 O R Hsig_fst Hsig Hdiv Hinv_mul Hpow2)
                              (all_liftable3 O R Hsig_fst Hsig Hdiv Hinv_mul Hpow2)
                              (nobias_strict3 O) Hlt).
  Qed.

  Theorem all_supported_all : forall (p : list (@instr F)) (s : @state F),
      reachable_ok_all O p s ->
      store_good (st_nodes s) /\ value_consistent O (st_nodes s) /\ pre_ok_all (st_nodes s) /\
      (forall code d, code_supported_gen O code_pre3 code d) /\
      (forall code d, code_liftable_gen O code_pre3 code d).
  Proof.
    intros p s H. destruct (run_good_all O p s H) as [[[Hg _] Hvc] Hpre].
    split; [exact Hg |]. split; [exact Hvc |]. split; [exact Hpre |]. split.
    - exact (all_supported3 O R Hsig_fst Hsig Hdiv Hinv_mul Hpow2).
    - exact (all_liftable3 O R Hsig_fst Hsig Hdiv Hinv_mul Hpow2).
  Qed.

  Theorem history_backward_exact_all :
    forall (p : list (@instr F)) (s : @state F) lt r keep seed s0 ndr g' log,
      reachable_ok_all O p s ->
      grads_empty (st_nodes s) -> leaf_tangents_ok (st_nodes s) lt ->
      nth_error (st_nodes s) r = Some ndr ->
      seed_of E (st_nodes s) r seed = Some s0 ->
      (forall sd, seed = Some sd -> wf sd /\ dims sd = p_dims (n_pay ndr)) ->
      run_backward E (st_nodes s) r keep seed = Some (g', log) ->
      dot O (vals s0) (vals (tan O (st_nodes s) lt r)) = leaf_pairing O (st_nodes s) g' lt r.
  Proof.
    intros p s lt r keep seed s0 ndr g' log Hre Hempty Hlt Hndr Hseed Hsd Hrun.
    destruct (all_supported_all p s Hre) as (Hg & Hvc & Hpre & _).
    eapply backward_exact_all; try eassumption.
    eapply nth_lt. exact Hndr.
  Qed.
End C01History3.

Theorem history_backward_exact_all_R :
  forall (p : list (@instr R)) (s : @state R) lt r keep seed s0 ndr g' log,
    reachable_ok_all R_ops p s ->
    grads_empty (st_nodes s) -> leaf_tangents_ok (st_nodes s) lt ->
    nth_error (st_nodes s) r = Some ndr ->
    seed_of (Program.E R_ops) (st_nodes s) r seed = Some s0 ->
    (forall sd, seed = Some sd -> wf sd /\ dims sd = p_dims (n_pay ndr)) ->
    run_backward (Program.E R_ops) (st_nodes s) r keep seed = Some (g', log) ->
    dot R_ops (vals s0) (vals (tan R_ops (st_nodes s) lt r))
    = leaf_pairing R_ops (st_nodes s) g' lt r.
Proof.
  exact (history_backward_exact_all R_ops R_is_cring R_div_mul_inv R_inv_mul R_pow_two
                                    R_sig_fst R_sig_snd).
Qed.

Print Assumptions backward_exact_all.
Print Assumptions history_backward_exact_all.
Print Assumptions history_backward_exact_all_R.
