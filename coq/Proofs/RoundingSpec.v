(** C19, closeness half: forward rounding-error bounds for the model run at a rounded-real
    instance ([rounded_ops emin prec], Model/RoundedScalar.v: radix 2, [FLT_exp emin prec],
    round to nearest even; binary32 = (-149, 24), binary64 = (-1074, 53)) against the SAME
    model run over the reals ([R_ops]).  Flocq (4.1) supplies the one-rounding facts
    ([error_N_FLT], [FLT_plus_error_N_ex]); everything else is proved here.  Flocq and Reals
    are imported only by this file and Model/RoundedScalar.v.

    Notation: [u prec = 2^(-prec)] (unit round-off), [eta emin = 2^(emin-1)] (half the
    smallest subnormal), [theta k = (1+u)^k - 1], [gamma k = k u / (1 - k u)];
    [theta k <= gamma k] whenever [k u < 1] ([theta_le_gamma], Higham, Accuracy and
    Stability, Lemma 3.1).  [rsum = vsum R_ops] is the exact real sum.

    (a) one operation: [fadd_err], [fsub_err] (representable operands: purely relative),
        [fmul_err], [fdiv_err], [funary_err], [rn_err] (relative [u] plus absolute [eta]);
    (b) summation, the model's left fold: [vsum_err] ([theta (n-1)]), [vsum_err_gamma];
    (c) dot product [fadd c (vsum (map (fun k => fmul (A k) (B k)) (seq 0 n)))], the element
        formula of [matmul_spec] and [conv_spec]: [dot_err_list], [dot_err], [dot_err_gamma];
        array level: [matmul_rounding] (all flag pairs, all admissible additive terms);
    (d) [a_sum_rounding], [conv_rounding], [ew_rounding] (add / mul / div, one rounding each);
    (e) two formats on the same data: [matmul_two_formats], [conv_two_formats],
        [a_sum_two_formats]; binary32 against binary64 in gamma form: [matmul_f32_f64].
    The factors of a product need not be representable for (c): the product is rounded
    whatever they are; only the additive term (and, for sums, the summands) must be.
    NOT MODELLED: overflow (the exponent range of [FLT_exp] is unbounded above: results are
    assumed to stay below [2^128] resp. [2^1024]), NaN/infinities, signed zeros, and a libm
    that is merely faithful (the instance's [exp]/[ln]/[powf] are correctly rounded).
    No axiom is declared here. *)

From Coq Require Import List Arith Bool Lia PeanoNat ZArith Reals Lra Psatz.
From Flocq Require Import Core Relative Plus_error.
From Corgi Require Import Lib.OptionMonad Lib.IdxDefs Lib.Idx Model.Scalar Model.RealScalar
     Model.RoundedScalar Model.Arr Model.SlicedOp Model.Elementwise Lib.Sums Proofs.ArrFacts
     Proofs.BroadcastDims Proofs.SpecDefs Proofs.SlicedOpSpec Proofs.EwSpec Proofs.ReduceSpec
     Model.Linalg Model.Image Proofs.MatmulSpec Proofs.ConvSpec Proofs.RealDerivs.
Import ListNotations.

Local Open Scope R_scope.

(** exact real sums: [vsum R_ops] *)
Notation rsum := (vsum R_ops).

Lemma rsum_nil : rsum [] = 0.
Proof. reflexivity. Qed.

Lemma rsum_cons : forall x l, rsum (x :: l) = x + rsum l.
Proof. intros. exact (vsum_cons R_ops R_is_cring x l). Qed.

Lemma rsum_abs_nonneg : forall l, 0 <= rsum (map Rabs l).
Proof.
  induction l as [|x l IH]; cbn [map]; [rewrite rsum_nil; lra|].
  rewrite rsum_cons. pose proof (Rabs_pos x). lra.
Qed.

Lemma rsum_abs_le : forall l, Rabs (rsum l) <= rsum (map Rabs l).
Proof.
  induction l as [|x l IH]; cbn [map]; [rewrite rsum_nil, Rabs_R0; lra|].
  rewrite !rsum_cons. pose proof (Rabs_triang x (rsum l)). lra.
Qed.

Section Format.
  Variables emin prec : Z.
  Context {Hprec : Prec_gt_0 prec}.

  Notation fmt := (generic_format radix2 (FLT_exp emin prec)).
  Notation rn := (rnd emin prec).
  Notation O := (rounded_ops emin prec).

  (** unit round-off and underflow unit *)
  Definition u : R := bpow radix2 (- prec).
  Definition eta : R := bpow radix2 (emin - 1).

  Lemma u_u_ro : u = u_ro radix2 prec.
  Proof.
    unfold u, u_ro. replace (- prec + 1)%Z with (1 + - prec)%Z by lia.
    rewrite bpow_plus. change (bpow radix2 1) with 2. field.
  Qed.

  Lemma eta_half : eta = / 2 * bpow radix2 emin.
  Proof.
    unfold eta. replace (emin - 1)%Z with (- (1) + emin)%Z by lia.
    rewrite bpow_plus. change (bpow radix2 (- (1))) with (/ 2). reflexivity.
  Qed.

  Lemma u_pos : 0 < u.
  Proof. apply bpow_gt_0. Qed.

  Lemma eta_pos : 0 < eta.
  Proof. apply bpow_gt_0. Qed.

  Lemma rn_fmt : forall x, fmt (rn x).
  Proof. intros x. apply generic_format_round; auto with typeclass_instances. Qed.

  Lemma rn_id : forall x, fmt x -> rn x = x.
  Proof. intros x Hx. apply round_generic; auto with typeclass_instances. Qed.

  Lemma fmt_0 : fmt 0.
  Proof. apply generic_format_0. Qed.

  Lemma fmt_opp : forall x, fmt x -> fmt (- x).
  Proof. intros. apply generic_format_opp. assumption. Qed.

  (** * (a) one operation *)

  (** any real: relative error [u] plus absolute error [eta] *)
  Theorem rn_err : forall x, Rabs (rn x - x) <= u * Rabs x + eta.
  Proof.
    intros x.
    destruct (error_N_FLT radix2 emin prec Hprec (fun t => negb (Z.even t)) x)
      as (eps & e & Heps & He & _ & Hr).
    change (/ 2 * bpow radix2 (- prec + 1)) with (u_ro radix2 prec) in Heps.
    rewrite <- u_u_ro in Heps. rewrite <- eta_half in He.
    assert (Hr' : rn x = x * (1 + eps) + e) by exact Hr. rewrite Hr'.
    replace (x * (1 + eps) + e - x) with (x * eps + e) by ring.
    pose proof (Rabs_triang (x * eps) e) as T. rewrite Rabs_mult in T.
    pose proof (Rabs_pos x). nra.
  Qed.

  Theorem rn_abs_le : forall x, Rabs (rn x) <= (1 + u) * Rabs x + eta.
  Proof.
    intros x. pose proof (rn_err x) as E.
    replace (rn x) with ((rn x - x) + x) by ring.
    pose proof (Rabs_triang (rn x - x) x). lra.
  Qed.

  (** sum of two representable numbers: purely relative (no underflow term) *)
  Theorem rn_plus_err : forall x y, fmt x -> fmt y -> Rabs (rn (x + y) - (x + y)) <= u * Rabs (x + y).
  Proof.
    intros x y Fx Fy.
    destruct (FLT_plus_error_N_ex radix2 emin prec (fun t => negb (Z.even t)) x y Fx Fy)
      as (eps & Heps & Hr).
    pose proof (u_rod1pu_ro_le_u_ro radix2 prec) as Hu. rewrite <- u_u_ro in Heps, Hu.
    assert (Hr' : rn (x + y) = (x + y) * (1 + eps)) by exact Hr. rewrite Hr'.
    replace ((x + y) * (1 + eps) - (x + y)) with ((x + y) * eps) by ring.
    rewrite Rabs_mult. pose proof (Rabs_pos (x + y)). nra.
  Qed.

  Theorem fadd_err : forall x y, fmt x -> fmt y ->
      fmt (fadd O x y) /\ Rabs (fadd O x y - (x + y)) <= u * Rabs (x + y).
  Proof. intros x y Fx Fy. split; [apply rn_fmt|apply rn_plus_err; assumption]. Qed.

  Theorem fsub_err : forall x y, fmt x -> fmt y ->
      fmt (fsub O x y) /\ Rabs (fsub O x y - (x - y)) <= u * Rabs (x - y).
  Proof.
    intros x y Fx Fy. split; [apply rn_fmt|]. cbn [fsub rounded_ops]. unfold Rminus at 1 3 4.
    apply rn_plus_err; [exact Fx|apply fmt_opp; exact Fy].
  Qed.

  Theorem fmul_err : forall x y,
      fmt (fmul O x y) /\ Rabs (fmul O x y - x * y) <= u * Rabs (x * y) + eta.
  Proof. intros x y. split; [apply rn_fmt|apply rn_err]. Qed.

  Theorem fdiv_err : forall x y,
      fmt (fdiv O x y) /\ Rabs (fdiv O x y - x / y) <= u * Rabs (x / y) + eta.
  Proof. intros x y. split; [apply rn_fmt|apply rn_err]. Qed.

  Theorem fneg_exact : forall x, fneg O x = - x /\ (fmt x -> fmt (fneg O x)).
  Proof. intros x. split; [reflexivity|apply fmt_opp]. Qed.

  (** the idealised libm functions and [n as Float]: one rounding of the real value *)
  Theorem funary_err : forall x,
      Rabs (fexp O x - exp x) <= u * Rabs (exp x) + eta /\
      Rabs (fln O x - ln x) <= u * Rabs (ln x) + eta /\
      (forall e, Rabs (fpow O x e - fpow R_ops x e) <= u * Rabs (fpow R_ops x e) + eta).
  Proof. intros x. repeat split; intros; apply rn_err. Qed.

  (** * (b) summation: the left fold of rounded additions *)

  Definition theta (k : nat) : R := (1 + u) ^ k - 1.
  Definition gamma (k : nat) : R := INR k * u / (1 - INR k * u).

  Lemma pow1u_ge_1 : forall k, 1 <= (1 + u) ^ k.
  Proof. intros k. apply pow_R1_Rle. pose proof u_pos. lra. Qed.

  Lemma theta_nonneg : forall k, 0 <= theta k.
  Proof. intros k. unfold theta. pose proof (pow1u_ge_1 k). lra. Qed.

  Lemma theta_S : forall k, theta (S k) = (1 + u) * theta k + u.
  Proof. intros k. unfold theta. cbn [pow]. ring. Qed.

  Lemma theta_mono : forall j k, (j <= k)%nat -> theta j <= theta k.
  Proof.
    intros j k H. unfold theta. apply Rplus_le_compat_r. apply Rle_pow; [|exact H].
    pose proof u_pos. lra.
  Qed.

  (** Higham, Lemma 3.1: [(1+u)^k - 1 <= k u / (1 - k u)] *)
  Lemma pow1u_bound : forall k, INR k * u < 1 -> (1 + u) ^ k * (1 - INR k * u) <= 1.
  Proof.
    induction k as [|k IH]; intros Hk.
    - cbn. lra.
    - rewrite S_INR in *. pose proof u_pos as Hu. pose proof (pos_INR k) as Hk0.
      assert (Hk' : INR k * u < 1) by nra. specialize (IH Hk').
      pose proof (pow1u_ge_1 k) as Hp. cbn [pow].
      replace ((1 + u) * (1 + u) ^ k * (1 - (INR k + 1) * u))
        with ((1 + u) ^ k * (1 - INR k * u) - (1 + u) ^ k * ((INR k + 1) * (u * u))) by ring.
      assert (0 <= (1 + u) ^ k * ((INR k + 1) * (u * u))).
      { apply Rmult_le_pos; [lra|]. apply Rmult_le_pos; [lra|]. apply Rmult_le_pos; lra. }
      lra.
  Qed.

  Theorem theta_le_gamma : forall k, INR k * u < 1 -> theta k <= gamma k.
  Proof.
    intros k Hk. pose proof (pow1u_bound k Hk) as H. unfold theta, gamma.
    assert (Hd : 0 < 1 - INR k * u) by lra.
    apply (Rmult_le_reg_r (1 - INR k * u)); [exact Hd|].
    replace (INR k * u / (1 - INR k * u) * (1 - INR k * u)) with (INR k * u) by (field; lra).
    lra.
  Qed.

  Lemma gamma_nonneg : forall k, INR k * u < 1 -> 0 <= gamma k.
  Proof. intros k Hk. pose proof (theta_le_gamma k Hk). pose proof (theta_nonneg k). lra. Qed.

  (** the fold from a representable accumulator *)
  Lemma fold_err : forall l acc,
      fmt acc -> Forall (fun x => fmt x) l ->
      fmt (fold_left (fadd O) l acc) /\
      Rabs (fold_left (fadd O) l acc - (acc + rsum l))
      <= theta (length l) * (Rabs acc + rsum (map Rabs l)).
  Proof.
    induction l as [|x l IH]; intros acc Fa Fl.
    - cbn [fold_left length map]. split; [exact Fa|]. rewrite rsum_nil.
      replace (acc - (acc + 0)) with 0 by ring. rewrite Rabs_R0.
      unfold theta. cbn. pose proof (Rabs_pos acc). lra.
    - inversion Fl as [|? ? Fx Fl']; subst.
      cbn [fold_left length map]. rewrite !rsum_cons.
      set (a1 := fadd O acc x).
      destruct (fadd_err acc x Fa Fx) as [F1 E1]. fold a1 in F1, E1.
      destruct (IH a1 F1 Fl') as [FF EF]. split; [exact FF|].
      set (Fv := fold_left (fadd O) l a1) in *.
      set (S := rsum (map Rabs l)) in *. set (m := length l) in *.
      pose proof (rsum_abs_nonneg l) as HS. fold S in HS.
      pose proof (theta_nonneg m) as Ht. pose proof u_pos as Hu.
      pose proof (Rabs_triang acc x) as Tax.
      assert (Ha1 : Rabs a1 <= (1 + u) * (Rabs acc + Rabs x)).
      { replace a1 with ((a1 - (acc + x)) + (acc + x)) by ring.
        pose proof (Rabs_triang (a1 - (acc + x)) (acc + x)). nra. }
      replace (Fv - (acc + (x + rsum l))) with ((Fv - (a1 + rsum l)) + (a1 - (acc + x))) by ring.
      pose proof (Rabs_triang (Fv - (a1 + rsum l)) (a1 - (acc + x))) as T.
      rewrite theta_S.
      assert (H1 : theta m * (Rabs a1 + S) <= theta m * ((1 + u) * (Rabs acc + Rabs x) + S)).
      { apply Rmult_le_compat_l; lra. }
      assert (H2 : 0 <= u * theta m * S).
      { apply Rmult_le_pos; [apply Rmult_le_pos; lra|lra]. }
      assert (H3 : 0 <= u * S) by (apply Rmult_le_pos; lra).
      pose proof (Rabs_pos acc). pose proof (Rabs_pos x).
      nra.
  Qed.

  (** [vsum]: [n - 1] rounding errors (the first addition, to [0], is exact) *)
  Theorem vsum_err : forall l,
      Forall (fun x => fmt x) l ->
      fmt (vsum O l) /\
      Rabs (vsum O l - rsum l) <= theta (length l - 1) * rsum (map Rabs l).
  Proof.
    intros [|x l] Fl.
    - unfold vsum. cbn. split; [apply fmt_0|]. rewrite Rminus_0_r, Rabs_R0, Rmult_0_r. lra.
    - inversion Fl as [|? ? Fx Fl']; subst.
      unfold vsum at 1 2. cbn [fold_left f0 rounded_ops].
      assert (E : fadd O 0 x = x).
      { cbn [fadd rounded_ops]. rewrite Rplus_0_l. apply rn_id. exact Fx. }
      rewrite E. cbn [length map]. replace (S (length l) - 1)%nat with (length l) by lia.
      rewrite !rsum_cons. apply fold_err; assumption.
  Qed.

  Corollary vsum_err_gamma : forall l,
      Forall (fun x => fmt x) l -> INR (length l - 1) * u < 1 ->
      Rabs (vsum O l - rsum l) <= gamma (length l - 1) * rsum (map Rabs l).
  Proof.
    intros l Fl Hk. destruct (vsum_err l Fl) as [_ E].
    pose proof (theta_le_gamma _ Hk). pose proof (rsum_abs_nonneg l). nra.
  Qed.

  (** * (c) dot product: rounded products, rounded left-fold sum, rounded addition of [c] *)

  Lemma rounded_terms : forall t : list R,
      Forall (fun x => fmt x) (map rn t) /\
      Rabs (rsum (map rn t) - rsum t) <= u * rsum (map Rabs t) + INR (length t) * eta /\
      rsum (map Rabs (map rn t)) <= (1 + u) * rsum (map Rabs t) + INR (length t) * eta.
  Proof.
    induction t as [|x t (IF & IE & IA)].
    - cbn [map length INR]. rewrite !rsum_nil. split; [constructor|].
      rewrite Rminus_0_r, Rabs_R0. lra.
    - cbn [map length]. rewrite S_INR, !rsum_cons.
      split; [constructor; [apply rn_fmt|exact IF]|].
      pose proof (rn_err x) as Ex. pose proof (rn_abs_le x) as Ax. split.
      + replace (rn x + rsum (map rn t) - (x + rsum t))
          with ((rn x - x) + (rsum (map rn t) - rsum t)) by ring.
        pose proof (Rabs_triang (rn x - x) (rsum (map rn t) - rsum t)). lra.
      + lra.
  Qed.

  Lemma theta_1 : theta 1 = u.
  Proof. unfold theta. cbn. ring. Qed.

  (** [t] is the list of exact terms [a_k * b_k]; only [c] has to be representable (the
      products are rounded, whatever the factors) *)
  Theorem dot_err_list : forall (c : R) (t : list R),
      fmt c ->
      fmt (fadd O c (vsum O (map rn t))) /\
      Rabs (fadd O c (vsum O (map rn t)) - (c + rsum t))
      <= theta (S (length t)) * (Rabs c + rsum (map Rabs t))
         + INR (length t) * eta * (1 + u) ^ length t.
  Proof.
    intros c t Fc. split; [apply rn_fmt|].
    pose proof u_pos as Hu. pose proof eta_pos as He. pose proof (Rabs_pos c) as Hc0.
    destruct t as [|x0 t0].
    - cbn [map length INR pow]. unfold vsum at 1. cbn [fold_left f0 fadd rounded_ops].
      rewrite rsum_nil, Rplus_0_r, (rn_id c Fc).
      replace (c - c) with 0 by ring. rewrite Rabs_R0.
      pose proof (theta_nonneg 1). nra.
    - set (t := x0 :: t0). set (m := length t0).
      assert (Hn : length t = S m) by reflexivity. rewrite Hn.
      destruct (rounded_terms t) as (PF & PE & PA). rewrite Hn in PE, PA.
      destruct (vsum_err (map rn t) PF) as [FS ES].
      rewrite map_length, Hn in ES. replace (S m - 1)%nat with m in ES by lia.
      set (Sf := vsum O (map rn t)) in *.
      set (T := rsum (map Rabs t)) in *. set (AP := rsum (map Rabs (map rn t))) in *.
      set (E := INR (S m) * eta) in *.
      assert (HT : 0 <= T) by apply rsum_abs_nonneg.
      assert (HE : 0 <= E) by (apply Rmult_le_pos; [apply pos_INR|lra]).
      pose proof (theta_nonneg m) as Htm. pose proof (theta_nonneg (S m)) as Htn.
      pose proof (pow1u_ge_1 m) as Hpm.
      (* the computed sum against the exact sum *)
      assert (HX : Rabs (Sf - rsum t) <= theta (S m) * T + (1 + u) ^ m * E).
      { replace (Sf - rsum t) with ((Sf - rsum (map rn t)) + (rsum (map rn t) - rsum t)) by ring.
        pose proof (Rabs_triang (Sf - rsum (map rn t)) (rsum (map rn t) - rsum t)) as Tr.
        assert (H1 : theta m * AP <= theta m * ((1 + u) * T + E))
          by (apply Rmult_le_compat_l; lra).
        assert (H2 : theta m * ((1 + u) * T + E) + u * T + E = theta (S m) * T + (1 + u) ^ m * E)
          by (unfold theta; cbn [pow]; ring).
        lra. }
      set (X := Rabs (Sf - rsum t)) in *.
      assert (HSf : Rabs Sf <= T + X).
      { replace Sf with (rsum t + (Sf - rsum t)) at 1 by ring.
        pose proof (Rabs_triang (rsum t) (Sf - rsum t)). pose proof (rsum_abs_le t).
        fold T in H0. fold X in H. lra. }
      (* the final addition *)
      destruct (fadd_err c Sf Fc FS) as [_ ER].
      pose proof (Rabs_triang c Sf) as Tc.
      replace (fadd O c Sf - (c + rsum t)) with ((fadd O c Sf - (c + Sf)) + (Sf - rsum t)) by ring.
      pose proof (Rabs_triang (fadd O c Sf - (c + Sf)) (Sf - rsum t)) as Tr. fold X in Tr.
      assert (H3 : (1 + u) * X <= (1 + u) * (theta (S m) * T + (1 + u) ^ m * E))
        by (apply Rmult_le_compat_l; lra).
      assert (H4 : u * T + (1 + u) * (theta (S m) * T + (1 + u) ^ m * E)
                   = theta (S (S m)) * T + E * (1 + u) ^ S m)
        by (unfold theta; cbn [pow]; ring).
      assert (H5 : u <= theta (S (S m))).
      { rewrite <- theta_1. apply theta_mono. lia. }
      assert (H6 : u * Rabs c <= theta (S (S m)) * Rabs c) by (apply Rmult_le_compat_r; lra).
      assert (H7 : u * Rabs (c + Sf) <= u * (Rabs c + T + X)) by (apply Rmult_le_compat_l; lra).
      rewrite Rmult_plus_distr_l. lra.
  Qed.

  (** the form over an index range, as produced by [matmul_spec] and [conv_spec] *)
  Corollary dot_err : forall (c : R) (A B : nat -> R) (n : nat),
      fmt c ->
      let terms := map (fun k => A k * B k) (seq 0 n) in
      Rabs (fadd O c (vsum O (map (fun k => fmul O (A k) (B k)) (seq 0 n))) - (c + rsum terms))
      <= theta (S n) * (Rabs c + rsum (map Rabs terms)) + INR n * eta * (1 + u) ^ n.
  Proof.
    intros c A B n Fc terms.
    assert (El : length terms = n) by (unfold terms; rewrite map_length, seq_length; reflexivity).
    destruct (dot_err_list c terms Fc) as [_ H]. rewrite El in H.
    unfold terms in H at 1. rewrite map_map in H. exact H.
  Qed.

  Corollary dot_err_gamma : forall (c : R) (A B : nat -> R) (n : nat),
      fmt c -> INR (S n) * u < 1 ->
      let terms := map (fun k => A k * B k) (seq 0 n) in
      Rabs (fadd O c (vsum O (map (fun k => fmul O (A k) (B k)) (seq 0 n))) - (c + rsum terms))
      <= gamma (S n) * (Rabs c + rsum (map Rabs terms)) + INR n * eta * (1 + gamma n).
  Proof.
    intros c A B n Fc Hk terms. pose proof (dot_err c A B n Fc) as H. cbv zeta in H. fold terms in H.
    pose proof (theta_le_gamma (S n) Hk) as G1.
    assert (Hk' : INR n * u < 1).
    { rewrite S_INR in Hk. pose proof u_pos. nra. }
    pose proof (theta_le_gamma n Hk') as G2. unfold theta in G2.
    pose proof (rsum_abs_nonneg terms) as HT. pose proof (Rabs_pos c) as Hc.
    assert (H1 : theta (S n) * (Rabs c + rsum (map Rabs terms))
                 <= gamma (S n) * (Rabs c + rsum (map Rabs terms)))
      by (apply Rmult_le_compat_r; lra).
    assert (H2 : INR n * eta * (1 + u) ^ n <= INR n * eta * (1 + gamma n)).
    { apply Rmult_le_compat_l; [|lra]. apply Rmult_le_pos; [apply pos_INR|]. pose proof eta_pos. lra. }
    lra.
  Qed.
End Format.

(** * Array level: the model run at a rounded instance against the same run over the reals *)

Section Arrays.
  Variables emin prec : Z.
  Context {Hprec : Prec_gt_0 prec}.

  Notation fmt := (generic_format radix2 (FLT_exp emin prec)).
  Notation O := (rounded_ops emin prec).
  Notation uu := (u prec).
  Notation ee := (eta emin).

  (** every stored value is representable *)
  Definition fmt_arr (a : arr R) : Prop := Forall (fun x => fmt x) (vals a).

  Lemma nth_fmt : forall (l : list R) i, Forall (fun x => fmt x) l -> fmt (nth i l 0).
  Proof.
    intros l i H. destruct (Nat.lt_ge_cases i (length l)) as [Hi|Hi].
    - exact (proj1 (Forall_forall _ _) H _ (nth_In l 0 Hi)).
    - rewrite nth_overflow by exact Hi. apply generic_format_0.
  Qed.

  Lemma get_fmt : forall (a : arr R) I x, fmt_arr a -> get a I = Some x -> fmt x.
  Proof.
    intros a I x H E. unfold get in E. apply nth_error_In in E.
    exact (proj1 (Forall_forall _ _) H _ E).
  Qed.

  (** the bound of (c) *)
  Definition dot_bound (n : nat) (c T : R) : R :=
    theta prec (S n) * (Rabs c + T) + INR n * ee * (1 + uu) ^ n.
  Definition dot_bound_gamma (n : nat) (c T : R) : R :=
    gamma prec (S n) * (Rabs c + T) + INR n * ee * (1 + gamma prec n).

  Lemma dot_bound_le_gamma : forall n c T,
      0 <= T -> INR (S n) * uu < 1 -> dot_bound n c T <= dot_bound_gamma n c T.
  Proof.
    intros n c T HT Hk. unfold dot_bound, dot_bound_gamma.
    pose proof (theta_le_gamma prec (S n) Hk) as G1.
    assert (Hk' : INR n * uu < 1).
    { rewrite S_INR in Hk. pose proof (u_pos prec). nra. }
    pose proof (theta_le_gamma prec n Hk') as G2. unfold theta in G2.
    pose proof (Rabs_pos c) as Hc.
    assert (H1 : theta prec (S n) * (Rabs c + T) <= gamma prec (S n) * (Rabs c + T))
      by (apply Rmult_le_compat_r; lra).
    assert (H2 : INR n * ee * (1 + uu) ^ n <= INR n * ee * (1 + gamma prec n)).
    { apply Rmult_le_compat_l; [|lra]. apply Rmult_le_pos; [apply pos_INR|].
      pose proof (eta_pos emin). lra. }
    lra.
  Qed.

  (** ** [matmul] (every flag pair, every admissible additive term) *)

  Definition mm_terms (a : arr R) ta (b : arr R) tb la lb J i j n : list R :=
    map (fun k => getd R_ops a (a_idx ta la J i k) * getd R_ops b (b_idx tb lb J k j)) (seq 0 n).

  Theorem matmul_rounding : forall (a : arr R) ta (b : arr R) tb c la ar ac lb br bc,
      wf a -> wf b -> dims a = la ++ [ar; ac] -> dims b = lb ++ [br; bc] ->
      mm_inner_a ta ar ac = mm_inner_b tb br bc -> bcompat la lb ->
      bias_admissible c (mm_rows ta ar ac) (mm_cols tb br bc) ->
      (forall c', c = Some c' -> fmt_arr c') ->
      let rows := mm_rows ta ar ac in
      let cols := mm_cols tb br bc in
      let n := mm_inner_a ta ar ac in
      exists rf rr,
        a_matmul O a ta b tb c = Some rf /\ a_matmul R_ops a ta b tb c = Some rr /\
        dims rf = dims rr /\
        forall J i j, in_range J (bmax la lb) -> (i < rows)%nat -> (j < cols)%nat ->
          exists vf vr,
            get rf (J ++ [i; j]) = Some vf /\ get rr (J ++ [i; j]) = Some vr /\
            let ct := bias_flat R_ops c cols i j in
            let terms := mm_terms a ta b tb la lb J i j n in
            vr = ct + rsum terms /\
            Rabs (vf - vr) <= dot_bound n ct (rsum (map Rabs terms)).
  Proof.
    intros a ta b tb c la ar ac lb br bc Hwa Hwb Ea Eb Hin Hc Hb Fc rows cols n.
    destruct (matmul_core O a ta b tb c la ar ac lb br bc Hwa Hwb Ea Eb Hin Hc Hb)
      as (rf & Hrf & _ & Hdf & Hvf).
    destruct (matmul_core R_ops a ta b tb c la ar ac lb br bc Hwa Hwb Ea Eb Hin Hc Hb)
      as (rr & Hrr & _ & Hdr & Hvr).
    exists rf, rr. split; [exact Hrf|]. split; [exact Hrr|]. split; [congruence|].
    intros J i j HJ Hi Hj.
    destruct (Hvf J i j HJ Hi Hj) as [_ Gf]. destruct (Hvr J i j HJ Hi Hj) as [_ Gr].
    eexists. eexists. split; [exact Gf|]. split; [exact Gr|]. cbv zeta.
    split; [reflexivity|].
    assert (Fct : fmt (bias_flat R_ops c cols i j)).
    { unfold bias_flat. destruct c as [c'|]; [|apply generic_format_0].
      apply nth_fmt. apply (Fc c'). reflexivity. }
    exact (dot_err emin prec (bias_flat R_ops c cols i j)
                   (fun k => getd R_ops a (a_idx ta la J i k))
                   (fun k => getd R_ops b (b_idx tb lb J k j)) n Fct).
  Qed.

  (** ** [sum(k)]: each block is a left-fold sum *)

  Theorem a_sum_rounding : forall k (a : arr R),
      wf a -> (1 <= k <= length (dims a))%nat -> fmt_arr a ->
      let lead := firstn (length (dims a) - k) (dims a) in
      let g := prod (lastn k (dims a)) in
      exists cf cr,
        a_sum O k a = Some cf /\ a_sum R_ops k a = Some cr /\ dims cf = dims cr /\
        forall J, in_range J lead ->
          let blk := block g (rowmajor lead J) (vals a) in
          exists vf,
            get cf (J ++ [0%nat]) = Some vf /\ get cr (J ++ [0%nat]) = Some (rsum blk) /\
            length blk = g /\
            Rabs (vf - rsum blk) <= theta prec (g - 1) * rsum (map Rabs blk).
  Proof.
    intros k a Hwa Hk Fa lead g.
    destruct (a_sum_spec O k a Hwa Hk) as (cf & Hcf & _ & Hdf & Hvf).
    destruct (a_sum_spec R_ops k a Hwa Hk) as (cr & Hcr & _ & Hdr & Hvr).
    cbv zeta in Hvf, Hvr, Hdf, Hdr. fold lead in Hvf, Hvr, Hdf, Hdr. fold g in Hvf, Hvr.
    exists cf, cr. split; [exact Hcf|]. split; [exact Hcr|]. split; [congruence|].
    intros J HJ blk. exists (vsum O blk).
    split; [apply Hvf; exact HJ|]. split; [apply Hvr; exact HJ|].
    assert (Hlen : length blk = g).
    { apply (block_length _ _ (prod lead)); [|apply rowmajor_lt_prod; exact HJ].
      destruct Hwa as [_ Hl]. rewrite <- Hl.
      rewrite <- (firstn_lastn k (dims a)) at 1. rewrite prod_app. reflexivity. }
    split; [exact Hlen|].
    assert (Fb : Forall (fun x => fmt x) blk).
    { unfold blk, block. apply Forall_firstn, Forall_skipn. exact Fa. }
    destruct (vsum_err emin prec blk Fb) as [_ E]. rewrite Hlen in E. exact E.
  Qed.

  (** ** [conv]: every output element is a dot product of [depth * fr * fc] terms *)

  Definition conv_img_idx (B : list nat) (y x sr sc fr fc q : nat) : list nat :=
    B ++ [(q / (fr * fc))%nat; (y * sr + (q / fc) mod fr)%nat; (x * sc + q mod fc)%nat].
  Definition conv_flt_idx (f fr fc q : nat) : list nat :=
    [f; (q / (fr * fc))%nat; ((q / fc) mod fr)%nat; (q mod fc)%nat].
  Definition conv_terms (image filters : arr R) B f y x sr sc fr fc n : list R :=
    map (fun q => getd R_ops image (conv_img_idx B y x sr sc fr fc q)
                  * getd R_ops filters (conv_flt_idx f fr fc q))
        (seq 0 n).

  Theorem conv_rounding : forall (image filters : arr R) batch depth rows cols count fr fc sr sc,
      wf image -> wf filters ->
      dims image = batch ++ [depth; rows; cols] -> dims filters = [count; depth; fr; fc] ->
      (1 <= sr)%nat -> (1 <= sc)%nat -> (fr <= rows)%nat -> (fc <= cols)%nat ->
      let rc := out_count rows fr sr in
      let cc := out_count cols fc sc in
      let n := (depth * fr * fc)%nat in
      exists rf rr,
        conv O image filters sr sc = Some rf /\ conv R_ops image filters sr sc = Some rr /\
        dims rf = dims rr /\
        forall B f y x, in_range B batch -> (f < count)%nat -> (y < rc)%nat -> (x < cc)%nat ->
          exists vf vr,
            get rf (B ++ [f; y; x]) = Some vf /\ get rr (B ++ [f; y; x]) = Some vr /\
            let terms := conv_terms image filters B f y x sr sc fr fc n in
            vr = 0 + rsum terms /\
            Rabs (vf - vr) <= dot_bound n 0 (rsum (map Rabs terms)).
  Proof.
    intros image filters batch depth rows cols count fr fc sr sc Hwi Hwf Ei Ef Hsr Hsc Hfr Hfc rc cc n.
    destruct (conv_spec O image filters batch depth rows cols count fr fc sr sc
                        Hwi Hwf Ei Ef Hsr Hsc Hfr Hfc) as (rf & Hrf & _ & Hdf & Hvf).
    destruct (conv_spec R_ops image filters batch depth rows cols count fr fc sr sc
                        Hwi Hwf Ei Ef Hsr Hsc Hfr Hfc) as (rr & Hrr & _ & Hdr & Hvr).
    exists rf, rr. split; [exact Hrf|]. split; [exact Hrr|]. split; [congruence|].
    intros B f y x HB Hf Hy Hx.
    destruct (Hvf B f y x HB Hf Hy Hx) as [_ Gf]. destruct (Hvr B f y x HB Hf Hy Hx) as [_ Gr].
    eexists. eexists. split; [exact Gf|]. split; [exact Gr|]. cbv zeta.
    split; [reflexivity|].
    exact (dot_err emin prec 0
             (fun q => getd R_ops image (conv_img_idx B y x sr sc fr fc q))
             (fun q => getd R_ops filters (conv_flt_idx f fr fc q))
             n (generic_format_0 _ _)).
  Qed.

  (** ** element-wise operations: one rounding per element *)

  Theorem ew_rounding : forall (a b : arr R),
      wf a -> wf b -> dims a <> [] -> dims b <> [] -> bcompat (dims a) (dims b) ->
      exists sf sr mf mr df dr,
        a_add O a b = Some sf /\ a_add R_ops a b = Some sr /\ dims sf = dims sr /\
        a_mul O a b = Some mf /\ a_mul R_ops a b = Some mr /\ dims mf = dims mr /\
        a_div O a b = Some df /\ a_div R_ops a b = Some dr /\ dims df = dims dr /\
        forall I, in_range I (bmax (dims a) (dims b)) ->
          exists x y,
            get a (bclamp (dims a) I) = Some x /\ get b (bclamp (dims b) I) = Some y /\
            get sr I = Some (x + y) /\ get mr I = Some (x * y) /\ get dr I = Some (x / y) /\
            exists vs vm vd,
              get sf I = Some vs /\ get mf I = Some vm /\ get df I = Some vd /\
              (fmt_arr a -> fmt_arr b -> Rabs (vs - (x + y)) <= uu * Rabs (x + y)) /\
              Rabs (vs - (x + y)) <= uu * Rabs (x + y) + ee /\
              Rabs (vm - x * y) <= uu * Rabs (x * y) + ee /\
              Rabs (vd - x / y) <= uu * Rabs (x / y) + ee.
  Proof.
    intros a b Hwa Hwb Hna Hnb Hc.
    destruct (a_add_spec O a b Hwa Hwb Hna Hnb Hc) as (sf & Hsf & _ & Dsf & Vsf).
    destruct (a_add_spec R_ops a b Hwa Hwb Hna Hnb Hc) as (sr & Hsr & _ & Dsr & Vsr).
    destruct (a_mul_spec O a b Hwa Hwb Hna Hnb Hc) as (mf & Hmf & _ & Dmf & Vmf).
    destruct (a_mul_spec R_ops a b Hwa Hwb Hna Hnb Hc) as (mr & Hmr & _ & Dmr & Vmr).
    destruct (a_div_spec O a b Hwa Hwb Hna Hnb Hc) as (df & Hdf & _ & Ddf & Vdf).
    destruct (a_div_spec R_ops a b Hwa Hwb Hna Hnb Hc) as (dr & Hdr & _ & Ddr & Vdr).
    exists sf, sr, mf, mr, df, dr.
    repeat (split; [first [assumption|congruence]|]).
    intros I HI.
    destruct (Vsr I ltac:(rewrite Dsr; exact HI)) as (x & y & Gx & Gy & Gsr).
    exists x, y. split; [exact Gx|]. split; [exact Gy|]. split; [exact Gsr|].
    destruct (Vmr I ltac:(rewrite Dmr; exact HI)) as (x1 & y1 & Gx1 & Gy1 & Gmr).
    destruct (Vdr I ltac:(rewrite Ddr; exact HI)) as (x2 & y2 & Gx2 & Gy2 & Gdr).
    destruct (Vsf I ltac:(rewrite Dsf; exact HI)) as (x3 & y3 & Gx3 & Gy3 & Gsf).
    destruct (Vmf I ltac:(rewrite Dmf; exact HI)) as (x4 & y4 & Gx4 & Gy4 & Gmf).
    destruct (Vdf I ltac:(rewrite Ddf; exact HI)) as (x5 & y5 & Gx5 & Gy5 & Gdf).
    assert (x1 = x) by congruence. assert (y1 = y) by congruence.
    assert (x2 = x) by congruence. assert (y2 = y) by congruence.
    assert (x3 = x) by congruence. assert (y3 = y) by congruence.
    assert (x4 = x) by congruence. assert (y4 = y) by congruence.
    assert (x5 = x) by congruence. assert (y5 = y) by congruence. subst.
    split; [exact Gmr|]. split; [exact Gdr|].
    eexists. eexists. eexists. split; [exact Gsf|]. split; [exact Gmf|]. split; [exact Gdf|].
    split; [|split; [|split]].
    - intros Fa Fb. apply (fadd_err emin prec); [exact (get_fmt a _ x Fa Gx)|exact (get_fmt b _ y Fb Gy)].
    - apply (rn_err emin prec).
    - apply (fmul_err emin prec).
    - apply (fdiv_err emin prec).
  Qed.
End Arrays.

(** * (e) Two formats on the same data: the narrow build against the wide build *)

Section TwoFormats.
  Variables emin1 prec1 emin2 prec2 : Z.
  Context {Hprec1 : Prec_gt_0 prec1} {Hprec2 : Prec_gt_0 prec2}.
  Hypothesis Hp : (prec1 <= prec2)%Z.
  Hypothesis He : (emin2 <= emin1)%Z.

  Notation fmt1 := (generic_format radix2 (FLT_exp emin1 prec1)).
  Notation fmt2 := (generic_format radix2 (FLT_exp emin2 prec2)).
  Notation O1 := (rounded_ops emin1 prec1).
  Notation O2 := (rounded_ops emin2 prec2).

  (** the wide format contains the narrow one *)
  Lemma fmt_incl : forall x, fmt1 x -> fmt2 x.
  Proof.
    intros x. apply generic_inclusion_mag. intros _. unfold FLT_exp. lia.
  Qed.

  Lemma fmt_arr_incl : forall a, fmt_arr emin1 prec1 a -> fmt_arr emin2 prec2 a.
  Proof.
    intros a H. unfold fmt_arr in *. eapply Forall_impl; [|exact H]. intros x. apply fmt_incl.
  Qed.

  Lemma tri : forall v1 v2 vr b1 b2,
      Rabs (v1 - vr) <= b1 -> Rabs (v2 - vr) <= b2 -> Rabs (v1 - v2) <= b1 + b2.
  Proof.
    intros v1 v2 vr b1 b2 H1 H2. replace (v1 - v2) with ((v1 - vr) + - (v2 - vr)) by ring.
    pose proof (Rabs_triang (v1 - vr) (- (v2 - vr))) as T. rewrite Rabs_Ropp in T. lra.
  Qed.

  Theorem matmul_two_formats : forall (a : arr R) ta (b : arr R) tb c la ar ac lb br bc,
      wf a -> wf b -> dims a = la ++ [ar; ac] -> dims b = lb ++ [br; bc] ->
      mm_inner_a ta ar ac = mm_inner_b tb br bc -> bcompat la lb ->
      bias_admissible c (mm_rows ta ar ac) (mm_cols tb br bc) ->
      (forall c', c = Some c' -> fmt_arr emin1 prec1 c') ->
      let rows := mm_rows ta ar ac in
      let cols := mm_cols tb br bc in
      let n := mm_inner_a ta ar ac in
      exists r1 r2,
        a_matmul O1 a ta b tb c = Some r1 /\ a_matmul O2 a ta b tb c = Some r2 /\
        dims r1 = dims r2 /\
        forall J i j, in_range J (bmax la lb) -> (i < rows)%nat -> (j < cols)%nat ->
          exists v1 v2,
            get r1 (J ++ [i; j]) = Some v1 /\ get r2 (J ++ [i; j]) = Some v2 /\
            let ct := bias_flat R_ops c cols i j in
            let T := rsum (map Rabs (mm_terms a ta b tb la lb J i j n)) in
            Rabs (v1 - v2) <= dot_bound emin1 prec1 n ct T + dot_bound emin2 prec2 n ct T.
  Proof.
    intros a ta b tb c la ar ac lb br bc Hwa Hwb Ea Eb Hin Hc Hb Fc rows cols n.
    destruct (matmul_rounding emin1 prec1 a ta b tb c la ar ac lb br bc Hwa Hwb Ea Eb Hin Hc Hb Fc)
      as (r1 & rr & H1 & Hr & D1 & V1).
    destruct (matmul_rounding emin2 prec2 a ta b tb c la ar ac lb br bc Hwa Hwb Ea Eb Hin Hc Hb)
      as (r2 & rr' & H2 & Hr' & D2 & V2).
    { intros c' E. apply fmt_arr_incl. exact (Fc c' E). }
    assert (rr' = rr) by congruence. subst rr'.
    exists r1, r2. split; [exact H1|]. split; [exact H2|]. split; [congruence|].
    intros J i j HJ Hi Hj.
    destruct (V1 J i j HJ Hi Hj) as (v1 & vr & G1 & Gr & _ & B1).
    destruct (V2 J i j HJ Hi Hj) as (v2 & vr' & G2 & Gr' & _ & B2).
    assert (vr' = vr) by congruence. subst vr'.
    exists v1, v2. split; [exact G1|]. split; [exact G2|]. cbv zeta.
    exact (tri v1 v2 vr _ _ B1 B2).
  Qed.

  Theorem conv_two_formats : forall (image filters : arr R) batch depth rows cols count fr fc sr sc,
      wf image -> wf filters ->
      dims image = batch ++ [depth; rows; cols] -> dims filters = [count; depth; fr; fc] ->
      (1 <= sr)%nat -> (1 <= sc)%nat -> (fr <= rows)%nat -> (fc <= cols)%nat ->
      let rc := out_count rows fr sr in
      let cc := out_count cols fc sc in
      let n := (depth * fr * fc)%nat in
      exists r1 r2,
        conv O1 image filters sr sc = Some r1 /\ conv O2 image filters sr sc = Some r2 /\
        dims r1 = dims r2 /\
        forall B f y x, in_range B batch -> (f < count)%nat -> (y < rc)%nat -> (x < cc)%nat ->
          exists v1 v2,
            get r1 (B ++ [f; y; x]) = Some v1 /\ get r2 (B ++ [f; y; x]) = Some v2 /\
            let T := rsum (map Rabs (conv_terms image filters B f y x sr sc fr fc n)) in
            Rabs (v1 - v2) <= dot_bound emin1 prec1 n 0 T + dot_bound emin2 prec2 n 0 T.
  Proof.
    intros image filters batch depth rows cols count fr fc sr sc Hwi Hwf Ei Ef Hsr Hsc Hfr Hfc rc cc n.
    destruct (conv_rounding emin1 prec1 image filters batch depth rows cols count fr fc sr sc
                            Hwi Hwf Ei Ef Hsr Hsc Hfr Hfc) as (r1 & rr & H1 & Hr & D1 & V1).
    destruct (conv_rounding emin2 prec2 image filters batch depth rows cols count fr fc sr sc
                            Hwi Hwf Ei Ef Hsr Hsc Hfr Hfc) as (r2 & rr' & H2 & Hr' & D2 & V2).
    assert (rr' = rr) by congruence. subst rr'.
    exists r1, r2. split; [exact H1|]. split; [exact H2|]. split; [congruence|].
    intros B f y x HB Hf Hy Hx.
    destruct (V1 B f y x HB Hf Hy Hx) as (v1 & vr & G1 & Gr & _ & B1).
    destruct (V2 B f y x HB Hf Hy Hx) as (v2 & vr' & G2 & Gr' & _ & B2).
    assert (vr' = vr) by congruence. subst vr'.
    exists v1, v2. split; [exact G1|]. split; [exact G2|]. cbv zeta.
    exact (tri v1 v2 vr _ _ B1 B2).
  Qed.

  Theorem a_sum_two_formats : forall k (a : arr R),
      wf a -> (1 <= k <= length (dims a))%nat -> fmt_arr emin1 prec1 a ->
      let lead := firstn (length (dims a) - k) (dims a) in
      let g := prod (lastn k (dims a)) in
      exists c1 c2,
        a_sum O1 k a = Some c1 /\ a_sum O2 k a = Some c2 /\ dims c1 = dims c2 /\
        forall J, in_range J lead ->
          let blk := block g (rowmajor lead J) (vals a) in
          exists v1 v2,
            get c1 (J ++ [0%nat]) = Some v1 /\ get c2 (J ++ [0%nat]) = Some v2 /\
            Rabs (v1 - v2) <= (theta prec1 (g - 1) + theta prec2 (g - 1)) * rsum (map Rabs blk).
  Proof.
    intros k a Hwa Hk Fa lead g.
    destruct (a_sum_rounding emin1 prec1 k a Hwa Hk Fa) as (c1 & cr & H1 & Hr & D1 & V1).
    destruct (a_sum_rounding emin2 prec2 k a Hwa Hk (fmt_arr_incl a Fa))
      as (c2 & cr' & H2 & Hr' & D2 & V2).
    assert (cr' = cr) by congruence. subst cr'.
    exists c1, c2. split; [exact H1|]. split; [exact H2|]. split; [congruence|].
    intros J HJ blk.
    destruct (V1 J HJ) as (v1 & G1 & _ & _ & B1). destruct (V2 J HJ) as (v2 & G2 & _ & _ & B2).
    exists v1, v2. split; [exact G1|]. split; [exact G2|].
    rewrite Rmult_plus_distr_r. exact (tri v1 v2 _ _ _ B1 B2).
  Qed.
End TwoFormats.

(** * binary32 against binary64 *)

Local Instance prec24_gt_0 : Prec_gt_0 24 := eq_refl.
Local Instance prec53_gt_0 : Prec_gt_0 53 := eq_refl.

Notation fmt32 := (generic_format radix2 (FLT_exp (-149) 24)).
Notation fmt64 := (generic_format radix2 (FLT_exp (-1074) 53)).

Lemma u32_value : u 24 = / 16777216.
Proof. unfold u. cbn. reflexivity. Qed.

Lemma u64_le_u32 : u 53 <= u 24.
Proof. unfold u. apply bpow_le. lia. Qed.

Lemma fmt32_fmt64 : forall x, fmt32 x -> fmt64 x.
Proof. intros x. apply fmt_incl; lia. Qed.

(** the statement of C19 for one [matmul]: same operands (the additive term representable in
    binary32), the single-precision result against the double-precision result, element by
    element, in Higham's [gamma] form.  [n] is the inner dimension; [T] the sum of the
    absolute values of the exact products; [ct] the additive term of the element. *)
Theorem matmul_f32_f64 : forall (a : arr R) ta (b : arr R) tb c la ar ac lb br bc,
    wf a -> wf b -> dims a = la ++ [ar; ac] -> dims b = lb ++ [br; bc] ->
    mm_inner_a ta ar ac = mm_inner_b tb br bc -> bcompat la lb ->
    bias_admissible c (mm_rows ta ar ac) (mm_cols tb br bc) ->
    (forall c', c = Some c' -> fmt_arr (-149) 24 c') ->
    let rows := mm_rows ta ar ac in
    let cols := mm_cols tb br bc in
    let n := mm_inner_a ta ar ac in
    INR (S n) * u 24 < 1 ->
    exists r32 r64,
      a_matmul binary32_ops a ta b tb c = Some r32 /\ a_matmul binary64_ops a ta b tb c = Some r64 /\
      dims r32 = dims r64 /\
      forall J i j, in_range J (bmax la lb) -> (i < rows)%nat -> (j < cols)%nat ->
        exists v32 v64,
          get r32 (J ++ [i; j]) = Some v32 /\ get r64 (J ++ [i; j]) = Some v64 /\
          let ct := bias_flat R_ops c cols i j in
          let T := rsum (map Rabs (mm_terms a ta b tb la lb J i j n)) in
          Rabs (v32 - v64)
          <= (gamma 24 (S n) + gamma 53 (S n)) * (Rabs ct + T)
             + INR n * (eta (-149) * (1 + gamma 24 n) + eta (-1074) * (1 + gamma 53 n)).
Proof.
  intros a ta b tb c la ar ac lb br bc Hwa Hwb Ea Eb Hin Hc Hb Fc rows cols n Hk.
  destruct (matmul_two_formats (-149) 24 (-1074) 53 ltac:(lia) ltac:(lia)
              a ta b tb c la ar ac lb br bc Hwa Hwb Ea Eb Hin Hc Hb Fc)
    as (r1 & r2 & H1 & H2 & D & V).
  exists r1, r2. split; [exact H1|]. split; [exact H2|]. split; [exact D|].
  intros J i j HJ Hi Hj. destruct (V J i j HJ Hi Hj) as (v1 & v2 & G1 & G2 & B).
  exists v1, v2. split; [exact G1|]. split; [exact G2|]. cbv zeta in *.
  fold n in B. fold cols in B.
  set (ct := bias_flat R_ops c cols i j) in *.
  set (T := rsum (map Rabs (mm_terms a ta b tb la lb J i j n))) in *.
  assert (HT : 0 <= T) by apply rsum_abs_nonneg.
  assert (Hk64 : INR (S n) * u 53 < 1).
  { pose proof u64_le_u32. pose proof (pos_INR (S n)). nra. }
  pose proof (dot_bound_le_gamma (-149) 24 n ct T HT Hk) as L1.
  pose proof (dot_bound_le_gamma (-1074) 53 n ct T HT Hk64) as L2.
  unfold dot_bound_gamma in L1, L2. lra.
Qed.

(** [k * u < 1] for binary32 means [k < 2^24] *)
Lemma nu32_lt_1 : forall k, (Z.of_nat k < 16777216)%Z -> INR k * u 24 < 1.
Proof.
  intros k Hk. rewrite u32_value, INR_IZR_INZ. apply IZR_lt in Hk.
  pose proof (IZR_le 0 (Z.of_nat k) ltac:(lia)). lra.
Qed.

(** non-vacuity: [[1 2]] * [[3] [4]] = [[11]] *)
Example matmul_rounding_1x2_2x1 :
  let a := {| dims := [1; 2]%nat; vals := [1; 2] |} in
  let b := {| dims := [2; 1]%nat; vals := [3; 4] |} in
  exists r32 r64 rr v32 v64,
    a_matmul binary32_ops a false b false None = Some r32 /\
    a_matmul binary64_ops a false b false None = Some r64 /\
    a_matmul R_ops a false b false None = Some rr /\
    get rr [0; 0]%nat = Some 11 /\
    get r32 [0; 0]%nat = Some v32 /\ get r64 [0; 0]%nat = Some v64 /\
    Rabs (v32 - 11) <= dot_bound (-149) 24 2 0 11 /\
    Rabs (v32 - v64) <= dot_bound (-149) 24 2 0 11 + dot_bound (-1074) 53 2 0 11.
Proof.
  intros a b.
  assert (Hwa : wf a) by (split; cbn; [repeat constructor|reflexivity]).
  assert (Hwb : wf b) by (split; cbn; [repeat constructor|reflexivity]).
  assert (Hno : forall c', @None (arr R) = Some c' -> fmt_arr (-149) 24 c') by discriminate.
  destruct (matmul_rounding (-149) 24 a false b false None [] 1 2 [] 2 1
                            Hwa Hwb eq_refl eq_refl eq_refl I I Hno) as (r32 & rr & H32 & Hr & _ & V32).
  destruct (matmul_two_formats (-149) 24 (-1074) 53 ltac:(lia) ltac:(lia)
              a false b false None [] 1 2 [] 2 1 Hwa Hwb eq_refl eq_refl eq_refl I I Hno)
    as (r32' & r64 & H32' & H64 & _ & V2).
  assert (r32' = r32) by congruence. subst r32'.
  assert (R0 : in_range [] (bmax [] [])) by constructor.
  destruct (V32 [] 0%nat 0%nat R0 ltac:(cbn; lia) ltac:(cbn; lia)) as (v32 & vr & G32 & Gr & Evr & B32).
  destruct (V2 [] 0%nat 0%nat R0 ltac:(cbn; lia) ltac:(cbn; lia)) as (v32' & v64 & G32' & G64 & B2).
  assert (v32' = v32) by (cbn [app] in *; congruence). subst v32'.
  cbv zeta in Evr, B32, B2.
  assert (ET : rsum (map Rabs (mm_terms a false b false [] [] [] 0 0 (mm_inner_a false 1 2))) = 11).
  { unfold mm_terms, vsum. cbn. rewrite !Rabs_pos_eq by lra. lra. }
  assert (Er : vr = 11).
  { rewrite Evr. unfold mm_terms, vsum. cbn. lra. }
  rewrite ET in B32, B2. clear Evr ET. subst vr.
  change (mm_inner_a false 1 2) with 2%nat in B32, B2.
  change (bias_flat R_ops None (mm_cols false 2 1) 0 0) with 0 in B32, B2.
  exists r32, r64, rr, v32, v64. cbn [app] in *.
  split; [exact H32|]. split; [exact H64|]. split; [exact Hr|]. split; [exact Gr|].
  split; [exact G32|]. split; [exact G64|]. split; [exact B32|exact B2].
Qed.

(** * Axioms used (all declared by Coq's standard library; none by this development) *)
Print Assumptions fadd_err.
Print Assumptions fmul_err.
Print Assumptions theta_le_gamma.
Print Assumptions vsum_err.
Print Assumptions vsum_err_gamma.
Print Assumptions dot_err_list.
Print Assumptions dot_err_gamma.
Print Assumptions matmul_rounding.
Print Assumptions a_sum_rounding.
Print Assumptions conv_rounding.
Print Assumptions ew_rounding.
Print Assumptions matmul_two_formats.
Print Assumptions conv_two_formats.
Print Assumptions a_sum_two_formats.
Print Assumptions matmul_f32_f64.
Print Assumptions matmul_rounding_1x2_2x1.
