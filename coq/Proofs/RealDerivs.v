(** Scalar facts over the reals (Coq Reals + Coquelicot; the only file of the development,
    with Model/RealScalar.v, that imports them).

    0. [R_ops] (Model/RealScalar.v) is a commutative ring and satisfies the three scalar laws
       used by the algebraic proofs: [a / b = a * (1 / b)], [1 / (a * b) = (1/a) * (1/b)]
       (unconditional: Coq's [/ 0 = 0]) and [fpow x (1+1) = x * x] (unconditional for the
       integer-aware [fpow] chosen there; it would hold only for [0 < x] with plain [Rpower],
       see [Rpower_two_counterexample]).
    1. C02, scalar part: every rule of [dual_ops] (Model/Scalar.v) is the mathematical
       derivative, in the form "for every curve [x] with [is_derive x t0 x'], the curve
       [t |-> prim (x t)] has derivative [snd (prim_dual (x t0, x'))] at [t0]" ([d_fadd],
       [d_fsub], [d_fneg], [d_fmul], [d_fdiv] (denominator <> 0), [d_fexp], [d_fln] (x > 0),
       [d_fpow] (constant exponent; x > 0 any real exponent, or integer exponent and x <> 0,
       or natural exponent at every x), [d_pow_nat], [d_pow_neg_nat], [d_sigmoid],
       [d_relu] (x <> 0); [relu_not_derivable_at_0] with the code's convention [relu'_at_0]).
    2. C07, softmax rows: [softmax_rows_R].
    No axiom is declared here; [Print Assumptions] at the end of the file lists the
    standard-library axioms used. *)

From Coq Require Import List Arith Bool Lia PeanoNat ZArith Reals Lra Ring_theory.
From Coquelicot Require Import Coquelicot.
From Corgi Require Import Lib.OptionMonad Lib.IdxDefs Lib.Idx Model.Scalar Model.RealScalar
     Model.Arr Model.SlicedOp Model.Elementwise Model.Ops Lib.Sums Proofs.ArrFacts Proofs.SpecDefs
     Proofs.SlicedOpSpec Proofs.EwSpec Proofs.ReduceSpec.
Import ListNotations.

Local Open Scope R_scope.

(** * 0. The instance: ring, scalar laws, the exponent test *)

Theorem R_is_cring : is_cring R_ops.
Proof.
  unfold is_cring. cbn. constructor; intros; cbn; ring.
Qed.

Theorem R_div_mul_inv : forall a b : R,
    fdiv R_ops a b = fmul R_ops a (fdiv R_ops (f1 R_ops) b).
Proof. intros a b. cbn. unfold Rdiv. ring. Qed.

Theorem R_inv_mul : forall a b : R,
    fdiv R_ops (f1 R_ops) (fmul R_ops a b)
    = fmul R_ops (fdiv R_ops (f1 R_ops) a) (fdiv R_ops (f1 R_ops) b).
Proof. intros a b. cbn. unfold Rdiv. rewrite Rinv_mult. ring. Qed.

Lemma Int_part_IZR : forall z, Int_part (IZR z) = z.
Proof.
  intros z. unfold Int_part.
  assert (E : (z + 1)%Z = up (IZR z)).
  { apply tech_up; rewrite plus_IZR; lra. }
  rewrite <- E. lia.
Qed.

Lemma R_int_of_IZR : forall z, R_int_of (IZR z) = Some z.
Proof.
  intros z. unfold R_int_of. rewrite Int_part_IZR.
  destruct (Req_EM_T (IZR z) (IZR z)) as [_|N]; [reflexivity|]. exfalso. apply N. reflexivity.
Qed.

Lemma R_int_of_Some : forall e z, R_int_of e = Some z <-> e = IZR z.
Proof.
  intros e z. split.
  - unfold R_int_of. destruct (Req_EM_T e (IZR (Int_part e))) as [E|N]; [|discriminate].
    intros H. inversion H; subst. exact E.
  - intros ->. apply R_int_of_IZR.
Qed.

Lemma R_int_of_None : forall e, R_int_of e = None <-> forall z, e <> IZR z.
Proof.
  intros e. split.
  - intros H z E. apply R_int_of_Some in E. congruence.
  - intros H. destruct (R_int_of e) as [z|] eqn:E; [|reflexivity].
    apply R_int_of_Some in E. exfalso. exact (H z E).
Qed.


(** ** [fpow] *)

Lemma R_pow_int : forall x z, R_pow x (IZR z) = powerRZ x z.
Proof. intros x z. unfold R_pow. rewrite R_int_of_IZR. reflexivity. Qed.

(** natural exponents, at every base: [powf(x, n) = x^n] *)
Theorem R_pow_nat : forall x n, fpow R_ops x (INR n) = x ^ n.
Proof. intros x n. cbn. rewrite INR_IZR_INZ, R_pow_int. symmetry. apply pow_powerRZ. Qed.

(** negative integer exponents: [powf(x, -n) = 1 / x^n] *)
Theorem R_pow_neg_nat : forall x n, fpow R_ops x (- INR n) = / x ^ n.
Proof.
  intros x n. cbn. rewrite INR_IZR_INZ, <- opp_IZR, R_pow_int.
  destruct n as [|n]; [cbn; symmetry; apply Rinv_1|].
  cbn [powerRZ Z.of_nat Z.opp]. rewrite SuccNat2Pos.id_succ. reflexivity.
Qed.

(** the law used by the [BDiv] / [BRecip] closures ([two O = fadd O (f1 O) (f1 O)],
    Model/Ops.v): unconditional for this [fpow] *)
Theorem R_pow_two : forall x : R, fpow R_ops x (two R_ops) = fmul R_ops x x.
Proof.
  intros x. unfold two. cbn. replace (1 + 1) with (IZR 2) by lra. rewrite R_pow_int. cbn [powerRZ]. change (Pos.to_nat 2) with 2%nat. ring.
Qed.

(** positive base: the real power *)
Theorem R_pow_pos : forall x e, 0 < x -> fpow R_ops x e = Rpower x e.
Proof.
  intros x e Hx. cbn. unfold R_pow. destruct (R_int_of e) as [z|] eqn:E.
  - apply R_int_of_Some in E. subst e. apply powerRZ_Rpower. exact Hx.
  - destruct (Rlt_dec 0 x) as [_|N]; [reflexivity|]. exfalso. exact (N Hx).
Qed.

(** non-integer exponent at a non-positive base (real domain: only [x = 0 < e], value [0]) *)
Theorem R_pow_frac_nonpos : forall x e, (forall z, e <> IZR z) -> x <= 0 -> fpow R_ops x e = 0.
Proof.
  intros x e He Hx. cbn. unfold R_pow. apply R_int_of_None in He. rewrite He.
  destruct (Rlt_dec 0 x) as [H|_]; [lra|reflexivity].
Qed.

(** Why [fpow := Rpower] was rejected: stdlib's [ln] is [0] off the positive axis, hence
    [Rpower x e = 1] for every [x <= 0], and the squaring law fails there. *)
Remark Rpower_nonpos : forall x e, x <= 0 -> Rpower x e = 1.
Proof.
  intros x e Hx. unfold Rpower, ln. destruct (Rlt_dec 0 x) as [H|_]; [exfalso; lra|].
  rewrite Rmult_0_r. apply exp_0.
Qed.

Remark Rpower_two_pos : forall x, 0 < x -> Rpower x (1 + 1) = x * x.
Proof.
  intros x Hx. rewrite Rpower_plus, Rpower_1 by exact Hx. reflexivity.
Qed.

Remark Rpower_two_counterexample : Rpower (-2) (1 + 1) <> (-2) * (-2).
Proof. rewrite Rpower_nonpos by lra. lra. Qed.

(** * 1. The dual-number rules are the derivatives

    Form: for every curve [x] differentiable at [t0] with derivative [x'], the curve
    [t |-> prim (x t)] has at [t0] the derivative [snd (prim_dual (x t0, x'))]; the first
    component of [prim_dual (x t0, x')] is [prim (x t0)] by definition ([dual_fst_*]). *)

Notation dR := (dual_ops R_ops).

Lemma powerRZ_pos_pow : forall u n, powerRZ u (Z.of_nat n) = u ^ n.
Proof. intros. symmetry. apply pow_powerRZ. Qed.

Lemma is_derive_powerRZ : forall z u,
    (u <> 0 \/ (0 <= z)%Z) -> is_derive (fun v => powerRZ v z) u (IZR z * powerRZ u (z - 1)).
Proof.
  intros z u H. destruct z as [|p|p].
  - cbn [powerRZ]. replace (0 * _) with 0 by ring. apply @is_derive_const.
  - destruct (Pos2Nat.is_succ p) as (m & Em).
    assert (Ez : Z.pos p = Z.of_nat (S m)) by (rewrite <- Em; symmetry; apply positive_nat_Z).
    rewrite Ez. replace (Z.of_nat (S m) - 1)%Z with (Z.of_nat m) by lia.
    rewrite <- INR_IZR_INZ, powerRZ_pos_pow.
    apply (is_derive_ext (fun v => v ^ S m)); [intros t; symmetry; apply powerRZ_pos_pow|].
    remember (S m) as k eqn:Ek. auto_derive; [exact I|]. subst k. cbn [pred]. ring.
  - assert (Hu : u <> 0) by (destruct H as [H|H]; [exact H|lia]).
    destruct (Pos2Nat.is_succ p) as (m & Em).
    replace (Z.neg p - 1)%Z with (Z.neg (p + 1)) by lia.
    cbn [powerRZ]. rewrite Pos2Nat.inj_add, Em. change (Pos.to_nat 1) with 1%nat.
    replace (IZR (Z.neg p)) with (- INR (S m)).
    2:{ rewrite <- Em, INR_IZR_INZ, positive_nat_Z. rewrite <- opp_IZR. reflexivity. }
    remember (S m) as k eqn:Ek. auto_derive.
    + apply pow_nonzero. exact Hu.
    + subst k. cbn [pred]. replace (S m + 1)%nat with (S (S m)) by lia.
      assert (Hm : u ^ m <> 0) by (apply pow_nonzero; exact Hu).
      rewrite <- !tech_pow_Rmult. field. split; assumption.
Qed.

Section Curves.
  Variables (x y : R -> R) (t0 x' y' : R).
  Hypothesis Hx : is_derive x t0 x'.
  Hypothesis Hy : is_derive y t0 y'.

  Let Ex : ex_derive (fun t => x t) t0.
  Proof. exists x'. exact Hx. Qed.
  Let Ey : ex_derive (fun t => y t) t0.
  Proof. exists y'. exact Hy. Qed.
  Let Dx : Derive (fun t => x t) t0 = x'.
  Proof. apply is_derive_unique. exact Hx. Qed.
  Let Dy : Derive (fun t => y t) t0 = y'.
  Proof. apply is_derive_unique. exact Hy. Qed.

  Theorem d_fadd :
    is_derive (fun t => fadd R_ops (x t) (y t)) t0 (snd (fadd dR (x t0, x') (y t0, y'))).
  Proof. cbn. auto_derive; [tauto|]. rewrite Dx, Dy. ring. Qed.

  Theorem d_fsub :
    is_derive (fun t => fsub R_ops (x t) (y t)) t0 (snd (fsub dR (x t0, x') (y t0, y'))).
  Proof. cbn. auto_derive; [tauto|]. rewrite Dx, Dy. ring. Qed.

  Theorem d_fneg :
    is_derive (fun t => fneg R_ops (x t)) t0 (snd (fneg dR (x t0, x'))).
  Proof. cbn. auto_derive; [tauto|]. rewrite Dx. ring. Qed.

  Theorem d_fmul :
    is_derive (fun t => fmul R_ops (x t) (y t)) t0 (snd (fmul dR (x t0, x') (y t0, y'))).
  Proof. cbn. auto_derive; [tauto|]. rewrite Dx, Dy. ring. Qed.

  Theorem d_fdiv : y t0 <> 0 ->
    is_derive (fun t => fdiv R_ops (x t) (y t)) t0 (snd (fdiv dR (x t0, x') (y t0, y'))).
  Proof. intros H0. cbn. auto_derive; [tauto|]. rewrite Dx, Dy. field. exact H0. Qed.

  Theorem d_fexp :
    is_derive (fun t => fexp R_ops (x t)) t0 (snd (fexp dR (x t0, x'))).
  Proof. cbn. auto_derive; [tauto|]. rewrite Dx. ring. Qed.

  Theorem d_fln : 0 < x t0 ->
    is_derive (fun t => fln R_ops (x t)) t0 (snd (fln dR (x t0, x'))).
  Proof. intros H0. cbn. auto_derive; [tauto|]. rewrite Dx. field. lra. Qed.

  (** near [t0] the curve stays positive *)
  Lemma curve_pos_locally : 0 < x t0 -> locally t0 (fun t => 0 < x t).
  Proof.
    intros H0.
    pose proof (@ex_derive_continuous R_AbsRing R_NormedModule x t0 (ex_intro _ x' Hx)) as C.
    exact (C (fun v => 0 < v) (open_gt 0 (x t0) H0)).
  Qed.

  (** [powf] with a constant exponent [e] (the tangent [e'] of the exponent is ignored by the
      dual rule: exponents are constants of the program).  Domain: positive base and any real
      exponent; or integer exponent [z] and non-zero base; or natural exponent and any base. *)
  Theorem d_fpow : forall e e',
      (0 < x t0 \/ exists z, e = IZR z /\ (x t0 <> 0 \/ (0 <= z)%Z)) ->
      is_derive (fun t => fpow R_ops (x t) e) t0 (snd (fpow dR (x t0, x') (e, e'))).
  Proof.
    intros e e' Hdom. cbn.
    destruct (R_int_of e) as [z|] eqn:E.
    - apply R_int_of_Some in E. subst e.
      assert (Hz : x t0 <> 0 \/ (0 <= z)%Z).
      { destruct Hdom as [H|(z' & Ez & H)]; [left; lra|]. apply eq_IZR in Ez. subst z'. exact H. }
      rewrite <- minus_IZR, R_pow_int.
      apply (is_derive_ext (fun t => powerRZ (x t) z)); [intros t; symmetry; apply R_pow_int|].
      pose proof (is_derive_comp (fun v => powerRZ v z) x t0 _ _ (is_derive_powerRZ z (x t0) Hz) Hx)
        as HC.
      replace (IZR z * powerRZ (x t0) (z - 1) * x') with (scal x' (IZR z * powerRZ (x t0) (z - 1))).
      + exact HC.
      + unfold scal; cbn; unfold mult; cbn. ring.
    - assert (H0 : 0 < x t0).
      { destruct Hdom as [H|(z & Ez & _)]; [exact H|]. apply R_int_of_Some in Ez. congruence. }
      assert (E1 : R_int_of (e - 1) = None).
      { apply R_int_of_None. intros z Ez. pose proof (proj1 (R_int_of_None e) E (z + 1)%Z) as N.
        apply N. rewrite plus_IZR. lra. }
      apply (is_derive_ext_loc (fun t => Rpower (x t) e)).
      { generalize (curve_pos_locally H0). apply filter_imp. intros t Ht.
        symmetry. apply (R_pow_pos (x t) e Ht). }
      change (R_pow (x t0) (e - 1)) with (fpow R_ops (x t0) (e - 1)). rewrite R_pow_pos by exact H0.
      assert (Hp : Rpower (x t0) (e - 1) = Rpower (x t0) e * / x t0).
      { unfold Rminus. rewrite Rpower_plus, Rpower_Ropp, Rpower_1 by exact H0. reflexivity. }
      rewrite Hp. unfold Rpower.
      auto_derive; [tauto|]. rewrite Dx. field. lra.
  Qed.
End Curves.

(** the first components: the dual run computes the primal value (by definition) *)
Remark dual_fst : forall (X Y : @dual R),
    fst (fadd dR X Y) = fst X + fst Y /\ fst (fsub dR X Y) = fst X - fst Y /\
    fst (fmul dR X Y) = fst X * fst Y /\ fst (fdiv dR X Y) = fst X / fst Y /\
    fst (fneg dR X) = - fst X /\ fst (fexp dR X) = exp (fst X) /\ fst (fln dR X) = ln (fst X) /\
    fst (fpow dR X Y) = fpow R_ops (fst X) (fst Y).
Proof. intros. repeat split; reflexivity. Qed.

(** ** natural exponents, stated with [pow], at every base *)

Theorem dual_fpow_nat : forall (n : nat) (u u' e' : R),
    fpow dR (u, u') (INR n, e') = (u ^ n, INR n * u ^ (n - 1) * u').
Proof.
  intros n u u' e'. cbn [fpow dual_ops fst snd]. f_equal; [apply R_pow_nat|].
  cbn [f1 R_ops fmul fsub]. destruct n as [|m].
  - cbn [INR]. ring.
  - replace (INR (S m) - 1) with (INR m) by (rewrite S_INR; ring).
    change (R_pow u (INR m)) with (fpow R_ops u (INR m)). rewrite R_pow_nat.
    replace (S m - 1)%nat with m by lia. reflexivity.
Qed.

Theorem d_pow_nat : forall (x : R -> R) (t0 x' : R) (n : nat),
    is_derive x t0 x' ->
    is_derive (fun t => x t ^ n) t0 (INR n * x t0 ^ (n - 1) * x').
Proof.
  intros x t0 x' n Hx.
  pose proof (d_fpow x t0 x' Hx (INR n) 0) as H.
  rewrite dual_fpow_nat in H. cbn [snd] in H.
  apply (is_derive_ext (fun t => fpow R_ops (x t) (INR n))); [intros t; apply R_pow_nat|].
  apply H. right. exists (Z.of_nat n). split; [apply INR_IZR_INZ|]. right. lia.
Qed.

(** negative integer exponents at a non-zero (in particular negative) base *)
Theorem d_pow_neg_nat : forall (x : R -> R) (t0 x' : R) (n : nat),
    is_derive x t0 x' -> x t0 <> 0 ->
    is_derive (fun t => / x t ^ n) t0 (snd (fpow dR (x t0, x') (- INR n, 0))).
Proof.
  intros x t0 x' n Hx H0.
  apply (is_derive_ext (fun t => fpow R_ops (x t) (- INR n))); [intros t; apply R_pow_neg_nat|].
  apply d_fpow; [exact Hx|]. right. exists (- Z.of_nat n)%Z.
  split; [rewrite opp_IZR, <- INR_IZR_INZ; reflexivity|]. left. exact H0.
Qed.

(** ** sigmoid *)

Definition sigmoid (x : R) : R := sigmoid_fn R_ops x.

Lemma sigmoid_eq : forall x, sigmoid x = 1 / (1 + exp (- x)).
Proof. reflexivity. Qed.

Lemma sigmoid_den_pos : forall x, 0 < 1 + exp (- x).
Proof. intros x. pose proof (exp_pos (- x)). lra. Qed.

(** the factor of the [BSigmoid] closure: [v * (1 - v)] at the cached value [v = sigmoid x] *)
Theorem sigmoid_derive : forall x, is_derive sigmoid x (sigmoid x * (1 - sigmoid x)).
Proof.
  intros x. unfold sigmoid, sigmoid_fn. cbn. pose proof (sigmoid_den_pos x) as Hd.
  auto_derive; [lra|]. field. lra.
Qed.

(** the dual-number run of the forward model *)
Theorem sigmoid_dual : forall x x',
    sigmoid_fn dR (x, x') = (sigmoid x, sigmoid x * (1 - sigmoid x) * x').
Proof.
  intros x x'. unfold sigmoid, sigmoid_fn. cbn. f_equal.
  pose proof (sigmoid_den_pos x) as Hd. field. lra.
Qed.

Theorem d_sigmoid : forall (x : R -> R) (t0 x' : R),
    is_derive x t0 x' ->
    is_derive (fun t => sigmoid_fn R_ops (x t)) t0 (snd (sigmoid_fn dR (x t0, x'))).
Proof.
  intros x t0 x' Hx. rewrite sigmoid_dual. cbn [snd].
  pose proof (is_derive_comp sigmoid x t0 _ _ (sigmoid_derive (x t0)) Hx) as HC.
  replace (sigmoid (x t0) * (1 - sigmoid (x t0)) * x')
    with (scal x' (sigmoid (x t0) * (1 - sigmoid (x t0)))); [exact HC|].
  unfold scal; cbn; unfold mult; cbn. ring.
Qed.

(** ** relu *)

Definition relu (x : R) : R := if fgt0 R_ops x then x else f0 R_ops.
(** the factor of the [BRelu] closure *)
Definition relu' (x : R) : R := if fgt0 R_ops x then f1 R_ops else f0 R_ops.

Lemma relu_pos : forall x, 0 < x -> relu x = x /\ relu' x = 1.
Proof. intros x H. unfold relu, relu'. cbn. destruct (Rlt_dec 0 x); [split; reflexivity|tauto]. Qed.

Lemma relu_nonpos : forall x, x <= 0 -> relu x = 0 /\ relu' x = 0.
Proof.
  intros x H. unfold relu, relu'. cbn. destruct (Rlt_dec 0 x); [exfalso; lra|split; reflexivity].
Qed.

Theorem relu_derive : forall x, x <> 0 -> is_derive relu x (relu' x).
Proof.
  intros x Hx. destruct (Rlt_dec 0 x) as [Hp|Hn].
  - rewrite (proj2 (relu_pos x Hp)).
    apply (is_derive_ext_loc (fun t => t)); [|apply @is_derive_id].
    generalize (open_gt 0 x Hp). apply filter_imp. intros t Ht. symmetry. apply relu_pos. exact Ht.
  - assert (Hl : x < 0) by lra. rewrite (proj2 (relu_nonpos x (Rlt_le _ _ Hl))).
    apply (is_derive_ext_loc (fun _ => 0)); [|apply @is_derive_const].
    generalize (open_lt 0 x Hl). apply filter_imp. intros t Ht. symmetry. apply relu_nonpos. lra.
Qed.

(** the dual-number run of the forward closure *)
Theorem relu_dual : forall x x',
    (if fgt0 dR (x, x') then (x, x') else f0 dR) = (relu x, relu' x * x').
Proof.
  intros x x'. unfold relu, relu'. cbn. destruct (Rlt_dec 0 x); f_equal; ring.
Qed.

Theorem d_relu : forall (x : R -> R) (t0 x' : R),
    is_derive x t0 x' -> x t0 <> 0 ->
    is_derive (fun t => relu (x t)) t0
              (snd (if fgt0 dR (x t0, x') then (x t0, x') else f0 dR)).
Proof.
  intros x t0 x' Hx H0. rewrite relu_dual. cbn [snd].
  pose proof (is_derive_comp relu x t0 _ _ (relu_derive (x t0) H0) Hx) as HC.
  replace (relu' (x t0) * x') with (scal x' (relu' (x t0))); [exact HC|].
  unfold scal; cbn; unfold mult; cbn. ring.
Qed.

(** at [0] the closure's factor is [0] (a convention: relu has no derivative there) *)
Remark relu'_at_0 : relu' 0 = 0.
Proof. apply relu_nonpos. lra. Qed.

Theorem relu_not_derivable_at_0 : ~ ex_derive relu 0.
Proof.
  intros (l & Hl). apply is_derive_Reals in Hl.
  destruct (Hl (1 / 2)) as (delta & Hd); [lra|].
  pose proof (cond_pos delta) as Hpos.
  assert (H1 : Rabs ((relu (0 + delta / 2) - relu 0) / (delta / 2) - l) < 1 / 2).
  { apply Hd; [lra|]. rewrite Rabs_pos_eq; lra. }
  assert (H2 : Rabs ((relu (0 + - (delta / 2)) - relu 0) / (- (delta / 2)) - l) < 1 / 2).
  { apply Hd; [lra|]. rewrite Rabs_Ropp, Rabs_pos_eq; lra. }
  rewrite (proj1 (relu_nonpos 0 (Rle_refl 0))) in H1, H2.
  rewrite (proj1 (relu_pos (0 + delta / 2) ltac:(lra))) in H1.
  rewrite (proj1 (relu_nonpos (0 + - (delta / 2)) ltac:(lra))) in H2.
  replace ((0 + delta / 2 - 0) / (delta / 2) - l) with (1 - l) in H1 by (field; lra).
  replace ((0 - 0) / - (delta / 2) - l) with (- l) in H2 by (field; lra).
  apply Rabs_def2 in H1. apply Rabs_def2 in H2. lra.
Qed.

(** * 2. Softmax over the reals: every entry is positive, every last-dimension row sums to 1 *)

Lemma vsum_R_nonneg : forall l : list R, List.Forall (fun v => 0 < v) l -> 0 <= vsum R_ops l.
Proof.
  intros l H. induction H as [|v l Hv _ IH].
  - rewrite (vsum_nil R_ops). cbn. lra.
  - rewrite (vsum_cons R_ops R_is_cring). cbn [fadd R_ops]. lra.
Qed.

Lemma vsum_R_pos : forall l : list R, l <> [] -> List.Forall (fun v => 0 < v) l -> 0 < vsum R_ops l.
Proof.
  intros [|v l] Hne H; [congruence|]. inversion H as [|? ? Hv Hl]; subst.
  rewrite (vsum_cons R_ops R_is_cring). cbn [fadd R_ops].
  pose proof (vsum_R_nonneg l Hl). lra.
Qed.

Lemma exp_list_pos : forall l : list R, List.Forall (fun v => 0 < v) (map exp l).
Proof. intros l. apply Forall_forall. intros y Hy. apply in_map_iff in Hy.
       destruct Hy as (v & <- & _). apply exp_pos. Qed.

(** the scalar fact: the normalised exponentials of a non-empty row sum to one *)
Lemma softmax_row_sum : forall row : list R,
    row <> [] ->
    let s := vsum R_ops (map (fexp R_ops) row) in
    0 < s /\ vsum R_ops (map (fun v => fdiv R_ops (fexp R_ops v) s) row) = 1.
Proof.
  intros row Hne s.
  assert (Hs : 0 < s).
  { apply vsum_R_pos; [|apply exp_list_pos]. destruct row; [congruence|discriminate]. }
  split; [exact Hs|].
  transitivity (vsum R_ops (map (fun y => fmul R_ops y (/ s)) (map (fexp R_ops) row))).
  { rewrite map_map. reflexivity. }
  rewrite (vsum_map_mul_r R_ops R_is_cring). fold s. cbn [fmul R_ops]. apply Rinv_r. lra.
Qed.

Lemma map_nth_seq : forall {A} (l : list A) d, map (fun i => nth i l d) (seq 0 (length l)) = l.
Proof.
  intros A l d. induction l as [|v l IH]; [reflexivity|].
  cbn [length seq map nth]. f_equal. rewrite <- seq_shift, map_map. exact IH.
Qed.

Theorem softmax_rows_R : forall (a : arr R) lead n,
    wf a -> dims a = lead ++ [n] ->
    exists c, a_softmax R_ops a = Some c /\ wf c /\ dims c = lead ++ [n] /\
      (* every entry is positive *)
      List.Forall (fun v => 0 < v) (vals c) /\
      (forall I, in_range I (dims c) -> exists v, get c I = Some v /\ 0 < v) /\
      (* every row, read element by element through [get], sums (left fold) to one *)
      forall J, in_range J lead ->
        exists row, map Some row = map (fun i => get c (J ++ [i])) (seq 0 n) /\
                    vsum R_ops row = 1.
Proof.
  intros a lead n Hwa Ed.
  destruct (a_softmax_spec R_ops a lead n Hwa Ed) as (c & Hc & Hwc & Hdc & Hval).
  destruct (wf_snoc a lead n Hwa Ed) as (Hpl & Hn & Hva).
  rewrite Ed in Hdc.
  assert (Hblk : forall J, in_range J lead -> length (block n (rowmajor lead J) (vals a)) = n).
  { intros J HJ. apply (block_length _ _ (prod lead)); [exact Hva|].
    apply rowmajor_lt_prod. exact HJ. }
  assert (Hne : forall J, in_range J lead -> block n (rowmajor lead J) (vals a) <> []).
  { intros J HJ E. pose proof (Hblk J HJ) as L. rewrite E in L. cbn in L. lia. }
  (* entries through [get] *)
  assert (Hget : forall I, in_range I (dims c) -> exists v, get c I = Some v /\ 0 < v).
  { intros I HI. rewrite Hdc in HI. unfold in_range in HI.
    apply Forall2_app_inv_r in HI. destruct HI as (J & K & HJ & HK & ->).
    inversion HK as [|i ? K' ? Hi HK']; subst. inversion HK'; subst.
    destruct (Hval J i HJ Hi) as (v & _ & Hcv). eexists. split; [exact Hcv|].
    destruct (softmax_row_sum _ (Hne J HJ)) as [Hs _]. cbv zeta in Hs. cbn [fdiv fexp R_ops] in *.
    apply Rdiv_lt_0_compat; [apply exp_pos|exact Hs]. }
  exists c. split; [exact Hc|]. split; [exact Hwc|]. split; [exact Hdc|].
  split; [|split; [exact Hget|]].
  - apply Forall_forall. intros v Hv. apply In_nth_error in Hv. destruct Hv as (p & Hp).
    destruct Hwc as [Hpc Hlc].
    assert (Hlt : (p < prod (dims c))%nat).
    { rewrite Hlc. apply nth_error_Some. congruence. }
    destruct (Hget (unrank (dims c) p)) as (w & Hw & Hw0); [apply unrank_lt; exact Hpc|].
    unfold get in Hw. rewrite rowmajor_unrank in Hw by assumption. congruence.
  - intros J HJ.
    assert (HlenJ : length J = length lead) by (eapply Forall2_len; exact HJ).
    set (blk := block n (rowmajor lead J) (vals a)).
    set (s := vsum R_ops (map (fexp R_ops) blk)).
    exists (map (fun v => fdiv R_ops (fexp R_ops v) s) blk). split.
    + assert (Hb : length blk = n) by (apply Hblk; exact HJ).
      rewrite <- (map_nth_seq blk 0) at 1. rewrite Hb, !map_map.
      apply map_ext_in. intros i Hi. apply in_seq in Hi.
      destruct (Hval J i HJ ltac:(lia)) as (v & Hav & Hcv). fold blk in Hcv. fold s in Hcv.
      rewrite Hcv. f_equal. f_equal. f_equal.
      pose proof (row_get a lead n J i Ed HlenJ ltac:(lia)) as Hr. fold blk in Hr.
      rewrite Hav in Hr. apply nth_error_nth. exact Hr.
    + apply (softmax_row_sum blk). apply Hne. exact HJ.
Qed.

(** positivity for any successful run *)
Corollary softmax_entries_pos : forall (a c : arr R) lead n,
    wf a -> dims a = lead ++ [n] -> a_softmax R_ops a = Some c ->
    forall v, In v (vals c) -> 0 < v.
Proof.
  intros a c lead n Hwa Ed Hc v Hv.
  destruct (softmax_rows_R a lead n Hwa Ed) as (c' & Hc' & _ & _ & Hpos & _).
  assert (c' = c) by congruence. subst c'.
  exact (proj1 (Forall_forall _ _) Hpos v Hv).
Qed.

(** non-vacuity: a concrete 2x2 array *)
Example softmax_2x2 :
  let a := {| dims := [2; 2]%nat; vals := [0; 1; 2; 3] |} in
  exists c v00 v01 v10 v11,
    a_softmax R_ops a = Some c /\
    get c [0; 0]%nat = Some v00 /\ get c [0; 1]%nat = Some v01 /\
    get c [1; 0]%nat = Some v10 /\ get c [1; 1]%nat = Some v11 /\
    0 < v00 /\ 0 < v01 /\ 0 < v10 /\ 0 < v11 /\
    v00 + v01 = 1 /\ v10 + v11 = 1.
Proof.
  intros a.
  assert (Hwa : wf a).
  { split; cbn; [repeat constructor|reflexivity]. }
  destruct (softmax_rows_R a [2%nat] 2%nat Hwa eq_refl) as (c & Hc & Hwc & Hdc & Hpos & Hget & Hrow).
  assert (R0 : in_range [0%nat] [2%nat]) by (constructor; [lia|constructor]).
  assert (R1 : in_range [1%nat] [2%nat]) by (constructor; [lia|constructor]).
  destruct (Hrow _ R0) as (row0 & Hm0 & Hs0). destruct (Hrow _ R1) as (row1 & Hm1 & Hs1).
  cbn [seq map app] in Hm0, Hm1.
  destruct row0 as [|v00 [|v01 [|? ?]]]; try discriminate Hm0.
  destruct row1 as [|v10 [|v11 [|? ?]]]; try discriminate Hm1.
  cbn [map] in Hm0, Hm1. inversion Hm0 as [[E00 E01]]. inversion Hm1 as [[E10 E11]].
  exists c, v00, v01, v10, v11.
  assert (P : forall I v, in_range I (dims c) -> get c I = Some v -> 0 < v).
  { intros I v HI Hv. destruct (Hget I HI) as (w & Hw & Hw0). congruence. }
  assert (Rg : forall i j, (i < 2)%nat -> (j < 2)%nat -> in_range [i; j] (dims c)).
  { intros i j Hi Hj. rewrite Hdc. constructor; [exact Hi|]. constructor; [exact Hj|constructor]. }
  unfold vsum in Hs0, Hs1. cbn in Hs0, Hs1.
  split; [exact Hc|]. repeat split; try (symmetry; assumption); try lra.
  - apply (P [0; 0]%nat); [apply Rg; lia|congruence].
  - apply (P [0; 1]%nat); [apply Rg; lia|congruence].
  - apply (P [1; 0]%nat); [apply Rg; lia|congruence].
  - apply (P [1; 1]%nat); [apply Rg; lia|congruence].
Qed.

(** * Axioms used (all declared by Coq's standard library; none by this development) *)
Print Assumptions R_is_cring.
Print Assumptions R_div_mul_inv.
Print Assumptions R_inv_mul.
Print Assumptions R_pow_two.
Print Assumptions R_pow_nat.
Print Assumptions R_pow_neg_nat.
Print Assumptions R_pow_pos.
Print Assumptions d_fadd.
Print Assumptions d_fsub.
Print Assumptions d_fneg.
Print Assumptions d_fmul.
Print Assumptions d_fdiv.
Print Assumptions d_fexp.
Print Assumptions d_fln.
Print Assumptions d_fpow.
Print Assumptions d_pow_nat.
Print Assumptions d_pow_neg_nat.
Print Assumptions sigmoid_derive.
Print Assumptions sigmoid_dual.
Print Assumptions d_sigmoid.
Print Assumptions relu_derive.
Print Assumptions d_relu.
Print Assumptions relu_not_derivable_at_0.
Print Assumptions softmax_row_sum.
Print Assumptions softmax_rows_R.
Print Assumptions softmax_2x2.
