(** C14, interleaving: what [Model::update] depends on is not changed by anything a program
    may do between [Model::backward] and [Model::update] other than passes, gradient edits
    and updates -- in particular by a (validation) forward pass.

    [harmless i]: the instructions that build leaves, run a forward pass, clone or drop
    handles, or only observe.  Such an instruction keeps the layer parameter handles, the
    nodes they point to (values AND stored gradients), the learning rate, and the invariant
    [armed] that [model_update] needs ([step_harmless], [exec_harmless]).

    Hence the update run after any number of harmless instructions rebinds every parameter
    to exactly the values the update run immediately would have produced
    ([model_update_same_values], [interleaved_update_same_values]): the step is taken along
    the gradients deposited by the LAST BACKWARD, whatever forward passes came after it and
    whatever the model's stored output is by then. *)

From Coq Require Import List Arith Bool Lia PeanoNat.
From Corgi Require Import Lib.OptionMonad Model.Scalar Model.Arr Model.Ops Model.Engine Model.Program
     Proofs.ArrFacts Proofs.EngineBase Proofs.OpsWf Proofs.OptimSpec Proofs.HistoryInv
     Proofs.TrainLoop.
Import ListNotations.

Section TrainInterleave.
  Context {F : Type} (O : ScalarOps F).

  Local Notation state := (@Program.state F).
  Local Notation gnode := (@Program.gnode F).
  Local Notation instr := (@Program.instr F).

  (** * What the update reads *)

  (** [s'] has the same layer parameter handles as [s], pointing to identical nodes (same
      value, same stored gradient), and the same learning rate *)
  Definition same_params (s s' : state) : Prop :=
    st_layers s' = st_layers s /\ st_lr s' = st_lr s /\
    forall h, In h (model_params s) -> h_node s' h = h_node s h.

  Lemma same_params_refl : forall s, same_params s s.
  Proof. intro s. repeat split. Qed.

  Lemma same_params_trans : forall s1 s2 s3,
      same_params s1 s2 -> same_params s2 s3 -> same_params s1 s3.
  Proof.
    intros s1 s2 s3 (A1 & A2 & A3) (B1 & B2 & B3).
    split; [congruence |]. split; [congruence |].
    intros h Hh. rewrite <- (A3 h Hh). apply B3.
    rewrite (model_params_layers s1 s2 A1). exact Hh.
  Qed.

  (** the consequences asked for: handles, values and gradients of the parameters *)
  Lemma same_params_reads : forall s s',
      same_params s s' ->
      model_params s' = model_params s /\
      (forall p, In p (model_params s) -> h_arr s' p = h_arr s p /\ grad_of s' p = grad_of s p).
  Proof.
    intros s s' (H1 & _ & H3). split; [apply model_params_layers; exact H1 |].
    intros p Hp. unfold h_arr, grad_of. rewrite (H3 p Hp). split; reflexivity.
  Qed.

  Lemma same_nodes_armed : forall s s',
      armed s -> good s' -> st_layers s' = st_layers s -> st_lr s' = st_lr s ->
      (forall id, id < length (st_nodes s) -> nth_error (st_nodes s') id = nth_error (st_nodes s) id) ->
      armed s' /\ same_params s s'.
  Proof.
    intros s s' Ha Hg' Hl Hlr Hold. pose proof Ha as ((_ & Hrv) & _).
    assert (Hk : forall h, In h (model_params s) -> h_node s' h = h_node s h).
    { intros h Hh. unfold h_node. apply Hold. apply (model_params_valid s Hrv h Hh). }
    split.
    - apply (armed_transfer s s' Ha Hg' Hl). apply keeps_nodes_skel. exact Hk.
    - split; [exact Hl |]. split; [exact Hlr | exact Hk].
  Qed.

  (** * Harmless instructions *)

  Definition harmless (i : instr) : bool :=
    match i with
    | ILeaf _ _ _ | IZeros _ | IFromFlat _ | IFromArrays _
    | IClone _ | IDrop _
    | IGrad _ | IIndex _ _ | IIndexFlat _ _ | IEq _ _ | IObs _ | ISumAll _ | IParams
    | IForward _ => true
    | _ => false
    end.

  Lemma alloc_leaf_old : forall (s : state) (a : arr F) s1 h,
      alloc s a [] None None = (s1, h) ->
      st_layers s1 = st_layers s /\ st_lr s1 = st_lr s /\
      forall id, id < length (st_nodes s) -> nth_error (st_nodes s1) id = nth_error (st_nodes s) id.
  Proof.
    intros s a s1 h H. unfold alloc in H. injection H as H _. subst s1.
    cbn [with_nodes st_layers st_lr st_nodes]. split; [reflexivity |]. split; [reflexivity |].
    intros id Hid. apply nth_error_app1. exact Hid.
  Qed.

  Theorem step_harmless : forall s0 i s' o,
      armed s0 -> harmless i = true -> step O s0 i = Some (s', o) ->
      armed s' /\ same_params s0 s'.
  Proof.
    intros s0 i s' o Ha Hh H. pose proof Ha as (Hgd & _).
    assert (Hgd' : good s').
    { apply (step_good O s0 i s' o Hgd); [| exact H]. destruct i; try exact I. discriminate Hh. }
    assert (Hcore : st_layers s' = st_layers s0 /\ st_lr s' = st_lr s0 /\
                    forall id, id < length (st_nodes s0) ->
                               nth_error (st_nodes s') id = nth_error (st_nodes s0) id).
    { unfold step in H. cbv zeta in H.
      set (s := with_tag s0 (length (st_pool s0))) in *.
      change (st_layers s0) with (st_layers s). change (st_lr s0) with (st_lr s).
      change (st_nodes s0) with (st_nodes s).
      destruct i; try discriminate Hh.
      - (* ILeaf *)
        apply obind_some in H. destruct H as (a & _ & H).
        destruct (alloc s a [] None None) as [s1 h] eqn:Hal.
        injection H as H _. subst s'. apply (alloc_leaf_old s a s1 h Hal).
      - (* IZeros *)
        apply obind_some in H. destruct H as (a & _ & H).
        destruct (alloc s a [] None None) as [s1 h] eqn:Hal.
        injection H as H _. subst s'. apply (alloc_leaf_old s a s1 h Hal).
      - (* IFromFlat *)
        apply obind_some in H. destruct H as (a & _ & H).
        destruct (alloc s a [] None None) as [s1 h] eqn:Hal.
        injection H as H _. subst s'. apply (alloc_leaf_old s a s1 h Hal).
      - (* IFromArrays *)
        apply obind_some in H. destruct H as (args & _ & H).
        apply obind_some in H. destruct H as (a & _ & H).
        destruct (alloc s a [] None None) as [s1 h] eqn:Hal.
        injection H as H _. subst s'. apply (alloc_leaf_old s a s1 h Hal).
      - (* IClone *)
        apply obind_some in H. destruct H as (x & _ & H). injection H as H _. subst s'.
        repeat split.
      - (* IDrop *)
        apply obind_some in H. destruct H as (x & _ & H).
        apply obind_some in H. destruct H as (s1 & Hs1 & H). injection H as H _. subst s'.
        unfold set_var in Hs1. apply obind_some in Hs1. destruct Hs1 as (p & _ & Hs1).
        injection Hs1 as Hs1. subst s1. repeat split.
      - (* IGrad *)
        apply obind_some in H. destruct H as (x & _ & H). injection H as H _. subst s'.
        repeat split.
      - (* IIndex *)
        apply obind_some in H. destruct H as (x & _ & H).
        apply obind_some in H. destruct H as (a & _ & H).
        apply obind_some in H. destruct H as (vv & _ & H). injection H as H _. subst s'.
        repeat split.
      - (* IIndexFlat *)
        apply obind_some in H. destruct H as (x & _ & H).
        apply obind_some in H. destruct H as (a & _ & H).
        apply obind_some in H. destruct H as (vv & _ & H). injection H as H _. subst s'.
        repeat split.
      - (* IEq *)
        apply obind_some in H. destruct H as (x & _ & H).
        apply obind_some in H. destruct H as (y & _ & H).
        apply obind_some in H. destruct H as (a & _ & H).
        apply obind_some in H. destruct H as (b & _ & H). injection H as H _. subst s'.
        repeat split.
      - (* IObs *)
        apply obind_some in H. destruct H as (x & _ & H).
        apply obind_some in H. destruct H as (a & _ & H). injection H as H _. subst s'.
        repeat split.
      - (* ISumAll *)
        apply obind_some in H. destruct H as (x & _ & H).
        apply obind_some in H. destruct H as (a & _ & H). injection H as H _. subst s'.
        repeat split.
      - (* IForward *)
        apply obind_some in H. destruct H as (x & Hx & H).
        apply obind_some in H. destruct H as ([s1 out] & Hmf & H).
        apply obind_some in H. destruct H as (a & _ & H). injection H as H _. subst s'.
        assert (Has : armed s) by (apply armed_with_tag; exact Ha).
        assert (Hvx : hvalid (st_nodes s) x) by (eapply var_valid; [apply Has | exact Hx]).
        destruct (model_forward_armed O s x s1 out Has Hvx Hmf)
          as (_ & _ & _ & _ & Hlay & _ & Hlr & _ & _ & Hold).
        cbn [push with_pool st_layers st_lr st_nodes]. split; [exact Hlay |]. split; [exact Hlr | exact Hold].
      - (* IParams *)
        injection H as H _. subst s'. repeat split. }
    destruct Hcore as (H1 & H2 & H3). apply (same_nodes_armed s0 s' Ha Hgd' H1 H2 H3).
  Qed.

  Theorem exec_harmless : forall p s s',
      armed s -> forallb harmless p = true -> exec O s p = Some s' ->
      armed s' /\ same_params s s'.
  Proof.
    intro p. induction p as [|i p IH]; intros s s' Ha Hp H.
    - injection H as H. subst s'. split; [exact Ha | apply same_params_refl].
    - cbn [forallb] in Hp. apply andb_true_iff in Hp. destruct Hp as [Hi Hp].
      cbn [exec] in H. apply obind_some in H. destruct H as ([s1 o1] & H1 & H). cbn [fst] in H.
      destruct (step_harmless s i s1 o1 Ha Hi H1) as [Ha1 Hs1].
      destruct (IH s1 s' Ha1 Hp H) as [Ha' Hs'].
      split; [exact Ha' | eapply same_params_trans; eassumption].
  Qed.

  (** * The update after an interleaving *)

  (** the arrays the layer parameters denote *)
  Definition param_arrays (s : state) : list (option (arr F)) := map (h_arr s) (model_params s).

  Lemma updated_param_arr : forall (s u : state) i h nd2,
      updated_param O s u i h nd2 ->
      exists h3, nth_error (model_params u) i = Some h3 /\
                 h_arr u h3 =
                 Some (match n_grad nd2 with
                       | None => pay_arr (n_pay nd2)
                       | Some g => {| dims := p_dims (n_pay nd2);
                                      vals := map2 (fun x gx => fsub O x (fmul O (st_lr s) gx))
                                                   (p_vals (n_pay nd2)) (vals g) |}
                       end).
  Proof.
    intros s u i h nd2 H. unfold updated_param in H. destruct (n_grad nd2) as [g|].
    - destruct H as (h3 & Hi & _ & _ & _ & Hn & _). exists h3. split; [exact Hi |].
      unfold h_arr. rewrite Hn. reflexivity.
    - destruct H as (Hi & Hn). exists h. split; [exact Hi |]. unfold h_arr. rewrite Hn. reflexivity.
  Qed.

  (** [Model::update] from two states with the same parameters, values, gradients and
      learning rate: both succeed and rebind every parameter to the same array *)
  Theorem model_update_same_values : forall s s',
      armed s -> armed s' -> same_params s s' ->
      exists u u', model_update O s = Some u /\ model_update O s' = Some u' /\
                   ready u /\ ready u' /\ param_arrays u' = param_arrays u.
  Proof.
    intros s s' Ha Ha' (Hl & Hlr & Hk).
    destruct (armed_gd_pre s Ha) as [_ Hpre]. destruct (armed_gd_pre s' Ha') as [_ Hpre'].
    destruct (model_update_spec O s Hpre) as (s1 & out & _ & _ & Hu & _).
    destruct (model_update_spec O s' Hpre') as (s1' & out' & _ & _ & Hu' & _).
    eexists. eexists. split; [exact Hu |]. split; [exact Hu' |].
    destruct (model_update_ready O s _ Ha Hu) as (Hr & _ & _ & _ & _ & Hlen & _ & Hupd & _).
    destruct (model_update_ready O s' _ Ha' Hu') as (Hr' & _ & _ & _ & _ & Hlen' & _ & Hupd' & _).
    split; [exact Hr |]. split; [exact Hr' |].
    set (u := with_layers s1 (rebuild_layers (st_layers s) out)) in *.
    set (u' := with_layers s1' (rebuild_layers (st_layers s') out')) in *.
    assert (Hpar : model_params s' = model_params s) by (apply model_params_layers; exact Hl).
    unfold param_arrays. apply nth_error_ext. intro i. rewrite !nth_error_map.
    destruct (nth_error (model_params s) i) as [h|] eqn:Hi.
    - pose proof Ha as (_ & Hp & _).
      destruct (Hp h (nth_error_In _ _ Hi)) as (_ & _ & nd & Hn & _).
      assert (Hi' : nth_error (model_params s') i = Some h) by (rewrite Hpar; exact Hi).
      assert (Hn' : h_node s' h = Some nd) by (rewrite (Hk h (nth_error_In _ _ Hi)); exact Hn).
      destruct (updated_param_arr s u i h nd (Hupd i h nd Hi Hn)) as (h3 & E3 & A3).
      destruct (updated_param_arr s' u' i h nd (Hupd' i h nd Hi' Hn')) as (h3' & E3' & A3').
      rewrite E3, E3'. cbn [option_map]. rewrite A3, A3', Hlr. reflexivity.
    - assert (Hi' : nth_error (model_params s') i = None) by (rewrite Hpar; exact Hi).
      apply nth_error_None in Hi. apply nth_error_None in Hi'.
      assert (E1 : nth_error (model_params u) i = None) by (apply nth_error_None; lia).
      assert (E2 : nth_error (model_params u') i = None) by (apply nth_error_None; lia).
      rewrite E1, E2. reflexivity.
  Qed.

  (** instruction level: after [IModelBackward] (or in any [armed] state), any harmless
      program -- leaf constructions, forward passes, clones and drops, observations -- may be
      run before [IModelUpdate]; the update then succeeds and produces the parameter arrays
      that the immediate update produces *)
  Theorem interleaved_update_same_values : forall p s s',
      armed s -> forallb harmless p = true -> exec O s p = Some s' ->
      exists u o u' o',
        step O s IModelUpdate = Some (u, o) /\ step O s' IModelUpdate = Some (u', o') /\
        ready u /\ ready u' /\ param_arrays u' = param_arrays u.
  Proof.
    intros p s s' Ha Hp H. destruct (exec_harmless p s s' Ha Hp H) as [Ha' Hs].
    set (t := with_tag s (length (st_pool s))). set (t' := with_tag s' (length (st_pool s'))).
    assert (Hat : armed t) by (apply armed_with_tag; exact Ha).
    assert (Hat' : armed t') by (apply armed_with_tag; exact Ha').
    destruct (model_update_same_values t t' Hat Hat' Hs) as (u & u' & Hu & Hu' & Hr & Hr' & He).
    exists (push u None), o_unit, (push u' None), o_unit.
    split; [unfold step; cbv zeta; fold t; rewrite Hu; reflexivity |].
    split; [unfold step; cbv zeta; fold t'; rewrite Hu'; reflexivity |].
    split; [apply ready_push; [exact Hr | intros h0 Hh0; discriminate Hh0] |].
    split; [apply ready_push; [exact Hr' | intros h0 Hh0; discriminate Hh0] |].
    exact He.
  Qed.

  (** in particular a second forward pass between backward and update *)
  Corollary forward_between_backward_and_update : forall s h s1 o1,
      armed s -> step O s (IForward h) = Some (s1, o1) ->
      armed s1 /\ model_params s1 = model_params s /\
      (forall p, In p (model_params s) -> h_arr s1 p = h_arr s p /\ grad_of s1 p = grad_of s p) /\
      exists u o u' o',
        step O s IModelUpdate = Some (u, o) /\ step O s1 IModelUpdate = Some (u', o') /\
        ready u /\ ready u' /\ param_arrays u' = param_arrays u.
  Proof.
    intros s h s1 o1 Ha H1.
    destruct (step_harmless s (IForward h) s1 o1 Ha eq_refl H1) as [Ha1 Hs1].
    destruct (same_params_reads s s1 Hs1) as [Hpar Hreads].
    split; [exact Ha1 |]. split; [exact Hpar |]. split; [exact Hreads |].
    apply (interleaved_update_same_values [IForward h] s s1 Ha eq_refl).
    cbn [exec]. rewrite H1. reflexivity.
  Qed.
End TrainInterleave.

(** * Example over exact integers: a 1x1 dense model

    forward on [x = 2] (output 3*2+1 = 7), backward against [t = 10] (loss 9, gradients
    [dw = -12], [db = -6]), then a second forward on ANOTHER input [x' = 5], then the update
    with [lr = 1]: the parameters are [3 - (-12) = 15] and [1 - (-6) = 7], the step along
    the gradient of the FIRST forward's loss -- the same as without the second forward. *)

From Coq Require Import ZArith.

Module InterleaveExample.
  Open Scope Z_scope.

  Definition net : @instr Z := IModel [LDense 1 1 ANone [3] [1]] CMse 1.

  Definition prefix : list (@instr Z) :=
    [net; ILeaf [1%nat; 1%nat] [2] false; ILeaf [1%nat; 1%nat] [10] false;
     IForward 1; IModelBackward 2].

  Definition between : list (@instr Z) := [ILeaf [1%nat; 1%nat] [5] false; IForward 5].

  Definition params_after (p : list (@instr Z)) : option obs :=
    match exec Z_ops (init_state Z_ops) p with
    | Some s => Some (o_params s)
    | None => None
    end.

  Example validation_forward_does_not_disturb_update :
    params_after (prefix ++ between ++ [IModelUpdate])
    = Some [ (1%nat, [1%nat; 1%nat; 1%nat], [15]); (3%nat, [], []);
             (1%nat, [1%nat; 1%nat], [7]); (3%nat, [], []) ] /\
    params_after (prefix ++ [IModelUpdate]) = params_after (prefix ++ between ++ [IModelUpdate]).
  Proof. vm_compute. split; reflexivity. Qed.

  (** the theorem applies: the state after the prefix is [armed] and [between] is harmless *)

  Lemma exec_cons : forall (s : @state Z) i p,
      exec Z_ops s (i :: p) = (r <- step Z_ops s i ;; exec Z_ops (fst r) p).
  Proof. reflexivity. Qed.

  (** the state after the prefix is [armed] *)
  Lemma prefix_armed : forall s, exec Z_ops (init_state Z_ops) prefix = Some s -> armed s.
  Proof.
    intros s H. unfold prefix in H.
    rewrite exec_cons in H. apply obind_some in H. destruct H as ([s1 o1] & H1 & H). cbn [fst] in H.
    rewrite exec_cons in H. apply obind_some in H. destruct H as ([s2 o2] & H2 & H). cbn [fst] in H.
    rewrite exec_cons in H. apply obind_some in H. destruct H as ([s3 o3] & H3 & H). cbn [fst] in H.
    rewrite exec_cons in H. apply obind_some in H. destruct H as ([s4 o4] & H4 & H). cbn [fst] in H.
    rewrite exec_cons in H. apply obind_some in H. destruct H as ([s5 o5] & H5 & H). cbn [fst] in H.
    injection H as H. subst s.
    pose proof (model_construction_ready Z_ops _ _ _ _ _ _ (good_init Z_ops) H1) as Hr1.
    pose proof (step_leaf_ready Z_ops _ _ _ _ _ _ Hr1 H2) as Hr2.
    pose proof (step_leaf_ready Z_ops _ _ _ _ _ _ Hr2 H3) as Hr3.
    destruct (step_forward_armed Z_ops _ _ _ _ (proj1 Hr3) H4) as [Ha4 _].
    apply (step_backward_armed Z_ops _ _ _ _ Ha4 H5).
  Qed.

  (** the theorem applies: the state after the prefix is [armed] and [between] is harmless *)
  Example interleave_theorem_instance :
    exists s s',
      exec Z_ops (init_state Z_ops) prefix = Some s /\ armed s /\
      forallb harmless between = true /\ exec Z_ops s between = Some s' /\
      exists u o u' o',
        step Z_ops s IModelUpdate = Some (u, o) /\ step Z_ops s' IModelUpdate = Some (u', o') /\
        ready u /\ ready u' /\ param_arrays u' = param_arrays u.
  Proof.
    assert (H : exists s, exec Z_ops (init_state Z_ops) prefix = Some s)
      by (vm_compute; eexists; reflexivity).
    destruct H as (s & H).
    pose proof (prefix_armed s H) as Ha.
    assert (H2 : exists s', exec Z_ops (init_state Z_ops) (prefix ++ between) = Some s')
      by (vm_compute; eexists; reflexivity).
    destruct H2 as (s' & H2).
    assert (H' : exec Z_ops s between = Some s').
    { rewrite exec_app, H in H2. exact H2. }
    exists s, s'. split; [exact H |]. split; [exact Ha |]. split; [reflexivity |].
    split; [exact H' |].
    apply (interleaved_update_same_values Z_ops between s s' Ha eq_refl H').
  Qed.
End InterleaveExample.

Print Assumptions step_harmless.
Print Assumptions exec_harmless.
Print Assumptions model_update_same_values.
Print Assumptions interleaved_update_same_values.
Print Assumptions forward_between_backward_and_update.
Print Assumptions InterleaveExample.validation_forward_does_not_disturb_update.
Print Assumptions InterleaveExample.interleave_theorem_instance.
