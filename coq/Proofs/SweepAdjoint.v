(** (S2) The adjoint identity for the declarative backward pass (property C01:
    reverse mode agrees with forward mode).

    Given a pairing [pair : D -> T -> K] of adjoints with tangents into a commutative
    monoid [K], one tangent [tan n] per node id, and the LOCAL transpose identity of
    every closure ([H_local]), the seed paired with the root's tangent equals the sum,
    over the leaves, of the leaf's adjoint paired with the leaf's tangent. *)

From Coq Require Import List Arith Bool Lia PeanoNat.
From Corgi Require Import Lib.OptionMonad Model.Engine Proofs.EngineDefs Proofs.EngineBase
     Proofs.AdjointSpec Proofs.SweepBase.
Import ListNotations.

(** sum in a monoid *)
Definition ksum {K : Type} (kadd : K -> K -> K) (k0 : K) (l : list K) : K := fold_right kadd k0 l.

(** does node [m] carry a derivative closure? *)
Definition isop {P D : Type} (E : eops P D) (g : store P D) (m : nat) : bool :=
  match nth_error g m with
  | Some nd => hasop E nd
  | None => false
  end.

Section Monoid.
  Variable K : Type.
  Variable k0 : K.
  Variable kadd : K -> K -> K.
  Hypothesis kadd_assoc : forall a b c, kadd a (kadd b c) = kadd (kadd a b) c.
  Hypothesis kadd_comm : forall a b, kadd a b = kadd b a.
  Hypothesis kadd_0_l : forall a, kadd k0 a = a.

  Local Notation ksum := (ksum kadd k0).

  Lemma kadd_0_r : forall a, kadd a k0 = a.
  Proof. intro a. rewrite kadd_comm. apply kadd_0_l. Qed.

  Lemma kadd_swap : forall a b c, kadd (kadd a b) c = kadd (kadd a c) b.
  Proof.
    intros a b c. rewrite <- (kadd_assoc a b c), (kadd_comm b c), kadd_assoc. reflexivity.
  Qed.

  Lemma ksum_nil : ksum [] = k0.
  Proof. reflexivity. Qed.

  Lemma ksum_cons : forall x l, ksum (x :: l) = kadd x (ksum l).
  Proof. reflexivity. Qed.

  Lemma ksum_single : forall x, ksum [x] = x.
  Proof. intro x. simpl. apply kadd_0_r. Qed.

  Lemma ksum_app : forall l1 l2, ksum (l1 ++ l2) = kadd (ksum l1) (ksum l2).
  Proof.
    intros l1 l2. induction l1 as [|x l1 IH].
    - simpl. symmetry. apply kadd_0_l.
    - simpl. rewrite IH. apply kadd_assoc.
  Qed.

  Lemma ksum_all_k0 : forall {A} (f : A -> K) l,
      (forall x, In x l -> f x = k0) -> ksum (map f l) = k0.
  Proof.
    intros A f l. induction l as [|x l IH]; intros H.
    - reflexivity.
    - simpl. rewrite (H x (or_introl eq_refl)), kadd_0_l.
      apply IH. intros y Hy. apply H. right. exact Hy.
  Qed.

  (** changing one summand *)
  Lemma ksum_update : forall (f f' : nat -> K) i x l,
      NoDup l -> In i l -> f' i = kadd (f i) x -> (forall j, j <> i -> f' j = f j) ->
      ksum (map f' l) = kadd (ksum (map f l)) x.
  Proof.
    intros f f' i x l. induction l as [|a l IH]; intros Hnd Hin Hi Ho.
    - destruct Hin.
    - inversion Hnd as [|a' l' Hna Hnd']. subst a' l'.
      simpl. destruct (Nat.eq_dec a i) as [Heq | Hne].
      + subst a. rewrite Hi.
        assert (Hm : map f' l = map f l).
        { apply map_ext_in. intros j Hj. apply Ho. intro Hji. subst j. contradiction. }
        rewrite Hm. apply kadd_swap.
      + destruct Hin as [Hin | Hin]; [contradiction |].
        rewrite (Ho a Hne). rewrite (IH Hnd' Hin Hi Ho). apply kadd_assoc.
  Qed.
End Monoid.

Section AdjointIdentity.
  Context {P D : Type}.
  Variable E : eops P D.
  Variable g : store P D.

  Variable T : Type.                 (* tangents *)
  Variable K : Type.                 (* values of the pairing *)
  Variable k0 : K.
  Variable kadd : K -> K -> K.
  Hypothesis kadd_assoc : forall a b c, kadd a (kadd b c) = kadd (kadd a b) c.
  Hypothesis kadd_comm : forall a b, kadd a b = kadd b a.
  Hypothesis kadd_0_l : forall a, kadd k0 a = a.

  Variable pair : D -> T -> K.
  Variable tan : nat -> T.           (* the forward tangent of every node *)

  Local Notation ksum := (ksum kadd k0).

  (** the pairing is additive in the adjoint *)
  Hypothesis H_pair_add : forall x y z t,
      eo_add E x y = Some z -> pair z t = kadd (pair x t) (pair y t).

  Definition pairc (c : nat * D) : K := pair (snd c) (tan (fst c)).

  (** the local transpose identity of one closure *)
  Hypothesis H_local : forall n nd delta cs,
      nth_error g n = Some nd -> hasop E nd = true -> contribs E g n delta = Some cs ->
      pair delta (tan n) = ksum (map pairc cs).

  (** what slot [m] of a table contributes *)
  Definition val (tab : table) (m : nat) : K :=
    match nth m tab None with
    | Some d => pair d (tan m)
    | None => k0
    end.

  Definition leaf (m : nat) : bool := negb (isop E g m).

  Lemma val_eq : forall tab tab' m, nth m tab' None = nth m tab None -> val tab' m = val tab m.
  Proof. intros tab tab' m H. unfold val. rewrite H. reflexivity. Qed.

  Lemma tab_add_val : forall tab c tab' l,
      tab_add E tab c = Some tab' -> NoDup l -> In (fst c) l ->
      ksum (map (val tab') l) = kadd (ksum (map (val tab) l)) (pairc c).
  Proof.
    intros tab c tab' l H Hnd Hin.
    apply tab_add_inv in H. destruct H as (_ & _ & nw & Hnw & Hj).
    apply (ksum_update K k0 kadd kadd_assoc kadd_comm (val tab) (val tab') (fst c)); try assumption.
    - unfold val at 1. rewrite Hj, Nat.eqb_refl. unfold val, pairc.
      destruct (nth (fst c) tab None) as [x|]; simpl in Hnw.
      + apply H_pair_add. exact Hnw.
      + injection Hnw as Hnw. subst nw. symmetry. apply kadd_0_l.
    - intros j Hne. apply val_eq. rewrite Hj.
      apply Nat.eqb_neq in Hne. rewrite Hne. reflexivity.
  Qed.

  Lemma tab_add_all_val : forall cs tab tab' l,
      tab_add_all E tab cs = Some tab' -> NoDup l -> (forall c, In c cs -> In (fst c) l) ->
      ksum (map (val tab') l) = kadd (ksum (map (val tab) l)) (ksum (map pairc cs)).
  Proof.
    intro cs. induction cs as [|c cs IH]; intros tab tab' l H Hnd Hin.
    - rewrite tab_add_all_nil in H. injection H as H. subst tab'.
      simpl. symmetry. apply (kadd_0_r K k0 kadd kadd_comm kadd_0_l).
    - rewrite tab_add_all_cons in H. apply obind_some in H. destruct H as (t & Ht & H).
      rewrite (IH t tab' l H Hnd) by (intros c0 Hc0; apply Hin; right; exact Hc0).
      rewrite (tab_add_val tab c t l Ht Hnd) by (apply Hin; left; reflexivity).
      simpl. symmetry. apply kadd_assoc.
  Qed.

  (** the invariant of the sweep: what the slots below [n] pair to is moved to the leaves *)
  Lemma sweep_pair : forall n tab tab',
      wfg E g -> sweep E g (rev (seq 0 n)) tab = Some tab' ->
      ksum (map (val tab) (seq 0 n)) = ksum (map (val tab') (filter leaf (seq 0 n))).
  Proof.
    intro n. induction n as [|k IH]; intros tab tab' Hwf H.
    - reflexivity.
    - rewrite (seq_S k 0) in H |- *. change (0 + k) with k in H |- *.
      rewrite rev_app_distr in H. simpl in H.
      rewrite filter_app, !map_app.
      rewrite !(ksum_app K k0 kadd kadd_assoc kadd_0_l).
      assert (Hsame : forall t t', sweep E g (rev (seq 0 k)) t = Some t' ->
                                   nth k t' None = nth k t None).
      { intros t t' Ht. apply (sweep_unchanged E g _ t t' k Hwf Ht).
        intros m Hm. apply in_rev in Hm. apply in_seq in Hm. lia. }
      change (filter leaf [k]) with (if leaf k then [k] else []).
      change (map (val tab) [k]) with [val tab k].
      rewrite (ksum_single K k0 kadd kadd_comm kadd_0_l).
      apply sweep_cons_inv in H.
      destruct H as [[Hd H] | (delta & cs & tab1 & Hd & Hcs & Ht1 & H)].
      + (* slot empty: node [k] is not differentiated *)
        rewrite (IH tab tab' Hwf H).
        assert (Hv : val tab k = k0) by (unfold val; rewrite Hd; reflexivity).
        assert (Hv' : val tab' k = k0) by (rewrite (val_eq tab tab' k (Hsame _ _ H)); exact Hv).
        rewrite Hv. f_equal.
        destruct (leaf k); simpl; [rewrite Hv'; symmetry; apply kadd_0_l | reflexivity].
      + assert (Hv : val tab k = pair delta (tan k)) by (unfold val; rewrite Hd; reflexivity).
        destruct (contribs_inv E g k delta cs Hcs) as (nd & Hnd & Hcase).
        destruct Hcase as [[Hop Hnil] | [Hop _]].
        * (* a leaf: its term stays *)
          subst cs. rewrite tab_add_all_nil in Ht1. injection Ht1 as Ht1. subst tab1.
          rewrite (IH tab tab' Hwf H).
          assert (Hl : leaf k = true) by (unfold leaf, isop; rewrite Hnd, Hop; reflexivity).
          rewrite Hl. simpl.
          rewrite (kadd_0_r K k0 kadd kadd_comm kadd_0_l).
          rewrite (val_eq tab tab' k (Hsame _ _ H)). reflexivity.
        * (* a node with a closure: its term is traded for its contributions *)
          assert (Hl : leaf k = false) by (unfold leaf, isop; rewrite Hnd, Hop; reflexivity).
          rewrite Hl. simpl.
          rewrite (kadd_0_r K k0 kadd kadd_comm kadd_0_l).
          rewrite <- (IH tab1 tab' Hwf H).
          rewrite (tab_add_all_val cs tab tab1 (seq 0 k) Ht1 (seq_NoDup k 0)).
          -- rewrite Hv. rewrite (H_local k nd delta cs Hnd Hop Hcs). reflexivity.
          -- intros c Hc. apply in_seq.
             assert (Hlt : fst c < k) by (eapply contribs_lt; eassumption). lia.
  Qed.

  Theorem adjoint_identity_gen : forall r s tab,
      wfg E g -> adjoints E g r s = Some tab ->
      pair s (tan r) =
      ksum (map (fun m => match nth m tab None with
                          | Some d => pair d (tan m)
                          | None => k0
                          end)
                (filter (fun m => negb (isop E g m)) (seq 0 (S r)))).
  Proof.
    intros r s tab Hwf H. unfold adjoints, down_from in H.
    pose proof (sweep_pair (S r) _ tab Hwf H) as Hp.
    change (pair s (tan r) = ksum (map (val tab) (filter leaf (seq 0 (S r))))).
    rewrite <- Hp. rewrite (seq_S r 0), map_app.
    rewrite (ksum_app K k0 kadd kadd_assoc kadd_0_l).
    rewrite (ksum_all_k0 K k0 kadd kadd_0_l).
    - simpl. rewrite kadd_0_l, (kadd_0_r K k0 kadd kadd_comm kadd_0_l).
      unfold val. rewrite init_table_nth, Nat.eqb_refl. reflexivity.
    - intros m Hm. apply in_seq in Hm. unfold val. rewrite init_table_nth.
      assert (Hne : (m =? r) = false) by (apply Nat.eqb_neq; lia). rewrite Hne. reflexivity.
  Qed.

  (** the statement as requested ([r < length g] is not needed) *)
  Theorem adjoint_identity : forall r s tab,
      wfg E g -> r < length g -> adjoints E g r s = Some tab ->
      pair s (tan r) =
      ksum (map (fun m => match nth m tab None with
                          | Some d => pair d (tan m)
                          | None => k0
                          end)
                (filter (fun m => negb (isop E g m)) (seq 0 (S r)))).
  Proof. intros r s tab Hwf _ H. apply adjoint_identity_gen; assumption. Qed.
End AdjointIdentity.
