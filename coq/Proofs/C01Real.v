(** C01 at the real numbers: no hypothesis on the scalars is left. *)

From Coq Require Import List Arith Bool Reals.
From Corgi Require Import Lib.OptionMonad Lib.Sums Model.Scalar Model.RealScalar Model.Arr
     Model.Elementwise Model.Ops Model.Engine Model.Program
     Proofs.ArrFacts Proofs.AdjointSpec Proofs.FlattenSpec Proofs.DualLift Proofs.RealDerivs
     Proofs.HistoryInv Proofs.FwdCode Proofs.CodeSupport2 Proofs.C01Concrete Proofs.C01Full.
Import ListNotations.

Lemma R_sig_fst : forall x x' : R,
    fst (sigmoid_fn (dual_ops R_ops) (x, x')) = sigmoid_fn R_ops x.
Proof. intros x x'. rewrite sigmoid_dual. reflexivity. Qed.

Lemma R_sig_snd : forall x x' : R,
    snd (sigmoid_fn (dual_ops R_ops) (x, x'))
    = fmul R_ops (fmul R_ops (sigmoid_fn R_ops x) (fsub R_ops (f1 R_ops) (sigmoid_fn R_ops x))) x'.
Proof. intros x x'. rewrite sigmoid_dual. reflexivity. Qed.

Theorem all_code_ok2_R : forall code d, code_ok2 R_ops code d.
Proof.
  exact (all_code_ok2 R_ops R_is_cring R_sig_fst R_sig_snd R_div_mul_inv R_inv_mul R_pow_two).
Qed.

Theorem backward_exact_R :
  forall (g : list (@gnode R)) lt r keep seed s0 ndr g' log,
    store_good g -> value_consistent R_ops g -> pre_ok g -> leaf_tangents_ok g lt ->
    grads_empty g -> r < length g -> nth_error g r = Some ndr ->
    seed_of (Program.E R_ops) g r seed = Some s0 ->
    (forall sd, seed = Some sd -> wf sd /\ dims sd = p_dims (n_pay ndr)) ->
    run_backward (Program.E R_ops) g r keep seed = Some (g', log) ->
    dot R_ops (vals s0) (vals (tan R_ops g lt r)) = leaf_pairing R_ops g g' lt r.
Proof.
  exact (backward_exact_full R_ops R_is_cring R_div_mul_inv R_inv_mul R_pow_two R_sig_fst R_sig_snd).
Qed.

Print Assumptions backward_exact_R.
