(** C02, local part, concluded: the rank-1 forms of matrix multiplication (dot product,
    vector-matrix, matrix-vector) in the uniform formulation [local_identity]. *)

From Coq Require Import List Arith Bool Lia PeanoNat ZArith Ring_theory Ring.
From Corgi Require Import Lib.OptionMonad Lib.IdxDefs Lib.Idx Model.Scalar Model.Arr
     Model.SlicedOp Model.Elementwise Model.Linalg Model.Image Model.Ops Lib.Sums
     Proofs.ArrFacts Proofs.BroadcastDims Proofs.SpecDefs Proofs.SlicedOpSpec Proofs.EwSpec
     Proofs.ReduceSpec Proofs.FlattenSpec Proofs.MatmulSpec Proofs.DualLift
     Proofs.LocalAdjoint Proofs.LocalAdjoint2.
Import ListNotations.

(** * Sanity checks over the integers (before proving) *)

Module Sanity3.
  Import Sanity2.
  Definition mmn ta tb := fwd3 (fun A B (_ : arr (@dual Z)) => a_matmul Zd A ta B tb None).
  Definition z1 : arr Z := zeros1 Z_ops.
  (* absent additive term: third child zeros1, unflagged *)
  Definition chk_absent fwdD code (cs ts : list (arr Z)) d :=
    forallb (fun fl => ok (eval_identity Z_ops fwdD code cs ts fl d))
            [[true;true;false];[true;false;false];[false;true;false];[false;false;false]].

  (* (a) dot product *)
  Example dot_bias : chk 3 (mm false false) (fun _ _ => BMatmul false false)
      [arrZ 3 [3]; arrZ 5 [3]; arrZ 1 [1]] [arrZ 7 [3]; arrZ 2 [3]; arrZ 6 [1]] (arrZ 4 [1]) = true.
  Proof. vm_compute. reflexivity. Qed.
  Example dot_absent : chk_absent (mmn false false) (fun _ _ => BMatmul false false)
      [arrZ 3 [3]; arrZ 5 [3]; z1] [arrZ 7 [3]; arrZ 2 [3]; arrZ 6 [1]] (arrZ 4 [1]) = true.
  Proof. vm_compute. reflexivity. Qed.

  (* (b) vector x matrix: [3] x [3;2], [3] x [2;3]^T, batched, with bias *)
  Example vl_ff : chk 3 (mm false false) (fun _ _ => BMatmul false false)
      [arrZ 3 [3]; arrZ 5 [3;2]; arrZ 1 [2]] [arrZ 7 [3]; arrZ 2 [3;2]; arrZ 6 [2]] (arrZ 4 [1;2]) = true.
  Proof. vm_compute. reflexivity. Qed.
  Example vl_ft : chk 3 (mm false true) (fun _ _ => BMatmul false true)
      [arrZ 3 [3]; arrZ 5 [2;2;3]; arrZ 1 [1;2]] [arrZ 7 [3]; arrZ 2 [2;2;3]; arrZ 6 [1;2]]
      (arrZ 4 [2;1;2]) = true.
  Proof. vm_compute. reflexivity. Qed.
  Example vl_tf : chk 3 (mm true false) (fun _ _ => BMatmul true false)
      [arrZ 3 [3]; arrZ 5 [1;2]; arrZ 1 [1]] [arrZ 7 [3]; arrZ 2 [1;2]; arrZ 6 [1]] (arrZ 4 [3;2]) = true.
  Proof. vm_compute. reflexivity. Qed.
  Example vl_absent : chk_absent (mmn false false) (fun _ _ => BMatmul false false)
      [arrZ 3 [3]; arrZ 5 [2;3;2]; z1] [arrZ 7 [3]; arrZ 2 [2;3;2]; arrZ 6 [1]] (arrZ 4 [2;1;2]) = true.
  Proof. vm_compute. reflexivity. Qed.

  (* (c) matrix x vector: [2;3] x [3] with tb = true (column), tb = false *)
  Example vr_ft : chk 3 (mm false true) (fun _ _ => BMatmul false true)
      [arrZ 3 [2;3]; arrZ 5 [3]; arrZ 1 [1]] [arrZ 7 [2;3]; arrZ 2 [3]; arrZ 6 [1]] (arrZ 4 [2;1]) = true.
  Proof. vm_compute. reflexivity. Qed.
  Example vr_tt : chk 3 (mm true true) (fun _ _ => BMatmul true true)
      [arrZ 3 [2;3;2]; arrZ 5 [3]; arrZ 1 [2;1]] [arrZ 7 [2;3;2]; arrZ 2 [3]; arrZ 6 [2;1]]
      (arrZ 4 [2;2;1]) = true.
  Proof. vm_compute. reflexivity. Qed.
  Example vr_ff : chk 3 (mm false false) (fun _ _ => BMatmul false false)
      [arrZ 3 [2;1]; arrZ 5 [3]; arrZ 1 [3]] [arrZ 7 [2;1]; arrZ 2 [3]; arrZ 6 [3]] (arrZ 4 [2;3]) = true.
  Proof. vm_compute. reflexivity. Qed.
  Example vr_absent : chk_absent (mmn false true) (fun _ _ => BMatmul false true)
      [arrZ 3 [2;2;3]; arrZ 5 [3]; z1] [arrZ 7 [2;2;3]; arrZ 2 [3]; arrZ 6 [1]] (arrZ 4 [2;2;1]) = true.
  Proof. vm_compute. reflexivity. Qed.
End Sanity3.

(** * Flattening to a vector instead of a one-row matrix *)

Section ReshapeRow.
  Context {F : Type} (O : ScalarOps F) (R : is_cring O).
  Local Notation D2 := (dual_ops O).

  Definition as_row (a : arr F) (n : nat) : arr F := {| dims := [1; n]; vals := vals a |}.

  Lemma as_row_tangent : forall (c t : arr F) n,
      wf c -> dims c = [n] -> tangent_for c t -> tangent_for (as_row c n) (as_row t n).
  Proof.
    intros c t n Hwc Ec [Hwt Hdt]. split; [|reflexivity].
    apply wf_reshape_row; [exact Hwt|]. rewrite Hdt. exact Ec.
  Qed.

  Lemma lift_as_row : forall (c t : arr F) n fl,
      {| dims := [1; n]; vals := vals (lift c (mask O fl t)) |}
      = lift (as_row c n) (mask O fl (as_row t n)).
  Proof. intros c t n [|]; reflexivity. Qed.

  Lemma bcast_row_vec : forall (u : arr F) n lead,
      dims u = [n] -> Forall (fun x => 1 <= x) (lead ++ [1; n]) ->
      vals (bcast_to O (as_row u n) (lead ++ [1; n])) = vals (bcast_to O u (lead ++ [1; n])).
  Proof.
    intros u n lead Eu Hp. cbn [bcast_to vals as_row dims]. apply map_ext_in. intros I HI.
    apply (all_indices_in_range _ _ Hp) in HI. rewrite Eu.
    change (lead ++ [1; n]) with (lead ++ [1] ++ [n]) in HI. rewrite app_assoc in HI.
    destruct (in_range_snoc_inv _ _ _ HI) as (I1 & k & -> & HI1 & Hk).
    destruct (in_range_snoc_inv _ _ _ HI1) as (J & i & -> & HJ & Hi).
    f_equal.
    assert (E1 : bclamp [1; n] ((J ++ [i]) ++ [k]) = [0; if n =? 1 then 0 else k]).
    { change [1; n] with (([] ++ [1]) ++ [n]).
      rewrite (bclamp_snoc ([] ++ [1]) n (J ++ [i]) k) by (rewrite !app_length; cbn [length]; lia).
      rewrite (bclamp_snoc [] 1 J i) by (cbn [length]; lia).
      rewrite bclamp_nil. reflexivity. }
    assert (E2 : bclamp [n] ((J ++ [i]) ++ [k]) = [if n =? 1 then 0 else k]).
    { change [n] with ([] ++ [n]).
      rewrite (bclamp_snoc [] n (J ++ [i]) k) by (cbn [length]; lia).
      rewrite bclamp_nil. reflexivity. }
    rewrite E1, E2. cbn [rowmajor prod fold_right]. lia.
  Qed.

  (** a delta of dimensions [lead ++ [1; n]]: flattening it to [[n]] and pairing with a
      vector tangent is flattening it to [[1; n]] and pairing with the tangent as a row *)
  Lemma reshape_row_term : forall (c t d : arr F) n lead fl x,
      wf c -> dims c = [n] -> tangent_for c t -> wf d -> dims d = lead ++ [1; n] ->
      child_term O (as_row c n) (as_row t n) fl (Some d) x ->
      child_term O c t fl (Some d) x.
  Proof.
    intros c t d n lead fl x Hwc Ec Ht Hwd Ed (fd' & Hfd' & Ex).
    pose proof Hwd as [Hpd _]. rewrite Ed in Hpd.
    assert (Hn : 1 <= n).
    { destruct Hwc as [Hp _]. rewrite Ec in Hp. inversion Hp; assumption. }
    assert (Hnd : dims d <> []) by (rewrite Ed; destruct lead; discriminate).
    assert (Hs1 : sub_target [n] (dims d)).
    { rewrite Ed. change (lead ++ [1; n]) with (lead ++ [1] ++ [n]). rewrite app_assoc.
      apply sub_lead_tail. }
    assert (Hs2 : sub_target [1; n] (dims d)) by (rewrite Ed; apply sub_lead_tail).
    assert (Hp1 : Forall (fun x => 1 <= x) [n]) by (constructor; [exact Hn|constructor]).
    assert (Hp2 : Forall (fun x => 1 <= x) [1; n]) by (constructor; [lia|exact Hp1]).
    destruct (flatten_to_spec O R d [n] Hwd Hnd ltac:(discriminate) Hp1 Hs1) as (fd & Hfd & _).
    unfold child_term. rewrite Ec. exists fd. split; [exact Hfd|]. rewrite Ex.
    destruct (mask_tangent_for O fl c t Ht) as [Hwu Hdu].
    destruct (mask_tangent_for O fl _ _ (as_row_tangent c t n Hwc Ec Ht)) as [Hwu' Hdu'].
    rewrite (flatten_to_adjoint O R d fd' _ [1; n] Hwd Hnd ltac:(discriminate) Hp2 Hs2 Hfd' Hwu' Hdu').
    rewrite Ec in Hdu.
    rewrite (flatten_to_adjoint O R d fd _ [n] Hwd Hnd ltac:(discriminate) Hp1 Hs1 Hfd Hwu Hdu).
    f_equal. rewrite Ed.
    replace (mask O fl (as_row t n)) with (as_row (mask O fl t) n) by (destruct fl; reflexivity).
    apply bcast_row_vec; assumption.
  Qed.
End ReshapeRow.

(** * Vector times matrix, matrix times vector *)

Section VecLocal.
  Context {F : Type} (O : ScalarOps F) (R : is_cring O).
  Local Notation D2 := (dual_ops O).

  (** first operand of rank 1 (treated by the model as the row [[1; n]]), second of rank >= 2 *)
  Definition vecl_pre (ta tb : bool) (cs : list (arr F)) : Prop :=
    exists n lb br bc,
      dims (nth 0 cs dummy_arr) = [n] /\
      dims (nth 1 cs dummy_arr) = lb ++ [br; bc] /\
      let dc := dims (nth 2 cs dummy_arr) in
      let ro := mm_rows ta 1 n in
      let co := mm_cols tb br bc in
      dc = [co] \/ dc = [ro; co] \/ dc = [1; co] \/ dc = [1].

  Theorem vecl_local : forall ta tb,
      local_identity O 3 (vecl_pre ta tb)
                     (fwd3 (fun A B C => a_matmul D2 A ta B tb (Some C)))
                     (fun _ _ => BMatmul ta tb).
  Proof.
    intros ta tb cs ts flags delta RD ds Hlen Hpre Hwf Hts Hfwd Hwd Hdd Hrun.
    destruct cs as [|a [|b [|c3 [|? ?]]]]; try discriminate Hlen.
    inversion Hts as [|? t0 ? ts1 Ht0 Hts1]; subst.
    inversion Hts1 as [|? t1 ? ts2 Ht1 Hts2]; subst.
    inversion Hts2 as [|? t2 ? ts3 Ht2 Hts3]; subst. inversion Hts3; subst.
    inversion Hwf as [|? ? Hwa Hwf1]; subst. inversion Hwf1 as [|? ? Hwb Hwf2]; subst.
    inversion Hwf2 as [|? ? Hwc _]; subst.
    destruct Hpre as (n & lb & br & bc & Ea & Eb & Hshape). cbn [nth] in Ea, Eb, Hshape.
    cbv zeta in Hshape.
    set (a' := as_row a n). set (t0r := as_row t0 n).
    assert (Hwa' : wf a') by (apply wf_reshape_row; assumption).
    assert (Ht0r : tangent_for a' t0r) by (apply as_row_tangent; assumption).
    cbn [lift_children fwd3] in Hfwd.
    assert (HwA : wf (lift a (mask O (flag flags 0) t0)))
      by (apply lift_wf; [exact Hwa|apply mask_tangent_for; exact Ht0]).
    assert (HwB : wf (lift b (mask O (flag flags 1) t1)))
      by (apply lift_wf; [exact Hwb|apply mask_tangent_for; exact Ht1]).
    assert (EA : dims (lift a (mask O (flag flags 0) t0)) = [n]) by exact Ea.
    assert (EB : dims (lift b (mask O (flag flags 1) t1)) = lb ++ [br; bc]) by exact Eb.
    pose proof (matmul_vec_l_dims D2 _ ta _ tb _ n lb br bc RD EA EB Hfwd) as HdR.
    rewrite (matmul_vec_l D2 _ ta _ tb _ n lb br bc HwA HwB EA EB), lift_as_row in Hfwd.
    fold a' t0r in Hfwd.
    assert (Edl : dims delta = lb ++ [if ta then n else 1; mm_cols tb br bc]) by congruence.
    (* the closure sees the same matrices *)
    assert (Hd1 : (if tb then a_matmul O delta true a' ta None
                   else a_matmul O a' (negb ta) delta false None)
                  = (if tb then a_matmul O delta true a ta None
                     else a_matmul O a (negb ta) delta false None)).
    { destruct tb; symmetry.
      - apply (matmul_vec_r O delta true a ta None n _ _ _ Hwd Hwa Edl Ea).
      - apply (matmul_vec_l O a (negb ta) delta false None n _ _ _ Hwa Hwd Ea Edl). }
    assert (Hrun' : run_bop O (BMatmul ta tb) [a'; b; c3] flags delta = Some ds).
    { rewrite <- Hrun. cbn [run_bop]. cbv zeta. cbn [a' as_row dims length].
      rewrite Ea, Eb, ltb_snoc2. cbn [length Nat.ltb Nat.leb andb]. fold a'.
      rewrite Hd1. reflexivity. }
    assert (Hpre' : mm_pre ta tb [a'; b; c3]).
    { exists [], 1, n, lb, br, bc. cbn [nth app]. split; [reflexivity|]. split; [exact Eb|exact Hshape]. }
    assert (Hwf' : Forall wf [a'; b; c3])
      by (constructor; [exact Hwa'|constructor; [exact Hwb|constructor; [exact Hwc|constructor]]]).
    assert (Hts' : Forall2 tangent_for [a'; b; c3] [t0r; t1; t2])
      by (constructor; [exact Ht0r|constructor; [exact Ht1|constructor; [exact Ht2|constructor]]]).
    destruct (matmul_local O R ta tb [a'; b; c3] [t0r; t1; t2] flags delta RD ds eq_refl Hpre' Hwf' Hts'
                           Hfwd Hwd Hdd Hrun') as (xs & Hterms & Hdot).
    exists xs. split; [|exact Hdot].
    (* the first child's term *)
    cbn [run_bop] in Hrun'. cbv zeta in Hrun'. cbn [a' as_row dims length Nat.ltb Nat.leb andb] in Hrun'.
    apply obind_some in Hrun'. destruct Hrun' as (od0 & H0 & Hrun').
    apply obind_some in Hrun'. destruct Hrun' as (od1 & H1 & Hrun'). inversion Hrun'; subst ds. clear Hrun'.
    destruct xs as [|x0 [|x1 [|x2 [|? ?]]]]; cbn [child_terms] in Hterms |- *; try contradiction;
      try (destruct Hterms as (_ & _ & []); fail); try (destruct Hterms as (_ & []); fail);
      try (destruct Hterms as (_ & _ & _ & []); fail).
    destruct Hterms as (T0 & T1 & T2 & _). split; [|split; [exact T1|split; [exact T2|exact I]]].
    destruct od0 as [d0|]; [|exact T0].
    apply when_some in H0. destruct H0 as [(_ & r & Hr & Er)|(_ & Er)]; [|discriminate Er].
    inversion Er; subst r. clear Er.
    assert (Ea' : dims a' = [] ++ [1; n]) by reflexivity.
    assert (Hinner : mm_inner_a ta 1 n = mm_inner_b tb br bc).
    { destruct (Nat.eq_dec (mm_inner_a ta 1 n) (mm_inner_b tb br bc)) as [E|Hne]; [exact E|].
      rewrite (matmul_refuses D2 (lift a' (mask O (flag flags 0) t0r)) ta _ tb _ [] 1 n lb br bc
                              eq_refl EB (or_introl Hne)) in Hfwd.
      discriminate. }
    assert (Ed : dims delta = bmax [] lb ++ [mm_rows ta 1 n; mm_cols tb br bc]).
    { rewrite bmax_nil_l, Edl. destruct ta; reflexivity. }
    destruct (deliver_a O R a' b delta [] lb 1 n br bc Hwa' Hwb Hwd Ea' Eb I ta tb d0 Hinner Ed Hr)
      as (Hwd0 & Hdd0 & _).
    exact (reshape_row_term O R a t0 d0 n _ _ x0 Hwa Ea Ht0 Hwd0 Hdd0 T0).
  Qed.

  (** second operand of rank 1 (treated by the model as the row [[1; n]]), first of rank >= 2 *)
  Definition vecr_pre (ta tb : bool) (cs : list (arr F)) : Prop :=
    exists n la ar ac,
      dims (nth 0 cs dummy_arr) = la ++ [ar; ac] /\
      dims (nth 1 cs dummy_arr) = [n] /\
      let dc := dims (nth 2 cs dummy_arr) in
      let ro := mm_rows ta ar ac in
      let co := mm_cols tb 1 n in
      dc = [co] \/ dc = [ro; co] \/ dc = [1; co] \/ dc = [1].

  Theorem vecr_local : forall ta tb,
      local_identity O 3 (vecr_pre ta tb)
                     (fwd3 (fun A B C => a_matmul D2 A ta B tb (Some C)))
                     (fun _ _ => BMatmul ta tb).
  Proof.
    intros ta tb cs ts flags delta RD ds Hlen Hpre Hwf Hts Hfwd Hwd Hdd Hrun.
    destruct cs as [|a [|b [|c3 [|? ?]]]]; try discriminate Hlen.
    inversion Hts as [|? t0 ? ts1 Ht0 Hts1]; subst.
    inversion Hts1 as [|? t1 ? ts2 Ht1 Hts2]; subst.
    inversion Hts2 as [|? t2 ? ts3 Ht2 Hts3]; subst. inversion Hts3; subst.
    inversion Hwf as [|? ? Hwa Hwf1]; subst. inversion Hwf1 as [|? ? Hwb Hwf2]; subst.
    inversion Hwf2 as [|? ? Hwc _]; subst.
    destruct Hpre as (n & la & ar & ac & Ea & Eb & Hshape). cbn [nth] in Ea, Eb, Hshape.
    cbv zeta in Hshape.
    set (b' := as_row b n). set (t1r := as_row t1 n).
    assert (Hwb' : wf b') by (apply wf_reshape_row; assumption).
    assert (Ht1r : tangent_for b' t1r) by (apply as_row_tangent; assumption).
    cbn [lift_children fwd3] in Hfwd.
    assert (HwA : wf (lift a (mask O (flag flags 0) t0)))
      by (apply lift_wf; [exact Hwa|apply mask_tangent_for; exact Ht0]).
    assert (HwB : wf (lift b (mask O (flag flags 1) t1)))
      by (apply lift_wf; [exact Hwb|apply mask_tangent_for; exact Ht1]).
    assert (EA : dims (lift a (mask O (flag flags 0) t0)) = la ++ [ar; ac]) by exact Ea.
    assert (EB : dims (lift b (mask O (flag flags 1) t1)) = [n]) by exact Eb.
    pose proof (matmul_vec_r_dims D2 _ ta _ tb _ n la ar ac RD EA EB Hfwd) as HdR.
    rewrite (matmul_vec_r D2 _ ta _ tb _ n la ar ac HwA HwB EA EB), lift_as_row in Hfwd.
    fold b' t1r in Hfwd.
    assert (Edl : dims delta = la ++ [mm_rows ta ar ac; if tb then 1 else n]) by congruence.
    assert (Hd0 : (if ta then a_matmul O b' tb delta true None
                   else a_matmul O delta false b' (negb tb) None)
                  = (if ta then a_matmul O b tb delta true None
                     else a_matmul O delta false b (negb tb) None)).
    { destruct ta; symmetry.
      - apply (matmul_vec_l O b tb delta true None n _ _ _ Hwb Hwd Eb Edl).
      - apply (matmul_vec_r O delta false b (negb tb) None n _ _ _ Hwd Hwb Edl Eb). }
    assert (Hrun' : run_bop O (BMatmul ta tb) [a; b'; c3] flags delta = Some ds).
    { rewrite <- Hrun. cbn [run_bop]. cbv zeta. cbn [b' as_row dims].
      rewrite Ea, ltb_snoc2. cbn [andb]. fold b'. rewrite Hd0. reflexivity. }
    assert (Hpre' : mm_pre ta tb [a; b'; c3]).
    { exists la, ar, ac, [], 1, n. cbn [nth app]. split; [exact Ea|]. split; [reflexivity|exact Hshape]. }
    assert (Hwf' : Forall wf [a; b'; c3])
      by (constructor; [exact Hwa|constructor; [exact Hwb'|constructor; [exact Hwc|constructor]]]).
    assert (Hts' : Forall2 tangent_for [a; b'; c3] [t0; t1r; t2])
      by (constructor; [exact Ht0|constructor; [exact Ht1r|constructor; [exact Ht2|constructor]]]).
    destruct (matmul_local O R ta tb [a; b'; c3] [t0; t1r; t2] flags delta RD ds eq_refl Hpre' Hwf' Hts'
                           Hfwd Hwd Hdd Hrun') as (xs & Hterms & Hdot).
    exists xs. split; [|exact Hdot].
    cbn [run_bop] in Hrun'. cbv zeta in Hrun'. rewrite Ea, ltb_snoc2 in Hrun'. cbn [andb] in Hrun'.
    apply obind_some in Hrun'. destruct Hrun' as (od0 & H0 & Hrun').
    apply obind_some in Hrun'. destruct Hrun' as (od1 & H1 & Hrun'). inversion Hrun'; subst ds. clear Hrun'.
    destruct xs as [|x0 [|x1 [|x2 [|? ?]]]]; cbn [child_terms] in Hterms |- *; try contradiction;
      try (destruct Hterms as (_ & _ & []); fail); try (destruct Hterms as (_ & []); fail);
      try (destruct Hterms as (_ & _ & _ & []); fail).
    destruct Hterms as (T0 & T1 & T2 & _). split; [exact T0|split; [|split; [exact T2|exact I]]].
    destruct od1 as [d1|]; [|exact T1].
    apply when_some in H1. destruct H1 as [(_ & r & Hr & Er)|(_ & Er)]; [|discriminate Er].
    inversion Er; subst r. clear Er.
    assert (Eb' : dims b' = [] ++ [1; n]) by reflexivity.
    assert (Hcomp : bcompat la []) by (apply bcompat_sym; exact I).
    assert (Hinner : mm_inner_a ta ar ac = mm_inner_b tb 1 n).
    { destruct (Nat.eq_dec (mm_inner_a ta ar ac) (mm_inner_b tb 1 n)) as [E|Hne]; [exact E|].
      rewrite (matmul_refuses D2 _ ta (lift b' (mask O (flag flags 1) t1r)) tb _ la ar ac [] 1 n
                              EA eq_refl (or_introl Hne)) in Hfwd.
      discriminate. }
    assert (Ed : dims delta = bmax la [] ++ [mm_rows ta ar ac; mm_cols tb 1 n]).
    { rewrite bmax_nil_r, Edl. destruct tb; reflexivity. }
    destruct (deliver_b O R a b' delta la [] ar ac 1 n Hwa Hwb' Hwd Ea Eb' Hcomp ta tb d1 Hinner Ed Hr)
      as (Hwd1 & Hdd1 & _).
    exact (reshape_row_term O R b t1 d1 n _ _ x1 Hwb Eb Ht1 Hwd1 Hdd1 T1).
  Qed.
End VecLocal.

(** * The dot product with an additive term *)

Section DotBias.
  Context {G : Type} (O' : ScalarOps G).

  Theorem matmul_dot_bias : forall (a b c : arr G) n,
      wf a -> wf b -> wf c -> dims a = [n] -> dims b = [n] -> dims c = [1] ->
      a_matmul O' a false b false (Some c)
      = Some {| dims := [1];
                vals := [fadd O' (nth 0 (vals c) (f0 O'))
                              (vsum O' (map (fun k => fmul O' (nth k (vals a) (f0 O'))
                                                           (nth k (vals b) (f0 O')))
                                            (seq 0 n)))] |}.
  Proof.
    intros a b c n Hwa Hwb Hwc Ea Eb Ec.
    assert (Hla : length (vals a) = 1 * n)
      by (destruct Hwa as [_ H]; rewrite Ea in H; cbn [prod fold_right] in H; lia).
    assert (Hlb : length (vals b) = n * 1)
      by (destruct Hwb as [_ H]; rewrite Eb in H; cbn [prod fold_right] in H; lia).
    assert (Hlc : length (vals c) = 1)
      by (destruct Hwc as [_ H]; rewrite Ec in H; cbn [prod fold_right] in H; lia).
    unfold a_matmul. rewrite Ea, Eb, matmul_dims_dot, Nat.eqb_refl.
    cbn [guard obind ms_in ms_out ms_rows ms_cols ms_sum].
    unfold bias_ok. rewrite Hlc. cbn [Nat.eqb guard obind].
    unfold sliced_op.
    assert (Hv : forallb (sliced_valid 2 [n]) [a; b; c] = true).
    { cbn [forallb]. rewrite !sliced_valid_low; [reflexivity|rewrite Ec; cbn; lia|rewrite Eb; cbn; lia|rewrite Ea; cbn; lia]. }
    rewrite Hv. cbn [guard obind length Nat.sub Nat.eqb mapM].
    rewrite (slice_all (vals a)) by (apply (group_length_vec a n Hwa Ea)).
    rewrite (slice_all (vals b)) by (apply (group_length_vec b n Hwb Eb)).
    rewrite (slice_all (vals c)) by (apply (group_length_vec c 1 Hwc Ec)).
    cbn [obind skipn prod fold_right Nat.mul Nat.add firstn repeat slice Nat.leb length].
    assert (Hnc : vals c <> []) by (intros E; rewrite E in Hlc; discriminate).
    destruct (matmul_sop_spec O' true 1 1 n false false (vals a) (vals b) (vals c) Hla Hlb Hnc)
      as (new & Hnew & Hlen & Hval).
    cbn [Nat.mul Nat.add repeat] in Hnew. rewrite Hnew. cbn [obind].
    specialize (Hval 0 0 ltac:(lia) ltac:(lia)). cbn [Nat.mul Nat.add] in Hval, Hlen.
    destruct new as [|x [|y new]]; cbn [length] in Hlen; try lia.
    cbn [nth_error] in Hval. inversion Hval as [Hx]. clear Hval.
    cbn [length Nat.eqb guard obind splice firstn skipn Nat.add app].
    unfold mk. cbn [dims_valid forallb Nat.leb andb guard obind prod fold_right Nat.mul Nat.add length
                               Nat.eqb].
    f_equal. f_equal. f_equal. unfold mm_value, bias_entry. rewrite Hlc, Nat.mod_1_r. f_equal. f_equal.
    apply map_ext. intros k. unfold a_off, b_off. f_equal; f_equal; lia.
  Qed.
End DotBias.

(** * The dot product *)

Section DotLocal.
  Context {F : Type} (O : ScalarOps F) (R : is_cring O).
  Local Notation D2 := (dual_ops O).

  Let Rth : ring_theory (f0 O) (f1 O) (fadd O) (fmul O) (fsub O) (fneg O) (@eq F) := R.
  Add Ring la3_ring_dot : Rth.

  Local Notation "l '@' j" := (nth j l (f0 O)) (at level 9, j at level 9).

  (** two vectors of equal length, additive term of dimensions [[1]] *)
  Definition dot_pre (cs : list (arr F)) : Prop :=
    exists n, dims (nth 0 cs dummy_arr) = [n] /\ dims (nth 1 cs dummy_arr) = [n] /\
              dims (nth 2 cs dummy_arr) = [1].

  Lemma bpos_unit : forall D j, bpos D [1] j = 0.
  Proof.
    intros D j. unfold bpos. rewrite bclamp_eq. cbn [length].
    destruct (lastn 1 (unrank D j)) as [|x l]; [reflexivity|].
    cbn [combine map rowmajor]. destruct l; cbn; lia.
  Qed.

  Lemma wf_vec_length : forall (a : arr F) n, wf a -> dims a = [n] -> length (vals a) = n /\ 1 <= n.
  Proof.
    intros a n [Hp Hl] E. rewrite E in Hp, Hl. cbn [prod fold_right] in Hl.
    inversion Hp; subst. split; lia.
  Qed.

  (** [c * delta] for a vector [c] and the one-element [delta] *)
  Lemma mul_vec_unit : forall (c other delta r : arr F) n fl od,
      wf c -> wf other -> wf delta -> dims c = [n] -> dims other = [n] -> dims delta = [1] ->
      when fl (a_mul O c delta) = Some od ->
      deliv_same O other fl od (fun j => fmul O ((vals c) @ j) ((vals delta) @ 0)).
  Proof.
    intros c other delta r n fl od Hwc Hwo Hwd Ec Eo Ed H.
    apply when_some in H. destruct H as [(_ & r' & Hr & ->)|(Hf & ->)]; [|exact Hf].
    assert (Hsub : sub_lead (dims delta) (dims c)).
    { rewrite Ed, Ec. split; [cbn; lia|]. cbn [length]. unfold lastn. cbn [length Nat.sub skipn].
      constructor; [left; reflexivity|constructor]. }
    destruct (ew_right_below O (fmul O) delta c r' Hwd Hwc Hsub Hr) as (Hwr & Hdr & Hv).
    cbn [deliv_same]. split; [exact Hwr|]. split; [congruence|].
    intros j Hj. destruct (wf_vec_length other n Hwo Eo) as [Hlo _].
    rewrite Hv by (rewrite Ec; cbn [prod fold_right]; lia).
    rewrite Ed, bpos_unit. reflexivity.
  Qed.

  Theorem dot_local :
    local_identity O 3 dot_pre
                   (fwd3 (fun A B C => a_matmul D2 A false B false (Some C)))
                   (fun _ _ => BMatmul false false).
  Proof.
    intros cs ts flags delta RD ds Hlen Hpre Hwf Hts Hfwd Hwd Hdd Hrun.
    destruct cs as [|a [|b [|c3 [|? ?]]]]; try discriminate Hlen.
    inversion Hts as [|? t0 ? ts1 Ht0 Hts1]; subst.
    inversion Hts1 as [|? t1 ? ts2 Ht1 Hts2]; subst.
    inversion Hts2 as [|? t2 ? ts3 Ht2 Hts3]; subst. inversion Hts3; subst.
    inversion Hwf as [|? ? Hwa Hwf1]; subst. inversion Hwf1 as [|? ? Hwb Hwf2]; subst.
    inversion Hwf2 as [|? ? Hwc _]; subst.
    destruct Hpre as (n & Ea & Eb & Ec). cbn [nth] in Ea, Eb, Ec.
    cbn [lift_children fwd3] in Hfwd.
    set (ta' := mask O (flag flags 0) t0) in *. set (tb' := mask O (flag flags 1) t1) in *.
    set (tc' := mask O (flag flags 2) t2) in *.
    assert (Hta' : tangent_for a ta') by (apply mask_tangent_for; exact Ht0).
    assert (Htb' : tangent_for b tb') by (apply mask_tangent_for; exact Ht1).
    assert (Htc' : tangent_for c3 tc') by (apply mask_tangent_for; exact Ht2).
    destruct (wf_vec_length a n Hwa Ea) as [Hla Hn].
    destruct (wf_vec_length b n Hwb Eb) as [Hlb _].
    destruct (wf_vec_length c3 1 Hwc Ec) as [Hlc _].
    rewrite (matmul_dot_bias D2 _ _ _ n (lift_wf a ta' Hwa Hta') (lift_wf b tb' Hwb Htb')
                             (lift_wf c3 tc' Hwc Htc') Ea Eb Ec) in Hfwd.
    inversion Hfwd; subst RD. clear Hfwd. cbn [dims] in Hdd.
    destruct (wf_vec_length delta 1 Hwd Hdd) as [Hld _].
    (* the closure: the [is_dot] branch *)
    cbn [run_bop] in Hrun. cbv zeta in Hrun. rewrite Ea, Eb in Hrun.
    cbn [length Nat.ltb Nat.leb andb negb] in Hrun.
    apply obind_some in Hrun. destruct Hrun as (od0 & H0 & Hrun).
    apply obind_some in Hrun. destruct Hrun as (od1 & H1 & Hrun). inversion Hrun; subst ds. clear Hrun.
    pose proof (mul_vec_unit b a delta delta n _ od0 Hwb Hwa Hwd Eb Ea Hdd H0) as Hd0.
    pose proof (mul_vec_unit a b delta delta n _ od1 Hwa Hwb Hwd Ea Eb Hdd H1) as Hd1.
    assert (Hd2 : deliv_same O c3 (flag flags 2) (if flag flags 2 then Some delta else None)
                             (fun j => (vals delta) @ j)).
    { destruct (flag flags 2); cbn [deliv_same]; [|reflexivity].
      split; [exact Hwd|]. split; [congruence|]. reflexivity. }
    destruct (deliv_same_term O R a t0 _ od0 _ Hwa Ht0 Hd0) as (x0 & Hx0 & Ex0).
    destruct (deliv_same_term O R b t1 _ od1 _ Hwb Ht1 Hd1) as (x1 & Hx1 & Ex1).
    destruct (deliv_same_term O R c3 t2 _ _ _ Hwc Ht2 Hd2) as (x2 & Hx2 & Ex2).
    fold ta' in Ex0. fold tb' in Ex1. fold tc' in Ex2.
    exists [x0; x1; x2]. split; [cbn [child_terms]; auto|].
    rewrite (dot_tangent O _ _ 1 Hld) by reflexivity.
    rewrite Ex0, Ex1, Ex2, Hla, Hlb, Hlc. cbn [seq map vals nth].
    rewrite !(vsum_cons O R), (vsum_nil O). cbn [dual_ops fadd snd].
    rewrite vsum_dual. cbn [snd]. rewrite map_map.
    rewrite (map_ext_in _ (fun k => fadd O (fmul O ((vals a) @ k) ((vals tb') @ k))
                                         (fmul O ((vals ta') @ k) ((vals b) @ k)))).
    2:{ intros k Hk. apply in_seq in Hk.
        unfold dual. rewrite !combine_nth by (symmetry; apply tangent_for_length; assumption).
        reflexivity. }
    unfold dual. rewrite (combine_nth (vals c3) (vals tc') 0)
      by (symmetry; apply tangent_for_length; assumption). cbn [snd].
    set (d0 := (vals delta) @ 0).
    rewrite (cr_distr_r O R), <- (vsum_map_scale_l O R).
    rewrite (vsum_map_ext O _ (fun k => fadd O (fmul O (fmul O ((vals b) @ k) d0) ((vals ta') @ k))
                                              (fmul O (fmul O ((vals a) @ k) d0) ((vals tb') @ k))))
      by (intros k _; ring).
    rewrite (vsum_map_add O R). ring.
  Qed.
End DotLocal.

(** * Absent additive term (third child: the untracked [zeros1]) *)

Section Absent.
  Context {F : Type} (O : ScalarOps F) (R : is_cring O).
  Local Notation D2 := (dual_ops O).

  (** the statement of the identity for the forward run without additive term *)
  Definition local_identity_absent (ta tb : bool) (pre : list (arr F) -> Prop) : Prop :=
    forall (cs ts : list (arr F)) flags (delta : arr F) (RD : arr (@dual F)) ds,
      length cs = 3 -> pre cs -> nth 2 cs dummy_arr = zeros1 O -> flag flags 2 = false ->
      Forall wf cs -> Forall2 tangent_for cs ts ->
      fwd3 (fun A B _ => a_matmul D2 A ta B tb None) (lift_children O 0 flags cs ts) = Some RD ->
      wf delta -> dims delta = dims RD ->
      run_bop O (BMatmul ta tb) cs flags delta = Some ds ->
      exists xs, child_terms O 0 flags cs ts ds xs /\
                 dot O (vals delta) (vals (tangent RD)) = vsum O xs.

  Lemma absent_of_bias : forall ta tb pre,
      local_identity O 3 pre (fwd3 (fun A B C => a_matmul D2 A ta B tb (Some C)))
                     (fun _ _ => BMatmul ta tb) ->
      (forall (a b c3 t0 t1 : arr F),
          wf a -> wf b -> tangent_for a t0 -> tangent_for b t1 -> pre [a; b; c3] ->
          a_matmul D2 (lift a t0) ta (lift b t1) tb None
          = a_matmul D2 (lift a t0) ta (lift b t1) tb (Some (zeros1 D2))) ->
      local_identity_absent ta tb pre.
  Proof.
    intros ta tb pre Hloc Heq cs ts flags delta RD ds Hlen Hpre Hz Hfl Hwf Hts Hfwd Hwd Hdd Hrun.
    apply (Hloc cs ts flags delta RD ds Hlen Hpre Hwf Hts); try assumption.
    destruct cs as [|a [|b [|c3 [|? ?]]]]; try discriminate Hlen.
    inversion Hts as [|? t0 ? ts1 Ht0 Hts1]; subst.
    inversion Hts1 as [|? t1 ? ts2 Ht1 Hts2]; subst.
    inversion Hts2 as [|? t2 ? ts3 Ht2 Hts3]; subst. inversion Hts3; subst.
    inversion Hwf as [|? ? Hwa Hwf1]; subst. inversion Hwf1 as [|? ? Hwb _]; subst.
    cbn [nth] in Hz. subst c3.
    cbn [lift_children fwd3] in Hfwd |- *. rewrite Hfl, (lift_zeros1 O t2 Ht2).
    rewrite <- Hfwd. symmetry.
    apply (Heq a b (zeros1 O)); try assumption; apply mask_tangent_for; assumption.
  Qed.

  Lemma getd_vec : forall (a : arr F) n k, dims a = [n] -> getd O a [k] = nth k (vals a) (f0 O).
  Proof.
    intros a n k E. unfold getd. rewrite E. cbn [rowmajor prod fold_right]. f_equal. lia.
  Qed.
End Absent.

Section AbsentEqs.
  Context {G : Type} (O' : ScalarOps G).

  Lemma dot_none_zeros1 : forall (a b : arr G) n,
      wf a -> wf b -> dims a = [n] -> dims b = [n] ->
      a_matmul O' a false b false None = a_matmul O' a false b false (Some (zeros1 O')).
  Proof.
    intros a b n Hwa Hwb Ea Eb.
    rewrite (proj1 (matmul_dot O' a b n Hwa Hwb Ea Eb)).
    rewrite (matmul_dot_bias O' a b (zeros1 O') n Hwa Hwb (wf_zeros1 O') Ea Eb eq_refl).
    f_equal. f_equal. f_equal. cbn [zeros1 vals nth]. f_equal. f_equal.
    apply map_ext. intros k. unfold MatmulSpec.getd. rewrite Ea, Eb.
    cbn [rowmajor prod fold_right]. f_equal; f_equal; lia.
  Qed.

  Lemma vecl_none_zeros1 : forall (a : arr G) ta (b : arr G) tb n lb br bc,
      wf a -> wf b -> dims a = [n] -> dims b = lb ++ [br; bc] ->
      a_matmul O' a ta b tb None = a_matmul O' a ta b tb (Some (zeros1 O')).
  Proof.
    intros a ta b tb n lb br bc Hwa Hwb Ea Eb.
    rewrite !(matmul_vec_l O' a ta b tb _ n lb br bc Hwa Hwb Ea Eb).
    apply (matmul_none_zeros1 O' _ ta b tb [] 1 n lb br bc);
      [apply wf_reshape_row; assumption|exact Hwb|reflexivity|exact Eb].
  Qed.

  Lemma vecr_none_zeros1 : forall (a : arr G) ta (b : arr G) tb n la ar ac,
      wf a -> wf b -> dims a = la ++ [ar; ac] -> dims b = [n] ->
      a_matmul O' a ta b tb None = a_matmul O' a ta b tb (Some (zeros1 O')).
  Proof.
    intros a ta b tb n la ar ac Hwa Hwb Ea Eb.
    rewrite !(matmul_vec_r O' a ta b tb _ n la ar ac Hwa Hwb Ea Eb).
    apply (matmul_none_zeros1 O' a ta _ tb la ar ac [] 1 n);
      [exact Hwa|apply wf_reshape_row; assumption|exact Ea|reflexivity].
  Qed.
End AbsentEqs.

Section AbsentLocal.
  Context {F : Type} (O : ScalarOps F) (R : is_cring O).
  Local Notation D2 := (dual_ops O).

  Theorem dot_local_absent : local_identity_absent O false false dot_pre.
  Proof.
    apply (absent_of_bias O false false dot_pre (dot_local O R)).
    intros a b c3 t0 t1 Hwa Hwb Ht0 Ht1 (n & Ea & Eb & _). cbn [nth] in Ea, Eb.
    apply (dot_none_zeros1 D2 _ _ n); [apply lift_wf; assumption|apply lift_wf; assumption|exact Ea|exact Eb].
  Qed.

  Theorem vecl_local_absent : forall ta tb, local_identity_absent O ta tb (vecl_pre ta tb).
  Proof.
    intros ta tb. apply (absent_of_bias O ta tb _ (vecl_local O R ta tb)).
    intros a b c3 t0 t1 Hwa Hwb Ht0 Ht1 (n & lb & br & bc & Ea & Eb & _). cbn [nth] in Ea, Eb.
    apply (vecl_none_zeros1 D2 _ ta _ tb n lb br bc);
      [apply lift_wf; assumption|apply lift_wf; assumption|exact Ea|exact Eb].
  Qed.

  Theorem vecr_local_absent : forall ta tb, local_identity_absent O ta tb (vecr_pre ta tb).
  Proof.
    intros ta tb. apply (absent_of_bias O ta tb _ (vecr_local O R ta tb)).
    intros a b c3 t0 t1 Hwa Hwb Ht0 Ht1 (n & la & ar & ac & Ea & Eb & _). cbn [nth] in Ea, Eb.
    apply (vecr_none_zeros1 D2 _ ta _ tb n la ar ac);
      [apply lift_wf; assumption|apply lift_wf; assumption|exact Ea|exact Eb].
  Qed.

  (** the rank >= 2 case of Proofs/LocalAdjoint2.v, in the same form *)
  Theorem matmul_local_absent' : forall ta tb, local_identity_absent O ta tb (mm_pre ta tb).
  Proof.
    intros ta tb cs ts flags delta RD ds. apply (matmul_local_absent O R ta tb).
  Qed.
End AbsentLocal.

Print Assumptions dot_local.
Print Assumptions dot_local_absent.
Print Assumptions vecl_local.
Print Assumptions vecl_local_absent.
Print Assumptions vecr_local.
Print Assumptions vecr_local_absent.
