(** Support for every built-in closure INCLUDING the rank-1 forms of matmul: the side
    condition of [BMatmul] is the disjunction of the rank >= 2 form ([mm_pre]), the dot
    product of two untransposed vectors ([dot_pre]), vector x matrix ([vecl_pre]) and
    matrix x vector ([vecr_pre]). *)

From Coq Require Import List Arith Bool Lia PeanoNat.
From Corgi Require Import Lib.OptionMonad Lib.IdxDefs Lib.Idx Lib.Sums Model.Scalar Model.Arr
     Model.SlicedOp Model.Elementwise Model.Linalg Model.Image Model.Ops
     Proofs.ArrFacts Proofs.BroadcastDims Proofs.SpecDefs Proofs.SlicedOpSpec Proofs.EwSpec
     Proofs.ReduceSpec Proofs.FlattenSpec Proofs.MatmulSpec
     Proofs.DualLift Proofs.LocalAdjoint Proofs.LocalAdjoint2 Proofs.LocalAdjoint3 Proofs.OpsWf
     Proofs.FwdCode Proofs.CodeSupport Proofs.CodeSupport2 Proofs.C01Gen.
Import ListNotations.

Section CodeSupport3.
  Context {F : Type} (O : ScalarOps F).
  Local Notation D2 := (dual_ops O).

  Definition mm_any (ta tb : bool) (cs : list (arr F)) : Prop :=
    mm_pre ta tb cs \/ (ta = false /\ tb = false /\ dot_pre cs) \/
    vecl_pre ta tb cs \/ vecr_pre ta tb cs.

  Definition code_pre3 (code : bop_code F) (d : list nat) (cs : list (arr F)) : Prop :=
    match code with
    | BMatmul ta tb => mm_any ta tb cs
    | _ => code_pre2 code d cs
    end.

  Lemma code_pre2_pre3 : forall code d cs, code_pre2 code d cs -> code_pre3 code d cs.
  Proof. intros code d cs H. destruct code; try exact H. left. exact H. Qed.

  (** * A matmul without additive term is the matmul with [zeros1] *)

  Theorem nobias_strict3 : nobias_strict_gen O code_pre3.
  Proof.
    intros code d cs v Hwf Hpre Hnb.
    destruct code; try contradiction.
    destruct cs as [|a [|b [|c [|? ?]]]]; try contradiction.
    cbn [matmul_nobias] in Hnb. destruct Hnb as [Hc Hv]. subst c.
    inversion Hwf as [|? ? Hwa Hwf1]; subst. inversion Hwf1 as [|? ? Hwb _]; subst.
    cbn [fwd_of_code]. rewrite <- Hv. symmetry.
    cbn [code_pre3] in Hpre. destruct Hpre as [Hmm | [(-> & -> & Hd) | [Hvl | Hvr]]].
    - destruct Hmm as (la & ar & ac & lb & br & bc & Ea & Eb & _). cbn [nth] in Ea, Eb.
      apply (matmul_none_zeros1 O a ta b tb la ar ac lb br bc); assumption.
    - destruct Hd as (n & Ea & Eb & _). cbn [nth] in Ea, Eb.
      apply (dot_none_zeros1 O a b n); assumption.
    - destruct Hvl as (n & lb & br & bc & Ea & Eb & _). cbn [nth] in Ea, Eb.
      apply (vecl_none_zeros1 O a ta b tb n lb br bc); assumption.
    - destruct Hvr as (n & la & ar & ac & Ea & Eb & _). cbn [nth] in Ea, Eb.
      apply (vecr_none_zeros1 O a ta b tb n la ar ac); assumption.
  Qed.

  Section Ring.
    Hypothesis R : is_cring O.

    (** * Local identities *)

    Lemma matmul_supported3 : forall ta tb d, code_supported_gen O code_pre3 (BMatmul ta tb) d.
    Proof.
      intros ta tb d cs ts flags delta RD ds Hlen Hwf Hts Hpre Hfwd Hfit Hwd Hdd Hrun.
      cbn [arity] in Hlen. cbn [code_pre3] in Hpre.
      destruct Hpre as [Hmm | [(-> & -> & Hd) | [Hvl | Hvr]]].
      - exact (matmul_local O R ta tb cs ts flags delta RD ds Hlen Hmm Hwf Hts Hfwd Hwd Hdd Hrun).
      - exact (dot_local O R cs ts flags delta RD ds Hlen Hd Hwf Hts Hfwd Hwd Hdd Hrun).
      - exact (vecl_local O R ta tb cs ts flags delta RD ds Hlen Hvl Hwf Hts Hfwd Hwd Hdd Hrun).
      - exact (vecr_local O R ta tb cs ts flags delta RD ds Hlen Hvr Hwf Hts Hfwd Hwd Hdd Hrun).
    Qed.

    (** * Liftability of the rank-1 forms *)

    Lemma mask_vals_row : forall fl (t : arr F) n, vals (mask O fl (as_row t n)) = vals (mask O fl t).
    Proof. intros [|] t n; reflexivity. Qed.

    Lemma vecl_liftable : forall ta tb (a b c t0 t1 t2 v : arr F) flags,
        wf a -> wf b -> wf c -> tangent_for a t0 -> tangent_for b t1 -> tangent_for c t2 ->
        vecl_pre ta tb [a; b; c] ->
        a_matmul O a ta b tb (Some c) = Some v ->
        exists RD,
          a_matmul D2 (lift a (mask O (flag flags 0) t0)) ta (lift b (mask O (flag flags 1) t1)) tb
                   (Some (lift c (mask O (flag flags 2) t2))) = Some RD /\ primal RD = v.
    Proof.
      intros ta tb a b c t0 t1 t2 v flags Hwa Hwb Hwc Ht0 Ht1 Ht2 Hpre Hv.
      destruct Hpre as (n & lb & br & bc & Ea & Eb & Hshape). cbn [nth] in Ea, Eb, Hshape.
      rewrite (matmul_vec_l O a ta b tb _ n lb br bc Hwa Hwb Ea Eb) in Hv.
      destruct (proj2 (matmul_ok2 O R ta tb []) [as_row a n; b; c] [as_row t0 n; t1; t2] flags v)
        as (RD & HRD & Hprim).
      - reflexivity.
      - constructor; [apply wf_reshape_row; assumption |].
        constructor; [assumption |]. constructor; [assumption | constructor].
      - constructor; [apply as_row_tangent; assumption |].
        constructor; [assumption |]. constructor; [assumption | constructor].
      - cbn [code_pre2]. exists [], 1, n, lb, br, bc. cbn [nth].
        split; [reflexivity |]. split; [exact Eb | exact Hshape].
      - exact Hv.
      - exists RD. split; [| exact Hprim].
        cbn [fwd_of_code lift_children] in HRD.
        assert (HwA : wf (lift a (mask O (flag flags 0) t0)))
          by (apply lift_wf; [exact Hwa | apply mask_tangent_for; exact Ht0]).
        assert (HwB : wf (lift b (mask O (flag flags 1) t1)))
          by (apply lift_wf; [exact Hwb | apply mask_tangent_for; exact Ht1]).
        rewrite (matmul_vec_l D2 _ ta _ tb _ n lb br bc HwA HwB Ea Eb).
        rewrite (lift_as_row O a t0 n (flag flags 0)). exact HRD.
    Qed.

    Lemma vecr_liftable : forall ta tb (a b c t0 t1 t2 v : arr F) flags,
        wf a -> wf b -> wf c -> tangent_for a t0 -> tangent_for b t1 -> tangent_for c t2 ->
        vecr_pre ta tb [a; b; c] ->
        a_matmul O a ta b tb (Some c) = Some v ->
        exists RD,
          a_matmul D2 (lift a (mask O (flag flags 0) t0)) ta (lift b (mask O (flag flags 1) t1)) tb
                   (Some (lift c (mask O (flag flags 2) t2))) = Some RD /\ primal RD = v.
    Proof.
      intros ta tb a b c t0 t1 t2 v flags Hwa Hwb Hwc Ht0 Ht1 Ht2 Hpre Hv.
      destruct Hpre as (n & la & ar & ac & Ea & Eb & Hshape). cbn [nth] in Ea, Eb, Hshape.
      rewrite (matmul_vec_r O a ta b tb _ n la ar ac Hwa Hwb Ea Eb) in Hv.
      destruct (proj2 (matmul_ok2 O R ta tb []) [a; as_row b n; c] [t0; as_row t1 n; t2] flags v)
        as (RD & HRD & Hprim).
      - reflexivity.
      - constructor; [assumption |]. constructor; [apply wf_reshape_row; assumption |].
        constructor; [assumption | constructor].
      - constructor; [assumption |]. constructor; [apply as_row_tangent; assumption |].
        constructor; [assumption | constructor].
      - cbn [code_pre2]. exists la, ar, ac, [], 1, n. cbn [nth].
        split; [exact Ea |]. split; [reflexivity | exact Hshape].
      - exact Hv.
      - exists RD. split; [| exact Hprim].
        cbn [fwd_of_code lift_children] in HRD.
        assert (HwA : wf (lift a (mask O (flag flags 0) t0)))
          by (apply lift_wf; [exact Hwa | apply mask_tangent_for; exact Ht0]).
        assert (HwB : wf (lift b (mask O (flag flags 1) t1)))
          by (apply lift_wf; [exact Hwb | apply mask_tangent_for; exact Ht1]).
        rewrite (matmul_vec_r D2 _ ta _ tb _ n la ar ac HwA HwB Ea Eb).
        rewrite (lift_as_row O b t1 n (flag flags 1)). exact HRD.
    Qed.

    Lemma dot_liftable : forall (a b c t0 t1 t2 v : arr F) flags,
        wf a -> wf b -> wf c -> tangent_for a t0 -> tangent_for b t1 -> tangent_for c t2 ->
        dot_pre [a; b; c] ->
        a_matmul O a false b false (Some c) = Some v ->
        exists RD,
          a_matmul D2 (lift a (mask O (flag flags 0) t0)) false (lift b (mask O (flag flags 1) t1)) false
                   (Some (lift c (mask O (flag flags 2) t2))) = Some RD /\ primal RD = v.
    Proof.
      intros a b c t0 t1 t2 v flags Hwa Hwb Hwc Ht0 Ht1 Ht2 Hpre Hv.
      destruct Hpre as (n & Ea & Eb & Ec). cbn [nth] in Ea, Eb, Ec.
      set (t0' := mask O (flag flags 0) t0) in *. set (t1' := mask O (flag flags 1) t1) in *.
      set (t2' := mask O (flag flags 2) t2) in *.
      assert (Ht0' : tangent_for a t0') by (apply mask_tangent_for; exact Ht0).
      assert (Ht1' : tangent_for b t1') by (apply mask_tangent_for; exact Ht1).
      assert (Ht2' : tangent_for c t2') by (apply mask_tangent_for; exact Ht2).
      rewrite (matmul_dot_bias O a b c n Hwa Hwb Hwc Ea Eb Ec) in Hv. injection Hv as Hv. subst v.
      rewrite (matmul_dot_bias D2 (lift a t0') (lift b t1') (lift c t2') n
                               (lift_wf a t0' Hwa Ht0') (lift_wf b t1' Hwb Ht1')
                               (lift_wf c t2' Hwc Ht2') Ea Eb Ec).
      eexists. split; [reflexivity |].
      unfold primal. cbn [dims vals map]. f_equal. f_equal.
      rewrite (lift_nth O c t2' 0 (tangent_for_length c t2' Hwc Ht2')).
      assert (Hfa : forall X Y : F * F, fst (fadd D2 X Y) = fadd O (fst X) (fst Y)) by reflexivity.
      rewrite Hfa. cbn [fst]. f_equal.
      match goal with |- fst (vsum _ ?l) = _ => pose proof (vsum_dual O l) as Hvd end.
      first [rewrite Hvd | unfold dual in Hvd; rewrite Hvd].
      cbn [fst]. rewrite map_map. f_equal. apply map_ext. intro k.
      pose proof (lift_nth O a t0' k (tangent_for_length a t0' Hwa Ht0')) as E1.
      pose proof (lift_nth O b t1' k (tangent_for_length b t1' Hwb Ht1')) as E2.
      first [rewrite E1, E2 | unfold dual in *; rewrite E1, E2]. reflexivity.
    Qed.

    Lemma matmul_liftable3 : forall ta tb d, code_liftable_gen O code_pre3 (BMatmul ta tb) d.
    Proof.
      intros ta tb d cs ts flags v Hlen Hwf Hts Hpre Hv. cbn [arity] in Hlen.
      cbn [code_pre3] in Hpre. destruct Hpre as [Hmm | Hrest].
      - exact (proj2 (matmul_ok2 O R ta tb d) cs ts flags v Hlen Hwf Hts Hmm Hv).
      - destruct cs as [|a [|b [|c [|? ?]]]]; try discriminate Hlen.
        inversion Hts as [|? t0 ? ts1 Ht0 Hts1]; subst.
        inversion Hts1 as [|? t1 ? ts2 Ht1 Hts2]; subst.
        inversion Hts2 as [|? t2 ? ts3 Ht2 Hts3]; subst. inversion Hts3; subst.
        inversion Hwf as [|? ? Hwa Hwf1]; subst. inversion Hwf1 as [|? ? Hwb Hwf2]; subst.
        inversion Hwf2 as [|? ? Hwc _]; subst.
        cbn [fwd_of_code lift_children] in *.
        destruct Hrest as [(-> & -> & Hd) | [Hvl | Hvr]].
        + apply dot_liftable; assumption.
        + apply vecl_liftable; assumption.
        + apply vecr_liftable; assumption.
    Qed.

    (** * Every closure *)

    Section Scalars.
      Hypothesis Hsig_fst : forall x x', fst (sigmoid_fn D2 (x, x')) = sigmoid_fn O x.
      Hypothesis Hsig : forall x x',
          snd (sigmoid_fn D2 (x, x'))
          = fmul O (fmul O (sigmoid_fn O x) (fsub O (f1 O) (sigmoid_fn O x))) x'.
      Hypothesis Hdiv : forall a b, fdiv O a b = fmul O a (fdiv O (f1 O) b).
      Hypothesis Hinv_mul : forall a b,
          fdiv O (f1 O) (fmul O a b) = fmul O (fdiv O (f1 O) a) (fdiv O (f1 O) b).
      Hypothesis Hpow2 : forall x, fpow O x (two O) = fmul O x x.

      Theorem all_supported3 : forall code d, code_supported_gen O code_pre3 code d.
      Proof.
        intros code d.
        destruct code as [ | | | |s| |e| |cached|k target| |ta tb|depth rows cols sr sc fr fc
                          |fcount stride| |cached|cu];
          try exact (proj1 (all_code_ok2 O R Hsig_fst Hsig Hdiv Hinv_mul Hpow2 _ d)).
        apply matmul_supported3.
      Qed.

      Theorem all_liftable3 : forall code d, code_liftable_gen O code_pre3 code d.
      Proof.
        intros code d.
        destruct code as [ | | | |s| |e| |cached|k target| |ta tb|depth rows cols sr sc fr fc
                          |fcount stride| |cached|cu];
          try exact (proj2 (all_code_ok2 O R Hsig_fst Hsig Hdiv Hinv_mul Hpow2 _ d)).
        apply matmul_liftable3.
      Qed.
    End Scalars.
  End Ring.
End CodeSupport3.

Print Assumptions nobias_strict3.
Print Assumptions all_supported3.
Print Assumptions all_liftable3.
