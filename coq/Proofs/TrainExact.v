(** C14, end to end: one training iteration (forward on a batch, one backward against a
    target, one update) changes the parameters by [lr] times the EXACT gradient of this
    iteration's summed cost, whatever the store contains from earlier iterations.

    In pairing form, for EVERY direction [tau] in parameter space:

      sum over the parameters p of <theta_p - theta'_p, tau_p>
        = lr * <ones, forward (dual-number) tangent of the cost node along tau>

    i.e. theta' = theta - lr * grad(sum of the cost array). *)

From Coq Require Import List Arith Bool Lia PeanoNat Ring_theory Ring.
From Corgi Require Import Lib.OptionMonad Lib.Sums Model.Scalar Model.Arr Model.SlicedOp
     Model.Elementwise Model.Linalg Model.Ops Model.Engine Model.Program
     Proofs.ArrFacts Proofs.EngineDefs Proofs.EngineBase Proofs.Propagate Proofs.AdjointSpec
     Proofs.SweepBase Proofs.EngineValue Proofs.OptimSpec
     Proofs.FlattenSpec Proofs.DualLift Proofs.LocalAdjoint Proofs.OpsWf
     Proofs.HistoryInv Proofs.ValueConcrete Proofs.FwdCode Proofs.CodeSupport2
     Proofs.HistoryVC Proofs.C01Concrete Proofs.C01Gen Proofs.CodeSupport3 Proofs.HistoryPre3
     Proofs.C01Reach Proofs.TrainLoop.
Import ListNotations.

Section TrainExact.
  Context {F : Type} (O : ScalarOps F) (R : is_cring O).

  Local Notation pay := (@pay F).
  Local Notation gnode := (@gnode F).
  Local Notation state := (@state F).
  Local Notation E := (Program.E O).
  Local Notation E' := (ValueConcrete.E' O).
  Local Notation D2 := (dual_ops O).

  Let Rth : ring_theory (f0 O) (f1 O) (fadd O) (fmul O) (fsub O) (fneg O) (@eq F) := R.
  Add Ring train_exact_ring : Rth.

  (** * Sums *)

  Lemma dot_nil_r : forall x : list F, dot O x [] = f0 O.
  Proof. intro x. unfold dot. rewrite combine_nil. reflexivity. Qed.

  (** one SGD step, paired with a direction *)
  Lemma dot_step : forall (lr : F) (x g t : list F),
      length g = length x ->
      dot O (zipw (fsub O) x (map2 (fun a b => fsub O a (fmul O lr b)) x g)) t
      = fmul O lr (dot O g t).
  Proof.
    intros lr x. induction x as [|a x IH]; intros g t Hl.
    - destruct g; [| discriminate Hl]. cbn [map2 zipw combine map]. rewrite !(dot_nil_l O). ring.
    - destruct g as [|b g]; [discriminate Hl |]. destruct t as [|c t].
      + rewrite !dot_nil_r. ring.
      + cbn [map2]. change (zipw (fsub O) (a :: x) (fsub O a (fmul O lr b) :: map2 (fun a0 b0 => fsub O a0 (fmul O lr b0)) x g))
          with (fsub O a (fsub O a (fmul O lr b)) :: zipw (fsub O) x (map2 (fun a0 b0 => fsub O a0 (fmul O lr b0)) x g)).
        rewrite !(dot_cons O R), IH by (simpl in Hl; lia). ring.
  Qed.

  Lemma dot_sub_self : forall (x t : list F), dot O (zipw (fsub O) x x) t = f0 O.
  Proof.
    intro x. induction x as [|a x IH]; intro t.
    - apply (dot_nil_l O).
    - destruct t as [|c t]; [apply dot_nil_r |].
      change (zipw (fsub O) (a :: x) (a :: x)) with (fsub O a a :: zipw (fsub O) x x).
      rewrite (dot_cons O R), IH. ring.
  Qed.

  Lemma vsum_map_nth : forall {A} (f : A -> F) (l : list A),
      vsum O (map f l)
      = vsum O (map (fun i => match nth_error l i with Some x => f x | None => f0 O end)
                    (seq 0 (length l))).
  Proof.
    intros A f l. induction l as [|a l IH]; [reflexivity |].
    cbn [length map seq]. rewrite <- seq_shift. cbn [map nth_error]. rewrite map_map.
    rewrite !(vsum_cons O R), IH. reflexivity.
  Qed.

  (** two duplicate-free index lists on whose difference the summand vanishes *)
  Lemma vsum_support : forall (f : nat -> F) (P L : list nat),
      NoDup L -> NoDup P ->
      (forall m, In m L -> ~ In m P -> f m = f0 O) ->
      (forall m, In m P -> ~ In m L -> f m = f0 O) ->
      vsum O (map f L) = vsum O (map f P).
  Proof.
    intros f P. induction P as [|a P IH]; intros L HL HP H1 H2.
    - apply (vsum_zeros O R). intros y Hy. apply in_map_iff in Hy. destruct Hy as (m & <- & Hm).
      apply H1; [exact Hm | intros []].
    - inversion HP as [|? ? Ha HP']; subst. cbn [map]. rewrite (vsum_cons O R).
      destruct (in_dec Nat.eq_dec a L) as [Hin | Hnin].
      + destruct (in_split a L Hin) as (L1 & L2 & ->).
        rewrite map_app, (vsum_app O R). cbn [map]. rewrite (vsum_cons O R).
        rewrite <- (IH (L1 ++ L2)).
        * rewrite map_app, (vsum_app O R). ring.
        * apply NoDup_remove_1 in HL. exact HL.
        * exact HP'.
        * intros m Hm Hnm. apply H1.
          -- apply in_app_or in Hm. apply in_or_app. destruct Hm; [left | right; right]; assumption.
          -- intros [Heq | Hp]; [| contradiction]. subst m.
             apply NoDup_remove_2 in HL. contradiction.
        * intros m Hm Hnm. apply H2; [right; exact Hm |].
          intro Hm'. apply Hnm. apply in_app_or in Hm'. apply in_or_app.
          destruct Hm' as [Hm' | [Heq | Hm']]; [left; exact Hm' | | right; exact Hm'].
          subst m. contradiction.
      + rewrite (H2 a (or_introl eq_refl) Hnin), (cr_add_0_l O R).
        apply IH; try assumption.
        * intros m Hm Hnm. apply H1; [exact Hm |]. intros [Heq | Hp]; [subst m | ]; contradiction.
        * intros m Hm Hnm. apply H2; [right; exact Hm | exact Hnm].
  Qed.

  (** * Directions in parameter space *)

  Definition param_ids (s : state) : list nat := map e_node (model_params s).

  Definition is_param (s : state) (m : nat) : bool := existsb (Nat.eqb m) (param_ids s).

  Lemma is_param_spec : forall s m, is_param s m = true <-> In m (param_ids s).
  Proof.
    intros s m. unfold is_param. rewrite existsb_exists. split.
    - intros (x & Hx & Heq). apply Nat.eqb_eq in Heq. subst x. exact Hx.
    - intro H. exists m. split; [exact H | apply Nat.eqb_refl].
  Qed.

  (** a direction: one tangent per parameter node, of the parameter's shape *)
  Definition tau_ok (s : state) (tau : nat -> arr F) : Prop :=
    forall h nd, In h (model_params s) -> h_node s h = Some nd ->
                 tangent_for (pay_arr (n_pay nd)) (tau (e_node h)).

  (** ... extended by zero to every other leaf of the store [g] *)
  Definition lt_params (s : state) (g : list gnode) (tau : nat -> arr F) (m : nat) : arr F :=
    if is_param s m then tau m else zeros_like O (nval g m).

  (** <theta_i - theta'_i, tau_i> for the [i]-th parameter of the model *)
  Definition param_step_term (s s3 : state) (tau : nat -> arr F) (i : nat) : F :=
    match nth_error (model_params s) i, nth_error (model_params s3) i with
    | Some h, Some h3 =>
      dot O (zipw (fsub O) (vals (nval (st_nodes s) (e_node h)))
                           (vals (nval (st_nodes s3) (e_node h3))))
            (vals (tau (e_node h)))
    | _, _ => f0 O
    end.

  Definition param_step_pairing (s s3 : state) (tau : nat -> arr F) : F :=
    vsum O (map (param_step_term s s3 tau) (seq 0 (length (model_params s)))).

  Section Scalars.
    Hypothesis Hdiv : forall a b, fdiv O a b = fmul O a (fdiv O (f1 O) b).
    Hypothesis Hinv_mul : forall a b,
        fdiv O (f1 O) (fmul O a b) = fmul O (fdiv O (f1 O) a) (fdiv O (f1 O) b).
    Hypothesis Hpow2 : forall x, fpow O x (two O) = fmul O x x.
    Hypothesis Hsig_fst : forall x x', fst (sigmoid_fn D2 (x, x')) = sigmoid_fn O x.
    Hypothesis Hsig : forall x x',
        snd (sigmoid_fn D2 (x, x'))
        = fmul O (fmul O (sigmoid_fn O x) (fsub O (f1 O) (sigmoid_fn O x))) x'.

    Theorem train_step_exact : forall (s : state) x s1 out t s2 loss s3 tau,
        ready s -> good_all O s ->
        hvalid (st_nodes s) x -> layers_ok_all O s (st_layers s) x ->
        model_forward O s x = Some (s1, out) ->
        hvalid (st_nodes s1) t ->
        model_backward O s1 t = Some (s2, loss) ->
        model_update O s2 = Some s3 ->
        tau_ok s tau ->
        exists sc err ndr,
          cost_apply O s1 (st_cost s) out t = Some (sc, err) /\
          nth_error (st_nodes sc) (e_node err) = Some ndr /\
          loss = a_sum_all O (pay_arr (n_pay ndr)) /\
          param_step_pairing s s3 tau
          = fmul O (st_lr s)
                 (dot O (vals (eo_ones E (n_pay ndr)))
                      (vals (tan O (st_nodes sc) (lt_params s (st_nodes sc) tau) (e_node err)))) /\
          ready s3.
    Proof.
      intros s x s1 out t s2 loss s3 tau Hready Hgall Hx Hlok Hf Ht Hb Hu Htau.
      destruct (train_iteration O R s x s1 out t s2 loss s3 Hready Hx Hf Ht Hb Hu)
        as (sc & err & ndr & g' & log & tab & Hout & Hcost & Hndr & Hloss & Hgc & Hsame & Hrun
            & Hs2 & Htab & Hlenp & Hparams & Hlr & Hr3).
      exists sc, err, ndr. split; [exact Hcost |]. split; [exact Hndr |]. split; [exact Hloss |].
      split; [| exact Hr3].
      pose proof Hready as ((Hgd & Hpl & Hnd) & Hempty).
      pose proof Hgd as [Hg Hrv].
      destruct Hgall as [[_ Hvc] Hpre].
      (* the invariants of the store of the cost node *)
      assert (Hinv : value_consistent O (st_nodes sc) /\ pre_ok_all (st_nodes sc)).
      { unfold model_forward in Hf.
        apply obind_some in Hf. destruct Hf as ([s1' out2] & Hfold & Hf).
        injection Hf as H1 H2. subst s1 out2.
        pose proof (fold_layers_post O (st_layers s) s x s1' out Hg Hx
                                     (fun l Hl => rvalid_layers s l Hrv Hl) Hfold) as (Hx1 & Hg1 & Ho1).
        pose proof (fold_layers_vc O (st_layers s) s x s1' out Hg Hvc Hx
                                   (fun l Hl => rvalid_layers s l Hrv Hl) Hfold) as Hvc1.
        pose proof (HistoryPre3.fold_layers_pre O (st_layers s) s x s1' out Hg Hpre Hx
                                                (fun l Hl => rvalid_layers s l Hrv Hl) Hlok Hfold)
          as Hpre1.
        cbn [fst snd] in *.
        split.
        - exact (cost_apply_vc O (with_output s1' (Some out)) (st_cost s) out t (sc, err)
                               Hg1 Hvc1 Ho1 Ht Hcost).
        - exact (HistoryPre3.cost_apply_pre O (with_output s1' (Some out)) (st_cost s) out t (sc, err)
                                            Hg1 Hpre1 Ho1 Ht Hcost). }
      destruct Hinv as [Hvcc Hprec].
      set (g := st_nodes sc) in *. set (lt := lt_params s g tau).
      set (r := e_node err) in *.
      (* parameters are leaves of [g], with the node they have in [s] *)
      assert (Hpnode : forall h, In h (model_params s) ->
                                 exists nd, h_node s h = Some nd /\ nth_error g (e_node h) = Some nd /\
                                            p_bop (n_pay nd) = None /\ n_grad nd = None).
      { intros h Hh. destruct (Hpl h Hh) as (_ & _ & nd & Hn & _ & Hbn).
        exists nd. split; [exact Hn |]. split; [| split; [exact Hbn |]].
        - pose proof (Hsame h Hh) as Hs. unfold h_node in Hs. fold g in Hs. rewrite Hs. exact Hn.
        - specialize (Hempty h Hh). unfold grad_of in Hempty. rewrite Hn in Hempty. exact Hempty. }
      assert (Hlt : leaf_tangents_ok g lt).
      { intros l nd Hndl Hbn. unfold lt, lt_params. destruct (is_param s l) eqn:Hip.
        - apply is_param_spec in Hip. unfold param_ids in Hip. apply in_map_iff in Hip.
          destruct Hip as (h & Hhl & Hh). subst l.
          destruct (Hpnode h Hh) as (nd0 & Hn0 & Hg0 & _).
          assert (nd0 = nd) by (unfold Program.gnode in *; congruence). subst nd0.
          apply (Htau h nd Hh Hn0).
        - rewrite (nval_nth g l nd Hndl).
          destruct (Hgc l nd Hndl) as (_ & _ & _ & _ & Hw & _).
          split; [apply zeros_like_wf; exact Hw | reflexivity]. }
      assert (Hr : r < length g) by (eapply nth_lt; exact Hndr).
      assert (Hseed : seed_of E g r None = Some (eo_ones E (n_pay ndr))).
      { unfold seed_of. pose proof Hndr as Hn'. unfold Program.gnode in Hn'. fold g r in Hn'.
        rewrite Hn'. reflexivity. }
      destruct (backward_table_all O R Hdiv Hinv_mul Hpow2 Hsig_fst Hsig g lt r (e_keep err) None
                                   (eo_ones E (n_pay ndr)) ndr g' log Hgc Hvcc Hprec Hlt Hr Hndr Hseed)
        as (tab' & Htab' & Hlen & Hid & _ & _ & _).
      { intros sd Hsd. discriminate Hsd. }
      { exact Hrun. }
      assert (tab' = tab) by congruence. subst tab'.
      rewrite Hid.
      (* the table beyond the root is empty *)
      destruct (adjoints_shape E' g r _ tab (store_good_wfg O g Hgc) Hr Htab) as (_ & _ & Hbeyond).
      (* reindex the leaf sum by the parameters *)
      rewrite (vsum_support (tab_term O tab lt) (param_ids s) (filter (is_leaf g) (seq 0 (S r)))).
      2:{ apply NoDup_filter. apply seq_NoDup. }
      2:{ exact Hnd. }
      2:{ intros m Hm Hnp. unfold tab_term. destruct (nth m tab None) as [d|]; [| reflexivity].
          unfold lt, lt_params.
          assert (Hip : is_param s m = false).
          { destruct (is_param s m) eqn:Hip; [| reflexivity]. apply is_param_spec in Hip. contradiction. }
          rewrite Hip. apply (dot_zeros_like O R). }
      2:{ intros m Hm Hnl. unfold tab_term.
          destruct (le_lt_dec m r) as [Hle | Hgt]; [| rewrite (Hbeyond m Hgt); reflexivity].
          exfalso. apply Hnl. apply filter_In. split; [apply in_seq; lia |].
          unfold param_ids in Hm. apply in_map_iff in Hm. destruct Hm as (h & Hhm & Hh). subst m.
          destruct (Hpnode h Hh) as (nd & _ & Hgn & Hbn & _).
          unfold is_leaf. unfold Program.gnode in *. rewrite Hgn, Hbn. reflexivity. }
      unfold param_ids. rewrite map_map, vsum_map_nth.
      rewrite <- (vsum_map_scale_l O R). unfold param_step_pairing.
      apply (vsum_map_ext O). intros i Hi. apply in_seq in Hi.
      unfold param_step_term.
      destruct (nth_error (model_params s) i) as [h|] eqn:Hhi;
        [| apply nth_error_None in Hhi; nlia].
      assert (Hh : In h (model_params s)) by (eapply nth_error_In; exact Hhi).
      destruct (Hpnode h Hh) as (nd & Hn & Hgn & Hbn & _).
      destruct (Hparams i h nd Hhi Hn) as (nd2 & Hn2 & Hpay2 & Hslot & Hupd).
      unfold tab_term. unfold lt at 1, lt_params.
      pose proof Hhi as Hhi'. unfold Program.handle in Hhi' |- *. rewrite Hhi'.
      assert (Hip : is_param s (e_node h) = true)
        by (apply is_param_spec; unfold param_ids; apply in_map; exact Hh).
      rewrite Hip. rewrite <- Hslot.
      rewrite (nval_nth (st_nodes s) (e_node h) nd Hn).
      unfold updated_param in Hupd.
      destruct (n_grad nd2) as [gr|] eqn:Hgr.
      - destruct Hupd as (h3 & Hh3 & _ & _ & _ & Hn3 & _).
        unfold Program.handle in Hh3. rewrite Hh3. rewrite (nval_nth (st_nodes s3) (e_node h3) _ Hn3).
        cbn [pay_arr n_pay p_vals vals]. rewrite Hpay2, Hlr.
        apply dot_step.
        (* the stored gradient has the parameter's length *)
        assert (Hg' : store_good g').
        { destruct (pass_good O g r (e_keep err) None g' log Hgc Hr) as [Hg'' _]; [| exact Hrun | exact Hg''].
          intros sd nd0 Hsd. discriminate Hsd. }
        assert (Hn2' : nth_error g' (e_node h) = Some nd2).
        { unfold h_node in Hn2. rewrite Hs2 in Hn2. exact Hn2. }
        destruct (Hg' _ nd2 Hn2') as (_ & _ & _ & _ & [_ Hlw] & Hgok).
        destruct (Hgok gr Hgr) as [[_ Hlg] Hdg].
        rewrite Hpay2 in Hlw, Hdg. cbn [pay_arr dims vals] in Hlw. rewrite <- Hlg, Hdg. exact Hlw.
      - destruct Hupd as (Hh3 & Hn3).
        unfold Program.handle in Hh3. rewrite Hh3. rewrite (nval_nth (st_nodes s3) (e_node h) _ Hn3). rewrite Hpay2.
        rewrite dot_sub_self. ring.
    Qed.

    (** the same for a state of a history: [good_all] holds in every state reached under the
        instruction side conditions ([HistoryPre3.run_good_all]) *)
    Corollary train_step_exact_history :
      forall (p : list (@instr F)) (s : state) x s1 out t s2 loss s3 tau,
        reachable_ok_all O p s -> ready s ->
        hvalid (st_nodes s) x -> layers_ok_all O s (st_layers s) x ->
        model_forward O s x = Some (s1, out) ->
        hvalid (st_nodes s1) t ->
        model_backward O s1 t = Some (s2, loss) ->
        model_update O s2 = Some s3 ->
        tau_ok s tau ->
        exists sc err ndr,
          cost_apply O s1 (st_cost s) out t = Some (sc, err) /\
          nth_error (st_nodes sc) (e_node err) = Some ndr /\
          loss = a_sum_all O (pay_arr (n_pay ndr)) /\
          param_step_pairing s s3 tau
          = fmul O (st_lr s)
                 (dot O (vals (eo_ones E (n_pay ndr)))
                      (vals (tan O (st_nodes sc) (lt_params s (st_nodes sc) tau) (e_node err)))) /\
          ready s3.
    Proof.
      intros p s x s1 out t s2 loss s3 tau Hre Hready. 
      apply train_step_exact; [exact Hready | exact (run_good_all O p s Hre)].
    Qed.
  End Scalars.
End TrainExact.

Print Assumptions train_step_exact.
Print Assumptions train_step_exact_history.
