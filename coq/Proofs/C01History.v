(** C01 at every backward pass of every history, with no [supported] premise: the side
    conditions are on the instructions ([HistoryPre.instr_ok], [HistoryInv.seed_ok]). *)

From Coq Require Import List Arith Bool Reals.
From Corgi Require Import Lib.OptionMonad Lib.Sums Model.Scalar Model.RealScalar Model.Arr
     Model.Elementwise Model.Ops Model.Engine Model.Program
     Proofs.ArrFacts Proofs.Propagate Proofs.AdjointSpec Proofs.FlattenSpec Proofs.DualLift
     Proofs.RealDerivs Proofs.HistoryInv Proofs.FwdCode Proofs.CodeSupport2 Proofs.HistoryVC
     Proofs.C01Concrete Proofs.C01Full Proofs.HistoryPre Proofs.C01Real.
Import ListNotations.

Section C01History.
  Context {F : Type} (O : ScalarOps F) (R : is_cring O).
  Local Notation D2 := (dual_ops O).
  Local Notation E := (Program.E O).

  Hypothesis Hdiv : forall a b, fdiv O a b = fmul O a (fdiv O (f1 O) b).
  Hypothesis Hinv_mul : forall a b,
      fdiv O (f1 O) (fmul O a b) = fmul O (fdiv O (f1 O) a) (fdiv O (f1 O) b).
  Hypothesis Hpow2 : forall x, fpow O x (two O) = fmul O x x.
  Hypothesis Hsig_fst : forall x x', fst (sigmoid_fn D2 (x, x')) = sigmoid_fn O x.
  Hypothesis Hsig : forall x x',
      snd (sigmoid_fn D2 (x, x'))
      = fmul O (fmul O (sigmoid_fn O x) (fsub O (f1 O) (sigmoid_fn O x))) x'.

  (** in every state reached under the side conditions, every closure of the graph has its
      local identity, lifts to dual numbers, and is used within its side condition *)
  Theorem all_supported : forall (p : list (@instr F)) (s : @state F),
      reachable_ok O p s ->
      store_good (st_nodes s) /\ value_consistent O (st_nodes s) /\ pre_ok (st_nodes s) /\
      (forall code d, code_ok2 O code d).
  Proof.
    intros p s H. destruct (run_good3 O p s H) as [[[Hg _] Hvc] Hpre].
    split; [exact Hg |]. split; [exact Hvc |]. split; [exact Hpre |].
    exact (all_code_ok2 O R Hsig_fst Hsig Hdiv Hinv_mul Hpow2).
  Qed.

  Theorem history_backward_exact_full :
    forall (p : list (@instr F)) (s : @state F) lt r keep seed s0 ndr g' log,
      reachable_ok O p s ->
      grads_empty (st_nodes s) -> leaf_tangents_ok (st_nodes s) lt ->
      nth_error (st_nodes s) r = Some ndr ->
      seed_of E (st_nodes s) r seed = Some s0 ->
      (forall sd, seed = Some sd -> wf sd /\ dims sd = p_dims (n_pay ndr)) ->
      run_backward E (st_nodes s) r keep seed = Some (g', log) ->
      dot O (vals s0) (vals (tan O (st_nodes s) lt r)) = leaf_pairing O (st_nodes s) g' lt r.
  Proof.
    intros p s lt r keep seed s0 ndr g' log Hre Hempty Hlt Hndr Hseed Hsd Hrun.
    destruct (all_supported p s Hre) as (Hg & Hvc & Hpre & _).
    eapply (backward_exact_full O R Hdiv Hinv_mul Hpow2 Hsig_fst Hsig); try eassumption.
    eapply nth_lt. exact Hndr.
  Qed.
End C01History.

(** the same at the real numbers: no scalar hypothesis *)
Theorem history_backward_exact_R :
  forall (p : list (@instr R)) (s : @state R) lt r keep seed s0 ndr g' log,
    reachable_ok R_ops p s ->
    grads_empty (st_nodes s) -> leaf_tangents_ok (st_nodes s) lt ->
    nth_error (st_nodes s) r = Some ndr ->
    seed_of (Program.E R_ops) (st_nodes s) r seed = Some s0 ->
    (forall sd, seed = Some sd -> wf sd /\ dims sd = p_dims (n_pay ndr)) ->
    run_backward (Program.E R_ops) (st_nodes s) r keep seed = Some (g', log) ->
    dot R_ops (vals s0) (vals (tan R_ops (st_nodes s) lt r))
    = leaf_pairing R_ops (st_nodes s) g' lt r.
Proof.
  exact (history_backward_exact_full R_ops R_is_cring R_div_mul_inv R_inv_mul R_pow_two
                                     R_sig_fst R_sig_snd).
Qed.

Print Assumptions all_supported.
Print Assumptions history_backward_exact_full.
Print Assumptions history_backward_exact_R.
