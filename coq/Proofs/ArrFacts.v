(** Facts about constructors, row-major layout, indexing and equality (C16). *)

From Coq Require Import List Arith Bool Lia.
From Corgi Require Import Lib.OptionMonad Model.Scalar Model.Arr.
Import ListNotations.

(** * The independent specification of row-major layout *)

(** [rowmajor d I] = sum_j I_j * prod_{l>j} d_l *)
Fixpoint rowmajor (d idx : list nat) : nat :=
  match d, idx with
  | _ :: ds, i :: is_ => i * prod ds + rowmajor ds is_
  | _, _ => 0
  end.

(** [I] is a full multi-index of an array of dimensions [d] *)
Definition in_range (idx d : list nat) : Prop := Forall2 lt idx d.

Lemma Forall2_len : forall {A B} (R : A -> B -> Prop) l1 l2, Forall2 R l1 l2 -> length l1 = length l2.
Proof. intros A B R l1 l2 H. induction H; simpl; congruence. Qed.

Lemma guard_true : forall b : bool, guard b = Some tt <-> b = true.
Proof. destruct b; simpl; split; congruence. Qed.

Lemma dims_valid_spec : forall d, dims_valid d = true <-> Forall (fun x => 1 <= x) d.
Proof.
  intros d. unfold dims_valid. rewrite forallb_forall, Forall_forall.
  split; intros H x Hx; specialize (H x Hx).
  - apply Nat.leb_le in H. exact H.
  - apply Nat.leb_le. exact H.
Qed.

Section ArrFacts.
  Context {F : Type}.

  (** ** Construction from dimensions and values *)

  Theorem mk_some : forall (d : list nat) (v : list F) a,
      mk d v = Some a <->
      (Forall (fun x => 1 <= x) d /\ prod d = length v /\ a = {| dims := d; vals := v |}).
  Proof.
    intros d v a. unfold mk.
    destruct (dims_valid d) eqn:Hd; simpl.
    - destruct (prod d =? length v) eqn:Hp; simpl.
      + apply Nat.eqb_eq in Hp. apply dims_valid_spec in Hd.
        split.
        * intros H. inversion H. auto.
        * intros (_ & _ & ->). reflexivity.
      + apply Nat.eqb_neq in Hp. split; [discriminate|]. intros (_ & H & _). contradiction.
    - split; [discriminate|]. intros (H & _). apply dims_valid_spec in H. congruence.
  Qed.

  Corollary mk_none : forall (d : list nat) (v : list F),
      mk d v = None <-> ~ (Forall (fun x => 1 <= x) d /\ prod d = length v).
  Proof.
    intros d v. destruct (mk d v) as [a|] eqn:E.
    - apply mk_some in E. destruct E as (H1 & H2 & _). split; [discriminate|]. intros H. exfalso; auto.
    - split; [|reflexivity]. intros _ (H1 & H2).
      assert (mk d v = Some {| dims := d; vals := v |}) by (apply mk_some; auto).
      congruence.
  Qed.

  Theorem from_flat_spec : forall (v : list F) a,
      from_flat v = Some a <-> (v <> [] /\ a = {| dims := [length v]; vals := v |}).
  Proof.
    intros v a. unfold from_flat. rewrite mk_some. simpl.
    split.
    - intros (H1 & H2 & H3). split; [|exact H3]. inversion H1; subst.
      destruct v; simpl in *; [lia|discriminate].
    - intros (H1 & H2). split; [|split; [lia|exact H2]].
      constructor; [|constructor]. destruct v; simpl; [congruence|lia].
  Qed.

  (** ** Nested construction *)

  Lemma dims_eqb_spec : forall a b : list nat, dims_eqb a b = true <-> a = b.
  Proof.
    unfold dims_eqb. induction a as [|x a IH]; intros [|y b]; simpl; split; intros H;
      try reflexivity; try discriminate.
    - apply andb_true_iff in H. destruct H as [H1 H2].
      apply andb_true_iff in H2. destruct H2 as [H2 H3].
      apply Nat.eqb_eq in H2. subst y. f_equal. apply IH.
      apply andb_true_iff. split; [exact H1|exact H3].
    - inversion H; subst. apply andb_true_iff. split.
      + simpl. apply Nat.eqb_refl.
      + simpl. rewrite Nat.eqb_refl. simpl.
        assert (E : dims_eqb b b = true) by (apply IH; reflexivity).
        unfold dims_eqb in E. apply andb_true_iff in E. apply E.
  Qed.

  Lemma length_concat_same : forall (l : list (arr F)) n,
      Forall (fun a => length (vals a) = n) l ->
      length (concat (map vals l)) = length l * n.
  Proof.
    induction l as [|a l IH]; intros n H; simpl; [reflexivity|].
    inversion H; subst. rewrite app_length, (IH _ H3). lia.
  Qed.

  Definition wf (a : arr F) : Prop :=
    Forall (fun x => 1 <= x) (dims a) /\ prod (dims a) = length (vals a).

  (** [Array::from(vec![a1; ...; ak])] of well-formed arrays succeeds exactly when the
      list is non-empty and all dimensions agree; the result stacks the arrays. *)
  Theorem from_arrays_spec : forall (l : list (arr F)) r,
      Forall wf l ->
      (from_arrays l = Some r <->
       exists first rest, l = first :: rest /\
                          Forall (fun a => dims a = dims first) rest /\
                          r = {| dims := length l :: dims first; vals := concat (map vals l) |}).
  Proof.
    intros l r Hwf. destruct l as [|first rest].
    - simpl. split; [discriminate|]. intros (f & rs & H & _). discriminate.
    - unfold from_arrays.
      destruct (forallb (fun a => dims_eqb (dims a) (dims first)) rest) eqn:Hall; simpl.
      + assert (Hsame : Forall (fun a => dims a = dims first) rest).
        { apply Forall_forall. intros a Ha. rewrite forallb_forall in Hall.
          apply dims_eqb_spec. apply Hall. exact Ha. }
        rewrite mk_some. split.
        * intros (_ & _ & ->). exists first, rest. auto.
        * intros (f & rs & E & _ & ->). inversion E; subst f rs. clear E.
          inversion Hwf as [|? ? Hf Hr]; subst.
          split; [|split; [|reflexivity]].
          -- constructor; [simpl; lia|]. apply Hf.
          -- transitivity (length (first :: rest) * prod (dims first)); [reflexivity|].
             symmetry. apply (length_concat_same (first :: rest) (prod (dims first))).
             constructor; [symmetry; apply Hf|].
             apply Forall_forall. intros a Ha.
             rewrite Forall_forall in Hr, Hsame.
             destruct (Hr a Ha) as [_ Hp]. rewrite <- Hp, (Hsame a Ha). reflexivity.
      + split; [discriminate|]. intros (f & rs & E & Hs & _). inversion E; subst f rs.
        exfalso. assert (forallb (fun a => dims_eqb (dims a) (dims first)) rest = true).
        { apply forallb_forall. intros a Ha. apply dims_eqb_spec.
          rewrite Forall_forall in Hs. apply Hs. exact Ha. }
        congruence.
  Qed.

  (** ** Indexing *)

  Lemma horner_rowmajor : forall (ds rest : list nat) acc,
      Forall2 lt rest ds ->
      fold_left (fun acc (p : nat * nat) => if snd p =? 1 then acc else acc * snd p + fst p)
                (combine rest ds) acc
      = acc * prod ds + rowmajor ds rest.
  Proof.
    intros ds rest acc H. revert acc. induction H as [|i d is_ ds' Hlt H IH]; intros acc; simpl.
    - lia.
    - destruct (d =? 1) eqn:E.
      + apply Nat.eqb_eq in E. subst d. assert (i = 0) by lia. subst i.
        rewrite IH. lia.
      + rewrite IH. lia.
  Qed.

  Theorem flatten_indices_rowmajor : forall idx d,
      d <> [] -> in_range idx d ->
      flatten_indices idx d = Some (rowmajor d idx).
  Proof.
    intros idx d Hne H. unfold in_range in H.
    assert (Hlen : length idx = length d) by (eapply Forall2_len; eauto).
    unfold flatten_indices. rewrite Hlen, Nat.leb_refl, Nat.sub_diag. simpl.
    destruct H as [|i d0 is_ ds Hlt H]; [congruence|].
    simpl. rewrite horner_rowmajor by assumption. reflexivity.
  Qed.

  Lemma rowmajor_lt : forall d idx, in_range idx d -> d <> [] -> rowmajor d idx < prod d.
  Proof.
    intros d idx H. unfold in_range in H.
    induction H as [|i d0 is_ ds Hlt H IH]; intros Hne; [congruence|].
    simpl. destruct ds as [|d1 ds'].
    - inversion H; subst. simpl. lia.
    - assert (rowmajor (d1 :: ds') is_ < prod (d1 :: ds')) by (apply IH; discriminate).
      set (P := prod (d1 :: ds')) in *. nia.
  Qed.

  (** [a[vec![i1; ...; ir]]] is the row-major element *)
  Theorem index_multi_spec : forall (a : arr F) idx,
      wf a -> dims a <> [] -> in_range idx (dims a) ->
      exists x, index_multi a idx = Some x /\ nth_error (vals a) (rowmajor (dims a) idx) = Some x.
  Proof.
    intros a idx [_ Hp] Hne H. unfold index_multi.
    rewrite flatten_indices_rowmajor by assumption. simpl.
    pose proof (rowmajor_lt _ _ H Hne) as Hlt. rewrite Hp in Hlt.
    destruct (nth_error (vals a) (rowmajor (dims a) idx)) eqn:E.
    - eauto.
    - apply nth_error_None in E. lia.
  Qed.

  (** [a[i]] is the i-th value, and panics exactly when [i] is out of range *)
  Theorem index_flat_spec : forall (a : arr F) i,
      (i < length (vals a) -> index_flat a i = nth_error (vals a) i /\ index_flat a i <> None)
      /\ (length (vals a) <= i -> index_flat a i = None).
  Proof.
    intros a i. unfold index_flat. split; intros H.
    - assert (E : (i <? length (vals a)) = true) by (apply Nat.ltb_lt; exact H).
      rewrite E. simpl. split; [reflexivity|]. apply nth_error_Some. exact H.
    - assert (E : (i <? length (vals a)) = false) by (apply Nat.ltb_ge; exact H).
      rewrite E. reflexivity.
  Qed.
End ArrFacts.

(** ** Zeros and equality *)

Section Eq.
  Context {F : Type} (O : ScalarOps F).
  Hypothesis feqb_eq : forall x y, feqb O x y = true <-> x = y.

  Theorem zeros_spec : forall d a,
      zeros O d = Some a <->
      (Forall (fun x => 1 <= x) d /\ a = {| dims := d; vals := repeat (f0 O) (prod d) |}).
  Proof.
    intros d a. unfold zeros. rewrite mk_some, repeat_length. tauto.
  Qed.

  Lemma vals_eqb_spec : forall x y, vals_eqb O x y = true <-> x = y.
  Proof.
    induction x as [|a x IH]; intros [|b y]; simpl; split; intros H;
      try reflexivity; try discriminate.
    - apply andb_true_iff in H. destruct H as [H1 H2]. apply feqb_eq in H1. apply IH in H2.
      congruence.
    - inversion H; subst. apply andb_true_iff. split; [apply feqb_eq; reflexivity|].
      apply IH. reflexivity.
  Qed.

  (** [==] is true exactly when dimensions and values are equal; an [arr] is nothing
      but dimensions and values, so tracking, graph and gradient cannot matter. *)
  Theorem arr_eqb_spec : forall a b : arr F,
      arr_eqb O a b = true <-> (dims a = dims b /\ vals a = vals b).
  Proof.
    intros a b. unfold arr_eqb. rewrite andb_true_iff, dims_eqb_spec, vals_eqb_spec. tauto.
  Qed.
End Eq.
