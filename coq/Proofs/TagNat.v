(** The interpreter is natural in the ghost tags and independent of the pool.

    [tmap f P s] renames the creation tag of every node through [f], sets the current tag to
    [f (st_tag s)] and replaces the pool by [P].  Every function of Model/Program.v that
    [step] calls on the state (operations, passes, optimizer, layers, costs) commutes with
    [tmap]: it computes the same arrays, handles and observations and returns the mapped
    state.  This is the key lemma of the transparency theorem (Proofs/Transparency.v): two
    programs that differ by extra clones and drops run on stores that differ only in tags. *)

From Coq Require Import List Arith Bool Lia PeanoNat.
From Corgi Require Import Lib.OptionMonad Model.Scalar Model.Arr Model.SlicedOp
     Model.Elementwise Model.Linalg Model.Image Model.Ops Model.Engine Model.Program
     Proofs.EngineDefs Proofs.EngineBase Proofs.EngineInv Proofs.ProgramFacts.
Import ListNotations.

Lemma omap_bind : forall {A B C} (x : option A) (k : A -> option B) (g : B -> C),
    option_map g (obind x k) = obind x (fun a => option_map g (k a)).
Proof. intros A B C [a|] k g; reflexivity. Qed.

Lemma mapM_ext_all : forall {A B} (f g : A -> option B) l,
    (forall x, f x = g x) -> mapM f l = mapM g l.
Proof.
  intros A B f g l H. induction l as [|x l IH]; [reflexivity|]. cbn [mapM]. rewrite H, IH. reflexivity.
Qed.

(** * The engine is natural in the payload *)

Section EngineNat.
  Context {P D : Type}.
  Variable E : eops P D.
  Variable phi : P -> P.
  Hypothesis H_ones : forall p, eo_ones E (phi p) = eo_ones E p.
  Hypothesis H_flat : forall d p, eo_flat E d (phi p) = eo_flat E d p.
  Hypothesis H_hasop : forall p, eo_hasop E (phi p) = eo_hasop E p.
  Hypothesis H_bop : forall p ps t x, eo_bop E (phi p) (map phi ps) t x = eo_bop E p ps t x.

  Definition nmap (nd : node P D) : node P D :=
    {| n_pay := phi (n_pay nd); n_children := n_children nd; n_count := n_count nd;
       n_delta := n_delta nd; n_grad := n_grad nd |}.

  Lemma nth_nmap : forall (g : store P D) id,
      nth_error (map nmap g) id = option_map nmap (nth_error g id).
  Proof. intros g id. apply nth_error_map. Qed.

  Lemma put_nmap : forall (g : store P D) id nd,
      put (map nmap g) id (nmap nd) = option_map (map nmap) (put g id nd).
  Proof.
    intros g id nd. unfold put, set_nth. rewrite map_length.
    destruct (id <? length g); [|reflexivity]. cbn [option_map].
    rewrite map_app, firstn_map. cbn [map]. rewrite skipn_map. reflexivity.
  Qed.

  Definition pstepf (fuel : nat) (acc : option (store P D)) (e : entry) : option (store P D) :=
    g <- acc ;;
    if e_tracked e then
      c <- nth_error g (e_node e) ;;
      let cc := n_count c in
      g' <- put g (e_node e) (set_count c (S cc)) ;;
      if cc =? 0 then propagate fuel g' (e_node e) else Some g'
    else Some g.

  Lemma propagate_nmap : forall fuel (g : store P D) id,
      propagate fuel (map nmap g) id = option_map (map nmap) (propagate fuel g id).
  Proof.
    induction fuel as [|fuel IH]; intros g id; [reflexivity|].
    cbn [propagate]. rewrite nth_nmap. destruct (nth_error g id) as [nd|]; [|reflexivity].
    cbn [obind option_map n_children nmap]. fold (pstepf fuel).
    change (fold_left (pstepf fuel) (n_children nd) (option_map (map nmap) (Some g))
            = option_map (map nmap) (fold_left (pstepf fuel) (n_children nd) (Some g))).
    generalize (Some g) as acc. induction (n_children nd) as [|e es IHes]; intros acc; [reflexivity|].
    cbn [fold_left]. rewrite <- IHes. f_equal.
    destruct acc as [a|]; [|reflexivity]. cbn [option_map pstepf obind].
    destruct (e_tracked e); [|reflexivity].
    rewrite nth_nmap. destruct (nth_error a (e_node e)) as [c|]; [|reflexivity].
    cbn [obind option_map n_count nmap]. cbv zeta.
    change (set_count (nmap c) (S (n_count c))) with (nmap (set_count c (S (n_count c)))).
    rewrite put_nmap. destruct (put a (e_node e) (set_count c (S (n_count c)))) as [g'|]; [|reflexivity].
    cbn [obind option_map]. destruct (n_count c =? 0); [apply IH|reflexivity].
  Qed.

  Definition lift2 (r : option (store P D * @trace D)) : option (store P D * @trace D) :=
    option_map (fun r => (map nmap (fst r), snd r)) r.

  Definition rec_nat (rec : @rec_t P D) : Prop :=
    forall g id keep seed log, rec (map nmap g) id keep seed log = lift2 (rec g id keep seed log).

  Lemma deliver_nmap : forall rec, rec_nat rec -> forall acc p,
      deliver E rec (lift2 acc) p = lift2 (deliver E rec acc p).
  Proof.
    intros rec Hrec [[g lg]|] [e [d|]]; try reflexivity.
    unfold deliver. cbn [lift2 option_map obind fst snd].
    rewrite nth_nmap. destruct (nth_error g (e_node e)) as [c|]; [|reflexivity].
    cbn [obind option_map n_pay n_delta n_count nmap]. rewrite H_flat.
    destruct (eo_flat E d (n_pay c)) as [d'|]; [|reflexivity]. cbn [obind].
    destruct (match n_delta c with Some x => eo_add E x d' | None => Some d' end) as [nw|];
      [|reflexivity].
    cbn [obind]. cbv zeta. destruct (guard (1 <=? n_count c)) as [[]|]; [|reflexivity].
    cbn [obind].
    change (set_count (set_delta (nmap c) (Some nw)) (n_count c - 1))
      with (nmap (set_count (set_delta c (Some nw)) (n_count c - 1))).
    rewrite put_nmap.
    destruct (put g (e_node e) (set_count (set_delta c (Some nw)) (n_count c - 1))) as [g'|];
      [|reflexivity].
    cbn [obind option_map]. destruct (n_count c =? 1); [apply Hrec|reflexivity].
  Qed.

  Lemma fold_deliver_nmap : forall rec, rec_nat rec -> forall ps acc,
      fold_left (deliver E rec) ps (lift2 acc) = lift2 (fold_left (deliver E rec) ps acc).
  Proof.
    intros rec Hrec. induction ps as [|p ps IH]; intros acc; [reflexivity|].
    cbn [fold_left]. rewrite deliver_nmap by exact Hrec. apply IH.
  Qed.

  Lemma finish_nmap : forall (g2 : store P D) id keep delta log2,
      finish E (map nmap g2) id keep delta log2 = lift2 (finish E g2 id keep delta log2).
  Proof.
    intros g2 id keep delta log2. unfold finish. rewrite nth_nmap.
    destruct (nth_error g2 id) as [nd2|]; [|reflexivity]. cbn [obind option_map n_children nmap n_grad].
    destruct ((match n_children nd2 with [] => true | _ => false end) || keep); [|reflexivity].
    destruct (match n_grad nd2 with Some x => eo_add E x delta | None => Some delta end) as [ng|];
      [|reflexivity].
    cbn [obind]. change (set_grad (nmap nd2) (Some ng)) with (nmap (set_grad nd2 (Some ng))).
    rewrite put_nmap. destruct (put g2 id (set_grad nd2 (Some ng))); reflexivity.
  Qed.

  Lemma pays_nmap : forall (g : store P D) (es : list entry),
      mapM (fun e => c <- nth_error (map nmap g) (e_node e) ;; Some (n_pay c)) es
      = option_map (map phi) (mapM (fun e => c <- nth_error g (e_node e) ;; Some (n_pay c)) es).
  Proof.
    intros g es. induction es as [|e es IH]; [reflexivity|].
    cbn [mapM]. rewrite nth_nmap, IH. destruct (nth_error g (e_node e)) as [c|]; [|reflexivity].
    cbn [obind option_map n_pay nmap].
    destruct (mapM (fun e0 => c0 <- nth_error g (e_node e0) ;; Some (n_pay c0)) es); reflexivity.
  Qed.

  Lemma bw_body_nmap : forall rec, rec_nat rec -> forall (g1 : store P D) id keep delta log,
      bw_body E rec (map nmap g1) id keep delta log = lift2 (bw_body E rec g1 id keep delta log).
  Proof.
    intros rec Hrec g1 id keep delta log. unfold bw_body. rewrite nth_nmap.
    destruct (nth_error g1 id) as [nd1|]; [|reflexivity].
    cbn [obind option_map n_children n_pay nmap]. cbv zeta. rewrite H_hasop.
    destruct (eo_hasop E (n_pay nd1)).
    - change (set_children (nmap nd1) (clear_flags (n_children nd1)))
        with (nmap (set_children nd1 (clear_flags (n_children nd1)))).
      rewrite put_nmap.
      destruct (put g1 id (set_children nd1 (clear_flags (n_children nd1)))) as [g1a|]; [|reflexivity].
      cbn [obind option_map]. rewrite pays_nmap.
      destruct (mapM (fun e => c <- nth_error g1a (e_node e) ;; Some (n_pay c)) (n_children nd1))
        as [pays|]; [|reflexivity].
      cbn [obind option_map]. rewrite H_bop.
      destruct (eo_bop E (n_pay nd1) pays (map e_tracked (n_children nd1)) delta) as [ds|];
        [|reflexivity].
      cbn [obind]. rewrite nth_nmap. destruct (nth_error g1a id) as [nd1a|]; [|reflexivity].
      cbn [obind option_map n_children nmap].
      change (set_children (nmap nd1a) (restore_flags (n_children nd1a) (map e_tracked (n_children nd1))))
        with (nmap (set_children nd1a (restore_flags (n_children nd1a) (map e_tracked (n_children nd1))))).
      rewrite put_nmap.
      destruct (put g1a id (set_children nd1a (restore_flags (n_children nd1a)
                                                             (map e_tracked (n_children nd1))))) as [g1b|];
        [|reflexivity].
      cbn [obind option_map].
      destruct (guard (length ds <=? length (n_children nd1))) as [[]|]; [|reflexivity].
      cbn [obind].
      change (Some (map nmap g1b, log ++ [(id, delta)])) with (lift2 (Some (g1b, log ++ [(id, delta)]))).
      rewrite fold_deliver_nmap by exact Hrec.
      destruct (fold_left (deliver E rec) (combine (n_children nd1) ds)
                          (Some (g1b, log ++ [(id, delta)]))) as [[g2 log2]|]; [|reflexivity].
      cbn [lift2 option_map obind fst snd]. apply finish_nmap.
    - destruct (guard (match n_children nd1 with [] => true | _ => false end)) as [[]|];
        [|reflexivity].
      cbn [obind]. apply finish_nmap.
  Qed.

  Theorem backward_nmap : forall fuel, rec_nat (backward E fuel).
  Proof.
    induction fuel as [|fuel IH]; intros g id keep seed log; [reflexivity|].
    rewrite !backward_S. rewrite nth_nmap. destruct (nth_error g id) as [nd|]; [|reflexivity].
    cbn [obind option_map n_delta n_pay nmap]. destruct (n_delta nd) as [x|].
    - change (set_delta (nmap nd) None) with (nmap (set_delta nd None)). rewrite put_nmap.
      destruct (put g id (set_delta nd None)) as [g1|]; [|reflexivity].
      cbn [obind option_map]. apply bw_body_nmap. exact IH.
    - rewrite propagate_nmap. destruct (propagate (S id) g id) as [g1|]; [|reflexivity].
      cbn [obind option_map]. rewrite H_ones. apply bw_body_nmap. exact IH.
  Qed.

  Corollary run_backward_nmap : forall (g : store P D) id keep seed,
      run_backward E (map nmap g) id keep seed = lift2 (run_backward E g id keep seed).
  Proof. intros. apply backward_nmap. Qed.
End EngineNat.

(** * The interpreter is natural in the tags and independent of the pool *)

Section ProgNat.
  Context {F : Type} (O : ScalarOps F).
  Variable f : nat -> nat.
  Variable P : list (option handle).

  Notation state := (@state F).

  Definition ptag (p : @pay F) : @pay F :=
    {| p_dims := p_dims p; p_vals := p_vals p; p_bop := p_bop p; p_buf := p_buf p;
       p_tag := f (p_tag p) |}.

  Definition ntag : @gnode F -> @gnode F := nmap ptag.

  Definition tmap (s : state) : state :=
    {| st_nodes := map ntag (st_nodes s); st_pool := P; st_layers := st_layers s;
       st_cost := st_cost s; st_lr := st_lr s; st_output := st_output s;
       st_tag := f (st_tag s) |}.

  Definition liftT {A} (r : option (state * A)) : option (state * A) :=
    option_map (fun r => (tmap (fst r), snd r)) r.

  Lemma h_node_T : forall s h, h_node (tmap s) h = option_map ntag (h_node s h).
  Proof. intros s h. unfold h_node. cbn [st_nodes tmap]. apply nth_error_map. Qed.

  Lemma h_arr_T : forall s h, h_arr (tmap s) h = h_arr s h.
  Proof. intros s h. unfold h_arr. rewrite h_node_T. destruct (h_node s h); reflexivity. Qed.

  Lemma grad_of_T : forall s h, grad_of (tmap s) h = grad_of s h.
  Proof. intros s h. unfold grad_of. rewrite h_node_T. destruct (h_node s h); reflexivity. Qed.

  Lemma alloc_T : forall s a cs bop buf,
      alloc (tmap s) a cs bop buf
      = (tmap (fst (alloc s a cs bop buf)), snd (alloc s a cs bop buf)).
  Proof.
    intros s a cs bop buf. unfold alloc. cbn [fst snd st_nodes st_tag tmap with_nodes].
    rewrite map_length. f_equal. unfold tmap, with_nodes. cbn. rewrite map_app. reflexivity.
  Qed.

  Lemma alloc_if_T : forall s a t cs code,
      alloc_if (tmap s) a t cs code
      = (tmap (fst (alloc_if s a t cs code)), snd (alloc_if s a t cs code)).
  Proof. intros s a t cs code. unfold alloc_if. destruct t; apply alloc_T. Qed.

  Lemma unary_T : forall s h fwd code, unary (tmap s) h fwd code = liftT (unary s h fwd code).
  Proof.
    intros s h fwd code. unfold unary. rewrite h_arr_T.
    destruct (h_arr s h) as [a|]; [|reflexivity]. cbn [obind].
    destruct (fwd a) as [r|]; [|reflexivity]. cbn [obind liftT option_map]. rewrite alloc_if_T.
    reflexivity.
  Qed.

  Lemma binary_T : forall s ha hb fwd code,
      binary (tmap s) ha hb fwd code = liftT (binary s ha hb fwd code).
  Proof.
    intros s ha hb fwd code. unfold binary. rewrite !h_arr_T.
    destruct (h_arr s ha) as [a|]; [|reflexivity]. destruct (h_arr s hb) as [b|]; [|reflexivity].
    cbn [obind]. destruct (fwd a b) as [r|]; [|reflexivity]. cbn [obind liftT option_map].
    rewrite alloc_if_T. reflexivity.
  Qed.

  Lemma op_sum_T : forall s k h, op_sum O (tmap s) k h = liftT (op_sum O s k h).
  Proof.
    intros s k h. unfold op_sum. destruct (k =? 0); [reflexivity|]. rewrite h_arr_T.
    destruct (h_arr s h) as [a|]; [|reflexivity]. cbn [obind]. apply unary_T.
  Qed.

  Lemma op_reshape_T : forall s d h, op_reshape (tmap s) d h = liftT (op_reshape s d h).
  Proof.
    intros s d h. unfold op_reshape. rewrite h_node_T.
    destruct (h_node s h) as [nd|]; [|reflexivity]. cbn [obind option_map].
    change (pay_arr (n_pay (ntag nd))) with (pay_arr (n_pay nd)).
    destruct (a_reshape d (pay_arr (n_pay nd))) as [r|]; [|reflexivity].
    cbn [obind liftT option_map]. change (p_buf (n_pay (ntag nd))) with (p_buf (n_pay nd)).
    destruct (e_tracked h); rewrite alloc_T; reflexivity.
  Qed.

  Lemma op_matmul_T : forall s ta tb ha hb hc,
      op_matmul O (tmap s) ta tb ha hb hc = liftT (op_matmul O s ta tb ha hb hc).
  Proof.
    intros s ta tb ha hb hc. unfold op_matmul. rewrite !h_arr_T.
    destruct (h_arr s ha) as [a|]; [|reflexivity]. destruct (h_arr s hb) as [b|]; [|reflexivity].
    cbn [obind].
    assert (Hc : match hc with Some h => x <- h_arr (tmap s) h ;; Some (Some x) | None => Some None end
                 = match hc with Some h => x <- h_arr s h ;; Some (Some x) | None => Some None end)
      by (destruct hc; [rewrite h_arr_T|]; reflexivity).
    rewrite Hc. clear Hc.
    destruct (match hc with Some h => x <- h_arr s h ;; Some (Some x) | None => Some None end) as [c|];
      [|reflexivity].
    cbn [obind]. destruct (a_matmul O a ta b tb c) as [r|]; [|reflexivity]. cbn [obind]. cbv zeta.
    destruct (e_tracked ha || e_tracked hb || match hc with Some h => e_tracked h | None => false end).
    - destruct hc as [h|].
      + cbn [liftT option_map]. rewrite alloc_T. reflexivity.
      + rewrite alloc_T. destruct (alloc s (zeros1 O) [] None None) as [s1 h3].
        cbn [fst snd liftT option_map]. rewrite alloc_T. reflexivity.
    - cbn [liftT option_map]. rewrite alloc_T. reflexivity.
  Qed.

  Lemma op_unroll_T : forall s h sr sc fr fc,
      op_unroll O (tmap s) h sr sc fr fc = liftT (op_unroll O s h sr sc fr fc).
  Proof.
    intros s h sr sc fr fc. unfold op_unroll. rewrite h_arr_T.
    destruct (h_arr s h) as [a|]; [|reflexivity]. cbn [obind].
    destruct (dim_back (dims a) 3); [|reflexivity]. destruct (dim_back (dims a) 2); [|reflexivity].
    destruct (dim_back (dims a) 1); [|reflexivity]. cbn [obind].
    destruct (unroll_blocks O a sr sc fr fc); [|reflexivity]. cbn [obind liftT option_map].
    rewrite alloc_if_T. reflexivity.
  Qed.

  Lemma op_expand_T : forall s h rc cc, op_expand O (tmap s) h rc cc = liftT (op_expand O s h rc cc).
  Proof.
    intros s h rc cc. unfold op_expand. rewrite h_arr_T.
    destruct (h_arr s h) as [a|]; [|reflexivity]. cbn [obind].
    destruct (dim_back (dims a) 1); [|reflexivity]. cbn [obind].
    destruct (expand_conv O a rc cc); [|reflexivity]. cbn [obind liftT option_map].
    rewrite alloc_if_T. reflexivity.
  Qed.

  Lemma op_custom_T : forall s c hs, op_custom O (tmap s) c hs = liftT (op_custom O s c hs).
  Proof.
    intros s c hs. unfold op_custom.
    rewrite (mapM_ext_all (h_arr (tmap s)) (h_arr s)) by (intros h; apply h_arr_T).
    destruct (mapM (h_arr s) hs) as [args|]; [|reflexivity]. cbn [obind].
    destruct (custom_forward O c args); [|reflexivity]. cbn [obind liftT option_map].
    rewrite alloc_T. reflexivity.
  Qed.

  (** chaining: the continuation of a lifted result *)
  Lemma liftT_bind : forall {A B} (r : option (state * A)) (k k' : state * A -> option (state * B)),
      (forall s1 x, k' (tmap s1, x) = liftT (k (s1, x))) ->
      obind (liftT r) k' = liftT (obind r k).
  Proof. intros A B [[s1 x]|] k k' H; [apply H|reflexivity]. Qed.

  Lemma op_sub_T : forall s ha hb, op_sub O (tmap s) ha hb = liftT (op_sub O s ha hb).
  Proof.
    intros s ha hb. unfold op_sub, op_neg. rewrite unary_T. apply liftT_bind.
    intros s1 hn. apply binary_T.
  Qed.

  Lemma op_axpy_T : forall s alpha hx hy, op_axpy O (tmap s) alpha hx hy = liftT (op_axpy O s alpha hx hy).
  Proof.
    intros s alpha hx hy. unfold op_axpy, op_scale. rewrite unary_T. apply liftT_bind.
    intros s1 hs. apply binary_T.
  Qed.

  Lemma op_softmax_T : forall s h, op_softmax O (tmap s) h = liftT (op_softmax O s h).
  Proof.
    intros s h. unfold op_softmax, op_exp. rewrite unary_T. apply liftT_bind.
    intros s1 he. rewrite op_sum_T. apply liftT_bind. intros s2 hs. apply binary_T.
  Qed.

  Lemma op_conv_T : forall s sr sc hi hf, op_conv O (tmap s) sr sc hi hf = liftT (op_conv O s sr sc hi hf).
  Proof.
    intros s sr sc hi hf. unfold op_conv. rewrite !h_arr_T.
    destruct (h_arr s hi) as [image|]; [|reflexivity]. destruct (h_arr s hf) as [filters|]; [|reflexivity].
    cbn [obind]. cbv zeta.
    destruct (guard (1 <=? length (dims image))) as [[]|]; [|reflexivity]. cbn [obind].
    destruct (guard ((3 <=? length (dims image)) && (3 <=? length (dims filters)))) as [[]|];
      [|reflexivity].
    cbn [obind].
    destruct (dim_back (dims image) 3) as [depth|]; [|reflexivity].
    destruct (dim_back (dims image) 2) as [rows|]; [|reflexivity].
    destruct (dim_back (dims image) 1) as [cols|]; [|reflexivity].
    destruct (dim_back (dims filters) 2) as [fr|]; [|reflexivity].
    destruct (dim_back (dims filters) 1) as [fc|]; [|reflexivity]. cbn [obind].
    destruct (stride_count rows fr sr) as [rcount|]; [|reflexivity].
    destruct (stride_count cols fc sc) as [ccount|]; [|reflexivity]. cbn [obind].
    rewrite op_unroll_T. apply liftT_bind. intros s1 hu. rewrite h_arr_T.
    destruct (h_arr s1 hu) as [ua|]; [|reflexivity]. cbn [obind].
    destruct (dim_back (dims ua) 1) as [last|]; [|reflexivity]. cbn [obind]. cbv zeta.
    rewrite op_reshape_T. apply liftT_bind. intros s2 hm.
    rewrite op_matmul_T. apply liftT_bind. intros s3 hcv. apply op_expand_T.
  Qed.

  Theorem apply_op_T : forall s k hs, apply_op O (tmap s) k hs = liftT (apply_op O s k hs).
  Proof.
    intros s k hs.
    destruct k; try apply op_custom_T;
      destruct hs as [|x [|y [|z [|w l]]]]; cbn [apply_op]; try reflexivity;
        unfold op_add, op_mul, op_div, op_neg, op_scale, op_exp, op_ln, op_powf, op_relu, op_sigmoid;
        first [apply unary_T | apply binary_T | apply op_sub_T | apply op_sum_T | apply op_reshape_T
              | apply op_matmul_T | apply op_conv_T | apply op_softmax_T | apply op_axpy_T].
  Qed.
  (** ** folds in the option monad *)

  Lemma fold_map_nat : forall {X B} (m : X -> X) (step : X -> B -> option X) (l : list B),
      (forall x b, step (m x) b = option_map m (step x b)) ->
      forall acc,
        fold_left (fun (acc : option X) b => st <- acc ;; step st b) l (option_map m acc)
        = option_map m (fold_left (fun (acc : option X) b => st <- acc ;; step st b) l acc).
  Proof.
    intros X B m step l H. induction l as [|b l IH]; intros acc; [reflexivity|].
    cbn [fold_left]. rewrite <- IH. f_equal. destruct acc as [x|]; [|reflexivity].
    cbn [option_map obind]. apply H.
  Qed.

  (** ** optimizer *)

  Lemma put_ntag : forall (g : list (@gnode F)) id nd,
      put (map ntag g) id (ntag nd) = option_map (map ntag) (put g id nd).
  Proof. intros. apply put_nmap. Qed.

  Lemma clear_grad_T : forall s h, clear_grad (tmap s) h = option_map tmap (clear_grad s h).
  Proof.
    intros s h. unfold clear_grad. rewrite h_node_T. destruct (h_node s h) as [nd|]; [|reflexivity].
    cbn [obind option_map st_nodes tmap].
    change (set_grad (ntag nd) None) with (ntag (set_grad nd None)). rewrite put_ntag.
    destruct (put (st_nodes s) (e_node h) (set_grad nd None)); reflexivity.
  Qed.

  Definition tmap3 (x : state * list F * list handle) : state * list F * list handle :=
    (tmap (fst (fst x)), snd (fst x), snd x).

  Theorem gd_update_T : forall s lr params,
      gd_update O (tmap s) lr params = liftT (gd_update O s lr params).
  Proof.
    intros s lr params. unfold gd_update. cbv zeta.
    assert (Hfr : forall taken, frozen_flags (tmap s) taken params = frozen_flags s taken params).
    { induction params as [|h0 ps IHps]; intros taken; [reflexivity|].
      cbn [frozen_flags]. rewrite grad_of_T.
      destruct (grad_of s h0); [destruct (existsb (Nat.eqb (e_node h0)) taken)|]; f_equal; apply IHps. }
    rewrite Hfr. clear Hfr.
    set (frozen := frozen_flags s [] params).
    set (unf := map fst (filter (fun p : handle * bool => negb (snd p)) (combine params frozen))).
    rewrite (mapM_ext_all (fun h => a <- h_arr (tmap s) h ;; Some (vals a))
                          (fun h => a <- h_arr s h ;; Some (vals a)))
      by (intros h; rewrite h_arr_T; reflexivity).
    destruct (mapM (fun h => a <- h_arr s h ;; Some (vals a)) unf) as [pv|]; [|reflexivity].
    cbn [obind].
    rewrite (mapM_ext_all (fun h => g <- grad_of (tmap s) h ;; Some (vals g))
                          (fun h => g <- grad_of s h ;; Some (vals g)))
      by (intros h; rewrite grad_of_T; reflexivity).
    destruct (mapM (fun h => g <- grad_of s h ;; Some (vals g)) unf) as [pg|]; [|reflexivity].
    cbn [obind].
    change (Some (tmap s)) with (option_map tmap (Some s)).
    rewrite (fold_map_nat tmap (fun st h => clear_grad st h) unf clear_grad_T).
    destruct (fold_left (fun (acc : option state) (h : handle) => st <- acc ;; clear_grad st h)
                        unf (Some s)) as [s1|]; [|reflexivity].
    cbn [option_map obind].
    set (buf := sgd_zip O lr (concat pv) (concat pg)).
    change (Some (tmap s1, buf, @nil handle)) with (option_map tmap3 (Some (s1, buf, @nil handle))).
    rewrite (fold_map_nat tmap3
               (fun (st : state * list F * list handle) (p : handle * bool) =>
                  let '(s', buf', out) := st in
                  let h := fst p in
                  if snd p then Some (s', buf', out ++ [h])
                  else
                    a <- h_arr s' h ;;
                    let n := length (vals a) in
                    check (n <=? length buf') ;;
                    na <- mk (dims a) (firstn n buf') ;;
                    let '(s'', h') := alloc s' na [] None None in
                    Some (s'', skipn n buf', out ++ [mkh (e_node h') true true]))).
    - match goal with |- context [fold_left ?fn ?l (Some (s1, buf, []))] =>
                      destruct (fold_left fn l (Some (s1, buf, []))) as [[[s2 b2] out]|] end;
        reflexivity.
    - intros [[s' buf'] out] [h fz]. unfold tmap3. cbn [fst snd]. destruct fz; [reflexivity|].
      rewrite h_arr_T. destruct (h_arr s' h) as [a|]; [|reflexivity]. cbn [obind]. cbv zeta.
      destruct (guard (length (vals a) <=? length buf')) as [[]|]; [|reflexivity]. cbn [obind].
      destruct (mk (dims a) (firstn (length (vals a)) buf')) as [na|]; [|reflexivity]. cbn [obind].
      rewrite alloc_T. destruct (alloc s' na [] None None) as [s'' h']. reflexivity.
  Qed.

  (** ** layers, model, costs *)

  Lemma apply_act_T : forall s a h, apply_act O (tmap s) a h = liftT (apply_act O s a h).
  Proof.
    intros s a h. destruct a; cbn [apply_act]; [reflexivity| | |apply op_softmax_T];
      unfold op_relu, op_sigmoid; apply unary_T.
  Qed.

  Lemma layer_forward_T : forall s l h, layer_forward O (tmap s) l h = liftT (layer_forward O s l h).
  Proof.
    intros s l h. unfold layer_forward. destruct (l_conv l) as [[sr sc]|].
    - rewrite op_conv_T. apply liftT_bind. intros s1 hc. unfold op_add. rewrite binary_T.
      apply liftT_bind. intros s2 h2. apply apply_act_T.
    - rewrite op_matmul_T. apply liftT_bind. intros s1 h1. apply apply_act_T.
  Qed.

  Definition tmap2 {A} (x : state * A) : state * A := (tmap (fst x), snd x).

  Theorem model_forward_T : forall s h, model_forward O (tmap s) h = liftT (model_forward O s h).
  Proof.
    intros s h. unfold model_forward. cbn [st_layers tmap].
    change (Some (tmap s, h)) with (option_map (@tmap2 handle) (Some (s, h))).
    rewrite (fold_map_nat (@tmap2 handle)
               (fun (st : state * handle) (l : layer) => let '(s', h) := st in layer_forward O s' l h)).
    - match goal with |- context [fold_left ?fn ?l (Some (s, h))] =>
                      destruct (fold_left fn l (Some (s, h))) as [[s1 out]|] end; reflexivity.
    - intros [s' h'] l. unfold tmap2. cbn [fst snd]. rewrite layer_forward_T.
      destruct (layer_forward O s' l h') as [[s1 h1]|]; reflexivity.
  Qed.

  Lemma cost_apply_T : forall s c ho ht, cost_apply O (tmap s) c ho ht = liftT (cost_apply O s c ho ht).
  Proof.
    intros s c ho ht. unfold cost_apply. rewrite h_arr_T.
    destruct (h_arr s ho) as [o|]; [|reflexivity]. cbn [obind]. destruct c.
    - cbv zeta. rewrite op_sub_T. apply liftT_bind. intros s1 d. unfold op_powf. rewrite unary_T.
      apply liftT_bind. intros s2 p. unfold op_scale. apply unary_T.
    - destruct (nth_error (dims o) 0) as [batch|]; [|reflexivity]. cbn [obind].
      unfold op_neg. rewrite unary_T. apply liftT_bind. intros s1 nt.
      unfold op_ln. rewrite unary_T. apply liftT_bind. intros s2 lo.
      unfold op_mul. rewrite binary_T. apply liftT_bind. intros s3 m. unfold op_scale. apply unary_T.
  Qed.

  (** the engine operations of the model ignore the tag *)
  Lemma run_backward_T : forall (g : list (@gnode F)) id keep seed,
      run_backward (E O) (map ntag g) id keep seed
      = option_map (fun r => (map ntag (fst r), snd r)) (run_backward (E O) g id keep seed).
  Proof.
    intros g id keep seed. unfold ntag. apply run_backward_nmap; try reflexivity.
    intros p ps t x. cbn [eo_bop E p_bop ptag]. rewrite map_map.
    destruct (p_bop p); reflexivity.
  Qed.

  Theorem model_backward_T : forall s h, model_backward O (tmap s) h = liftT (model_backward O s h).
  Proof.
    intros s h. unfold model_backward. cbn [st_output st_cost tmap].
    destruct (st_output s) as [output|]; [|reflexivity]. cbn [obind]. rewrite cost_apply_T.
    apply liftT_bind. intros s1 err. cbn [st_nodes tmap]. rewrite run_backward_T.
    destruct (run_backward (E O) (st_nodes s1) (e_node err) (e_keep err) None) as [[g lg]|];
      [|reflexivity].
    cbn [option_map obind fst snd]. rewrite h_arr_T. destruct (h_arr s1 err); reflexivity.
  Qed.

  Theorem model_update_T : forall s, model_update O (tmap s) = option_map tmap (model_update O s).
  Proof.
    intros s. unfold model_update. cbn [st_lr tmap].
    change (model_params (tmap s)) with (model_params s). rewrite gd_update_T.
    destruct (gd_update O s (st_lr s) (model_params s)) as [[s1 hs]|]; reflexivity.
  Qed.

  Lemma make_layer_T : forall s l, make_layer (tmap s) l = liftT (make_layer s l).
  Proof.
    intros s l. destruct l; cbn [make_layer].
    - destruct (mk [nout; nin] w) as [wa|]; [|reflexivity]. destruct (mk [nout] b) as [ba|]; [|reflexivity].
      cbn [obind]. rewrite alloc_T. destruct (alloc s wa [] None None) as [s1 hw]. cbn [fst snd].
      rewrite alloc_T. destruct (alloc s1 ba [] None None) as [s2 hb]. reflexivity.
    - destruct (mk [count; depth; fr; fc] f0) as [fa|]; [|reflexivity].
      destruct (mk [count; 1; 1] b) as [ba|]; [|reflexivity].
      cbn [obind]. rewrite alloc_T. destruct (alloc s fa [] None None) as [s1 hw]. cbn [fst snd].
      rewrite alloc_T. destruct (alloc s1 ba [] None None) as [s2 hb]. reflexivity.
  Qed.

  (** ** observations *)

  (** the tag of a logged closure invocation is renamed; nothing else *)
  Definition otag (o : @obs F) : @obs F :=
    map (fun it : @item F =>
           match it with
           | (6, t :: d, v) => (6, f t :: d, v)
           | _ => it
           end) o.

  Lemma is_custom_T : forall s id, is_custom (tmap s) id = is_custom s id.
  Proof.
    intros s id. unfold is_custom. cbn [st_nodes tmap]. rewrite nth_error_map.
    destruct (nth_error (st_nodes s) id); reflexivity.
  Qed.

  Lemma o_log_T : forall s lg, o_log (tmap s) lg = otag (o_log s lg).
  Proof.
    intros s lg. unfold o_log, otag.
    rewrite (filter_ext (fun p => is_custom (tmap s) (fst p)) (fun p => is_custom s (fst p)))
      by (intros p; apply is_custom_T).
    rewrite map_map. apply map_ext_in. intros [id d] Hin. apply filter_In in Hin.
    destruct Hin as [_ Hc]. cbn [fst snd] in *. f_equal. f_equal. f_equal.
    unfold tag_of, is_custom in *. cbn [st_nodes tmap]. rewrite nth_error_map.
    destruct (nth_error (st_nodes s) id); [reflexivity|discriminate].
  Qed.

  Lemma o_params_T : forall s, o_params (tmap s) = o_params s.
  Proof.
    intros s. unfold o_params. change (model_params (tmap s)) with (model_params s).
    apply flat_map_ext. intros h. rewrite h_arr_T, grad_of_T. reflexivity.
  Qed.
End ProgNat.

Print Assumptions backward_nmap.
Print Assumptions apply_op_T.
Print Assumptions gd_update_T.
Print Assumptions model_forward_T.
Print Assumptions model_backward_T.
