(** Ownership (C18): who holds a value buffer.

    In the model ownership is REACHABILITY: a buffer is held by the live handles (roots),
    by the child entries of the nodes reachable from the roots, and by the closure of a
    reachable sigmoid node.  Gradients and pending deltas are plain array values, not
    nodes, so they can never hold a node or a buffer. *)

From Coq Require Import List Arith Bool Lia PeanoNat Permutation.
From Corgi Require Import Lib.OptionMonad Model.Scalar Model.Arr Model.Ops Model.Engine
     Proofs.EngineDefs Proofs.EngineBase Proofs.Propagate Proofs.EngineInv Proofs.SweepFacts
     Proofs.PassTheorems.
From Corgi Require Import Model.Program Proofs.OptimSpec.
Import ListNotations.

Lemma mem_In : forall (j : nat) (l : list nat), existsb (Nat.eqb j) l = true <-> In j l.
Proof.
  intros j l. rewrite existsb_exists. split.
  - intros (x & Hx & He). apply Nat.eqb_eq in He. subst x. exact Hx.
  - intro H. exists j. split; [exact H | apply Nat.eqb_refl].
Qed.

Lemma mem_false : forall (j : nat) (l : list nat), existsb (Nat.eqb j) l = false <-> ~ In j l.
Proof.
  intros j l. rewrite <- mem_In. destruct (existsb (Nat.eqb j) l); split; intro H.
  - discriminate H.
  - exfalso. apply H. reflexivity.
  - intro H'. discriminate H'.
  - reflexivity.
Qed.

Lemma firstn_app_len : forall {A} (a b : list A), firstn (length a) (a ++ b) = a.
Proof. intros A a b. induction a as [|x a IH]; simpl; [reflexivity | rewrite IH; reflexivity]. Qed.

Lemma skipn_S_app_len : forall {A} (a b : list A) x, skipn (S (length a)) (a ++ x :: b) = b.
Proof. intros A a b x. induction a as [|y a IH]; simpl; [reflexivity | exact IH]. Qed.

Section Ownership.
  Context {F : Type} (O : ScalarOps F).

  Notation gnode := (@gnode F).
  Notation state := (@state F).
  Notation handle := Program.handle.

  (** * (O1) holders form a DAG; [reach] computes the closure of the roots *)

  (** child ids of a node, as [reach] reads them *)
  Definition kids (g : list gnode) (n : nat) : list nat :=
    match nth_error g n with
    | Some nd => map e_node (n_children nd)
    | None => []
    end.

  (** reachability through child entries, whatever their flags *)
  Inductive creach (g : list gnode) (a : nat) : nat -> Prop :=
  | cr_refl : creach g a a
  | cr_step : forall m c, creach g a m -> In c (kids g m) -> creach g a c.

  Lemma creach_step_entry : forall g a m nd e,
      creach g a m -> nth_error g m = Some nd -> In e (n_children nd) -> creach g a (e_node e).
  Proof.
    intros g a m nd e Hr Hn Hin. apply (cr_step g a m (e_node e) Hr).
    unfold kids. rewrite Hn. apply in_map. exact Hin.
  Qed.

  Lemma creach_trans : forall g a m x, creach g a m -> creach g m x -> creach g a x.
  Proof.
    intros g a m x Ham Hmx. induction Hmx as [|k c Hk IH Hin].
    - exact Ham.
    - eapply cr_step; eassumption.
  Qed.

  (** children have smaller ids (the first half of [wfg]) *)
  Definition topo (g : list gnode) : Prop := forall n c, In c (kids g n) -> c < n.

  Lemma wfg_topo : forall g : list gnode, wfg (E O) g -> topo g.
  Proof.
    intros g Hwf n c Hin. unfold kids in Hin.
    destruct (nth_error g n) as [nd|] eqn:Hn; [| destruct Hin].
    apply in_map_iff in Hin. destruct Hin as (e & He & Hin). subst c.
    destruct (Hwf n nd Hn) as (Hlt & _). apply Hlt. exact Hin.
  Qed.

  (** no cycles: a holder only reaches smaller ids *)
  Lemma creach_le : forall g a m, topo g -> creach g a m -> m <= a.
  Proof.
    intros g a m Ht H. induction H as [|k c Hk IH Hin].
    - lia.
    - specialize (Ht k c Hin). lia.
  Qed.

  Lemma creach_lt : forall g a m, topo g -> creach g a m -> a <> m -> m < a.
  Proof. intros g a m Ht H Hne. apply (creach_le g a m Ht) in H. lia. Qed.

  Lemma creach_antisym : forall g a m, topo g -> creach g a m -> creach g m a -> a = m.
  Proof.
    intros g a m Ht H1 H2. apply (creach_le g a m Ht) in H1. apply (creach_le g m a Ht) in H2. lia.
  Qed.

  Lemma creach_leaf : forall g a x, kids g a = [] -> creach g a x -> x = a.
  Proof.
    intros g a x Hk H. induction H as [|m c Hm IH Hin].
    - reflexivity.
    - subst m. rewrite Hk in Hin. destruct Hin.
  Qed.

  (** ** the worklist search *)

  Definition klen (g : list gnode) (n : nat) : nat := length (kids g n).

  Definition edges (g : list gnode) : nat :=
    fold_right (fun nd acc => length (n_children nd) + acc) 0 g.

  (** child entries of the nodes not yet seen *)
  Definition ue (g : list gnode) (seen : list nat) : nat :=
    wsum (length g) (fun n => if existsb (Nat.eqb n) seen then 0 else klen g n).

  Lemma edges_app : forall g nd, edges (g ++ [nd]) = edges g + length (n_children nd).
  Proof.
    intros g nd. unfold edges. induction g as [|x g IH]; simpl.
    - lia.
    - rewrite IH. lia.
  Qed.

  Lemma klen_app_old : forall g extra n, n < length g -> klen (g ++ extra) n = klen g n.
  Proof.
    intros g extra n Hn. unfold klen, kids. rewrite nth_error_app1 by exact Hn. reflexivity.
  Qed.

  Lemma edges_wsum : forall g, edges g = wsum (length g) (klen g).
  Proof.
    intro g. induction g as [|nd g IH] using rev_ind.
    - reflexivity.
    - rewrite edges_app, app_length. simpl length. rewrite Nat.add_1_r. simpl wsum.
      rewrite IH. f_equal.
      + apply wsum_ext. intros n Hn. symmetry. apply klen_app_old. exact Hn.
      + unfold klen, kids. rewrite nth_error_app2 by lia. rewrite Nat.sub_diag. simpl.
        rewrite map_length. reflexivity.
  Qed.

  Lemma ue_nil : forall g, ue g [] = edges g.
  Proof. intro g. unfold ue. simpl. symmetry. apply edges_wsum. Qed.

  Lemma ue_visit : forall g seen id,
      ~ In id seen -> ue g (id :: seen) + klen g id = ue g seen.
  Proof.
    intros g seen id Hnot. unfold ue.
    destruct (lt_dec id (length g)) as [Hlt|Hge].
    - rewrite (wsum_split (length g) (fun n => if existsb (Nat.eqb n) seen then 0 else klen g n)
                          id Hlt).
      apply mem_false in Hnot. rewrite Hnot.
      rewrite Nat.add_comm. f_equal. apply wsum_ext. intros n Hn. simpl.
      destruct (n =? id) eqn:Hni; reflexivity.
    - assert (Hk : klen g id = 0).
      { unfold klen, kids. destruct (nth_error g id) as [nd|] eqn:Hn; [| reflexivity].
        exfalso. apply Hge. eapply nth_lt. exact Hn. }
      rewrite Hk, Nat.add_0_r. apply wsum_ext. intros n Hn. simpl.
      destruct (n =? id) eqn:Hni; [apply Nat.eqb_eq in Hni; lia | reflexivity].
  Qed.

  Lemma reach_S : forall fuel (g : list gnode) id rest seen,
      reach (S fuel) g (id :: rest) seen =
      if existsb (Nat.eqb id) seen then reach fuel g rest seen
      else reach fuel g (kids g id ++ rest) (id :: seen).
  Proof. reflexivity. Qed.

  Lemma reach_nil : forall fuel (g : list gnode) seen, reach fuel g [] seen = seen.
  Proof. intros fuel g seen. destruct fuel; reflexivity. Qed.

  (** every child of a seen node is seen or still to do *)
  Definition winv (g : list gnode) (todo seen : list nat) : Prop :=
    forall n c, In n seen -> In c (kids g n) -> In c seen \/ In c todo.

  Definition closed (g : list gnode) (R : list nat) : Prop :=
    forall n c, In n R -> In c (kids g n) -> In c R.

  Lemma reach_correct : forall fuel (g : list gnode) todo seen,
      length todo + ue g seen <= fuel -> NoDup seen -> winv g todo seen ->
      NoDup (reach fuel g todo seen) /\
      (forall x, In x seen \/ In x todo -> In x (reach fuel g todo seen)) /\
      closed g (reach fuel g todo seen) /\
      (forall x, In x (reach fuel g todo seen) ->
                 In x seen \/ exists t, In t todo /\ creach g t x).
  Proof.
    induction fuel as [|fuel IH]; intros g todo seen Hfuel Hnd Hinv.
    - destruct todo as [|id rest]; [| simpl in Hfuel; lia]. simpl.
      split; [exact Hnd |]. split; [intros x [Hx|[]]; exact Hx |].
      split.
      + intros n c Hn Hc. destruct (Hinv n c Hn Hc) as [H|[]]. exact H.
      + intros x Hx. left. exact Hx.
    - destruct todo as [|id rest].
      + simpl. split; [exact Hnd |]. split; [intros x [Hx|[]]; exact Hx |].
        split.
        * intros n c Hn Hc. destruct (Hinv n c Hn Hc) as [H|[]]. exact H.
        * intros x Hx. left. exact Hx.
      + rewrite reach_S. destruct (existsb (Nat.eqb id) seen) eqn:Hmem.
        * apply mem_In in Hmem.
          destruct (IH g rest seen) as (R1 & R2 & R3 & R4).
          -- simpl in Hfuel. lia.
          -- exact Hnd.
          -- intros n c Hn Hc. destruct (Hinv n c Hn Hc) as [H|[H|H]].
             ++ left. exact H.
             ++ subst c. left. exact Hmem.
             ++ right. exact H.
          -- split; [exact R1 |]. split.
             ++ intros x [Hx|[Hx|Hx]].
                ** apply R2. left. exact Hx.
                ** subst x. apply R2. left. exact Hmem.
                ** apply R2. right. exact Hx.
             ++ split; [exact R3 |]. intros x Hx. destruct (R4 x Hx) as [H|(t & Ht & Hc)].
                ** left. exact H.
                ** right. exists t. split; [right; exact Ht | exact Hc].
        * apply mem_false in Hmem.
          destruct (IH g (kids g id ++ rest) (id :: seen)) as (R1 & R2 & R3 & R4).
          -- pose proof (ue_visit g seen id Hmem) as Hue. unfold klen in Hue.
             rewrite app_length. simpl in Hfuel. lia.
          -- constructor; assumption.
          -- intros n c [Hn|Hn] Hc.
             ++ subst n. right. apply in_or_app. left. exact Hc.
             ++ destruct (Hinv n c Hn Hc) as [H|[H|H]].
                ** left. right. exact H.
                ** subst c. left. left. reflexivity.
                ** right. apply in_or_app. right. exact H.
          -- split; [exact R1 |]. split.
             ++ intros x [Hx|[Hx|Hx]].
                ** apply R2. left. right. exact Hx.
                ** subst x. apply R2. left. left. reflexivity.
                ** apply R2. right. apply in_or_app. right. exact Hx.
             ++ split; [exact R3 |]. intros x Hx.
                destruct (R4 x Hx) as [[H|H]|(t & Ht & Hc)].
                ** subst x. right. exists id. split; [left; reflexivity | apply cr_refl].
                ** left. exact H.
                ** apply in_app_or in Ht. destruct Ht as [Ht|Ht].
                   --- right. exists id. split; [left; reflexivity |].
                       eapply creach_trans; [| exact Hc].
                       eapply cr_step; [apply cr_refl | exact Ht].
                   --- right. exists t. split; [right; exact Ht | exact Hc].
  Qed.

  (** the live nodes of a root list, with the fuel used by [strong_count] *)
  Definition live (g : list gnode) (rs : list handle) : list nat :=
    reach (S (length g + edges g + length rs)) g (map e_node rs) [].

  (** (O1) [reach] returns exactly the closure of the roots, without repetition *)
  Theorem live_spec : forall g rs,
      NoDup (live g rs) /\
      forall x, In x (live g rs) <-> exists h, In h rs /\ creach g (e_node h) x.
  Proof.
    intros g rs. unfold live.
    destruct (reach_correct (S (length g + edges g + length rs)) g (map e_node rs) [])
      as (R1 & R2 & R3 & R4).
    - rewrite map_length, ue_nil. unfold Program.handle, Program.gnode in *. lia.
    - constructor.
    - intros n c [].
    - split; [exact R1 |]. intro x. split.
      + intro Hx. destruct (R4 x Hx) as [[]|(t & Ht & Hc)].
        apply in_map_iff in Ht. destruct Ht as (h & Hh & Hin). subst t. exists h. tauto.
      + intros (h & Hh & Hc).
        assert (Hroot : In (e_node h) (reach (S (length g + edges g + length rs)) g
                                             (map e_node rs) [])).
        { apply R2. right. apply in_map. exact Hh. }
        induction Hc as [|m c Hm IHc Hin]; [exact Hroot |].
        apply (R3 m c IHc Hin).
  Qed.

  (** * [strong_count] in closed form *)

  Definition is_sig (p : @pay F) : bool :=
    match p_bop p with Some (BSigmoid _) => true | _ => false end.

  (** what node [n] itself holds of buffer [b]: its child entries, and its own result
      buffer when it is a sigmoid node *)
  Definition holds (g : list gnode) (b n : nat) : nat :=
    match nth_error g n with
    | Some nd =>
      count_if (fun e => buf_of g (e_node e) =? b) (n_children nd)
      + (match p_bop (n_pay nd) with
         | Some (BSigmoid _) => if p_buf (n_pay nd) =? b then 1 else 0
         | _ => 0
         end)
    | None => 0
    end.

  Definition held (g : list gnode) (l : list nat) (b : nat) : nat :=
    fold_right (fun id acc => holds g b id + acc) 0 l.

  Definition sc (g : list gnode) (rs : list handle) (b : nat) : nat :=
    count_if (fun h => buf_of g (e_node h) =? b) rs + held g (live g rs) b.

  Lemma fold_right_ext : forall {A B} (f f' : A -> B -> B) i l,
      (forall a acc, f a acc = f' a acc) -> fold_right f i l = fold_right f' i l.
  Proof.
    intros A B f f' i l H. induction l as [|a l IH]; simpl; [reflexivity |].
    rewrite IH. apply H.
  Qed.

  Lemma strong_count_sc : forall (s : state) b,
      strong_count s b = sc (st_nodes s) (roots s) b.
  Proof.
    intros s b. unfold strong_count, sc, held, live, edges. f_equal.
    apply fold_right_ext. intros id acc. unfold holds.
    destruct (nth_error (st_nodes s) id); reflexivity.
  Qed.

  (** [strong_count] is a function of the node list and the root list only *)
  Lemma strong_count_roots_only : forall (s s' : state) b,
      st_nodes s = st_nodes s' -> roots s = roots s' -> strong_count s b = strong_count s' b.
  Proof. intros s s' b Hn Hr. rewrite !strong_count_sc, Hn, Hr. reflexivity. Qed.

  Lemma sig_term : forall (p : @pay F) b,
      (match p_bop p with
       | Some (BSigmoid _) => if p_buf p =? b then 1 else 0
       | _ => 0
       end) = if is_sig p then (if p_buf p =? b then 1 else 0) else 0.
  Proof. intros p b. unfold is_sig. destruct (p_bop p) as [[]|]; reflexivity. Qed.

  (** * (O2) only children, buffer ids and sigmoid-ness matter *)

  Definition okey (nd : gnode) : list entry * nat * bool :=
    (n_children nd, p_buf (n_pay nd), is_sig (n_pay nd)).

  Definition own_eq (g g' : list gnode) : Prop := map okey g = map okey g'.

  Lemma own_eq_nth : forall g g' n, own_eq g g' ->
      (nth_error g n = None /\ nth_error g' n = None) \/
      (exists nd nd', nth_error g n = Some nd /\ nth_error g' n = Some nd' /\ okey nd = okey nd').
  Proof.
    intros g g' n H. unfold own_eq in H.
    assert (H1 : nth_error (map okey g) n = nth_error (map okey g') n) by (rewrite H; reflexivity).
    rewrite !nth_error_map in H1.
    destruct (nth_error g n) as [nd|], (nth_error g' n) as [nd'|]; simpl in H1;
      try discriminate H1.
    - right. exists nd, nd'. injection H1 as H1. split; [reflexivity | split; [reflexivity | unfold okey; congruence]].
    - left. split; reflexivity.
  Qed.

  Lemma own_eq_length : forall g g', own_eq g g' -> length g = length g'.
  Proof.
    intros g g' H. unfold own_eq in H.
    rewrite <- (map_length okey g), <- (map_length okey g'), H. reflexivity.
  Qed.

  Lemma own_eq_kids : forall g g' n, own_eq g g' -> kids g n = kids g' n.
  Proof.
    intros g g' n H. unfold kids.
    destruct (own_eq_nth g g' n H) as [[Ha Hb] | (nd & nd' & Ha & Hb & Hk)]; rewrite Ha, Hb.
    - reflexivity.
    - unfold okey in Hk. injection Hk as Hc _ _. rewrite Hc. reflexivity.
  Qed.

  Lemma own_eq_buf : forall g g' n, own_eq g g' -> buf_of g n = buf_of g' n.
  Proof.
    intros g g' n H. unfold buf_of.
    destruct (own_eq_nth g g' n H) as [[Ha Hb] | (nd & nd' & Ha & Hb & Hk)]; rewrite Ha, Hb.
    - reflexivity.
    - unfold okey in Hk. injection Hk as _ Hbuf _. exact Hbuf.
  Qed.

  Lemma count_if_ext : forall {A} (f f' : A -> bool) l,
      (forall a, In a l -> f a = f' a) -> count_if f l = count_if f' l.
  Proof.
    intros A f f' l H. unfold count_if. induction l as [|a l IH]; simpl; [reflexivity |].
    rewrite (H a (or_introl eq_refl)).
    assert (IH' : length (filter f l) = length (filter f' l))
      by (apply IH; intros x Hx; apply H; right; exact Hx).
    destruct (f' a); simpl; rewrite IH'; reflexivity.
  Qed.

  Lemma own_eq_holds : forall g g' b n, own_eq g g' -> holds g b n = holds g' b n.
  Proof.
    intros g g' b n H. unfold holds.
    destruct (own_eq_nth g g' n H) as [[Ha Hb] | (nd & nd' & Ha & Hb & Hk)]; rewrite Ha, Hb.
    - reflexivity.
    - unfold okey in Hk. injection Hk as Hc Hbuf Hsig. rewrite !sig_term, Hc, Hbuf, Hsig.
      f_equal. apply count_if_ext. intros e _. rewrite (own_eq_buf g g' (e_node e) H). reflexivity.
  Qed.

  Lemma own_eq_reach : forall g g' fuel todo seen,
      own_eq g g' -> reach fuel g todo seen = reach fuel g' todo seen.
  Proof.
    intros g g' fuel. induction fuel as [|fuel IH]; intros todo seen H.
    - reflexivity.
    - destruct todo as [|id rest]; [reflexivity |].
      rewrite !reach_S, (own_eq_kids g g' id H), !(IH _ _ H). reflexivity.
  Qed.

  Lemma own_eq_edges : forall g g', own_eq g g' -> edges g = edges g'.
  Proof.
    intros g g' H. rewrite !edges_wsum, (own_eq_length g g' H).
    apply wsum_ext. intros n _. unfold klen. rewrite (own_eq_kids g g' n H). reflexivity.
  Qed.

  Lemma own_eq_sc : forall g g' rs b, own_eq g g' -> sc g rs b = sc g' rs b.
  Proof.
    intros g g' rs b H. unfold sc. f_equal.
    - apply count_if_ext. intros h _. rewrite (own_eq_buf g g' (e_node h) H). reflexivity.
    - unfold live. rewrite (own_eq_length g g' H), (own_eq_edges g g' H),
                   (own_eq_reach g g' _ _ _ H).
      unfold held. apply fold_right_ext. intros id acc. rewrite (own_eq_holds g g' b id H).
      reflexivity.
  Qed.

  (** (O2) [strong_count] does not read [n_count], [n_delta], [n_grad] -- nor dims, values,
      tags or the kind of a non-sigmoid closure *)
  Theorem strong_count_cells_irrelevant : forall (s s' : state) b,
      own_eq (st_nodes s) (st_nodes s') -> roots s = roots s' ->
      strong_count s b = strong_count s' b.
  Proof.
    intros s s' b H Hr. rewrite !strong_count_sc, Hr. apply own_eq_sc. exact H.
  Qed.

  Lemma skel_own_eq : forall g g' : list gnode, skel_eq g g' -> own_eq g g'.
  Proof.
    intros g g' H. apply skel_eq_map_sk in H. unfold own_eq.
    assert (Hm : forall l : list gnode,
               map okey l = map (fun q : @pay F * list entry =>
                                   (snd q, p_buf (fst q), is_sig (fst q))) (map sk l)).
    { intro l. rewrite map_map. reflexivity. }
    rewrite (Hm g), (Hm g'), H. reflexivity.
  Qed.

  (** the engine cells alone: same length, same payload and children everywhere *)
  Corollary strong_count_skel : forall (s : state) (g' : list gnode) b,
      skel_eq (st_nodes s) g' -> strong_count (with_nodes s g') b = strong_count s b.
  Proof.
    intros s g' b H. symmetry. apply strong_count_cells_irrelevant.
    - apply skel_own_eq. exact H.
    - reflexivity.
  Qed.

  (** a backward pass holds nothing afterwards, with or without stored gradients *)
  Theorem strong_count_backward : forall (s : state) r keep seed g' log b,
      wfg (E O) (st_nodes s) -> clean (st_nodes s) -> bop_contract (E O) (st_nodes s) ->
      r < length (st_nodes s) ->
      run_backward (E O) (st_nodes s) r keep seed = Some (g', log) ->
      strong_count (with_nodes s g') b = strong_count s b.
  Proof.
    intros s r keep seed g' log b Hwf Hcl Hbc Hr Hrun. apply strong_count_skel.
    destruct (pass_structure (E O) (st_nodes s) r keep seed g' log Hwf Hcl Hbc Hr Hrun)
      as (Hs & _). exact Hs.
  Qed.

  (** clearing (or storing) a gradient never changes a count *)
  Theorem strong_count_clear_grad : forall (s s' : state) h b,
      Program.clear_grad s h = Some s' -> strong_count s' b = strong_count s b.
  Proof.
    intros s s' h b H. unfold Program.clear_grad in H.
    apply obind_some in H. destruct H as (nd & Hnd & H).
    apply obind_some in H. destruct H as (g' & Hput & H). injection H as H. subst s'.
    apply strong_count_skel. unfold h_node in Hnd.
    eapply skel_eq_put_grad; eassumption.
  Qed.

  Theorem strong_count_set_cells : forall (s : state) id nd c d gr g' b,
      nth_error (st_nodes s) id = Some nd ->
      put (st_nodes s) id (set_grad (set_delta (set_count nd c) d) gr) = Some g' ->
      strong_count (with_nodes s g') b = strong_count s b.
  Proof.
    intros s id nd c d gr g' b Hnd Hput. apply strong_count_skel.
    eapply skel_eq_put; [exact Hnd | exact Hput | reflexivity | reflexivity].
  Qed.

  (** * (O3) sole ownership *)

  Lemma count_if_app : forall {A} (f : A -> bool) l1 l2,
      count_if f (l1 ++ l2) = count_if f l1 + count_if f l2.
  Proof. intros A f l1 l2. unfold count_if. rewrite filter_app, app_length. reflexivity. Qed.

  Lemma count_if_cons : forall {A} (f : A -> bool) x l,
      count_if f (x :: l) = (if f x then 1 else 0) + count_if f l.
  Proof. intros A f x l. unfold count_if. simpl. destruct (f x); reflexivity. Qed.

  Lemma count_if_zero : forall {A} (f : A -> bool) l,
      (forall a, In a l -> f a = false) -> count_if f l = 0.
  Proof.
    intros A f l H. unfold count_if. induction l as [|a l IH]; simpl; [reflexivity |].
    rewrite (H a (or_introl eq_refl)). apply IH. intros x Hx. apply H. right. exact Hx.
  Qed.

  Lemma count_if_pos : forall {A} (f : A -> bool) l a, In a l -> f a = true -> 1 <= count_if f l.
  Proof.
    intros A f l a Hin Hf. induction l as [|x l IH]; [destruct Hin |].
    rewrite count_if_cons. destruct Hin as [Hin|Hin].
    - subst x. rewrite Hf. lia.
    - specialize (IH Hin). lia.
  Qed.

  Lemma held_zero : forall g l b, (forall n, In n l -> holds g b n = 0) -> held g l b = 0.
  Proof.
    intros g l b H. unfold held. induction l as [|n l IH]; simpl; [reflexivity |].
    rewrite (H n (or_introl eq_refl)). apply IH. intros x Hx. apply H. right. exact Hx.
  Qed.

  Lemma held_ge : forall g l b n, In n l -> holds g b n <= held g l b.
  Proof.
    intros g l b n Hin. unfold held. induction l as [|x l IH]; [destruct Hin |]. simpl.
    destruct Hin as [Hin|Hin]; [subst x; lia | specialize (IH Hin); lia].
  Qed.

  Lemma holds_zero : forall (g : list gnode) b n (nd : gnode),
      nth_error g n = Some nd ->
      (forall e, In e (n_children nd) -> buf_of g (e_node e) <> b) ->
      (is_sig (n_pay nd) = true -> p_buf (n_pay nd) <> b) ->
      holds g b n = 0.
  Proof.
    intros g b n nd Hn Hch Hsig. unfold holds. rewrite Hn, sig_term.
    rewrite count_if_zero by (intros e He; apply Nat.eqb_neq; apply Hch; exact He).
    destruct (is_sig (n_pay nd)); [| reflexivity].
    assert (Hne : (p_buf (n_pay nd) =? b) = false) by (apply Nat.eqb_neq; apply Hsig; reflexivity).
    rewrite Hne. reflexivity.
  Qed.

  (** (O3) the handle [h] is the sole owner of its buffer: no other root handle has that
      buffer, no reachable node has a child entry with that buffer, and no reachable
      sigmoid node owns it *)
  Theorem sole_owner : forall (s : state) h rs1 rs2 b,
      roots s = rs1 ++ h :: rs2 ->
      b = buf_of (st_nodes s) (e_node h) ->
      (forall h', In h' (rs1 ++ rs2) -> buf_of (st_nodes s) (e_node h') <> b) ->
      (forall h0 n nd, In h0 (roots s) -> creach (st_nodes s) (e_node h0) n ->
                       nth_error (st_nodes s) n = Some nd ->
                       (forall e, In e (n_children nd) -> buf_of (st_nodes s) (e_node e) <> b) /\
                       (is_sig (n_pay nd) = true -> p_buf (n_pay nd) <> b)) ->
      strong_count s b = 1.
  Proof.
    intros s h rs1 rs2 b Hroots Hb Hothers Hreach.
    rewrite strong_count_sc. unfold sc.
    rewrite held_zero.
    - rewrite Hroots, count_if_app, count_if_cons.
      rewrite (count_if_zero _ rs1), (count_if_zero _ rs2).
      + rewrite <- Hb, Nat.eqb_refl. reflexivity.
      + intros a Ha. apply Nat.eqb_neq. apply Hothers. apply in_or_app. right. exact Ha.
      + intros a Ha. apply Nat.eqb_neq. apply Hothers. apply in_or_app. left. exact Ha.
    - intros n Hn. apply (proj2 (live_spec (st_nodes s) (roots s))) in Hn.
      destruct Hn as (h0 & Hh0 & Hc).
      destruct (nth_error (st_nodes s) n) as [nd|] eqn:Hnd.
      + destruct (Hreach h0 n nd Hh0 Hc Hnd) as (H1 & H2).
        apply (holds_zero (st_nodes s) b n nd Hnd H1 H2).
      + unfold holds. rewrite Hnd. reflexivity.
  Qed.

  (** [into_vec]: succeeds exactly when the count is 1 *)
  Theorem takevec_step : forall (s0 : state) i x a,
      var s0 i = Some x -> h_arr s0 x = Some a ->
      (strong_count s0 (buf_of (st_nodes s0) (e_node x)) = 1 ->
       exists s', step O s0 (ITakeVec i) = Some (s', [(7, [], vals a)])) /\
      (strong_count s0 (buf_of (st_nodes s0) (e_node x)) <> 1 ->
       step O s0 (ITakeVec i) = None).
  Proof.
    intros s0 i x a Hvar Harr.
    set (s := with_tag s0 (length (st_pool s0))).
    assert (Hvar' : var s i = Some x) by exact Hvar.
    assert (Harr' : h_arr s x = Some a) by exact Harr.
    assert (Hsc : forall b, strong_count s b = strong_count s0 b) by (intro b; reflexivity).
    split; intro Hc.
    - unfold step. fold s. rewrite Hvar'. cbn [obind]. rewrite Harr'. cbn [obind].
      change (st_nodes s) with (st_nodes s0). rewrite Hsc, Hc. cbn [Nat.eqb guard obind].
      unfold var in Hvar. apply obind_some in Hvar. destruct Hvar as (o & Ho & _).
      unfold set_var, set_nth. change (st_pool s) with (st_pool s0).
      assert (Hlt : i < length (st_pool s0)) by (eapply nth_lt; exact Ho).
      apply Nat.ltb_lt in Hlt. rewrite Hlt. cbn [obind]. eexists. reflexivity.
    - unfold step. fold s. rewrite Hvar'. cbn [obind]. rewrite Harr'. cbn [obind].
      change (st_nodes s) with (st_nodes s0). rewrite Hsc.
      apply Nat.eqb_neq in Hc. rewrite Hc. reflexivity.
  Qed.

  (** converse: a second holder makes the count at least 2 *)
  Lemma two_roots_ge2 : forall (s : state) h1 h2 rs1 rs2 rs3 b,
      roots s = rs1 ++ h1 :: rs2 ++ h2 :: rs3 ->
      buf_of (st_nodes s) (e_node h1) = b -> buf_of (st_nodes s) (e_node h2) = b ->
      2 <= strong_count s b.
  Proof.
    intros s h1 h2 rs1 rs2 rs3 b Hroots H1 H2. rewrite strong_count_sc. unfold sc.
    rewrite Hroots, count_if_app, count_if_cons, count_if_app, count_if_cons.
    rewrite H1, H2, Nat.eqb_refl. lia.
  Qed.

  Lemma root_and_entry_ge2 : forall (s : state) h h0 n nd e b,
      In h (roots s) -> buf_of (st_nodes s) (e_node h) = b ->
      In h0 (roots s) -> creach (st_nodes s) (e_node h0) n ->
      nth_error (st_nodes s) n = Some nd -> In e (n_children nd) ->
      buf_of (st_nodes s) (e_node e) = b ->
      2 <= strong_count s b.
  Proof.
    intros s h h0 n nd e b Hh Hb Hh0 Hc Hnd He Heb. rewrite strong_count_sc. unfold sc.
    assert (H1 : 1 <= count_if (fun h => buf_of (st_nodes s) (e_node h) =? b) (roots s)).
    { apply (count_if_pos _ _ h Hh). apply Nat.eqb_eq. exact Hb. }
    assert (Hlive : In n (live (st_nodes s) (roots s))).
    { apply (proj2 (live_spec (st_nodes s) (roots s))). exists h0. tauto. }
    pose proof (held_ge (st_nodes s) _ b n Hlive) as Hge.
    assert (H2 : 1 <= holds (st_nodes s) b n).
    { unfold holds. rewrite Hnd.
      assert (1 <= count_if (fun e => buf_of (st_nodes s) (e_node e) =? b) (n_children nd)).
      { apply (count_if_pos _ _ e He). apply Nat.eqb_eq. exact Heb. }
      lia. }
    lia.
  Qed.

  Lemma root_and_sigmoid_ge2 : forall (s : state) h h0 n nd b,
      In h (roots s) -> buf_of (st_nodes s) (e_node h) = b ->
      In h0 (roots s) -> creach (st_nodes s) (e_node h0) n ->
      nth_error (st_nodes s) n = Some nd -> is_sig (n_pay nd) = true -> p_buf (n_pay nd) = b ->
      2 <= strong_count s b.
  Proof.
    intros s h h0 n nd b Hh Hb Hh0 Hc Hnd Hsig Hpb. rewrite strong_count_sc. unfold sc.
    assert (H1 : 1 <= count_if (fun h => buf_of (st_nodes s) (e_node h) =? b) (roots s)).
    { apply (count_if_pos _ _ h Hh). apply Nat.eqb_eq. exact Hb. }
    assert (Hlive : In n (live (st_nodes s) (roots s))).
    { apply (proj2 (live_spec (st_nodes s) (roots s))). exists h0. tauto. }
    pose proof (held_ge (st_nodes s) _ b n Hlive) as Hge.
    assert (H2 : 1 <= holds (st_nodes s) b n).
    { unfold holds. rewrite Hnd, sig_term, Hsig, Hpb, Nat.eqb_refl. lia. }
    lia.
  Qed.

  (** * (O4) dropping handles releases what they held *)

  Definition pool_handles (p : list (option handle)) : list handle :=
    flat_map (fun o : option handle => match o with Some h => [h] | None => [] end) p.

  Lemma roots_eq : forall s : state,
      roots s = pool_handles (st_pool s)
                ++ flat_map (fun l => [l_w l; l_b l]) (st_layers s)
                ++ match st_output s with Some h => [h] | None => [] end.
  Proof. reflexivity. Qed.

  (** the count in [with_pool s p] reads the pool [p] only (and layers, output, nodes) *)
  Lemma strong_count_with_pool : forall (s : state) p p' b,
      pool_handles p = pool_handles p' ->
      strong_count (with_pool s p) b = strong_count (with_pool s p') b.
  Proof.
    intros s p p' b H. apply strong_count_roots_only; [reflexivity |].
    rewrite !roots_eq. simpl. rewrite H. reflexivity.
  Qed.

  Lemma pool_handles_app : forall p q, pool_handles (p ++ q) = pool_handles p ++ pool_handles q.
  Proof. intros p q. unfold pool_handles. apply flat_map_app. Qed.

  (** [IDrop] only removes one root: nodes, layers and output are untouched *)
  Theorem drop_step : forall (s0 s' : state) i o,
      step O s0 (IDrop i) = Some (s', o) ->
      st_nodes s' = st_nodes s0 /\ st_layers s' = st_layers s0 /\ st_output s' = st_output s0 /\
      exists x p1 p2,
        st_pool s0 = p1 ++ Some x :: p2 /\ length p1 = i /\
        st_pool s' = p1 ++ None :: p2 ++ [None] /\
        roots s0 = pool_handles p1 ++ x :: pool_handles p2
                   ++ flat_map (fun l => [l_w l; l_b l]) (st_layers s0)
                   ++ match st_output s0 with Some h => [h] | None => [] end /\
        roots s' = pool_handles p1 ++ pool_handles p2
                   ++ flat_map (fun l => [l_w l; l_b l]) (st_layers s0)
                   ++ match st_output s0 with Some h => [h] | None => [] end.
  Proof.
    intros s0 s' i o H. unfold step in H.
    set (s := with_tag s0 (length (st_pool s0))) in H.
    apply obind_some in H. destruct H as (x & Hvar & H).
    apply obind_some in H. destruct H as (s1 & Hset & H). injection H as Hs' _. subst s'.
    unfold set_var in Hset. apply obind_some in Hset. destruct Hset as (p' & Hp' & Hs1).
    injection Hs1 as Hs1. subst s1.
    unfold var in Hvar. apply obind_some in Hvar. destruct Hvar as (ox & Hox & Hx). subst ox.
    change (st_pool s) with (st_pool s0) in Hox, Hp'.
    destruct (nth_error_split _ _ Hox) as (p1 & p2 & Hpool & Hlen).
    unfold set_nth in Hp'. destruct (i <? length (st_pool s0)); [| discriminate Hp'].
    injection Hp' as Hp'.
    assert (Hp'' : p' = p1 ++ None :: p2).
    { subst p'. rewrite Hpool, <- Hlen, firstn_app_len. f_equal. f_equal. exact (skipn_S_app_len p1 p2 (Some x)). }
    split; [reflexivity |]. split; [reflexivity |]. split; [reflexivity |].
    exists x, p1, p2. split; [exact Hpool |]. split; [exact Hlen |].
    split; [simpl; rewrite Hp'', <- app_assoc; reflexivity |].
    split.
    - rewrite roots_eq, Hpool, pool_handles_app. simpl. rewrite <- app_assoc. reflexivity.
    - rewrite roots_eq. simpl. rewrite Hp'', !pool_handles_app. simpl.
      rewrite app_nil_r, <- app_assoc. reflexivity.
  Qed.

  (** every root is a handle of a childless node without closure, and the root [h] is the
      only one with its buffer: then [h] is the sole owner -- however many graph nodes were
      built from it earlier, and whatever gradients are stored *)
  Theorem leaf_roots_sole_owner : forall (s : state) h rs1 rs2,
      roots s = rs1 ++ h :: rs2 ->
      (forall h', In h' (roots s) ->
                  exists nd, nth_error (st_nodes s) (e_node h') = Some nd /\
                             n_children nd = [] /\ p_bop (n_pay nd) = None) ->
      (forall h', In h' (rs1 ++ rs2) ->
                  buf_of (st_nodes s) (e_node h') <> buf_of (st_nodes s) (e_node h)) ->
      strong_count s (buf_of (st_nodes s) (e_node h)) = 1.
  Proof.
    intros s h rs1 rs2 Hroots Hleaf Hothers.
    apply (sole_owner s h rs1 rs2 _ Hroots eq_refl Hothers).
    intros h0 n nd Hh0 Hc Hnd.
    destruct (Hleaf h0 Hh0) as (nd0 & Hnd0 & Hch0 & Hbop0).
    assert (Hk : kids (st_nodes s) (e_node h0) = []).
    { unfold kids. rewrite Hnd0, Hch0. reflexivity. }
    apply (creach_leaf _ _ _ Hk) in Hc. subst n.
    rewrite Hnd0 in Hnd. injection Hnd as Hnd. subst nd0.
    split.
    - intros e He. rewrite Hch0 in He. destruct He.
    - intro Hsig. unfold is_sig in Hsig. rewrite Hbop0 in Hsig. discriminate Hsig.
  Qed.

  (** the array is again the sole owner of its buffer once it is the only root *)
  Theorem only_root_sole_owner : forall (s : state) h nd,
      roots s = [h] ->
      nth_error (st_nodes s) (e_node h) = Some nd ->
      n_children nd = [] -> p_bop (n_pay nd) = None ->
      strong_count s (buf_of (st_nodes s) (e_node h)) = 1.
  Proof.
    intros s h nd Hroots Hnd Hch Hbop.
    apply (leaf_roots_sole_owner s h [] []).
    - exact Hroots.
    - intros h' Hh'. rewrite Hroots in Hh'. destruct Hh' as [Hh'|[]]. subst h'.
      exists nd. tauto.
    - intros h' [].
  Qed.

  (** * (O5) fresh buffers *)

  (** a buffer id never exceeds the id of a node that has it *)
  Definition buf_le (g : list gnode) : Prop :=
    forall id nd, nth_error g id = Some nd -> p_buf (n_pay nd) <= id.

  Lemma alloc_nodes : forall (s : state) a ch bop buf,
      exists nd,
        st_nodes (fst (alloc s a ch bop buf)) = st_nodes s ++ [nd] /\
        n_children nd = ch /\ p_bop (n_pay nd) = bop /\
        p_buf (n_pay nd) = (match buf with Some b => b | None => length (st_nodes s) end) /\
        e_node (snd (alloc s a ch bop buf)) = length (st_nodes s) /\
        e_tracked (snd (alloc s a ch bop buf)) = (match bop with Some _ => true | None => false end) /\
        st_pool (fst (alloc s a ch bop buf)) = st_pool s /\
        st_layers (fst (alloc s a ch bop buf)) = st_layers s /\
        st_output (fst (alloc s a ch bop buf)) = st_output s /\
        st_tag (fst (alloc s a ch bop buf)) = st_tag s.
  Proof.
    intros s a ch bop buf. unfold alloc. simpl. eexists. split; [reflexivity |].
    simpl. repeat split; reflexivity.
  Qed.

  Lemma buf_of_app_old : forall (g extra : list gnode) id,
      id < length g -> buf_of (g ++ extra) id = buf_of g id.
  Proof. intros g extra id H. unfold buf_of. rewrite nth_error_app1 by exact H. reflexivity. Qed.

  (** a freshly allocated (non-reshape) node owns a buffer nobody else has *)
  Theorem alloc_fresh_buffer : forall (s : state) a ch bop,
      buf_le (st_nodes s) ->
      let s' := fst (alloc s a ch bop None) in
      let h := snd (alloc s a ch bop None) in
      e_node h = length (st_nodes s) /\
      buf_of (st_nodes s') (e_node h) = e_node h /\
      forall id, id < length (st_nodes s) ->
                 buf_of (st_nodes s') id = buf_of (st_nodes s) id /\
                 buf_of (st_nodes s') id <> buf_of (st_nodes s') (e_node h).
  Proof.
    intros s a ch bop Hle. cbv zeta.
    destruct (alloc_nodes s a ch bop None) as (nd & Hn & _ & _ & Hb & He & _).
    assert (Hnew : buf_of (st_nodes (fst (alloc s a ch bop None)))
                          (e_node (snd (alloc s a ch bop None)))
                   = e_node (snd (alloc s a ch bop None))).
    { rewrite Hn, He. unfold buf_of. rewrite nth_error_app2 by lia. rewrite Nat.sub_diag.
      simpl. exact Hb. }
    split; [exact He |]. split; [exact Hnew |].
    intros id Hid. rewrite Hnew. rewrite Hn, (buf_of_app_old _ _ id Hid).
    split; [reflexivity |]. rewrite He. unfold buf_of.
    destruct (nth_error (st_nodes s) id) as [x|] eqn:Hx; [| apply nth_error_None in Hx; lia].
    specialize (Hle id x Hx). lia.
  Qed.

  (** the invariant is preserved by both forms of [alloc] ([reshape] passes the buffer of
      an existing node) *)
  Theorem alloc_buf_le : forall (s : state) a ch bop buf,
      buf_le (st_nodes s) ->
      (forall b, buf = Some b -> b <= length (st_nodes s)) ->
      buf_le (st_nodes (fst (alloc s a ch bop buf))).
  Proof.
    intros s a ch bop buf Hle Hb id x Hx.
    destruct (alloc_nodes s a ch bop buf) as (nd & Hn & _ & _ & Hbuf & _).
    rewrite Hn in Hx. destruct (lt_dec id (length (st_nodes s))) as [Hlt|Hge].
    - rewrite nth_error_app1 in Hx by exact Hlt. apply (Hle id x Hx).
    - rewrite nth_error_app2 in Hx by lia.
      destruct (id - length (st_nodes s)) as [|k] eqn:Hk; simpl in Hx.
      + injection Hx as Hx. subst x. rewrite Hbuf. destruct buf as [b|].
        * specialize (Hb b eq_refl). lia.
        * lia.
      + destruct k; discriminate Hx.
  Qed.

  Lemma buf_le_existing : forall (g : list gnode) id nd,
      buf_le g -> nth_error g id = Some nd -> p_buf (n_pay nd) <= length g.
  Proof.
    intros g id nd Hle Hn. specialize (Hle id nd Hn).
    assert (id < length g) by (eapply nth_lt; exact Hn). lia.
  Qed.

  (** * (O6) the model loop *)

  (** after a forward pass the output handle is the new output: the previous one is a root
      only if the pool or a layer still holds it *)
  Theorem model_forward_roots : forall (s s' : state) x out,
      model_forward O s x = Some (s', out) ->
      st_output s' = Some out /\
      roots s' = pool_handles (st_pool s')
                 ++ flat_map (fun l => [l_w l; l_b l]) (st_layers s') ++ [out].
  Proof.
    intros s s' x out H. unfold model_forward in H.
    apply obind_some in H. destruct H as ([s1 o1] & _ & H). injection H as Hs Ho. subst s' o1.
    split; reflexivity.
  Qed.

  (** * (O5, C09) a result of untracked operands keeps no reference to them *)

  Definition frame (s s' : state) : Prop :=
    st_pool s' = st_pool s /\ st_layers s' = st_layers s /\ st_output s' = st_output s /\
    st_tag s' = st_tag s.

  Definition leafnd (nd : gnode) : Prop := n_children nd = [] /\ p_bop (n_pay nd) = None.

  (** [s'] is [s] with childless closure-free nodes appended *)
  Definition Ext (s s' : state) : Prop :=
    frame s s' /\ exists extra, st_nodes s' = st_nodes s ++ extra /\ Forall leafnd extra.

  Lemma Ext_refl : forall s : state, Ext s s.
  Proof.
    intro s. split; [repeat split |]. exists []. split; [rewrite app_nil_r; reflexivity | constructor].
  Qed.

  Lemma Ext_trans : forall s1 s2 s3 : state, Ext s1 s2 -> Ext s2 s3 -> Ext s1 s3.
  Proof.
    intros s1 s2 s3 ((A1 & A2 & A3 & A4) & e1 & Hn1 & Hl1) ((B1 & B2 & B3 & B4) & e2 & Hn2 & Hl2).
    split; [repeat split; congruence |].
    exists (e1 ++ e2). split; [rewrite Hn2, Hn1, app_assoc; reflexivity |].
    apply Forall_app. split; assumption.
  Qed.

  Lemma Ext_length : forall s s' : state, Ext s s' -> length (st_nodes s) <= length (st_nodes s').
  Proof. intros s s' (_ & e & Hn & _). rewrite Hn, app_length. lia. Qed.

  (** the returned handle is untracked and points to a fresh childless closure-free node
      owning a fresh buffer *)
  Definition res_fresh (s s' : state) (h : handle) : Prop :=
    e_tracked h = false /\ length (st_nodes s) <= e_node h /\
    buf_of (st_nodes s') (e_node h) = e_node h /\
    exists nd, nth_error (st_nodes s') (e_node h) = Some nd /\ leafnd nd.

  Lemma res_fresh_weaken : forall s0 s s' h, Ext s0 s -> res_fresh s s' h -> res_fresh s0 s' h.
  Proof.
    intros s0 s s' h HE (H1 & H2 & H3 & H4). apply Ext_length in HE.
    split; [exact H1 |]. split; [lia |]. split; assumption.
  Qed.

  Lemma alloc_leaf : forall (s : state) a buf s' h,
      alloc s a [] None buf = (s', h) ->
      Ext s s' /\ e_tracked h = false /\ e_node h = length (st_nodes s) /\
      (exists nd, nth_error (st_nodes s') (e_node h) = Some nd /\ leafnd nd) /\
      (buf = None -> buf_of (st_nodes s') (e_node h) = e_node h).
  Proof.
    intros s a buf s' h H.
    destruct (alloc_nodes s a [] None buf) as (nd & Hn & Hch & Hbop & Hbuf & He & Ht & A1 & A2 & A3 & A4).
    rewrite H in *. simpl in *.
    assert (Hnth : nth_error (st_nodes s') (e_node h) = Some nd).
    { rewrite Hn, He, nth_error_app2 by lia. rewrite Nat.sub_diag. reflexivity. }
    split.
    { split; [repeat split; assumption |]. exists [nd]. split; [exact Hn |].
      constructor; [split; assumption | constructor]. }
    split; [exact Ht |]. split; [exact He |].
    split; [exists nd; split; [exact Hnth | split; assumption] |].
    intro Hb. subst buf. unfold buf_of. rewrite Hnth, Hbuf. symmetry. exact He.
  Qed.

  Lemma alloc_leaf_fresh : forall (s : state) a s' h,
      alloc s a [] None None = (s', h) -> Ext s s' /\ res_fresh s s' h.
  Proof.
    intros s a s' h H. destruct (alloc_leaf s a None s' h H) as (HE & Ht & He & Hnd & Hb).
    split; [exact HE |]. split; [exact Ht |]. split; [lia |]. split; [apply Hb; reflexivity | exact Hnd].
  Qed.

  Lemma unary_untr : forall (s : state) h fwd code s' h',
      e_tracked h = false -> unary s h fwd code = Some (s', h') -> Ext s s' /\ res_fresh s s' h'.
  Proof.
    intros s h fwd code s' h' Ht H. unfold unary in H.
    apply obind_some in H. destruct H as (a & _ & H).
    apply obind_some in H. destruct H as (r & _ & H).
    injection H as H. rewrite Ht in H. unfold alloc_if in H.
    apply (alloc_leaf_fresh s r s' h' H).
  Qed.

  Lemma binary_untr : forall (s : state) ha hb fwd code s' h',
      e_tracked ha = false -> e_tracked hb = false ->
      binary s ha hb fwd code = Some (s', h') -> Ext s s' /\ res_fresh s s' h'.
  Proof.
    intros s ha hb fwd code s' h' Hta Htb H. unfold binary in H.
    apply obind_some in H. destruct H as (a & _ & H).
    apply obind_some in H. destruct H as (b & _ & H).
    apply obind_some in H. destruct H as (r & _ & H).
    injection H as H. rewrite Hta, Htb in H. unfold alloc_if in H. simpl in H.
    apply (alloc_leaf_fresh s r s' h' H).
  Qed.

  Lemma chain : forall (s s1 s' : state) h',
      Ext s s1 -> Ext s1 s' /\ res_fresh s1 s' h' -> Ext s s' /\ res_fresh s s' h'.
  Proof.
    intros s s1 s' h' H1 (H2 & H3). split; [eapply Ext_trans; eassumption |].
    eapply res_fresh_weaken; eassumption.
  Qed.

  Lemma sum_untr : forall (s : state) k h s' h',
      k <> 0 -> e_tracked h = false -> op_sum O s k h = Some (s', h') ->
      Ext s s' /\ res_fresh s s' h'.
  Proof.
    intros s k h s' h' Hk Ht H. unfold op_sum in H.
    apply Nat.eqb_neq in Hk. rewrite Hk in H.
    apply obind_some in H. destruct H as (a & _ & H).
    apply (unary_untr s h _ _ s' h' Ht H).
  Qed.

  Lemma matmul_untr : forall (s : state) ta tb ha hb hc s' h',
      e_tracked ha = false -> e_tracked hb = false ->
      (forall h, hc = Some h -> e_tracked h = false) ->
      op_matmul O s ta tb ha hb hc = Some (s', h') -> Ext s s' /\ res_fresh s s' h'.
  Proof.
    intros s ta tb ha hb hc s' h' Hta Htb Htc H. unfold op_matmul in H.
    apply obind_some in H. destruct H as (a & _ & H).
    apply obind_some in H. destruct H as (b & _ & H).
    apply obind_some in H. destruct H as (c & _ & H).
    apply obind_some in H. destruct H as (r & _ & H).
    rewrite Hta, Htb in H.
    destruct hc as [h|].
    - rewrite (Htc h eq_refl) in H. cbn [orb] in H.
      apply (alloc_leaf_fresh s r s' h'). congruence.
    - cbn [orb] in H. apply (alloc_leaf_fresh s r s' h'). congruence.
  Qed.

  Lemma reshape_untr : forall (s : state) d h s' h',
      e_tracked h = false -> op_reshape s d h = Some (s', h') ->
      Ext s s' /\ e_tracked h' = false.
  Proof.
    intros s d h s' h' Ht H. unfold op_reshape in H.
    apply obind_some in H. destruct H as (nd & _ & H).
    apply obind_some in H. destruct H as (r & _ & H).
    rewrite Ht in H.
    assert (Ha : alloc s r [] None (Some (p_buf (n_pay nd))) = (s', h')) by congruence.
    destruct (alloc_leaf s r _ s' h' Ha) as (HE & Ht' & _). split; assumption.
  Qed.

  Lemma unroll_untr : forall (s : state) h sr sc0 fr fc s' h',
      e_tracked h = false -> op_unroll O s h sr sc0 fr fc = Some (s', h') ->
      Ext s s' /\ res_fresh s s' h'.
  Proof.
    intros s h sr sc0 fr fc s' h' Ht H. unfold op_unroll in H.
    apply obind_some in H. destruct H as (a & _ & H).
    apply obind_some in H. destruct H as (depth & _ & H).
    apply obind_some in H. destruct H as (rows & _ & H).
    apply obind_some in H. destruct H as (cols & _ & H).
    apply obind_some in H. destruct H as (r & _ & H).
    injection H as H. rewrite Ht in H. unfold alloc_if in H.
    apply (alloc_leaf_fresh s r s' h' H).
  Qed.

  Lemma expand_untr : forall (s : state) h rc cc s' h',
      e_tracked h = false -> op_expand O s h rc cc = Some (s', h') ->
      Ext s s' /\ res_fresh s s' h'.
  Proof.
    intros s h rc cc s' h' Ht H. unfold op_expand in H.
    apply obind_some in H. destruct H as (a & _ & H).
    apply obind_some in H. destruct H as (fcount & _ & H).
    apply obind_some in H. destruct H as (r & _ & H).
    injection H as H. rewrite Ht in H. unfold alloc_if in H.
    apply (alloc_leaf_fresh s r s' h' H).
  Qed.

  Lemma conv_untr : forall (s : state) sr sc0 hi hf s' h',
      e_tracked hi = false -> e_tracked hf = false ->
      op_conv O s sr sc0 hi hf = Some (s', h') -> Ext s s' /\ res_fresh s s' h'.
  Proof.
    intros s sr sc0 hi hf s' h' Hti Htf H. unfold op_conv in H.
    apply obind_some in H. destruct H as (image & _ & H).
    apply obind_some in H. destruct H as (filters & _ & H).
    apply obind_some in H. destruct H as (u1 & _ & H).
    apply obind_some in H. destruct H as (u2 & _ & H).
    apply obind_some in H. destruct H as (depth & _ & H).
    apply obind_some in H. destruct H as (rows & _ & H).
    apply obind_some in H. destruct H as (cols & _ & H).
    apply obind_some in H. destruct H as (fr & _ & H).
    apply obind_some in H. destruct H as (fc & _ & H).
    apply obind_some in H. destruct H as (rcount & _ & H).
    apply obind_some in H. destruct H as (ccount & _ & H).
    apply obind_some in H. destruct H as ([s1 hu] & Hr1 & H).
    apply obind_some in H. destruct H as (ua & _ & H).
    apply obind_some in H. destruct H as (lst & _ & H).
    apply obind_some in H. destruct H as ([s2 hm] & Hr2 & H).
    apply obind_some in H. destruct H as ([s3 hcv] & Hr3 & H).
    destruct (unroll_untr s hi sr sc0 fr fc s1 hu Hti Hr1) as (E1 & (Tu & _)).
    destruct (reshape_untr s1 _ hf s2 hm Htf Hr2) as (E2 & Tm).
    destruct (matmul_untr s2 false true hu hm None s3 hcv Tu Tm (fun h Hh => ltac:(discriminate Hh)) Hr3)
      as (E3 & (Tc & _)).
    apply (chain s s3 s' h'); [eapply Ext_trans; [exact E1 | eapply Ext_trans; [exact E2 | exact E3]] |].
    apply (expand_untr s3 hcv rcount ccount s' h' Tc H).
  Qed.

  Lemma sub_untr : forall (s : state) ha hb s' h',
      e_tracked ha = false -> e_tracked hb = false ->
      op_sub O s ha hb = Some (s', h') -> Ext s s' /\ res_fresh s s' h'.
  Proof.
    intros s ha hb s' h' Hta Htb H. unfold op_sub in H.
    apply obind_some in H. destruct H as ([s1 hn] & Hr & H).
    destruct (unary_untr s hb _ _ s1 hn Htb Hr) as (E1 & (Tn & _)).
    apply (chain s s1 s' h' E1). apply (binary_untr s1 ha hn _ _ s' h' Hta Tn H).
  Qed.

  Lemma axpy_untr : forall (s : state) alpha hx hy s' h',
      e_tracked hx = false -> e_tracked hy = false ->
      op_axpy O s alpha hx hy = Some (s', h') -> Ext s s' /\ res_fresh s s' h'.
  Proof.
    intros s alpha hx hy s' h' Htx Hty H. unfold op_axpy in H.
    apply obind_some in H. destruct H as ([s1 hs] & Hr & H).
    destruct (unary_untr s hx _ _ s1 hs Htx Hr) as (E1 & (Ts & _)).
    apply (chain s s1 s' h' E1). apply (binary_untr s1 hs hy _ _ s' h' Ts Hty H).
  Qed.

  Lemma softmax_untr : forall (s : state) h s' h',
      e_tracked h = false -> op_softmax O s h = Some (s', h') -> Ext s s' /\ res_fresh s s' h'.
  Proof.
    intros s h s' h' Ht H. unfold op_softmax in H.
    apply obind_some in H. destruct H as ([s1 he] & Hr1 & H).
    apply obind_some in H. destruct H as ([s2 hs] & Hr2 & H).
    destruct (unary_untr s h _ _ s1 he Ht Hr1) as (E1 & (Te & _)).
    destruct (sum_untr s1 1 he s2 hs (Nat.neq_succ_0 0) Te Hr2) as (E2 & (Ts & _)).
    apply (chain s s2 s' h'); [eapply Ext_trans; eassumption |].
    apply (binary_untr s2 he hs _ _ s' h' Te Ts H).
  Qed.

  (** operations that neither alias ([reshape], [sum(0)] = clone) nor attach a user closure *)
  Definition plain_op (k : @opk F) : bool :=
    match k with
    | OCustom _ => false
    | OReshape _ => false
    | OSum 0 => false
    | _ => true
    end.

  Theorem apply_op_untracked : forall (s : state) k hs s' h,
      plain_op k = true -> Forall (fun x : handle => e_tracked x = false) hs ->
      apply_op O s k hs = Some (s', h) ->
      Ext s s' /\ res_fresh s s' h.
  Proof.
    intros s k hs s' h Hk Hall H.
    assert (Hu : forall x, In x hs -> e_tracked x = false) by (apply Forall_forall; exact Hall).
    destruct k as [ | | | | | cc | | ee | | | kk | dd | ta tb | sr sc0 | | | | alpha | cu ];
      simpl in Hk; try discriminate Hk;
      destruct hs as [|a1 [|a2 [|a3 [|a4 l]]]]; simpl in H; try discriminate H;
        try (pose proof (Hu a1 (or_introl eq_refl)) as Ha);
        try (pose proof (Hu a2 (or_intror (or_introl eq_refl))) as Hb);
        try (pose proof (Hu a3 (or_intror (or_intror (or_introl eq_refl)))) as Hc).
    - apply (binary_untr s a1 a2 _ _ s' h Ha Hb H).
    - apply (sub_untr s a1 a2 s' h Ha Hb H).
    - apply (binary_untr s a1 a2 _ _ s' h Ha Hb H).
    - apply (binary_untr s a1 a2 _ _ s' h Ha Hb H).
    - apply (unary_untr s a1 _ _ s' h Ha H).
    - apply (unary_untr s a1 _ _ s' h Ha H).
    - apply (unary_untr s a1 _ _ s' h Ha H).
    - apply (unary_untr s a1 _ _ s' h Ha H).
    - apply (unary_untr s a1 _ _ s' h Ha H).
    - apply (unary_untr s a1 _ _ s' h Ha H).
    - destruct kk as [|kk]; [discriminate Hk |].
      apply (sum_untr s (Datatypes.S kk) a1 s' h (Nat.neq_succ_0 kk) Ha H).
    - apply (matmul_untr s ta tb a1 a2 None s' h Ha Hb (fun x Hx => ltac:(discriminate Hx)) H).
    - apply (matmul_untr s ta tb a1 a2 (Some a3) s' h Ha Hb); [| exact H].
      intros x Hx. injection Hx as Hx. subst x. exact Hc.
    - apply (conv_untr s sr sc0 a1 a2 s' h Ha Hb H).
    - apply (unary_untr s a1 _ _ s' h Ha H).
    - apply (unary_untr s a1 _ _ s' h Ha H).
    - apply (softmax_untr s a1 s' h Ha H).
    - apply (axpy_untr s alpha a1 a2 s' h Ha Hb H).
  Qed.

  (** ** appending nodes and one leaf root does not change the counts of old buffers *)

  Lemma kids_app_old : forall (g extra : list gnode) n, n < length g -> kids (g ++ extra) n = kids g n.
  Proof. intros g extra n H. unfold kids. rewrite nth_error_app1 by exact H. reflexivity. Qed.

  Lemma kids_in_range : forall (g : list gnode) n c, In c (kids g n) -> n < length g.
  Proof.
    intros g n c H. unfold kids in H. destruct (nth_error g n) as [nd|] eqn:Hn; [| destruct H].
    eapply nth_lt. exact Hn.
  Qed.

  Lemma creach_app : forall (g extra : list gnode) t x, creach g t x -> creach (g ++ extra) t x.
  Proof.
    intros g extra t x H. induction H as [|m c Hm IH Hin].
    - apply cr_refl.
    - apply (cr_step _ _ m c IH). rewrite kids_app_old; [exact Hin |].
      eapply kids_in_range. exact Hin.
  Qed.

  Lemma creach_app_old : forall (g extra : list gnode) t x,
      topo g -> t < length g -> creach (g ++ extra) t x -> creach g t x /\ x < length g.
  Proof.
    intros g extra t x Ht Hlt H. induction H as [|m c Hm IH Hin].
    - split; [apply cr_refl | exact Hlt].
    - destruct IH as (IH1 & IH2). rewrite kids_app_old in Hin by exact IH2.
      split; [eapply cr_step; eassumption |]. specialize (Ht m c Hin). lia.
  Qed.

  Lemma holds_app_old : forall (g extra : list gnode) b n,
      topo g -> n < length g -> holds (g ++ extra) b n = holds g b n.
  Proof.
    intros g extra b n Ht Hn. unfold holds. rewrite nth_error_app1 by exact Hn.
    destruct (nth_error g n) as [nd|] eqn:Hnd; [| reflexivity].
    f_equal. apply count_if_ext. intros e He.
    assert (Hc : e_node e < n).
    { apply Ht. unfold kids. rewrite Hnd. apply in_map. exact He. }
    rewrite buf_of_app_old by lia. reflexivity.
  Qed.

  Lemma held_ext_in : forall (g g' : list gnode) l b,
      (forall n, In n l -> holds g b n = holds g' b n) -> held g l b = held g' l b.
  Proof.
    intros g g' l b H. unfold held. induction l as [|n l IH]; simpl; [reflexivity |].
    rewrite (H n (or_introl eq_refl)), IH; [reflexivity |].
    intros x Hx. apply H. right. exact Hx.
  Qed.

  Lemma held_perm : forall (g : list gnode) l l' b, Permutation l l' -> held g l b = held g l' b.
  Proof.
    intros g l l' b Hp. unfold held.
    induction Hp as [| x l l' Hp IH | x y l | l l' l'' Hp1 IH1 Hp2 IH2]; simpl.
    - reflexivity.
    - rewrite IH. reflexivity.
    - lia.
    - congruence.
  Qed.

  Lemma sc_append_leaf_root : forall (g extra : list gnode) (A B : list handle) h nd b,
      topo g ->
      (forall x, In x (A ++ B) -> e_node x < length g) ->
      length g <= e_node h ->
      nth_error (g ++ extra) (e_node h) = Some nd -> leafnd nd ->
      buf_of (g ++ extra) (e_node h) = e_node h ->
      b < length g ->
      sc (g ++ extra) (A ++ h :: B) b = sc g (A ++ B) b.
  Proof.
    intros g extra A B h nd b Ht Hin Hh Hnd (Hch & Hbop) Hbuf Hb. unfold sc.
    assert (Hcnt : forall l : list handle, (forall x, In x l -> e_node x < length g) ->
               count_if (fun x => buf_of (g ++ extra) (e_node x) =? b) l
               = count_if (fun x => buf_of g (e_node x) =? b) l).
    { intros l Hl. apply count_if_ext. intros x Hx. rewrite buf_of_app_old by (apply Hl; exact Hx).
      reflexivity. }
    f_equal.
    - rewrite !count_if_app, count_if_cons, Hbuf.
      assert (Hne : (e_node h =? b) = false) by (apply Nat.eqb_neq; lia). rewrite Hne.
      rewrite (Hcnt A), (Hcnt B); [reflexivity | |];
        intros x Hx; apply Hin; apply in_or_app; [right | left]; exact Hx.
    - destruct (live_spec (g ++ extra) (A ++ h :: B)) as (Hnd1 & Hl1).
      destruct (live_spec g (A ++ B)) as (Hnd2 & Hl2).
      assert (Hk : kids (g ++ extra) (e_node h) = []).
      { unfold kids. rewrite Hnd, Hch. reflexivity. }
      assert (Hold : forall x, In x (live g (A ++ B)) -> x < length g).
      { intros x Hx. apply Hl2 in Hx. destruct Hx as (h0 & Hh0 & Hc).
        apply (creach_le g _ _ Ht) in Hc. specialize (Hin h0 Hh0). lia. }
      assert (Hperm : Permutation (live (g ++ extra) (A ++ h :: B)) (e_node h :: live g (A ++ B))).
      { apply NoDup_Permutation.
        - exact Hnd1.
        - constructor; [| exact Hnd2]. intro Hx. apply Hold in Hx. lia.
        - intro x. rewrite Hl1. split.
          + intros (h0 & Hh0 & Hc). apply in_app_or in Hh0. destruct Hh0 as [Hh0|[Hh0|Hh0]].
            * right. apply Hl2. exists h0. split; [apply in_or_app; left; exact Hh0 |].
              apply (creach_app_old g extra _ x Ht); [apply Hin; apply in_or_app; left; exact Hh0 | exact Hc].
            * subst h0. left. symmetry. apply (creach_leaf _ _ _ Hk Hc).
            * right. apply Hl2. exists h0. split; [apply in_or_app; right; exact Hh0 |].
              apply (creach_app_old g extra _ x Ht); [apply Hin; apply in_or_app; right; exact Hh0 | exact Hc].
          + intros [Hx|Hx].
            * subst x. exists h. split; [apply in_or_app; right; left; reflexivity | apply cr_refl].
            * apply Hl2 in Hx. destruct Hx as (h0 & Hh0 & Hc). exists h0. split.
              -- apply in_app_or in Hh0. apply in_or_app. destruct Hh0 as [H0|H0];
                   [left; exact H0 | right; right; exact H0].
              -- apply creach_app. exact Hc. }
      rewrite (held_perm _ _ _ b Hperm). unfold held at 1. simpl. fold (held (g ++ extra) (live g (A ++ B)) b).
      assert (Hz : holds (g ++ extra) b (e_node h) = 0).
      { apply (holds_zero _ b _ nd Hnd).
        - intros e He. rewrite Hch in He. destruct He.
        - intro Hs. unfold is_sig in Hs. rewrite Hbop in Hs. discriminate Hs. }
      rewrite Hz. simpl. apply held_ext_in. intros n Hn.
      apply holds_app_old; [exact Ht | apply Hold; exact Hn].
  Qed.

  (** (C09) the result of a plain operation on untracked operands holds none of them: once
      the result handle is in the pool, every existing buffer has the count it had before *)
  Theorem untracked_op_keeps_counts : forall (s : state) k hs s' h b,
      topo (st_nodes s) ->
      (forall x, In x (roots s) -> e_node x < length (st_nodes s)) ->
      plain_op k = true -> Forall (fun x : handle => e_tracked x = false) hs ->
      apply_op O s k hs = Some (s', h) ->
      b < length (st_nodes s) ->
      strong_count (push s' (Some h)) b = strong_count s b.
  Proof.
    intros s k hs s' h b Ht Hin Hk Hall H Hb.
    destruct (apply_op_untracked s k hs s' h Hk Hall H)
      as (((F1 & F2 & F3 & F4) & extra & Hn & _) & (_ & Hge & Hbuf & nd & Hnd & Hleaf)).
    rewrite !strong_count_sc.
    assert (Hr' : roots (push s' (Some h))
                  = pool_handles (st_pool s) ++ h ::
                    (flat_map (fun l => [l_w l; l_b l]) (st_layers s)
                     ++ match st_output s with Some x => [x] | None => [] end)).
    { rewrite roots_eq. simpl. rewrite F1, F2, F3, pool_handles_app. simpl.
      rewrite <- app_assoc. reflexivity. }
    rewrite Hr'. change (st_nodes (push s' (Some h))) with (st_nodes s'). rewrite Hn.
    rewrite Hn in Hnd, Hbuf. rewrite (roots_eq s) in *.
    apply (sc_append_leaf_root (st_nodes s) extra _ _ h nd b Ht Hin Hge Hnd Hleaf Hbuf Hb).
  Qed.

  (** * (O6) after [model_update] the rebound parameters are fresh leaves *)

  Theorem model_update_fresh_params : forall s : state,
      gd_pre s (model_params s) ->
      exists s', model_update O s = Some s' /\
        st_pool s' = st_pool s /\ st_output s' = st_output s /\
        length (model_params s') = length (model_params s) /\
        forall i h, nth_error (model_params s) i = Some h ->
          (* a parameter without gradient keeps its handle and its node *)
          (grad_of s h = None -> nth_error (model_params s') i = Some h) /\
          (* a parameter with a gradient -- the first handle of its node in the list -- is
             rebound to a fresh childless node without closure that owns a fresh buffer:
             nothing of the previous iteration is held *)
          (forall p g, h_arr s h = Some p -> grad_of s h = Some g ->
             ~ In (e_node h) (map e_node (firstn i (model_params s))) ->
             exists h' nd', nth_error (model_params s') i = Some h' /\
               length (st_nodes s) <= e_node h' /\
               nth_error (st_nodes s') (e_node h') = Some nd' /\
               n_children nd' = [] /\ p_bop (n_pay nd') = None /\
               p_buf (n_pay nd') = e_node h').
  Proof.
    intros s Hpre.
    destruct (model_update_spec O s Hpre) as (s1 & out & Hup & Hpost & Hmu & Hparams & _ & _).
    exists (with_layers s1 (rebuild_layers (st_layers s) out)).
    destruct Hpost as ((P1 & P2 & P3 & P4 & P5 & P6) & Hlen & Hlen' & Hfrozen & Hunfrozen & _).
    split; [exact Hmu |]. split; [exact P1 |]. split; [exact P5 |].
    rewrite Hparams. split; [exact Hlen |].
    intros i h Hi. split.
    - intro Hg. apply (Hfrozen i h Hi Hg).
    - intros p g Hp Hg Hfirst. destruct (Hunfrozen i h p g Hi Hp Hg Hfirst) as (Hout & Hnode).
      eexists. eexists. split; [exact Hout |]. simpl.
      split; [lia |]. split; [exact Hnode |]. simpl. repeat split.
  Qed.
End Ownership.

Print Assumptions live_spec.
Print Assumptions creach_le.
Print Assumptions strong_count_cells_irrelevant.
Print Assumptions strong_count_backward.
Print Assumptions strong_count_clear_grad.
Print Assumptions sole_owner.
Print Assumptions takevec_step.
Print Assumptions root_and_entry_ge2.
Print Assumptions drop_step.
Print Assumptions leaf_roots_sole_owner.
Print Assumptions only_root_sole_owner.
Print Assumptions alloc_fresh_buffer.
Print Assumptions alloc_buf_le.
Print Assumptions apply_op_untracked.
Print Assumptions untracked_op_keeps_counts.
Print Assumptions model_forward_roots.
Print Assumptions model_update_fresh_params.
