(** P4 (C15): the arrays computed by the layers, the costs and the model loop
    (Model/Program.v), in terms of the array-level specifications
    (MatmulSpec, ConvSpec, EwSpec, ReduceSpec).

    Two levels:
    - program level: [layer_forward], [model_forward], [cost_apply], [model_backward] succeed
      and the array seen through the result handle is the value of the corresponding array
      functions ([a_matmul], [conv], [a_add], the activations, [a_sub], ...);
    - array level: the element-wise value of those compositions.

    No assumption on the scalar operations. *)

From Coq Require Import List Arith Bool Lia PeanoNat.
From Corgi Require Import Lib.OptionMonad Lib.IdxDefs Lib.Idx Model.Scalar Model.Arr
     Model.SlicedOp Model.Elementwise Model.Linalg Model.Image Model.Ops Model.Engine
     Model.Program
     Proofs.ArrFacts Proofs.BroadcastDims Proofs.SpecDefs Proofs.SlicedOpSpec Proofs.EwSpec
     Proofs.ReduceSpec Proofs.MatmulSpec Proofs.ConvSpec Proofs.ProgramFacts.
Import ListNotations.

(** * Program level *)

Section ProgramLevel.
  Context {F : Type} (O : ScalarOps F).

  Notation state := (@state F).

  (** the array function of an activation *)
  Definition act_fwd (a : act) (x : arr F) : option (arr F) :=
    match a with
    | ANone => Some x
    | ARelu => a_relu O x
    | ASigmoid => a_sigmoid O x
    | ASoftmax => a_softmax O x
    end.

  Lemma apply_act_fwd : forall (s : state) a h x r,
      h_arr s h = Some x -> act_fwd a x = Some r ->
      exists s' h', apply_act O s a h = Some (s', h') /\ h_arr s' h' = Some r /\ sframe s s'.
  Proof.
    intros s a h x r Hx Hr. destruct a; cbn [act_fwd apply_act] in *.
    - inversion Hr. subst. exists s, h. split; [reflexivity|]. split; [exact Hx|apply sframe_refl].
    - destruct (unary_fwd s h (a_relu O) (fun _ => BRelu) x r Hx Hr) as (s' & h' & H & R).
      exists s', h'. split; [exact H|]. split; [apply (res_arr _ _ _ _ _ _ R)|apply R].
    - destruct (unary_fwd s h (a_sigmoid O) (fun r => BSigmoid (vals r)) x r Hx Hr)
        as (s' & h' & H & R).
      exists s', h'. split; [exact H|]. split; [apply (res_arr _ _ _ _ _ _ R)|apply R].
    - destruct (softmax_fwd O s h x r Hx Hr) as (s' & h' & cs & H & R).
      exists s', h'. split; [exact H|]. split; [apply (res_arr _ _ _ _ _ _ R)|apply R].
  Qed.

  (** a dense layer is [matmul(input, weights^T, bias)] followed by the activation *)
  Theorem layer_forward_dense : forall (s : state) l input X W Bv r0 r,
      l_conv l = None ->
      h_arr s input = Some X -> h_arr s (l_w l) = Some W -> h_arr s (l_b l) = Some Bv ->
      a_matmul O X false W true (Some Bv) = Some r0 -> act_fwd (l_act l) r0 = Some r ->
      exists s' h, layer_forward O s l input = Some (s', h) /\ h_arr s' h = Some r /\ sframe s s'.
  Proof.
    intros s l input X W Bv r0 r Hc HX HW HB Hm Ha.
    assert (Hopt : opt_arr s (Some (l_b l)) = Some (Some Bv)) by (cbn [opt_arr]; rewrite HB; reflexivity).
    destruct (matmul_fwd O s false true input (l_w l) (Some (l_b l)) X W (Some Bv) r0 HX HW Hopt Hm)
      as (s1 & h1 & h3 & H1 & R1).
    destruct (apply_act_fwd s1 (l_act l) h1 r0 r (res_arr _ _ _ _ _ _ R1) Ha) as (s' & h & H2 & Hr & Hf).
    exists s', h. split; [|split; [exact Hr|eapply sframe_trans; [apply R1|exact Hf]]].
    unfold layer_forward. rewrite Hc, H1. cbn [obind]. exact H2.
  Qed.

  (** a convolutional layer is [conv(input, filters) + bias] followed by the activation *)
  Theorem layer_forward_conv : forall (s : state) l input sr sc X W Bv r1 r0 r,
      l_conv l = Some (sr, sc) ->
      h_arr s input = Some X -> h_arr s (l_w l) = Some W -> h_arr s (l_b l) = Some Bv ->
      conv O X W sr sc = Some r1 -> a_add O r1 Bv = Some r0 -> act_fwd (l_act l) r0 = Some r ->
      exists s' h, layer_forward O s l input = Some (s', h) /\ h_arr s' h = Some r /\ sframe s s'.
  Proof.
    intros s l input sr sc X W Bv r1 r0 r Hc HX HW HB Hcv Hadd Ha.
    destruct (conv_fwd O s sr sc input (l_w l) X W r1 HX HW Hcv) as (s1 & hc & cs & H1 & R1).
    assert (HB1 : h_arr s1 (l_b l) = Some Bv) by (apply (sframe_h_arr s s1); [apply R1|exact HB]).
    destruct (binary_fwd s1 hc (l_b l) (a_add O) BAdd r1 Bv r0 (res_arr _ _ _ _ _ _ R1) HB1 Hadd)
      as (s2 & h2 & H2 & R2).
    destruct (apply_act_fwd s2 (l_act l) h2 r0 r (res_arr _ _ _ _ _ _ R2) Ha) as (s' & h & H3 & Hr & Hf).
    exists s', h. split; [|split; [exact Hr|]].
    - unfold layer_forward. rewrite Hc, H1. cbn [obind]. unfold op_add. rewrite H2. cbn [obind]. exact H3.
    - eapply sframe_trans; [apply R1|]. eapply sframe_trans; [apply R2|exact Hf].
  Qed.

  (** ** the model: a left fold of the layers *)

  Fixpoint layers_fwd (s : state) (ls : list layer) (h : handle) : option (state * handle) :=
    match ls with
    | [] => Some (s, h)
    | l :: ls' => r <- layer_forward O s l h ;; let '(s1, h1) := r in layers_fwd s1 ls' h1
    end.

  Lemma layers_fold : forall ls (acc : option (state * handle)),
      fold_left (fun (acc : option (state * handle)) (l : layer) =>
                   st <- acc ;; let '(s', h) := st in layer_forward O s' l h) ls acc
      = (st <- acc ;; let '(s, h) := st in layers_fwd s ls h).
  Proof.
    induction ls as [|l ls IH]; intros acc.
    - destruct acc as [[s h]|]; reflexivity.
    - cbn [fold_left]. rewrite IH. destruct acc as [[s h]|]; [|reflexivity].
      cbn [obind layers_fwd]. destruct (layer_forward O s l h) as [[s1 h1]|]; reflexivity.
  Qed.

  (** [Model::forward]: the layers in order, each fed the previous result; the final handle
      is returned and remembered as the model's output *)
  Theorem model_forward_spec : forall (s : state) input,
      model_forward O s input =
      (r <- layers_fwd s (st_layers s) input ;;
       let '(s1, out) := r in Some (with_output s1 (Some out), out)).
  Proof. intros s input. unfold model_forward. rewrite layers_fold. reflexivity. Qed.

  Corollary model_forward_output : forall (s : state) input s' out,
      model_forward O s input = Some (s', out) -> st_output s' = Some out.
  Proof.
    intros s input s' out H. rewrite model_forward_spec in H.
    apply bindI in H. destruct H as ([s1 o1] & _ & H). inversion H. reflexivity.
  Qed.

  (** ** costs *)

  Theorem cost_mse_fwd : forall (s : state) output target o t d p r,
      h_arr s output = Some o -> h_arr s target = Some t ->
      a_sub O t o = Some d -> a_powf O (two O) d = Some p ->
      a_scale O (fdiv O (f1 O) (fofnat O (prod (dims o)))) p = Some r ->
      exists s' h, cost_apply O s CMse output target = Some (s', h) /\ h_arr s' h = Some r /\
                   sframe s s'.
  Proof.
    intros s output target o t d p r Ho Ht Hd Hp Hr.
    destruct (sub_fwd O s target output t o d Ht Ho Hd) as (s1 & h1 & hn & H1 & R1).
    destruct (unary_fwd s1 h1 (a_powf O (two O)) (fun _ => BPowf (two O)) d p
                        (res_arr _ _ _ _ _ _ R1) Hp) as (s2 & h2 & H2 & R2).
    destruct (unary_fwd s2 h2 (a_scale O (fdiv O (f1 O) (fofnat O (prod (dims o)))))
                        (fun _ => BScale (fdiv O (f1 O) (fofnat O (prod (dims o))))) p r
                        (res_arr _ _ _ _ _ _ R2) Hr) as (s' & h & H3 & R3).
    exists s', h. split; [|split; [apply (res_arr _ _ _ _ _ _ R3)|]].
    - unfold cost_apply. rewrite Ho. cbn [obind]. cbv zeta. rewrite H1. cbn [obind].
      unfold op_powf. rewrite H2. cbn [obind]. exact H3.
    - eapply sframe_trans; [apply R1|]. eapply sframe_trans; [apply R2|apply R3].
  Qed.

  Theorem cost_ce_fwd : forall (s : state) output target o t batch nt lo m r,
      h_arr s output = Some o -> h_arr s target = Some t ->
      nth_error (dims o) 0 = Some batch ->
      a_neg O t = Some nt -> a_ln O o = Some lo -> a_mul O nt lo = Some m ->
      a_scale O (fdiv O (f1 O) (fofnat O batch)) m = Some r ->
      exists s' h, cost_apply O s CCrossEntropy output target = Some (s', h) /\
                   h_arr s' h = Some r /\ sframe s s'.
  Proof.
    intros s output target o t batch nt lo m r Ho Ht Hb Hnt Hlo Hm Hr.
    destruct (unary_fwd s target (a_neg O) (fun _ => BNeg) t nt Ht Hnt) as (s1 & h1 & H1 & R1).
    assert (Ho1 : h_arr s1 output = Some o) by (apply (sframe_h_arr s s1); [apply R1|exact Ho]).
    destruct (unary_fwd s1 output (a_ln O) (fun _ => BLn) o lo Ho1 Hlo) as (s2 & h2 & H2 & R2).
    assert (Hnt2 : h_arr s2 h1 = Some nt)
      by (apply (sframe_h_arr s1 s2); [apply R2|apply (res_arr _ _ _ _ _ _ R1)]).
    destruct (binary_fwd s2 h1 h2 (a_mul O) BMul nt lo m Hnt2 (res_arr _ _ _ _ _ _ R2) Hm)
      as (s3 & h3 & H3 & R3).
    destruct (unary_fwd s3 h3 (a_scale O (fdiv O (f1 O) (fofnat O batch)))
                        (fun _ => BScale (fdiv O (f1 O) (fofnat O batch))) m r
                        (res_arr _ _ _ _ _ _ R3) Hr) as (s' & h & H4 & R4).
    exists s', h. split; [|split; [apply (res_arr _ _ _ _ _ _ R4)|]].
    - unfold cost_apply. rewrite Ho. cbn [obind]. rewrite Hb. cbn [obind].
      unfold op_neg. rewrite H1. cbn [obind]. unfold op_ln. rewrite H2. cbn [obind].
      unfold op_mul. rewrite H3. cbn [obind]. exact H4.
    - eapply sframe_trans; [apply R1|]. eapply sframe_trans; [apply R2|].
      eapply sframe_trans; [apply R3|apply R4].
  Qed.

  (** [Model::backward] returns the sum of the values of the cost array *)
  Theorem model_backward_loss : forall (s : state) target s' loss,
      model_backward O s target = Some (s', loss) ->
      exists output s1 err ea,
        st_output s = Some output /\
        cost_apply O s (st_cost s) output target = Some (s1, err) /\
        h_arr s1 err = Some ea /\ loss = vsum O (vals ea) /\
        exists lg, run_backward (E O) (st_nodes s1) (e_node err) (e_keep err) None
                   = Some (st_nodes s', lg).
  Proof.
    intros s target s' loss H. unfold model_backward in H.
    apply bindI in H. destruct H as (output & Ho & H).
    apply bindI in H. destruct H as ([s1 err] & Hc & H).
    apply bindI in H. destruct H as ([g lg] & Hb & H).
    apply bindI in H. destruct H as (ea & Hea & H). inversion H. subst. clear H.
    exists output, s1, err, ea. repeat (split; [assumption || reflexivity|]).
    exists lg. exact Hb.
  Qed.
End ProgramLevel.

(** * Array level *)

Section ArrayLevel.
  Context {F : Type} (O : ScalarOps F).

  Lemma get_mapped : forall (g : F -> F) (a : arr F) I,
      get {| dims := dims a; vals := map g (vals a) |} I = option_map g (get a I).
  Proof. intros g a I. rewrite get_map. reflexivity. Qed.

  (** ** dense layer: [X . W^T + b] *)

  Theorem dense_value : forall (X W Bv : arr F) batch nin nout,
      wf X -> wf W -> wf Bv ->
      dims X = batch ++ [nin] -> batch <> [] -> dims W = [nout; nin] -> dims Bv = [nout] ->
      exists r0,
        a_matmul O X false W true (Some Bv) = Some r0 /\ wf r0 /\ dims r0 = batch ++ [nout] /\
        forall J o, in_range J batch -> o < nout ->
          (forall k, k < nin -> in_range (J ++ [k]) (dims X) /\ in_range [o; k] (dims W)) /\
          in_range [o] (dims Bv) /\
          get r0 (J ++ [o])
          = Some (fadd O (getd O Bv [o])
                       (vsum O (map (fun k => fmul O (getd O X (J ++ [k])) (getd O W [o; k]))
                                    (seq 0 nin)))).
  Proof.
    intros X W Bv batch nin nout HwX HwW HwB EX Hne EW EB.
    destruct (exists_last Hne) as (la & ar & ->).
    assert (EX' : dims X = la ++ [ar; nin]) by (rewrite EX, <- app_assoc; reflexivity).
    assert (Hcomp : bcompat la []) by (apply bcompat_sym; exact I).
    destruct (matmul_spec_bias_row O X false W true Bv la [] ar nin nout nin
                                   HwX HwW HwB EX' EW eq_refl Hcomp EB)
      as [(r0 & Hr0 & Hw0 & Hd0 & Hv) Hbias].
    cbn [mm_rows mm_cols mm_inner_a] in Hd0, Hv, Hbias. rewrite bmax_nil_r in Hd0, Hv.
    exists r0. split; [exact Hr0|]. split; [exact Hw0|].
    split; [rewrite Hd0, <- app_assoc; reflexivity|].
    intros J o HJ Ho.
    destruct (in_range_snoc_inv J la ar HJ) as (J' & i & -> & HJ' & Hi).
    destruct (Hv J' i o HJ' Hi Ho) as [Hrange Hval].
    assert (Hidx : forall k, a_idx false la J' i k = (J' ++ [i]) ++ [k]).
    { intros k. unfold a_idx. rewrite (bclamp_id la J' HJ'), <- app_assoc. reflexivity. }
    assert (Hidb : forall k, b_idx true [] J' k o = [o; k]).
    { intros k. unfold b_idx. rewrite bclamp_nil. reflexivity. }
    split; [|split].
    - intros k Hk. destruct (Hrange k Hk) as [Ha Hb]. rewrite Hidx in Ha. rewrite Hidb in Hb.
      split; assumption.
    - rewrite EB. constructor; [exact Ho|constructor].
    - rewrite <- app_assoc. cbn [app]. rewrite Hval. f_equal. f_equal. f_equal.
      apply map_ext. intros k. rewrite Hidx, Hidb. reflexivity.
  Qed.

  (** a single input vector is treated as a batch of one: the result is [[1; nout]] *)
  Theorem dense_value_vec : forall (X W Bv : arr F) nin nout,
      wf X -> wf W -> wf Bv -> dims X = [nin] -> dims W = [nout; nin] -> dims Bv = [nout] ->
      exists r0,
        a_matmul O X false W true (Some Bv) = Some r0 /\ wf r0 /\ dims r0 = [1; nout] /\
        forall o, o < nout ->
          (forall k, k < nin -> in_range [k] (dims X) /\ in_range [o; k] (dims W)) /\
          in_range [o] (dims Bv) /\
          get r0 [0; o]
          = Some (fadd O (getd O Bv [o])
                       (vsum O (map (fun k => fmul O (getd O X [k]) (getd O W [o; k])) (seq 0 nin)))).
  Proof.
    intros X W Bv nin nout HwX HwW HwB EX EW EB.
    rewrite (matmul_vec_l O X false W true (Some Bv) nin [] nout nin HwX HwW EX EW).
    set (X' := {| dims := [1; nin]; vals := vals X |}).
    destruct (dense_value X' W Bv [1] nin nout (wf_reshape_row X nin HwX EX) HwW HwB eq_refl
                          ltac:(discriminate) EW EB) as (r0 & Hr0 & Hw0 & Hd0 & Hv).
    exists r0. split; [exact Hr0|]. split; [exact Hw0|]. split; [exact Hd0|].
    intros o Ho.
    assert (H0 : in_range [0] [1]) by (constructor; [lia|constructor]).
    destruct (Hv [0] o H0 Ho) as (Hrange & Hb & Hval). split; [|split; [exact Hb|]].
    - intros k Hk. destruct (Hrange k Hk) as [_ HW]. split; [|exact HW].
      rewrite EX. constructor; [exact Hk|constructor].
    - cbn [app] in Hval. rewrite Hval. f_equal. f_equal. f_equal. apply map_ext. intros k.
      unfold X'. rewrite (getd_reshape_row O X nin k EX). reflexivity.
  Qed.
  (** ** convolutional layer: [conv(image, filters) + bias] *)

  (** the literal value of [conv] at [(B, f, y, x)] ([conv_spec]) *)
  Definition conv_elem (image filters : arr F) (B : list nat) (depth fr fc sr sc f y x : nat) : F :=
    fadd O (f0 O)
         (vsum O (map (fun q =>
                         let k := q / (fr * fc) in
                         let m := (q / fc) mod fr in
                         let n := q mod fc in
                         fmul O (getd O image (B ++ [k; y * sr + m; x * sc + n]))
                                (getd O filters [f; k; m; n]))
                      (seq 0 (depth * fr * fc)))).

  Lemma bmax_rev_nil_r : forall x, bmax_rev x [] = x.
  Proof. intros [|a x]; reflexivity. Qed.

  Lemma lastn3_snoc3 : forall {A} (l : list A) a b c, lastn 3 (l ++ [a; b; c]) = [a; b; c].
  Proof.
    intros A l a b c. unfold lastn. rewrite length_snoc3.
    replace (length l + 3 - 3) with (length l) by lia. apply skipn_app_len.
  Qed.

  Theorem conv_bias_value : forall (image filters Bv : arr F) batch depth rows cols count fr fc sr sc,
      wf image -> wf filters -> wf Bv ->
      dims image = batch ++ [depth; rows; cols] -> dims filters = [count; depth; fr; fc] ->
      dims Bv = [count; 1; 1] ->
      1 <= sr -> 1 <= sc -> fr <= rows -> fc <= cols ->
      let rc := out_count rows fr sr in
      let cc := out_count cols fc sc in
      exists r1 r0,
        conv O image filters sr sc = Some r1 /\ a_add O r1 Bv = Some r0 /\
        wf r0 /\ dims r0 = batch ++ [count; rc; cc] /\
        forall B f y x,
          in_range B batch -> f < count -> y < rc -> x < cc ->
          in_range [f; 0; 0] (dims Bv) /\
          get r0 (B ++ [f; y; x])
          = Some (fadd O (conv_elem image filters B depth fr fc sr sc f y x) (getd O Bv [f; 0; 0])).
  Proof.
    intros image filters Bv batch depth rows cols count fr fc sr sc Hwi Hwf HwB Ed Ef EB
           Hsr Hsc Hfr Hfc rc cc.
    destruct (conv_spec O image filters batch depth rows cols count fr fc sr sc
                        Hwi Hwf Ed Ef Hsr Hsc Hfr Hfc) as (r1 & Hr1 & Hw1 & Hd1 & Hv1).
    fold rc in Hd1, Hv1. fold cc in Hd1, Hv1.
    assert (Hrc : 1 <= rc) by apply out_count_pos.
    assert (Hcc : 1 <= cc) by apply out_count_pos.
    assert (Hcomp : bcompat (dims r1) (dims Bv)).
    { rewrite Hd1, EB. unfold bcompat. rewrite rev_app_distr. cbn.
      repeat (split; [auto|]). destruct (rev batch); exact I. }
    assert (Hbm : bmax (dims r1) (dims Bv) = batch ++ [count; rc; cc]).
    { rewrite Hd1, EB. unfold bmax. rewrite rev_app_distr. cbn [rev app bmax_rev].
      rewrite bmax_rev_nil_r. cbn [rev]. rewrite rev_involutive, <- !app_assoc. cbn [app].
      rewrite Nat.max_id, !Nat.max_l by assumption. reflexivity. }
    destruct (a_add_spec O r1 Bv Hw1 HwB) as (r0 & Hr0 & Hw0 & Hd0 & Hv0).
    { rewrite Hd1. destruct batch; discriminate. }
    { rewrite EB. discriminate. }
    { exact Hcomp. }
    exists r1, r0. split; [exact Hr1|]. split; [exact Hr0|]. split; [exact Hw0|].
    split; [rewrite Hd0; exact Hbm|].
    intros B f y x HB Hf Hy Hx.
    assert (HrB : in_range [f; 0; 0] (dims Bv)).
    { rewrite EB. repeat (constructor; [lia|]). constructor. }
    split; [exact HrB|].
    assert (HI : in_range (B ++ [f; y; x]) (dims r1))
      by (rewrite Hd1; apply in_range_snoc3; assumption).
    destruct (Hv0 (B ++ [f; y; x])) as (u & v & Hu & Hv & Hget).
    { rewrite Hd0, Hbm, <- Hd1. exact HI. }
    rewrite Hget. rewrite (bclamp_id _ _ HI) in Hu.
    destruct (Hv1 B f y x HB Hf Hy Hx) as [_ Hval]. rewrite Hval in Hu. inversion Hu. subst u.
    assert (Hcl : bclamp (dims Bv) (B ++ [f; y; x]) = [f; 0; 0]).
    { rewrite EB, bclamp_eq. cbn [length]. rewrite lastn3_snoc3. cbn [combine map]. unfold cl.
      cbn [fst snd Nat.eqb]. destruct (count =? 1) eqn:E1; [|reflexivity].
      apply Nat.eqb_eq in E1. f_equal. lia. }
    rewrite Hcl, (get_getd O Bv _ HwB HrB) in Hv. inversion Hv. reflexivity.
  Qed.

  (** ** costs *)

  (** mean squared error, element by element: [((t - o)^2) * (1/len)] with
      [t - o = t + o * (-1)] *)
  Theorem mse_value : forall (o t : arr F),
      wf o -> wf t -> dims t = dims o -> dims o <> [] ->
      let c := fdiv O (f1 O) (fofnat O (prod (dims o))) in
      exists d p r,
        a_sub O t o = Some d /\ a_powf O (two O) d = Some p /\ a_scale O c p = Some r /\
        wf r /\ dims r = dims o /\
        forall I, in_range I (dims o) ->
          get r I = Some (fmul O (fpow O (fadd O (getd O t I) (fmul O (getd O o I) (fneg O (f1 O))))
                                       (two O)) c).
  Proof.
    intros o t Hwo Hwt Edt Hne c.
    destruct (a_sub_spec O t o Hwt Hwo) as (d & Hd & Hwd & Hdd & Hvd).
    { rewrite Edt. exact Hne. } { exact Hne. } { rewrite Edt. apply bcompat_refl. }
    rewrite Edt, bmax_idem in Hdd.
    exists d. eexists. eexists.
    split; [exact Hd|]. split; [apply a_powf_spec; exact Hwd|].
    split; [apply a_scale_spec; apply map_arr_result_wf; exact Hwd|].
    split; [apply map_arr_result_wf; apply map_arr_result_wf; exact Hwd|].
    split; [cbn [dims]; exact Hdd|].
    intros I HI.
    destruct (Hvd I) as (x & y & Hx & Hy & Hget); [rewrite Hdd; exact HI|].
    rewrite Edt, (bclamp_id _ _ HI) in Hx. rewrite (bclamp_id _ _ HI) in Hy.
    assert (HIt : in_range I (dims t)) by (rewrite Edt; exact HI).
    rewrite (get_getd O t I Hwt HIt) in Hx. rewrite (get_getd O o I Hwo HI) in Hy.
    inversion Hx. inversion Hy. subst x y.
    rewrite !get_mapped, Hget. reflexivity.
  Qed.

  (** cross entropy, element by element: [((t * -1) * ln o) * (1/batch)] *)
  Theorem ce_value : forall (o t : arr F) batch rest,
      wf o -> wf t -> dims t = dims o -> dims o = batch :: rest ->
      let c := fdiv O (f1 O) (fofnat O batch) in
      exists nt lo m r,
        nth_error (dims o) 0 = Some batch /\
        a_neg O t = Some nt /\ a_ln O o = Some lo /\ a_mul O nt lo = Some m /\
        a_scale O c m = Some r /\ wf r /\ dims r = dims o /\
        forall I, in_range I (dims o) ->
          get r I = Some (fmul O (fmul O (fmul O (getd O t I) (fneg O (f1 O))) (fln O (getd O o I))) c).
  Proof.
    intros o t batch rest Hwo Hwt Edt Edo c.
    set (nt := {| dims := dims t; vals := map (fun x => fmul O x (fneg O (f1 O))) (vals t) |}).
    set (lo := {| dims := dims o; vals := map (fln O) (vals o) |}).
    assert (Hwnt : wf nt) by (apply map_arr_result_wf; exact Hwt).
    assert (Hwlo : wf lo) by (apply map_arr_result_wf; exact Hwo).
    destruct (a_mul_spec O nt lo Hwnt Hwlo) as (m & Hm & Hwm & Hdm & Hvm).
    { cbn [dims nt]. rewrite Edt, Edo. discriminate. }
    { cbn [dims lo]. rewrite Edo. discriminate. }
    { cbn [dims nt lo]. rewrite Edt. apply bcompat_refl. }
    cbn [dims nt lo] in Hdm. rewrite Edt, bmax_idem in Hdm.
    exists nt, lo, m. eexists.
    split; [rewrite Edo; reflexivity|]. split; [apply a_neg_spec; exact Hwt|].
    split; [apply a_ln_spec; exact Hwo|]. split; [exact Hm|].
    split; [apply a_scale_spec; exact Hwm|].
    split; [apply map_arr_result_wf; exact Hwm|]. split; [cbn [dims]; exact Hdm|].
    intros I HI.
    destruct (Hvm I) as (x & y & Hx & Hy & Hget); [rewrite Hdm; exact HI|].
    cbn [dims nt lo] in Hx, Hy. rewrite Edt, (bclamp_id _ _ HI) in Hx. rewrite (bclamp_id _ _ HI) in Hy.
    assert (HIt : in_range I (dims t)) by (rewrite Edt; exact HI).
    unfold nt in Hx. rewrite get_mapped, (get_getd O t I Hwt HIt) in Hx.
    unfold lo in Hy. rewrite get_mapped, (get_getd O o I Hwo HI) in Hy.
    cbn [option_map] in Hx, Hy. inversion Hx. inversion Hy. subst x y.
    rewrite get_mapped, Hget. reflexivity.
  Qed.
End ArrayLevel.

(** * End to end: layers and costs of the interpreter *)

Section EndToEnd.
  Context {F : Type} (O : ScalarOps F).

  Notation state := (@state F).

  (** dense layer on a batch of row vectors (any number of leading dimensions) *)
  Theorem dense_forward_value : forall (s : state) l input (X W Bv : arr F) batch nin nout,
      l_conv l = None ->
      h_arr s input = Some X -> h_arr s (l_w l) = Some W -> h_arr s (l_b l) = Some Bv ->
      wf X -> wf W -> wf Bv ->
      dims X = batch ++ [nin] -> batch <> [] -> dims W = [nout; nin] -> dims Bv = [nout] ->
      exists r0,
        wf r0 /\ dims r0 = batch ++ [nout] /\
        (forall J o, in_range J batch -> o < nout ->
           get r0 (J ++ [o])
           = Some (fadd O (getd O Bv [o])
                        (vsum O (map (fun k => fmul O (getd O X (J ++ [k])) (getd O W [o; k]))
                                     (seq 0 nin))))) /\
        forall r, act_fwd O (l_act l) r0 = Some r ->
          exists s' h, layer_forward O s l input = Some (s', h) /\ h_arr s' h = Some r /\
                       sframe s s'.
  Proof.
    intros s l input X W Bv batch nin nout Hc HX HW HB HwX HwW HwB EX Hne EW EB.
    destruct (dense_value O X W Bv batch nin nout HwX HwW HwB EX Hne EW EB)
      as (r0 & Hr0 & Hw0 & Hd0 & Hv).
    exists r0. split; [exact Hw0|]. split; [exact Hd0|]. split.
    - intros J o HJ Ho. apply (Hv J o HJ Ho).
    - intros r Hr. exact (layer_forward_dense O s l input X W Bv r0 r Hc HX HW HB Hr0 Hr).
  Qed.

  (** dense layer on a single vector: the result has dimensions [[1; nout]] *)
  Theorem dense_forward_value_vec : forall (s : state) l input (X W Bv : arr F) nin nout,
      l_conv l = None ->
      h_arr s input = Some X -> h_arr s (l_w l) = Some W -> h_arr s (l_b l) = Some Bv ->
      wf X -> wf W -> wf Bv ->
      dims X = [nin] -> dims W = [nout; nin] -> dims Bv = [nout] ->
      exists r0,
        wf r0 /\ dims r0 = [1; nout] /\
        (forall o, o < nout ->
           get r0 [0; o]
           = Some (fadd O (getd O Bv [o])
                        (vsum O (map (fun k => fmul O (getd O X [k]) (getd O W [o; k]))
                                     (seq 0 nin))))) /\
        forall r, act_fwd O (l_act l) r0 = Some r ->
          exists s' h, layer_forward O s l input = Some (s', h) /\ h_arr s' h = Some r /\
                       sframe s s'.
  Proof.
    intros s l input X W Bv nin nout Hc HX HW HB HwX HwW HwB EX EW EB.
    destruct (dense_value_vec O X W Bv nin nout HwX HwW HwB EX EW EB)
      as (r0 & Hr0 & Hw0 & Hd0 & Hv).
    exists r0. split; [exact Hw0|]. split; [exact Hd0|]. split.
    - intros o Ho. apply (Hv o Ho).
    - intros r Hr. exact (layer_forward_dense O s l input X W Bv r0 r Hc HX HW HB Hr0 Hr).
  Qed.

  (** convolutional layer: the sliding-window sum of C06 plus the bias of the filter *)
  Theorem conv_forward_value : forall (s : state) l input sr sc (X W Bv : arr F)
                                      batch depth rows cols count fr fc,
      l_conv l = Some (sr, sc) ->
      h_arr s input = Some X -> h_arr s (l_w l) = Some W -> h_arr s (l_b l) = Some Bv ->
      wf X -> wf W -> wf Bv ->
      dims X = batch ++ [depth; rows; cols] -> dims W = [count; depth; fr; fc] ->
      dims Bv = [count; 1; 1] ->
      1 <= sr -> 1 <= sc -> fr <= rows -> fc <= cols ->
      let rc := out_count rows fr sr in
      let cc := out_count cols fc sc in
      exists r0,
        wf r0 /\ dims r0 = batch ++ [count; rc; cc] /\
        (forall B f y x, in_range B batch -> f < count -> y < rc -> x < cc ->
           get r0 (B ++ [f; y; x])
           = Some (fadd O (conv_elem O X W B depth fr fc sr sc f y x) (getd O Bv [f; 0; 0]))) /\
        forall r, act_fwd O (l_act l) r0 = Some r ->
          exists s' h, layer_forward O s l input = Some (s', h) /\ h_arr s' h = Some r /\
                       sframe s s'.
  Proof.
    intros s l input sr sc X W Bv batch depth rows cols count fr fc Hc HX HW HB HwX HwW HwB
           EX EW EB Hsr Hsc Hfr Hfc rc cc.
    destruct (conv_bias_value O X W Bv batch depth rows cols count fr fc sr sc
                              HwX HwW HwB EX EW EB Hsr Hsc Hfr Hfc)
      as (r1 & r0 & Hr1 & Hr0 & Hw0 & Hd0 & Hv).
    exists r0. split; [exact Hw0|]. split; [exact Hd0|]. split.
    - intros B f y x HB' Hf Hy Hx. apply (Hv B f y x HB' Hf Hy Hx).
    - intros r Hr.
      exact (layer_forward_conv O s l input sr sc X W Bv r1 r0 r Hc HX HW HB Hr1 Hr0 Hr).
  Qed.

  Theorem cost_mse_value : forall (s : state) output target (o t : arr F),
      h_arr s output = Some o -> h_arr s target = Some t ->
      wf o -> wf t -> dims t = dims o -> dims o <> [] ->
      exists s' h r,
        cost_apply O s CMse output target = Some (s', h) /\ h_arr s' h = Some r /\ sframe s s' /\
        wf r /\ dims r = dims o /\
        forall I, in_range I (dims o) ->
          get r I = Some (fmul O (fpow O (fadd O (getd O t I) (fmul O (getd O o I) (fneg O (f1 O))))
                                       (two O))
                               (fdiv O (f1 O) (fofnat O (prod (dims o))))).
  Proof.
    intros s output target o t Ho Ht Hwo Hwt Edt Hne.
    destruct (mse_value O o t Hwo Hwt Edt Hne) as (d & p & r & Hd & Hp & Hr & Hwr & Hdr & Hv).
    destruct (cost_mse_fwd O s output target o t d p r Ho Ht Hd Hp Hr) as (s' & h & Hc & Ha & Hf).
    exists s', h, r. repeat (split; [assumption|]). exact Hv.
  Qed.

  Theorem cost_ce_value : forall (s : state) output target (o t : arr F) batch rest,
      h_arr s output = Some o -> h_arr s target = Some t ->
      wf o -> wf t -> dims t = dims o -> dims o = batch :: rest ->
      exists s' h r,
        cost_apply O s CCrossEntropy output target = Some (s', h) /\ h_arr s' h = Some r /\
        sframe s s' /\ wf r /\ dims r = dims o /\
        forall I, in_range I (dims o) ->
          get r I = Some (fmul O (fmul O (fmul O (getd O t I) (fneg O (f1 O))) (fln O (getd O o I)))
                               (fdiv O (f1 O) (fofnat O batch))).
  Proof.
    intros s output target o t batch rest Ho Ht Hwo Hwt Edt Edo.
    destruct (ce_value O o t batch rest Hwo Hwt Edt Edo)
      as (nt & lo & m & r & Hb & Hnt & Hlo & Hm & Hr & Hwr & Hdr & Hv).
    destruct (cost_ce_fwd O s output target o t batch nt lo m r Ho Ht Hb Hnt Hlo Hm Hr)
      as (s' & h & Hc & Ha & Hf).
    exists s', h, r. repeat (split; [assumption|]). exact Hv.
  Qed.
End EndToEnd.

Print Assumptions layer_forward_dense.
Print Assumptions layer_forward_conv.
Print Assumptions model_forward_spec.
Print Assumptions model_backward_loss.
Print Assumptions dense_forward_value.
Print Assumptions dense_forward_value_vec.
Print Assumptions conv_forward_value.
Print Assumptions cost_mse_value.
Print Assumptions cost_ce_value.
