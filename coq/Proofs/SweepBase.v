(** Structure of the declarative backward pass [sweep] / [adjoints]
    (Proofs/AdjointSpec.v): shape of the resulting table, dependence on the
    skeleton of the store only, behaviour under appending nodes, and the
    characterisation of the non-empty slots by [reach]. *)

From Coq Require Import List Arith Bool Lia PeanoNat.
From Corgi Require Import Lib.OptionMonad Model.Engine Proofs.EngineDefs Proofs.EngineBase
     Proofs.AdjointSpec.
Import ListNotations.

(** * Lists *)

Lemma nth_nth_error : forall {A} (l : list (option A)) j,
    nth j l None = match nth_error l j with Some x => x | None => None end.
Proof.
  intros A l. induction l as [|x l IH]; intros j.
  - destruct j; reflexivity.
  - destruct j as [|j]; [reflexivity | simpl; apply IH].
Qed.

Lemma nth_repeat_none : forall {A} k j, nth j (repeat (@None A) k) None = None.
Proof.
  intros A k. induction k as [|k IH]; intros j.
  - destruct j; reflexivity.
  - destruct j as [|j]; [reflexivity | simpl; apply IH].
Qed.

Lemma nth_beyond_none : forall {A} (l : list (option A)) j, length l <= j -> nth j l None = None.
Proof. intros A l j H. apply nth_overflow. exact H. Qed.

Lemma set_nth_inv : forall {A} i (x : A) l l',
    set_nth i x l = Some l' -> i < length l /\ l' = firstn i l ++ x :: skipn (S i) l.
Proof.
  intros A i x l l' H. unfold set_nth in H.
  destruct (i <? length l) eqn:Hlt; [|discriminate H].
  apply Nat.ltb_lt in Hlt. injection H as H. split; [exact Hlt | symmetry; exact H].
Qed.

Lemma set_nth_len : forall {A} i (x : A) l l', set_nth i x l = Some l' -> length l' = length l.
Proof.
  intros A i x l l' H. apply set_nth_inv in H. destruct H as [Hlt H]. subst l'.
  apply set_nth_length. exact Hlt.
Qed.

Lemma set_nth_nth : forall {A} i (x : option A) l l' j,
    set_nth i x l = Some l' -> nth j l' None = if j =? i then x else nth j l None.
Proof.
  intros A i x l l' j H. apply set_nth_inv in H. destruct H as [Hlt H]. subst l'.
  rewrite !nth_nth_error. rewrite set_nth_spec by exact Hlt.
  destruct (j =? i); reflexivity.
Qed.

Lemma set_nth_some : forall {A} i (x : A) l, i < length l -> exists l', set_nth i x l = Some l'.
Proof.
  intros A i x l H. unfold set_nth. apply Nat.ltb_lt in H. rewrite H. eexists. reflexivity.
Qed.

Lemma set_nth_app : forall {A} i (x : A) l pad,
    i < length l ->
    set_nth i x (l ++ pad) = option_map (fun t => t ++ pad) (set_nth i x l).
Proof.
  intros A i x l pad H. unfold set_nth. rewrite app_length.
  assert (H1 : (i <? length l + length pad) = true) by (apply Nat.ltb_lt; lia).
  assert (H2 : (i <? length l) = true) by (apply Nat.ltb_lt; lia).
  rewrite H1, H2. cbn [option_map]. f_equal.
  rewrite firstn_app, skipn_app.
  replace (i - length l) with 0 by lia. replace (S i - length l) with 0 by lia.
  simpl. rewrite app_nil_r. rewrite <- app_assoc. reflexivity.
Qed.

Lemma mapM_ext_in : forall {A B} (f f' : A -> option B) l,
    (forall x, In x l -> f x = f' x) -> mapM f l = mapM f' l.
Proof.
  intros A B f f' l. induction l as [|x l IH]; intros H.
  - reflexivity.
  - simpl. rewrite (H x (or_introl eq_refl)).
    rewrite IH; [reflexivity |]. intros y Hy. apply H. right. exact Hy.
Qed.

(** * Decreasing id lists *)

Fixpoint desc (l : list nat) : Prop :=
  match l with
  | [] => True
  | n :: rest => (forall m, In m rest -> m < n) /\ desc rest
  end.

Lemma down_from_0 : down_from 0 = [0].
Proof. reflexivity. Qed.

Lemma down_from_S : forall r, down_from (S r) = S r :: down_from r.
Proof.
  intro r. unfold down_from. rewrite (seq_S (S r) 0). rewrite rev_app_distr. reflexivity.
Qed.

Lemma in_down_from : forall r n, In n (down_from r) <-> n <= r.
Proof.
  intros r n. unfold down_from. rewrite <- in_rev. rewrite in_seq. lia.
Qed.

Lemma desc_down_from : forall r, desc (down_from r).
Proof.
  intro r. induction r as [|r IH].
  - simpl. split; [intros m [] | exact I].
  - rewrite down_from_S. simpl. split; [|exact IH].
    intros m Hm. apply in_down_from in Hm. lia.
Qed.

Section SweepBase.
  Context {P D : Type}.
  Variable E : eops P D.

  (** * Initial table *)

  Lemma init_table_nth : forall n r (s : D) j,
      nth j (init_table n r s) None = if j =? r then Some s else None.
  Proof.
    intros n r s j. unfold init_table.
    destruct (lt_eq_lt_dec j r) as [[Hlt | Heq] | Hgt].
    - rewrite app_nth1 by (rewrite repeat_length; exact Hlt).
      rewrite nth_repeat_none.
      assert (Hne : (j =? r) = false) by (apply Nat.eqb_neq; lia). rewrite Hne. reflexivity.
    - subst j. rewrite app_nth2 by (rewrite repeat_length; lia).
      rewrite repeat_length, Nat.sub_diag, Nat.eqb_refl. reflexivity.
    - rewrite app_nth2 by (rewrite repeat_length; lia).
      rewrite repeat_length.
      assert (Hne : (j =? r) = false) by (apply Nat.eqb_neq; lia). rewrite Hne.
      destruct (j - r) as [|k] eqn:Hk; [lia |].
      simpl. apply nth_repeat_none.
  Qed.

  Lemma init_table_length : forall n r (s : D), r < n -> length (init_table n r s) = n.
  Proof.
    intros n r s H. unfold init_table. rewrite !app_length, !repeat_length. simpl. lia.
  Qed.

  Lemma init_table_app : forall n k r (s : D),
      r < n -> init_table (n + k) r s = init_table n r s ++ repeat None k.
  Proof.
    intros n k r s H. unfold init_table.
    replace (n + k - S r) with ((n - S r) + k) by lia.
    rewrite repeat_app. rewrite <- !app_assoc. reflexivity.
  Qed.

  (** * [tab_add], [tab_add_all] *)

  Definition add_into (cur : option D) (d : D) : option D :=
    match cur with
    | Some x => eo_add E x d
    | None => Some d
    end.

  Lemma tab_add_unfold : forall tab c,
      tab_add E tab c =
      (cur <- nth_error tab (fst c) ;; nw <- add_into cur (snd c) ;; set_nth (fst c) (Some nw) tab).
  Proof. reflexivity. Qed.

  Lemma tab_add_inv : forall tab c tab',
      tab_add E tab c = Some tab' ->
      fst c < length tab /\ length tab' = length tab /\
      exists nw, add_into (nth (fst c) tab None) (snd c) = Some nw /\
                 forall j, nth j tab' None = if j =? fst c then Some nw else nth j tab None.
  Proof.
    intros tab c tab' H. rewrite tab_add_unfold in H.
    apply obind_some in H. destruct H as (cur & Hcur & H).
    apply obind_some in H. destruct H as (nw & Hnw & H).
    assert (Hlt : fst c < length tab).
    { apply nth_error_Some. rewrite Hcur. discriminate. }
    split; [exact Hlt |]. split; [eapply set_nth_len; exact H |].
    exists nw. split.
    - rewrite nth_nth_error, Hcur. exact Hnw.
    - intro j. eapply set_nth_nth. exact H.
  Qed.

  Lemma tab_add_intro : forall tab c nw,
      fst c < length tab -> add_into (nth (fst c) tab None) (snd c) = Some nw ->
      exists tab', tab_add E tab c = Some tab'.
  Proof.
    intros tab c nw Hlt Hnw. rewrite tab_add_unfold.
    rewrite nth_nth_error in Hnw.
    destruct (nth_error tab (fst c)) as [cur|] eqn:Hcur.
    - simpl. rewrite Hnw. simpl. apply set_nth_some. exact Hlt.
    - apply nth_error_None in Hcur. lia.
  Qed.

  Lemma tab_add_all_nil : forall tab, tab_add_all E tab [] = Some tab.
  Proof. reflexivity. Qed.

  Lemma tab_add_all_cons : forall tab c cs,
      tab_add_all E tab (c :: cs) = (t <- tab_add E tab c ;; tab_add_all E t cs).
  Proof.
    intros tab c cs. unfold tab_add_all. simpl.
    destruct (tab_add E tab c) as [t|]; simpl; [reflexivity |].
    apply fold_left_none. intro b. reflexivity.
  Qed.

  Lemma tab_add_all_length : forall cs tab tab',
      tab_add_all E tab cs = Some tab' -> length tab' = length tab.
  Proof.
    intro cs. induction cs as [|c cs IH]; intros tab tab' H.
    - rewrite tab_add_all_nil in H. injection H as H. subst tab'. reflexivity.
    - rewrite tab_add_all_cons in H. apply obind_some in H. destruct H as (t & Ht & H).
      apply IH in H. apply tab_add_inv in Ht. destruct Ht as (_ & Hl & _). lia.
  Qed.

  Lemma tab_add_all_bound : forall cs tab tab',
      tab_add_all E tab cs = Some tab' -> forall c, In c cs -> fst c < length tab.
  Proof.
    intro cs. induction cs as [|c cs IH]; intros tab tab' H c0 Hin.
    - destruct Hin.
    - rewrite tab_add_all_cons in H. apply obind_some in H. destruct H as (t & Ht & H).
      apply tab_add_inv in Ht. destruct Ht as (Hlt & Hl & _).
      destruct Hin as [Heq | Hin].
      + subst c0. exact Hlt.
      + rewrite <- Hl. eapply IH; [exact H | exact Hin].
  Qed.

  Lemma tab_add_all_other : forall cs tab tab' j,
      tab_add_all E tab cs = Some tab' -> ~ In j (map fst cs) ->
      nth j tab' None = nth j tab None.
  Proof.
    intro cs. induction cs as [|c cs IH]; intros tab tab' j H Hn.
    - rewrite tab_add_all_nil in H. injection H as H. subst tab'. reflexivity.
    - rewrite tab_add_all_cons in H. apply obind_some in H. destruct H as (t & Ht & H).
      simpl in Hn. rewrite (IH t tab' j H) by tauto.
      apply tab_add_inv in Ht. destruct Ht as (_ & _ & nw & _ & Hj).
      rewrite Hj. assert (Hne : (j =? fst c) = false) by (apply Nat.eqb_neq; intro; apply Hn; left; congruence).
      rewrite Hne. reflexivity.
  Qed.

  Lemma tab_add_all_mono : forall cs tab tab' j,
      tab_add_all E tab cs = Some tab' -> nth j tab None <> None -> nth j tab' None <> None.
  Proof.
    intro cs. induction cs as [|c cs IH]; intros tab tab' j H Hn.
    - rewrite tab_add_all_nil in H. injection H as H. subst tab'. exact Hn.
    - rewrite tab_add_all_cons in H. apply obind_some in H. destruct H as (t & Ht & H).
      apply (IH t tab' j H).
      apply tab_add_inv in Ht. destruct Ht as (_ & _ & nw & _ & Hj).
      rewrite Hj. destruct (j =? fst c); [discriminate | exact Hn].
  Qed.

  Lemma tab_add_all_hit : forall cs tab tab' j,
      tab_add_all E tab cs = Some tab' -> In j (map fst cs) -> nth j tab' None <> None.
  Proof.
    intro cs. induction cs as [|c cs IH]; intros tab tab' j H Hin.
    - destruct Hin.
    - rewrite tab_add_all_cons in H. apply obind_some in H. destruct H as (t & Ht & H).
      destruct (in_dec Nat.eq_dec j (map fst cs)) as [Hi | Hni].
      + apply (IH t tab' j H Hi).
      + simpl in Hin. destruct Hin as [Heq | Hin]; [|contradiction].
        apply (tab_add_all_mono cs t tab' j H).
        apply tab_add_inv in Ht. destruct Ht as (_ & _ & nw & _ & Hj).
        rewrite Hj. subst j. rewrite Nat.eqb_refl. discriminate.
  Qed.

  Lemma tab_add_app : forall tab pad c,
      fst c < length tab ->
      tab_add E (tab ++ pad) c = option_map (fun t => t ++ pad) (tab_add E tab c).
  Proof.
    intros tab pad c Hlt. rewrite !tab_add_unfold.
    rewrite nth_error_app1 by exact Hlt.
    destruct (nth_error tab (fst c)) as [cur|]; [|reflexivity]. simpl.
    destruct (add_into cur (snd c)) as [nw|]; [|reflexivity]. simpl.
    apply set_nth_app. exact Hlt.
  Qed.

  Lemma tab_add_all_app : forall cs tab pad,
      (forall c, In c cs -> fst c < length tab) ->
      tab_add_all E (tab ++ pad) cs = option_map (fun t => t ++ pad) (tab_add_all E tab cs).
  Proof.
    intro cs. induction cs as [|c cs IH]; intros tab pad Hb.
    - reflexivity.
    - rewrite !tab_add_all_cons. rewrite tab_add_app by (apply Hb; left; reflexivity).
      destruct (tab_add E tab c) as [t|] eqn:Ht; [|reflexivity]. simpl.
      apply IH. intros c0 Hc0.
      apply tab_add_inv in Ht. destruct Ht as (_ & Hl & _). rewrite Hl.
      apply Hb. right. exact Hc0.
  Qed.

  (** * [contribs] *)

  Definition child_pay (g : store P D) (e : entry) : option P :=
    c <- nth_error g (e_node e) ;; Some (n_pay c).

  (** deliver the closure's output [ds] to the children [es] *)
  Definition cfold (g : store P D) (es : list entry) (ds : list (option D))
    : option (list (nat * D)) :=
    fold_right
      (fun (p : entry * option D) (acc : option (list (nat * D))) =>
         rest <- acc ;;
         match snd p with
         | None => Some rest
         | Some d =>
           c <- nth_error g (e_node (fst p)) ;;
           d' <- eo_flat E d (n_pay c) ;;
           Some ((e_node (fst p), d') :: rest)
         end)
      (Some []) (combine es ds).

  Lemma contribs_unfold : forall g n delta,
      contribs E g n delta =
      (nd <- nth_error g n ;;
       if hasop E nd then
         pays <- mapM (child_pay g) (n_children nd) ;;
         ds <- eo_bop E (n_pay nd) pays (map e_tracked (n_children nd)) delta ;;
         cfold g (n_children nd) ds
       else Some []).
  Proof. reflexivity. Qed.

  Lemma cfold_nil_l : forall g ds, cfold g [] ds = Some [].
  Proof. reflexivity. Qed.

  Lemma cfold_nil_r : forall g es, cfold g es [] = Some [].
  Proof. intros g es. destruct es; reflexivity. Qed.

  Lemma cfold_cons : forall g e es o ds,
      cfold g (e :: es) (o :: ds) =
      (rest <- cfold g es ds ;;
       match o with
       | None => Some rest
       | Some d =>
         c <- nth_error g (e_node e) ;;
         d' <- eo_flat E d (n_pay c) ;;
         Some ((e_node e, d') :: rest)
       end).
  Proof. reflexivity. Qed.

  Lemma cfold_in : forall g es ds cs c,
      cfold g es ds = Some cs -> In c cs ->
      exists i e d, nth_error es i = Some e /\ nth_error ds i = Some (Some d) /\ fst c = e_node e.
  Proof.
    intros g es. induction es as [|e es IH]; intros ds cs c H Hin.
    - rewrite cfold_nil_l in H. injection H as H. subst cs. destruct Hin.
    - destruct ds as [|o ds].
      + rewrite cfold_nil_r in H. injection H as H. subst cs. destruct Hin.
      + rewrite cfold_cons in H. apply obind_some in H. destruct H as (rest & Hrest & H).
        assert (Hrec : In c rest ->
                       exists i e0 d, nth_error (e :: es) i = Some e0 /\
                                      nth_error (o :: ds) i = Some (Some d) /\ fst c = e_node e0).
        { intro Hr. destruct (IH ds rest c Hrest Hr) as (i & e0 & d & H1 & H2 & H3).
          exists (S i), e0, d. simpl. tauto. }
        destruct o as [d|].
        * apply obind_some in H. destruct H as (ch & Hch & H).
          apply obind_some in H. destruct H as (d' & Hd' & H).
          injection H as H. subst cs. destruct Hin as [Heq | Hin]; [|exact (Hrec Hin)].
          subst c. exists 0, e, d. simpl. tauto.
        * injection H as H. subst cs. exact (Hrec Hin).
  Qed.

  Lemma cfold_complete : forall g es ds cs i e d,
      cfold g es ds = Some cs -> nth_error es i = Some e -> nth_error ds i = Some (Some d) ->
      In (e_node e) (map fst cs).
  Proof.
    intros g es. induction es as [|e0 es IH]; intros ds cs i e d H He Hd.
    - destruct i; discriminate He.
    - destruct ds as [|o ds]; [destruct i; discriminate Hd |].
      rewrite cfold_cons in H. apply obind_some in H. destruct H as (rest & Hrest & H).
      destruct i as [|i].
      + simpl in He, Hd. injection He as He. injection Hd as Hd. subst e0 o.
        apply obind_some in H. destruct H as (ch & Hch & H).
        apply obind_some in H. destruct H as (d' & Hd' & H).
        injection H as H. subst cs. left. reflexivity.
      + simpl in He, Hd.
        assert (Hr : In (e_node e) (map fst rest)) by (eapply IH; eassumption).
        destruct o as [d0|].
        * apply obind_some in H. destruct H as (ch & Hch & H).
          apply obind_some in H. destruct H as (d' & Hd' & H).
          injection H as H. subst cs. right. exact Hr.
        * injection H as H. subst cs. exact Hr.
  Qed.

  Lemma cfold_ext : forall g g' es ds,
      (forall e, In e es ->
                 option_map n_pay (nth_error g (e_node e)) = option_map n_pay (nth_error g' (e_node e))) ->
      cfold g es ds = cfold g' es ds.
  Proof.
    intros g g' es. induction es as [|e es IH]; intros ds H.
    - reflexivity.
    - destruct ds as [|o ds]; [rewrite !cfold_nil_r; reflexivity |].
      rewrite !cfold_cons. rewrite (IH ds) by (intros e0 He0; apply H; right; exact He0).
      destruct (cfold g' es ds) as [rest|]; [|reflexivity]. simpl.
      destruct o as [d|]; [|reflexivity].
      specialize (H e (or_introl eq_refl)).
      destruct (nth_error g (e_node e)) as [c|]; destruct (nth_error g' (e_node e)) as [c'|];
        simpl in H; try discriminate H; [|reflexivity].
      injection H as H. simpl. rewrite H. reflexivity.
  Qed.

  Lemma child_pay_ext : forall g g' e,
      option_map n_pay (nth_error g (e_node e)) = option_map n_pay (nth_error g' (e_node e)) ->
      child_pay g e = child_pay g' e.
  Proof.
    intros g g' e H. unfold child_pay.
    destruct (nth_error g (e_node e)) as [c|]; destruct (nth_error g' (e_node e)) as [c'|];
      simpl in H; try discriminate H; [|reflexivity].
    injection H as H. simpl. rewrite H. reflexivity.
  Qed.

  Lemma contribs_ext : forall g g' n nd nd' delta,
      nth_error g n = Some nd -> nth_error g' n = Some nd' ->
      n_pay nd = n_pay nd' -> n_children nd = n_children nd' ->
      (forall e, In e (n_children nd) ->
                 option_map n_pay (nth_error g (e_node e)) = option_map n_pay (nth_error g' (e_node e))) ->
      contribs E g n delta = contribs E g' n delta.
  Proof.
    intros g g' n nd nd' delta Hn Hn' Hp Hc Hch.
    rewrite !contribs_unfold. rewrite Hn, Hn'. simpl.
    unfold hasop. rewrite <- Hp, <- Hc.
    destruct (eo_hasop E (n_pay nd)); [|reflexivity].
    rewrite (mapM_ext_in (child_pay g) (child_pay g') (n_children nd))
      by (intros e He; apply child_pay_ext; apply Hch; exact He).
    destruct (mapM (child_pay g') (n_children nd)) as [pays|]; [|reflexivity]. simpl.
    destruct (eo_bop E (n_pay nd) pays (map e_tracked (n_children nd)) delta) as [ds|]; [|reflexivity].
    simpl. apply cfold_ext. exact Hch.
  Qed.

  Lemma contribs_inv : forall g n delta cs,
      contribs E g n delta = Some cs ->
      exists nd, nth_error g n = Some nd /\
        ((hasop E nd = false /\ cs = []) \/
         (hasop E nd = true /\ exists pays ds,
             mapM (child_pay g) (n_children nd) = Some pays /\
             eo_bop E (n_pay nd) pays (map e_tracked (n_children nd)) delta = Some ds /\
             cfold g (n_children nd) ds = Some cs)).
  Proof.
    intros g n delta cs H. rewrite contribs_unfold in H.
    apply obind_some in H. destruct H as (nd & Hnd & H). exists nd. split; [exact Hnd |].
    destruct (hasop E nd) eqn:Hop.
    - right. split; [reflexivity |].
      apply obind_some in H. destruct H as (pays & Hpays & H).
      apply obind_some in H. destruct H as (ds & Hds & H).
      exists pays, ds. tauto.
    - left. injection H as H. subst cs. tauto.
  Qed.

  (** every contribution goes to a child of the node, through a tracked entry when the
      closure respects its contract *)
  Lemma contribs_child : forall g n delta cs c,
      contribs E g n delta = Some cs -> In c cs ->
      exists nd e, nth_error g n = Some nd /\ In e (n_children nd) /\ fst c = e_node e /\
                   (bop_contract E g -> e_tracked e = true).
  Proof.
    intros g n delta cs c H Hin. apply contribs_inv in H. destruct H as (nd & Hnd & H).
    destruct H as [[_ Hcs] | [Hop (pays & ds & Hpays & Hds & Hcf)]].
    - subst cs. destruct Hin.
    - destruct (cfold_in g _ ds cs c Hcf Hin) as (i & e & d & He & Hd & Hc).
      exists nd, e. split; [exact Hnd |]. split; [eapply nth_error_In; exact He |].
      split; [exact Hc |]. intro Hbc.
      destruct (Hbc n nd pays delta ds Hnd Hds) as [_ Hiff].
      apply (Hiff i e He). exists d. exact Hd.
  Qed.

  Lemma contribs_lt : forall g n delta cs c,
      wfg E g -> contribs E g n delta = Some cs -> In c cs -> fst c < n.
  Proof.
    intros g n delta cs c Hwf H Hin.
    destruct (contribs_child g n delta cs c H Hin) as (nd & e & Hnd & He & Hc & _).
    rewrite Hc. destruct (Hwf n nd Hnd) as [Hlt _]. apply Hlt. exact He.
  Qed.

  (** every tracked child receives a contribution *)
  Lemma contribs_tracked : forall g n delta cs nd e,
      wfg E g -> bop_contract E g ->
      contribs E g n delta = Some cs -> nth_error g n = Some nd ->
      In e (n_children nd) -> e_tracked e = true -> In (e_node e) (map fst cs).
  Proof.
    intros g n delta cs nd e Hwf Hbc H Hnd He Ht.
    apply contribs_inv in H. destruct H as (nd' & Hnd' & H).
    rewrite Hnd in Hnd'. injection Hnd' as Hnd'. subst nd'.
    destruct H as [[Hop _] | [Hop (pays & ds & Hpays & Hds & Hcf)]].
    - destruct (Hwf n nd Hnd) as [_ Hleaf]. rewrite (Hleaf Hop) in He. destruct He.
    - destruct (In_nth_error _ _ He) as [i Hi].
      destruct (Hbc n nd pays delta ds Hnd Hds) as [_ Hiff].
      destruct (proj1 (Hiff i e Hi) Ht) as [d Hd].
      eapply cfold_complete; eassumption.
  Qed.

  (** * [sweep] *)

  Lemma sweep_cons : forall g n rest tab,
      sweep E g (n :: rest) tab =
      match nth n tab None with
      | None => sweep E g rest tab
      | Some delta =>
        cs <- contribs E g n delta ;; tab' <- tab_add_all E tab cs ;; sweep E g rest tab'
      end.
  Proof. reflexivity. Qed.

  (** one step of the sweep, as a case analysis *)
  Lemma sweep_cons_inv : forall g n rest tab tab',
      sweep E g (n :: rest) tab = Some tab' ->
      (nth n tab None = None /\ sweep E g rest tab = Some tab') \/
      (exists delta cs tab1, nth n tab None = Some delta /\ contribs E g n delta = Some cs /\
                             tab_add_all E tab cs = Some tab1 /\ sweep E g rest tab1 = Some tab').
  Proof.
    intros g n rest tab tab' H. rewrite sweep_cons in H.
    destruct (nth n tab None) as [delta|].
    - right. apply obind_some in H. destruct H as (cs & Hcs & H).
      apply obind_some in H. destruct H as (tab1 & Ht1 & H).
      exists delta, cs, tab1. tauto.
    - left. tauto.
  Qed.

  Lemma sweep_length : forall g ids tab tab',
      sweep E g ids tab = Some tab' -> length tab' = length tab.
  Proof.
    intros g ids. induction ids as [|n rest IH]; intros tab tab' H.
    - injection H as H. subst tab'. reflexivity.
    - apply sweep_cons_inv in H.
      destruct H as [[_ H] | (delta & cs & tab1 & _ & _ & Ht1 & H)].
      + apply IH. exact H.
      + apply IH in H. apply tab_add_all_length in Ht1. lia.
  Qed.

  (** slots that are not below a visited id are not written *)
  Lemma sweep_unchanged : forall g ids tab tab' j,
      wfg E g -> sweep E g ids tab = Some tab' ->
      (forall n, In n ids -> n <= j) -> nth j tab' None = nth j tab None.
  Proof.
    intros g ids. induction ids as [|n rest IH]; intros tab tab' j Hwf H Hb.
    - injection H as H. subst tab'. reflexivity.
    - assert (Hb' : forall m, In m rest -> m <= j) by (intros m Hm; apply Hb; right; exact Hm).
      apply sweep_cons_inv in H.
      destruct H as [[_ H] | (delta & cs & tab1 & _ & Hcs & Ht1 & H)].
      + apply IH; assumption.
      + rewrite (IH tab1 tab' j Hwf H Hb').
        apply (tab_add_all_other cs tab tab1 j Ht1).
        intro Hin. apply in_map_iff in Hin. destruct Hin as (c & Hc & Hin).
        assert (Hlt : fst c < n) by (eapply contribs_lt; eassumption).
        assert (Hn : n <= j) by (apply Hb; left; reflexivity). lia.
  Qed.

  Lemma sweep_mono : forall g ids tab tab' j,
      sweep E g ids tab = Some tab' -> nth j tab None <> None -> nth j tab' None <> None.
  Proof.
    intros g ids. induction ids as [|n rest IH]; intros tab tab' j H Hj.
    - injection H as H. subst tab'. exact Hj.
    - apply sweep_cons_inv in H.
      destruct H as [[_ H] | (delta & cs & tab1 & _ & _ & Ht1 & H)].
      + eapply IH; eassumption.
      + apply (IH tab1 tab' j H). eapply tab_add_all_mono; eassumption.
  Qed.

  (** ** (S0) shape of the table *)

  Theorem adjoints_shape : forall g r s tab,
      wfg E g -> r < length g -> adjoints E g r s = Some tab ->
      length tab = length g /\ nth r tab None = Some s /\
      (forall id, r < id -> nth id tab None = None).
  Proof.
    intros g r s tab Hwf Hr H. unfold adjoints in H. split; [|split].
    - apply sweep_length in H. rewrite H. apply init_table_length. exact Hr.
    - rewrite (sweep_unchanged g _ _ tab r Hwf H).
      + rewrite init_table_nth, Nat.eqb_refl. reflexivity.
      + intros n Hn. apply in_down_from in Hn. exact Hn.
    - intros id Hid. rewrite (sweep_unchanged g _ _ tab id Hwf H).
      + rewrite init_table_nth.
        assert (Hne : (id =? r) = false) by (apply Nat.eqb_neq; lia). rewrite Hne. reflexivity.
      + intros n Hn. apply in_down_from in Hn. lia.
  Qed.

  (** ** (S0, S3) the sweep reads the skeleton of the store only *)

  Definition skel_eq (g g' : store P D) : Prop :=
    length g = length g' /\
    forall id nd nd', nth_error g id = Some nd -> nth_error g' id = Some nd' ->
                      n_pay nd = n_pay nd' /\ n_children nd = n_children nd'.

  Lemma skel_eq_refl : forall g, skel_eq g g.
  Proof.
    intro g. split; [reflexivity |]. intros id nd nd' H H'. rewrite H in H'.
    injection H' as H'. subst nd'. tauto.
  Qed.

  Lemma skel_eq_sym : forall g g', skel_eq g g' -> skel_eq g' g.
  Proof.
    intros g g' [Hl H]. split; [symmetry; exact Hl |].
    intros id nd nd' H1 H2. destruct (H id nd' nd H2 H1) as [Ha Hb]. split; symmetry; assumption.
  Qed.

  Lemma skel_eq_nth : forall g g' id,
      skel_eq g g' ->
      (nth_error g id = None /\ nth_error g' id = None) \/
      (exists nd nd', nth_error g id = Some nd /\ nth_error g' id = Some nd' /\
                      n_pay nd = n_pay nd' /\ n_children nd = n_children nd').
  Proof.
    intros g g' id [Hl H].
    destruct (nth_error g id) as [nd|] eqn:Hn; destruct (nth_error g' id) as [nd'|] eqn:Hn'.
    - right. exists nd, nd'. destruct (H id nd nd' Hn Hn') as [Ha Hb]. tauto.
    - apply nth_error_None in Hn'. assert (Hs : nth_error g id <> None) by (rewrite Hn; discriminate).
      apply nth_error_Some in Hs. lia.
    - apply nth_error_None in Hn. assert (Hs : nth_error g' id <> None) by (rewrite Hn'; discriminate).
      apply nth_error_Some in Hs. lia.
    - left. tauto.
  Qed.

  Lemma skel_eq_trans : forall g1 g2 g3, skel_eq g1 g2 -> skel_eq g2 g3 -> skel_eq g1 g3.
  Proof.
    intros g1 g2 g3 H12 H23. split; [destruct H12, H23; congruence |].
    intros id nd nd' H1 H3.
    destruct (skel_eq_nth g1 g2 id H12) as [[Ha _] | (a & b & Ha & Hb & Hp & Hc)];
      [rewrite Ha in H1; discriminate H1 |].
    rewrite H1 in Ha. injection Ha as Ha. subst a.
    destruct H23 as [_ H23]. destruct (H23 id b nd' Hb H3) as [Hp' Hc']. split; congruence.
  Qed.

  Lemma skel_eq_pay : forall g g' id,
      skel_eq g g' -> option_map n_pay (nth_error g id) = option_map n_pay (nth_error g' id).
  Proof.
    intros g g' id H.
    destruct (skel_eq_nth g g' id H) as [[Ha Hb] | (nd & nd' & Ha & Hb & Hp & _)];
      rewrite Ha, Hb; simpl; [reflexivity | rewrite Hp; reflexivity].
  Qed.

  (** the same thing, phrased with the skeleton projection [sk] of EngineBase *)
  Lemma skel_eq_map_sk : forall g g', skel_eq g g' <-> map sk g = map sk g'.
  Proof.
    intros g g'. split.
    - intro H. apply nth_error_ext. intro j. rewrite !nth_error_map.
      destruct (skel_eq_nth g g' j H) as [[Ha Hb] | (nd & nd' & Ha & Hb & Hp & Hc)];
        rewrite Ha, Hb; simpl; [reflexivity |].
      unfold sk. rewrite Hp, Hc. reflexivity.
    - intro H. split; [eapply map_eq_length; exact H |].
      intros id nd nd' Hn Hn'.
      destruct (map_eq_nth sk g g' id nd H Hn) as (nd2 & Hn2 & Hsk).
      rewrite Hn' in Hn2. injection Hn2 as Hn2. subst nd2.
      unfold sk in Hsk. injection Hsk as Hp Hc. split; symmetry; assumption.
  Qed.

  (** overwriting a node by one with the same payload and children (as [set_count],
      [set_delta], [set_grad] do) keeps the skeleton *)
  Lemma skel_eq_put : forall g id nd nd' g',
      nth_error g id = Some nd -> put g id nd' = Some g' ->
      n_pay nd' = n_pay nd -> n_children nd' = n_children nd -> skel_eq g g'.
  Proof.
    intros g id nd nd' g' Hn Hput Hp Hc. apply skel_eq_map_sk. symmetry.
    eapply put_map; [exact Hput | exact Hn |]. unfold sk. rewrite Hp, Hc. reflexivity.
  Qed.

  Lemma skel_eq_put_count : forall g id nd c g',
      nth_error g id = Some nd -> put g id (set_count nd c) = Some g' -> skel_eq g g'.
  Proof. intros g id nd c g' Hn Hput. eapply skel_eq_put; [exact Hn | exact Hput | |]; reflexivity. Qed.

  Lemma skel_eq_put_delta : forall g id nd d g',
      nth_error g id = Some nd -> put g id (set_delta nd d) = Some g' -> skel_eq g g'.
  Proof. intros g id nd d g' Hn Hput. eapply skel_eq_put; [exact Hn | exact Hput | |]; reflexivity. Qed.

  Lemma skel_eq_put_grad : forall g id nd d g',
      nth_error g id = Some nd -> put g id (set_grad nd d) = Some g' -> skel_eq g g'.
  Proof. intros g id nd d g' Hn Hput. eapply skel_eq_put; [exact Hn | exact Hput | |]; reflexivity. Qed.

  Lemma contribs_skel : forall g g' n delta,
      skel_eq g g' -> contribs E g n delta = contribs E g' n delta.
  Proof.
    intros g g' n delta H.
    destruct (skel_eq_nth g g' n H) as [[Ha Hb] | (nd & nd' & Ha & Hb & Hp & Hc)].
    - rewrite !contribs_unfold, Ha, Hb. reflexivity.
    - eapply contribs_ext; try eassumption.
      intros e _. apply skel_eq_pay. exact H.
  Qed.

  Lemma sweep_skel : forall g g' ids tab,
      skel_eq g g' -> sweep E g ids tab = sweep E g' ids tab.
  Proof.
    intros g g' ids. induction ids as [|n rest IH]; intros tab H.
    - reflexivity.
    - rewrite !sweep_cons. destruct (nth n tab None) as [delta|]; [|apply IH; exact H].
      rewrite (contribs_skel g g' n delta H).
      destruct (contribs E g' n delta) as [cs|]; [|reflexivity]. simpl.
      destruct (tab_add_all E tab cs) as [tab1|]; [|reflexivity]. simpl.
      apply IH. exact H.
  Qed.

  Theorem adjoints_skel : forall g g' r s,
      skel_eq g g' -> adjoints E g r s = adjoints E g' r s.
  Proof.
    intros g g' r s H. unfold adjoints. destruct H as [Hl H'].
    rewrite <- Hl. apply sweep_skel. split; assumption.
  Qed.

  (** the same, for stores that differ in [n_count], [n_delta], [n_grad] only *)
  Corollary adjoints_cells_irrelevant : forall g g' r s,
      map sk g = map sk g' -> adjoints E g r s = adjoints E g' r s.
  Proof. intros g g' r s H. apply adjoints_skel. apply skel_eq_map_sk. exact H. Qed.

  (** ** (S0) appending nodes *)

  Lemma contribs_app : forall g extra n delta,
      wfg E g -> n < length g -> contribs E (g ++ extra) n delta = contribs E g n delta.
  Proof.
    intros g extra n delta Hwf Hn.
    destruct (nth_error g n) as [nd|] eqn:Hnd; [|apply nth_error_None in Hnd; lia].
    eapply contribs_ext.
    - rewrite nth_error_app1 by exact Hn. exact Hnd.
    - exact Hnd.
    - reflexivity.
    - reflexivity.
    - intros e He. destruct (Hwf n nd Hnd) as [Hlt _]. specialize (Hlt e He).
      rewrite nth_error_app1 by lia. reflexivity.
  Qed.

  Lemma sweep_app : forall g extra pad ids tab,
      wfg E g -> length tab = length g -> (forall n, In n ids -> n < length g) ->
      sweep E (g ++ extra) ids (tab ++ pad) = option_map (fun t => t ++ pad) (sweep E g ids tab).
  Proof.
    intros g extra pad ids. induction ids as [|n rest IH]; intros tab Hwf Hl Hb.
    - reflexivity.
    - assert (Hn : n < length g) by (apply Hb; left; reflexivity).
      assert (Hb' : forall m, In m rest -> m < length g) by (intros m Hm; apply Hb; right; exact Hm).
      rewrite !sweep_cons. rewrite app_nth1 by lia.
      destruct (nth n tab None) as [delta|]; [|apply IH; assumption].
      rewrite contribs_app by assumption.
      destruct (contribs E g n delta) as [cs|] eqn:Hcs; [|reflexivity]. simpl.
      rewrite tab_add_all_app.
      + destruct (tab_add_all E tab cs) as [tab1|] eqn:Ht1; [|reflexivity]. simpl.
        apply IH; try assumption. apply tab_add_all_length in Ht1. lia.
      + intros c Hc. assert (Hlt : fst c < n) by (eapply contribs_lt; eassumption). lia.
  Qed.

  Theorem adjoints_app : forall g extra r s,
      wfg E g -> r < length g ->
      adjoints E (g ++ extra) r s =
      option_map (fun t => t ++ repeat None (length extra)) (adjoints E g r s).
  Proof.
    intros g extra r s Hwf Hr. unfold adjoints. rewrite app_length.
    rewrite init_table_app by exact Hr.
    apply sweep_app.
    - exact Hwf.
    - apply init_table_length. exact Hr.
    - intros n Hn. apply in_down_from in Hn. lia.
  Qed.

  (** ** (S0) the non-empty slots are the nodes reachable through tracked entries *)

  Lemma reach_le : forall (g : store P D) r id, wfg E g -> reach g r id -> id <= r.
  Proof.
    intros g r id Hwf H. induction H as [|m nd e Hm IH Hnd He Ht].
    - lia.
    - destruct (Hwf m nd Hnd) as [Hlt _]. specialize (Hlt e He). lia.
  Qed.

  Lemma sweep_reach_sound : forall g r ids tab tab',
      bop_contract E g -> sweep E g ids tab = Some tab' ->
      (forall j, nth j tab None <> None -> reach g r j) ->
      forall j, nth j tab' None <> None -> reach g r j.
  Proof.
    intros g r ids. induction ids as [|n rest IH]; intros tab tab' Hbc H Hinv.
    - injection H as H. subst tab'. exact Hinv.
    - apply sweep_cons_inv in H.
      destruct H as [[_ H] | (delta & cs & tab1 & Hd & Hcs & Ht1 & H)].
      + eapply IH; eassumption.
      + apply (IH tab1 tab' Hbc H).
        assert (Hrn : reach g r n) by (apply Hinv; rewrite Hd; discriminate).
        intros j Hj.
        destruct (in_dec Nat.eq_dec j (map fst cs)) as [Hi | Hni].
        * apply in_map_iff in Hi. destruct Hi as (c & Hc & Hi).
          destruct (contribs_child g n delta cs c Hcs Hi) as (nd & e & Hnd & He & Hce & Htr).
          subst j. rewrite Hce. eapply reach_step; [exact Hrn | exact Hnd | exact He | exact (Htr Hbc)].
        * apply Hinv. rewrite <- (tab_add_all_other cs tab tab1 j Ht1 Hni). exact Hj.
  Qed.

  Lemma sweep_children_filled : forall g ids tab tab',
      wfg E g -> bop_contract E g -> desc ids -> sweep E g ids tab = Some tab' ->
      forall m nd e, In m ids -> nth m tab' None <> None -> nth_error g m = Some nd ->
                     In e (n_children nd) -> e_tracked e = true ->
                     nth (e_node e) tab' None <> None.
  Proof.
    intros g ids. induction ids as [|n rest IH]; intros tab tab' Hwf Hbc Hdesc H m nd e Hm Hne Hnd He Ht.
    - destruct Hm.
    - destruct Hdesc as [Hlt Hdesc].
      assert (Hsame : nth n tab' None = nth n tab None).
      { apply (sweep_unchanged g (n :: rest) tab tab' n Hwf H).
        intros k [Hk | Hk]; [lia | specialize (Hlt k Hk); lia]. }
      apply sweep_cons_inv in H.
      destruct H as [[Hd H] | (delta & cs & tab1 & Hd & Hcs & Ht1 & H)].
      + destruct Hm as [Hm | Hm].
        * subst m. rewrite Hsame, Hd in Hne. contradiction Hne. reflexivity.
        * eapply (IH tab tab'); eassumption.
      + destruct Hm as [Hm | Hm].
        * subst m. apply (sweep_mono g rest tab1 tab' _ H).
          apply (tab_add_all_hit cs tab tab1 _ Ht1).
          eapply contribs_tracked; eassumption.
        * eapply (IH tab1 tab'); eassumption.
  Qed.

  Theorem adjoints_reach : forall g r s tab,
      wfg E g -> bop_contract E g -> r < length g -> adjoints E g r s = Some tab ->
      forall id, nth id tab None <> None <-> reach g r id.
  Proof.
    intros g r s tab Hwf Hbc Hr H id. split.
    - unfold adjoints in H. revert id.
      apply (sweep_reach_sound g r _ _ tab Hbc H).
      intros j Hj. rewrite init_table_nth in Hj.
      destruct (j =? r) eqn:Hjr; [|contradiction Hj; reflexivity].
      apply Nat.eqb_eq in Hjr. subst j. apply reach_root.
    - intro Hreach. induction Hreach as [|m nd e Hm IH Hnd He Ht].
      + destruct (adjoints_shape g r s tab Hwf Hr H) as (_ & Hs & _). rewrite Hs. discriminate.
      + unfold adjoints in H.
        apply (sweep_children_filled g _ _ tab Hwf Hbc (desc_down_from r) H m nd e); try assumption.
        apply in_down_from. eapply reach_le; eassumption.
  Qed.

  (** unreachable slots in particular: slots of ids that are not nodes *)
  Corollary adjoints_beyond : forall g r s tab id,
      wfg E g -> r < length g -> adjoints E g r s = Some tab -> length g <= id ->
      nth id tab None = None.
  Proof.
    intros g r s tab id Hwf Hr H Hid.
    destruct (adjoints_shape g r s tab Hwf Hr H) as (Hl & _ & _).
    apply nth_beyond_none. lia.
  Qed.
End SweepBase.
