(** User-facing compositions of the engine theorems: passes preserve the invariants,
    are independent of earlier passes, accumulate additively (C10); every closure runs
    once with its adjoint (C11); flags and support (C09); linearity in the seed (C17);
    reverse mode agrees with forward mode (C01). *)

From Coq Require Import List Arith Bool Lia PeanoNat Permutation.
From Corgi Require Import Lib.OptionMonad Model.Engine Proofs.EngineDefs Proofs.EngineBase
     Proofs.Propagate Proofs.EngineInv Proofs.AdjointSpec Proofs.SweepFacts Proofs.ValueAlg
     Proofs.SweepChar Proofs.EngineSeg Proofs.EngineValue.
Import ListNotations.

(** the slot [o] became [o'] under a pass whose table entry for the node is [od] *)
Definition stored_opt {P D} (E : eops P D) (o : option D) (od : option D) (o' : option D) : Prop :=
  match od with
  | None => o' = o
  | Some d => stored E o d o'
  end.

(** * Structure: facts that need no algebra *)

Section Structure.
  Context {P D : Type}.
  Variable E : eops P D.

  Lemma wfg_skel : forall g g' : store P D, skel_eq g g' -> wfg E g -> wfg E g'.
  Proof.
    intros g g' Hs Hwf id nd' Hn'.
    destruct (skel_eq_nth g g' id Hs) as [[_ Hb] | (nd & nd2 & Ha & Hb & Hp & Hc)];
      [congruence |].
    rewrite Hn' in Hb. injection Hb as Hb. subst nd2.
    destruct (Hwf id nd Ha) as (H1 & H2). unfold hasop in *. rewrite <- Hp, <- Hc.
    split; assumption.
  Qed.

  Lemma bop_contract_skel : forall g g' : store P D,
      skel_eq g g' -> bop_contract E g -> bop_contract E g'.
  Proof.
    intros g g' Hs Hbc id nd' pays delta ds Hn' Hb.
    destruct (skel_eq_nth g g' id Hs) as [[_ Hb'] | (nd & nd2 & Ha & Hb' & Hp & Hc)];
      [congruence |].
    rewrite Hn' in Hb'. injection Hb' as Hb'. subst nd2.
    rewrite <- Hp, <- Hc in Hb. rewrite <- Hc. apply (Hbc id nd pays delta ds Ha Hb).
  Qed.

  Lemma reach_skel : forall (g g' : store P D) r id, skel_eq g g' -> reach g r id -> reach g' r id.
  Proof.
    intros g g' r id Hs H. induction H as [|m nd e Hr IH Hn Hin Ht].
    - apply reach_root.
    - destruct (skel_eq_nth g g' m Hs) as [[Ha _] | (nd1 & nd2 & Ha & Hb & Hp & Hc)];
        [congruence |].
      rewrite Hn in Ha. injection Ha as Ha. subst nd1.
      apply (reach_step g' r m nd2 e IH Hb); [rewrite <- Hc; exact Hin | exact Ht].
  Qed.

  Lemma reach_skel_iff : forall (g g' : store P D) r id,
      skel_eq g g' -> (reach g r id <-> reach g' r id).
  Proof.
    intros g g' r id Hs. split; apply reach_skel; [exact Hs | apply skel_eq_sym; exact Hs].
  Qed.

  Lemma seed_of_skel : forall (g g' : store P D) r seed,
      skel_eq g g' -> seed_of E g r seed = seed_of E g' r seed.
  Proof.
    intros g g' r seed Hs. unfold seed_of. destruct seed as [s|]; [reflexivity |].
    destruct (skel_eq_nth g g' r Hs) as [[Ha Hb] | (nd1 & nd2 & Ha & Hb & Hp & _)];
      rewrite Ha, Hb; simpl; [reflexivity | rewrite Hp; reflexivity].
  Qed.

  Lemma hasop_skel : forall (g g' : store P D) id,
      skel_eq g g' ->
      ((exists nd, nth_error g id = Some nd /\ hasop E nd = true) <->
       (exists nd, nth_error g' id = Some nd /\ hasop E nd = true)).
  Proof.
    assert (Hone : forall (g g' : store P D) id, skel_eq g g' ->
               (exists nd, nth_error g id = Some nd /\ hasop E nd = true) ->
               (exists nd, nth_error g' id = Some nd /\ hasop E nd = true)).
    { intros g g' id Hs (nd & Hn & Hop).
      destruct (skel_eq_nth g g' id Hs) as [[Ha _] | (nd1 & nd2 & Ha & Hb & Hp & _)];
        [congruence |].
      rewrite Hn in Ha. injection Ha as Ha. subst nd1. exists nd2. split; [exact Hb |].
      unfold hasop in *. rewrite <- Hp. exact Hop. }
    intros g g' id Hs. split; apply Hone; [exact Hs | apply skel_eq_sym; exact Hs].
  Qed.

  (** a successful pass keeps the skeleton, well-formedness, cleanliness and the contract *)
  Theorem pass_structure : forall (g : store P D) r keep seed g' log,
      wfg E g -> clean g -> bop_contract E g -> r < length g ->
      run_backward E g r keep seed = Some (g', log) ->
      skel_eq g g' /\ wfg E g' /\ clean g' /\ bop_contract E g'.
  Proof.
    intros g r keep seed g' log Hwf Hclean Hbc Hr Hrun.
    destruct (pass_spec E g r keep seed g' log Hwf Hclean Hbc Hr Hrun)
      as (Hclean' & Hlen & Hskel & _).
    assert (Hs : skel_eq g g').
    { split; [symmetry; exact Hlen |]. intros id nd nd' Hn Hn'.
      destruct (Hskel id nd nd' Hn Hn') as (H1 & H2). split; symmetry; assumption. }
    split; [exact Hs |]. split; [eapply wfg_skel; eassumption |].
    split; [exact Hclean' | eapply bop_contract_skel; eassumption].
  Qed.

  (** the default seed: [None] behaves exactly like [Some ones] (definitional in the model) *)
  Theorem run_backward_default_seed : forall (g : store P D) r keep ndr,
      nth_error g r = Some ndr ->
      run_backward E g r keep None = run_backward E g r keep (Some (eo_ones E (n_pay ndr))).
  Proof.
    intros g r keep ndr Hndr. unfold run_backward. rewrite !backward_S, Hndr. reflexivity.
  Qed.

  Lemma seed_of_total : forall (g : store P D) r seed,
      r < length g -> exists s0, seed_of E g r seed = Some s0.
  Proof.
    intros g r seed Hr. unfold seed_of. destruct seed as [s|]; [exists s; reflexivity |].
    destruct (nth_error g r) as [nd|] eqn:Hn; [| apply nth_error_None in Hn; lia].
    eexists. reflexivity.
  Qed.

  (** (T3, C09 engine part) flags and support of a pass *)
  Theorem pass_flags_and_support : forall (g : store P D) r keep seed g' log,
      wfg E g -> clean g -> bop_contract E g -> r < length g ->
      run_backward E g r keep seed = Some (g', log) ->
      (* payload and children -- hence every entry with its flags -- are as before:
         the clear/restore pair around the closure is neutral *)
      length g' = length g /\
      (forall id nd nd', nth_error g id = Some nd -> nth_error g' id = Some nd' ->
           n_pay nd' = n_pay nd /\ n_children nd' = n_children nd /\
           forall i e, nth_error (n_children nd) i = Some e ->
                       nth_error (n_children nd') i = Some e) /\
      (* a gradient slot changes only on the differentiated sub-graph: nothing flows
         through an untracked entry *)
      (forall id nd nd', nth_error g id = Some nd -> nth_error g' id = Some nd' ->
           ~ reach g r id -> n_grad nd' = n_grad nd) /\
      (* what a pass stores is a plain value: the slot is untouched, or holds the adjoint,
         or holds [eo_add old adjoint] *)
      (forall id nd nd', nth_error g id = Some nd -> nth_error g' id = Some nd' ->
           n_grad nd' = n_grad nd \/ exists delta, stored E (n_grad nd) delta (n_grad nd')).
  Proof.
    intros g r keep seed g' log Hwf Hclean Hbc Hr Hrun.
    destruct (pass_spec E g r keep seed g' log Hwf Hclean Hbc Hr Hrun)
      as (_ & Hlen & Hskel & Hout & _).
    split; [exact Hlen |]. split.
    { intros id nd nd' Hn Hn'. destruct (Hskel id nd nd' Hn Hn') as (H1 & H2).
      split; [exact H1 |]. split; [exact H2 |]. intros i e He. rewrite H2. exact He. }
    split; [exact Hout |].
    intros id nd nd' Hn Hn'.
    destruct (seed_of_total g r seed Hr) as (s0 & Hseed).
    destruct (engine_facts E g r keep seed s0 g' log Hwf Hclean Hbc Hr Hseed Hrun)
      as (FT' & H & _ & _ & _ & _ & _ & _ & Hgr & _).
    specialize (Hgr id). unfold grule in Hgr.
    rewrite (grd_nth g id nd Hn), (grd_nth g' id nd' Hn') in Hgr.
    destruct (lk id ((r, s0, keep) :: FT')) as [[d k]|]; [| left; exact Hgr].
    destruct (leafb g id || k); [| left; exact Hgr].
    right. exists d. apply gstore_stored. exact Hgr.
  Qed.
End Structure.

(** * Values *)

Section Value.
  Context {P D : Type}.
  Variable E : eops P D.
  Variable S : Type.
  Variable sh : D -> S.
  Variable psh : P -> S.
  Hypothesis add_ok : forall x y, sh x = sh y -> exists z, eo_add E x y = Some z /\ sh z = sh x.
  Hypothesis add_comm : forall x y, sh x = sh y -> eo_add E x y = eo_add E y x.
  Hypothesis add_assoc : forall x y z xy yz, sh x = sh y -> sh y = sh z ->
      eo_add E x y = Some xy -> eo_add E y z = Some yz -> eo_add E xy z = eo_add E x yz.
  Hypothesis flat_sh : forall d p d', eo_flat E d p = Some d' -> sh d' = psh p.

  (** every stored gradient has its node's shape *)
  Definition gshape (g : store P D) : Prop :=
    forall id nd x, nth_error g id = Some nd -> n_grad nd = Some x -> sh x = psh (n_pay nd).

  (** the standing invariants between passes *)
  Definition good (g : store P D) : Prop :=
    wfg E g /\ clean g /\ bop_contract E g /\ gshape g.

  (** the pass (r, seed) is admissible on [g] and uses the seed [s0] *)
  Definition seed_ok (g : store P D) (r : nat) (seed : option D) (s0 : D) : Prop :=
    r < length g /\ seed_of E g r seed = Some s0 /\
    exists ndr, nth_error g r = Some ndr /\ sh s0 = psh (n_pay ndr).

  Lemma seed_ok_skel : forall g g' r seed s0,
      skel_eq g g' -> seed_ok g r seed s0 -> seed_ok g' r seed s0.
  Proof.
    intros g g' r seed s0 Hs (Hr & Hseed & ndr & Hndr & Hsh).
    split; [destruct Hs as (Hl & _); lia |].
    split; [rewrite <- (seed_of_skel E g g' r seed Hs); exact Hseed |].
    destruct (skel_eq_nth g g' r Hs) as [[Ha _] | (nd1 & nd2 & Ha & Hb & Hp & _)];
      [congruence |].
    rewrite Hndr in Ha. injection Ha as Ha. subst nd1. exists nd2.
    split; [exact Hb | congruence].
  Qed.

  (** (T1a) a pass preserves all standing invariants and the skeleton *)
  Theorem pass_preserves_invariants : forall g r keep seed s0 g' log,
      good g -> seed_ok g r seed s0 ->
      run_backward E g r keep seed = Some (g', log) ->
      good g' /\ skel_eq g g'.
  Proof.
    intros g r keep seed s0 g' log (Hwf & Hclean & Hbc & Hgs) (Hr & Hseed & ndr & Hndr & Hsh) Hrun.
    destruct (pass_structure E g r keep seed g' log Hwf Hclean Hbc Hr Hrun)
      as (Hs & Hwf' & Hclean' & Hbc').
    destruct (pass_value E S sh psh add_ok add_comm add_assoc flat_sh g r keep seed s0 ndr g' log
                         Hwf Hclean Hbc Hr Hndr Hseed Hsh Hgs Hrun)
      as (tab & _ & _ & _ & _ & _ & _ & _ & _ & _ & _ & _ & Hgs').
    split; [| exact Hs]. split; [exact Hwf' |]. split; [exact Hclean' |].
    split; [exact Hbc' | exact Hgs'].
  Qed.

  (** what a pass does to the leaves: the table entry is accumulated into the slot *)
  Lemma pass_leaf : forall g r keep seed s0 g' log,
      good g -> seed_ok g r seed s0 ->
      run_backward E g r keep seed = Some (g', log) ->
      exists tab, adjoints E g r s0 = Some tab /\ length tab = length g /\
        (forall id delta, In (id, delta) log -> nth id tab None = Some delta) /\
        forall id nd nd', nth_error g id = Some nd -> nth_error g' id = Some nd' ->
                          n_children nd = [] ->
                          stored_opt E (n_grad nd) (nth id tab None) (n_grad nd').
  Proof.
    intros g r keep seed s0 g' log (Hwf & Hclean & Hbc & Hgs) (Hr & Hseed & ndr & Hndr & Hsh) Hrun.
    destruct (pass_spec E g r keep seed g' log Hwf Hclean Hbc Hr Hrun)
      as (_ & _ & _ & Hout & _).
    destruct (pass_value E S sh psh add_ok add_comm add_assoc flat_sh g r keep seed s0 ndr g' log
                         Hwf Hclean Hbc Hr Hndr Hseed Hsh Hgs Hrun)
      as (tab & Htab & Hlen & _ & Hlog & Hre & _ & _ & Hleaf & _).
    exists tab. split; [exact Htab |]. split; [exact Hlen |].
    split.
    { intros id delta Hin. rewrite nth_nth_error, (Hlog id delta Hin). reflexivity. }
    intros id nd nd' Hn Hn' Hch.
    assert (Hid : id < length g) by (eapply nth_lt; exact Hn).
    unfold stored_opt. destruct (nth id tab None) as [d|] eqn:Hd.
    - apply (Hleaf id nd nd' d Hn Hn'); [| exact Hch].
      rewrite nth_nth_error in Hd. destruct (nth_error tab id) as [x|] eqn:Hx; congruence.
    - apply (Hout id nd nd' Hn Hn'). intro Hreach. apply (Hre id Hid) in Hreach.
      apply Hreach. exact Hd.
  Qed.

  (** (T1b) a pass computes the same thing whatever the gradient slots hold: two stores
      with the same skeleton give the same adjoint table and the same closure calls *)
  Theorem pass_independent : forall g1 g2 r keep seed s0 g1' log1 g2' log2,
      skel_eq g1 g2 -> good g1 -> good g2 -> seed_ok g1 r seed s0 ->
      run_backward E g1 r keep seed = Some (g1', log1) ->
      run_backward E g2 r keep seed = Some (g2', log2) ->
      seed_of E g2 r seed = Some s0 /\
      adjoints E g1 r s0 = adjoints E g2 r s0 /\
      (forall id delta, In (id, delta) log1 <-> In (id, delta) log2) /\
      Permutation log1 log2.
  Proof.
    intros g1 g2 r keep seed s0 g1' log1 g2' log2 Hs Hg1 Hg2 Hso1 Hrun1 Hrun2.
    pose proof (seed_ok_skel g1 g2 r seed s0 Hs Hso1) as Hso2.
    destruct (pass_leaf g1 r keep seed s0 g1' log1 Hg1 Hso1 Hrun1) as (t1 & Ht1 & _ & Hl1 & _).
    destruct (pass_leaf g2 r keep seed s0 g2' log2 Hg2 Hso2 Hrun2) as (t2 & Ht2 & _ & Hl2 & _).
    pose proof (adjoints_skel E g1 g2 r s0 Hs) as Hadj.
    assert (Ht : t1 = t2) by congruence. subst t2.
    destruct Hg1 as (Hwf1 & Hcl1 & Hbc1 & _). destruct Hg2 as (Hwf2 & Hcl2 & Hbc2 & _).
    destruct Hso1 as (Hr1 & _). destruct Hso2 as (Hr2 & Hseed2 & _).
    destruct (pass_spec E g1 r keep seed g1' log1 Hwf1 Hcl1 Hbc1 Hr1 Hrun1)
      as (_ & _ & _ & _ & Hnd1 & Hin1 & _).
    destruct (pass_spec E g2 r keep seed g2' log2 Hwf2 Hcl2 Hbc2 Hr2 Hrun2)
      as (_ & _ & _ & _ & Hnd2 & Hin2 & _).
    assert (Hids : forall id, In id (map fst log1) <-> In id (map fst log2)).
    { intro id. rewrite Hin1, Hin2, (reach_skel_iff g1 g2 r id Hs), (hasop_skel E g1 g2 id Hs).
      reflexivity. }
    assert (Hone : forall la lb : @trace D,
               (forall id delta, In (id, delta) la -> nth id t1 None = Some delta) ->
               (forall id delta, In (id, delta) lb -> nth id t1 None = Some delta) ->
               (forall id, In id (map fst la) -> In id (map fst lb)) ->
               forall id delta, In (id, delta) la -> In (id, delta) lb).
    { intros la lb Ha Hb Hsub id delta Hin.
      assert (Hi : In id (map fst lb)).
      { apply Hsub. change id with (fst (id, delta)). apply in_map. exact Hin. }
      apply in_map_iff in Hi. destruct Hi as ([id' d'] & Hf & Hin'). simpl in Hf. subst id'.
      pose proof (Ha id delta Hin) as H1. pose proof (Hb id d' Hin') as H2.
      assert (d' = delta) by congruence. subst d'. exact Hin'. }
    assert (Hsame : forall id delta, In (id, delta) log1 <-> In (id, delta) log2).
    { intros id delta. split.
      - apply (Hone log1 log2 Hl1 Hl2). intro i. apply Hids.
      - apply (Hone log2 log1 Hl2 Hl1). intro i. apply Hids. }
    split; [exact Hseed2 |]. split; [exact Hadj |]. split; [exact Hsame |].
    apply NoDup_Permutation.
    - eapply NoDup_map_inv. exact Hnd1.
    - eapply NoDup_map_inv. exact Hnd2.
    - intros [id delta]. apply Hsame.
  Qed.

  (** (T1c) two passes in a row: each leaf accumulates the two stand-alone tables,
      both computed on the ORIGINAL store *)
  Theorem two_passes_add : forall g r1 keep1 seed1 s1 r2 keep2 seed2 s2 g1 log1 g2 log2,
      good g -> seed_ok g r1 seed1 s1 -> seed_ok g r2 seed2 s2 ->
      run_backward E g r1 keep1 seed1 = Some (g1, log1) ->
      run_backward E g1 r2 keep2 seed2 = Some (g2, log2) ->
      exists tab1 tab2,
        adjoints E g r1 s1 = Some tab1 /\ adjoints E g r2 s2 = Some tab2 /\
        good g2 /\ skel_eq g g2 /\
        forall id nd nd2, nth_error g id = Some nd -> nth_error g2 id = Some nd2 ->
          n_children nd = [] ->
          exists o1, stored_opt E (n_grad nd) (nth id tab1 None) o1 /\
                     stored_opt E o1 (nth id tab2 None) (n_grad nd2).
  Proof.
    intros g r1 keep1 seed1 s1 r2 keep2 seed2 s2 g1 log1 g2 log2 Hg Hso1 Hso2 Hrun1 Hrun2.
    destruct (pass_preserves_invariants g r1 keep1 seed1 s1 g1 log1 Hg Hso1 Hrun1) as (Hg1 & Hs1).
    pose proof (seed_ok_skel g g1 r2 seed2 s2 Hs1 Hso2) as Hso2'.
    destruct (pass_preserves_invariants g1 r2 keep2 seed2 s2 g2 log2 Hg1 Hso2' Hrun2)
      as (Hg2 & Hs2).
    destruct (pass_leaf g r1 keep1 seed1 s1 g1 log1 Hg Hso1 Hrun1) as (t1 & Ht1 & _ & _ & Hleaf1).
    destruct (pass_leaf g1 r2 keep2 seed2 s2 g2 log2 Hg1 Hso2' Hrun2)
      as (t2 & Ht2 & _ & _ & Hleaf2).
    rewrite <- (adjoints_skel E g g1 r2 s2 Hs1) in Ht2.
    exists t1, t2. split; [exact Ht1 |]. split; [exact Ht2 |]. split; [exact Hg2 |].
    split; [eapply skel_eq_trans; eassumption |].
    intros id nd nd2 Hn Hn2 Hch.
    destruct (skel_eq_nth g g1 id Hs1) as [[Ha _] | (a & nd1 & Ha & Hb & _ & Hc)]; [congruence |].
    rewrite Hn in Ha. injection Ha as Ha. subst a.
    exists (n_grad nd1). split.
    - apply (Hleaf1 id nd nd1 Hn Hb Hch).
    - apply (Hleaf2 id nd1 nd2 Hb Hn2). rewrite <- Hc. exact Hch.
  Qed.

  Lemma stored_opt_none : forall od o', stored_opt E None od o' -> o' = od.
  Proof. intros od o' H. destruct od as [d|]; simpl in H; exact H. Qed.

  (** ** (T1d) any sequence of passes and gradient clears *)

  Inductive step : Type :=
  | Pass (r : nat) (keep : bool) (seed : option D)
  | Clear (id : nat).

  (** what the user does to restart accumulation on a node *)
  Definition clear_grad (g : store P D) (id : nat) : option (store P D) :=
    nd <- nth_error g id ;; put g id (set_grad nd None).

  Fixpoint run_steps (g : store P D) (st : list step) : option (store P D) :=
    match st with
    | [] => Some g
    | Pass r keep seed :: st' => res <- run_backward E g r keep seed ;; run_steps (fst res) st'
    | Clear id :: st' => g' <- clear_grad g id ;; run_steps g' st'
    end.

  (** the slot of node [id] after the steps [st], starting from [o]: every pass accumulates
      the entry of its stand-alone table, computed on the ORIGINAL store [g0]; a clear of
      [id] restarts from [None] *)
  Fixpoint acc_steps (g0 : store P D) (st : list step) (id : nat) (o o' : option D) : Prop :=
    match st with
    | [] => o' = o
    | Pass r keep seed :: st' =>
      exists s0 tab o1,
        seed_of E g0 r seed = Some s0 /\ adjoints E g0 r s0 = Some tab /\
        stored_opt E o (nth id tab None) o1 /\ acc_steps g0 st' id o1 o'
    | Clear i :: st' => acc_steps g0 st' id (if i =? id then None else o) o'
    end.

  Definition step_ok (g0 : store P D) (s : step) : Prop :=
    match s with
    | Pass r _ seed => exists s0, seed_ok g0 r seed s0
    | Clear _ => True
    end.

  Lemma clear_grad_preserves : forall g i g',
      good g -> clear_grad g i = Some g' ->
      good g' /\ skel_eq g g' /\
      forall id nd nd', nth_error g id = Some nd -> nth_error g' id = Some nd' ->
                        n_grad nd' = if i =? id then None else n_grad nd.
  Proof.
    intros g i g' (Hwf & Hclean & Hbc & Hgs) Hc. unfold clear_grad in Hc.
    apply obind_some in Hc. destruct Hc as (ndi & Hndi & Hput).
    pose proof (skel_eq_put_grad g i ndi None g' Hndi Hput) as Hs.
    apply put_inv in Hput. destruct Hput as (_ & _ & Hnth).
    assert (Hcase : forall id nd', nth_error g' id = Some nd' ->
               (id = i /\ nd' = set_grad ndi None) \/ (id <> i /\ nth_error g id = Some nd')).
    { intros id nd' Hn'. rewrite Hnth in Hn'. destruct (id =? i) eqn:Hid.
      - apply Nat.eqb_eq in Hid. left. split; [exact Hid | congruence].
      - apply Nat.eqb_neq in Hid. right. split; assumption. }
    split; [| split; [exact Hs |]].
    - split; [eapply wfg_skel; eassumption |]. split; [| split; [eapply bop_contract_skel; eassumption |]].
      + intros id nd' Hn'. destruct (Hcase id nd' Hn') as [(Hid & Hnd') | (Hid & Hn)].
        * subst id nd'. simpl. apply (Hclean i ndi Hndi).
        * apply (Hclean id nd' Hn).
      + intros id nd' x Hn' Hx. destruct (Hcase id nd' Hn') as [(Hid & Hnd') | (Hid & Hn)].
        * subst nd'. simpl in Hx. discriminate Hx.
        * apply (Hgs id nd' x Hn Hx).
    - intros id nd nd' Hn Hn'. destruct (Hcase id nd' Hn') as [(Hid & Hnd') | (Hid & Hn2)].
      + subst id nd'. rewrite Nat.eqb_refl. reflexivity.
      + assert (Hne : (i =? id) = false) by (apply Nat.eqb_neq; congruence).
        rewrite Hne. congruence.
  Qed.

  Lemma steps_accumulate_gen : forall g0 st g gN,
      skel_eq g0 g -> good g -> Forall (step_ok g0) st ->
      run_steps g st = Some gN ->
      good gN /\ skel_eq g0 gN /\
      forall id nd ndN, nth_error g id = Some nd -> nth_error gN id = Some ndN ->
                        n_children nd = [] -> acc_steps g0 st id (n_grad nd) (n_grad ndN).
  Proof.
    intros g0 st. induction st as [|s st IH]; intros g gN Hs Hg Hok Hrun.
    - simpl in Hrun. injection Hrun as Hrun. subst gN.
      split; [exact Hg |]. split; [exact Hs |].
      intros id nd ndN Hn HnN _. simpl. congruence.
    - inversion Hok as [|s' st' Hs1 Hok']. subst s' st'.
      destruct s as [r keep seed | i]; simpl in Hrun.
      + apply obind_some in Hrun. destruct Hrun as ([g' log] & Hpass & Hrun). simpl in Hrun.
        destruct Hs1 as (s0 & Hso0).
        pose proof (seed_ok_skel g0 g r seed s0 Hs Hso0) as Hso.
        destruct (pass_preserves_invariants g r keep seed s0 g' log Hg Hso Hpass) as (Hg' & Hs').
        destruct (pass_leaf g r keep seed s0 g' log Hg Hso Hpass) as (tab & Htab & _ & _ & Hleaf).
        rewrite <- (adjoints_skel E g0 g r s0 Hs) in Htab.
        destruct (IH g' gN (skel_eq_trans g0 g g' Hs Hs') Hg' Hok' Hrun) as (HgN & HsN & Hacc).
        split; [exact HgN |]. split; [exact HsN |].
        intros id nd ndN Hn HnN Hch.
        destruct (skel_eq_nth g g' id Hs') as [[Ha _] | (a & nd' & Ha & Hb & _ & Hc)];
          [congruence |].
        rewrite Hn in Ha. injection Ha as Ha. subst a.
        simpl. exists s0, tab, (n_grad nd').
        split; [destruct Hso0 as (_ & Hseed & _); exact Hseed |]. split; [exact Htab |].
        split; [apply (Hleaf id nd nd' Hn Hb Hch) |].
        apply (Hacc id nd' ndN Hb HnN). rewrite <- Hc. exact Hch.
      + apply obind_some in Hrun. destruct Hrun as (g' & Hclr & Hrun).
        destruct (clear_grad_preserves g i g' Hg Hclr) as (Hg' & Hs' & Hgr).
        destruct (IH g' gN (skel_eq_trans g0 g g' Hs Hs') Hg' Hok' Hrun) as (HgN & HsN & Hacc).
        split; [exact HgN |]. split; [exact HsN |].
        intros id nd ndN Hn HnN Hch.
        destruct (skel_eq_nth g g' id Hs') as [[Ha _] | (a & nd' & Ha & Hb & _ & Hc)];
          [congruence |].
        rewrite Hn in Ha. injection Ha as Ha. subst a.
        simpl. rewrite <- (Hgr id nd nd' Hn Hb).
        apply (Hacc id nd' ndN Hb HnN). rewrite <- Hc. exact Hch.
  Qed.

  (** (T1d) gradients accumulate additively over any sequence of passes, counted from the
      last time the slot was cleared; every table is the one of the stand-alone pass on
      the original store *)
  Theorem steps_accumulate : forall g0 st gN,
      good g0 -> Forall (step_ok g0) st -> run_steps g0 st = Some gN ->
      good gN /\ skel_eq g0 gN /\
      forall id nd ndN, nth_error g0 id = Some nd -> nth_error gN id = Some ndN ->
                        n_children nd = [] -> acc_steps g0 st id (n_grad nd) (n_grad ndN).
  Proof.
    intros g0 st gN Hg Hok Hrun.
    apply (steps_accumulate_gen g0 st g0 gN (skel_eq_refl g0) Hg Hok Hrun).
  Qed.

  (** ** (T2, C11) every closure runs once, in order, with its adjoint *)

  (** all contributions sent by the nodes with a non-empty slot, evaluated at their
      adjoints, in sweep order *)
  Definition inc_all (g : store P D) (tab : table) (r : nat) : list (nat * D) :=
    flat_map (fun n => match nth n tab None with
                       | Some a => match contribs E g n a with Some cs => cs | None => [] end
                       | None => []
                       end) (rng 0 (Datatypes.S r)).

  Theorem closure_once_complete : forall g r keep seed s0 g' log,
      good g -> seed_ok g r seed s0 ->
      run_backward E g r keep seed = Some (g', log) ->
      exists tab, adjoints E g r s0 = Some tab /\
        (* once *)
        NoDup (map fst log) /\
        (* exactly the closures of the differentiated sub-graph *)
        (forall id, In id (map fst log) <->
                    (reach g r id /\ exists nd, nth_error g id = Some nd /\ hasop E nd = true)) /\
        (* consumers first *)
        (forall n m, reach g r n -> tedge g n m ->
             (exists nd, nth_error g m = Some nd /\ hasop E nd = true) ->
             before (map fst log) n m) /\
        (* each call received the node's adjoint *)
        (forall id delta, In (id, delta) log -> nth id tab None = Some delta) /\
        (* which is the seed for the root and otherwise the accumulation, in any order, of
           exactly the contributions addressed to the node by the differentiated nodes *)
        (forall id l, id < length g -> Permutation l (vals id (inc_all g tab r)) ->
             accum E (if id =? r then Some s0 else None) l = Some (nth id tab None)).
  Proof.
    intros g r keep seed s0 g' log Hg Hso Hrun.
    destruct (pass_leaf g r keep seed s0 g' log Hg Hso Hrun) as (tab & Htab & Hlen & Hlog & _).
    destruct Hg as (Hwf & Hclean & Hbc & Hgs). destruct Hso as (Hr & Hseed & ndr & Hndr & Hsh).
    destruct (pass_spec E g r keep seed g' log Hwf Hclean Hbc Hr Hrun)
      as (_ & _ & _ & _ & Hnd & Hin & Hbef).
    exists tab. split; [exact Htab |]. split; [exact Hnd |]. split; [exact Hin |].
    split; [exact Hbef |]. split; [exact Hlog |].
    destruct (engine_facts E g r keep seed s0 g' log Hwf Hclean Hbc Hr Hseed Hrun)
      as (FT' & H & HA1 & Hnodes & Hcon & HA3 & HA4 & _).
    set (FT := (r, s0, keep) :: FT') in *.
    assert (HA2 : forall f, In f FT -> fnode f <= r /\ contribs E g (fnode f) (fdel f) <> None).
    { intros f Hf. split; [| apply Hcon; exact Hf].
      apply (Propagate.reach_le E g r Hwf). apply Hnodes. apply in_map. exact Hf. }
    assert (HA6 : exists x, nth_error g r = Some x /\ sh s0 = psh (n_pay x))
      by (exists ndr; split; assumption).
    destruct (sweep_char E S sh psh add_ok add_comm add_assoc flat_sh g r s0 Hwf Hr FT H
                         HA1 HA2 HA3 HA4 HA6) as (tab' & Htab' & _ & Hnth).
    assert (tab' = tab) by congruence. subst tab'.
    assert (Hslot : forall n, n < length g -> nth n tab None = dvl FT n).
    { intros n Hn. rewrite nth_nth_error, (Hnth n Hn). reflexivity. }
    assert (Hinc : CSab E g r FT 0 = inc_all g tab r).
    { unfold CSab, inc_all. rewrite Nat.sub_0_r. apply flat_map_ext_in.
      intros n Hn. apply rng_in in Hn.
      rewrite (Hslot n) by lia. unfold csn, dvl. rewrite (filter_node_lk FT n HA1).
      destruct (lk n FT) as [[d k]|]; simpl; [| reflexivity].
      unfold cso, fnode, fdel. simpl. apply app_nil_r. }
    intros id l Hid Hperm.
    pose proof (HA4' E S sh psh add_ok add_comm add_assoc flat_sh g r s0 Hwf Hr FT H
                     HA2 HA3 HA4 HA6 id Hid) as Hacc.
    rewrite Hinc, <- (Hslot id Hid) in Hacc. unfold init in Hacc. rewrite <- Hacc.
    destruct (nth_error g id) as [c|] eqn:Hc; [| apply nth_error_None in Hc; lia].
    apply (accum_perm E S sh add_ok add_comm add_assoc (psh (n_pay c))).
    - exact Hperm.
    - destruct (id =? r) eqn:Hidr; simpl; [| exact I].
      apply Nat.eqb_eq in Hidr. subst id. congruence.
    - apply Forall_forall. intros d Hd.
      apply (Permutation_in _ Hperm) in Hd. apply vals_in in Hd.
      unfold inc_all in Hd. apply in_flat_map in Hd. destruct Hd as (n & _ & Hd).
      destruct (nth n tab None) as [a|]; [| destruct Hd].
      destruct (contribs E g n a) as [cs|] eqn:Hcs; [| destruct Hd].
      destruct (contribs_targets E g n a cs id d Hwf Hcs Hd) as (_ & c' & d0 & Hc' & Hfl).
      rewrite Hc in Hc'. injection Hc' as Hc'. subst c'. eapply flat_sh. exact Hfl.
  Qed.

  (** ** (T4, C17) a pass is linear in its seed *)

  Section Linear.
    Variable comb : D -> D -> D.
    Hypothesis H_bop : forall p pays saved x y dx dy,
        sh x = sh y ->
        eo_bop E p pays saved x = Some dx -> eo_bop E p pays saved y = Some dy ->
        eo_bop E p pays saved (comb x y) = Some (map2o comb dx dy) /\
        (forall i a b, nth_error dx i = Some (Some a) -> nth_error dy i = Some (Some b) ->
                       sh a = sh b).
    Hypothesis H_flat : forall x y p x' y',
        sh x = sh y ->
        eo_flat E x p = Some x' -> eo_flat E y p = Some y' ->
        eo_flat E (comb x y) p = Some (comb x' y') /\ sh x' = sh y'.
    Hypothesis H_add : forall x1 x2 y1 y2 x y,
        sh x1 = sh y1 -> sh x2 = sh y2 ->
        eo_add E x1 x2 = Some x -> eo_add E y1 y2 = Some y ->
        eo_add E (comb x1 y1) (comb x2 y2) = Some (comb x y) /\ sh x = sh y.

    Theorem pass_linear : forall g r keep ndr s1 s2 g1 l1 g2 l2 g3 l3,
        good g -> r < length g -> nth_error g r = Some ndr ->
        sh s1 = psh (n_pay ndr) -> sh s2 = psh (n_pay ndr) ->
        sh (comb s1 s2) = psh (n_pay ndr) ->
        run_backward E g r keep (Some s1) = Some (g1, l1) ->
        run_backward E g r keep (Some s2) = Some (g2, l2) ->
        run_backward E g r keep (Some (comb s1 s2)) = Some (g3, l3) ->
        forall id nd nd1 nd2 nd3,
          nth_error g id = Some nd -> nth_error g1 id = Some nd1 ->
          nth_error g2 id = Some nd2 -> nth_error g3 id = Some nd3 ->
          n_children nd = [] -> n_grad nd = None ->
          (n_grad nd1 = None /\ n_grad nd2 = None /\ n_grad nd3 = None) \/
          (exists x1 x2, n_grad nd1 = Some x1 /\ n_grad nd2 = Some x2 /\
                         n_grad nd3 = Some (comb x1 x2)).
    Proof.
      intros g r keep ndr s1 s2 g1 l1 g2 l2 g3 l3 Hg Hr Hndr Hs1 Hs2 Hs3 Hrun1 Hrun2 Hrun3
             id nd nd1 nd2 nd3 Hn Hn1 Hn2 Hn3 Hch Hgn.
      assert (Hso : forall s, sh s = psh (n_pay ndr) -> seed_ok g r (Some s) s).
      { intros s Hs. split; [exact Hr |]. split; [reflexivity |]. exists ndr. split; assumption. }
      destruct (pass_leaf g r keep (Some s1) s1 g1 l1 Hg (Hso s1 Hs1) Hrun1)
        as (t1 & Ht1 & _ & _ & Hleaf1).
      destruct (pass_leaf g r keep (Some s2) s2 g2 l2 Hg (Hso s2 Hs2) Hrun2)
        as (t2 & Ht2 & _ & _ & Hleaf2).
      destruct (pass_leaf g r keep (Some (comb s1 s2)) (comb s1 s2) g3 l3 Hg (Hso _ Hs3) Hrun3)
        as (t3 & Ht3 & _ & _ & Hleaf3).
      pose proof (Hleaf1 id nd nd1 Hn Hn1 Hch) as H1. rewrite Hgn in H1.
      pose proof (Hleaf2 id nd nd2 Hn Hn2 Hch) as H2. rewrite Hgn in H2.
      pose proof (Hleaf3 id nd nd3 Hn Hn3 Hch) as H3. rewrite Hgn in H3.
      apply stored_opt_none in H1. apply stored_opt_none in H2. apply stored_opt_none in H3.
      destruct Hg as (_ & _ & Hbc & _).
      destruct (sweep_linear_ok E comb (fun x y => sh x = sh y) H_bop H_flat H_add
                                g r s1 s2 t1 t2 Hbc (eq_trans Hs1 (eq_sym Hs2)) Ht1 Ht2)
        as (Hlin & _ & Hnone & _).
      assert (Ht : t3 = map2o comb t1 t2) by congruence.
      rewrite Ht, map2o_nth in H3. rewrite H1, H2, H3.
      destruct (nth id t1 None) as [x1|] eqn:Hx1.
      - destruct (nth id t2 None) as [x2|] eqn:Hx2.
        + right. exists x1, x2. simpl. tauto.
        + exfalso. pose proof (proj2 (Hnone id) Hx2) as Hc. congruence.
      - left. simpl. split; [reflexivity |]. split; [apply (Hnone id); exact Hx1 | reflexivity].
    Qed.
  End Linear.

  (** ** (T5, C01) reverse mode agrees with forward mode *)

  Section Forward.
    Variable g : store P D.
    Variable T : Type.
    Variable K : Type.
    Variable k0 : K.
    Variable kadd : K -> K -> K.
    Hypothesis kadd_assoc : forall a b c, kadd a (kadd b c) = kadd (kadd a b) c.
    Hypothesis kadd_comm : forall a b, kadd a b = kadd b a.
    Hypothesis kadd_0_l : forall a, kadd k0 a = a.
    Variable pair : D -> T -> K.
    Variable tan : nat -> T.
    Hypothesis H_pair_add : forall x y z t,
        eo_add E x y = Some z -> pair z t = kadd (pair x t) (pair y t).
    Hypothesis H_local : forall n nd delta cs,
        nth_error g n = Some nd -> hasop E nd = true -> contribs E g n delta = Some cs ->
        pair delta (tan n) = ksum kadd k0 (map (fun c => pair (snd c) (tan (fst c))) cs).

    (** the seed paired with the forward tangent of the result equals the sum, over the
        nodes without a closure (the leaves), of the gradient the pass stored paired with
        the leaf's tangent *)
    Theorem reverse_equals_forward : forall r keep seed s0 g' log,
        good g -> (forall id nd, nth_error g id = Some nd -> n_grad nd = None) ->
        seed_ok g r seed s0 ->
        run_backward E g r keep seed = Some (g', log) ->
        pair s0 (tan r) =
        ksum kadd k0
             (map (fun m => match grd g' m with
                            | Some d => pair d (tan m)
                            | None => k0
                            end)
                  (filter (fun m => negb (isop E g m)) (seq 0 (Datatypes.S r)))).
    Proof.
      intros r keep seed s0 g' log Hg Hempty Hso Hrun.
      destruct (pass_leaf g r keep seed s0 g' log Hg Hso Hrun) as (tab & Htab & _ & _ & Hleaf).
      destruct (pass_preserves_invariants g r keep seed s0 g' log Hg Hso Hrun) as (_ & Hs).
      destruct Hg as (Hwf & _). destruct Hso as (Hr & _).
      rewrite (adjoint_identity E g T K k0 kadd kadd_assoc kadd_comm kadd_0_l pair tan
                                H_pair_add H_local r s0 tab Hwf Hr Htab).
      f_equal. apply map_ext_in. intros m Hm. apply filter_In in Hm. destruct Hm as (Hm & Hop).
      apply in_seq in Hm.
      destruct (skel_eq_nth g g' m Hs) as [[Ha _] | (nd & nd' & Ha & Hb & _ & _)].
      - apply nth_error_None in Ha. lia.
      - assert (Hch : n_children nd = []).
        { destruct (Hwf m nd Ha) as (_ & Hnil). apply Hnil.
          unfold isop in Hop. rewrite Ha in Hop. apply negb_true_iff in Hop. exact Hop. }
        pose proof (Hleaf m nd nd' Ha Hb Hch) as Hst. rewrite (Hempty m nd Ha) in Hst.
        apply stored_opt_none in Hst. rewrite (grd_nth g' m nd' Hb), Hst. reflexivity.
    Qed.
  End Forward.
End Value.

Print Assumptions pass_structure.
Print Assumptions run_backward_default_seed.
Print Assumptions pass_flags_and_support.
Print Assumptions pass_preserves_invariants.
Print Assumptions pass_independent.
Print Assumptions two_passes_add.
Print Assumptions steps_accumulate.
Print Assumptions closure_once_complete.
Print Assumptions pass_linear.
Print Assumptions reverse_equals_forward.
