(** (C17, concrete) a pass of the real engine is linear in its seed, on every graph whose
    closures are proved linear ([ConcreteLinear.bop_linear]).

    [SweepLinear.sweep_linear_ok] asks for the linearity of [eo_bop] for ALL payloads; we
    apply it to the instance [E2], which is [E'] with the closures outside a chosen set
    [LP] switched off.  On a graph all of whose closures are in [LP] the sweep of [E2] is
    the sweep of [E']. *)

From Coq Require Import List Arith Bool Lia PeanoNat.
From Corgi Require Import Lib.OptionMonad Lib.Sums Model.Scalar Model.Arr Model.SlicedOp
     Model.Elementwise Model.Ops Model.Engine Model.Program
     Proofs.ArrFacts Proofs.EngineDefs Proofs.EngineBase Proofs.EngineInv Proofs.AdjointSpec
     Proofs.SweepFacts Proofs.EngineValue Proofs.PassTheorems Proofs.OptimSpec Proofs.OpsWf
     Proofs.HistoryInv Proofs.ValueConcrete Proofs.ConcretePasses Proofs.ConcreteLinear.
Import ListNotations.

Section LinearPass.
  Context {F : Type} (O : ScalarOps F) (R : is_cring O).
  Variable alpha beta : F.

  Local Notation pay := (@pay F).
  Local Notation gnode := (@gnode F).
  Local Notation E := (Program.E O).
  Local Notation E' := (ValueConcrete.E' O).
  Local Notation acomb := (ConcreteLinear.acomb O alpha beta).
  Local Notation lc := (ConcreteLinear.lc O alpha beta).
  Local Notation ok := (@ConcreteLinear.ok F).

  (** the closures assumed linear *)
  Variable LP : bop_code F -> bool.
  Hypothesis HLP : forall code, LP code = true -> bop_linear O alpha beta code.

  (** * accumulation and flattening commute with the combination *)

  Lemma zipw_lin : forall a b c d : list F,
      length a = length b -> length c = length d ->
      zipw (fadd O) (map2 lc a b) (map2 lc c d)
      = map2 lc (zipw (fadd O) a c) (zipw (fadd O) b d).
  Proof.
    unfold zipw.
    induction a as [|u a IH]; intros [|v b] c d Hab Hcd; simpl in *; try reflexivity;
      try discriminate Hab.
    destruct c as [|w c], d as [|z d]; simpl in *; try reflexivity; try discriminate Hcd.
    rewrite (lc_add O R). f_equal. apply IH; lia.
  Qed.

  Lemma wfb_ok : forall x y : arr F, ok x y -> wfb y = wfb x.
  Proof. intros x y (Hd & Hl). unfold wfb. rewrite Hd, Hl. reflexivity. Qed.

  Lemma wfb_acomb : forall x y : arr F, ok x y -> wfb (acomb x y) = wfb x.
  Proof. intros x y H. apply wfb_ok. apply ok_acomb. exact H. Qed.

  Lemma add'_lin : forall x1 x2 y1 y2 x y,
      ok x1 y1 -> ok x2 y2 ->
      add' O x1 x2 = Some x -> add' O y1 y2 = Some y ->
      add' O (acomb x1 y1) (acomb x2 y2) = Some (acomb x y) /\ ok x y.
  Proof.
    intros x1 x2 y1 y2 x y H1 H2 Hx Hy. unfold add' in *.
    rewrite (wfb_acomb x1 y1 H1), (wfb_acomb x2 y2 H2). cbn [dims ConcreteLinear.acomb].
    rewrite (wfb_ok x1 y1 H1), (wfb_ok x2 y2 H2) in Hy.
    pose proof H1 as (Hd1 & Hl1). pose proof H2 as (Hd2 & Hl2). rewrite <- Hd1, <- Hd2 in Hy.
    destruct (wfb x1 && wfb x2 && dims_eqb (dims x1) (dims x2)).
    - injection Hx as Hx. injection Hy as Hy. subst x y. split.
      + f_equal. unfold padd, ConcreteLinear.acomb, lcomb. cbn [dims vals]. f_equal.
        apply zipw_lin; assumption.
      + split; [cbn [padd dims]; exact Hd1 |]. cbn [padd vals]. rewrite !zipw_length. lia.
    - injection Hx as Hx. injection Hy as Hy. subst x y. split; [reflexivity | exact H1].
  Qed.

  Lemma flat'_lin : forall x y (p : pay) x' y',
      ok x y -> flat' O x p = Some x' -> flat' O y p = Some y' ->
      flat' O (acomb x y) p = Some (acomb x' y') /\ ok x' y'.
  Proof.
    intros x y p x' y' Hok Hx Hy. unfold flat' in *.
    rewrite (wfb_acomb x y Hok). rewrite (wfb_ok x y Hok) in Hy.
    destruct (wfb x); [| discriminate Hx].
    apply (flatten_to_lin O R alpha beta x y (p_dims p) x' y' Hok Hx Hy).
  Qed.

  (** * the restricted instance *)

  Definition E2 : eops pay (arr F) := {|
    eo_ones := eo_ones E';
    eo_flat := eo_flat E';
    eo_add := eo_add E';
    eo_hasop := eo_hasop E';
    eo_bop := fun p cs t x =>
                code <- p_bop p ;;
                if LP code then run_bop O code (map pay_arr cs) t x else None |}.

  Lemma H_bop2 : forall p pays saved x y dx dy,
      ok x y ->
      eo_bop E2 p pays saved x = Some dx -> eo_bop E2 p pays saved y = Some dy ->
      eo_bop E2 p pays saved (acomb x y) = Some (map2o acomb dx dy) /\
      (forall i a b, nth_error dx i = Some (Some a) -> nth_error dy i = Some (Some b) -> ok a b).
  Proof.
    intros p pays saved x y dx dy Hok Hx Hy. cbn [eo_bop E2] in *.
    destruct (p_bop p) as [code|]; [| discriminate Hx]. cbn [obind] in *.
    destruct (LP code) eqn:Hlp; [| discriminate Hx].
    apply (HLP code Hlp (map pay_arr pays) saved x y dx dy Hok Hx Hy).
  Qed.

  (** every closure occurring in the graph is in [LP] *)
  Definition graph_lp (g : list gnode) : Prop :=
    forall id nd code, nth_error g id = Some nd -> p_bop (n_pay nd) = Some code -> LP code = true.

  Lemma contribs_E2 : forall (g : list gnode) n delta,
      graph_lp g -> contribs E2 g n delta = contribs E' g n delta.
  Proof.
    intros g n delta Hlp. unfold contribs, graph_lp, Program.gnode in *.
    destruct (nth_error g n) as [nd|] eqn:Hnd; [| reflexivity]. cbn [obind].
    change (eo_hasop E2 (n_pay nd)) with (eo_hasop E' (n_pay nd)).
    destruct (eo_hasop E' (n_pay nd)) eqn:Hop; [| reflexivity].
    destruct (mapM (fun e : entry => c <- nth_error g (e_node e) ;; Some (n_pay c)) (n_children nd))
      as [pays|]; [| reflexivity]. cbn [obind].
    assert (Hb : eo_bop E2 (n_pay nd) pays (map e_tracked (n_children nd)) delta
                 = eo_bop E' (n_pay nd) pays (map e_tracked (n_children nd)) delta).
    { cbn [eo_bop E2 ValueConcrete.E' Program.E]. simpl in Hop.
      destruct (p_bop (n_pay nd)) as [code|] eqn:Hc; [| reflexivity]. cbn [obind].
      rewrite (Hlp n nd code Hnd Hc). reflexivity. }
    rewrite Hb. reflexivity.
  Qed.

  Lemma sweep_E2 : forall (g : list gnode) ids tab,
      graph_lp g -> sweep E2 g ids tab = sweep E' g ids tab.
  Proof.
    intros g ids. induction ids as [|n ids IH]; intros tab Hlp; [reflexivity |].
    simpl. destruct (nth n tab None) as [delta|]; [| apply IH; exact Hlp].
    rewrite (contribs_E2 g n delta Hlp).
    destruct (contribs E' g n delta) as [cs|]; [| reflexivity]. cbn [obind].
    change (tab_add_all E2 tab cs) with (tab_add_all E' tab cs).
    destruct (tab_add_all E' tab cs) as [tab'|]; [| reflexivity]. cbn [obind].
    apply IH. exact Hlp.
  Qed.

  Lemma adjoints_E2 : forall (g : list gnode) r s,
      graph_lp g -> adjoints E2 g r s = adjoints E' g r s.
  Proof. intros g r s Hlp. unfold adjoints. apply sweep_E2. exact Hlp. Qed.

  Lemma contract_E2 : forall g : list gnode, bop_contract E g -> bop_contract E2 g.
  Proof.
    intros g Hbc id nd pays delta ds Hnd Hb. apply (Hbc id nd pays delta ds Hnd).
    cbn [eo_bop E2 Program.E] in *.
    destruct (p_bop (n_pay nd)) as [code|]; [| discriminate Hb]. cbn [obind] in *.
    destruct (LP code); [exact Hb | discriminate Hb].
  Qed.

  Lemma grad_ok_ok : forall (p : pay) x y, grad_ok p x -> grad_ok p y -> ok x y.
  Proof.
    intros p x y ((_ & Hlx) & Hdx) ((_ & Hly) & Hdy). split; [congruence |].
    rewrite <- Hlx, <- Hly, Hdx, Hdy. reflexivity.
  Qed.

  Lemma grad_ok_acomb : forall (p : pay) x y, grad_ok p x -> grad_ok p y -> grad_ok p (acomb x y).
  Proof.
    intros p x y Hx Hy. pose proof (grad_ok_ok p x y Hx Hy) as Hok. destruct Hx as (Hw & Hd).
    split; [apply acomb_wf; assumption | exact Hd].
  Qed.

  (** * the adjoint table is linear in the seed *)
  Theorem adjoints_linear_concrete : forall (g : list gnode) r (ndr : gnode) s1 s2 t1 t2,
      store_good g -> graph_lp g -> nth_error g r = Some ndr ->
      grad_ok (n_pay ndr) s1 -> grad_ok (n_pay ndr) s2 ->
      adjoints E' g r s1 = Some t1 -> adjoints E' g r s2 = Some t2 ->
      adjoints E' g r (acomb s1 s2) = Some (map2o acomb t1 t2) /\
      (forall j, nth j t1 None = None <-> nth j t2 None = None).
  Proof.
    intros g r ndr s1 s2 t1 t2 Hg Hlp Hndr Hs1 Hs2 Ht1 Ht2.
    rewrite <- (adjoints_E2 g r s1 Hlp) in Ht1. rewrite <- (adjoints_E2 g r s2 Hlp) in Ht2.
    rewrite <- (adjoints_E2 g r (acomb s1 s2) Hlp).
    destruct (sweep_linear_ok E2 acomb ok H_bop2
                              (fun x y p x' y' Hok Hx Hy => flat'_lin x y p x' y' Hok Hx Hy)
                              add'_lin g r s1 s2 t1 t2
                              (contract_E2 g (store_good_contract O g Hg))
                              (grad_ok_ok _ s1 s2 Hs1 Hs2) Ht1 Ht2) as (H1 & _ & H2 & _).
    split; assumption.
  Qed.

  (** (C17) three passes of the REAL engine from the same sound store with seeds [s1], [s2]
      and [alpha*s1 + beta*s2]: every leaf whose slot was empty receives the same
      combination of the two gradients *)
  Theorem pass_linear_concrete :
    forall (g : list gnode) r keep (ndr : gnode) s1 s2 g1 l1 g2 l2 g3 l3,
      store_good g -> graph_lp g -> nth_error g r = Some ndr ->
      grad_ok (n_pay ndr) s1 -> grad_ok (n_pay ndr) s2 ->
      run_backward E g r keep (Some s1) = Some (g1, l1) ->
      run_backward E g r keep (Some s2) = Some (g2, l2) ->
      run_backward E g r keep (Some (acomb s1 s2)) = Some (g3, l3) ->
      forall id (nd nd1 nd2 nd3 : gnode),
        nth_error g id = Some nd -> nth_error g1 id = Some nd1 ->
        nth_error g2 id = Some nd2 -> nth_error g3 id = Some nd3 ->
        n_children nd = [] -> n_grad nd = None ->
        (n_grad nd1 = None /\ n_grad nd2 = None /\ n_grad nd3 = None) \/
        (exists x1 x2, n_grad nd1 = Some x1 /\ n_grad nd2 = Some x2 /\
                       n_grad nd3 = Some (acomb x1 x2)).
  Proof.
    intros g r keep ndr s1 s2 g1 l1 g2 l2 g3 l3 Hg Hlp Hndr Hs1 Hs2 Hrun1 Hrun2 Hrun3
           id nd nd1 nd2 nd3 Hn Hn1 Hn2 Hn3 Hch Hgn.
    assert (Hr : r < length g) by (eapply Propagate.nth_lt; exact Hndr).
    assert (Hc : forall s, grad_ok (n_pay ndr) s -> cseed_ok g r (Some s)).
    { intros s Hs. split; [exact Hr |]. intros sd nd0 Hsd Hnd0.
      injection Hsd as Hsd. subst sd. unfold Program.gnode in *. rewrite Hndr in Hnd0.
      injection Hnd0 as Hnd0. subst nd0. exact Hs. }
    assert (Hleaf : forall s g' l, grad_ok (n_pay ndr) s ->
               run_backward E g r keep (Some s) = Some (g', l) ->
               exists tab, adjoints E' g r s = Some tab /\
                 forall nd', nth_error g' id = Some nd' -> n_grad nd' = nth id tab None).
    { intros s g' l Hs Hrun.
      destruct (cseed_pseed O g r (Some s) Hg (Hc s Hs)) as (s0 & Hso).
      assert (Hs0 : s0 = s).
      { destruct Hso as (_ & Hseed & _). simpl in Hseed. congruence. }
      subst s0.
      destruct (pass_leaf E' shape (@sh F) (@psh F) (add_ok' O) (add_comm' O R) (add_assoc' O R)
                          (flat_sh' O) g r keep (Some s) s g' l (store_good_pgood O g Hg) Hso
                          (run_E_E' O g r keep (Some s) _ Hg (Hc s Hs) Hrun))
        as (tab & Htab & _ & _ & Hlf).
      exists tab. split; [exact Htab |]. intros nd' Hnd'.
      pose proof (Hlf id nd nd' Hn Hnd' Hch) as Hst. rewrite Hgn in Hst.
      apply stored_opt_none in Hst. exact Hst. }
    destruct (Hleaf s1 g1 l1 Hs1 Hrun1) as (t1 & Ht1 & Hl1).
    destruct (Hleaf s2 g2 l2 Hs2 Hrun2) as (t2 & Ht2 & Hl2).
    destruct (Hleaf (acomb s1 s2) g3 l3 (grad_ok_acomb _ s1 s2 Hs1 Hs2) Hrun3) as (t3 & Ht3 & Hl3).
    destruct (adjoints_linear_concrete g r ndr s1 s2 t1 t2 Hg Hlp Hndr Hs1 Hs2 Ht1 Ht2)
      as (Hlin & Hnone).
    assert (Ht : t3 = map2o acomb t1 t2) by congruence.
    rewrite (Hl1 nd1 Hn1), (Hl2 nd2 Hn2), (Hl3 nd3 Hn3), Ht, map2o_nth.
    destruct (nth id t1 None) as [x1|] eqn:Hx1.
    - destruct (nth id t2 None) as [x2|] eqn:Hx2.
      + right. exists x1, x2. simpl. tauto.
      + exfalso. pose proof (proj2 (Hnone id) Hx2) as Hcon. congruence.
    - left. simpl. split; [reflexivity |]. split; [apply (Hnone id); exact Hx1 | reflexivity].
  Qed.
End LinearPass.

(** the instance with the closures proved linear in [ConcreteLinear.v] *)
Theorem pass_linear_proved :
  forall (F : Type) (O : ScalarOps F) (R : is_cring O) (alpha beta : F)
         (g : list (@gnode F)) r keep (ndr : @gnode F) s1 s2 g1 l1 g2 l2 g3 l3,
    store_good g -> graph_lp linear_proved g -> nth_error g r = Some ndr ->
    grad_ok (n_pay ndr) s1 -> grad_ok (n_pay ndr) s2 ->
    run_backward (Program.E O) g r keep (Some s1) = Some (g1, l1) ->
    run_backward (Program.E O) g r keep (Some s2) = Some (g2, l2) ->
    run_backward (Program.E O) g r keep (Some (acomb O alpha beta s1 s2)) = Some (g3, l3) ->
    forall id (nd nd1 nd2 nd3 : @gnode F),
      nth_error g id = Some nd -> nth_error g1 id = Some nd1 ->
      nth_error g2 id = Some nd2 -> nth_error g3 id = Some nd3 ->
      n_children nd = [] -> n_grad nd = None ->
      (n_grad nd1 = None /\ n_grad nd2 = None /\ n_grad nd3 = None) \/
      (exists x1 x2, n_grad nd1 = Some x1 /\ n_grad nd2 = Some x2 /\
                     n_grad nd3 = Some (acomb O alpha beta x1 x2)).
Proof.
  intros F O R alpha beta. apply (pass_linear_concrete O R alpha beta linear_proved).
  apply (linear_proved_linear O R alpha beta).
Qed.

Print Assumptions adjoints_linear_concrete.
Print Assumptions pass_linear_concrete.
Print Assumptions pass_linear_proved.
