(** Dual-number lifting of arrays: the forward operations of the model, run at the scalar
    instance [dual_ops O] on (value, tangent) pairs, compute the value and the tangent of
    the result.  This file provides
    - explicit closed forms of the results of the element-wise / mapped / summed
      operations (for an arbitrary scalar instance, hence also for [dual_ops O]);
    - [lift], [primal], [tangent], [zeros_like], [mask];
    - [is_cring (dual_ops O)];
    - "values are unaffected by lifting" and the closed form of the tangents. *)

From Coq Require Import List Arith Bool Lia PeanoNat Ring_theory Ring.
From Corgi Require Import Lib.OptionMonad Lib.IdxDefs Lib.Idx Model.Scalar Model.Arr
     Model.SlicedOp Model.Elementwise Lib.Sums Proofs.ArrFacts Proofs.BroadcastDims
     Proofs.SpecDefs Proofs.SlicedOpSpec Proofs.EwSpec Proofs.ReduceSpec Proofs.FlattenSpec.
Import ListNotations.

(** * Closed forms of forward results (any scalar instance) *)

Section Closed.
  Context {F : Type} (O : ScalarOps F).

  Lemma nth_get : forall (a : arr F) I x,
      get a I = Some x -> nth (rowmajor (dims a) I) (vals a) (f0 O) = x.
  Proof. intros a I x H. unfold get in H. rewrite nth_nth_error, H. reflexivity. Qed.

  (** ** broadcasting element-wise operations *)

  Definition ew_vals (f : F -> F -> F) (a b : arr F) : list F :=
    let D := bmax (dims a) (dims b) in
    map (fun j => f (nth (bpos D (dims a) j) (vals a) (f0 O))
                    (nth (bpos D (dims b) j) (vals b) (f0 O)))
        (seq 0 (prod D)).

  Definition ew_arr (f : F -> F -> F) (a b : arr F) : arr F :=
    {| dims := bmax (dims a) (dims b); vals := ew_vals f a b |}.

  Lemma ew_vals_length : forall f a b, length (ew_vals f a b) = prod (bmax (dims a) (dims b)).
  Proof. intros. unfold ew_vals. cbv zeta. rewrite map_length, seq_length. reflexivity. Qed.

  Lemma ew_vals_nth : forall f a b j,
      j < prod (bmax (dims a) (dims b)) ->
      nth j (ew_vals f a b) (f0 O)
      = f (nth (bpos (bmax (dims a) (dims b)) (dims a) j) (vals a) (f0 O))
          (nth (bpos (bmax (dims a) (dims b)) (dims b) j) (vals b) (f0 O)).
  Proof. intros f a b j Hj. unfold ew_vals. cbv zeta. rewrite nth_map_seq by exact Hj. reflexivity. Qed.

  Lemma element_wise_op_inv : forall f (a b c : arr F),
      element_wise_op O f a b = Some c ->
      dims a <> [] /\ dims b <> [] /\ bcompat (dims a) (dims b).
  Proof.
    intros f a b c H. unfold element_wise_op in H.
    apply obind_some in H. destruct H as (d & Hd & H).
    apply obind_some in H. destruct H as (la & Hla & H).
    apply obind_some in H. destruct H as (lb & Hlb & _).
    apply element_wise_dimensions_spec in Hd. destruct Hd as [Hc _].
    split; [|split; [|exact Hc]]; intros E; rewrite E in *; discriminate.
  Qed.

  Theorem element_wise_op_closed : forall f (a b : arr F),
      wf a -> wf b -> dims a <> [] -> dims b <> [] -> bcompat (dims a) (dims b) ->
      element_wise_op O f a b = Some (ew_arr f a b).
  Proof.
    intros f a b Hwa Hwb Hna Hnb Hc.
    destruct (element_wise_op_spec O f a b Hwa Hwb Hna Hnb Hc) as (c & Hop & Hwc & Hdc & Hval).
    rewrite Hop. f_equal. pose proof Hwc as [Hpc Hlc]. rewrite Hdc in Hpc, Hlc.
    apply (arr_ext O).
    - exact Hdc.
    - cbn [ew_arr vals]. rewrite ew_vals_length. symmetry. exact Hlc.
    - intros j Hj. rewrite <- Hlc in Hj. cbn [ew_arr vals]. rewrite ew_vals_nth by exact Hj.
      set (D := bmax (dims a) (dims b)) in *.
      assert (HI : in_range (unrank D j) (dims c)) by (rewrite Hdc; apply unrank_lt; exact Hpc).
      destruct (Hval _ HI) as (x & y & Hx & Hy & Hz).
      apply nth_get in Hx. apply nth_get in Hy. apply nth_get in Hz.
      rewrite Hdc, rowmajor_unrank in Hz by assumption.
      rewrite Hz. unfold bpos. rewrite Hx, Hy. reflexivity.
  Qed.

  Corollary element_wise_op_some : forall f (a b c : arr F),
      wf a -> wf b -> element_wise_op O f a b = Some c -> c = ew_arr f a b.
  Proof.
    intros f a b c Hwa Hwb H. destruct (element_wise_op_inv f a b c H) as (Hna & Hnb & Hc).
    rewrite (element_wise_op_closed f a b Hwa Hwb Hna Hnb Hc) in H. congruence.
  Qed.

  Lemma ew_arr_wf : forall f (a b : arr F), wf a -> wf b -> wf (ew_arr f a b).
  Proof.
    intros f a b [Hpa _] [Hpb _]. split; cbn [ew_arr dims vals].
    - apply bmax_pos; assumption.
    - symmetry. apply ew_vals_length.
  Qed.

  (** ** an operand below the (delta-shaped) other one *)

  Lemma sub_rev_bmax : forall x m : list nat,
      Forall (fun v => 1 <= v) m -> length x <= length m ->
      Forall2 (fun u v => u = 1 \/ u = v) x (firstn (length x) m) ->
      bcompat_rev x m /\ bmax_rev x m = m.
  Proof.
    induction x as [|a x IH]; intros [|c m] Hm Hl Hf; simpl in *; try lia; auto.
    inversion Hf as [|? ? ? ? Hac Hf']; subst. inversion Hm as [|? ? Hc Hm']; subst.
    destruct (IH m Hm' ltac:(lia) Hf') as [H1 H2]. split.
    - split; [lia|exact H1].
    - rewrite H2. f_equal. lia.
  Qed.

  Lemma sub_lead_bmax : forall x m,
      Forall (fun v => 1 <= v) m -> sub_lead x m -> bcompat x m /\ bmax x m = m.
  Proof.
    intros x m Hm [Hl Hf]. unfold bcompat, bmax.
    destruct (sub_rev_bmax (rev x) (rev m)) as [H1 H2].
    - apply Forall_rev. exact Hm.
    - rewrite !rev_length. exact Hl.
    - rewrite rev_length, firstn_rev. apply Forall2_rev. exact Hf.
    - split; [exact H1|]. rewrite H2. apply rev_involutive.
  Qed.

  (** ** mapped operations *)

  Definition map_result (g : F -> F) (a : arr F) : arr F :=
    {| dims := dims a; vals := map g (vals a) |}.

  Lemma map_arr_closed : forall g (a : arr F), wf a -> map_arr g a = Some (map_result g a).
  Proof. intros. apply map_arr_wf. assumption. Qed.

  Lemma map_arr_some : forall g (a c : arr F), map_arr g a = Some c -> wf a /\ c = map_result g a.
  Proof. intros g a c H. apply map_arr_some_iff in H. exact H. Qed.

  (** ** sum over the last [k] dimensions *)

  Definition sum_result (k : nat) (a : arr F) : arr F :=
    let lead := firstn (length (dims a) - k) (dims a) in
    let g := prod (lastn k (dims a)) in
    {| dims := lead ++ [1];
       vals := map (fun i => vsum O (block g i (vals a))) (seq 0 (prod lead)) |}.

  Theorem a_sum_closed : forall k (a : arr F),
      wf a -> 1 <= k <= length (dims a) -> a_sum O k a = Some (sum_result k a).
  Proof.
    intros k a Hwa Hk. destruct (a_sum_spec O k a Hwa Hk) as (c & Hc & Hwc & Hdc & Hval).
    cbv zeta in Hdc, Hval. rewrite Hc. f_equal.
    set (lead := firstn (length (dims a) - k) (dims a)) in *.
    pose proof Hwc as [Hpc Hlc]. rewrite Hdc, prod_app in Hlc. cbn [prod fold_right] in Hlc.
    assert (Hlead : Forall (fun x => 1 <= x) lead).
    { rewrite Hdc in Hpc. apply Forall_app in Hpc. apply Hpc. }
    apply (arr_ext O).
    - exact Hdc.
    - unfold sum_result. cbn [vals]. fold lead. rewrite map_length, seq_length. lia.
    - intros i Hi. unfold sum_result. cbn [vals]. fold lead.
      rewrite nth_map_seq by lia. cbn [Nat.add].
      assert (HJ : in_range (unrank lead i) lead) by (apply unrank_lt; exact Hlead).
      specialize (Hval _ HJ). apply nth_get in Hval.
      rewrite Hdc, rowmajor_snoc in Hval by (rewrite unrank_length; reflexivity).
      rewrite rowmajor_unrank in Hval by (try exact Hlead; lia).
      replace (i * 1 + 0) with i in Hval by lia. exact Hval.
  Qed.
End Closed.

(** * Lifting arrays to dual numbers *)

Section Lift.
  Context {F : Type} (O : ScalarOps F).

  (** [a] with tangent [t] *)
  Definition lift (a t : arr F) : arr (@dual F) :=
    {| dims := dims a; vals := combine (vals a) (vals t) |}.

  Definition primal (A : arr (@dual F)) : arr F := {| dims := dims A; vals := map fst (vals A) |}.
  Definition tangent (A : arr (@dual F)) : arr F := {| dims := dims A; vals := map snd (vals A) |}.

  Definition zeros_like (a : arr F) : arr F :=
    {| dims := dims a; vals := map (fun _ => f0 O) (vals a) |}.

  (** an operand whose flag is off is a constant: zero tangent (stop-gradient) *)
  Definition mask (b : bool) (t : arr F) : arr F := if b then t else zeros_like t.

  (** a tangent for [c]: well formed, of the same dimensions *)
  Definition tangent_for (c t : arr F) : Prop := wf t /\ dims t = dims c.

  Lemma zeros_like_wf : forall a, wf a -> wf (zeros_like a).
  Proof. intros a [Hp Hl]. split; cbn [zeros_like dims vals]; [exact Hp|]. rewrite map_length. exact Hl. Qed.

  Lemma mask_tangent_for : forall b c t, tangent_for c t -> tangent_for c (mask b t).
  Proof.
    intros [|] c t [Hw Hd]; [split; assumption|]. split; [apply zeros_like_wf; exact Hw|exact Hd].
  Qed.

  Lemma zeros_like_nth : forall a j, nth j (vals (zeros_like a)) (f0 O) = f0 O.
  Proof.
    intros a j. cbn [zeros_like vals]. generalize (vals a) as l. intros l. revert j.
    induction l as [|x l IH]; intros [|j]; simpl; try reflexivity. apply IH.
  Qed.

  Lemma tangent_for_length : forall c t, wf c -> tangent_for c t -> length (vals t) = length (vals c).
  Proof. intros c t [_ Hc] [[_ Ht] Hd]. rewrite <- Hc, <- Ht, Hd. reflexivity. Qed.

  Lemma map_fst_combine : forall {A B} (x : list A) (y : list B),
      length x = length y -> map fst (combine x y) = x.
  Proof.
    intros A B x. induction x as [|a x IH]; intros [|b y] H; simpl in *; try discriminate;
      [reflexivity|]. f_equal. apply IH. lia.
  Qed.

  Lemma map_snd_combine : forall {A B} (x : list A) (y : list B),
      length x = length y -> map snd (combine x y) = y.
  Proof.
    intros A B x. induction x as [|a x IH]; intros [|b y] H; simpl in *; try discriminate;
      [reflexivity|]. f_equal. apply IH. lia.
  Qed.

  Lemma primal_lift : forall a t, length (vals t) = length (vals a) -> primal (lift a t) = a.
  Proof.
    intros [d v] t H. unfold primal, lift. cbn [dims vals] in *.
    rewrite map_fst_combine by (symmetry; exact H). reflexivity.
  Qed.

  Lemma tangent_lift : forall a t,
      length (vals t) = length (vals a) -> dims t = dims a -> tangent (lift a t) = t.
  Proof.
    intros a [d v] H Hd. unfold tangent, lift. cbn [dims vals] in *.
    rewrite map_snd_combine by (symmetry; exact H). rewrite Hd. reflexivity.
  Qed.

  Lemma lift_wf : forall a t, wf a -> tangent_for a t -> wf (lift a t).
  Proof.
    intros a t Hwa Ht. pose proof (tangent_for_length a t Hwa Ht) as Hl. destruct Hwa as [Hp Hla].
    split; cbn [lift dims vals]; [exact Hp|]. unfold dual. rewrite combine_length, Hl, Nat.min_id. exact Hla.
  Qed.

  Lemma lift_nth : forall a t j,
      length (vals t) = length (vals a) ->
      nth j (vals (lift a t)) (f0 (dual_ops O)) = (nth j (vals a) (f0 O), nth j (vals t) (f0 O)).
  Proof.
    intros a t j H. cbn [lift vals]. change (f0 (dual_ops O)) with (f0 O, f0 O).
    apply combine_nth. symmetry. exact H.
  Qed.

  Lemma primal_nth : forall A j, nth j (vals (primal A)) (f0 O) = fst (nth j (vals A) (f0 (dual_ops O))).
  Proof. intros A j. cbn [primal vals]. change (f0 O) with (fst (f0 (dual_ops O))). apply map_nth. Qed.

  Lemma tangent_nth : forall A j, nth j (vals (tangent A)) (f0 O) = snd (nth j (vals A) (f0 (dual_ops O))).
  Proof. intros A j. cbn [tangent vals]. change (f0 O) with (snd (f0 (dual_ops O))). apply map_nth. Qed.

  Lemma primal_wf : forall A, wf A -> wf (primal A).
  Proof. intros A [Hp Hl]. split; cbn [primal dims vals]; [exact Hp|]. rewrite map_length. exact Hl. Qed.

  Lemma tangent_wf : forall A, wf A -> wf (tangent A).
  Proof. intros A [Hp Hl]. split; cbn [tangent dims vals]; [exact Hp|]. rewrite map_length. exact Hl. Qed.

  (** the dual sum is the pair of sums (no ring law needed) *)
  Lemma fold_fadd_dual : forall (l : list (@dual F)) acc,
      fold_left (fadd (dual_ops O)) l acc
      = (fold_left (fadd O) (map fst l) (fst acc), fold_left (fadd O) (map snd l) (snd acc)).
  Proof.
    induction l as [|x l IH]; intros acc; cbn [fold_left map]; [destruct acc; reflexivity|].
    rewrite IH. reflexivity.
  Qed.

  Lemma vsum_dual : forall l : list (@dual F),
      vsum (dual_ops O) l = (vsum O (map fst l), vsum O (map snd l)).
  Proof. intros l. unfold vsum. apply fold_fadd_dual. Qed.
End Lift.

(** * Dual numbers over a commutative ring form a commutative ring *)

Section DualRing.
  Context {F : Type} (O : ScalarOps F) (R : is_cring O).

  Let Rth : ring_theory (f0 O) (f1 O) (fadd O) (fmul O) (fsub O) (fneg O) (@eq F) := R.
  Add Ring cring_dual_base : Rth.

  Theorem dual_is_cring : is_cring (dual_ops O).
  Proof.
    unfold is_cring. constructor; cbn [dual_ops f0 f1 fadd fmul fsub fneg].
    - intros [x x']. cbn [fst snd]. f_equal; ring.
    - intros [x x'] [y y']. cbn [fst snd]. f_equal; ring.
    - intros [x x'] [y y'] [z z']. cbn [fst snd]. f_equal; ring.
    - intros [x x']. cbn [fst snd]. f_equal; ring.
    - intros [x x'] [y y']. cbn [fst snd]. f_equal; ring.
    - intros [x x'] [y y'] [z z']. cbn [fst snd]. f_equal; ring.
    - intros [x x'] [y y'] [z z']. cbn [fst snd]. f_equal; ring.
    - intros [x x'] [y y']. cbn [fst snd]. f_equal; ring.
    - intros [x x']. cbn [fst snd]. f_equal; ring.
  Qed.
End DualRing.

(** * Forward operations on lifted operands *)

Section LiftedForward.
  Context {F : Type} (O : ScalarOps F).
  Local Notation D2 := (dual_ops O).

  (** ** broadcasting element-wise operations *)

  Lemma ew_lifted : forall (fD : @dual F -> @dual F -> @dual F) (a ta b tb : arr F) RD,
      wf a -> wf b -> tangent_for a ta -> tangent_for b tb ->
      element_wise_op D2 fD (lift a ta) (lift b tb) = Some RD ->
      let D := bmax (dims a) (dims b) in
      dims a <> [] /\ dims b <> [] /\ bcompat (dims a) (dims b) /\
      wf RD /\ dims RD = D /\
      forall j, j < prod D ->
        nth j (vals RD) (f0 D2)
        = fD (nth (bpos D (dims a) j) (vals a) (f0 O), nth (bpos D (dims a) j) (vals ta) (f0 O))
             (nth (bpos D (dims b) j) (vals b) (f0 O), nth (bpos D (dims b) j) (vals tb) (f0 O)).
  Proof.
    intros fD a ta b tb RD Hwa Hwb Hta Htb H D.
    pose proof (lift_wf a ta Hwa Hta) as HwA. pose proof (lift_wf b tb Hwb Htb) as HwB.
    destruct (element_wise_op_inv D2 fD _ _ _ H) as (Hna & Hnb & Hc).
    apply (element_wise_op_some D2 fD _ _ _ HwA HwB) in H. subst RD.
    cbn [lift dims] in Hna, Hnb, Hc.
    split; [exact Hna|]. split; [exact Hnb|]. split; [exact Hc|].
    split; [apply ew_arr_wf; assumption|]. split; [reflexivity|].
    intros j Hj. cbn [ew_arr vals]. rewrite ew_vals_nth by exact Hj.
    rewrite !lift_nth by (apply tangent_for_length; assumption). reflexivity.
  Qed.

  (** forward values are unaffected by lifting *)
  Lemma ew_lifted_primal : forall (f : F -> F -> F) (fD : @dual F -> @dual F -> @dual F)
                                  (a ta b tb : arr F) RD,
      (forall X Y, fst (fD X Y) = f (fst X) (fst Y)) ->
      wf a -> wf b -> tangent_for a ta -> tangent_for b tb ->
      element_wise_op D2 fD (lift a ta) (lift b tb) = Some RD ->
      element_wise_op O f a b = Some (primal RD).
  Proof.
    intros f fD a ta b tb RD Hf Hwa Hwb Hta Htb H.
    destruct (ew_lifted fD a ta b tb RD Hwa Hwb Hta Htb H) as (Hna & Hnb & Hc & HwR & HdR & Hval).
    rewrite (element_wise_op_closed O f a b Hwa Hwb Hna Hnb Hc). f_equal.
    pose proof HwR as [_ HlR]. rewrite HdR in HlR.
    apply (arr_ext O).
    - cbn [ew_arr primal dims]. symmetry. exact HdR.
    - cbn [ew_arr primal vals]. rewrite ew_vals_length, map_length. exact HlR.
    - intros j Hj. cbn [ew_arr vals] in Hj. rewrite ew_vals_length in Hj.
      rewrite primal_nth, (Hval j Hj), Hf. cbn [ew_arr vals fst].
      rewrite ew_vals_nth by exact Hj. reflexivity.
  Qed.

  Corollary a_add_lifted_primal : forall a ta b tb RD,
      wf a -> wf b -> tangent_for a ta -> tangent_for b tb ->
      a_add D2 (lift a ta) (lift b tb) = Some RD -> a_add O a b = Some (primal RD).
  Proof. intros a ta b tb RD. apply ew_lifted_primal. reflexivity. Qed.

  Corollary a_mul_lifted_primal : forall a ta b tb RD,
      wf a -> wf b -> tangent_for a ta -> tangent_for b tb ->
      a_mul D2 (lift a ta) (lift b tb) = Some RD -> a_mul O a b = Some (primal RD).
  Proof. intros a ta b tb RD. apply ew_lifted_primal. reflexivity. Qed.

  Corollary a_div_lifted_primal : forall a ta b tb RD,
      wf a -> wf b -> tangent_for a ta -> tangent_for b tb ->
      a_div D2 (lift a ta) (lift b tb) = Some RD -> a_div O a b = Some (primal RD).
  Proof. intros a ta b tb RD. apply ew_lifted_primal. reflexivity. Qed.

  (** tangents, in closed form *)
  Corollary a_add_lifted_tangent : forall a ta b tb RD,
      wf a -> wf b -> tangent_for a ta -> tangent_for b tb ->
      a_add D2 (lift a ta) (lift b tb) = Some RD ->
      let D := bmax (dims a) (dims b) in
      forall j, j < prod D ->
        nth j (vals (tangent RD)) (f0 O)
        = fadd O (nth (bpos D (dims a) j) (vals ta) (f0 O)) (nth (bpos D (dims b) j) (vals tb) (f0 O)).
  Proof.
    intros a ta b tb RD Hwa Hwb Hta Htb H D j Hj.
    destruct (ew_lifted _ a ta b tb RD Hwa Hwb Hta Htb H) as (_ & _ & _ & _ & _ & Hval).
    rewrite tangent_nth, (Hval j Hj). reflexivity.
  Qed.

  Corollary a_mul_lifted_tangent : forall a ta b tb RD,
      wf a -> wf b -> tangent_for a ta -> tangent_for b tb ->
      a_mul D2 (lift a ta) (lift b tb) = Some RD ->
      let D := bmax (dims a) (dims b) in
      forall j, j < prod D ->
        nth j (vals (tangent RD)) (f0 O)
        = fadd O (fmul O (nth (bpos D (dims a) j) (vals a) (f0 O))
                         (nth (bpos D (dims b) j) (vals tb) (f0 O)))
                 (fmul O (nth (bpos D (dims a) j) (vals ta) (f0 O))
                         (nth (bpos D (dims b) j) (vals b) (f0 O))).
  Proof.
    intros a ta b tb RD Hwa Hwb Hta Htb H D j Hj.
    destruct (ew_lifted _ a ta b tb RD Hwa Hwb Hta Htb H) as (_ & _ & _ & _ & _ & Hval).
    rewrite tangent_nth, (Hval j Hj). reflexivity.
  Qed.

  (** ** mapped operations *)

  Lemma map_lifted : forall (gD : @dual F -> @dual F) (a t : arr F) RD,
      wf a -> tangent_for a t ->
      map_arr gD (lift a t) = Some RD ->
      wf RD /\ dims RD = dims a /\ length (vals RD) = length (vals a) /\
      forall j, j < length (vals a) ->
        nth j (vals RD) (f0 D2) = gD (nth j (vals a) (f0 O), nth j (vals t) (f0 O)).
  Proof.
    intros gD a t RD Hwa Ht H. apply map_arr_some in H. destruct H as [HwA ->].
    pose proof (tangent_for_length a t Hwa Ht) as Hl.
    assert (Hlen : length (vals (lift a t)) = length (vals a)).
    { cbn [lift vals]. unfold dual. rewrite combine_length, Hl, Nat.min_id. reflexivity. }
    split; [apply map_arr_result_wf; exact HwA|]. split; [reflexivity|].
    split; [cbn [map_result vals]; rewrite map_length; exact Hlen|].
    intros j Hj. cbn [map_result vals].
    rewrite (nth_indep _ (f0 D2) (gD (f0 D2))) by (rewrite map_length, Hlen; exact Hj).
    rewrite map_nth, lift_nth by exact Hl. reflexivity.
  Qed.

  Lemma map_lifted_primal : forall (g : F -> F) (gD : @dual F -> @dual F) (a t : arr F) RD,
      (forall X, fst (gD X) = g (fst X)) ->
      wf a -> tangent_for a t ->
      map_arr gD (lift a t) = Some RD -> map_arr g a = Some (primal RD).
  Proof.
    intros g gD a t RD Hg Hwa Ht H.
    destruct (map_lifted gD a t RD Hwa Ht H) as (HwR & HdR & HlR & Hval).
    rewrite (map_arr_closed g a Hwa). f_equal. apply (arr_ext O).
    - cbn [map_result primal dims]. symmetry. exact HdR.
    - cbn [map_result primal vals]. rewrite !map_length. symmetry. exact HlR.
    - intros j Hj. cbn [map_result vals] in Hj. rewrite map_length in Hj.
      rewrite primal_nth, (Hval j Hj), Hg. cbn [map_result vals fst].
      rewrite (nth_indep _ (f0 O) (g (f0 O))) by (rewrite map_length; exact Hj).
      apply map_nth.
  Qed.

  (** ** reshape *)

  Lemma reshape_lifted : forall d (a t : arr F) RD,
      wf a -> tangent_for a t ->
      a_reshape d (lift a t) = Some RD ->
      a_reshape d a = Some (primal RD) /\
      primal RD = {| dims := d; vals := vals a |} /\ tangent RD = {| dims := d; vals := vals t |}.
  Proof.
    intros d a t RD Hwa Ht H. pose proof (tangent_for_length a t Hwa Ht) as Hl.
    apply a_reshape_spec in H. destruct H as (Hd & Hp & ->).
    assert (Hlen : length (vals (lift a t)) = length (vals a)).
    { cbn [lift vals]. unfold dual. rewrite combine_length, Hl, Nat.min_id. reflexivity. }
    unfold primal, tangent. cbn [dims vals lift].
    rewrite map_fst_combine, map_snd_combine by (symmetry; exact Hl).
    split; [|split; reflexivity]. apply a_reshape_spec. rewrite <- Hlen. auto.
  Qed.

  (** ** sum *)

  Lemma sum_lifted : forall k (a t : arr F) RD,
      wf a -> tangent_for a t -> 1 <= k <= length (dims a) ->
      a_sum D2 k (lift a t) = Some RD ->
      primal RD = sum_result O k a /\ tangent RD = sum_result O k t /\
      a_sum O k a = Some (primal RD).
  Proof.
    intros k a t RD Hwa Ht Hk H. pose proof (tangent_for_length a t Hwa Ht) as Hl.
    rewrite (a_sum_closed D2 k (lift a t) (lift_wf a t Hwa Ht) Hk) in H.
    inversion H; subst RD. clear H.
    assert (Hp : primal (sum_result D2 k (lift a t)) = sum_result O k a).
    { unfold primal, sum_result. cbn [lift dims vals]. f_equal.
      rewrite map_map. apply map_ext. intros i. rewrite vsum_dual. cbn [fst].
      rewrite <- block_map, map_fst_combine by (symmetry; exact Hl). reflexivity. }
    split; [exact Hp|]. split.
    - destruct Ht as [_ Hdt]. unfold tangent, sum_result. cbn [lift dims vals]. rewrite Hdt.
      f_equal. rewrite map_map. apply map_ext. intros i. rewrite vsum_dual. cbn [snd].
      rewrite <- block_map, map_snd_combine by (symmetry; exact Hl). reflexivity.
    - rewrite Hp. apply a_sum_closed; assumption.
  Qed.
End LiftedForward.

Print Assumptions dual_is_cring.
Print Assumptions ew_lifted_primal.
Print Assumptions sum_lifted.
