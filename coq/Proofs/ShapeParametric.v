(** C19 (provable part): switching the float width never changes shapes, tracking,
    or which inputs are accepted.

    Every model function is polymorphic in [ScalarOps F].  For two ARBITRARY scalar
    instances [O1 : ScalarOps F1], [O2 : ScalarOps F2] we prove, by a relational
    (parametricity-style) argument, that the whole model maps same-shaped data to
    same-shaped data and panics on exactly the same inputs:

      - Part 1: relational toolkit ([orel], [obind_rel], checked list accessors);
      - Part 2: arrays -- constructors, [sliced_op] (key lemma [sliced_op_rel] for
        shape-parametric closures [sop_rel]) and every forward array operation;
      - Part 3: derivative closures, [run_bop_rel] under [code_rel];
      - Part 4: the engine -- abstraction theorem for [propagate] and [backward]
        over arbitrary payload/adjoint relations ([backward_rel]);
      - Part 5: the instruction interpreter -- [step_rel], [run_rel] under
        [instr_rel], and the corollary [run_cast] for a program whose scalar
        constants are converted by an arbitrary function [cast : F1 -> F2].

    No model function branches on scalar values except [fgt0] in relu (which only
    selects a scalar) and [feqb] in [arr_eqb] (instruction [IEq], whose boolean is
    therefore excluded from the claim: see [obs_rel_for]). *)

From Coq Require Import List Arith Bool Lia.
From Corgi Require Import Lib.OptionMonad Lib.IdxDefs Model.Scalar Model.Arr Model.SlicedOp
     Model.Elementwise Model.Linalg Model.Image Model.Ops Model.Engine Model.Program.
Import ListNotations.

(** * Part 1: relational toolkit *)

(** Relational toolkit for C19 (shape parametricity): relations on options,
    lists and pairs, and the relational lemmas of the option monad and of the
    checked list accessors.  Nothing here mentions scalars. *)


(** both panicked, or both returned and the results are related *)
Definition orel {A B} (R : A -> B -> Prop) (x : option A) (y : option B) : Prop :=
  match x, y with
  | None, None => True
  | Some a, Some b => R a b
  | _, _ => False
  end.

(** the full relation *)
Definition TT {A B} (a : A) (b : B) : Prop := True.

(** lists of equal length (the relation on scalar buffers) *)
Definition leq {A B} (l1 : list A) (l2 : list B) : Prop := length l1 = length l2.

(** pairs *)
Definition prel {A B C D} (R : A -> B -> Prop) (S : C -> D -> Prop)
           (p : A * C) (q : B * D) : Prop := R (fst p) (fst q) /\ S (snd p) (snd q).

Lemma orel_mono : forall {A B} (R S : A -> B -> Prop) x y,
    (forall a b, R a b -> S a b) -> orel R x y -> orel S x y.
Proof. intros A B R S [a|] [b|] H; simpl; auto. Qed.

Lemma orel_eq_refl : forall {A} (x : option A), orel eq x x.
Proof. intros A [a|]; simpl; auto. Qed.

Lemma orel_refl : forall {A} (R : A -> A -> Prop) (x : option A),
    (forall a, R a a) -> orel R x x.
Proof. intros A R [a|] H; simpl; auto. Qed.

Lemma obind_rel : forall {A1 A2 B1 B2} (R : A1 -> A2 -> Prop) (S : B1 -> B2 -> Prop)
                         (x : option A1) (y : option A2) f g,
    orel R x y ->
    (forall a b, R a b -> orel S (f a) (g b)) ->
    orel S (obind x f) (obind y g).
Proof. intros A1 A2 B1 B2 R S [a|] [b|] f g H K; simpl in *; auto; contradiction. Qed.

Lemma obind_rel_same : forall {A B1 B2} (S : B1 -> B2 -> Prop) (x : option A) f g,
    (forall a, orel S (f a) (g a)) ->
    orel S (obind x f) (obind x g).
Proof. intros A B1 B2 S [a|] f g K; simpl; auto. Qed.

Lemma guard_rel : forall b1 b2, b1 = b2 -> orel (@TT unit unit) (guard b1) (guard b2).
Proof. intros b1 b2 ->. destruct b2; simpl; exact I. Qed.

Lemma check_rel : forall {B1 B2} (S : B1 -> B2 -> Prop) b1 b2 (k1 : option B1) (k2 : option B2),
    b1 = b2 -> orel S k1 k2 ->
    orel S (obind (guard b1) (fun _ => k1)) (obind (guard b2) (fun _ => k2)).
Proof. intros B1 B2 S b1 b2 k1 k2 -> H. destruct b2; simpl; auto. Qed.

Lemma orel_some_inv : forall {A B} (R : A -> B -> Prop) x y a,
    orel R x y -> x = Some a -> exists b, y = Some b /\ R a b.
Proof. intros A B R x [b|] a H ->; simpl in H; [eauto|contradiction]. Qed.

Lemma orel_none_iff : forall {A B} (R : A -> B -> Prop) x y,
    orel R x y -> (x = None <-> y = None).
Proof. intros A B R [a|] [b|] H; simpl in H; split; intros; try contradiction; congruence. Qed.

(** * Lists *)

Lemma F2_length : forall {A B} (R : A -> B -> Prop) l1 l2, Forall2 R l1 l2 -> length l1 = length l2.
Proof. intros A B R l1 l2 H. induction H; simpl; congruence. Qed.

Lemma F2_leq : forall {A B} (R : A -> B -> Prop) l1 l2, Forall2 R l1 l2 -> leq l1 l2.
Proof. intros. unfold leq. eapply F2_length; eauto. Qed.

Lemma F2_mono : forall {A B} (R S : A -> B -> Prop) l1 l2,
    (forall a b, R a b -> S a b) -> Forall2 R l1 l2 -> Forall2 S l1 l2.
Proof. intros A B R S l1 l2 H K. induction K; constructor; auto. Qed.

Lemma F2_refl : forall {A} (R : A -> A -> Prop) l, (forall a, R a a) -> Forall2 R l l.
Proof. intros A R l H. induction l; constructor; auto. Qed.

Lemma F2_app : forall {A B} (R : A -> B -> Prop) l1 l2 m1 m2,
    Forall2 R l1 l2 -> Forall2 R m1 m2 -> Forall2 R (l1 ++ m1) (l2 ++ m2).
Proof. intros A B R l1 l2 m1 m2 H K. induction H; simpl; auto. Qed.

Lemma F2_firstn : forall {A B} (R : A -> B -> Prop) n l1 l2,
    Forall2 R l1 l2 -> Forall2 R (firstn n l1) (firstn n l2).
Proof.
  intros A B R n l1 l2 H. revert n. induction H; intros [|n]; simpl; auto.
Qed.

Lemma F2_skipn : forall {A B} (R : A -> B -> Prop) n l1 l2,
    Forall2 R l1 l2 -> Forall2 R (skipn n l1) (skipn n l2).
Proof.
  intros A B R n l1 l2 H. revert n. induction H; intros [|n]; simpl; auto.
Qed.

Lemma F2_map : forall {A1 A2 B1 B2} (R : A1 -> A2 -> Prop) (S : B1 -> B2 -> Prop) f g l1 l2,
    (forall a b, R a b -> S (f a) (g b)) ->
    Forall2 R l1 l2 -> Forall2 S (map f l1) (map g l2).
Proof. intros A1 A2 B1 B2 R S f g l1 l2 H K. induction K; simpl; auto. Qed.

Lemma F2_map_eq : forall {A1 A2 B} (R : A1 -> A2 -> Prop) (f : A1 -> B) (g : A2 -> B) l1 l2,
    (forall a b, R a b -> f a = g b) ->
    Forall2 R l1 l2 -> map f l1 = map g l2.
Proof. intros A1 A2 B R f g l1 l2 H K. induction K; simpl; f_equal; auto. Qed.

Lemma F2_combine_l : forall {X A B} (R : A -> B -> Prop) (es : list X) l1 l2,
    Forall2 R l1 l2 ->
    Forall2 (fun p q => fst p = fst q /\ R (snd p) (snd q)) (combine es l1) (combine es l2).
Proof.
  intros X A B R es l1 l2 H. revert es. induction H; intros [|e es]; simpl; auto.
Qed.

Lemma F2_combine_r : forall {X A B} (R : A -> B -> Prop) l1 l2 (es : list X),
    Forall2 R l1 l2 ->
    Forall2 (fun p q => R (fst p) (fst q) /\ snd p = snd q) (combine l1 es) (combine l2 es).
Proof.
  intros X A B R l1 l2 es H. revert es. induction H; intros [|e es]; simpl; auto.
Qed.

Lemma F2_TT : forall {A B} (l1 : list A) (l2 : list B), leq l1 l2 -> Forall2 TT l1 l2.
Proof.
  unfold leq. induction l1 as [|a l1 IH]; intros [|b l2] H; simpl in H; try discriminate; constructor.
  - exact I.
  - apply IH. congruence.
Qed.

Lemma forallb_F2 : forall {A B} (R : A -> B -> Prop) f g l1 l2,
    (forall a b, R a b -> f a = g b) ->
    Forall2 R l1 l2 -> forallb f l1 = forallb g l2.
Proof. intros A B R f g l1 l2 H K. induction K; simpl; [reflexivity|]. f_equal; auto. Qed.

Lemma filter_F2 : forall {A B} (R : A -> B -> Prop) f g l1 l2,
    (forall a b, R a b -> f a = g b) ->
    Forall2 R l1 l2 -> Forall2 R (filter f l1) (filter g l2).
Proof.
  intros A B R f g l1 l2 H K. induction K; simpl; [constructor|].
  rewrite (H _ _ H0). destruct (g y); auto.
Qed.

Lemma concat_leq : forall {A B} (l1 : list (list A)) (l2 : list (list B)),
    Forall2 leq l1 l2 -> leq (concat l1) (concat l2).
Proof.
  intros A B l1 l2 H. unfold leq in *. induction H; simpl; [reflexivity|].
  rewrite !app_length. congruence.
Qed.

Lemma nth_error_leq : forall {A B} (l1 : list A) (l2 : list B) i,
    leq l1 l2 -> orel TT (nth_error l1 i) (nth_error l2 i).
Proof.
  unfold leq. induction l1 as [|a l1 IH]; intros [|b l2] [|i] H; simpl in *; try discriminate;
    try exact I.
  apply IH. congruence.
Qed.

Lemma nth_error_F2 : forall {A B} (R : A -> B -> Prop) l1 l2 i,
    Forall2 R l1 l2 -> orel R (nth_error l1 i) (nth_error l2 i).
Proof.
  intros A B R l1 l2 i H. revert i. induction H; intros [|i]; simpl; auto.
Qed.

Lemma firstn_leq : forall {A B} n (l1 : list A) (l2 : list B),
    leq l1 l2 -> leq (firstn n l1) (firstn n l2).
Proof. unfold leq. intros. rewrite !firstn_length. congruence. Qed.

Lemma skipn_leq : forall {A B} n (l1 : list A) (l2 : list B),
    leq l1 l2 -> leq (skipn n l1) (skipn n l2).
Proof. unfold leq. intros. rewrite !skipn_length. congruence. Qed.

Lemma app_leq : forall {A B} (l1 m1 : list A) (l2 m2 : list B),
    leq l1 l2 -> leq m1 m2 -> leq (l1 ++ m1) (l2 ++ m2).
Proof. unfold leq. intros. rewrite !app_length. congruence. Qed.

Lemma repeat_leq : forall {A B} (x : A) (y : B) n, leq (repeat x n) (repeat y n).
Proof. unfold leq. intros. rewrite !repeat_length. reflexivity. Qed.

Lemma map_leq : forall {A A' B B'} (f : A -> A') (g : B -> B') l1 l2,
    leq l1 l2 -> leq (map f l1) (map g l2).
Proof. unfold leq. intros. rewrite !map_length. assumption. Qed.

Lemma combine_leq : forall {A A' B B'} (l1 : list A) (m1 : list A') (l2 : list B) (m2 : list B'),
    leq l1 l2 -> leq m1 m2 -> leq (combine l1 m1) (combine l2 m2).
Proof. unfold leq. intros. rewrite !combine_length. congruence. Qed.

Lemma slice_leq : forall {A B} off len (l1 : list A) (l2 : list B),
    leq l1 l2 -> orel leq (slice off len l1) (slice off len l2).
Proof.
  unfold leq, slice. intros A B off len l1 l2 H. rewrite H.
  destruct (off + len <=? length l2); simpl; [|exact I].
  rewrite !firstn_length, !skipn_length. congruence.
Qed.

Lemma splice_leq : forall {A B} off (n1 l1 : list A) (n2 l2 : list B),
    leq n1 n2 -> leq l1 l2 -> leq (splice off n1 l1) (splice off n2 l2).
Proof.
  unfold leq, splice. intros A B off n1 l1 n2 l2 Hn Hl.
  rewrite !app_length, !firstn_length, !skipn_length. congruence.
Qed.

Lemma set_nth_leq : forall {A B} i (x : A) (y : B) l1 l2,
    leq l1 l2 -> orel leq (set_nth i x l1) (set_nth i y l2).
Proof.
  unfold leq, set_nth. intros A B i x y l1 l2 H. rewrite H.
  destruct (i <? length l2); cbn [orel]; [|exact I].
  rewrite !app_length, !firstn_length. cbn [length]. rewrite !skipn_length. congruence.
Qed.

Lemma set_nth_F2 : forall {A B} (R : A -> B -> Prop) i x y l1 l2,
    R x y -> Forall2 R l1 l2 -> orel (Forall2 R) (set_nth i x l1) (set_nth i y l2).
Proof.
  unfold set_nth. intros A B R i x y l1 l2 Hxy H. rewrite (F2_length _ _ _ H).
  destruct (i <? length l2); cbn [orel]; [|exact I].
  apply F2_app; [apply F2_firstn; assumption|].
  constructor; [assumption|apply (F2_skipn R (S i)); assumption].
Qed.

Lemma mapM_F2 : forall {A1 A2 B1 B2} (R : A1 -> A2 -> Prop) (S : B1 -> B2 -> Prop) f g l1 l2,
    (forall a b, R a b -> orel S (f a) (g b)) ->
    Forall2 R l1 l2 -> orel (Forall2 S) (mapM f l1) (mapM g l2).
Proof.
  intros A1 A2 B1 B2 R S f g l1 l2 H K. induction K; simpl; [constructor|].
  eapply obind_rel; [apply H; assumption|]. intros a b Hab.
  eapply obind_rel; [exact IHK|]. intros la lb Hl. simpl. constructor; assumption.
Qed.

Lemma mapM_same : forall {A B1 B2} (S : B1 -> B2 -> Prop) (f : A -> option B1) (g : A -> option B2) l,
    (forall a, orel S (f a) (g a)) -> orel (Forall2 S) (mapM f l) (mapM g l).
Proof.
  intros A B1 B2 S f g l H. apply mapM_F2 with (R := eq).
  - intros a b <-. apply H.
  - apply F2_refl. reflexivity.
Qed.

Lemma mapM_same_leq : forall {A B1 B2} (f : A -> option B1) (g : A -> option B2) l,
    (forall a, orel TT (f a) (g a)) -> orel leq (mapM f l) (mapM g l).
Proof.
  intros A B1 B2 f g l H. eapply orel_mono; [|apply (mapM_same TT); exact H].
  intros a b K. eapply F2_leq; eauto.
Qed.

Lemma fold_left_rel : forall {A1 A2 X1 X2} (RA : A1 -> A2 -> Prop) (RX : X1 -> X2 -> Prop)
                             f1 f2 l1 l2 a1 a2,
    (forall a1 a2 x1 x2, RA a1 a2 -> RX x1 x2 -> RA (f1 a1 x1) (f2 a2 x2)) ->
    Forall2 RX l1 l2 -> RA a1 a2 ->
    RA (fold_left f1 l1 a1) (fold_left f2 l2 a2).
Proof.
  intros A1 A2 X1 X2 RA RX f1 f2 l1 l2 a1 a2 H K. revert a1 a2.
  induction K; intros a1 a2 Ha; simpl; auto.
Qed.

Lemma fold_left_rel_same : forall {A1 A2 X} (RA : A1 -> A2 -> Prop)
                                  (f1 : A1 -> X -> A1) (f2 : A2 -> X -> A2) l a1 a2,
    (forall a1 a2 x, RA a1 a2 -> RA (f1 a1 x) (f2 a2 x)) ->
    RA a1 a2 ->
    RA (fold_left f1 l a1) (fold_left f2 l a2).
Proof.
  intros A1 A2 X RA f1 f2 l a1 a2 H. revert a1 a2.
  induction l; intros a1 a2 Ha; simpl; auto.
Qed.

(** the standard step on a goal [orel S (x <- e1 ;; k1) (x <- e2 ;; k2)] *)
Ltac ob_same := apply obind_rel_same; intro.
Ltac ob := eapply obind_rel; [ | intros ? ? ? ].

(** destruct one layer of a [Forall2] on operand lists, closing the panicking case *)
Ltac inv_f2 H :=
  let a := fresh "s" in let b := fresh "s" in let Hab := fresh "Hs" in
  destruct H as [|a b ? ? Hab H]; simpl; trivial.

(** * Part 2: arrays *)

(** C19, array level: every forward array operation of the model maps same-shaped
    operands (over two arbitrary scalar instances) to same-shaped results, and
    panics on exactly the same inputs. *)


Section ArrRel.
  Context {F1 F2 : Type} (O1 : ScalarOps F1) (O2 : ScalarOps F2).

  Definition same_shape (a1 : arr F1) (a2 : arr F2) : Prop :=
    dims a1 = dims a2 /\ length (vals a1) = length (vals a2).

  Lemma same_shape_dims : forall a1 a2, same_shape a1 a2 -> dims a1 = dims a2.
  Proof. intros a1 a2 [H _]. exact H. Qed.

  Lemma same_shape_vals : forall a1 a2, same_shape a1 a2 -> leq (vals a1) (vals a2).
  Proof. intros a1 a2 [_ H]. exact H. Qed.

  Lemma same_shape_intro : forall d (v1 : list F1) (v2 : list F2),
      leq v1 v2 -> same_shape {| dims := d; vals := v1 |} {| dims := d; vals := v2 |}.
  Proof. intros d v1 v2 H. split; simpl; auto. Qed.

  (** ** Constructors *)

  Lemma mk_rel : forall d (v1 : list F1) (v2 : list F2),
      leq v1 v2 -> orel same_shape (mk d v1) (mk d v2).
  Proof.
    intros d v1 v2 H. unfold mk. unfold leq in H. rewrite H.
    destruct (dims_valid d); simpl; [|exact I].
    destruct (prod d =? length v2); simpl; [|exact I].
    apply same_shape_intro. exact H.
  Qed.

  Lemma mk_rel' : forall d1 d2 (v1 : list F1) (v2 : list F2),
      d1 = d2 -> leq v1 v2 -> orel same_shape (mk d1 v1) (mk d2 v2).
  Proof. intros d1 d2 v1 v2 -> H. apply mk_rel. exact H. Qed.

  Lemma zeros_rel : forall d, orel same_shape (zeros O1 d) (zeros O2 d).
  Proof. intros d. unfold zeros. apply mk_rel. apply repeat_leq. Qed.

  Lemma from_flat_rel : forall (v1 : list F1) (v2 : list F2),
      leq v1 v2 -> orel same_shape (from_flat v1) (from_flat v2).
  Proof. intros v1 v2 H. unfold from_flat. apply mk_rel'; [f_equal; exact H|exact H]. Qed.

  Lemma from_arrays_rel : forall l1 l2,
      Forall2 same_shape l1 l2 -> orel same_shape (from_arrays l1) (from_arrays l2).
  Proof.
    intros l1 l2 H. destruct H as [|a1 a2 l1 l2 Ha Hl]; simpl; [exact I|].
    apply check_rel.
    - apply (forallb_F2 same_shape); [|exact Hl].
      intros b1 b2 Hb. rewrite (same_shape_dims _ _ Hb), (same_shape_dims _ _ Ha). reflexivity.
    - apply mk_rel'.
      + rewrite (F2_length _ _ _ Hl), (same_shape_dims _ _ Ha). reflexivity.
      + apply app_leq; [apply same_shape_vals; exact Ha|].
        apply concat_leq. apply (F2_map same_shape); [|exact Hl].
        intros b1 b2 Hb. apply same_shape_vals. exact Hb.
  Qed.

  (** ** [sliced_op] *)

  (** a closure is shape-parametric: on slices of equal lengths both fail, or both
      succeed with results of equal length *)
  Definition sop_rel (op1 : @sop F1) (op2 : @sop F2) : Prop :=
    forall cur1 cur2 sl1 sl2,
      leq cur1 cur2 -> Forall2 leq sl1 sl2 -> orel leq (op1 cur1 sl1) (op2 cur2 sl2).

  Lemma sliced_valid_rel : forall k in_dims a1 a2,
      same_shape a1 a2 -> sliced_valid k in_dims a1 = sliced_valid k in_dims a2.
  Proof. intros k in_dims a1 a2 H. unfold sliced_valid. rewrite (same_shape_dims _ _ H). reflexivity. Qed.

  Lemma group_length_rel : forall k a1 a2,
      same_shape a1 a2 -> group_length k a1 = group_length k a2.
  Proof. intros k a1 a2 H. unfold group_length. rewrite (same_shape_dims _ _ H). reflexivity. Qed.

  Lemma operand_slice_rel : forall k lc idx a1 a2,
      same_shape a1 a2 -> orel leq (operand_slice k lc idx a1) (operand_slice k lc idx a2).
  Proof.
    intros k lc idx a1 a2 H. unfold operand_slice.
    rewrite (group_length_rel k _ _ H), (same_shape_dims _ _ H).
    apply slice_leq. apply same_shape_vals. exact H.
  Qed.

  Lemma sliced_loop_rel : forall op1 op2 l1 l2 k lc lead out_dims ogl n idx out1 out2,
      sop_rel op1 op2 -> Forall2 same_shape l1 l2 -> leq out1 out2 ->
      orel leq (sliced_loop op1 l1 k lc lead out_dims ogl n idx out1)
               (sliced_loop op2 l2 k lc lead out_dims ogl n idx out2).
  Proof.
    intros op1 op2 l1 l2 k lc lead out_dims ogl n idx out1 out2 Hop Hl.
    revert idx out1 out2. induction n as [|n IH]; intros idx out1 out2 Hout; simpl; [exact Hout|].
    eapply obind_rel.
    { apply (mapM_F2 same_shape leq); [|exact Hl]. intros a b Hab. apply operand_slice_rel. exact Hab. }
    intros sl1 sl2 Hsl.
    eapply obind_rel; [apply slice_leq; exact Hout|]. intros cur1 cur2 Hcur.
    eapply obind_rel; [apply Hop; [exact Hcur|exact Hsl]|]. intros new1 new2 Hnew.
    apply check_rel; [rewrite Hnew; reflexivity|].
    apply IH. apply splice_leq; assumption.
  Qed.

  Theorem sliced_op_rel : forall l1 l2 op1 op2 in_dims out_dims k flatten,
      sop_rel op1 op2 -> Forall2 same_shape l1 l2 ->
      orel same_shape (sliced_op O1 l1 op1 in_dims out_dims k flatten)
                      (sliced_op O2 l2 op2 in_dims out_dims k flatten).
  Proof.
    intros l1 l2 op1 op2 in_dims out_dims k flatten Hop Hl. unfold sliced_op.
    apply check_rel.
    { apply (forallb_F2 same_shape); [|exact Hl]. intros a b Hab. apply sliced_valid_rel. exact Hab. }
    eapply obind_rel with (R := leq).
    - destruct (length in_dims - k =? 0).
      + eapply obind_rel.
        { apply (mapM_F2 same_shape leq); [|exact Hl]. intros a b Hab.
          rewrite (group_length_rel k _ _ Hab). apply slice_leq. apply same_shape_vals. exact Hab. }
        intros sl1 sl2 Hsl.
        eapply obind_rel; [apply slice_leq; apply repeat_leq|]. intros cur1 cur2 Hcur.
        eapply obind_rel; [apply Hop; [exact Hcur|exact Hsl]|]. intros new1 new2 Hnew.
        apply check_rel; [rewrite Hnew; reflexivity|].
        simpl. apply splice_leq; [exact Hnew|apply repeat_leq].
      + apply sliced_loop_rel; [exact Hop|exact Hl|apply repeat_leq].
    - intros out1 out2 Hout. apply obind_rel_same. intros d'. apply mk_rel. exact Hout.
  Qed.

  (** ** Element-wise operations *)

  Lemma ew_sop_rel : forall (f1 : F1 -> F1 -> F1) (f2 : F2 -> F2 -> F2) la lb,
      sop_rel (ew_sop f1 la lb) (ew_sop f2 la lb).
  Proof.
    intros f1 f2 la lb cur1 cur2 sl1 sl2 Hcur Hsl. unfold ew_sop.
    inv_f2 Hsl. inv_f2 Hsl. inv_f2 Hsl.
    rewrite Hcur. apply mapM_same_leq. intros i.
    eapply obind_rel; [apply nth_error_leq; eassumption|]. intros x1 x2 _.
    eapply obind_rel; [apply nth_error_leq; eassumption|]. intros y1 y2 _.
    exact I.
  Qed.

  Theorem element_wise_op_rel : forall f1 f2 a1 a2 b1 b2,
      same_shape a1 a2 -> same_shape b1 b2 ->
      orel same_shape (element_wise_op O1 f1 a1 b1) (element_wise_op O2 f2 a2 b2).
  Proof.
    intros f1 f2 a1 a2 b1 b2 Ha Hb. unfold element_wise_op.
    rewrite (same_shape_dims _ _ Ha), (same_shape_dims _ _ Hb).
    apply obind_rel_same. intros d. apply obind_rel_same. intros la. apply obind_rel_same. intros lb.
    apply sliced_op_rel; [apply ew_sop_rel|]. constructor; [exact Ha|]. constructor; [exact Hb|constructor].
  Qed.

  Theorem map_arr_rel : forall (f1 : F1 -> F1) (f2 : F2 -> F2) a1 a2,
      same_shape a1 a2 -> orel same_shape (map_arr f1 a1) (map_arr f2 a2).
  Proof.
    intros f1 f2 a1 a2 Ha. unfold map_arr. apply mk_rel'; [apply same_shape_dims; exact Ha|].
    apply map_leq. apply same_shape_vals. exact Ha.
  Qed.

  Lemma a_scale_rel : forall s1 s2 a1 a2,
      same_shape a1 a2 -> orel same_shape (a_scale O1 s1 a1) (a_scale O2 s2 a2).
  Proof. intros. apply map_arr_rel. assumption. Qed.

  Lemma a_neg_rel : forall a1 a2,
      same_shape a1 a2 -> orel same_shape (a_neg O1 a1) (a_neg O2 a2).
  Proof. intros. apply a_scale_rel. assumption. Qed.

  Lemma a_add_rel : forall a1 a2 b1 b2, same_shape a1 a2 -> same_shape b1 b2 ->
      orel same_shape (a_add O1 a1 b1) (a_add O2 a2 b2).
  Proof. intros. apply element_wise_op_rel; assumption. Qed.

  Lemma a_mul_rel : forall a1 a2 b1 b2, same_shape a1 a2 -> same_shape b1 b2 ->
      orel same_shape (a_mul O1 a1 b1) (a_mul O2 a2 b2).
  Proof. intros. apply element_wise_op_rel; assumption. Qed.

  Lemma a_div_rel : forall a1 a2 b1 b2, same_shape a1 a2 -> same_shape b1 b2 ->
      orel same_shape (a_div O1 a1 b1) (a_div O2 a2 b2).
  Proof. intros. apply element_wise_op_rel; assumption. Qed.

  Lemma a_sub_rel : forall a1 a2 b1 b2, same_shape a1 a2 -> same_shape b1 b2 ->
      orel same_shape (a_sub O1 a1 b1) (a_sub O2 a2 b2).
  Proof.
    intros a1 a2 b1 b2 Ha Hb. unfold a_sub.
    eapply obind_rel; [apply a_neg_rel; exact Hb|]. intros n1 n2 Hn. apply a_add_rel; assumption.
  Qed.

  Lemma a_reciprocal_rel : forall a1 a2,
      same_shape a1 a2 -> orel same_shape (a_reciprocal O1 a1) (a_reciprocal O2 a2).
  Proof. intros. apply map_arr_rel. assumption. Qed.

  Lemma a_powf_rel : forall e1 e2 a1 a2,
      same_shape a1 a2 -> orel same_shape (a_powf O1 e1 a1) (a_powf O2 e2 a2).
  Proof. intros. apply map_arr_rel. assumption. Qed.

  Lemma a_ln_rel : forall a1 a2,
      same_shape a1 a2 -> orel same_shape (a_ln O1 a1) (a_ln O2 a2).
  Proof. intros. apply map_arr_rel. assumption. Qed.

  Lemma a_exp_rel : forall a1 a2,
      same_shape a1 a2 -> orel same_shape (a_exp O1 a1) (a_exp O2 a2).
  Proof. intros. apply map_arr_rel. assumption. Qed.

  Lemma a_relu_rel : forall a1 a2,
      same_shape a1 a2 -> orel same_shape (a_relu O1 a1) (a_relu O2 a2).
  Proof. intros. apply map_arr_rel. assumption. Qed.

  Lemma a_sigmoid_rel : forall a1 a2,
      same_shape a1 a2 -> orel same_shape (a_sigmoid O1 a1) (a_sigmoid O2 a2).
  Proof. intros. apply map_arr_rel. assumption. Qed.

  Lemma a_axpy_rel : forall al1 al2 x1 x2 y1 y2, same_shape x1 x2 -> same_shape y1 y2 ->
      orel same_shape (a_axpy O1 al1 x1 y1) (a_axpy O2 al2 x2 y2).
  Proof.
    intros al1 al2 x1 x2 y1 y2 Hx Hy. unfold a_axpy.
    eapply obind_rel; [apply a_scale_rel; exact Hx|]. intros n1 n2 Hn. apply a_add_rel; assumption.
  Qed.

  (** ** Reductions, reshape, softmax, flatten_to *)

  Lemma sum_sop_rel : sop_rel (sum_sop O1) (sum_sop O2).
  Proof.
    intros cur1 cur2 sl1 sl2 Hcur Hsl. unfold sum_sop.
    inv_f2 Hsl. inv_f2 Hsl.
    destruct cur1, cur2; simpl in *; try discriminate Hcur; trivial.
  Qed.

  Theorem a_sum_rel : forall k a1 a2,
      same_shape a1 a2 -> orel same_shape (a_sum O1 k a1) (a_sum O2 k a2).
  Proof.
    intros k a1 a2 Ha. unfold a_sum. destruct (k =? 0); [exact Ha|].
    rewrite (same_shape_dims _ _ Ha).
    apply sliced_op_rel; [apply sum_sop_rel|]. constructor; [exact Ha|constructor].
  Qed.

  Theorem a_reshape_rel : forall d a1 a2,
      same_shape a1 a2 -> orel same_shape (a_reshape d a1) (a_reshape d a2).
  Proof. intros d a1 a2 Ha. unfold a_reshape. apply mk_rel. apply same_shape_vals. exact Ha. Qed.

  Theorem a_softmax_rel : forall a1 a2,
      same_shape a1 a2 -> orel same_shape (a_softmax O1 a1) (a_softmax O2 a2).
  Proof.
    intros a1 a2 Ha. unfold a_softmax.
    eapply obind_rel; [apply a_exp_rel; exact Ha|]. intros e1 e2 He.
    eapply obind_rel; [apply a_sum_rel; exact He|]. intros s1 s2 Hs.
    apply a_div_rel; assumption.
  Qed.

  Lemma flatten_sop_rel : sop_rel (flatten_sop O1) (flatten_sop O2).
  Proof.
    intros cur1 cur2 sl1 sl2 Hcur Hsl. unfold flatten_sop.
    inv_f2 Hsl. inv_f2 Hsl.
    apply map_leq. apply combine_leq; [|exact Hcur]. rewrite Hcur. reflexivity.
  Qed.

  Theorem flatten_to_rel : forall a1 a2 target,
      same_shape a1 a2 -> orel same_shape (flatten_to O1 a1 target) (flatten_to O2 a2 target).
  Proof.
    intros a1 a2 target Ha. unfold flatten_to. rewrite (same_shape_dims _ _ Ha).
    destruct (dims_eqb (dims a2) target); [exact Ha|].
    eapply obind_rel with (R := same_shape).
    - destruct (length (dims a2) - length target =? 0); [exact Ha|].
      apply sliced_op_rel; [apply flatten_sop_rel|]. constructor; [exact Ha|constructor].
    - intros fl1 fl2 Hfl. rewrite (same_shape_dims _ _ Hfl).
      destruct (dims_eqb (dims fl2) target); [exact Hfl|].
      apply sliced_op_rel; [apply flatten_sop_rel|]. constructor; [exact Hfl|constructor].
  Qed.

  (** ** matmul *)

  Lemma matmul_slice_rel : forall rows cols sum_len ta tb
                                  (cur1 sa1 sb1 : list F1) (cur2 sa2 sb2 : list F2),
      leq cur1 cur2 -> leq sa1 sa2 -> leq sb1 sb2 ->
      orel leq (matmul_slice O1 rows cols sum_len ta tb cur1 sa1 sb1)
               (matmul_slice O2 rows cols sum_len ta tb cur2 sa2 sb2).
  Proof.
    intros rows cols sum_len ta tb cur1 sa1 sb1 cur2 sa2 sb2 Hc Ha Hb. unfold matmul_slice.
    apply mapM_same_leq. intros p.
    eapply obind_rel with (R := leq).
    - apply mapM_same_leq. intros k.
      eapply obind_rel; [apply nth_error_leq; exact Ha|]. intros x1 x2 _.
      eapply obind_rel; [apply nth_error_leq; exact Hb|]. intros y1 y2 _.
      exact I.
    - intros t1 t2 _.
      eapply obind_rel; [apply nth_error_leq; exact Hc|]. intros o1 o2 _. exact I.
  Qed.

  Lemma cyc_fill_rel : forall (cur1 s1 : list F1) (cur2 s2 : list F2),
      leq cur1 cur2 -> leq s1 s2 -> leq (cyc_fill O1 cur1 s1) (cyc_fill O2 cur2 s2).
  Proof.
    intros cur1 s1 cur2 s2 Hc Hs. unfold cyc_fill.
    destruct s1, s2; simpl in Hs; try discriminate Hs; [exact Hc|].
    unfold leq. rewrite !map_length, !seq_length. exact Hc.
  Qed.

  Lemma matmul_sop_rel : forall set_output rows cols sum_len ta tb,
      sop_rel (matmul_sop O1 set_output rows cols sum_len ta tb)
              (matmul_sop O2 set_output rows cols sum_len ta tb).
  Proof.
    intros set_output rows cols sum_len ta tb cur1 cur2 sl1 sl2 Hcur Hsl. unfold matmul_sop.
    inv_f2 Hsl. inv_f2 Hsl. inv_f2 Hsl. inv_f2 Hsl.
    apply matmul_slice_rel; try assumption.
    destruct set_output; [apply cyc_fill_rel; assumption|exact Hcur].
  Qed.

  Lemma bias_ok_rel : forall c1 c2 rows cols,
      same_shape c1 c2 -> bias_ok c1 rows cols = bias_ok c2 rows cols.
  Proof.
    intros c1 c2 rows cols [Hd Hv]. unfold bias_ok. rewrite Hd, Hv. reflexivity.
  Qed.

  Lemma zeros1_rel : same_shape (zeros1 O1) (zeros1 O2).
  Proof. split; reflexivity. Qed.

  Theorem a_matmul_rel : forall a1 a2 ta b1 b2 tb c1 c2,
      same_shape a1 a2 -> same_shape b1 b2 -> orel same_shape c1 c2 ->
      orel same_shape (a_matmul O1 a1 ta b1 tb c1) (a_matmul O2 a2 ta b2 tb c2).
  Proof.
    intros a1 a2 ta b1 b2 tb c1 c2 Ha Hb Hc. unfold a_matmul.
    rewrite (same_shape_dims _ _ Ha), (same_shape_dims _ _ Hb).
    apply obind_rel_same. intros sh.
    destruct c1 as [c1|], c2 as [c2|]; simpl in Hc; try contradiction.
    - apply check_rel; [apply bias_ok_rel; exact Hc|].
      apply sliced_op_rel; [apply matmul_sop_rel|].
      constructor; [exact Ha|]. constructor; [exact Hb|]. constructor; [exact Hc|constructor].
    - apply check_rel; [reflexivity|].
      apply sliced_op_rel; [apply matmul_sop_rel|].
      constructor; [exact Ha|]. constructor; [exact Hb|]. constructor; [exact zeros1_rel|constructor].
  Qed.

  (** ** Image operations *)

  Lemma unroll_sop_rel : forall depth rows cols sr sc fr fc rcount ccount,
      sop_rel (@unroll_sop F1 depth rows cols sr sc fr fc rcount ccount)
              (@unroll_sop F2 depth rows cols sr sc fr fc rcount ccount).
  Proof.
    intros depth rows cols sr sc fr fc rcount ccount cur1 cur2 sl1 sl2 Hcur Hsl. unfold unroll_sop.
    inv_f2 Hsl. inv_f2 Hsl.
    apply mapM_same_leq. intros oi. apply nth_error_leq. assumption.
  Qed.

  Theorem unroll_blocks_rel : forall a1 a2 sr sc fr fc,
      same_shape a1 a2 ->
      orel same_shape (unroll_blocks O1 a1 sr sc fr fc) (unroll_blocks O2 a2 sr sc fr fc).
  Proof.
    intros a1 a2 sr sc fr fc Ha. unfold unroll_blocks. rewrite (same_shape_dims _ _ Ha).
    apply obind_rel_same. intros depth. apply obind_rel_same. intros rows.
    apply obind_rel_same. intros cols. apply obind_rel_same. intros rcount.
    apply obind_rel_same. intros ccount.
    apply sliced_op_rel; [apply unroll_sop_rel|]. constructor; [exact Ha|constructor].
  Qed.

  Lemma roll_sop_rel : forall summed count depth rows cols sr sc fr fc ccount,
      sop_rel (roll_sop O1 summed count depth rows cols sr sc fr fc ccount)
              (roll_sop O2 summed count depth rows cols sr sc fr fc ccount).
  Proof.
    intros summed count depth rows cols sr sc fr fc ccount cur1 cur2 sl1 sl2 Hcur Hsl.
    unfold roll_sop. inv_f2 Hsl. inv_f2 Hsl.
    apply (fold_left_rel_same (orel leq)); [|exact Hcur].
    intros acc1 acc2 ii Hacc.
    eapply obind_rel; [exact Hacc|]. intros out1 out2 Hout.
    eapply obind_rel; [apply nth_error_leq; eassumption|]. intros x1 x2 _.
    eapply obind_rel; [apply nth_error_leq; exact Hout|]. intros o1 o2 _.
    apply set_nth_leq. exact Hout.
  Qed.

  Theorem roll_blocks_rel : forall summed a1 a2 depth rows cols sr sc fr fc,
      same_shape a1 a2 ->
      orel same_shape (roll_blocks O1 summed a1 depth rows cols sr sc fr fc)
                      (roll_blocks O2 summed a2 depth rows cols sr sc fr fc).
  Proof.
    intros summed a1 a2 depth rows cols sr sc fr fc Ha. unfold roll_blocks.
    rewrite (same_shape_dims _ _ Ha).
    apply obind_rel_same. intros count. apply obind_rel_same. intros ccount.
    apply sliced_op_rel; [apply roll_sop_rel|]. constructor; [exact Ha|constructor].
  Qed.

  Theorem expand_conv_rel : forall a1 a2 rcount ccount,
      same_shape a1 a2 ->
      orel same_shape (expand_conv O1 a1 rcount ccount) (expand_conv O2 a2 rcount ccount).
  Proof.
    intros a1 a2 rcount ccount Ha. unfold expand_conv.
    destruct Ha as [Hd Hv]. rewrite Hd, Hv.
    apply obind_rel_same. intros fcount.
    apply check_rel; [reflexivity|].
    eapply obind_rel with (R := leq).
    - apply mapM_same_leq. intros ri. apply nth_error_leq. exact Hv.
    - intros v1 v2 Hvv. unfold leq in Hvv. rewrite Hvv.
      apply check_rel; [reflexivity|].
      apply mk_rel. apply app_leq; [exact Hvv|apply repeat_leq].
  Qed.

  Theorem conv_rel : forall i1 i2 f1 f2 sr sc,
      same_shape i1 i2 -> same_shape f1 f2 ->
      orel same_shape (conv O1 i1 f1 sr sc) (conv O2 i2 f2 sr sc).
  Proof.
    intros i1 i2 f1 f2 sr sc Hi Hf. unfold conv.
    rewrite (same_shape_dims _ _ Hi), (same_shape_dims _ _ Hf).
    apply check_rel; [reflexivity|]. apply check_rel; [reflexivity|].
    apply obind_rel_same. intros depth. apply obind_rel_same. intros rows.
    apply obind_rel_same. intros cols. apply obind_rel_same. intros fr.
    apply obind_rel_same. intros fc. apply obind_rel_same. intros rcount.
    apply obind_rel_same. intros ccount.
    eapply obind_rel; [apply unroll_blocks_rel; exact Hi|]. intros u1 u2 Hu.
    rewrite (same_shape_dims _ _ Hu).
    apply obind_rel_same. intros last.
    eapply obind_rel; [apply a_reshape_rel; exact Hf|]. intros fm1 fm2 Hfm.
    eapply obind_rel; [apply a_matmul_rel; [exact Hu|exact Hfm|exact I]|]. intros cv1 cv2 Hcv.
    apply expand_conv_rel. exact Hcv.
  Qed.
End ArrRel.

(** * Part 3: derivative closures *)

(** C19, derivative closures: [run_bop] over two scalar instances, on the same
    constructor with same-shaped captured data, same-shaped children, equal flags
    and same-shaped adjoints, produces related results. *)


Section OpsRel.
  Context {F1 F2 : Type} (O1 : ScalarOps F1) (O2 : ScalarOps F2).

  Notation ss := (@same_shape F1 F2).

  (** same constructor, same naturals and booleans, scalar lists of equal length,
      scalars unconstrained *)
  Inductive code_rel : bop_code F1 -> bop_code F2 -> Prop :=
  | CR_Add : code_rel BAdd BAdd
  | CR_Mul : code_rel BMul BMul
  | CR_Div : code_rel BDiv BDiv
  | CR_Neg : code_rel BNeg BNeg
  | CR_Scale : forall s1 s2, code_rel (BScale s1) (BScale s2)
  | CR_Recip : code_rel BRecip BRecip
  | CR_Powf : forall e1 e2, code_rel (BPowf e1) (BPowf e2)
  | CR_Ln : code_rel BLn BLn
  | CR_Exp : forall c1 c2, leq c1 c2 -> code_rel (BExp c1) (BExp c2)
  | CR_Sum : forall k target, code_rel (BSum k target) (BSum k target)
  | CR_Reshape : code_rel BReshape BReshape
  | CR_Matmul : forall ta tb, code_rel (BMatmul ta tb) (BMatmul ta tb)
  | CR_Unroll : forall depth rows cols sr sc fr fc,
      code_rel (BUnroll depth rows cols sr sc fr fc) (BUnroll depth rows cols sr sc fr fc)
  | CR_Expand : forall fcount stride, code_rel (BExpand fcount stride) (BExpand fcount stride)
  | CR_Relu : code_rel BRelu BRelu
  | CR_Sigmoid : forall c1 c2, leq c1 c2 -> code_rel (BSigmoid c1) (BSigmoid c2)
  | CR_Custom : forall c, code_rel (BCustom c) (BCustom c).

  Lemma when_rel : forall b (x1 : option (arr F1)) (x2 : option (arr F2)),
      orel ss x1 x2 -> orel (orel ss) (when b x1) (when b x2).
  Proof.
    intros b x1 x2 H. unfold when. destruct b; [|exact I].
    eapply obind_rel; [exact H|]. intros r1 r2 Hr. exact Hr.
  Qed.

  Lemma mul_values_rel : forall (a1 b1 : list F1) (a2 b2 : list F2),
      leq a1 a2 -> leq b1 b2 -> leq (mul_values O1 a1 b1) (mul_values O2 a2 b2).
  Proof. intros. unfold mul_values. apply map_leq. apply combine_leq; assumption. Qed.

  Lemma fill_sop_rel : sop_rel (@fill_sop F1) (@fill_sop F2).
  Proof.
    intros cur1 cur2 sl1 sl2 Hcur Hsl. unfold fill_sop.
    inv_f2 Hsl. inv_f2 Hsl.
    eapply obind_rel; [apply (nth_error_leq s s0 0); eassumption|]. intros x1 x2 _.
    simpl. apply map_leq. exact Hcur.
  Qed.

  Lemma zip_vals_rel : forall (f1 : F1 -> F1 -> F1) (f2 : F2 -> F2 -> F2) a1 a2 b1 b2,
      ss a1 a2 -> ss b1 b2 -> orel ss (zip_vals f1 a1 b1) (zip_vals f2 a2 b2).
  Proof.
    intros f1 f2 a1 a2 b1 b2 Ha Hb. unfold zip_vals.
    apply mk_rel'; [apply same_shape_dims; exact Ha|].
    apply map_leq. apply combine_leq; apply same_shape_vals; assumption.
  Qed.

  Theorem custom_forward_rel : forall c l1 l2,
      Forall2 ss l1 l2 -> orel ss (custom_forward O1 c l1) (custom_forward O2 c l2).
  Proof.
    intros c l1 l2 H. unfold custom_forward.
    destruct c; inv_f2 H; inv_f2 H; try inv_f2 H; apply zip_vals_rel; assumption.
  Qed.

  (** rewrite the dimensions of the left operands into those of the right operands *)
  Ltac rew_dims :=
    repeat match goal with
           | H : same_shape ?a ?b |- context [dims ?a] => rewrite (same_shape_dims a b H)
           end.

  Ltac prim :=
    first
      [ assumption
      | exact I
      | match goal with
        | |- orel _ (when _ _) (when _ _) => apply when_rel
        | |- orel _ (a_mul _ _ _) (a_mul _ _ _) => apply a_mul_rel
        | |- orel _ (a_div _ _ _) (a_div _ _ _) => apply a_div_rel
        | |- orel _ (a_neg _ _) (a_neg _ _) => apply a_neg_rel
        | |- orel _ (a_powf _ _ _) (a_powf _ _ _) => apply a_powf_rel
        | |- orel _ (a_scale _ _ _) (a_scale _ _ _) => apply a_scale_rel
        | |- orel _ (a_reciprocal _ _) (a_reciprocal _ _) => apply a_reciprocal_rel
        | |- orel _ (a_reshape _ _) (a_reshape _ _) => apply a_reshape_rel
        | |- orel _ (a_matmul _ _ _ _ _ _) (a_matmul _ _ _ _ _ _) => apply a_matmul_rel
        | |- orel _ (roll_blocks _ _ _ _ _ _ _ _ _ _) (roll_blocks _ _ _ _ _ _ _ _ _ _) =>
          apply roll_blocks_rel
        | |- orel _ (map_arr _ _) (map_arr _ _) => apply map_arr_rel
        | |- orel _ (zip_vals _ _ _) (zip_vals _ _ _) => apply zip_vals_rel
        | |- orel _ (mk _ _) (mk _ _) => apply mk_rel
        | |- leq (mul_values _ _ _) (mul_values _ _ _) => apply mul_values_rel
        | |- leq (map _ _) (map _ _) => apply map_leq
        | |- leq (vals _) (vals _) => apply same_shape_vals
        end ].

  Ltac rel_auto :=
    repeat first
      [ prim
      | match goal with
        | |- orel _ (obind _ _) (obind _ _) => eapply obind_rel; [ | intros ? ? ? ]
        | |- orel _ (Some _) (Some _) => cbn [orel]
        | |- Forall2 _ (_ :: _) (_ :: _) => constructor
        | |- Forall2 _ [] [] => constructor
        | |- context [if ?b then _ else _] => destruct b
        end ].

  Ltac inv_l H :=
    let a := fresh "s" in let b := fresh "s" in let Hab := fresh "Hs" in
    destruct H as [|a b ? ? Hab H]; cbn [run_bop]; try exact I.

  Lemma expand_back_rel : forall fcount stride m n (x1 : list F1) (x2 : list F2),
      leq x1 x2 ->
      orel leq
        (fold_left (fun acc di => out <- acc ;; v <- nth_error x1 di ;;
                                  set_nth (expand_index fcount stride di) v out)
                   (seq 0 m) (Some (repeat (f0 O1) n)))
        (fold_left (fun acc di => out <- acc ;; v <- nth_error x2 di ;;
                                  set_nth (expand_index fcount stride di) v out)
                   (seq 0 m) (Some (repeat (f0 O2) n))).
  Proof.
    intros fcount stride m n x1 x2 Hx.
    apply (fold_left_rel_same (orel leq)); [|apply repeat_leq].
    intros acc1 acc2 di Hacc.
    eapply obind_rel; [exact Hacc|]. intros out1 out2 Hout.
    eapply obind_rel; [apply nth_error_leq; exact Hx|]. intros v1 v2 _.
    apply set_nth_leq. exact Hout.
  Qed.

  Theorem run_bop_rel : forall code1 code2 cs1 cs2 t x1 x2,
      code_rel code1 code2 -> Forall2 ss cs1 cs2 -> ss x1 x2 ->
      orel (Forall2 (orel ss)) (run_bop O1 code1 cs1 t x1) (run_bop O2 code2 cs2 t x2).
  Proof.
    intros code1 code2 cs1 cs2 t x1 x2 Hcode Hcs Hx.
    destruct Hcode; try (destruct c);
      inv_l Hcs; try (inv_l Hcs); try (inv_l Hcs); try (inv_l Hcs); rew_dims.
    - (* BAdd *) rel_auto.
    - (* BMul *) rel_auto.
    - (* BDiv *) rel_auto.
    - (* BNeg *) rel_auto.
    - (* BScale *) rel_auto.
    - (* BRecip *) rel_auto.
    - (* BPowf *) rel_auto.
    - (* BLn *) rel_auto.
    - (* BExp *) rel_auto.
    - (* BSum *)
      eapply obind_rel; [apply a_reshape_rel; exact Hx|]. intros y1 y2 Hy.
      eapply obind_rel.
      { apply sliced_op_rel; [apply fill_sop_rel|]. constructor; [exact Hy|constructor]. }
      intros d1 d2 Hd. rel_auto.
    - (* BReshape *) rel_auto.
    - (* BMatmul *) rel_auto.
    - (* BUnroll *) rel_auto.
    - (* BExpand *)
      apply check_rel; [reflexivity|].
      eapply obind_rel; [apply expand_back_rel; apply same_shape_vals; exact Hx|].
      intros v1 v2 Hv. rel_auto.
    - (* BRelu *) rel_auto.
    - (* BSigmoid *) rel_auto.
    - (* CMul *) rel_auto.
    - (* CAff *) rel_auto.
    - (* CSq *) rel_auto.
  Qed.
End OpsRel.

(** * Part 4: the engine *)

(** C19, engine: the abstraction theorem of [propagate] and [backward].  For two
    payload types, two adjoint types, relations [RP], [RD] between them and two
    records of engine operations that respect the relations, passes over
    node-wise related stores stay related (same children, flags and counts;
    related payloads; deltas and gradients present at the same nodes and related). *)


Section EngineRel.
  Context {P1 P2 D1 D2 : Type}.
  Variable RP : P1 -> P2 -> Prop.
  Variable RD : D1 -> D2 -> Prop.

  Definition node_rel (n1 : node P1 D1) (n2 : node P2 D2) : Prop :=
    RP (n_pay n1) (n_pay n2) /\
    n_children n1 = n_children n2 /\
    n_count n1 = n_count n2 /\
    orel RD (n_delta n1) (n_delta n2) /\
    orel RD (n_grad n1) (n_grad n2).

  Definition store_rel (g1 : store P1 D1) (g2 : store P2 D2) : Prop := Forall2 node_rel g1 g2.

  Definition trace_rel (l1 : list (nat * D1)) (l2 : list (nat * D2)) : Prop :=
    Forall2 (fun p q => fst p = fst q /\ RD (snd p) (snd q)) l1 l2.

  Lemma set_count_rel : forall n1 n2 c, node_rel n1 n2 -> node_rel (set_count n1 c) (set_count n2 c).
  Proof. intros n1 n2 c (Hp & Hc & Hn & Hd & Hg). repeat split; simpl; assumption. Qed.

  Lemma set_delta_rel : forall n1 n2 d1 d2,
      node_rel n1 n2 -> orel RD d1 d2 -> node_rel (set_delta n1 d1) (set_delta n2 d2).
  Proof. intros n1 n2 d1 d2 (Hp & Hc & Hn & Hd & Hg) H. repeat split; simpl; assumption. Qed.

  Lemma set_grad_rel : forall n1 n2 d1 d2,
      node_rel n1 n2 -> orel RD d1 d2 -> node_rel (set_grad n1 d1) (set_grad n2 d2).
  Proof. intros n1 n2 d1 d2 (Hp & Hc & Hn & Hd & Hg) H. repeat split; simpl; assumption. Qed.

  Lemma set_children_rel : forall n1 n2 es,
      node_rel n1 n2 -> node_rel (set_children n1 es) (set_children n2 es).
  Proof. intros n1 n2 es (Hp & Hc & Hn & Hd & Hg). repeat split; simpl; assumption. Qed.

  Lemma put_rel : forall g1 g2 id n1 n2,
      store_rel g1 g2 -> node_rel n1 n2 -> orel store_rel (put g1 id n1) (put g2 id n2).
  Proof. intros. unfold put. apply set_nth_F2; assumption. Qed.

  Lemma get_rel : forall g1 g2 id,
      store_rel g1 g2 -> orel node_rel (nth_error g1 id) (nth_error g2 id).
  Proof. intros. apply nth_error_F2. assumption. Qed.

  (** [propagate] never looks at payloads or adjoints *)
  Theorem propagate_rel : forall fuel g1 g2 id,
      store_rel g1 g2 -> orel store_rel (propagate fuel g1 id) (propagate fuel g2 id).
  Proof.
    induction fuel as [|fuel IH]; intros g1 g2 id Hg; simpl; [exact I|].
    eapply obind_rel; [apply get_rel; exact Hg|]. intros nd1 nd2 Hnd.
    destruct Hnd as (_ & Hch & _). rewrite Hch.
    apply (fold_left_rel_same (orel store_rel)); [|exact Hg].
    intros acc1 acc2 e Hacc.
    eapply obind_rel; [exact Hacc|]. intros h1 h2 Hh.
    destruct (e_tracked e); [|exact Hh].
    eapply obind_rel; [apply get_rel; exact Hh|]. intros c1 c2 Hc.
    assert (Hcnt : n_count c1 = n_count c2) by (destruct Hc as (_ & _ & Hn & _); exact Hn).
    rewrite Hcnt.
    eapply obind_rel; [apply put_rel; [exact Hh|apply set_count_rel; exact Hc]|]. intros k1 k2 Hk.
    destruct (n_count c2 =? 0); [apply IH|]; exact Hk.
  Qed.

  Variable E1 : eops P1 D1.
  Variable E2 : eops P2 D2.

  (** the two records of engine operations respect the relations *)
  Record eops_rel : Prop := {
    er_ones : forall p1 p2, RP p1 p2 -> RD (eo_ones E1 p1) (eo_ones E2 p2);
    er_flat : forall d1 d2 p1 p2,
        RD d1 d2 -> RP p1 p2 -> orel RD (eo_flat E1 d1 p1) (eo_flat E2 d2 p2);
    er_add : forall x1 x2 y1 y2,
        RD x1 x2 -> RD y1 y2 -> orel RD (eo_add E1 x1 y1) (eo_add E2 x2 y2);
    er_hasop : forall p1 p2, RP p1 p2 -> eo_hasop E1 p1 = eo_hasop E2 p2;
    er_bop : forall p1 p2 c1 c2 t x1 x2,
        RP p1 p2 -> Forall2 RP c1 c2 -> RD x1 x2 ->
        orel (Forall2 (orel RD)) (eo_bop E1 p1 c1 t x1) (eo_bop E2 p2 c2 t x2)
  }.

  Hypothesis HE : eops_rel.

  Definition res_rel : store P1 D1 * list (nat * D1) -> store P2 D2 * list (nat * D2) -> Prop :=
    prel store_rel trace_rel.

  Lemma accumulate_rel : forall (o1 : option D1) (o2 : option D2) d1 d2,
      orel RD o1 o2 -> RD d1 d2 ->
      orel RD (match o1 with Some x => eo_add E1 x d1 | None => Some d1 end)
              (match o2 with Some x => eo_add E2 x d2 | None => Some d2 end).
  Proof.
    intros [x1|] [x2|] d1 d2 Ho Hd; simpl in Ho; try contradiction.
    - apply (er_add HE); assumption.
    - exact Hd.
  Qed.

  Theorem backward_rel : forall fuel g1 g2 id keep seed1 seed2 log1 log2,
      store_rel g1 g2 -> orel RD seed1 seed2 -> trace_rel log1 log2 ->
      orel res_rel (backward E1 fuel g1 id keep seed1 log1) (backward E2 fuel g2 id keep seed2 log2).
  Proof.
    induction fuel as [|fuel IH]; intros g1 g2 id keep seed1 seed2 log1 log2 Hg Hseed Hlog;
      [exact I|]. cbn [backward].
    eapply obind_rel; [apply get_rel; exact Hg|]. intros nd1 nd2 Hnd.
    eapply obind_rel with (R := prel store_rel RD).
    { destruct Hnd as (Hp & Hch & Hn & Hd & Hgr).
      destruct (n_delta nd1) as [x1|] eqn:E1d, (n_delta nd2) as [x2|] eqn:E2d;
        simpl in Hd; try contradiction.
      - eapply obind_rel.
        + apply put_rel; [exact Hg|]. apply set_delta_rel; [|exact I].
          repeat split; try assumption. rewrite E1d, E2d. exact Hd.
        + intros k1 k2 Hk. split; simpl; assumption.
      - eapply obind_rel; [apply propagate_rel; exact Hg|]. intros k1 k2 Hk.
        split; simpl; [exact Hk|].
        destruct seed1, seed2; simpl in Hseed; try contradiction; [exact Hseed|].
        apply (er_ones HE). exact Hp. }
    intros [k1 delta1] [k2 delta2] [Hk Hdelta]. simpl in Hk, Hdelta.
    eapply obind_rel; [apply get_rel; exact Hk|]. intros m1 m2 Hm.
    assert (Hmch : n_children m1 = n_children m2) by (destruct Hm as (_ & H & _); exact H).
    assert (Hmp : RP (n_pay m1) (n_pay m2)) by (destruct Hm as (H & _); exact H).
    eapply obind_rel with (R := res_rel).
    { rewrite (er_hasop HE _ _ Hmp), Hmch.
      destruct (eo_hasop E2 (n_pay m2)).
      - eapply obind_rel; [apply put_rel; [exact Hk|apply set_children_rel; exact Hm]|].
        intros ka1 ka2 Hka.
        eapply obind_rel with (R := Forall2 RP).
        { apply mapM_same. intros e.
          eapply obind_rel; [apply get_rel; exact Hka|]. intros c1 c2 (Hc & _). exact Hc. }
        intros pays1 pays2 Hpays.
        eapply obind_rel; [apply (er_bop HE); assumption|]. intros ds1 ds2 Hds.
        eapply obind_rel; [apply get_rel; exact Hka|]. intros ma1 ma2 Hma.
        assert (Hmach : n_children ma1 = n_children ma2) by (destruct Hma as (_ & H & _); exact H).
        rewrite Hmach.
        eapply obind_rel; [apply put_rel; [exact Hka|apply set_children_rel; exact Hma]|].
        intros kb1 kb2 Hkb.
        apply check_rel; [rewrite (F2_length _ _ _ Hds); reflexivity|].
        apply (fold_left_rel (orel res_rel)
                             (fun p q => fst p = fst q /\ orel RD (snd p) (snd q))).
        + intros acc1 acc2 [e1 od1] [e2 od2] Hacc [He Hod]. simpl in He, Hod. subst e2.
          eapply obind_rel; [exact Hacc|]. intros [h1 lg1] [h2 lg2] [Hh Hlg]. simpl in Hh, Hlg.
          cbn [fst snd].
          destruct od1 as [d1|], od2 as [d2|]; simpl in Hod; try contradiction.
          * eapply obind_rel; [apply get_rel; exact Hh|]. intros c1 c2 Hc.
            assert (Hcp : RP (n_pay c1) (n_pay c2)) by (destruct Hc as (H & _); exact H).
            assert (Hcn : n_count c1 = n_count c2) by (destruct Hc as (_ & _ & H & _); exact H).
            assert (Hcd : orel RD (n_delta c1) (n_delta c2))
              by (destruct Hc as (_ & _ & _ & H & _); exact H).
            eapply obind_rel; [apply (er_flat HE); assumption|]. intros f1 f2 Hf.
            eapply obind_rel; [apply accumulate_rel; assumption|]. intros nw1 nw2 Hnw.
            rewrite Hcn.
            apply check_rel; [reflexivity|].
            eapply obind_rel.
            { apply put_rel; [exact Hh|]. apply set_count_rel. apply set_delta_rel; assumption. }
            intros h1' h2' Hh'.
            destruct (n_count c2 =? 1).
            -- apply IH; [exact Hh'|exact I|exact Hlg].
            -- split; simpl; assumption.
          * split; simpl; assumption.
        + apply F2_combine_l. exact Hds.
        + split; simpl; [exact Hkb|].
          apply F2_app; [exact Hlog|]. constructor; [|constructor]. split; simpl; [reflexivity|exact Hdelta].
      - apply check_rel; [reflexivity|]. split; simpl; assumption. }
    intros [h1 lg1] [h2 lg2] [Hh Hlg]. simpl in Hh, Hlg.
    eapply obind_rel; [apply get_rel; exact Hh|]. intros r1 r2 Hr.
    assert (Hrch : n_children r1 = n_children r2) by (destruct Hr as (_ & H & _); exact H).
    assert (Hrg : orel RD (n_grad r1) (n_grad r2)) by (destruct Hr as (_ & _ & _ & _ & H); exact H).
    rewrite Hrch.
    destruct ((match n_children r2 with [] => true | _ => false end) || keep).
    - eapply obind_rel; [apply accumulate_rel; assumption|]. intros ng1 ng2 Hng.
      eapply obind_rel; [apply put_rel; [exact Hh|apply set_grad_rel; assumption]|].
      intros z1 z2 Hz. split; simpl; assumption.
    - split; simpl; assumption.
  Qed.

  Corollary run_backward_rel : forall g1 g2 id keep seed1 seed2,
      store_rel g1 g2 -> orel RD seed1 seed2 ->
      orel res_rel (run_backward E1 g1 id keep seed1) (run_backward E2 g2 id keep seed2).
  Proof.
    intros. unfold run_backward. apply backward_rel; [assumption|assumption|constructor].
  Qed.
End EngineRel.

(** * Part 5: programs *)

(** C19, programs: the interpreter of Model/Program.v over two scalar instances,
    on related instruction lists, panics at the same instruction (or not at all)
    and produces observations with the same kinds, the same naturals and scalar
    lists of equal lengths. *)


Section ProgramRel.
  Context {F1 F2 : Type} (O1 : ScalarOps F1) (O2 : ScalarOps F2).

  Notation ss := (@same_shape F1 F2).
  Notation crel := (@code_rel F1 F2).

  (** ** Payloads, nodes, states *)

  Definition pay_rel (p1 : @pay F1) (p2 : @pay F2) : Prop :=
    p_dims p1 = p_dims p2 /\
    leq (p_vals p1) (p_vals p2) /\
    orel crel (p_bop p1) (p_bop p2) /\
    p_buf p1 = p_buf p2 /\
    p_tag p1 = p_tag p2.

  Definition nodes_rel : list (@gnode F1) -> list (@gnode F2) -> Prop := store_rel pay_rel ss.

  Definition state_rel (s1 : @state F1) (s2 : @state F2) : Prop :=
    nodes_rel (st_nodes s1) (st_nodes s2) /\
    st_pool s1 = st_pool s2 /\
    st_layers s1 = st_layers s2 /\
    st_cost s1 = st_cost s2 /\
    st_output s1 = st_output s2 /\
    st_tag s1 = st_tag s2.

  Definition sh_rel : @state F1 * handle -> @state F2 * handle -> Prop := prel state_rel eq.

  Lemma pay_arr_rel : forall p1 p2, pay_rel p1 p2 -> ss (pay_arr p1) (pay_arr p2).
  Proof. intros p1 p2 (Hd & Hv & _). split; simpl; assumption. Qed.

  Lemma E_rel : eops_rel pay_rel ss (E O1) (E O2).
  Proof.
    constructor; simpl.
    - intros p1 p2 (Hd & Hv & _). split; simpl; [exact Hd|]. rewrite !repeat_length. exact Hv.
    - intros d1 d2 p1 p2 Hd (Hp & _). rewrite Hp. apply flatten_to_rel. exact Hd.
    - intros x1 x2 y1 y2 Hx Hy. apply a_add_rel; assumption.
    - intros p1 p2 (_ & _ & Hb & _).
      destruct (p_bop p1), (p_bop p2); simpl in Hb; try contradiction; reflexivity.
    - intros p1 p2 c1 c2 t x1 x2 (_ & _ & Hb & _) Hc Hx.
      eapply obind_rel; [exact Hb|]. intros code1 code2 Hcode.
      apply run_bop_rel; [exact Hcode| |exact Hx].
      apply (F2_map pay_rel); [|exact Hc]. intros a b Hab. apply pay_arr_rel. exact Hab.
  Qed.

  Lemma init_state_rel : state_rel (init_state O1) (init_state O2).
  Proof. repeat split; simpl. constructor. Qed.

  Ltac st_split := repeat split; simpl; try assumption; try reflexivity.

  Lemma with_nodes_rel : forall s1 s2 g1 g2,
      state_rel s1 s2 -> nodes_rel g1 g2 -> state_rel (with_nodes s1 g1) (with_nodes s2 g2).
  Proof. intros s1 s2 g1 g2 (Hn & Hp & Hl & Hc & Ho & Ht) Hg. st_split. Qed.

  Lemma with_pool_rel : forall s1 s2 p,
      state_rel s1 s2 -> state_rel (with_pool s1 p) (with_pool s2 p).
  Proof. intros s1 s2 p (Hn & Hp & Hl & Hc & Ho & Ht). st_split. Qed.

  Lemma with_layers_rel : forall s1 s2 l,
      state_rel s1 s2 -> state_rel (with_layers s1 l) (with_layers s2 l).
  Proof. intros s1 s2 p (Hn & Hp & Hl & Hc & Ho & Ht). st_split. Qed.

  Lemma with_output_rel : forall s1 s2 o,
      state_rel s1 s2 -> state_rel (with_output s1 o) (with_output s2 o).
  Proof. intros s1 s2 p (Hn & Hp & Hl & Hc & Ho & Ht). st_split. Qed.

  Lemma with_tag_rel : forall s1 s2 t,
      state_rel s1 s2 -> state_rel (with_tag s1 t) (with_tag s2 t).
  Proof. intros s1 s2 p (Hn & Hp & Hl & Hc & Ho & Ht). st_split. Qed.

  Lemma with_config_rel : forall s1 s2 c lr1 lr2,
      state_rel s1 s2 -> state_rel (with_config s1 c lr1) (with_config s2 c lr2).
  Proof. intros s1 s2 c lr1 lr2 (Hn & Hp & Hl & Hc & Ho & Ht). st_split. Qed.

  Lemma st_nodes_rel : forall s1 s2, state_rel s1 s2 -> nodes_rel (st_nodes s1) (st_nodes s2).
  Proof. intros s1 s2 (H & _). exact H. Qed.
  Lemma st_pool_eq : forall s1 s2, state_rel s1 s2 -> st_pool s1 = st_pool s2.
  Proof. intros s1 s2 (_ & H & _). exact H. Qed.
  Lemma st_layers_eq : forall s1 s2, state_rel s1 s2 -> st_layers s1 = st_layers s2.
  Proof. intros s1 s2 (_ & _ & H & _). exact H. Qed.
  Lemma st_cost_eq : forall s1 s2, state_rel s1 s2 -> st_cost s1 = st_cost s2.
  Proof. intros s1 s2 (_ & _ & _ & H & _). exact H. Qed.
  Lemma st_output_eq : forall s1 s2, state_rel s1 s2 -> st_output s1 = st_output s2.
  Proof. intros s1 s2 (_ & _ & _ & _ & H & _). exact H. Qed.
  Lemma st_tag_eq : forall s1 s2, state_rel s1 s2 -> st_tag s1 = st_tag s2.
  Proof. intros s1 s2 (_ & _ & _ & _ & _ & H). exact H. Qed.

  Lemma h_node_rel : forall s1 s2 h,
      state_rel s1 s2 -> orel (node_rel pay_rel ss) (h_node s1 h) (h_node s2 h).
  Proof. intros s1 s2 h Hs. unfold h_node. apply get_rel. apply st_nodes_rel. exact Hs. Qed.

  Lemma h_arr_rel : forall s1 s2 h, state_rel s1 s2 -> orel ss (h_arr s1 h) (h_arr s2 h).
  Proof.
    intros s1 s2 h Hs. unfold h_arr.
    eapply obind_rel; [apply h_node_rel; exact Hs|]. intros n1 n2 (Hp & _).
    apply pay_arr_rel. exact Hp.
  Qed.

  Lemma alloc_rel : forall s1 s2 a1 a2 ch b1 b2 buf,
      state_rel s1 s2 -> ss a1 a2 -> orel crel b1 b2 ->
      sh_rel (alloc s1 a1 ch b1 buf) (alloc s2 a2 ch b2 buf).
  Proof.
    intros s1 s2 a1 a2 ch b1 b2 buf Hs [Hd Hv] Hb. unfold alloc.
    pose proof (st_nodes_rel _ _ Hs) as Hn.
    assert (Hlen : length (st_nodes s1) = length (st_nodes s2)) by (apply (F2_length _ _ _ Hn)).
    rewrite Hlen, (st_tag_eq _ _ Hs).
    assert (Htr : match b1 with Some _ => true | None => false end
                  = match b2 with Some _ => true | None => false end).
    { destruct b1, b2; simpl in Hb; try contradiction; reflexivity. }
    rewrite Htr. split; cbn [fst snd]; [|reflexivity].
    apply with_nodes_rel; [exact Hs|].
    apply F2_app; [exact Hn|]. constructor; [|constructor].
    repeat split; simpl; try assumption; exact I.
  Qed.

  Lemma alloc_if_rel : forall s1 s2 a1 a2 tr ch b1 b2,
      state_rel s1 s2 -> ss a1 a2 -> crel b1 b2 ->
      sh_rel (alloc_if s1 a1 tr ch b1) (alloc_if s2 a2 tr ch b2).
  Proof.
    intros. unfold alloc_if. destruct tr; apply alloc_rel; try assumption; exact I.
  Qed.

  (** ** Operations *)

  Inductive opk_rel : @opk F1 -> @opk F2 -> Prop :=
  | KR_Add : opk_rel OAdd OAdd
  | KR_Sub : opk_rel OSub OSub
  | KR_Mul : opk_rel OMul OMul
  | KR_Div : opk_rel ODiv ODiv
  | KR_Neg : opk_rel ONeg ONeg
  | KR_Scale : forall c1 c2, opk_rel (OScale c1) (OScale c2)
  | KR_Recip : opk_rel ORecip ORecip
  | KR_Powf : forall e1 e2, opk_rel (OPowf e1) (OPowf e2)
  | KR_Ln : opk_rel OLn OLn
  | KR_Exp : opk_rel OExp OExp
  | KR_Sum : forall k, opk_rel (OSum k) (OSum k)
  | KR_Reshape : forall d, opk_rel (OReshape d) (OReshape d)
  | KR_Matmul : forall ta tb, opk_rel (OMatmul ta tb) (OMatmul ta tb)
  | KR_Conv : forall sr sc, opk_rel (OConv sr sc) (OConv sr sc)
  | KR_Relu : opk_rel ORelu ORelu
  | KR_Sigmoid : opk_rel OSigmoid OSigmoid
  | KR_Softmax : opk_rel OSoftmax OSoftmax
  | KR_Axpy : forall a1 a2, opk_rel (OAxpy a1) (OAxpy a2)
  | KR_Custom : forall c, opk_rel (OCustom c) (OCustom c).

  Lemma unary_rel : forall s1 s2 h fwd1 fwd2 code1 code2,
      state_rel s1 s2 ->
      (forall a1 a2, ss a1 a2 -> orel ss (fwd1 a1) (fwd2 a2)) ->
      (forall r1 r2, ss r1 r2 -> crel (code1 r1) (code2 r2)) ->
      orel sh_rel (unary s1 h fwd1 code1) (unary s2 h fwd2 code2).
  Proof.
    intros s1 s2 h fwd1 fwd2 code1 code2 Hs Hf Hc. unfold unary.
    eapply obind_rel; [apply h_arr_rel; exact Hs|]. intros a1 a2 Ha.
    eapply obind_rel; [apply Hf; exact Ha|]. intros r1 r2 Hr.
    apply alloc_if_rel; [exact Hs|exact Hr|apply Hc; exact Hr].
  Qed.

  Lemma binary_rel : forall s1 s2 ha hb fwd1 fwd2 code1 code2,
      state_rel s1 s2 ->
      (forall a1 a2 b1 b2, ss a1 a2 -> ss b1 b2 -> orel ss (fwd1 a1 b1) (fwd2 a2 b2)) ->
      crel code1 code2 ->
      orel sh_rel (binary s1 ha hb fwd1 code1) (binary s2 ha hb fwd2 code2).
  Proof.
    intros s1 s2 ha hb fwd1 fwd2 code1 code2 Hs Hf Hc. unfold binary.
    eapply obind_rel; [apply h_arr_rel; exact Hs|]. intros a1 a2 Ha.
    eapply obind_rel; [apply h_arr_rel; exact Hs|]. intros b1 b2 Hb.
    eapply obind_rel; [apply Hf; assumption|]. intros r1 r2 Hr.
    apply alloc_if_rel; assumption.
  Qed.

  Lemma op_neg_rel : forall s1 s2 h, state_rel s1 s2 -> orel sh_rel (op_neg O1 s1 h) (op_neg O2 s2 h).
  Proof.
    intros. apply unary_rel; [assumption|apply a_neg_rel|intros; constructor].
  Qed.

  Lemma op_add_rel : forall s1 s2 ha hb,
      state_rel s1 s2 -> orel sh_rel (op_add O1 s1 ha hb) (op_add O2 s2 ha hb).
  Proof. intros. apply binary_rel; [assumption|apply a_add_rel|constructor]. Qed.

  Lemma op_mul_rel : forall s1 s2 ha hb,
      state_rel s1 s2 -> orel sh_rel (op_mul O1 s1 ha hb) (op_mul O2 s2 ha hb).
  Proof. intros. apply binary_rel; [assumption|apply a_mul_rel|constructor]. Qed.

  Lemma op_div_rel : forall s1 s2 ha hb,
      state_rel s1 s2 -> orel sh_rel (op_div O1 s1 ha hb) (op_div O2 s2 ha hb).
  Proof. intros. apply binary_rel; [assumption|apply a_div_rel|constructor]. Qed.

  Lemma op_scale_rel : forall s1 s2 c1 c2 h,
      state_rel s1 s2 -> orel sh_rel (op_scale O1 s1 c1 h) (op_scale O2 s2 c2 h).
  Proof. intros. apply unary_rel; [assumption|apply a_scale_rel|intros; constructor]. Qed.

  Lemma op_exp_rel : forall s1 s2 h, state_rel s1 s2 -> orel sh_rel (op_exp O1 s1 h) (op_exp O2 s2 h).
  Proof.
    intros. apply unary_rel; [assumption|apply a_exp_rel|].
    intros r1 r2 Hr. constructor. apply same_shape_vals. exact Hr.
  Qed.

  Lemma op_ln_rel : forall s1 s2 h, state_rel s1 s2 -> orel sh_rel (op_ln O1 s1 h) (op_ln O2 s2 h).
  Proof. intros. apply unary_rel; [assumption|apply a_ln_rel|intros; constructor]. Qed.

  Lemma op_powf_rel : forall s1 s2 e1 e2 h,
      state_rel s1 s2 -> orel sh_rel (op_powf O1 s1 e1 h) (op_powf O2 s2 e2 h).
  Proof. intros. apply unary_rel; [assumption|apply a_powf_rel|intros; constructor]. Qed.

  Lemma op_relu_rel : forall s1 s2 h, state_rel s1 s2 -> orel sh_rel (op_relu O1 s1 h) (op_relu O2 s2 h).
  Proof. intros. apply unary_rel; [assumption|apply a_relu_rel|intros; constructor]. Qed.

  Lemma op_sigmoid_rel : forall s1 s2 h,
      state_rel s1 s2 -> orel sh_rel (op_sigmoid O1 s1 h) (op_sigmoid O2 s2 h).
  Proof.
    intros. apply unary_rel; [assumption|apply a_sigmoid_rel|].
    intros r1 r2 Hr. constructor. apply same_shape_vals. exact Hr.
  Qed.

  Lemma op_recip_rel : forall s1 s2 h,
      state_rel s1 s2 ->
      orel sh_rel (unary s1 h (a_reciprocal O1) (fun _ => BRecip))
                  (unary s2 h (a_reciprocal O2) (fun _ => BRecip)).
  Proof. intros. apply unary_rel; [assumption|apply a_reciprocal_rel|intros; constructor]. Qed.

  Lemma op_sum_rel : forall s1 s2 k h,
      state_rel s1 s2 -> orel sh_rel (op_sum O1 s1 k h) (op_sum O2 s2 k h).
  Proof.
    intros s1 s2 k h Hs. unfold op_sum. destruct (k =? 0).
    - split; simpl; [exact Hs|reflexivity].
    - eapply obind_rel; [apply h_arr_rel; exact Hs|]. intros a1 a2 Ha.
      apply unary_rel; [exact Hs|apply a_sum_rel|].
      intros r1 r2 _. rewrite (same_shape_dims _ _ Ha). constructor.
  Qed.

  Lemma op_reshape_rel : forall s1 s2 d h,
      state_rel s1 s2 -> orel sh_rel (op_reshape s1 d h) (op_reshape s2 d h).
  Proof.
    intros s1 s2 d h Hs. unfold op_reshape.
    eapply obind_rel; [apply h_node_rel; exact Hs|]. intros n1 n2 (Hp & _).
    eapply obind_rel; [apply a_reshape_rel; apply pay_arr_rel; exact Hp|]. intros r1 r2 Hr.
    assert (Hb : p_buf (n_pay n1) = p_buf (n_pay n2)) by (destruct Hp as (_ & _ & _ & H & _); exact H).
    rewrite Hb. cbn [orel].
    destruct (e_tracked h); apply alloc_rel; try assumption; [constructor|exact I].
  Qed.

  Lemma op_matmul_rel : forall s1 s2 ta tb ha hb hc,
      state_rel s1 s2 -> orel sh_rel (op_matmul O1 s1 ta tb ha hb hc) (op_matmul O2 s2 ta tb ha hb hc).
  Proof.
    intros s1 s2 ta tb ha hb hc Hs. unfold op_matmul.
    eapply obind_rel; [apply h_arr_rel; exact Hs|]. intros a1 a2 Ha.
    eapply obind_rel; [apply h_arr_rel; exact Hs|]. intros b1 b2 Hb.
    eapply obind_rel with (R := orel ss).
    { destruct hc as [h|]; [|exact I].
      eapply obind_rel; [apply h_arr_rel; exact Hs|]. intros x1 x2 Hx. exact Hx. }
    intros c1 c2 Hc.
    eapply obind_rel; [apply a_matmul_rel; assumption|]. intros r1 r2 Hr.
    destruct (e_tracked ha || e_tracked hb || match hc with Some h => e_tracked h | None => false end).
    - destruct hc as [h|].
      + cbn [orel]. apply alloc_rel; try assumption. constructor.
      + pose proof (alloc_rel s1 s2 (zeros1 O1) (zeros1 O2) [] None None None Hs
                              (zeros1_rel O1 O2) I) as Hz.
        destruct (alloc s1 (zeros1 O1) [] None None) as [t1 h3].
        destruct (alloc s2 (zeros1 O2) [] None None) as [t2 h3'].
        destruct Hz as [Hz1 Hz2]. simpl in Hz1, Hz2. subst h3'.
        cbn [orel]. apply alloc_rel; try assumption. constructor.
    - cbn [orel]. apply alloc_rel; try assumption. exact I.
  Qed.

  Lemma op_unroll_rel : forall s1 s2 h sr sc fr fc,
      state_rel s1 s2 -> orel sh_rel (op_unroll O1 s1 h sr sc fr fc) (op_unroll O2 s2 h sr sc fr fc).
  Proof.
    intros s1 s2 h sr sc fr fc Hs. unfold op_unroll.
    eapply obind_rel; [apply h_arr_rel; exact Hs|]. intros a1 a2 Ha.
    rewrite (same_shape_dims _ _ Ha).
    apply obind_rel_same. intros depth. apply obind_rel_same. intros rows.
    apply obind_rel_same. intros cols.
    eapply obind_rel; [apply unroll_blocks_rel; exact Ha|]. intros r1 r2 Hr.
    apply alloc_if_rel; try assumption. constructor.
  Qed.

  Lemma op_expand_rel : forall s1 s2 h rcount ccount,
      state_rel s1 s2 -> orel sh_rel (op_expand O1 s1 h rcount ccount) (op_expand O2 s2 h rcount ccount).
  Proof.
    intros s1 s2 h rcount ccount Hs. unfold op_expand.
    eapply obind_rel; [apply h_arr_rel; exact Hs|]. intros a1 a2 Ha.
    rewrite (same_shape_dims _ _ Ha).
    apply obind_rel_same. intros fcount.
    eapply obind_rel; [apply expand_conv_rel; exact Ha|]. intros r1 r2 Hr.
    apply alloc_if_rel; try assumption. constructor.
  Qed.

  Lemma op_conv_rel : forall s1 s2 sr sc hi hf,
      state_rel s1 s2 -> orel sh_rel (op_conv O1 s1 sr sc hi hf) (op_conv O2 s2 sr sc hi hf).
  Proof.
    intros s1 s2 sr sc hi hf Hs. unfold op_conv.
    eapply obind_rel; [apply h_arr_rel; exact Hs|]. intros i1 i2 Hi.
    eapply obind_rel; [apply h_arr_rel; exact Hs|]. intros f1 f2 Hf.
    rewrite (same_shape_dims _ _ Hi), (same_shape_dims _ _ Hf).
    apply check_rel; [reflexivity|]. apply check_rel; [reflexivity|].
    apply obind_rel_same. intros depth. apply obind_rel_same. intros rows.
    apply obind_rel_same. intros cols. apply obind_rel_same. intros fr.
    apply obind_rel_same. intros fc. apply obind_rel_same. intros rcount.
    apply obind_rel_same. intros ccount.
    eapply obind_rel; [apply op_unroll_rel; exact Hs|].
    intros [t1 hu] [t2 hu'] [Ht Hh]. simpl in Ht, Hh. subst hu'. cbn beta iota.
    eapply obind_rel; [apply h_arr_rel; exact Ht|]. intros u1 u2 Hu.
    rewrite (same_shape_dims _ _ Hu).
    apply obind_rel_same. intros last.
    eapply obind_rel; [apply op_reshape_rel; exact Ht|].
    intros [v1 hm] [v2 hm'] [Hv Hh]. simpl in Hv, Hh. subst hm'. cbn beta iota.
    eapply obind_rel; [apply op_matmul_rel; exact Hv|].
    intros [w1 hc] [w2 hc'] [Hw Hh]. simpl in Hw, Hh. subst hc'. cbn beta iota.
    apply op_expand_rel. exact Hw.
  Qed.

  Lemma op_sub_rel : forall s1 s2 ha hb,
      state_rel s1 s2 -> orel sh_rel (op_sub O1 s1 ha hb) (op_sub O2 s2 ha hb).
  Proof.
    intros s1 s2 ha hb Hs. unfold op_sub.
    eapply obind_rel; [apply op_neg_rel; exact Hs|].
    intros [t1 hn] [t2 hn'] [Ht Hh]. simpl in Ht, Hh. subst hn'. cbn beta iota.
    apply op_add_rel. exact Ht.
  Qed.

  Lemma op_axpy_rel : forall s1 s2 al1 al2 hx hy,
      state_rel s1 s2 -> orel sh_rel (op_axpy O1 s1 al1 hx hy) (op_axpy O2 s2 al2 hx hy).
  Proof.
    intros s1 s2 al1 al2 hx hy Hs. unfold op_axpy.
    eapply obind_rel; [apply op_scale_rel; exact Hs|].
    intros [t1 hn] [t2 hn'] [Ht Hh]. simpl in Ht, Hh. subst hn'. cbn beta iota.
    apply op_add_rel. exact Ht.
  Qed.

  Lemma op_softmax_rel : forall s1 s2 h,
      state_rel s1 s2 -> orel sh_rel (op_softmax O1 s1 h) (op_softmax O2 s2 h).
  Proof.
    intros s1 s2 h Hs. unfold op_softmax.
    eapply obind_rel; [apply op_exp_rel; exact Hs|].
    intros [t1 he] [t2 he'] [Ht Hh]. simpl in Ht, Hh. subst he'. cbn beta iota.
    eapply obind_rel; [apply op_sum_rel; exact Ht|].
    intros [u1 hs] [u2 hs'] [Hu Hh]. simpl in Hu, Hh. subst hs'. cbn beta iota.
    apply op_div_rel. exact Hu.
  Qed.

  Lemma op_custom_rel : forall s1 s2 c hs,
      state_rel s1 s2 -> orel sh_rel (op_custom O1 s1 c hs) (op_custom O2 s2 c hs).
  Proof.
    intros s1 s2 c hs Hs. unfold op_custom.
    eapply obind_rel with (R := Forall2 ss).
    { apply mapM_same. intros h. apply h_arr_rel. exact Hs. }
    intros l1 l2 Hl.
    eapply obind_rel; [apply custom_forward_rel; exact Hl|]. intros r1 r2 Hr.
    cbn [orel]. apply alloc_rel; try assumption. constructor.
  Qed.

  Theorem apply_op_rel : forall s1 s2 k1 k2 hs,
      state_rel s1 s2 -> opk_rel k1 k2 ->
      orel sh_rel (apply_op O1 s1 k1 hs) (apply_op O2 s2 k2 hs).
  Proof.
    intros s1 s2 k1 k2 hs Hs Hk. unfold apply_op.
    destruct Hk; try (apply op_custom_rel; exact Hs);
      destruct hs as [|ha [|hb [|hc [|hd hs]]]]; try exact I.
    - apply op_add_rel; exact Hs.
    - apply op_sub_rel; exact Hs.
    - apply op_mul_rel; exact Hs.
    - apply op_div_rel; exact Hs.
    - apply op_neg_rel; exact Hs.
    - apply op_scale_rel; exact Hs.
    - apply op_recip_rel; exact Hs.
    - apply op_powf_rel; exact Hs.
    - apply op_ln_rel; exact Hs.
    - apply op_exp_rel; exact Hs.
    - apply op_sum_rel; exact Hs.
    - apply op_reshape_rel; exact Hs.
    - apply op_matmul_rel; exact Hs.
    - apply op_matmul_rel; exact Hs.
    - apply op_conv_rel; exact Hs.
    - apply op_relu_rel; exact Hs.
    - apply op_sigmoid_rel; exact Hs.
    - apply op_softmax_rel; exact Hs.
    - apply op_axpy_rel; exact Hs.
  Qed.

  (** ** Ownership *)

  Lemma gnode_get_rel : forall (g1 : list (@gnode F1)) (g2 : list (@gnode F2)) id,
      nodes_rel g1 g2 -> orel (node_rel pay_rel ss) (nth_error g1 id) (nth_error g2 id).
  Proof. intros g1 g2 id Hg. apply get_rel. exact Hg. Qed.

  Lemma reach_rel : forall fuel g1 g2 todo seen,
      nodes_rel g1 g2 -> reach fuel g1 todo seen = reach fuel g2 todo seen.
  Proof.
    induction fuel as [|fuel IH]; intros g1 g2 todo seen Hg; simpl; [reflexivity|].
    destruct todo as [|id rest]; [reflexivity|].
    destruct (existsb (Nat.eqb id) seen); [apply IH; exact Hg|].
    assert (Hk : match nth_error g1 id with Some nd => map e_node (n_children nd) | None => [] end
                 = match nth_error g2 id with Some nd => map e_node (n_children nd) | None => [] end).
    { pose proof (gnode_get_rel g1 g2 id Hg) as Hn.
      destruct (nth_error g1 id), (nth_error g2 id); simpl in Hn; try contradiction; [|reflexivity].
      destruct Hn as (_ & Hc & _). rewrite Hc. reflexivity. }
    rewrite Hk. apply IH. exact Hg.
  Qed.

  Lemma buf_of_rel : forall g1 g2 id, nodes_rel g1 g2 -> buf_of g1 id = buf_of g2 id.
  Proof.
    intros g1 g2 id Hg. unfold buf_of.
    pose proof (gnode_get_rel g1 g2 id Hg) as Hn.
    destruct (nth_error g1 id), (nth_error g2 id); simpl in Hn; try contradiction; [|reflexivity].
    destruct Hn as ((_ & _ & _ & Hb & _) & _). exact Hb.
  Qed.

  Lemma roots_rel : forall s1 s2, state_rel s1 s2 -> roots s1 = roots s2.
  Proof.
    intros s1 s2 Hs. unfold roots.
    rewrite (st_pool_eq _ _ Hs), (st_layers_eq _ _ Hs), (st_output_eq _ _ Hs). reflexivity.
  Qed.

  Lemma edges_rel : forall g1 g2,
      nodes_rel g1 g2 ->
      fold_right (fun (nd : node (@pay F1) (arr F1)) acc => length (n_children nd) + acc) 0 g1
      = fold_right (fun (nd : node (@pay F2) (arr F2)) acc => length (n_children nd) + acc) 0 g2.
  Proof.
    intros g1 g2 Hg. induction Hg as [|n1 n2 g1 g2 Hn Hg IH]; simpl; [reflexivity|].
    destruct Hn as (_ & Hc & _). rewrite Hc, IH. reflexivity.
  Qed.

  Lemma count_if_ext : forall {A} (f g : A -> bool) l,
      (forall a, f a = g a) -> count_if f l = count_if g l.
  Proof.
    intros A f g l H. unfold count_if. induction l as [|a l IH]; simpl; [reflexivity|].
    rewrite H. destruct (g a); simpl; congruence.
  Qed.

  Lemma fold_right_ext2 : forall {A B} (f g : A -> B -> B) b l,
      (forall a acc, f a acc = g a acc) -> fold_right f b l = fold_right g b l.
  Proof. intros A B f g b l H. induction l as [|a l IH]; simpl; [reflexivity|]. rewrite IH. apply H. Qed.

  Theorem strong_count_rel : forall s1 s2 b,
      state_rel s1 s2 -> strong_count s1 b = strong_count s2 b.
  Proof.
    intros s1 s2 b Hs. unfold strong_count. cbv zeta.
    pose proof (st_nodes_rel _ _ Hs) as Hg.
    assert (Hlen : length (st_nodes s1) = length (st_nodes s2)) by (apply (F2_length _ _ _ Hg)).
    rewrite (roots_rel _ _ Hs), (edges_rel _ _ Hg), Hlen.
    rewrite (reach_rel _ _ _ _ _ Hg).
    f_equal.
    - apply count_if_ext. intros h. rewrite (buf_of_rel _ _ _ Hg). reflexivity.
    - apply fold_right_ext2. intros id acc.
      pose proof (gnode_get_rel _ _ id Hg) as Hn.
      destruct (nth_error (st_nodes s1) id) as [n1|], (nth_error (st_nodes s2) id) as [n2|];
        simpl in Hn; try contradiction; [|reflexivity].
      destruct Hn as ((_ & _ & Hb & Hbuf & _) & Hc & _). rewrite Hc, Hbuf.
      f_equal. f_equal.
      + apply count_if_ext. intros h. rewrite (buf_of_rel _ _ _ Hg). reflexivity.
      + destruct (p_bop (n_pay n1)) as [c1|], (p_bop (n_pay n2)) as [c2|]; simpl in Hb;
          try contradiction; [|reflexivity].
        destruct Hb; reflexivity.
  Qed.

  (** ** Optimizer *)

  Lemma grad_of_rel : forall s1 s2 h, state_rel s1 s2 -> orel ss (grad_of s1 h) (grad_of s2 h).
  Proof.
    intros s1 s2 h Hs. unfold grad_of.
    pose proof (h_node_rel _ _ h Hs) as Hn.
    destruct (h_node s1 h), (h_node s2 h); simpl in Hn; try contradiction; [|exact I].
    destruct Hn as (_ & _ & _ & _ & Hg). exact Hg.
  Qed.

  Lemma clear_grad_rel : forall s1 s2 h,
      state_rel s1 s2 -> orel state_rel (clear_grad s1 h) (clear_grad s2 h).
  Proof.
    intros s1 s2 h Hs. unfold clear_grad.
    eapply obind_rel; [apply h_node_rel; exact Hs|]. intros n1 n2 Hn.
    eapply obind_rel.
    { apply put_rel; [apply st_nodes_rel; exact Hs|]. apply set_grad_rel; [exact Hn|exact I]. }
    intros g1 g2 Hg. apply with_nodes_rel; assumption.
  Qed.

  Lemma sgd_zip_length : forall {F} (O : ScalarOps F) lr xs gs, length (sgd_zip O lr xs gs) = length xs.
  Proof.
    intros F O lr xs. induction xs as [|x xs IH]; intros [|g gs]; simpl; try reflexivity.
    rewrite IH. reflexivity.
  Qed.

  Lemma frozen_rel : forall s1 s2 params taken,
      state_rel s1 s2 ->
      frozen_flags s1 taken params = frozen_flags s2 taken params.
  Proof.
    intros s1 s2 params. induction params as [|h params IH]; intros taken Hs; [reflexivity|].
    cbn [frozen_flags]. pose proof (grad_of_rel _ _ h Hs) as Hg.
    destruct (grad_of s1 h), (grad_of s2 h); simpl in Hg; try contradiction.
    - destruct (existsb (Nat.eqb (e_node h)) taken); f_equal; apply IH; exact Hs.
    - f_equal. apply IH. exact Hs.
  Qed.

  Definition upd_rel (a : @state F1 * list F1 * list handle) (b : @state F2 * list F2 * list handle)
    : Prop :=
    state_rel (fst (fst a)) (fst (fst b)) /\ leq (snd (fst a)) (snd (fst b)) /\ snd a = snd b.

  Theorem gd_update_rel : forall s1 s2 lr1 lr2 params,
      state_rel s1 s2 ->
      orel (prel state_rel eq) (gd_update O1 s1 lr1 params) (gd_update O2 s2 lr2 params).
  Proof.
    intros s1 s2 lr1 lr2 params Hs. unfold gd_update. cbv zeta.
    rewrite (frozen_rel _ _ params [] Hs).
    set (frozen := frozen_flags s2 [] params).
    set (unfrozen := map fst (filter (fun p : handle * bool => negb (snd p)) (combine params frozen))).
    eapply obind_rel with (R := Forall2 leq).
    { apply mapM_same. intros h.
      eapply obind_rel; [apply h_arr_rel; exact Hs|]. intros a1 a2 Ha.
      apply same_shape_vals. exact Ha. }
    intros pv1 pv2 Hpv.
    eapply obind_rel with (R := Forall2 leq).
    { apply mapM_same. intros h.
      eapply obind_rel; [apply grad_of_rel; exact Hs|]. intros a1 a2 Ha.
      apply same_shape_vals. exact Ha. }
    intros pg1 pg2 Hpg.
    eapply obind_rel with (R := state_rel).
    { apply (fold_left_rel_same (orel state_rel)); [|exact Hs].
      intros acc1 acc2 h Hacc.
      eapply obind_rel; [exact Hacc|]. intros t1 t2 Ht. apply clear_grad_rel. exact Ht. }
    intros t1 t2 Ht.
    eapply obind_rel with (R := upd_rel).
    { apply (fold_left_rel_same (orel upd_rel)).
      - intros acc1 acc2 [h fz] Hacc.
        eapply obind_rel; [exact Hacc|].
        intros [[u1 buf1] out1] [[u2 buf2] out2] (Hu & Hbuf & Hout). simpl in Hu, Hbuf, Hout.
        subst out2. cbn beta iota. cbn [fst snd].
        destruct fz.
        + split; [exact Hu|split; [exact Hbuf|reflexivity]].
        + eapply obind_rel; [apply h_arr_rel; exact Hu|]. intros a1 a2 Ha.
          destruct Ha as [Hd Hv]. rewrite Hd, Hv. unfold leq in Hbuf. rewrite Hbuf.
          apply check_rel; [reflexivity|].
          eapply obind_rel.
          { apply mk_rel. apply firstn_leq. exact Hbuf. }
          intros na1 na2 Hna.
          pose proof (alloc_rel u1 u2 na1 na2 [] None None None Hu Hna I) as Hal.
          destruct (alloc u1 na1 [] None None) as [w1 h1].
          destruct (alloc u2 na2 [] None None) as [w2 h2].
          destruct Hal as [Hw Hh]. simpl in Hw, Hh. subst h2.
          split; [exact Hw|split; [apply skipn_leq; exact Hbuf|reflexivity]].
      - split; [exact Ht|split; [|reflexivity]]. simpl.
        unfold leq. rewrite !sgd_zip_length. apply concat_leq. exact Hpv. }
    intros [[u1 buf1] out1] [[u2 buf2] out2] (Hu & Hbuf & Hout). simpl in Hu, Hbuf, Hout.
    subst out2. split; simpl; [exact Hu|reflexivity].
  Qed.

  (** ** Layers, costs, model *)

  Lemma apply_act_rel : forall s1 s2 a h,
      state_rel s1 s2 -> orel sh_rel (apply_act O1 s1 a h) (apply_act O2 s2 a h).
  Proof.
    intros s1 s2 a h Hs. unfold apply_act. destruct a.
    - split; simpl; [exact Hs|reflexivity].
    - apply op_relu_rel; exact Hs.
    - apply op_sigmoid_rel; exact Hs.
    - apply op_softmax_rel; exact Hs.
  Qed.

  Lemma layer_forward_rel : forall s1 s2 l input,
      state_rel s1 s2 -> orel sh_rel (layer_forward O1 s1 l input) (layer_forward O2 s2 l input).
  Proof.
    intros s1 s2 l input Hs. unfold layer_forward. destruct (l_conv l) as [[sr sc]|].
    - eapply obind_rel; [apply op_conv_rel; exact Hs|].
      intros [t1 hc] [t2 hc'] [Ht Hh]. simpl in Ht, Hh. subst hc'. cbn beta iota.
      eapply obind_rel; [apply op_add_rel; exact Ht|].
      intros [u1 h] [u2 h'] [Hu Hh]. simpl in Hu, Hh. subst h'. cbn beta iota.
      apply apply_act_rel. exact Hu.
    - eapply obind_rel; [apply op_matmul_rel; exact Hs|].
      intros [t1 h] [t2 h'] [Ht Hh]. simpl in Ht, Hh. subst h'. cbn beta iota.
      apply apply_act_rel. exact Ht.
  Qed.

  Lemma model_forward_rel : forall s1 s2 input,
      state_rel s1 s2 -> orel sh_rel (model_forward O1 s1 input) (model_forward O2 s2 input).
  Proof.
    intros s1 s2 input Hs. unfold model_forward. rewrite (st_layers_eq _ _ Hs).
    eapply obind_rel with (R := sh_rel).
    { apply (fold_left_rel_same (orel sh_rel)); [|split; simpl; [exact Hs|reflexivity]].
      intros acc1 acc2 l Hacc.
      eapply obind_rel; [exact Hacc|].
      intros [t1 h] [t2 h'] [Ht Hh]. simpl in Ht, Hh. subst h'. cbn beta iota.
      apply layer_forward_rel. exact Ht. }
    intros [t1 h] [t2 h'] [Ht Hh]. simpl in Ht, Hh. subst h'. cbn beta iota.
    split; simpl; [|reflexivity]. apply with_output_rel. exact Ht.
  Qed.

  Lemma cost_apply_rel : forall s1 s2 c output target,
      state_rel s1 s2 ->
      orel sh_rel (cost_apply O1 s1 c output target) (cost_apply O2 s2 c output target).
  Proof.
    intros s1 s2 c output target Hs. unfold cost_apply.
    eapply obind_rel; [apply h_arr_rel; exact Hs|]. intros o1 o2 Ho.
    destruct c.
    - eapply obind_rel; [apply op_sub_rel; exact Hs|].
      intros [t1 d] [t2 d'] [Ht Hh]. simpl in Ht, Hh. subst d'. cbn beta iota.
      eapply obind_rel; [apply op_powf_rel; exact Ht|].
      intros [u1 p] [u2 p'] [Hu Hh]. simpl in Hu, Hh. subst p'. cbn beta iota.
      apply op_scale_rel. exact Hu.
    - rewrite (same_shape_dims _ _ Ho). apply obind_rel_same. intros batch.
      eapply obind_rel; [apply op_neg_rel; exact Hs|].
      intros [t1 nt] [t2 nt'] [Ht Hh]. simpl in Ht, Hh. subst nt'. cbn beta iota.
      eapply obind_rel; [apply op_ln_rel; exact Ht|].
      intros [u1 lo] [u2 lo'] [Hu Hh]. simpl in Hu, Hh. subst lo'. cbn beta iota.
      eapply obind_rel; [apply op_mul_rel; exact Hu|].
      intros [v1 m] [v2 m'] [Hv Hh]. simpl in Hv, Hh. subst m'. cbn beta iota.
      apply op_scale_rel. exact Hv.
  Qed.

  Lemma model_backward_rel : forall s1 s2 target,
      state_rel s1 s2 ->
      orel (prel state_rel TT) (model_backward O1 s1 target) (model_backward O2 s2 target).
  Proof.
    intros s1 s2 target Hs. unfold model_backward.
    rewrite (st_output_eq _ _ Hs), (st_cost_eq _ _ Hs).
    apply obind_rel_same. intros output.
    eapply obind_rel; [apply cost_apply_rel; exact Hs|].
    intros [t1 err] [t2 err'] [Ht Hh]. simpl in Ht, Hh. subst err'. cbn beta iota.
    eapply obind_rel.
    { apply (run_backward_rel pay_rel ss (E O1) (E O2) E_rel); [apply st_nodes_rel; exact Ht|exact I]. }
    intros res1 res2 [Hres _].
    eapply obind_rel; [apply h_arr_rel; exact Ht|]. intros ea1 ea2 _.
    split; simpl; [|exact I]. apply with_nodes_rel; assumption.
  Qed.

  Lemma model_params_rel : forall s1 s2, state_rel s1 s2 -> model_params s1 = model_params s2.
  Proof. intros s1 s2 Hs. unfold model_params. rewrite (st_layers_eq _ _ Hs). reflexivity. Qed.

  Lemma model_update_rel : forall s1 s2,
      state_rel s1 s2 -> orel state_rel (model_update O1 s1) (model_update O2 s2).
  Proof.
    intros s1 s2 Hs. unfold model_update. rewrite (model_params_rel _ _ Hs).
    eapply obind_rel; [apply gd_update_rel; exact Hs|].
    intros [t1 hs] [t2 hs'] [Ht Hh]. simpl in Ht, Hh. subst hs'. cbn beta iota.
    rewrite (st_layers_eq _ _ Ht). apply with_layers_rel. exact Ht.
  Qed.

  Inductive layer_spec_rel : @layer_spec F1 -> @layer_spec F2 -> Prop :=
  | LR_Dense : forall nin nout a w1 w2 b1 b2,
      leq w1 w2 -> leq b1 b2 ->
      layer_spec_rel (LDense nin nout a w1 b1) (LDense nin nout a w2 b2)
  | LR_Conv : forall count depth fr fc sr sc a f1 f2 b1 b2,
      leq f1 f2 -> leq b1 b2 ->
      layer_spec_rel (LConv count depth fr fc sr sc a f1 b1) (LConv count depth fr fc sr sc a f2 b2).

  Lemma make_layer_rel : forall s1 s2 l1 l2,
      state_rel s1 s2 -> layer_spec_rel l1 l2 ->
      orel (prel state_rel eq) (make_layer s1 l1) (make_layer s2 l2).
  Proof.
    intros s1 s2 l1 l2 Hs Hl. unfold make_layer. destruct Hl as [nin nout a w1 w2 b1 b2 Hw Hb
                                                                | count depth fr fc sr sc a f1 f2 b1 b2 Hf Hb].
    - eapply obind_rel; [apply mk_rel; exact Hw|]. intros wa1 wa2 Hwa.
      eapply obind_rel; [apply mk_rel; exact Hb|]. intros ba1 ba2 Hba.
      pose proof (alloc_rel s1 s2 wa1 wa2 [] None None None Hs Hwa I) as Hal.
      destruct (alloc s1 wa1 [] None None) as [t1 hw].
      destruct (alloc s2 wa2 [] None None) as [t2 hw'].
      destruct Hal as [Ht Hh]. simpl in Ht, Hh. subst hw'.
      pose proof (alloc_rel t1 t2 ba1 ba2 [] None None None Ht Hba I) as Hal.
      destruct (alloc t1 ba1 [] None None) as [u1 hb].
      destruct (alloc t2 ba2 [] None None) as [u2 hb'].
      destruct Hal as [Hu Hh]. simpl in Hu, Hh. subst hb'.
      split; simpl; [exact Hu|reflexivity].
    - eapply obind_rel; [apply mk_rel; exact Hf|]. intros wa1 wa2 Hwa.
      eapply obind_rel; [apply mk_rel; exact Hb|]. intros ba1 ba2 Hba.
      pose proof (alloc_rel s1 s2 wa1 wa2 [] None None None Hs Hwa I) as Hal.
      destruct (alloc s1 wa1 [] None None) as [t1 hw].
      destruct (alloc s2 wa2 [] None None) as [t2 hw'].
      destruct Hal as [Ht Hh]. simpl in Ht, Hh. subst hw'.
      pose proof (alloc_rel t1 t2 ba1 ba2 [] None None None Ht Hba I) as Hal.
      destruct (alloc t1 ba1 [] None None) as [u1 hb].
      destruct (alloc t2 ba2 [] None None) as [u2 hb'].
      destruct Hal as [Hu Hh]. simpl in Hu, Hh. subst hb'.
      split; simpl; [exact Hu|reflexivity].
  Qed.

  (** ** Instructions and observations *)

  Definition seed_rel (p : list nat * list F1) (q : list nat * list F2) : Prop :=
    fst p = fst q /\ leq (snd p) (snd q).

  (** the same instruction: equal naturals, booleans and variable indices, related
      operation kinds, scalar lists of equal lengths, scalars unconstrained *)
  Inductive instr_rel : @instr F1 -> @instr F2 -> Prop :=
  | IR_Leaf : forall d v1 v2 t, leq v1 v2 -> instr_rel (ILeaf d v1 t) (ILeaf d v2 t)
  | IR_Zeros : forall d, instr_rel (IZeros d) (IZeros d)
  | IR_FromFlat : forall v1 v2, leq v1 v2 -> instr_rel (IFromFlat v1) (IFromFlat v2)
  | IR_FromArrays : forall hs, instr_rel (IFromArrays hs) (IFromArrays hs)
  | IR_Op : forall k1 k2 args, opk_rel k1 k2 -> instr_rel (IOp k1 args) (IOp k2 args)
  | IR_Clone : forall h, instr_rel (IClone h) (IClone h)
  | IR_Drop : forall h, instr_rel (IDrop h) (IDrop h)
  | IR_Tracked : forall h, instr_rel (ITracked h) (ITracked h)
  | IR_Untracked : forall h, instr_rel (IUntracked h) (IUntracked h)
  | IR_Start : forall h, instr_rel (IStart h) (IStart h)
  | IR_Stop : forall h, instr_rel (IStop h) (IStop h)
  | IR_Backward : forall h sd1 sd2, orel seed_rel sd1 sd2 -> instr_rel (IBackward h sd1) (IBackward h sd2)
  | IR_Grad : forall h, instr_rel (IGrad h) (IGrad h)
  | IR_ClearGrad : forall h, instr_rel (IClearGrad h) (IClearGrad h)
  | IR_FetchGrad : forall h, instr_rel (IFetchGrad h) (IFetchGrad h)
  | IR_TakeVec : forall h, instr_rel (ITakeVec h) (ITakeVec h)
  | IR_Index : forall h idx, instr_rel (IIndex h idx) (IIndex h idx)
  | IR_IndexFlat : forall h i, instr_rel (IIndexFlat h i) (IIndexFlat h i)
  | IR_Eq : forall h1 h2, instr_rel (IEq h1 h2) (IEq h1 h2)
  | IR_Obs : forall h, instr_rel (IObs h) (IObs h)
  | IR_SumAll : forall h, instr_rel (ISumAll h) (ISumAll h)
  | IR_Update : forall lr1 lr2 hs, instr_rel (IUpdate lr1 hs) (IUpdate lr2 hs)
  | IR_Model : forall ls1 ls2 c lr1 lr2,
      Forall2 layer_spec_rel ls1 ls2 -> instr_rel (IModel ls1 c lr1) (IModel ls2 c lr2)
  | IR_Forward : forall h, instr_rel (IForward h) (IForward h)
  | IR_ModelBackward : forall h, instr_rel (IModelBackward h) (IModelBackward h)
  | IR_ModelUpdate : instr_rel IModelUpdate IModelUpdate
  | IR_Params : instr_rel IParams IParams.

  (** items: same kind and same naturals, scalar lists of equal length *)
  Definition item_rel (i1 : @item F1) (i2 : @item F2) : Prop :=
    fst i1 = fst i2 /\ leq (snd i1) (snd i2).

  (** the weaker relation claimed for [IEq], whose boolean compares scalar values *)
  Definition item_weak (i1 : @item F1) (i2 : @item F2) : Prop :=
    fst (fst i1) = fst (fst i2) /\ leq (snd (fst i1)) (snd (fst i2)) /\ leq (snd i1) (snd i2).

  Definition obs_rel : @obs F1 -> @obs F2 -> Prop := Forall2 item_rel.
  Definition obs_weak : @obs F1 -> @obs F2 -> Prop := Forall2 item_weak.

  Definition is_eq_instr (i : @instr F1) : bool := match i with IEq _ _ => true | _ => false end.

  Definition obs_rel_for (i : @instr F1) : @obs F1 -> @obs F2 -> Prop :=
    if is_eq_instr i then obs_weak else obs_rel.

  Lemma item_rel_weak : forall i1 i2, item_rel i1 i2 -> item_weak i1 i2.
  Proof.
    intros [[k1 n1] v1] [[k2 n2] v2] [H1 H2]. simpl in *. inversion H1; subst.
    repeat split; simpl; try reflexivity. exact H2.
  Qed.

  Lemma o_arr_rel : forall a1 a2 t, ss a1 a2 -> obs_rel (o_arr a1 t) (o_arr a2 t).
  Proof.
    intros a1 a2 t [Hd Hv]. unfold o_arr. constructor; [|constructor].
    split; simpl; [rewrite Hd; reflexivity|exact Hv].
  Qed.

  Lemma o_bool_rel : forall b, obs_rel (@o_bool F1 b) (@o_bool F2 b).
  Proof. intros b. constructor; [|constructor]. split; simpl; reflexivity. Qed.

  Lemma o_bool_weak : forall b1 b2, obs_weak (@o_bool F1 b1) (@o_bool F2 b2).
  Proof. intros b1 b2. constructor; [|constructor]. repeat split; simpl; reflexivity. Qed.

  Lemma o_grad_rel : forall g1 g2, orel ss g1 g2 -> obs_rel (o_grad g1) (o_grad g2).
  Proof.
    intros [a1|] [a2|] H; simpl in H; try contradiction; unfold o_grad; (constructor; [|constructor]).
    - destruct H as [Hd Hv]. split; simpl; [rewrite Hd; reflexivity|exact Hv].
    - split; simpl; reflexivity.
  Qed.

  Lemma o_val_rel : forall x1 x2, obs_rel (@o_val F1 x1) (@o_val F2 x2).
  Proof. intros. constructor; [|constructor]. split; simpl; reflexivity. Qed.

  Lemma obs_app_rel : forall a1 a2 b1 b2, obs_rel a1 a2 -> obs_rel b1 b2 -> obs_rel (a1 ++ b1) (a2 ++ b2).
  Proof. intros. apply F2_app; assumption. Qed.

  Lemma is_custom_rel : forall s1 s2 id, state_rel s1 s2 -> is_custom s1 id = is_custom s2 id.
  Proof.
    intros s1 s2 id Hs. unfold is_custom.
    pose proof (gnode_get_rel _ _ id (st_nodes_rel _ _ Hs)) as Hn.
    destruct (nth_error (st_nodes s1) id) as [n1|], (nth_error (st_nodes s2) id) as [n2|];
      simpl in Hn; try contradiction; [|reflexivity].
    destruct Hn as ((_ & _ & Hb & _) & _).
    destruct (p_bop (n_pay n1)) as [c1|], (p_bop (n_pay n2)) as [c2|]; simpl in Hb;
      try contradiction; [|reflexivity].
    destruct Hb; reflexivity.
  Qed.

  Lemma tag_of_rel : forall s1 s2 id, state_rel s1 s2 -> tag_of s1 id = tag_of s2 id.
  Proof.
    intros s1 s2 id Hs. unfold tag_of.
    pose proof (gnode_get_rel _ _ id (st_nodes_rel _ _ Hs)) as Hn.
    destruct (nth_error (st_nodes s1) id) as [n1|], (nth_error (st_nodes s2) id) as [n2|];
      simpl in Hn; try contradiction; [|reflexivity].
    destruct Hn as ((_ & _ & _ & _ & Ht) & _). exact Ht.
  Qed.

  Lemma o_log_rel : forall s1 s2 lg1 lg2,
      state_rel s1 s2 -> trace_rel ss lg1 lg2 -> obs_rel (o_log s1 lg1) (o_log s2 lg2).
  Proof.
    intros s1 s2 lg1 lg2 Hs Hlg. unfold o_log.
    apply (F2_map (fun p q => fst p = fst q /\ ss (snd p) (snd q))).
    - intros [id1 d1] [id2 d2] [Hid [Hd Hv]]. simpl in Hid, Hd, Hv. subst id2.
      split; simpl; [|exact Hv]. rewrite (tag_of_rel _ _ id1 Hs), Hd. reflexivity.
    - apply filter_F2; [|exact Hlg].
      intros [id1 d1] [id2 d2] [Hid _]. simpl in Hid. subst id2. simpl.
      apply is_custom_rel. exact Hs.
  Qed.

  Lemma F2_flat_map_same : forall {X A B} (R : A -> B -> Prop) (f : X -> list A) (g : X -> list B) l,
      (forall x, Forall2 R (f x) (g x)) -> Forall2 R (flat_map f l) (flat_map g l).
  Proof.
    intros X A B R f g l H. induction l as [|x l IH]; simpl; [constructor|].
    apply F2_app; [apply H|exact IH].
  Qed.

  Lemma o_params_rel : forall s1 s2, state_rel s1 s2 -> obs_rel (o_params s1) (o_params s2).
  Proof.
    intros s1 s2 Hs. unfold o_params. rewrite (model_params_rel _ _ Hs).
    apply F2_flat_map_same. intros h.
    pose proof (h_arr_rel _ _ h Hs) as Ha.
    destruct (h_arr s1 h), (h_arr s2 h); simpl in Ha; try contradiction; [|constructor].
    apply obs_app_rel; [apply o_arr_rel; exact Ha|apply o_grad_rel; apply grad_of_rel; exact Hs].
  Qed.

  Lemma var_rel : forall s1 s2 i, state_rel s1 s2 -> var s1 i = var s2 i.
  Proof. intros s1 s2 i Hs. unfold var. rewrite (st_pool_eq _ _ Hs). reflexivity. Qed.

  Lemma mapM_ext : forall {A B} (f g : A -> option B) l, (forall a, f a = g a) -> mapM f l = mapM g l.
  Proof. intros A B f g l H. induction l as [|a l IH]; simpl; [reflexivity|]. rewrite H, IH. reflexivity. Qed.

  Lemma push_rel : forall s1 s2 h, state_rel s1 s2 -> state_rel (push s1 h) (push s2 h).
  Proof. intros s1 s2 h Hs. unfold push. rewrite (st_pool_eq _ _ Hs). apply with_pool_rel. exact Hs. Qed.

  Lemma set_var_rel : forall s1 s2 i h,
      state_rel s1 s2 -> orel state_rel (set_var s1 i h) (set_var s2 i h).
  Proof.
    intros s1 s2 i h Hs. unfold set_var. rewrite (st_pool_eq _ _ Hs).
    apply obind_rel_same. intros p. apply with_pool_rel. exact Hs.
  Qed.

  Lemma index_multi_rel : forall a1 a2 idx,
      ss a1 a2 -> orel TT (index_multi a1 idx) (index_multi a2 idx).
  Proof.
    intros a1 a2 idx [Hd Hv]. unfold index_multi. rewrite Hd.
    apply obind_rel_same. intros off. apply nth_error_leq. exact Hv.
  Qed.

  Lemma index_flat_rel : forall a1 a2 i,
      ss a1 a2 -> orel TT (index_flat a1 i) (index_flat a2 i).
  Proof.
    intros a1 a2 i [Hd Hv]. unfold index_flat. rewrite Hv.
    apply check_rel; [reflexivity|]. apply nth_error_leq. exact Hv.
  Qed.

  Definition step_res_rel (i : @instr F1) (r1 : @state F1 * @obs F1) (r2 : @state F2 * @obs F2) : Prop :=
    state_rel (fst r1) (fst r2) /\ obs_rel_for i (snd r1) (snd r2).

  Ltac step_done := split; cbn [fst snd]; [repeat apply push_rel; try assumption|unfold obs_rel_for; cbn [is_eq_instr]].

  Theorem step_rel : forall s1 s2 i1 i2,
      state_rel s1 s2 -> instr_rel i1 i2 ->
      orel (step_res_rel i1) (step O1 s1 i1) (step O2 s2 i2).
  Proof.
    intros s1 s2 i1 i2 Hs0 Hi. unfold step. rewrite (st_pool_eq _ _ Hs0).
    assert (Hs : state_rel (with_tag s1 (length (st_pool s2))) (with_tag s2 (length (st_pool s2))))
      by (apply with_tag_rel; exact Hs0).
    generalize dependent (with_tag s1 (length (st_pool s2))).
    generalize dependent (with_tag s2 (length (st_pool s2))).
    clear s1 s2 Hs0. intros s2 s1 Hs. cbv zeta.
    destruct Hi.
    - (* ILeaf *)
      eapply obind_rel; [apply mk_rel; eassumption|]. intros a1 a2 Ha.
      pose proof (alloc_rel s1 s2 a1 a2 [] None None None Hs Ha I) as Hal.
      destruct (alloc s1 a1 [] None None) as [t1 h1].
      destruct (alloc s2 a2 [] None None) as [t2 h2].
      destruct Hal as [Ht Hh]. simpl in Ht, Hh. subst h2.
      step_done. apply o_arr_rel. exact Ha.
    - (* IZeros *)
      eapply obind_rel; [apply zeros_rel|]. intros a1 a2 Ha.
      pose proof (alloc_rel s1 s2 a1 a2 [] None None None Hs Ha I) as Hal.
      destruct (alloc s1 a1 [] None None) as [t1 h1].
      destruct (alloc s2 a2 [] None None) as [t2 h2].
      destruct Hal as [Ht Hh]. simpl in Ht, Hh. subst h2.
      step_done. apply o_arr_rel. exact Ha.
    - (* IFromFlat *)
      eapply obind_rel; [apply from_flat_rel; eassumption|]. intros a1 a2 Ha.
      pose proof (alloc_rel s1 s2 a1 a2 [] None None None Hs Ha I) as Hal.
      destruct (alloc s1 a1 [] None None) as [t1 h1].
      destruct (alloc s2 a2 [] None None) as [t2 h2].
      destruct Hal as [Ht Hh]. simpl in Ht, Hh. subst h2.
      step_done. apply o_arr_rel. exact Ha.
    - (* IFromArrays *)
      eapply obind_rel with (R := Forall2 ss).
      { apply mapM_same. intros i. rewrite (var_rel _ _ i Hs).
        apply obind_rel_same. intros h. apply h_arr_rel. exact Hs. }
      intros l1 l2 Hl.
      eapply obind_rel; [apply from_arrays_rel; exact Hl|]. intros a1 a2 Ha.
      pose proof (alloc_rel s1 s2 a1 a2 [] None None None Hs Ha I) as Hal.
      destruct (alloc s1 a1 [] None None) as [t1 h1].
      destruct (alloc s2 a2 [] None None) as [t2 h2].
      destruct Hal as [Ht Hh]. simpl in Ht, Hh. subst h2.
      step_done. apply o_arr_rel. exact Ha.
    - (* IOp *)
      rewrite (mapM_ext (var s1) (var s2) args (fun i => var_rel _ _ i Hs)).
      apply obind_rel_same. intros hs.
      eapply obind_rel; [apply apply_op_rel; eassumption|].
      intros [t1 h] [t2 h'] [Ht Hh]. simpl in Ht, Hh. subst h'. cbn beta iota.
      eapply obind_rel; [apply h_arr_rel; exact Ht|]. intros a1 a2 Ha.
      step_done. apply o_arr_rel. exact Ha.
    - (* IClone *)
      rewrite (var_rel _ _ h Hs). apply obind_rel_same. intros x.
      step_done. constructor.
    - (* IDrop *)
      rewrite (var_rel _ _ h Hs). apply obind_rel_same. intros x.
      eapply obind_rel; [apply set_var_rel; exact Hs|]. intros t1 t2 Ht.
      step_done. constructor.
    - (* ITracked *)
      rewrite (var_rel _ _ h Hs). apply obind_rel_same. intros x.
      eapply obind_rel; [apply set_var_rel; exact Hs|]. intros t1 t2 Ht.
      step_done. constructor.
    - (* IUntracked *)
      rewrite (var_rel _ _ h Hs). apply obind_rel_same. intros x.
      eapply obind_rel; [apply set_var_rel; exact Hs|]. intros t1 t2 Ht.
      step_done. constructor.
    - (* IStart *)
      rewrite (var_rel _ _ h Hs). apply obind_rel_same. intros x.
      eapply obind_rel; [apply set_var_rel; exact Hs|]. intros t1 t2 Ht.
      step_done. apply o_bool_rel.
    - (* IStop *)
      rewrite (var_rel _ _ h Hs). apply obind_rel_same. intros x.
      eapply obind_rel; [apply set_var_rel; exact Hs|]. intros t1 t2 Ht.
      step_done. apply o_bool_rel.
    - (* IBackward *)
      rewrite (var_rel _ _ h Hs). apply obind_rel_same. intros x.
      eapply obind_rel with (R := orel ss).
      { destruct sd1 as [[d1 v1]|], sd2 as [[d2 v2]|]; simpl in H; try contradiction; [|exact I].
        destruct H as [Hd Hv]. simpl in Hd, Hv. subst d2.
        eapply obind_rel; [apply mk_rel; exact Hv|]. intros a1 a2 Ha. exact Ha. }
      intros sd1' sd2' Hsd.
      eapply obind_rel.
      { apply (run_backward_rel pay_rel ss (E O1) (E O2) E_rel); [apply st_nodes_rel; exact Hs|exact Hsd]. }
      intros r1 r2 [Hr1 Hr2].
      assert (Ht : state_rel (with_nodes s1 (fst r1)) (with_nodes s2 (fst r2)))
        by (apply with_nodes_rel; assumption).
      step_done. apply o_log_rel; assumption.
    - (* IGrad *)
      rewrite (var_rel _ _ h Hs). apply obind_rel_same. intros x.
      step_done. apply o_grad_rel. apply grad_of_rel. exact Hs.
    - (* IClearGrad *)
      rewrite (var_rel _ _ h Hs). apply obind_rel_same. intros x.
      eapply obind_rel; [apply clear_grad_rel; exact Hs|]. intros t1 t2 Ht.
      step_done. apply o_grad_rel. apply grad_of_rel. exact Hs.
    - (* IFetchGrad *)
      rewrite (var_rel _ _ h Hs). apply obind_rel_same. intros x.
      pose proof (grad_of_rel _ _ x Hs) as Hg.
      destruct (grad_of s1 x) as [g1|], (grad_of s2 x) as [g2|]; simpl in Hg; try contradiction.
      + pose proof (alloc_rel s1 s2 g1 g2 [] None None None Hs Hg I) as Hal.
        destruct (alloc s1 g1 [] None None) as [t1 h1].
        destruct (alloc s2 g2 [] None None) as [t2 h2].
        destruct Hal as [Ht Hh]. simpl in Ht, Hh. subst h2.
        step_done. apply o_grad_rel. exact Hg.
      + step_done. apply o_grad_rel. exact I.
    - (* ITakeVec *)
      rewrite (var_rel _ _ h Hs). apply obind_rel_same. intros x.
      eapply obind_rel; [apply h_arr_rel; exact Hs|]. intros a1 a2 Ha.
      apply check_rel.
      { rewrite (buf_of_rel _ _ _ (st_nodes_rel _ _ Hs)), (strong_count_rel _ _ _ Hs). reflexivity. }
      eapply obind_rel; [apply set_var_rel; exact Hs|]. intros t1 t2 Ht.
      step_done. constructor; [|constructor]. split; simpl; [reflexivity|].
      apply same_shape_vals. exact Ha.
    - (* IIndex *)
      rewrite (var_rel _ _ h Hs). apply obind_rel_same. intros x.
      eapply obind_rel; [apply h_arr_rel; exact Hs|]. intros a1 a2 Ha.
      eapply obind_rel; [apply index_multi_rel; exact Ha|]. intros v1 v2 _.
      step_done. apply o_val_rel.
    - (* IIndexFlat *)
      rewrite (var_rel _ _ h Hs). apply obind_rel_same. intros x.
      eapply obind_rel; [apply h_arr_rel; exact Hs|]. intros a1 a2 Ha.
      eapply obind_rel; [apply index_flat_rel; exact Ha|]. intros v1 v2 _.
      step_done. apply o_val_rel.
    - (* IEq *)
      rewrite (var_rel _ _ h1 Hs), (var_rel _ _ h2 Hs).
      apply obind_rel_same. intros x. apply obind_rel_same. intros y.
      eapply obind_rel; [apply h_arr_rel; exact Hs|]. intros a1 a2 Ha.
      eapply obind_rel; [apply h_arr_rel; exact Hs|]. intros b1 b2 Hb.
      step_done. apply o_bool_weak.
    - (* IObs *)
      rewrite (var_rel _ _ h Hs). apply obind_rel_same. intros x.
      eapply obind_rel; [apply h_arr_rel; exact Hs|]. intros a1 a2 Ha.
      step_done. apply obs_app_rel; [apply o_arr_rel; exact Ha|].
      apply o_grad_rel. apply grad_of_rel. exact Hs.
    - (* ISumAll *)
      rewrite (var_rel _ _ h Hs). apply obind_rel_same. intros x.
      eapply obind_rel; [apply h_arr_rel; exact Hs|]. intros a1 a2 Ha.
      step_done. apply o_val_rel.
    - (* IUpdate *)
      rewrite (mapM_ext (var s1) (var s2) hs (fun i => var_rel _ _ i Hs)).
      apply obind_rel_same. intros params.
      eapply obind_rel; [apply gd_update_rel; exact Hs|].
      intros [t1 out] [t2 out'] [Ht Hh]. simpl in Ht, Hh. subst out'. cbn beta iota.
      eapply obind_rel with (R := state_rel).
      { apply (fold_left_rel_same (orel state_rel)); [|exact Ht].
        intros acc1 acc2 p Hacc.
        eapply obind_rel; [exact Hacc|]. intros u1 u2 Hu. apply set_var_rel. exact Hu. }
      intros u1 u2 Hu. step_done. constructor.
    - (* IModel *)
      eapply obind_rel with (R := prel state_rel eq).
      { apply (fold_left_rel (orel (prel state_rel eq)) layer_spec_rel); [|eassumption|].
        - intros acc1 acc2 l1 l2 Hacc Hl.
          eapply obind_rel; [exact Hacc|].
          intros [t1 out] [t2 out'] [Ht Hh]. simpl in Ht, Hh. subst out'. cbn beta iota.
          eapply obind_rel; [apply make_layer_rel; eassumption|].
          intros [u1 ly] [u2 ly'] [Hu Hh]. simpl in Hu, Hh. subst ly'. cbn beta iota.
          split; simpl; [exact Hu|reflexivity].
        - split; simpl; [exact Hs|reflexivity]. }
      intros [t1 layers] [t2 layers'] [Ht Hh]. simpl in Ht, Hh. subst layers'. cbn beta iota.
      assert (Hc : state_rel (with_config (with_layers t1 layers) c lr1)
                             (with_config (with_layers t2 layers) c lr2))
        by (apply with_config_rel; apply with_layers_rel; exact Ht).
      step_done. constructor.
    - (* IForward *)
      rewrite (var_rel _ _ h Hs). apply obind_rel_same. intros x.
      eapply obind_rel; [apply model_forward_rel; exact Hs|].
      intros [t1 out] [t2 out'] [Ht Hh]. simpl in Ht, Hh. subst out'. cbn beta iota.
      eapply obind_rel; [apply h_arr_rel; exact Ht|]. intros a1 a2 Ha.
      step_done. apply o_arr_rel. exact Ha.
    - (* IModelBackward *)
      rewrite (var_rel _ _ h Hs). apply obind_rel_same. intros x.
      eapply obind_rel; [apply model_backward_rel; exact Hs|].
      intros [t1 l1] [t2 l2] [Ht _]. simpl in Ht. cbn beta iota.
      step_done. apply o_val_rel.
    - (* IModelUpdate *)
      eapply obind_rel; [apply model_update_rel; exact Hs|]. intros t1 t2 Ht.
      step_done. constructor.
    - (* IParams *)
      step_done. apply o_params_rel. exact Hs.
  Qed.

  (** ** Whole programs *)

  (** observation lists related instruction by instruction *)
  Inductive runs_rel : list (@instr F1) -> list (@obs F1) -> list (@obs F2) -> Prop :=
  | RR_nil : forall p, runs_rel p [] []
  | RR_cons : forall i p o1 o2 os1 os2,
      obs_rel_for i o1 o2 -> runs_rel p os1 os2 -> runs_rel (i :: p) (o1 :: os1) (o2 :: os2).

  Theorem run_from_rel : forall p1 p2 s1 s2,
      Forall2 instr_rel p1 p2 -> state_rel s1 s2 ->
      runs_rel p1 (fst (run_from O1 s1 p1)) (fst (run_from O2 s2 p2)) /\
      snd (run_from O1 s1 p1) = snd (run_from O2 s2 p2).
  Proof.
    intros p1 p2 s1 s2 Hp. revert s1 s2.
    induction Hp as [|i1 i2 p1 p2 Hi Hp IH]; intros s1 s2 Hs; simpl.
    - split; [constructor|reflexivity].
    - pose proof (step_rel s1 s2 i1 i2 Hs Hi) as Hst.
      destruct (step O1 s1 i1) as [[t1 o1]|], (step O2 s2 i2) as [[t2 o2]|];
        simpl in Hst; try contradiction.
      + destruct Hst as [Ht Ho]. simpl in Ht, Ho.
        specialize (IH t1 t2 Ht).
        destruct (run_from O1 t1 p1) as [os1 b1], (run_from O2 t2 p2) as [os2 b2].
        simpl in IH. destruct IH as [IH1 IH2]. simpl. split; [constructor; assumption|exact IH2].
      + simpl. split; [constructor|reflexivity].
  Qed.

  Theorem run_rel : forall p1 p2,
      Forall2 instr_rel p1 p2 ->
      runs_rel p1 (fst (run O1 p1)) (fst (run O2 p2)) /\ snd (run O1 p1) = snd (run O2 p2).
  Proof. intros p1 p2 Hp. unfold run. apply run_from_rel; [exact Hp|apply init_state_rel]. Qed.

  Lemma runs_rel_length : forall p os1 os2, runs_rel p os1 os2 -> length os1 = length os2.
  Proof. intros p os1 os2 H. induction H; simpl; congruence. Qed.

  (** both runs stop after the same number of instructions *)
  Corollary run_same_panic : forall p1 p2,
      Forall2 instr_rel p1 p2 ->
      length (fst (run O1 p1)) = length (fst (run O2 p2)) /\ snd (run O1 p1) = snd (run O2 p2).
  Proof.
    intros p1 p2 Hp. destruct (run_rel p1 p2 Hp) as [H1 H2].
    split; [eapply runs_rel_length; exact H1|exact H2].
  Qed.

  Lemma runs_rel_no_eq : forall p os1 os2,
      forallb (fun i => negb (is_eq_instr i)) p = true ->
      runs_rel p os1 os2 -> Forall2 obs_rel os1 os2.
  Proof.
    intros p os1 os2 Hne H. induction H as [|i p o1 o2 os1 os2 Ho H IH]; [constructor|].
    simpl in Hne. apply andb_true_iff in Hne. destruct Hne as [Hi Hne].
    constructor; [|apply IH; exact Hne].
    unfold obs_rel_for in Ho. destruct (is_eq_instr i); [discriminate Hi|exact Ho].
  Qed.

  (** for programs without [IEq], all observations agree in kinds, naturals and
      lengths of scalar lists *)
  Corollary run_rel_no_eq : forall p1 p2,
      Forall2 instr_rel p1 p2 ->
      forallb (fun i => negb (is_eq_instr i)) p1 = true ->
      Forall2 obs_rel (fst (run O1 p1)) (fst (run O2 p2)) /\ snd (run O1 p1) = snd (run O2 p2).
  Proof.
    intros p1 p2 Hp Hne. destruct (run_rel p1 p2 Hp) as [H1 H2].
    split; [eapply runs_rel_no_eq; eassumption|exact H2].
  Qed.

  (** in general (with [IEq]), kinds, numbers of naturals and of scalars still agree *)
  Lemma runs_rel_weak : forall p os1 os2, runs_rel p os1 os2 -> Forall2 obs_weak os1 os2.
  Proof.
    intros p os1 os2 H. induction H as [|i p o1 o2 os1 os2 Ho H IH]; constructor; [|exact IH].
    unfold obs_rel_for in Ho. destruct (is_eq_instr i); [exact Ho|].
    eapply F2_mono; [|exact Ho]. apply item_rel_weak.
  Qed.
End ProgramRel.

(** * Part 6: converting the scalar constants of a program *)

(** The harness runs the same program text under both float widths; its scalar
    constants are then converted by some function [cast] (for f64 -> f32, rounding).
    Whatever [cast] is, the converted program is related to the original one. *)
Section Cast.
  Context {F1 F2 : Type} (cast : F1 -> F2).

  Definition cast_opk (k : @opk F1) : @opk F2 :=
    match k with
    | OAdd => OAdd | OSub => OSub | OMul => OMul | ODiv => ODiv | ONeg => ONeg
    | OScale c => OScale (cast c) | ORecip => ORecip | OPowf e => OPowf (cast e)
    | OLn => OLn | OExp => OExp | OSum k => OSum k | OReshape d => OReshape d
    | OMatmul ta tb => OMatmul ta tb | OConv sr sc => OConv sr sc
    | ORelu => ORelu | OSigmoid => OSigmoid | OSoftmax => OSoftmax
    | OAxpy alpha => OAxpy (cast alpha) | OCustom c => OCustom c
    end.

  Definition cast_layer (l : @layer_spec F1) : @layer_spec F2 :=
    match l with
    | LDense nin nout a w b => LDense nin nout a (map cast w) (map cast b)
    | LConv count depth fr fc sr sc a f b =>
      LConv count depth fr fc sr sc a (map cast f) (map cast b)
    end.

  Definition cast_instr (i : @instr F1) : @instr F2 :=
    match i with
    | ILeaf d v t => ILeaf d (map cast v) t
    | IZeros d => IZeros d
    | IFromFlat v => IFromFlat (map cast v)
    | IFromArrays hs => IFromArrays hs
    | IOp k args => IOp (cast_opk k) args
    | IClone h => IClone h
    | IDrop h => IDrop h
    | ITracked h => ITracked h
    | IUntracked h => IUntracked h
    | IStart h => IStart h
    | IStop h => IStop h
    | IBackward h seed =>
      IBackward h (match seed with Some (d, v) => Some (d, map cast v) | None => None end)
    | IGrad h => IGrad h
    | IClearGrad h => IClearGrad h
    | IFetchGrad h => IFetchGrad h
    | ITakeVec h => ITakeVec h
    | IIndex h idx => IIndex h idx
    | IIndexFlat h i => IIndexFlat h i
    | IEq h1 h2 => IEq h1 h2
    | IObs h => IObs h
    | ISumAll h => ISumAll h
    | IUpdate lr hs => IUpdate (cast lr) hs
    | IModel ls c lr => IModel (map cast_layer ls) c (cast lr)
    | IForward h => IForward h
    | IModelBackward h => IModelBackward h
    | IModelUpdate => IModelUpdate
    | IParams => IParams
    end.

  Lemma map_cast_leq : forall l : list F1, leq l (map cast l).
  Proof. intros l. unfold leq. rewrite map_length. reflexivity. Qed.

  Lemma cast_opk_rel : forall k, opk_rel k (cast_opk k).
  Proof. intros k. destruct k; simpl; constructor. Qed.

  Lemma cast_layer_rel : forall l, layer_spec_rel l (cast_layer l).
  Proof. intros l. destruct l; simpl; constructor; apply map_cast_leq. Qed.

  Lemma cast_instr_rel : forall i, instr_rel i (cast_instr i).
  Proof.
    intros i. destruct i; simpl; try (constructor; try apply map_cast_leq).
    - apply cast_opk_rel.
    - destruct seed as [[d v]|]; simpl; [|exact I]. split; simpl; [reflexivity|apply map_cast_leq].
    - induction ls as [|l ls IH]; simpl; constructor; [apply cast_layer_rel|exact IH].
  Qed.

  Lemma cast_program_rel : forall p, Forall2 instr_rel p (map cast_instr p).
  Proof. intros p. induction p as [|i p IH]; simpl; constructor; [apply cast_instr_rel|exact IH]. Qed.

  (** C19: for any two scalar instances and any conversion of the constants, the two
      runs panic at the same instruction (or not at all) and their observations agree
      instruction by instruction ([obs_rel_for]: same kinds, same naturals --
      dimensions, tracking flags, creating instructions -- and scalar lists of equal
      lengths; for [IEq] only the kind and the lengths). *)
  Theorem run_cast : forall (O1 : ScalarOps F1) (O2 : ScalarOps F2) (p : list (@instr F1)),
      runs_rel p (fst (run O1 p)) (fst (run O2 (map cast_instr p))) /\
      snd (run O1 p) = snd (run O2 (map cast_instr p)).
  Proof. intros O1 O2 p. apply run_rel. apply cast_program_rel. Qed.
End Cast.

(** * Non-vacuity: the integer instance against the one-point instance *)

Definition unit_ops : ScalarOps unit := {|
  f0 := tt; f1 := tt;
  fadd := fun _ _ => tt; fmul := fun _ _ => tt; fsub := fun _ _ => tt; fdiv := fun _ _ => tt;
  fneg := fun _ => tt; fexp := fun _ => tt; fln := fun _ => tt; fpow := fun _ _ => tt;
  fgt0 := fun _ => false; feqb := fun _ _ => true; fofnat := fun _ => tt
|}.

(** every integer program has the panics, shapes and tracking flags of its scalar-free shadow *)
Corollary run_Z_unit : forall p : list (@instr BinNums.Z),
    runs_rel p (fst (run Z_ops p)) (fst (run unit_ops (map (cast_instr (fun _ => tt)) p))) /\
    snd (run Z_ops p) = snd (run unit_ops (map (cast_instr (fun _ => tt)) p)).
Proof. intros p. apply run_cast. Qed.

Print Assumptions sliced_op_rel.
Print Assumptions element_wise_op_rel.
Print Assumptions a_matmul_rel.
Print Assumptions conv_rel.
Print Assumptions flatten_to_rel.
Print Assumptions run_bop_rel.
Print Assumptions backward_rel.
Print Assumptions step_rel.
Print Assumptions run_rel.
Print Assumptions run_rel_no_eq.
Print Assumptions run_cast.
Print Assumptions run_Z_unit.
