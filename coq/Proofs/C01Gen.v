(** [backward_exact], generic in the side-condition predicate on closures: whatever
    predicate [cpre code d cs] is used, if every closure has its local identity and lifts
    to dual numbers under [cpre], and a matmul without additive term is the matmul with
    [zeros1] under [cpre], then the end-to-end identity holds on stores whose operation
    nodes satisfy [cpre].  ([Proofs/C01Full.v] is the instance [cpre := code_pre2].) *)

From Coq Require Import List Arith Bool Lia PeanoNat.
From Corgi Require Import Lib.OptionMonad Lib.Sums Model.Scalar Model.Arr Model.SlicedOp
     Model.Elementwise Model.Linalg Model.Ops Model.Engine Model.Program
     Proofs.ArrFacts Proofs.EngineDefs Proofs.EngineBase Proofs.Propagate Proofs.AdjointSpec
     Proofs.SweepBase Proofs.SweepAdjoint Proofs.SweepAdjointG Proofs.EngineValue
     Proofs.FlattenSpec Proofs.DualLift Proofs.LocalAdjoint Proofs.OpsWf
     Proofs.HistoryInv Proofs.ValueConcrete Proofs.FwdCode Proofs.CodeSupport
     Proofs.HistoryVC Proofs.C01Concrete.
Import ListNotations.

Section C01Gen.
  Context {F : Type} (O : ScalarOps F) (R : is_cring O).

  Local Notation pay := (@pay F).
  Local Notation gnode := (@gnode F).
  Local Notation E := (Program.E O).
  Local Notation E' := (ValueConcrete.E' O).
  Local Notation D2 := (dual_ops O).

  Variable cpre : bop_code F -> list nat -> list (arr F) -> Prop.

  Definition pre_ok_gen (g : list gnode) : Prop :=
    forall id nd code,
      nth_error g id = Some nd -> p_bop (n_pay nd) = Some code ->
      cpre code (p_dims (n_pay nd)) (cvals g (n_children nd)).

  Definition code_supported_gen (code : bop_code F) (d : list nat) : Prop :=
    forall (cs ts : list (arr F)) (flags : list bool) (delta : arr F)
           (RD : arr (@dual F)) (ds : list (option (arr F))),
      length cs = arity code -> Forall wf cs -> Forall2 tangent_for cs ts ->
      cpre code d cs ->
      fwd_of_code D2 (inj2 O) code d (lift_children O 0 flags cs ts) = Some RD ->
      code_fits code cs (primal RD) ->
      wf delta -> dims delta = dims RD ->
      run_bop O code cs flags delta = Some ds ->
      exists xs, child_terms O 0 flags cs ts ds xs /\
                 dot O (vals delta) (vals (tangent RD)) = vsum O xs.

  Definition code_liftable_gen (code : bop_code F) (d : list nat) : Prop :=
    forall (cs ts : list (arr F)) (flags : list bool) (v : arr F),
      length cs = arity code -> Forall wf cs -> Forall2 tangent_for cs ts ->
      cpre code d cs ->
      fwd_of_code O (fun s => s) code d cs = Some v ->
      exists RD, fwd_of_code D2 (inj2 O) code d (lift_children O 0 flags cs ts) = Some RD /\
                 primal RD = v.

  Definition nobias_strict_gen : Prop :=
    forall code d (cs : list (arr F)) v,
      Forall wf cs -> cpre code d cs -> matmul_nobias O code cs v ->
      fwd_of_code O (fun s => s) code d cs = Some v.

  Section Graph.
    Variable g : list gnode.
    Variable lt : nat -> arr F.
    Hypothesis Hg : store_good g.
    Hypothesis Hvc : value_consistent O g.
    Hypothesis Hpre : pre_ok_gen g.
    Hypothesis Hsupp : forall code d, code_supported_gen code d.
    Hypothesis Hliftable : forall code d, code_liftable_gen code d.
    Hypothesis Hnb : nobias_strict_gen.
    Hypothesis Hlt : leaf_tangents_ok g lt.

    Local Notation tan := (tan O g lt).

    Lemma op_node_gen : forall n nd code,
        nth_error g n = Some nd -> p_bop (n_pay nd) = Some code ->
        (forall m ndm, m < n -> nth_error g m = Some ndm ->
                       tangent_for (pay_arr (n_pay ndm)) (tan m)) ->
        let es := n_children nd in
        let cs := cvals g es in
        let ts := map (fun e => tan (e_node e)) es in
        exists RD,
          fwd_of_code D2 (inj2 O) code (p_dims (n_pay nd))
                      (lift_children O 0 (map e_tracked es) cs ts) = Some RD /\
          primal RD = pay_arr (n_pay nd) /\ wf RD /\ tan n = tangent RD /\
          Forall wf cs /\ Forall2 tangent_for cs ts /\ length cs = arity code /\
          code_fits code cs (pay_arr (n_pay nd)).
    Proof.
      intros n nd code Hnd Hb IH es cs ts.
      destruct (Hg n nd Hnd) as (Hlt' & Hnok & _ & _ & Hwv & _).
      assert (Hn : n <= length g) by (apply Nat.lt_le_incl; eapply nth_lt; exact Hnd).
      destruct (children_facts O g lt Hg n es Hn Hlt' IH) as [Hwcs Hts].
      fold cs ts in Hwcs, Hts.
      unfold node_ok, node_ok' in Hnok. rewrite Hb in Hnok. destruct Hnok as [Hlen _].
      assert (Hlcs : length cs = arity code) by (unfold cs, cvals; rewrite map_length; exact Hlen).
      pose proof (Hpre n nd code Hnd Hb) as Hp. fold es cs in Hp.
      pose proof (Hvc n nd Hnd) as Hv. unfold node_vc in Hv. rewrite Hb in Hv. cbv zeta in Hv.
      fold es cs in Hv. destruct Hv as [Hfit Hfwd].
      change (dims (pay_arr (n_pay nd))) with (p_dims (n_pay nd)) in Hfwd.
      assert (Hstrict : fwd_of_code O (fun s => s) code (p_dims (n_pay nd)) cs
                        = Some (pay_arr (n_pay nd))).
      { destruct Hfwd as [Hs | Hn']; [exact Hs | eapply Hnb; eassumption]. }
      destruct (Hliftable code _ cs ts (map e_tracked es) _ Hlcs Hwcs Hts Hp Hstrict) as (RD & HRD & Hprim).
      exists RD. split; [exact HRD |]. split; [exact Hprim |].
      split; [eapply fwd_of_code_wf; [| exact HRD]; apply lift_children_wf; assumption |].
      split; [| tauto].
      rewrite (tan_op O g lt n nd code Hnd Hb Hlt'). fold es cs ts. rewrite HRD. reflexivity.
    Qed.

    Lemma tan_ok_below_gen : forall n m ndm,
        m < n -> nth_error g m = Some ndm -> tangent_for (pay_arr (n_pay ndm)) (tan m).
    Proof.
      intro n. induction n as [|k IH]; intros m ndm Hm Hnd; [lia |].
      destruct (Nat.eq_dec m k) as [Heq | Hne]; [| apply (IH m ndm); [lia | exact Hnd]].
      subst m. destruct (p_bop (n_pay ndm)) as [code|] eqn:Hb.
      - destruct (op_node_gen k ndm code Hnd Hb IH) as (RD & _ & Hprim & HwR & Htan & _).
        rewrite Htan. split; [apply tangent_wf; exact HwR |].
        rewrite <- Hprim. reflexivity.
      - rewrite (tan_leaf O g lt k ndm Hnd Hb). apply (Hlt k ndm Hnd Hb).
    Qed.

    Lemma tan_ok_gen : forall m ndm,
        nth_error g m = Some ndm -> tangent_for (pay_arr (n_pay ndm)) (tan m).
    Proof. intros m ndm H. apply (tan_ok_below_gen (S m) m ndm); [lia | exact H]. Qed.

    Lemma H_local_gen : forall n nd delta contrib,
        nth_error g n = Some nd -> hasop E' nd = true -> grad_ok (n_pay nd) delta ->
        contribs E' g n delta = Some contrib ->
        pairF O delta (tan n)
        = ksum (fadd O) (f0 O) (map (pairc (arr F) F (pairF O) tan) contrib).
    Proof.
      intros n nd delta contrib Hnd Hop [Hwd Hdd] Hcs.
      apply contribs_inv in Hcs. destruct Hcs as (nd' & Hnd' & Hcase).
      assert (Heq : nd' = nd) by (unfold Program.gnode in *; congruence). subst nd'.
      destruct Hcase as [[Hop' _] | [_ (pays & ds & Hpays & Hds & Hcf)]]; [congruence |].
      unfold hasop in Hop. cbn [eo_hasop ValueConcrete.E' Program.E] in Hop.
      destruct (p_bop (n_pay nd)) as [code|] eqn:Hb; [| discriminate Hop].
      cbn [eo_bop ValueConcrete.E' Program.E] in Hds. rewrite Hb in Hds. cbn [obind] in Hds.
      rewrite (mapM_child_pay g _ pays Hpays) in Hds.
      destruct (op_node_gen n nd code Hnd Hb (fun m ndm _ H => tan_ok_gen m ndm H))
        as (RD & HRD & Hprim & HwR & Htan & Hwcs & Hts & Hlen & Hfit).
      cbv zeta in *.
      pose proof (Hpre n nd code Hnd Hb) as Hp.
      assert (HdR : dims delta = dims RD).
      { rewrite Hdd. change (dims RD) with (dims (primal RD)). rewrite Hprim. reflexivity. }
      rewrite <- Hprim in Hfit.
      destruct (Hsupp code _ _ _ _ delta RD ds Hlen Hwcs Hts Hp HRD Hfit Hwd HdR Hds)
        as (xs & Hterms & Hdot).
      unfold pairF at 1. rewrite Htan, Hdot.
      apply (cfold_terms O R g lt (n_children nd) ds xs contrib).
      - apply (child_terms_cterms O _ 0) in Hterms; [exact Hterms |].
        rewrite map_length. unfold cvals. rewrite map_length. reflexivity.
      - intros j e d He Hd.
        assert (Hds' : eo_bop E (n_pay nd) pays (map e_tracked (n_children nd)) delta = Some ds).
        { cbn [eo_bop Program.E]. rewrite Hb. cbn [obind].
          rewrite (mapM_child_pay g _ pays Hpays). exact Hds. }
        destruct (store_good_contract O g Hg n nd pays delta ds Hnd Hds') as [_ Hiff].
        apply (Hiff j e He). exists d. exact Hd.
      - exact Hcf.
    Qed.

    Theorem backward_exact_gen : forall r keep seed s0 ndr g' log,
        grads_empty g -> r < length g -> nth_error g r = Some ndr ->
        seed_of E g r seed = Some s0 ->
        (forall sd, seed = Some sd -> wf sd /\ dims sd = p_dims (n_pay ndr)) ->
        run_backward E g r keep seed = Some (g', log) ->
        dot O (vals s0) (vals (tan r)) = leaf_pairing O g g' lt r.
    Proof.
      intros r keep seed s0 ndr g' log Hempty Hr Hndr Hseed Hsd Hrun.
      destruct (pass_value_concrete O R g r keep seed s0 ndr g' log Hg Hr Hndr Hseed Hsd Hrun)
        as (_ & Hs0 & tab & Htab & Hlen & _ & _ & _ & _ & H4 & H5a & _ & _ & _ & Hg').
      destruct (adjoint_identity_g E' g (arr F) F (f0 O) (fadd O)
                                   (cr_add_assoc O R) (cr_add_comm O R) (cr_add_0_l O R)
                                   (pairF O) tan grad_ok (G_add' O) (G_contribs' O g)
                                   (H_pair_add' O R) H_local_gen
                                   r s0 tab ndr (store_good_wfg O g Hg) Hndr Hs0 Htab)
        as (_ & Hid).
      change (pairF O s0 (tan r) = leaf_pairing O g g' lt r). rewrite Hid.
      rewrite (ksum_vsum O R). unfold leaf_pairing.
      rewrite (filter_ext (fun m => negb (isop E' g m)) (is_leaf g))
        by (intro m; symmetry; apply is_leaf_isop).
      f_equal. apply map_ext_in. intros m Hm. apply filter_In in Hm. destruct Hm as [Hm Hleaf].
      apply in_seq in Hm.
      assert (Hmg : m < length g) by lia.
      destruct (nth_error g m) as [nd|] eqn:Hnd; [| apply nth_error_None in Hnd; nlia].
      assert (Hlen' : length g' = length g).
      { destruct (pass_good O g r keep seed g' log Hg Hr) as [_ Hl]; [| exact Hrun | exact Hl].
        intros sd nd0 Hs Hn0. rewrite Hndr in Hn0. injection Hn0 as Hn0. subst nd0.
        apply Hsd. exact Hs. }
      destruct (nth_error g' m) as [nd'|] eqn:Hnd'; [| apply nth_error_None in Hnd'; nlia].
      unfold grad_at. unfold is_leaf in Hleaf.
      unfold Program.gnode in Hleaf, Hnd, Hnd' |- *. rewrite Hnd'. rewrite Hnd in Hleaf.
      destruct (p_bop (n_pay nd)) as [code|] eqn:Hb; [discriminate Hleaf |].
      assert (Hch : n_children nd = []).
      { destruct (Hg m nd Hnd) as (_ & Hnok & _). unfold node_ok, node_ok' in Hnok.
        rewrite Hb in Hnok. exact Hnok. }
      rewrite (tan_leaf O g lt m nd Hnd Hb).
      rewrite nth_nth_error.
      destruct (nth_error tab m) as [[delta|]|] eqn:Ht.
      - pose proof (H5a m nd nd' delta Hnd Hnd' Ht Hch) as Hst.
        unfold stored in Hst. rewrite (Hempty m nd Hnd) in Hst. rewrite Hst. reflexivity.
      - destruct (H4 m nd nd' Hnd Hnd') as [Hsame | (delta & Hd & _)]; [| congruence].
        rewrite Hsame, (Hempty m nd Hnd). reflexivity.
      - destruct (H4 m nd nd' Hnd Hnd') as [Hsame | (delta & Hd & _)]; [| congruence].
        rewrite Hsame, (Hempty m nd Hnd). reflexivity.
    Qed.
  End Graph.
End C01Gen.

Print Assumptions backward_exact_gen.
