(** Facts about the declarative backward pass [sweep] / [adjoints] of
    Proofs/AdjointSpec.v.  The proofs live in

    - Proofs/SweepBase.v    (S0, S3) shape of the table, dependence on the skeleton only,
                            appending nodes, non-empty slots = reachable nodes;
    - Proofs/SweepAdjoint.v (S2) the adjoint identity (C01);
    - Proofs/SweepLinear.v  (S1) linearity in the seed (C17).

    This file re-exports them and restates the main theorems. *)

From Coq Require Import List Arith Bool Lia.
From Corgi Require Import Lib.OptionMonad Model.Engine Proofs.EngineDefs Proofs.EngineBase
     Proofs.AdjointSpec.
From Corgi Require Export Proofs.SweepBase Proofs.SweepAdjoint Proofs.SweepLinear.
Import ListNotations.

(** * (S0) structure *)

Check @adjoints_shape :
  forall (P D : Type) (E : eops P D) g r s tab,
    wfg E g -> r < length g -> adjoints E g r s = Some tab ->
    length tab = length g /\ nth r tab None = Some s /\
    (forall id, r < id -> nth id tab None = None).

Check @adjoints_skel :
  forall (P D : Type) (E : eops P D) g g' r s,
    skel_eq g g' -> adjoints E g r s = adjoints E g' r s.

Check @adjoints_cells_irrelevant :
  forall (P D : Type) (E : eops P D) g g' r s,
    map sk g = map sk g' -> adjoints E g r s = adjoints E g' r s.

Check @adjoints_app :
  forall (P D : Type) (E : eops P D) g extra r s,
    wfg E g -> r < length g ->
    adjoints E (g ++ extra) r s =
    option_map (fun t => t ++ repeat None (length extra)) (adjoints E g r s).

Check @adjoints_reach :
  forall (P D : Type) (E : eops P D) g r s tab,
    wfg E g -> bop_contract E g -> r < length g -> adjoints E g r s = Some tab ->
    forall id, nth id tab None <> None <-> reach g r id.

(** * (S2) the adjoint identity *)

Check @adjoint_identity :
  forall (P D : Type) (E : eops P D) (g : store P D) (T K : Type) (k0 : K) (kadd : K -> K -> K),
    (forall a b c, kadd a (kadd b c) = kadd (kadd a b) c) ->
    (forall a b, kadd a b = kadd b a) ->
    (forall a, kadd k0 a = a) ->
    forall (pair : D -> T -> K) (tan : nat -> T),
      (forall x y z t, eo_add E x y = Some z -> pair z t = kadd (pair x t) (pair y t)) ->
      (forall n nd delta cs,
          nth_error g n = Some nd -> hasop E nd = true -> contribs E g n delta = Some cs ->
          pair delta (tan n) = ksum kadd k0 (map (fun c => pair (snd c) (tan (fst c))) cs)) ->
      forall r s tab,
        wfg E g -> r < length g -> adjoints E g r s = Some tab ->
        pair s (tan r) =
        ksum kadd k0
             (map (fun m => match nth m tab None with
                            | Some d => pair d (tan m)
                            | None => k0
                            end)
                  (filter (fun m => negb (isop E g m)) (seq 0 (S r)))).

(** * (S1) linearity in the seed *)

Check @sweep_linear :
  forall (P D : Type) (E : eops P D) (comb : D -> D -> D),
    (forall p pays saved x y dx dy,
        eo_bop E p pays saved x = Some dx -> eo_bop E p pays saved y = Some dy ->
        eo_bop E p pays saved (comb x y) = Some (map2o comb dx dy)) ->
    (forall x y p x' y',
        eo_flat E x p = Some x' -> eo_flat E y p = Some y' ->
        eo_flat E (comb x y) p = Some (comb x' y')) ->
    (forall x1 x2 y1 y2 x y,
        eo_add E x1 x2 = Some x -> eo_add E y1 y2 = Some y ->
        eo_add E (comb x1 y1) (comb x2 y2) = Some (comb x y)) ->
    forall g r s1 s2 t1 t2,
      wfg E g -> bop_contract E g -> r < length g ->
      adjoints E g r s1 = Some t1 -> adjoints E g r s2 = Some t2 ->
      adjoints E g r (comb s1 s2) = Some (map2o comb t1 t2) /\
      length t1 = length t2 /\
      (forall j, nth j t1 None = None <-> nth j t2 None = None).

Check @sweep_linear_ok :
  forall (P D : Type) (E : eops P D) (comb : D -> D -> D) (ok : D -> D -> Prop),
    (forall p pays saved x y dx dy,
        ok x y ->
        eo_bop E p pays saved x = Some dx -> eo_bop E p pays saved y = Some dy ->
        eo_bop E p pays saved (comb x y) = Some (map2o comb dx dy) /\
        (forall i a b, nth_error dx i = Some (Some a) -> nth_error dy i = Some (Some b) -> ok a b)) ->
    (forall x y p x' y',
        ok x y ->
        eo_flat E x p = Some x' -> eo_flat E y p = Some y' ->
        eo_flat E (comb x y) p = Some (comb x' y') /\ ok x' y') ->
    (forall x1 x2 y1 y2 x y,
        ok x1 y1 -> ok x2 y2 ->
        eo_add E x1 x2 = Some x -> eo_add E y1 y2 = Some y ->
        eo_add E (comb x1 y1) (comb x2 y2) = Some (comb x y) /\ ok x y) ->
    forall g r s1 s2 t1 t2,
      bop_contract E g -> ok s1 s2 ->
      adjoints E g r s1 = Some t1 -> adjoints E g r s2 = Some t2 ->
      adjoints E g r (comb s1 s2) = Some (map2o comb t1 t2) /\
      length t1 = length t2 /\
      (forall j, nth j t1 None = None <-> nth j t2 None = None) /\
      (forall j a b, nth j t1 None = Some a -> nth j t2 None = Some b -> ok a b).

Print Assumptions adjoints_shape.
Print Assumptions adjoints_skel.
Print Assumptions adjoints_cells_irrelevant.
Print Assumptions skel_eq_put.
Print Assumptions adjoints_app.
Print Assumptions adjoints_reach.
Print Assumptions adjoint_identity.
Print Assumptions adjoint_identity_gen.
Print Assumptions sweep_linear.
Print Assumptions sweep_linear_gen.
Print Assumptions sweep_linear_ok.
